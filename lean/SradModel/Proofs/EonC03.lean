import SradModel.Proofs.EonC02
set_option linter.unusedSimpArgs false
set_option linter.unusedVariables false

namespace Srad.Eon.P03
open Srad.Eon Srad.Eon.P02

/-! ### the state invariant linking `will`, `bdseq`, the loop pc, `cs` and the oneshot replies -/

/-- the registered will carries the current bdSeq -/
def SyncP (s : St) : Prop := s.will = some s.bdseq
/-- the node has processed a connection loss (it is offline) and the new will is not registered yet -/
def LagP (s : St) : Prop := ∃ w, s.will = some w ∧ s.bdseq = (w + 1) % 256 ∧ s.online = false
def SL (s : St) : Prop := SyncP s ∨ LagP s
def NoOff (s : St) : Prop := ∀ o, s.cs ≠ some (.offline o)

/-- the loop waits for the reply to oneshot `o` -/
def Await (s : St) (o : Nat) (P : Prop) : Prop :=
  (s.cs = some (.offline o) ∧ reply? s o = none ∧ P) ∨
  (s.cs = none ∧ reply? s o = some (some s.bdseq) ∧ LagP s) ∨
  (s.cs = none ∧ reply? s o = some none ∧ P)

def LoopInv (s : St) : Prop :=
  match s.loop with
  | .start => s.will = none ∧ s.bdseq = 0 ∧ s.online = false ∧ s.cs = none ∧ s.running = false
  | .sel | .polling | .stopCheck | .stopPolling => SyncP s ∧ NoOff s
  | .sendCs m => SyncP s ∧ NoOff s ∧ (∀ o, m = .offline o → reply? s o = none ∧ o < s.nextOneshot)
  | .stopSendCs o => SyncP s ∧ NoOff s ∧ reply? s o = none ∧ o < s.nextOneshot
  | .awaitWill o | .stopAwaitWill o => Await s o (SyncP s)
  | .forceSendCs o => SL s ∧ s.cs ≠ some (.offline o) ∧ reply? s o = none ∧ o < s.nextOneshot
  | .forceAwaitWill o => Await s o (SL s)
  | .sendStopped | .done => SL s

def NodeBusy : NodePc → Bool
  | .waitSub _ | .subDone _ | .birthStart .. | .waitNb .. | .nbDone .. => true
  | _ => false

/-- the loop is in (or past) the shutdown phase -/
def StopPc : LoopPc → Bool
  | .stopCheck | .stopPolling | .stopSendCs _ | .stopAwaitWill _ | .forceSendCs _ | .forceAwaitWill _
  | .sendStopped | .done => true
  | _ => false

def Inv (s : St) : Prop :=
  LoopInv s ∧
  (s.online = true → SyncP s) ∧
  (NodeBusy s.node = true → s.online = true) ∧
  (s.birthed = true → s.online = true) ∧
  (∀ p ∈ s.oneshots, p.1 < s.nextOneshot) ∧
  (∀ o, s.cs = some (.offline o) → o < s.nextOneshot) ∧
  (StopPc s.loop = true → s.stopping = true) ∧
  (s.stop = true → s.stopping = true) ∧
  (∀ u ∈ s.ucalls, u.pc = .cancelStop → s.stopping = true)

theorem Inv_devFrame {s s' : St} (hf : DevFrame s s') (hI : Inv s) : Inv s' := by
  obtain ⟨_, _, _, rfl⟩ := hf
  exact hI

theorem Inv_stimFrame {s s' : St} (hf : StimFrame s s') (hI : Inv s) : Inv s' := by
  obtain ⟨_, _, _, _, _, _, _, rfl⟩ := hf
  exact hI


/-! ### what a node step can do -/

def NodeEff (s s' : St) (o : List Obs) : Prop :=
  (s.node = .idle ∧ s.cs = some .online ∧
     ((s.stopping = true ∧ s' = { s with cs := none } ∧ o = []) ∨
      (s.stopping = false ∧ s.online = true ∧ s' = { s with cs := none, online := true } ∧ o = []) ∨
      (s.stopping = false ∧ s.online = false ∧ ∃ nd cl, NodeBusy nd = true ∧
        s' = { s with cs := none, online := true, node := nd, calls := cl } ∧
        ∃ id dc, o = [.call id .sub none none none false dc]))) ∨
  (s.node = .idle ∧ ∃ w, s.cs = some (.offline w) ∧ s.online = false ∧
      s' = { s with cs := none, oneshots := s.oneshots ++ [(w, none)] } ∧ o = []) ∨
  (s.node = .idle ∧ ∃ w dv, s.cs = some (.offline w) ∧ s.online = true ∧
      s' = { s with cs := none, online := false, birthed := false, bdseq := (s.bdseq + 1) % 256, devs := dv, oneshots := s.oneshots ++ [(w, some ((s.bdseq + 1) % 256))] } ∧ o = []) ∨
  (s.node = .idle ∧ s.cs = some .stopped ∧ s' = { s with cs := none, node := .done } ∧ o = []) ∨
  (∃ nd rq mq lr bi dv, s' = { s with node := nd, rebirthQ := rq, msgQ := mq, lastRebirthReq := lr, birthed := bi, devs := dv } ∧
      (∀ y ∈ o, Minor y = true) ∧ (NodeBusy nd = true → NodeBusy s.node = true ∨ s.birthed = true) ∧
      (bi = true → s.birthed = true ∨ NodeBusy s.node = true)) ∨
  (NodeBusy s.node = true ∧ ∃ nd cl ep, NodeBusy nd = true ∧
      s' = { s with birthed := false, seq := 0, epoch := ep, calls := cl, node := nd } ∧
      ∃ id dc, o = [.bNode, .call id .nbirth none (some 0) (some s.bdseq) false dc])

theorem stepNode_eff {s : St} {dec} {r : St × List Obs} (h : r ∈ stepNode s dec) : NodeEff s r.1 r.2 := by
  unfold stepNode at h
  simp only [nodeBirthStart, handOver, callRes] at h
  repeat' (split at h)
  all_goals simp only [List.mem_append, List.mem_singleton, List.mem_cons, List.not_mem_nil, or_false, false_or] at h
  all_goals subst h
  all_goals first
    | exact .inr (.inr (.inr (.inr (.inl ⟨_, _, _, _, _, _, rfl, by simp [Minor], by simp_all [NodeBusy], by simp_all [NodeBusy]⟩))))
    | exact .inr (.inr (.inr (.inr (.inr ⟨by simp_all [NodeBusy], _, _, _, by simp [NodeBusy], rfl, _, _, rfl⟩))))
    | exact .inr (.inr (.inr (.inl ⟨by assumption, by assumption, rfl, rfl⟩)))
    | exact .inr (.inr (.inl ⟨by assumption, _, _, by assumption, by simp_all, rfl, rfl⟩))
    | exact .inr (.inl ⟨by assumption, _, by assumption, by simp_all, rfl, rfl⟩)
    | exact .inl ⟨by assumption, by assumption, .inl ⟨by simp_all, rfl, rfl⟩⟩
    | exact .inl ⟨by assumption, by assumption, .inr (.inl ⟨by simp_all, by simp_all, rfl, rfl⟩)⟩
    | exact .inl ⟨by assumption, by assumption, .inr (.inr ⟨by simp_all, by simp_all, _, _, by simp [NodeBusy], rfl, _, _, rfl⟩)⟩

/-! ### the effect of a step on the trace, as far as the C03 scanners can see it -/

/-- observations none of the three scanners reacts to -/
def Quiet : Obs → Bool
  | .will _ | .poll | .polled .offline => false
  | .call _ k _ _ _ _ _ => k != .nbirth && k != .ndeath
  | _ => true

/-- `poll` returned an Offline and the new will is not registered yet -/
def SoPc : LoopPc → Bool
  | .awaitWill _ | .sendCs (.offline _) | .stopAwaitWill _ | .stopSendCs _ => true
  | _ => false

inductive Eff (s s' : St) (o : List Obs) : Prop
  | quiet (ho : ∀ y ∈ o, Quiet y = true) (hw : s'.will = s.will)
      (hso : SoPc s'.loop = true → SoPc s.loop = true) (hst : s'.stopping = s.stopping)
  | will0 (h0 : s.will = none) (ho : o = [.will 0]) (hw : s'.will = some 0)
      (hso : SoPc s'.loop = false) (hst : s'.stopping = s.stopping)
  | willN (w : Nat) (h0 : s.will = some w) (ho : o = [.will ((w + 1) % 256)]) (hw : s'.will = some ((w + 1) % 256))
      (hc : SoPc s.loop = true ∨ s.stopping = true)
      (hso : SoPc s'.loop = false) (hst : s'.stopping = s.stopping)
  | poll (ho : o = [.poll]) (hw : s'.will = s.will) (hso : SoPc s'.loop = false) (hst : s'.stopping = s.stopping)
  | polledOff (ho : o = [.polled .offline]) (hw : s'.will = s.will) (hst : s'.stopping = s.stopping)
  | nbirth (id : Nat) (bd : Nat) (dc : Dec) (ho : o = [.bNode, .call id .nbirth none (some 0) (some bd) false dc])
      (h0 : s.will = some bd) (hw : s'.will = s.will) (hl : s'.loop = s.loop) (hst : s'.stopping = s.stopping)
  | ndeath (id : Nat) (bd : Nat) (dc : Dec) (ho : o = [.call id .ndeath none none (some bd) true dc])
      (hw : s'.will = s.will) (hl : s'.loop = s.loop) (hst : s'.stopping = true)
      (hb : s.will = some bd ∨ ∃ w, s.will = some w ∧ bd = (w + 1) % 256 ∧ (SoPc s.loop = true ∨ s.stopping = true))

theorem reply_none_of_lt {s : St} {o : Nat} (h : ∀ p ∈ s.oneshots, p.1 < o) : reply? s o = none := by
  unfold reply?
  rw [Option.map_eq_none_iff, List.find?_eq_none]
  intro p hp
  have := h p hp
  simp; omega


/-! ### the event-loop task -/

macro "unf" : tactic => `(tactic| simp only [Inv, LoopInv, SyncP, LagP, SL, NoOff, Await, reply?, StopPc, NodeBusy, SoPc] at *)

theorem stepLoop_inv1 {s : St} {r : St × List Obs} (hI : Inv s) (h : r ∈ stepLoop s) :
    Inv r.1  := by
  unfold stepLoop at h
  simp only [loopHandle, newOneshot] at h
  split at h
  all_goals rename_i hl
  all_goals simp only [Inv, LoopInv, hl] at hI
  all_goals repeat' (split at h)
  all_goals simp only [List.mem_append, List.mem_singleton, List.mem_cons, List.not_mem_nil, or_false, false_or] at h
  all_goals first | subst h | (rcases h with h | h <;> subst h)
  all_goals unf
  all_goals grind

theorem await_will {s : St} {o bd : Nat} {P : Prop} (hA : Await s o P) (hr : reply? s o = some (some bd)) :
    ∃ w, s.will = some w ∧ bd = (w + 1) % 256 := by
  unfold Await LagP at hA
  grind

theorem stepLoop_eff {s : St} {r : St × List Obs} (hI : Inv s) (h : r ∈ stepLoop s) :
    Eff s r.1 r.2 := by
  unfold stepLoop at h
  simp only [loopHandle, newOneshot] at h
  split at h
  all_goals rename_i hl
  all_goals simp only [Inv, LoopInv, hl] at hI
  all_goals repeat' (split at h)
  all_goals simp only [List.mem_append, List.mem_singleton, List.mem_cons, List.not_mem_nil, or_false, false_or] at h
  all_goals first | subst h | (rcases h with h | h <;> subst h)
  all_goals first
    | (refine .quiet ?_ rfl ?_ rfl <;> simp_all [Quiet, Ev.name, SoPc] <;> done)
    | exact .poll rfl rfl (by simp [SoPc]; done) rfl
    | (refine .polledOff ?_ rfl rfl; simp [Ev.name]; done)
    | (refine .will0 ?_ ?_ ?_ ?_ rfl <;> simp_all [SoPc, SyncP] <;> done)
    | (rename_i hr
       obtain ⟨w, hw, rfl⟩ := await_will hI.1 hr
       refine .willN w hw rfl rfl ?_ ?_ rfl <;> simp_all [SoPc, StopPc] <;> done)
    | (rename_i e _ hne _
       cases e <;> first | (exact absurd rfl hne) | (refine .quiet ?_ rfl ?_ rfl <;> simp_all [Quiet, Ev.name, SoPc] <;> done))
theorem stepLoopTimeout_inv {s : St} {r : St × List Obs} (hI : Inv s) (h : r ∈ stepLoopTimeout s) :
    Inv r.1 ∧ Eff s r.1 r.2 := by
  unfold stepLoopTimeout at h
  simp only [newOneshot] at h
  cases hl : s.loop <;> simp only [hl] at h
  all_goals repeat' (split at h)
  all_goals simp only [List.mem_append, List.mem_singleton, List.mem_cons, List.not_mem_nil, or_false, false_or] at h
  all_goals subst h
  all_goals refine ⟨?_, ?_⟩
  all_goals first
    | (refine .quiet ?_ rfl ?_ rfl <;> simp_all [Quiet, Ev.name, SoPc] <;> done)
    | (simp only [Inv, LoopInv, hl] at hI; unf; grind)

/-! ### the node task -/

theorem Minor_quiet {y : Obs} (h : Minor y = true) : Quiet y = true := by
  cases y <;> simp_all [Minor, Quiet]

theorem stepNode_inv {s : St} {dec} {r : St × List Obs} (hI : Inv s) (h : r ∈ stepNode s dec) :
    Inv r.1 ∧ Eff s r.1 r.2 := by
  have hE := stepNode_eff h
  generalize r.1 = s' at *
  generalize r.2 = o at *
  clear h
  rcases hE with ⟨hn, hc, ⟨hs, rfl, rfl⟩ | ⟨hs, ho, rfl, rfl⟩ | ⟨hs, ho, nd, cl, hnd, rfl, id, dc, rfl⟩⟩ |
    ⟨hn, w, hc, ho, rfl, rfl⟩ | ⟨hn, w, dv, hc, ho, rfl, rfl⟩ | ⟨hn, hc, rfl, rfl⟩ |
    ⟨nd, rq, mq, lr, bi, dv, rfl, hm, hnd, hbi⟩ | ⟨hn, nd, cl, ep, hnd, rfl, id, dc, rfl⟩
  all_goals refine ⟨?_, ?_⟩
  all_goals first
    | (refine .quiet ?_ rfl ?_ rfl <;> simp_all [Quiet, Ev.name, SoPc] <;> done)
    | (cases hl : s.loop <;> simp only [Inv, LoopInv, hl] at hI <;> unf <;> grind)
    | exact .quiet (fun y hy => Minor_quiet (hm y hy)) rfl (fun h => h) rfl
    | exact .nbirth _ _ _ rfl (hI.2.1 (hI.2.2.1 hn)) rfl rfl rfl
/-! ### device tasks, user calls, stimuli -/

theorem bearsSeq_quiet {id k dv sq bd it dc} (h : CK.bearsSeq k = true) : Quiet (.call id k dv sq bd it dc) = true := by
  cases k <;> simp_all [CK.bearsSeq, Quiet]

theorem pubEff_quiet {s s' : St} {o} (hp : PubEff s s' o) : ∀ y ∈ o, Quiet y = true := by
  rcases hp with ⟨_, ho⟩ | ⟨_, _, _, pre, post, id, k, dv, it, dc, rfl, hk, hpre, hpost⟩
  · exact fun y hy => Minor_quiet (ho y hy)
  · intro y hy
    simp only [List.mem_append, List.mem_cons] at hy
    rcases hy with hy | rfl | hy
    · exact Minor_quiet (hpre y hy)
    · exact bearsSeq_quiet hk
    · exact Minor_quiet (hpost y hy)

theorem stepDev_inv {s : St} {d dec} {r : St × List Obs} (hI : Inv s) (h : r ∈ stepDev s d dec) :
    Inv r.1 ∧ Eff s r.1 r.2 := by
  obtain ⟨hf, hp⟩ := stepDev_eff h
  refine ⟨Inv_devFrame hf hI, ?_⟩
  obtain ⟨_, _, _, hf⟩ := hf
  exact .quiet (pubEff_quiet hp) (by rw [hf]) (by rw [hf]; exact fun h => h) (by rw [hf])

theorem mem_setUCall {u v : UCall} : ∀ {l : List UCall}, v ∈ setUCall u l → v = u ∨ v ∈ l
  | [], h => by simp [setUCall] at h
  | w :: l, h => by
    simp only [setUCall] at h
    split at h
    · simp only [List.mem_cons] at h
      rcases h with h | h
      · exact .inl h
      · exact .inr (by simp [h])
    · simp only [List.mem_cons] at h
      rcases h with h | h
      · exact .inr (by simp [h])
      · rcases mem_setUCall h with h | h
        · exact .inl h
        · exact .inr (by simp [h])

/-- while `run` is running, the registered will is current or about to be replaced -/
theorem will_of_running {s : St} (hI : Inv s) (hr : s.running = true) :
    s.will = some s.bdseq ∨
      ∃ w, s.will = some w ∧ s.bdseq = (w + 1) % 256 ∧ (SoPc s.loop = true ∨ s.stopping = true) := by
  cases hl : s.loop <;> simp only [Inv, LoopInv, hl] at hI <;> unf <;> grind


/-- a step that only rewrites one user-call record (not into `cancelStop`) and fields the invariant ignores -/
theorem Inv_userFrame {s s' : St} {u : UCall} {p : UPc} (hI : Inv s)
    (hp : p = .cancelStop → s.stopping = true)
    (hf : ∃ q c st, (st = true → s.stopping = true) ∧
      s' = { s with seq := q, calls := c, stop := st, ucalls := setUCall { u with pc := p } s.ucalls }) : Inv s' := by
  obtain ⟨q, c, st, hst, rfl⟩ := hf
  obtain ⟨h1, h2, h3, h4, h5, h6, h7, h8, h9⟩ := hI
  refine ⟨h1, h2, h3, h4, h5, h6, h7, hst, ?_⟩
  intro v hv hvp
  rcases mem_setUCall hv with rfl | hv
  · exact hp hvp
  · exact h9 v hv hvp

theorem stepUser_inv {s : St} {j dec} {r : St × List Obs} (hI : Inv s) (h : r ∈ stepUser s j dec) :
    Inv r.1 ∧ Eff s r.1 r.2 := by
  obtain ⟨u, hu, p, hE⟩ := stepUser_eff h
  generalize r.1 = s' at *
  generalize r.2 = o at *
  clear h
  rcases hE with ⟨⟨q, c, hf⟩, hp, hne⟩ | ⟨hr, rfl, ⟨c, hf⟩, id, dc, rfl⟩ | ⟨hpc, rfl, rfl, hf | hf⟩ |
    ⟨rfl, ⟨c, hf⟩, id, dc, j', rr, rfl⟩
  · refine ⟨Inv_userFrame hI (fun h => absurd h hne) ⟨q, c, s.stop, hI.2.2.2.2.2.2.2.1, hf⟩, ?_⟩
    exact .quiet (pubEff_quiet hp) (by rw [hf]) (by rw [hf]; exact fun h => h) (by rw [hf])
  · refine ⟨?_, ?_⟩
    · subst hf
      obtain ⟨h1, h2, h3, h4, h5, h6, h7, h8, h9⟩ := hI
      exact ⟨h1, h2, h3, h4, h5, h6, fun _ => rfl, fun _ => rfl, fun _ _ _ => rfl⟩
    · exact .ndeath id s.bdseq dc rfl (by rw [hf]) (by rw [hf]) (by rw [hf]) (will_of_running hI hr)
  · have hs : s.stopping = true := hI.2.2.2.2.2.2.2.2 u hu hpc
    refine ⟨Inv_userFrame hI (by simp) ⟨s.seq, s.calls, s.stop, fun _ => hs, hf⟩, ?_⟩
    exact .quiet (by simp) (by rw [hf]) (by rw [hf]; exact fun h => h) (by rw [hf])
  · have hs : s.stopping = true := hI.2.2.2.2.2.2.2.2 u hu hpc
    refine ⟨Inv_userFrame hI (by simp) ⟨s.seq, s.calls, true, fun _ => hs, hf⟩, ?_⟩
    exact .quiet (by simp) (by rw [hf]) (by rw [hf]; exact fun h => h) (by rw [hf])
  · refine ⟨Inv_userFrame hI (by simp) ⟨s.seq, c, s.stop, hI.2.2.2.2.2.2.2.1, hf⟩, ?_⟩
    exact .quiet (by simp [Quiet]) (by rw [hf]) (by rw [hf]; exact fun h => h) (by rw [hf])

theorem applyStim_inv {s : St} {x : Stim} (hI : Inv s) :
    Inv (applyStim s x).1 ∧ Eff s (applyStim s x).1 (applyStim s x).2 := by
  obtain ⟨hf, ho⟩ := applyStim_eff s x
  generalize (applyStim s x).1 = s' at *
  generalize (applyStim s x).2 = o at *
  have hq := fun y hy => Minor_quiet (ho y hy)
  rcases hf with hf | ⟨u, hu, rfl⟩
  · refine ⟨Inv_stimFrame hf hI, ?_⟩
    obtain ⟨_, _, _, _, _, _, _, rfl⟩ := hf
    exact .quiet hq rfl (fun h => h) rfl
  · refine ⟨?_, .quiet hq rfl (fun h => h) rfl⟩
    obtain ⟨h1, h2, h3, h4, h5, h6, h7, h8, h9⟩ := hI
    refine ⟨h1, h2, h3, h4, h5, h6, h7, h8, ?_⟩
    intro v hv hvp
    simp only [List.mem_append, List.mem_singleton] at hv
    rcases hv with hv | rfl
    · exact h9 v hv hvp
    · rw [hu] at hvp; cases hvp

theorem step_inv {s : St} {a} {r : St × List Obs} (hI : Inv s) (h : runAct s a = some r) :
    Inv r.1 ∧ Eff s r.1 r.2 := by
  cases a with
  | stim x =>
    simp only [runAct, Option.some.injEq] at h
    subst h
    exact applyStim_inv hI
  | task t dec k =>
    have hm := mem_of_runAct_task h
    cases t with
    | loop => exact ⟨stepLoop_inv1 hI hm, stepLoop_eff hI hm⟩
    | loopTimeout => exact stepLoopTimeout_inv hI hm
    | node => exact stepNode_inv hI hm
    | dev d => exact stepDev_inv hI hm
    | user j => exact stepUser_inv hI hm

theorem inv_init (cd : Nat) : Inv (init cd) := by
  simp [Inv, LoopInv, init, NodeBusy, StopPc]
/-! ### the scanners -/

theorem nb_skip1 {w y t} (h : Quiet y = true) : nbirthBdOk w (y :: t) = nbirthBdOk w t := by
  cases y with
  | call id k dv sq bd it dc => cases k <;> simp_all [Quiet, nbirthBdOk]
  | _ => simp_all [Quiet, nbirthBdOk]

theorem wc_skip1 {w so c y t} (h : Quiet y = true) : willChainOk w so c (y :: t) = willChainOk w so c t := by
  cases y with
  | call id k dv sq bd it dc => cases k <;> cases w <;> simp_all [Quiet, willChainOk]
  | polled e => cases e <;> cases w <;> simp_all [Quiet, willChainOk]
  | _ => cases w <;> simp_all [Quiet, willChainOk]

theorem nd_skip1 {w so c y t} (h : Quiet y = true) : ndeathBdOk w so c (y :: t) = ndeathBdOk w so c t := by
  cases y with
  | call id k dv sq bd it dc => cases k <;> cases w <;> simp_all [Quiet, ndeathBdOk]
  | polled e => cases e <;> cases w <;> simp_all [Quiet, ndeathBdOk]
  | _ => cases w <;> simp_all [Quiet, ndeathBdOk]

theorem nb_skip {w t} : ∀ {o : List Obs}, (∀ y ∈ o, Quiet y = true) → nbirthBdOk w (o ++ t) = nbirthBdOk w t
  | [], _ => rfl
  | y :: o, h => by
    rw [List.cons_append, nb_skip1 (h y (by simp))]
    exact nb_skip (fun z hz => h z (by simp [hz]))

theorem wc_skip {w so c t} : ∀ {o : List Obs}, (∀ y ∈ o, Quiet y = true) →
    willChainOk w so c (o ++ t) = willChainOk w so c t
  | [], _ => rfl
  | y :: o, h => by
    rw [List.cons_append, wc_skip1 (h y (by simp))]
    exact wc_skip (fun z hz => h z (by simp [hz]))

theorem nd_skip {w so c t} : ∀ {o : List Obs}, (∀ y ∈ o, Quiet y = true) →
    ndeathBdOk w so c (o ++ t) = ndeathBdOk w so c t
  | [], _ => rfl
  | y :: o, h => by
    rw [List.cons_append, nd_skip1 (h y (by simp))]
    exact nd_skip (fun z hz => h z (by simp [hz]))

theorem eff_nb {s s' : St} {o} (hE : Eff s s' o) (t : List Obs) (ht : nbirthBdOk s'.will t = true) :
    nbirthBdOk s.will (o ++ t) = true := by
  cases hE with
  | quiet ho hw hso hst => rw [nb_skip ho, ← hw]; exact ht
  | will0 h0 ho hw hso hst => subst ho; rw [hw] at ht; simpa [nbirthBdOk] using ht
  | willN w h0 ho hw hc hso hst => subst ho; rw [hw] at ht; simpa [nbirthBdOk] using ht
  | poll ho hw hso hst => subst ho; rw [hw] at ht; simpa [nbirthBdOk] using ht
  | polledOff ho hw hst => subst ho; rw [hw] at ht; simpa [nbirthBdOk] using ht
  | nbirth id bd dc ho h0 hw hl hst => subst ho; rw [hw, h0] at ht; simp [nbirthBdOk, h0, ht]
  | ndeath id bd dc ho hw hl hst hb => subst ho; rw [hw] at ht; simpa [nbirthBdOk] using ht

theorem eff_wc {s s' : St} {o} {so c : Bool} (hE : Eff s s' o)
    (h1 : SoPc s.loop = true → so = true) (h2 : s.stopping = true → c = true) :
    ∃ so' c', (SoPc s'.loop = true → so' = true) ∧ (s'.stopping = true → c' = true) ∧
      ∀ t, willChainOk s'.will so' c' t = true → willChainOk s.will so c (o ++ t) = true := by
  cases hE with
  | quiet ho hw hso hst =>
    exact ⟨so, c, fun h => h1 (hso h), fun h => h2 (hst ▸ h), fun t ht => by rw [wc_skip ho, ← hw]; exact ht⟩
  | will0 h0 ho hw hso hst =>
    subst ho
    exact ⟨false, c, by simp [hso], fun h => h2 (hst ▸ h), fun t ht => by
      rw [hw] at ht; simp [willChainOk, h0, ht]⟩
  | willN w h0 ho hw hc hso hst =>
    subst ho
    have : (so || c) = true := by rcases hc with h | h <;> simp [h1, h2, h]
    exact ⟨false, c, by simp [hso], fun h => h2 (hst ▸ h), fun t ht => by
      rw [hw] at ht; simp [willChainOk, h0, ht, this]⟩
  | poll ho hw hso hst =>
    subst ho
    exact ⟨false, c, by simp [hso], fun h => h2 (hst ▸ h), fun t ht => by
      rw [hw] at ht; cases hs : s.will <;> simpa [willChainOk, hs] using ht⟩
  | polledOff ho hw hst =>
    subst ho
    exact ⟨true, c, by simp, fun h => h2 (hst ▸ h), fun t ht => by
      rw [hw] at ht; cases hs : s.will <;> simpa [willChainOk, hs] using ht⟩
  | nbirth id bd dc ho h0 hw hl hst =>
    subst ho
    exact ⟨so, c, fun h => h1 (hl ▸ h), fun h => h2 (hst ▸ h), fun t ht => by
      rw [hw] at ht; simpa [willChainOk, h0] using ht⟩
  | ndeath id bd dc ho hw hl hst hb =>
    subst ho
    exact ⟨so, true, fun h => h1 (hl ▸ h), fun _ => rfl, fun t ht => by
      rw [hw] at ht; cases hs : s.will <;> simpa [willChainOk, hs] using ht⟩


theorem eff_nd {s s' : St} {o} {so c : Bool} (hE : Eff s s' o)
    (h1 : SoPc s.loop = true → so = true) (h2 : s.stopping = true → c = true) :
    ∃ so' c', (SoPc s'.loop = true → so' = true) ∧ (s'.stopping = true → c' = true) ∧
      ∀ t, ndeathBdOk s'.will so' c' t = true → ndeathBdOk s.will so c (o ++ t) = true := by
  cases hE with
  | quiet ho hw hso hst =>
    exact ⟨so, c, fun h => h1 (hso h), fun h => h2 (hst ▸ h), fun t ht => by rw [nd_skip ho, ← hw]; exact ht⟩
  | will0 h0 ho hw hso hst =>
    subst ho
    exact ⟨false, c, by simp [hso], fun h => h2 (hst ▸ h), fun t ht => by
      rw [hw] at ht; simp [ndeathBdOk, h0, ht]⟩
  | willN w h0 ho hw hc hso hst =>
    subst ho
    exact ⟨false, c, by simp [hso], fun h => h2 (hst ▸ h), fun t ht => by
      rw [hw] at ht; simp [ndeathBdOk, h0, ht]⟩
  | poll ho hw hso hst =>
    subst ho
    exact ⟨so, c, by simp [hso], fun h => h2 (hst ▸ h), fun t ht => by
      rw [hw] at ht; cases hs : s.will <;> simpa [ndeathBdOk, hs] using ht⟩
  | polledOff ho hw hst =>
    subst ho
    exact ⟨true, c, by simp, fun h => h2 (hst ▸ h), fun t ht => by
      rw [hw] at ht; cases hs : s.will <;> simpa [ndeathBdOk, hs] using ht⟩
  | nbirth id bd dc ho h0 hw hl hst =>
    subst ho
    exact ⟨so, c, fun h => h1 (hl ▸ h), fun h => h2 (hst ▸ h), fun t ht => by
      rw [hw] at ht; simpa [ndeathBdOk, h0] using ht⟩
  | ndeath id bd dc ho hw hl hst hb =>
    subst ho
    refine ⟨so, true, fun h => h1 (hl ▸ h), fun _ => rfl, fun t ht => ?_⟩
    rw [hw] at ht
    rcases hb with hb | ⟨w, hb, rfl, hc⟩
    · rw [hb] at ht ⊢; simp [ndeathBdOk, ht]
    · have : (so || c) = true := by rcases hc with h | h <;> simp [h1, h2, h]
      rw [hb] at ht ⊢; simp [ndeathBdOk, ht, this]

/-! ### lifting over executions -/

theorem runActs_all : ∀ (acts : List Act) (s : St) (so1 c1 so2 c2 : Bool) (s' : St) (tr : List Obs),
    Inv s → (SoPc s.loop = true → so1 = true) → (s.stopping = true → c1 = true) →
    (SoPc s.loop = true → so2 = true) → (s.stopping = true → c2 = true) →
    runActs s acts = some (s', tr) →
    Inv s' ∧ nbirthBdOk s.will tr = true ∧ willChainOk s.will so1 c1 tr = true ∧
      ndeathBdOk s.will so2 c2 tr = true
  | [], s, so1, c1, so2, c2, s', tr, hI, _, _, _, _, h => by
    simp only [runActs, Option.some.injEq, Prod.mk.injEq] at h
    obtain ⟨rfl, rfl⟩ := h
    exact ⟨hI, by simp [nbirthBdOk], by simp [willChainOk], by simp [ndeathBdOk]⟩
  | a :: as, s, so1, c1, so2, c2, s', tr, hI, ha1, hb1, ha2, hb2, h => by
    simp only [runActs] at h
    split at h
    · cases h
    rename_i s1 o1 h1
    split at h
    · cases h
    rename_i s2 o2 h2
    simp only [Option.some.injEq, Prod.mk.injEq] at h
    obtain ⟨rfl, rfl⟩ := h
    obtain ⟨hI1, hE⟩ := step_inv hI h1
    obtain ⟨so1', c1', ha1', hb1', hw⟩ := eff_wc hE ha1 hb1
    obtain ⟨so2', c2', ha2', hb2', hn⟩ := eff_nd hE ha2 hb2
    obtain ⟨hI2, r1, r2, r3⟩ := runActs_all as s1 so1' c1' so2' c2' _ _ hI1 ha1' hb1' ha2' hb2' h2
    exact ⟨hI2, eff_nb hE _ r1, hw _ r2, hn _ r3⟩

theorem runActs_init {cd : Nat} {acts : List Act} {s : St} {tr : List Obs}
    (h : runActs (init cd) acts = some (s, tr)) :
    Inv s ∧ nbirthBdOk none tr = true ∧ willChainOk none false false tr = true ∧
      ndeathBdOk none false false tr = true :=
  runActs_all acts (init cd) false false false false s tr (inv_init cd)
    (by simp [init, SoPc]) (by simp [init]) (by simp [init, SoPc]) (by simp [init]) h

theorem will_current {s : St} (hI : Inv s) (hp : s.loop = .sel ∨ s.loop = .polling) :
    s.will = some s.bdseq := by
  rcases hp with hl | hl <;> simp only [Inv, LoopInv, hl] at hI <;> exact hI.1.1

/-! ### bdSeq changes only when the node processes the loss of an established connection -/

theorem bdseq_step {s : St} {a : Act} {r : St × List Obs} (h : runAct s a = some r)
    (hne : r.1.bdseq ≠ s.bdseq) :
    (∃ dec k, a = .task .node dec k) ∧ s.node = .idle ∧ (∃ w, s.cs = some (.offline w)) ∧
      s.online = true ∧ r.1.online = false ∧ r.1.bdseq = (s.bdseq + 1) % 256 := by
  cases a with
  | stim x =>
    simp only [runAct, Option.some.injEq] at h
    obtain ⟨hf, _⟩ := applyStim_eff s x
    rw [h] at hf
    rcases hf with ⟨_, _, _, _, _, _, _, hf⟩ | ⟨u, _, hf⟩ <;> exact absurd (by rw [hf]) hne
  | task t dec k =>
    have hm := mem_of_runAct_task h
    cases t with
    | loop =>
      obtain ⟨⟨_, _, _, _, _, _, _, _, _, _, hf⟩, _⟩ := stepLoop_frame hm
      exact absurd (by rw [hf]) hne
    | loopTimeout =>
      obtain ⟨⟨_, _, _, _, _, _, _, _, _, _, hf⟩, _⟩ := stepLoopTimeout_frame hm
      exact absurd (by rw [hf]) hne
    | dev d =>
      obtain ⟨⟨_, _, _, hf⟩, _⟩ := stepDev_eff hm
      exact absurd (by rw [hf]) hne
    | user j =>
      obtain ⟨u, _, p, hu⟩ := stepUser_eff hm
      rcases hu with ⟨⟨_, _, hf⟩, _, _⟩ | ⟨_, _, ⟨_, hf⟩, _⟩ | ⟨_, _, _, hf | hf⟩ | ⟨_, ⟨_, hf⟩, _⟩ <;>
        exact absurd (by rw [hf]) hne
    | node =>
      have hE := stepNode_eff hm
      rcases hE with ⟨hn, hc, ⟨hs, hf, _⟩ | ⟨hs, ho, hf, _⟩ | ⟨hs, ho, nd, cl, hnd, hf, _⟩⟩ |
        ⟨hn, w, hc, ho, hf, _⟩ | ⟨hn, w, dv, hc, ho, hf, _⟩ | ⟨hn, hc, hf, _⟩ |
        ⟨nd, rq, mq, lr, bi, dv, hf, _⟩ | ⟨hn, nd, cl, ep, hnd, hf, _⟩
      case inr.inr.inl =>
        exact ⟨⟨dec, k, rfl⟩, hn, ⟨w, hc⟩, ho, by rw [hf], by rw [hf]⟩
      all_goals exact absurd (by rw [hf]) hne
end Srad.Eon.P03
