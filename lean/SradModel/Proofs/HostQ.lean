/-
Helper lemmas for `Props/C06Q.lean`: the labelled transition system `Model/HostQ` (the host
application without quiescence between events) refines the per-node actor `Host.run`.
-/
import SradModel.Model.HostQ
import SradModel.Proofs.Host

namespace Srad.HostQ
open Srad.Host

/-! ### `Host.run` and appended histories; the bdSeq stays a `u8` -/

theorem run_append (c : Cfg) (a b : List Ev) : ∀ s : St,
    run c s (a ++ b) = ((run c (run c s a).1 b).1, (run c s a).2 ++ (run c (run c s a).1 b).2) := by
  induction a with
  | nil => intro s; simp [run]
  | cons e es ih => intro s; simp only [List.cons_append, run_cons, ih, List.append_assoc]

theorem run_nil (c : Cfg) (s : St) : run c s [] = (s, []) := rfl

theorem run_single (c : Cfg) (s : St) (e : Ev) :
    run c s [e] = Host.step c s e.inp e.now e.wall := by
  simp [run]

theorem apply_bdseq (s : St) (m : RMsg) : (apply s m).1.bdseq = s.bdseq := by
  rw [apply_fst_eq]

theorem cancelTimer_bdseq (s : St) : (cancelTimer s).1.bdseq = s.bdseq := by
  rw [cancelTimer_fst]

theorem startTimer_bdseq (c : Cfg) (s : St) (now : Nat) : (startTimer c s now).1.bdseq = s.bdseq := by
  obtain ⟨t, ht⟩ := startTimer_fst c s now
  rw [ht]

theorem drainBuf_bdseq (c : Cfg) (now : Nat) (fuel : Nat) :
    ∀ (released : Bool) (s : St) (acc : List Eff),
      (drainBuf c now fuel released s acc).1.bdseq = s.bdseq := by
  induction fuel with
  | zero => intro released s acc; rfl
  | succ fuel ih =>
    intro released s acc
    unfold drainBuf
    split
    · rename_i r' m heq
      have ha := apply_bdseq { s with reseq := r' } m.2
      split
      · rename_i s1 e1 happ
        rw [happ] at ha
        rw [ih true s1 (acc ++ e1)]
        exact ha
      · rename_i s1 e1 r happ
        rw [happ] at ha
        exact ha
    · rw [cancelTimer_bdseq]
    · split
      · simp only
        rw [startTimer_bdseq, cancelTimer_bdseq]
      · rfl
    · rfl

theorem handleRMsg_bdseq (c : Cfg) (s : St) (seq ts : Nat) (m : RMsg) (now : Nat) :
    (handleRMsg c s seq ts m now).1.bdseq = s.bdseq := by
  unfold handleRMsg
  split
  · rfl
  split
  · rfl
  split
  · exact apply_bdseq s m
  split
  · rename_i r' heq
    dsimp only
    split
    · simp only
      rw [startTimer_bdseq]
    · rfl
  · rfl
  · rename_i r' m' heq
    have ha := apply_bdseq { s with reseq := r' } m'.2
    split
    · rename_i s1 e1 r happ
      rw [happ] at ha
      exact ha
    · rename_i s1 e1 happ
      rw [happ] at ha
      rw [drainBuf_bdseq]
      exact ha

/-- the actor's bdSeq is a `u8` in every reachable state -/
theorem step_bdseq (c : Cfg) (s : St) (i : In) (now wall : Nat) (h : s.bdseq < 256) (hwf : i.WF) :
    (Host.step c s i now wall).1.bdseq < 256 := by
  cases i with
  | nbirth ts bd id ans =>
    simp only [Host.step]
    rcases handleBirth_cases c s ts bd id ans now wall with ⟨_, he⟩ | ⟨_, _, he⟩ | ⟨_, _, he⟩
    · rw [he]; exact h
    · rw [he]; rw [(issueRebirth_fields c s .invalidPayload now wall).2]; exact h
    · rw [he]; exact hwf
  | ndeath bd =>
    simp only [Host.step]
    have h2 : (setStale (cancelTimer s).1 now).1.bdseq = s.bdseq := by
      rw [(setStale_fields _ now).2.1, cancelTimer_bdseq]
    split
    · rw [(issueRebirth_fields c _ .outOfSyncBdSeq now wall).2, h2]; exact h
    · rw [h2]; exact h
  | rmsg seq ts m =>
    simp only [Host.step]
    have h1 := handleRMsg_bdseq c s seq ts m now
    split
    · rename_i s1 e1 heq
      rw [heq] at h1
      rw [h1]; exact h
    · rename_i s1 e1 r heq
      rw [heq] at h1
      rw [(issueRebirth_fields c s1 r now wall).2, h1]; exact h
  | offline =>
    simp only [Host.step]
    rw [(setStale_fields s now).2.1]; exact h
  | rebirthReq r =>
    simp only [Host.step]
    rw [(issueRebirth_fields c s r now wall).2]; exact h
  | timerFire =>
    simp only [Host.step]
    split
    · rw [(issueRebirth_fields c _ .reorderTimeout now wall).2]; exact h
    · exact h

theorem run_bdseq (c : Cfg) (evs : List Ev) : ∀ s : St, s.bdseq < 256 → (∀ e ∈ evs, e.inp.WF) →
    (run c s evs).1.bdseq < 256 := by
  induction evs with
  | nil => intro s h _; exact h
  | cons e es ih =>
    intro s h hwf
    rw [run_cons]
    exact ih _ (step_bdseq c s e.inp e.now e.wall h (hwf e (List.mem_cons_self ..)))
      (fun e' he' => hwf e' (List.mem_cons_of_mem _ he'))

/-! ### the node table -/

theorem getNode_setNode_self (n : Nat) (nd : Node) (L : List (Nat × Node)) :
    getNode n (setNode n nd L) = some nd := by
  induction L with
  | nil => simp [setNode, getNode]
  | cons p t ih =>
    obtain ⟨n', nd'⟩ := p
    by_cases h : n' = n
    · simp [setNode, getNode, h]
    · simp [setNode, getNode, h, ih]

theorem getNode_setNode_ne (n k : Nat) (nd : Node) (L : List (Nat × Node)) (h : k ≠ n) :
    getNode k (setNode n nd L) = getNode k L := by
  induction L with
  | nil => simp [setNode, getNode, Ne.symm h]
  | cons p t ih =>
    obtain ⟨n', nd'⟩ := p
    by_cases h' : n' = n
    · subst h'
      simp [setNode, getNode, Ne.symm h]
    · by_cases h2 : n' = k
      · subst h2
        simp [setNode, getNode, h]
      · simp [setNode, getNode, h', h2, ih]

theorem node_withNode_self (σ : State) (n : Nat) (nd : Node) : (σ.withNode n nd).node n = nd := by
  simp [State.node, State.withNode, getNode_setNode_self]

theorem node_withNode_ne (σ : State) (n k : Nat) (nd : Node) (h : k ≠ n) :
    (σ.withNode n nd).node k = σ.node k := by
  simp [State.node, State.withNode, getNode_setNode_ne _ _ _ _ h]

theorem node_of_get {σ : State} {n : Nat} {nd : Node} (h : getNode n σ.nodes = some nd) :
    σ.node n = nd := by
  simp [State.node, h]

theorem node_of_get_none {σ : State} {n : Nat} (h : getNode n σ.nodes = none) :
    σ.node n = {} := by
  simp [State.node, h]

@[simp] theorem withNode_clock (σ : State) (n : Nat) (nd : Node) : (σ.withNode n nd).clock = σ.clock := rfl
@[simp] theorem withNode_inbox (σ : State) (n : Nat) (nd : Node) : (σ.withNode n nd).inbox = σ.inbox := rfl

/-! ### projections of an execution -/

theorem effsOf_append (n : Nat) (a b : List Out) : effsOf n (a ++ b) = effsOf n a ++ effsOf n b := by
  simp [effsOf]
theorem histOf_append (n : Nat) (a b : List Out) : histOf n (a ++ b) = histOf n a ++ histOf n b := by
  simp [histOf]
theorem tookMsgsOf_append (n : Nat) (a b : List Out) :
    tookMsgsOf n (a ++ b) = tookMsgsOf n a ++ tookMsgsOf n b := by simp [tookMsgsOf]
theorem tookReasonsOf_append (n : Nat) (a b : List Out) :
    tookReasonsOf n (a ++ b) = tookReasonsOf n a ++ tookReasonsOf n b := by simp [tookReasonsOf]
theorem sentOf_append (n : Nat) (a b : List Out) : sentOf n (a ++ b) = sentOf n a ++ sentOf n b := by
  simp [sentOf]
theorem acceptedOf_append (n : Nat) (a b : List Out) :
    acceptedOf n (a ++ b) = acceptedOf n a ++ acceptedOf n b := by simp [acceptedOf]
theorem plainHistOf_append (n : Nat) (a b : List Out) :
    plainHistOf n (a ++ b) = plainHistOf n a ++ plainHistOf n b := by simp [plainHistOf]

/-- the node a transition's record is about (`created` shows in no projection) -/
def Out.about : Out → Option Nat
  | .created _ => none
  | .enq n _ => some n
  | .offered n _ _ => some n
  | .tookMsg n _ _ _ _ => some n
  | .tookReason n _ _ _ => some n

structure ProjNil (n : Nat) (o : List Out) : Prop where
  effs : effsOf n o = []
  hist : histOf n o = []
  tookMsgs : tookMsgsOf n o = []
  tookReasons : tookReasonsOf n o = []
  sent : sentOf n o = []
  accepted : acceptedOf n o = []
  plain : plainHistOf n o = []

theorem projNil_of_about (n : Nat) (o : List Out) (h : ∀ x ∈ o, x.about ≠ some n) : ProjNil n o := by
  induction o with
  | nil => exact ⟨rfl, rfl, rfl, rfl, rfl, rfl, rfl⟩
  | cons x t ih =>
    have ht := ih (fun y hy => h y (List.mem_cons_of_mem _ hy))
    have hx := h x (List.mem_cons_self ..)
    have e1 : Out.effs n x = [] := by cases x <;> simp_all [Out.effs, Out.about]
    have e2 : Out.hist n x = [] := by cases x <;> simp_all [Out.hist, Out.about]
    have e3 : Out.tookMsgs n x = [] := by cases x <;> simp_all [Out.tookMsgs, Out.about]
    have e4 : Out.tookReasons n x = [] := by cases x <;> simp_all [Out.tookReasons, Out.about]
    have e5 : Out.sent n x = [] := by cases x <;> simp_all [Out.sent, Out.about]
    have e6 : Out.accepted n x = [] := by
      cases x with
      | offered n' r ok => cases ok <;> simp_all [Out.accepted, Out.about]
      | _ => simp [Out.accepted]
    have e7 : Out.plainHist n x = [] := by cases x <;> simp_all [Out.plainHist, Out.about]
    exact ⟨by simpa [effsOf, e1] using ht.effs, by simpa [histOf, e2] using ht.hist,
      by simpa [tookMsgsOf, e3] using ht.tookMsgs, by simpa [tookReasonsOf, e4] using ht.tookReasons,
      by simpa [sentOf, e5] using ht.sent, by simpa [acceptedOf, e6] using ht.accepted,
      by simpa [plainHistOf, e7] using ht.plain⟩

/-! ### the per-node invariant -/

/-- what ties one node's actor state, queue and rebirth channel to what happened so far:
`H` inputs executed, `E` effects produced, `TM` / `S` messages taken / sent, `TR` / `A` reasons
taken / accepted; `t` the clock -/
structure NInv (c : Cfg) (t : Nat) (st : St) (queue : List QMsg) (pending : Option Reason)
    (H : List Ev) (E : List Eff) (TM S : List QMsg) (TR A : List Reason) : Prop where
  st_eq : st = (run c Host.init H).1
  effs_eq : E = (run c Host.init H).2
  fifo : TM ++ queue = S
  chan : TR ++ pending.toList = A
  hist_ok : ∀ e ∈ H, e.inp.WF ∧ e.now ≤ e.wall ∧ e.wall ≤ t
  sorted : H.Pairwise (fun a b => a.wall ≤ b.wall)
  queue_ok : ∀ m ∈ queue, m.inp.WF ∧ m.disp ≤ t ∧ isMsg m.inp = true
  bd : st.bdseq < 256

theorem NInv.init (c : Cfg) (t : Nat) : NInv c t Host.init [] none [] [] [] [] [] [] :=
  ⟨rfl, rfl, rfl, rfl, by simp, by simp, by simp, by simp [Host.init]⟩

theorem NInv.mono {c : Cfg} {t t' : Nat} {st : St} {queue : List QMsg} {pending : Option Reason}
    {H : List Ev} {E : List Eff} {TM S : List QMsg} {TR A : List Reason}
    (h : NInv c t st queue pending H E TM S TR A) (ht : t ≤ t') :
    NInv c t' st queue pending H E TM S TR A :=
  ⟨h.st_eq, h.effs_eq, h.fifo, h.chan,
    fun e he => ⟨(h.hist_ok e he).1, (h.hist_ok e he).2.1, Nat.le_trans (h.hist_ok e he).2.2 ht⟩,
    h.sorted, fun m hm => ⟨(h.queue_ok m hm).1, Nat.le_trans (h.queue_ok m hm).2.1 ht, (h.queue_ok m hm).2.2⟩, h.bd⟩

theorem NInv.enq {c : Cfg} {t : Nat} {st : St} {queue : List QMsg} {pending : Option Reason}
    {H : List Ev} {E : List Eff} {TM S : List QMsg} {TR A : List Reason}
    (h : NInv c t st queue pending H E TM S TR A) (m : QMsg) (hwf : m.inp.WF) (hd : m.disp ≤ t)
    (hk : isMsg m.inp = true) :
    NInv c t st (queue ++ [m]) pending H E TM (S ++ [m]) TR A :=
  ⟨h.st_eq, h.effs_eq, by rw [← List.append_assoc, h.fifo], h.chan, h.hist_ok, h.sorted,
    fun m' hm' => by
      rcases List.mem_append.mp hm' with hm' | hm'
      · exact h.queue_ok m' hm'
      · simp only [List.mem_singleton] at hm'; subst hm'; exact ⟨hwf, hd, hk⟩,
    h.bd⟩

theorem NInv.accept {c : Cfg} {t : Nat} {st : St} {queue : List QMsg}
    {H : List Ev} {E : List Eff} {TM S : List QMsg} {TR A : List Reason}
    (h : NInv c t st queue none H E TM S TR A) (r : Reason) :
    NInv c t st queue (some r) H E TM S TR (A ++ [r]) :=
  ⟨h.st_eq, h.effs_eq, h.fifo, by have := h.chan; simp at this; simp [this], h.hist_ok, h.sorted,
    h.queue_ok, h.bd⟩

theorem actEvs_ok (s : St) (m : QMsg) (t : Nat) (hbd : s.bdseq < 256) (hwf : m.inp.WF)
    (hd : m.disp ≤ t) :
    ∀ e ∈ actEvs s m t, e.inp.WF ∧ e.now ≤ e.wall ∧ e.wall = t := by
  intro e he
  unfold actEvs at he
  split at he
  · simp only [List.mem_cons] at he
    rcases he with rfl | he
    · exact ⟨hbd, hd, rfl⟩
    · split at he
      · simp only [List.mem_singleton] at he; subst he; exact ⟨trivial, Nat.le_refl _, rfl⟩
      · simp at he
  · simp only [List.mem_singleton] at he
    subst he
    exact ⟨hwf, Nat.le_refl _, rfl⟩

/-- appending inputs handled at the current clock reading keeps the history invariant -/
theorem NInv.act {c : Cfg} {t : Nat} {st : St} {queue : List QMsg} {pending : Option Reason}
    {H : List Ev} {E : List Eff} {TM S : List QMsg} {TR A : List Reason}
    (h : NInv c t st queue pending H E TM S TR A) (evs : List Ev)
    (hevs : ∀ e ∈ evs, e.inp.WF ∧ e.now ≤ e.wall ∧ e.wall = t)
    (queue' : List QMsg) (pending' : Option Reason) (TM' : List QMsg) (TR' : List Reason)
    (hq : TM' ++ queue' = S) (hp : TR' ++ pending'.toList = A)
    (hqok : ∀ m ∈ queue', m ∈ queue) :
    NInv c t (run c st evs).1 queue' pending' (H ++ evs) (E ++ (run c st evs).2) TM' S TR' A := by
  refine ⟨?_, ?_, hq, hp, ?_, ?_, fun m hm => h.queue_ok m (hqok m hm), ?_⟩
  · rw [run_append, ← h.st_eq]
  · rw [run_append, ← h.st_eq, ← h.effs_eq]
  · intro e he
    rcases List.mem_append.mp he with he | he
    · exact h.hist_ok e he
    · obtain ⟨a, b, c'⟩ := hevs e he
      exact ⟨a, b, Nat.le_of_eq c'⟩
  · rw [List.pairwise_append]
    refine ⟨h.sorted, ?_, ?_⟩
    · rw [List.pairwise_iff_forall_sublist]
      intro a b hab
      have ha := hab.subset (List.mem_cons_self ..)
      have hb := hab.subset (List.mem_cons_of_mem _ (List.mem_cons_self ..))
      rw [(hevs a ha).2.2, (hevs b hb).2.2]
      exact Nat.le_refl _
    · intro a ha b hb
      rw [(hevs b hb).2.2]
      exact (h.hist_ok a ha).2.2
  · exact run_bdseq c evs st h.bd (fun e he => (hevs e he).1)

/-! ### the global invariant -/

def NodeInv (c : Cfg) (σ : State) (outs : List Out) (n : Nat) : Prop :=
  NInv c σ.clock (σ.node n).st (σ.node n).queue (σ.node n).pending
    (histOf n outs) (effsOf n outs) (tookMsgsOf n outs) (sentOf n outs)
    (tookReasonsOf n outs) (acceptedOf n outs)

/-- the record of an execution is well formed (`t` = the clock): what an actor step is recorded
to have executed is `actEvs` / the reason, run from the state its earlier inputs led to, at a
clock reading that never decreases -/
inductive Wf (c : Cfg) : Nat → List Out → Prop
  | nil (t : Nat) : Wf c t []
  | mono {t t' : Nat} {outs : List Out} : Wf c t outs → t ≤ t' → Wf c t' outs
  | created {t : Nat} {outs : List Out} (k : Nat) : Wf c t outs → Wf c t (outs ++ [.created k])
  | enq {t : Nat} {outs : List Out} (k : Nat) (m : QMsg) : Wf c t outs → isMsg m.inp = true →
      Wf c t (outs ++ [.enq k m])
  | offered {t : Nat} {outs : List Out} (k : Nat) (r : Reason) (b : Bool) : Wf c t outs →
      Wf c t (outs ++ [.offered k r b])
  | tookMsg {t : Nat} {outs : List Out} (k : Nat) (m : QMsg) : Wf c t outs → isMsg m.inp = true →
      m.inp.WF → m.disp ≤ t →
      Wf c t (outs ++ [.tookMsg k m t (actEvs (run c Host.init (histOf k outs)).1 m t)
        (run c (run c Host.init (histOf k outs)).1 (actEvs (run c Host.init (histOf k outs)).1 m t)).2])
  | tookReason {t : Nat} {outs : List Out} (k : Nat) (r : Reason) : Wf c t outs →
      Wf c t (outs ++ [.tookReason k r t
        (Host.step c (run c Host.init (histOf k outs)).1 (.rebirthReq r) t t).2])

structure GInv (c : Cfg) (σ : State) (outs : List Out) : Prop where
  nodes : ∀ n, NodeInv c σ outs n
  inbox : ∀ ev ∈ σ.inbox, ev.wf = true
  wf : Wf c σ.clock outs

theorem node_eq_of_nodes {σ σ' : State} (h : σ'.nodes = σ.nodes) (k : Nat) : σ'.node k = σ.node k := by
  simp [State.node, h]

/-- a transition that leaves the node table alone and records nothing -/
theorem ginv_silent {c : Cfg} {σ σ' : State} {outs : List Out} (h : GInv c σ outs)
    (hn : σ'.nodes = σ.nodes) (hc : σ.clock ≤ σ'.clock) (hi : ∀ ev ∈ σ'.inbox, ev.wf = true) :
    GInv c σ' (outs ++ []) := by
  refine ⟨fun k => ?_, hi, by simpa using h.wf.mono hc⟩
  have := (h.nodes k).mono hc
  simpa [NodeInv, node_eq_of_nodes hn] using this

/-- a transition of node `n`: the other nodes keep their invariant -/
theorem ginv_update {c : Cfg} {σ σ' : State} {outs o : List Out} (h : GInv c σ outs)
    (n : Nat) (nd' : Node) (hn : σ'.nodes = setNode n nd' σ.nodes) (hc : σ'.clock = σ.clock)
    (hi : ∀ ev ∈ σ'.inbox, ev.wf = true)
    (habout : ∀ x ∈ o, x.about = some n ∨ x.about = none) (hwf : Wf c σ.clock (outs ++ o))
    (hloc : NInv c σ.clock nd'.st nd'.queue nd'.pending
      (histOf n (outs ++ o)) (effsOf n (outs ++ o)) (tookMsgsOf n (outs ++ o)) (sentOf n (outs ++ o))
      (tookReasonsOf n (outs ++ o)) (acceptedOf n (outs ++ o))) :
    GInv c σ' (outs ++ o) := by
  refine ⟨fun k => ?_, hi, by rw [hc]; exact hwf⟩
  by_cases hk : k = n
  · subst hk
    have e : σ'.node k = nd' := by simp [State.node, hn, getNode_setNode_self]
    simpa [NodeInv, e, hc] using hloc
  · have e : σ'.node k = σ.node k := by simp [State.node, hn, getNode_setNode_ne _ _ _ _ hk]
    have pn := projNil_of_about k o (fun x hx => by
      rcases habout x hx with h1 | h1 <;> rw [h1] <;> simp
      exact fun h2 => hk h2.symm)
    have := h.nodes k
    simpa [NodeInv, e, hc, histOf_append, effsOf_append, tookMsgsOf_append, sentOf_append,
      tookReasonsOf_append, acceptedOf_append, pn.effs, pn.hist, pn.tookMsgs, pn.tookReasons,
      pn.sent, pn.accepted] using this

/-! ### the local transitions -/

theorem enq_some {q n : Nat} {nd nd' : Node} {m : QMsg} {o : List Out}
    (h : Node.enq q n nd m = some (nd', o)) :
    nd' = { nd with queue := nd.queue ++ [m] } ∧ o = [.enq n m] := by
  unfold Node.enq at h
  split at h
  · simp only [Option.some.injEq, Prod.mk.injEq] at h
    exact ⟨h.1.symm, h.2.symm⟩
  · cases h

theorem actMsg_some {c : Cfg} {t n : Nat} {nd nd' : Node} {o : List Out}
    (h : Node.actMsg c t n nd = some (nd', o)) :
    ∃ m rest, nd.queue = m :: rest ∧
      nd' = { nd with st := (run c nd.st (actEvs nd.st m t)).1, queue := rest,
                      task := taskAfter c t nd.task (run c nd.st (actEvs nd.st m t)).2 } ∧
      o = [.tookMsg n m t (actEvs nd.st m t) (run c nd.st (actEvs nd.st m t)).2] := by
  unfold Node.actMsg at h
  split at h
  · cases h
  · rename_i m rest hq
    simp only [Option.some.injEq, Prod.mk.injEq] at h
    exact ⟨m, rest, hq, h.1.symm, h.2.symm⟩

theorem actReason_some {c : Cfg} {t n : Nat} {nd nd' : Node} {o : List Out}
    (h : Node.actReason c t n nd = some (nd', o)) :
    ∃ r, nd.pending = some r ∧
      nd' = { nd with st := (Host.step c nd.st (.rebirthReq r) t t).1, pending := none,
                      task := taskAfter c t nd.task (Host.step c nd.st (.rebirthReq r) t t).2 } ∧
      o = [.tookReason n r t (Host.step c nd.st (.rebirthReq r) t t).2] := by
  unfold Node.actReason at h
  split at h
  · cases h
  · rename_i r hp
    simp only [Option.some.injEq, Prod.mk.injEq] at h
    exact ⟨r, hp, h.1.symm, h.2.symm⟩

theorem offer_cases (nd : Node) (r : Reason) :
    (nd.pending = none ∧ offer nd r = ({ nd with pending := some r }, true)) ∨
    (∃ r0, nd.pending = some r0 ∧ offer nd r = (nd, false)) := by
  unfold offer
  cases h : nd.pending with
  | none => exact Or.inl ⟨rfl, rfl⟩
  | some r0 => exact Or.inr ⟨r0, rfl, rfl⟩

theorem onNode_some {σ σ' : State} {n : Nat} {f : Node → Option (Node × List Out)} {o : List Out}
    (h : onNode σ n f = some (σ', o)) :
    ∃ nd nd', getNode n σ.nodes = some nd ∧ f nd = some (nd', o) ∧ σ' = σ.withNode n nd' := by
  unfold onNode at h
  split at h
  · cases h
  · rename_i nd hg
    split at h
    · rename_i nd' o' hf
      simp only [Option.some.injEq, Prod.mk.injEq] at h
      exact ⟨nd, nd', hg, by rw [hf, h.2], h.1.symm⟩
    · cases h

/-- `try_send` keeps the invariant of the node it is offered to -/
theorem ninv_offer {c : Cfg} {σ : State} {outs : List Out} {n : Nat} (h : NodeInv c σ outs n)
    (nd : Node) (hst : nd.st = (σ.node n).st) (hq : nd.queue = (σ.node n).queue)
    (hp : nd.pending = (σ.node n).pending) (r : Reason) (pre : List Out)
    (hpre : ∀ x ∈ pre, x.about = none) :
    NInv c σ.clock (offer nd r).1.st (offer nd r).1.queue (offer nd r).1.pending
      (histOf n (outs ++ (pre ++ [.offered n r (offer nd r).2])))
      (effsOf n (outs ++ (pre ++ [.offered n r (offer nd r).2])))
      (tookMsgsOf n (outs ++ (pre ++ [.offered n r (offer nd r).2])))
      (sentOf n (outs ++ (pre ++ [.offered n r (offer nd r).2])))
      (tookReasonsOf n (outs ++ (pre ++ [.offered n r (offer nd r).2])))
      (acceptedOf n (outs ++ (pre ++ [.offered n r (offer nd r).2]))) := by
  have pn := projNil_of_about n pre (fun x hx => by rw [hpre x hx]; simp)
  unfold NodeInv at h
  rcases offer_cases nd r with ⟨h0, he⟩ | ⟨r0, h0, he⟩
  · rw [he]
    rw [← hp, h0] at h
    have := h.accept r
    simp only [histOf_append, effsOf_append, tookMsgsOf_append, sentOf_append, tookReasonsOf_append,
      acceptedOf_append, pn.effs, pn.hist, pn.tookMsgs, pn.tookReasons, pn.sent, pn.accepted]
    simpa [histOf, effsOf, tookMsgsOf, sentOf, tookReasonsOf, acceptedOf, Out.hist, Out.effs,
      Out.tookMsgs, Out.sent, Out.tookReasons, Out.accepted, hst, hq] using this
  · rw [he]
    simp only [histOf_append, effsOf_append, tookMsgsOf_append, sentOf_append, tookReasonsOf_append,
      acceptedOf_append, pn.effs, pn.hist, pn.tookMsgs, pn.tookReasons, pn.sent, pn.accepted]
    simpa [histOf, effsOf, tookMsgsOf, sentOf, tookReasonsOf, acceptedOf, Out.hist, Out.effs,
      Out.tookMsgs, Out.sent, Out.tookReasons, Out.accepted, hst, hq, hp] using h

/-- `send` completing keeps the invariant of the node it sends to -/
theorem ninv_enq {c : Cfg} {σ : State} {outs : List Out} {n : Nat} (h : NodeInv c σ outs n)
    (m : QMsg) (hwf : m.inp.WF) (hd : m.disp ≤ σ.clock) (hk : isMsg m.inp = true) (pre : List Out)
    (hpre : ∀ x ∈ pre, x.about = none) :
    NInv c σ.clock (σ.node n).st ((σ.node n).queue ++ [m]) (σ.node n).pending
      (histOf n (outs ++ (pre ++ [.enq n m])))
      (effsOf n (outs ++ (pre ++ [.enq n m])))
      (tookMsgsOf n (outs ++ (pre ++ [.enq n m])))
      (sentOf n (outs ++ (pre ++ [.enq n m])))
      (tookReasonsOf n (outs ++ (pre ++ [.enq n m])))
      (acceptedOf n (outs ++ (pre ++ [.enq n m]))) := by
  have pn := projNil_of_about n pre (fun x hx => by rw [hpre x hx]; simp)
  have := NInv.enq h m hwf hd hk
  simp only [histOf_append, effsOf_append, tookMsgsOf_append, sentOf_append, tookReasonsOf_append,
    acceptedOf_append, pn.effs, pn.hist, pn.tookMsgs, pn.tookReasons, pn.sent, pn.accepted]
  simpa [histOf, effsOf, tookMsgsOf, sentOf, tookReasonsOf, acceptedOf, Out.hist, Out.effs,
    Out.tookMsgs, Out.sent, Out.tookReasons, Out.accepted] using this

theorem about_pre_offered (n : Nat) (r : Reason) (b : Bool) (pre : List Out)
    (hpre : ∀ x ∈ pre, x.about = none) :
    ∀ x ∈ pre ++ [Out.offered n r b], x.about = some n ∨ x.about = none := by
  intro x hx
  rcases List.mem_append.mp hx with hx | hx
  · exact Or.inr (hpre x hx)
  · simp only [List.mem_singleton] at hx; subst hx; exact Or.inl rfl

theorem about_pre_enq (n : Nat) (m : QMsg) (pre : List Out) (hpre : ∀ x ∈ pre, x.about = none) :
    ∀ x ∈ pre ++ [Out.enq n m], x.about = some n ∨ x.about = none := by
  intro x hx
  rcases List.mem_append.mp hx with hx | hx
  · exact Or.inr (hpre x hx)
  · simp only [List.mem_singleton] at hx; subst hx; exact Or.inl rfl

theorem pre_created (σ : State) (n : Nat) :
    ∀ x ∈ (if (getNode n σ.nodes).isSome then [] else [Out.created n] : List Out), x.about = none := by
  intro x hx
  split at hx
  · cases hx
  · simp only [List.mem_singleton] at hx; subst hx; rfl

theorem wf_pre_created {c : Cfg} {t : Nat} {outs : List Out} (h : Wf c t outs) (σ : State) (n : Nat) :
    Wf c t (outs ++ (if (getNode n σ.nodes).isSome then [] else [Out.created n] : List Out)) := by
  split
  · simpa using h
  · exact Wf.created n h

/-- enqueueing a well-formed message built at the current clock reading -/
theorem ginv_enq {c : Cfg} {q : Nat} {σ : State} {outs : List Out} (h : GInv c σ outs) (n : Nat)
    (i : In) (hwf : i.WF) (hk : isMsg i = true) (pre : List Out) (hpre : ∀ x ∈ pre, x.about = none)
    (hwpre : Wf c σ.clock (outs ++ pre))
    {nd' : Node} {o' : List Out} (he : Node.enq q n (σ.node n) ⟨i, σ.clock⟩ = some (nd', o')) :
    GInv c (σ.withNode n nd') (outs ++ (pre ++ o')) := by
  obtain ⟨rfl, rfl⟩ := enq_some he
  exact ginv_update h n _ rfl rfl h.inbox (about_pre_enq n _ pre hpre)
    (by rw [← List.append_assoc]; exact Wf.enq n _ hwpre hk)
    (ninv_enq (h.nodes n) ⟨i, σ.clock⟩ hwf (Nat.le_refl _) hk pre hpre)

theorem dispatchEv_ginv {c : Cfg} {q : Nat} {σ σ' : State} {outs o : List Out} {ev : AppEv}
    (h : GInv c σ outs) (hev : ev.wf = true) (hs : dispatchEv c q σ ev = some (σ', o)) :
    GInv c σ' (outs ++ o) := by
  cases ev with
  | online =>
    simp only [dispatchEv, Option.some.injEq, Prod.mk.injEq] at hs
    obtain ⟨rfl, rfl⟩ := hs
    exact ginv_silent h rfl (Nat.le_refl _) h.inbox
  | offline =>
    simp only [dispatchEv] at hs
    split at hs
    · simp only [Option.some.injEq, Prod.mk.injEq] at hs
      obtain ⟨rfl, rfl⟩ := hs
      exact ginv_silent h rfl (Nat.le_refl _) h.inbox
    · simp only [Option.some.injEq, Prod.mk.injEq] at hs
      obtain ⟨rfl, rfl⟩ := hs
      exact ginv_silent h rfl (Nat.le_refl _) h.inbox
  | invalid n =>
    simp only [dispatchEv] at hs
    split at hs
    · simp only [Option.some.injEq, Prod.mk.injEq] at hs
      obtain ⟨rfl, rfl⟩ := hs
      exact ginv_update h n _ rfl rfl h.inbox
        (about_pre_offered n _ _ _ (pre_created σ n))
        (by rw [← List.append_assoc]; exact Wf.offered n _ _ (wf_pre_created h.wf σ n))
        (ninv_offer (h.nodes n) (σ.node n) rfl rfl rfl .invalidPayload _ (pre_created σ n))
    · simp only [Option.some.injEq, Prod.mk.injEq] at hs
      obtain ⟨rfl, rfl⟩ := hs
      exact ginv_silent h rfl (Nat.le_refl _) h.inbox
  | node n i =>
    cases i with
    | nbirth ts bd id ans =>
      simp only [dispatchEv] at hs
      split at hs
      · rename_i nd' o' he
        simp only [Option.some.injEq, Prod.mk.injEq] at hs
        obtain ⟨rfl, rfl⟩ := hs
        exact ginv_enq h n _ (by simpa [AppEv.wf, In.WF] using hev) rfl _ (pre_created σ n)
          (wf_pre_created h.wf σ n) he
      · cases hs
    | ndeath bd =>
      simp only [dispatchEv] at hs
      split at hs
      · simp only [Option.some.injEq, Prod.mk.injEq] at hs
        obtain ⟨rfl, rfl⟩ := hs
        exact ginv_silent h rfl (Nat.le_refl _) h.inbox
      · rename_i nd hg
        rw [← node_of_get hg] at hs
        split at hs
        · rename_i nd' o' he
          simp only [Option.some.injEq, Prod.mk.injEq] at hs
          obtain ⟨rfl, rfl⟩ := hs
          have := ginv_enq h n _ (by simpa [AppEv.wf, In.WF] using hev) rfl [] (by simp)
            (by simpa using h.wf) he
          simpa using this
        · cases hs
    | rmsg seq ts m =>
      simp only [dispatchEv] at hs
      split at hs
      · rename_i hg
        simp only [Option.some.injEq, Prod.mk.injEq] at hs
        obtain ⟨rfl, rfl⟩ := hs
        have hnode : σ.node n = {} := node_of_get_none hg
        have := ninv_offer (h.nodes n) ({} : Node) (by rw [hnode]) (by rw [hnode]) (by rw [hnode])
          .unknownNode [.created n] (by simp [Out.about])
        exact ginv_update h n _ rfl rfl h.inbox
          (about_pre_offered n _ _ [.created n] (by simp [Out.about]))
          (by
            have := Wf.offered n .unknownNode (offer ({} : Node) .unknownNode).2 (Wf.created n h.wf)
            simpa using this) this
      · rename_i nd hg
        rw [← node_of_get hg] at hs
        split at hs
        · rename_i nd' o' he
          simp only [Option.some.injEq, Prod.mk.injEq] at hs
          obtain ⟨rfl, rfl⟩ := hs
          have := ginv_enq h n _ (by simpa [AppEv.wf, In.WF] using hev) rfl [] (by simp)
            (by simpa using h.wf) he
          simpa using this
        · cases hs
    | offline => simp [AppEv.wf] at hev
    | rebirthReq r => simp [AppEv.wf] at hev
    | timerFire => simp [AppEv.wf] at hev

/-- every transition keeps the invariant -/
theorem step_ginv {c : Cfg} {q : Nat} {σ σ' : State} {outs o : List Out} (l : Label)
    (h : GInv c σ outs) (hs : HostQ.step c q σ l = some (σ', o)) : GInv c σ' (outs ++ o) := by
  cases l with
  | push ev =>
    simp only [HostQ.step] at hs
    split at hs
    · rename_i hwf
      simp only [Option.some.injEq, Prod.mk.injEq] at hs
      obtain ⟨rfl, rfl⟩ := hs
      refine ginv_silent h rfl (Nat.le_refl _) ?_
      intro e he
      simp only [List.mem_append, List.mem_singleton] at he
      rcases he with he | rfl
      · exact h.inbox e he
      · exact hwf
    · cases hs
  | tick =>
    simp only [HostQ.step, Option.some.injEq, Prod.mk.injEq] at hs
    obtain ⟨rfl, rfl⟩ := hs
    exact ginv_silent h rfl (Nat.le_succ _) h.inbox
  | fire n =>
    simp only [HostQ.step] at hs
    obtain ⟨nd, nd', hg, hf, rfl⟩ := onNode_some hs
    unfold Node.fire at hf
    split at hf
    · cases hf
    · split at hf
      · simp only [Option.some.injEq, Prod.mk.injEq] at hf
        obtain ⟨rfl, rfl⟩ := hf
        have hn := node_of_get hg
        have := ninv_offer (h.nodes n) { nd with task := none } (by rw [hn]) (by rw [hn]) (by rw [hn])
          .reorderTimeout [] (by simp)
        exact ginv_update h n _ rfl rfl h.inbox
          (by simpa using about_pre_offered n .reorderTimeout _ [] (by simp))
          (Wf.offered n _ _ h.wf) (by simpa using this)
      · cases hf
  | actReason n =>
    simp only [HostQ.step] at hs
    obtain ⟨nd, nd', hg, hf, rfl⟩ := onNode_some hs
    obtain ⟨r, hp, rfl, rfl⟩ := actReason_some hf
    have hn := node_of_get hg
    have hinv := h.nodes n
    unfold NodeInv at hinv
    rw [hn] at hinv
    have hchan := hinv.chan
    rw [hp] at hchan
    have := hinv.act [⟨.rebirthReq r, σ.clock, σ.clock⟩]
      (by intro e he; simp only [List.mem_singleton] at he; subst he; exact ⟨trivial, Nat.le_refl _, rfl⟩)
      nd.queue none (tookMsgsOf n outs) (tookReasonsOf n outs ++ [r]) hinv.fifo
      (by simpa using hchan) (fun m hm => hm)
    rw [run_single] at this
    have hw := Wf.tookReason n r h.wf
    rw [← hinv.st_eq] at hw
    refine ginv_update h n _ rfl rfl h.inbox (by intro x hx; simp only [List.mem_singleton] at hx; subst hx; exact Or.inl rfl) hw ?_
    simp only [histOf_append, effsOf_append, tookMsgsOf_append, sentOf_append, tookReasonsOf_append,
      acceptedOf_append]
    simpa [histOf, effsOf, tookMsgsOf, sentOf, tookReasonsOf, acceptedOf, Out.hist, Out.effs,
      Out.tookMsgs, Out.sent, Out.tookReasons, Out.accepted] using this
  | actMsg n =>
    simp only [HostQ.step] at hs
    obtain ⟨nd, nd', hg, hf, rfl⟩ := onNode_some hs
    obtain ⟨m, rest, hq, rfl, rfl⟩ := actMsg_some hf
    have hn := node_of_get hg
    have hinv := h.nodes n
    unfold NodeInv at hinv
    rw [hn] at hinv
    have hfifo := hinv.fifo
    rw [hq] at hfifo
    have hm := hinv.queue_ok m (by rw [hq]; exact List.mem_cons_self ..)
    have := hinv.act (actEvs nd.st m σ.clock) (actEvs_ok nd.st m σ.clock hinv.bd hm.1 hm.2.1)
      rest nd.pending (tookMsgsOf n outs ++ [m]) (tookReasonsOf n outs)
      (by simpa using hfifo) hinv.chan (fun m' hm' => by rw [hq]; exact List.mem_cons_of_mem _ hm')
    have hw := Wf.tookMsg n m h.wf hm.2.2 hm.1 hm.2.1
    rw [← hinv.st_eq] at hw
    refine ginv_update h n _ rfl rfl h.inbox (by intro x hx; simp only [List.mem_singleton] at hx; subst hx; exact Or.inl rfl) hw ?_
    simp only [histOf_append, effsOf_append, tookMsgsOf_append, sentOf_append, tookReasonsOf_append,
      acceptedOf_append]
    simpa [histOf, effsOf, tookMsgsOf, sentOf, tookReasonsOf, acceptedOf, Out.hist, Out.effs,
      Out.tookMsgs, Out.sent, Out.tookReasons, Out.accepted] using this
  | offl n =>
    simp only [HostQ.step] at hs
    split at hs
    · split at hs
      · rename_i σ1 o1 hon
        simp only [Option.some.injEq, Prod.mk.injEq] at hs
        obtain ⟨rfl, rfl⟩ := hs
        obtain ⟨nd, nd', hg, hf, rfl⟩ := onNode_some hon
        rw [← node_of_get hg] at hf
        have := ginv_enq h n .offline trivial rfl [] (by simp) (by simpa using h.wf) hf
        have h2 : GInv c (σ.withNode n nd') (outs ++ o1) := by simpa using this
        exact ⟨fun k => h2.nodes k, h2.inbox, h2.wf⟩
      · cases hs
    · cases hs
  | dispatch =>
    simp only [HostQ.step] at hs
    split at hs
    · split at hs
      · cases hs
      · rename_i ev rest hin
        have hev : ev.wf = true := h.inbox ev (by rw [hin]; exact List.mem_cons_self ..)
        have h0 : GInv c { σ with inbox := rest } outs :=
          ⟨fun k => h.nodes k, fun e he => h.inbox e (by rw [hin]; exact List.mem_cons_of_mem _ he), h.wf⟩
        exact dispatchEv_ginv h0 hev hs
    · cases hs

theorem init_ginv (c : Cfg) (t0 : Nat) : GInv c (State.init t0) [] :=
  ⟨fun _ => NInv.init c t0, by simp [State.init], Wf.nil t0⟩

theorem reach_ginv {c : Cfg} {q t0 : Nat} {σ : State} {outs : List Out} (h : Reach c q t0 σ outs) :
    GInv c σ outs := by
  induction h with
  | init => exact init_ginv c t0
  | step l _ hs ih => exact step_ginv l ih hs

/-! ### an NDEATH handled in two steps vs. `Host.step` on the NDEATH -/

theorem issueRebirth_stale_now (c : Cfg) (s : St) (r : Reason) (now now' wall : Nat)
    (h : s.life = .stale) : issueRebirth c s r now wall = issueRebirth c s r now' wall := by
  unfold issueRebirth
  rw [setStale_noop { s with lastRebirth := wall } now (Or.inl h),
    setStale_noop { s with lastRebirth := wall } now' (Or.inl h)]

theorem setStale_life (s : St) (t : Nat) (h : s.birthTs ≤ t ∨ s.life = .stale) :
    (setStale s t).1.life = .stale := by
  rcases setStale_cases s t with he | ⟨_, _, he⟩
  · rw [he]
    rcases h with h | h
    · by_cases hl : s.life = .stale
      · exact hl
      · exfalso
        have hb : s.life = .birthed := by cases hs : s.life <;> simp_all
        have := setStale_go s t hb h
        rw [he] at this
        have h2 := congrArg (fun p => p.1.life) this
        simp at h2
        exact hl h2
    · exact h
  · rw [he]

/-- what the actor does with a queued NDEATH (two `Host.step`s, the second one reading the clock
again) is `Host.step` on that NDEATH with the dispatch time whenever the two readings agree, or
the birth timestamp is not ahead of the dispatch time, or the node is held stale anyway -/
theorem death_two_steps (c : Cfg) (s : St) (bd d t : Nat)
    (h : d = t ∨ s.birthTs ≤ d ∨ s.life = .stale) :
    run c s (actEvs s ⟨.ndeath bd, d⟩ t) = Host.step c s (.ndeath bd) d t := by
  have hbd : (setStale (cancelTimer s).1 d).1.bdseq = s.bdseq := by
    rw [(setStale_fields _ d).2.1, cancelTimer_bdseq]
  have hA : Host.step c s (.ndeath s.bdseq) d t =
      ((setStale (cancelTimer s).1 d).1, (cancelTimer s).2 ++ (setStale (cancelTimer s).1 d).2) := by
    simp only [Host.step]
    rw [if_neg (by rw [hbd]; simp)]
  by_cases hm : bd = s.bdseq
  · subst hm
    simp only [actEvs, ne_eq, not_true_eq_false, if_false]
    rw [run_single]
  · simp only [actEvs, ne_eq, hm, not_false_eq_true, if_true]
    rw [run_cons, run_single]
    simp only
    rw [hA]
    simp only [Host.step]
    rw [if_pos (by rw [hbd]; exact hm)]
    have hiss : issueRebirth c (setStale (cancelTimer s).1 d).1 .outOfSyncBdSeq t t
        = issueRebirth c (setStale (cancelTimer s).1 d).1 .outOfSyncBdSeq d t := by
      rcases h with h | h
      · rw [h]
      · apply issueRebirth_stale_now
        apply setStale_life
        rw [cancelTimer_fst]
        exact h
    rw [hiss]

/-- one queued message = one input (`Out.plainHist`) under the same condition -/
theorem actEvs_plain (c : Cfg) (s : St) (m : QMsg) (t : Nat)
    (h : ∀ bd, m.inp = .ndeath bd → m.disp = t ∨ s.birthTs ≤ m.disp ∨ s.life = .stale) :
    run c s (actEvs s m t)
      = run c s [⟨m.inp, m.now t, t⟩] := by
  obtain ⟨i, d⟩ := m
  cases i with
  | ndeath bd =>
    rw [run_single]
    exact death_two_steps c s bd d t (h bd rfl)
  | nbirth ts bd id ans => rfl
  | rmsg seq ts rm => rfl
  | offline => rfl
  | rebirthReq r => rfl
  | timerFire => rfl

theorem DeathsPrompt.left {a b : List Out} (h : DeathsPrompt (a ++ b)) : DeathsPrompt a :=
  fun n bd d t evs effs hx => h n bd d t evs effs (List.mem_append_left _ hx)

/-- with every NDEATH handled at the clock reading it was dispatched at, the inputs executed are
the consumed messages and reasons themselves, one input each -/
theorem wf_plain {c : Cfg} {t : Nat} {outs : List Out} (h : Wf c t outs) (hp : DeathsPrompt outs)
    (n : Nat) : run c Host.init (plainHistOf n outs) = run c Host.init (histOf n outs) := by
  induction h with
  | nil => rfl
  | mono _ _ ih => exact ih hp
  | created k _ ih =>
    have := ih hp.left
    simpa [plainHistOf_append, histOf_append, plainHistOf, histOf, Out.plainHist, Out.hist] using this
  | enq k m _ _ ih =>
    have := ih hp.left
    simpa [plainHistOf_append, histOf_append, plainHistOf, histOf, Out.plainHist, Out.hist] using this
  | offered k r b _ ih =>
    have := ih hp.left
    simpa [plainHistOf_append, histOf_append, plainHistOf, histOf, Out.plainHist, Out.hist] using this
  | tookReason k r _ ih =>
    have := ih hp.left
    by_cases hk : k = n
    · subst hk
      rw [plainHistOf_append, histOf_append, run_append, run_append, this]
      simp [plainHistOf, histOf, Out.plainHist, Out.hist]
    · simpa [plainHistOf_append, histOf_append, plainHistOf, histOf, Out.plainHist, Out.hist, hk]
        using this
  | @tookMsg t outs' k m _ _ _ _ ih =>
    have := ih hp.left
    by_cases hk : k = n
    · subst hk
      rw [plainHistOf_append, histOf_append, run_append, run_append, this]
      have hloc := actEvs_plain c (run c Host.init (histOf k outs')).1 m t (by
        intro bd hbd
        left
        obtain ⟨i, d⟩ := m
        simp only at hbd
        subst hbd
        exact hp k bd d t _ _ (List.mem_append_right _ (List.mem_singleton.mpr rfl)))
      simp only [plainHistOf, histOf, Out.plainHist, Out.hist, List.flatMap_cons, List.flatMap_nil,
        if_true, List.append_nil]
      simp only [histOf] at hloc
      rw [hloc]
    · simpa [plainHistOf_append, histOf_append, plainHistOf, histOf, Out.plainHist, Out.hist, hk]
        using this

/-! ### the plain history read back: its message inputs are the consumed messages, its
rebirth-channel inputs the consumed reasons -/

theorem wf_tookMsgs_kind {c : Cfg} {t : Nat} {outs : List Out} (h : Wf c t outs) (n : Nat) :
    ∀ m ∈ tookMsgsOf n outs, isMsg m.inp = true := by
  induction h with
  | nil => intro m hm; simp [tookMsgsOf] at hm
  | mono _ _ ih => exact ih
  | created k _ ih => simpa [tookMsgsOf_append, tookMsgsOf, Out.tookMsgs] using ih
  | enq k m _ _ ih => simpa [tookMsgsOf_append, tookMsgsOf, Out.tookMsgs] using ih
  | offered k r b _ ih => simpa [tookMsgsOf_append, tookMsgsOf, Out.tookMsgs] using ih
  | tookReason k r _ ih => simpa [tookMsgsOf_append, tookMsgsOf, Out.tookMsgs] using ih
  | tookMsg k m _ hk _ _ ih =>
    intro m' hm'
    rw [tookMsgsOf_append] at hm'
    rcases List.mem_append.mp hm' with hm' | hm'
    · exact ih m' hm'
    · by_cases hkn : k = n
      · simp [tookMsgsOf, Out.tookMsgs, hkn] at hm'
        subst hm'; exact hk
      · simp [tookMsgsOf, Out.tookMsgs, hkn] at hm'

theorem msgInputs_append (a b : List Ev) : msgInputs (a ++ b) = msgInputs a ++ msgInputs b := by
  simp [msgInputs]

theorem reasonInputs_append (a b : List Ev) :
    reasonInputs (a ++ b) = reasonInputs a ++ reasonInputs b := by
  simp [reasonInputs]

theorem wf_plain_inputs {c : Cfg} {t : Nat} {outs : List Out} (h : Wf c t outs) (n : Nat) :
    msgInputs (plainHistOf n outs) = (tookMsgsOf n outs).map (·.inp) ∧
    reasonInputs (plainHistOf n outs) = tookReasonsOf n outs := by
  induction h with
  | nil => exact ⟨rfl, rfl⟩
  | mono _ _ ih => exact ih
  | created k _ ih =>
    simpa [plainHistOf_append, tookMsgsOf_append, tookReasonsOf_append, plainHistOf, tookMsgsOf,
      tookReasonsOf, Out.plainHist, Out.tookMsgs, Out.tookReasons] using ih
  | enq k m _ _ ih =>
    simpa [plainHistOf_append, tookMsgsOf_append, tookReasonsOf_append, plainHistOf, tookMsgsOf,
      tookReasonsOf, Out.plainHist, Out.tookMsgs, Out.tookReasons] using ih
  | offered k r b _ ih =>
    simpa [plainHistOf_append, tookMsgsOf_append, tookReasonsOf_append, plainHistOf, tookMsgsOf,
      tookReasonsOf, Out.plainHist, Out.tookMsgs, Out.tookReasons] using ih
  | tookReason k r _ ih =>
    rw [plainHistOf_append, tookMsgsOf_append, tookReasonsOf_append, msgInputs_append,
      reasonInputs_append, ih.1, ih.2]
    by_cases hk : k = n
    · simp [plainHistOf, tookMsgsOf, tookReasonsOf, Out.plainHist, Out.tookMsgs, Out.tookReasons, hk,
        msgInputs, reasonInputs, isMsg]
    · simp [plainHistOf, tookMsgsOf, tookReasonsOf, Out.plainHist, Out.tookMsgs, Out.tookReasons, hk,
        msgInputs, reasonInputs]
  | tookMsg k m _ hkind _ _ ih =>
    rw [plainHistOf_append, tookMsgsOf_append, tookReasonsOf_append, msgInputs_append,
      reasonInputs_append, ih.1, ih.2]
    by_cases hk : k = n
    · simp [plainHistOf, tookMsgsOf, tookReasonsOf, Out.plainHist, Out.tookMsgs, Out.tookReasons, hk,
        msgInputs, reasonInputs, hkind]
      split
      · rename_i r hi
        rw [hi] at hkind
        simp [isMsg] at hkind
      · rfl
    · simp [plainHistOf, tookMsgsOf, tookReasonsOf, Out.plainHist, Out.tookMsgs, Out.tookReasons, hk,
        msgInputs, reasonInputs]

/-- clock readings of the plain history: `now ≤ wall ≤` the clock, `wall` never decreases; every
input is `u8`-well-formed -/
theorem wf_plain_clocks {c : Cfg} {t : Nat} {outs : List Out} (h : Wf c t outs) (n : Nat) :
    (∀ e ∈ plainHistOf n outs, e.inp.WF ∧ e.now ≤ e.wall ∧ e.wall ≤ t) ∧
    (plainHistOf n outs).Pairwise (fun a b => a.wall ≤ b.wall) := by
  induction h with
  | nil => simp [plainHistOf]
  | mono _ ht ih =>
    exact ⟨fun e he => ⟨(ih.1 e he).1, (ih.1 e he).2.1, Nat.le_trans (ih.1 e he).2.2 ht⟩, ih.2⟩
  | created k _ ih =>
    simpa [plainHistOf_append, plainHistOf, Out.plainHist] using ih
  | enq k m _ _ ih =>
    simpa [plainHistOf_append, plainHistOf, Out.plainHist] using ih
  | offered k r b _ ih =>
    simpa [plainHistOf_append, plainHistOf, Out.plainHist] using ih
  | @tookReason t outs' k r _ ih =>
    by_cases hk : k = n
    · have e : plainHistOf n (outs' ++ [Out.tookReason k r t
          (Host.step c (run c Host.init (histOf k outs')).1 (.rebirthReq r) t t).2])
          = plainHistOf n outs' ++ [⟨.rebirthReq r, t, t⟩] := by
        simp [plainHistOf, Out.plainHist, hk]
      rw [e]
      refine ⟨fun x hx => ?_, ?_⟩
      · rcases List.mem_append.mp hx with hx | hx
        · exact ih.1 x hx
        · simp only [List.mem_singleton] at hx; subst hx
          exact ⟨trivial, Nat.le_refl _, Nat.le_refl _⟩
      · rw [List.pairwise_append]
        refine ⟨ih.2, by simp, fun a ha b hb => ?_⟩
        simp only [List.mem_singleton] at hb; subst hb
        exact (ih.1 a ha).2.2
    · simpa [plainHistOf_append, plainHistOf, Out.plainHist, hk] using ih
  | @tookMsg t outs' k m _ _ hwf hd ih =>
    by_cases hk : k = n
    · have e : plainHistOf n (outs' ++ [Out.tookMsg k m t
          (actEvs (run c Host.init (histOf k outs')).1 m t)
          (run c (run c Host.init (histOf k outs')).1 (actEvs (run c Host.init (histOf k outs')).1 m t)).2])
          = plainHistOf n outs' ++
            [⟨m.inp, m.now t, t⟩] := by
        simp [plainHistOf, Out.plainHist, hk]
      rw [e]
      refine ⟨fun x hx => ?_, ?_⟩
      · rcases List.mem_append.mp hx with hx | hx
        · exact ih.1 x hx
        · simp only [List.mem_singleton] at hx; subst hx
          refine ⟨hwf, ?_, Nat.le_refl _⟩
          simp only [QMsg.now]
          split
          · exact hd
          · exact Nat.le_refl _
      · rw [List.pairwise_append]
        refine ⟨ih.2, by simp, fun a ha b hb => ?_⟩
        simp only [List.mem_singleton] at hb; subst hb
        exact (ih.1 a ha).2.2
    · simpa [plainHistOf_append, plainHistOf, Out.plainHist, hk] using ih

/-! ### `execL` runs are executions -/

theorem reach_execL {c : Cfg} {q t0 : Nat} (ls : List Label) :
    ∀ {σ0 σ : State} {outs0 o : List Out}, Reach c q t0 σ0 outs0 →
      execL c q σ0 ls = some (σ, o) → Reach c q t0 σ (outs0 ++ o) := by
  induction ls with
  | nil =>
    intro σ0 σ outs0 o h he
    simp only [execL, Option.some.injEq, Prod.mk.injEq] at he
    obtain ⟨rfl, rfl⟩ := he
    simpa using h
  | cons l ls ih =>
    intro σ0 σ outs0 o h he
    simp only [execL] at he
    split at he
    · cases he
    · rename_i σ1 o1 hs
      split at he
      · cases he
      · rename_i σ2 o2 hr
        simp only [Option.some.injEq, Prod.mk.injEq] at he
        obtain ⟨rfl, rfl⟩ := he
        have := ih (Reach.step l h hs) hr
        simpa [List.append_assoc] using this

end Srad.HostQ
