/-
Helper lemmas for C11 (birth certificates). The property theorems are in `Props/C11.lean`.
-/
import SradModel.Model.BirthSpec

namespace Srad.Birth

variable {U : Type}

/-! ### the collision loop -/

theorem bumpGo_ok {M : Nat} {ovf : Bool} {off base : Nat} {taken : List Nat} :
    ∀ (fuel j c : Nat), bumpGo M ovf off base taken fuel j = .ok c →
      c ∉ taken ∧ ∃ k, j ≤ k ∧ k < j + fuel ∧ c = off + (base + k) % M := by
  intro fuel
  induction fuel with
  | zero => intro j c h; simp [bumpGo] at h
  | succ f ih =>
    intro j c h
    unfold bumpGo at h
    split at h
    · split at h
      · cases h
      · obtain ⟨h1, k, hk1, hk2, hk3⟩ := ih (j + 1) c h
        exact ⟨h1, k, by omega, by omega, hk3⟩
    · cases h
      rename_i hn
      exact ⟨hn, j, by omega, by omega, rfl⟩

/-- a panic of the loop is the overflow of the incremented integer, or fuel exhaustion with
every candidate taken -/
theorem bumpGo_panic {M : Nat} {ovf : Bool} {off base : Nat} {taken : List Nat} :
    ∀ (fuel j : Nat), bumpGo M ovf off base taken fuel j = .panic →
      (ovf = true ∧ ∃ k, j ≤ k ∧ (base + k) % M + 1 = M ∧ off + (base + k) % M ∈ taken) ∨
      (∀ k, j ≤ k → k < j + fuel → off + (base + k) % M ∈ taken) := by
  intro fuel
  induction fuel with
  | zero => intro j _; right; intro k h1 h2; omega
  | succ f ih =>
    intro j h
    unfold bumpGo at h
    split at h
    · rename_i hm
      split at h
      · rename_i ho
        left; exact ⟨ho.1, j, Nat.le_refl _, ho.2, hm⟩
      · rcases ih (j + 1) h with ⟨ho, k, hk1, hk2, hk3⟩ | hall
        · left; exact ⟨ho, k, by omega, hk2, hk3⟩
        · right
          intro k h1 h2
          by_cases hkj : k = j
          · subst hkj; exact hm
          · exact hall k (by omega) (by omega)
    · cases h

theorem bumpGo_ne_err {M : Nat} {ovf : Bool} {off base : Nat} {taken : List Nat} :
    ∀ (fuel j : Nat) (e : Err), bumpGo M ovf off base taken fuel j ≠ .err e := by
  intro fuel
  induction fuel with
  | zero => intro j e h; simp [bumpGo] at h
  | succ f ih =>
    intro j e h
    unfold bumpGo at h
    split at h
    · split at h
      · cases h
      · exact ih _ _ h
    · cases h

/-- pigeonhole: a duplicate-free list inside `t` is no longer than `t` -/
theorem nodup_subset_length_le {α} [DecidableEq α] :
    ∀ (l t : List α), l.Nodup → (∀ x ∈ l, x ∈ t) → l.length ≤ t.length := by
  intro l
  induction l with
  | nil => intros; simp
  | cons a l ih =>
    intro t hnd hsub
    have ha : a ∈ t := hsub a (by simp)
    have hnd' := List.nodup_cons.mp hnd
    have h2 : ∀ x ∈ l, x ∈ t.erase a := by
      intro x hx
      have hne : x ≠ a := by intro hxa; subst hxa; exact hnd'.1 hx
      exact (List.mem_erase_of_ne hne).mpr (hsub x (by simp [hx]))
    have h3 := ih (t.erase a) hnd'.2 h2
    have h4 : (t.erase a).length = t.length - 1 := List.length_erase_of_mem ha
    have h5 : 0 < t.length := List.length_pos_of_mem ha
    simp only [List.length_cons]
    omega

theorem candidates_nodup (M off base : Nat) :
    ∀ n, n ≤ M → ((List.range n).map fun k => off + (base + k) % M).Nodup := by
  intro n hn
  rw [List.nodup_iff_pairwise_ne, List.pairwise_map]
  refine List.Pairwise.imp_of_mem ?_ (List.pairwise_lt_range (n := n))
  intro a b ha hb hab
  have ha' := List.mem_range.mp ha
  have hb' := List.mem_range.mp hb
  have hM : 0 < M := by omega
  intro heq
  have h1 : (base + a) % M = (base + b) % M := by omega
  have h2 : (base + b) % M = ((base + a) % M + (b - a)) % M := by
    rw [Nat.mod_add_mod]; congr 1; omega
  have h4 : (base + a) % M < M := Nat.mod_lt _ hM
  generalize (base + a) % M = x at *
  by_cases h5 : x + (b - a) < M
  · rw [Nat.mod_eq_of_lt h5] at h2; omega
  · have h6 : (x + (b - a)) % M = x + (b - a) - M := by
      rw [Nat.mod_eq_sub_mod (by omega)]
      exact Nat.mod_eq_of_lt (by omega)
    omega

theorem not_all_taken {M off base : Nat} {taken : List Nat} (hlen : taken.length < M) :
    ¬ (∀ k, k < taken.length + 1 → off + (base + k) % M ∈ taken) := by
  intro hall
  have hnd := candidates_nodup M off base (taken.length + 1) (by omega)
  have h := nodup_subset_length_le _ taken hnd (by
    intro x hx
    obtain ⟨k, hk, rfl⟩ := List.mem_map.mp hx
    exact hall k (List.mem_range.mp hk))
  simp at h
  omega

theorem bump_ok {M : Nat} {ovf : Bool} {off base : Nat} {taken : List Nat} {c : Nat}
    (h : bump M ovf off base taken = .ok c) :
    c ∉ taken ∧ ∃ k, k ≤ taken.length ∧ c = off + (base + k) % M := by
  obtain ⟨h1, k, _, hk2, hk3⟩ := bumpGo_ok _ _ _ h
  exact ⟨h1, k, by omega, hk3⟩

theorem bump_ne_err {M : Nat} {ovf : Bool} {off base : Nat} {taken : List Nat} (e : Err) :
    bump M ovf off base taken ≠ .err e := bumpGo_ne_err _ _ e

/-- the loop does not run out of fuel: a panic is the integer overflow -/
theorem bump_panic {M : Nat} {ovf : Bool} {off base : Nat} {taken : List Nat}
    (hlen : taken.length < M) (h : bump M ovf off base taken = .panic) :
    ovf = true ∧ off + (M - 1) ∈ taken := by
  rcases bumpGo_panic _ _ h with ⟨ho, k, _, hk2, hk3⟩ | hall
  · refine ⟨ho, ?_⟩
    have : (base + k) % M = M - 1 := by omega
    rw [this] at hk3; exact hk3
  · exfalso
    exact not_all_taken hlen (fun k hk => hall k (Nat.zero_le _) (by omega))

theorem bump_total {M : Nat} {off base : Nat} {taken : List Nat} (hlen : taken.length < M) :
    ∃ c, bump M false off base taken = .ok c := by
  cases h : bump M false off base taken with
  | ok c => exact ⟨c, rfl⟩
  | err e => exact absurd h (bump_ne_err e)
  | panic => have := (bump_panic hlen h).1; cases this

/-! ### aliases -/

theorem genAlias_ok {cfg : Cfg} {h : Name → Nat} {st : Init U} {n : Name} {a : Nat}
    (hg : genAlias cfg h st n = .ok a) : a ∉ st.aliases := by
  unfold genAlias at hg
  split at hg
  · exact (bump_ok hg).1
  · exact (bump_ok hg).1

theorem genAlias_ne_err {cfg : Cfg} {h : Name → Nat} {st : Init U} {n : Name} (e : Err) :
    genAlias cfg h st n ≠ .err e := by
  unfold genAlias
  split
  · exact bump_ne_err e
  · exact bump_ne_err e

/-- the high half of a generated alias is the object id, for the repaired bump always, for
`alias += 1` when the bump cannot leave the low half -/
theorem genAlias_half {cfg : Cfg} {h : Name → Nat} {st : Init U} {n : Name} {a : Nat}
    (hc : cfg.inHalf = true ∨ (st.obj < two32 ∧ h n % two32 + st.aliases.length < two32))
    (hg : genAlias cfg h st n = .ok a) : a / two32 = st.obj := by
  unfold genAlias at hg
  split at hg
  · obtain ⟨_, k, _, hk⟩ := bump_ok hg
    have : (h n % two32 + k) % two32 < two32 := Nat.mod_lt _ (by decide)
    subst hk
    unfold two32 at *
    omega
  · rename_i hf
    rcases hc with hc | ⟨ho, hl⟩
    · exact absurd hc hf
    · obtain ⟨_, k, hk1, hk⟩ := bump_ok hg
      subst hk
      unfold two32 two64 at *
      omega

theorem genAlias_total {cfg : Cfg} {h : Name → Nat} {st : Init U} {n : Name}
    (hc : cfg.inHalf = true) (hl : st.aliases.length < two32) :
    ∃ a, genAlias cfg h st n = .ok a := by
  unfold genAlias
  rw [if_pos hc]
  exact bump_total hl

/-- with `alias += 1` the only panic is the `u64` overflow under overflow checks -/
theorem genAlias_panic {cfg : Cfg} {h : Name → Nat} {st : Init U} {n : Name}
    (hl : st.aliases.length < two32) (hg : genAlias cfg h st n = .panic) :
    cfg.inHalf = false ∧ cfg.ovf = true ∧ (two64 - 1) ∈ st.aliases := by
  unfold genAlias at hg
  split at hg
  · have := (bump_panic hl hg).1; cases this
  · rename_i hf
    have hl' : st.aliases.length < two64 := by unfold two32 at hl; unfold two64; omega
    obtain ⟨h1, h2⟩ := bump_panic hl' hg
    refine ⟨by simpa using hf, h1, by simpa using h2⟩

/-! ### one accepted registration -/

/-- `st'` is `st` after pushing metric `m` under the new name `n` -/
structure Pushed (st st' : Init U) (n : Name) (m : Metric U) : Prop where
  metrics : st'.metrics = st.metrics ++ [m]
  names : st'.names = n :: st.names
  obj : st'.obj = st.obj
  registry : st'.registry = st.registry
  mname : m.name = some n
  fresh : n ∉ st.names
  alias : (m.alias = none ∧ st'.aliases = st.aliases) ∨
    (∃ a, m.alias = some a ∧ a ∉ st.aliases ∧ st'.aliases = a :: st.aliases)

theorem createToken_ok {cfg : Cfg} {h : Name → Nat} {st st' : Init U} {n : Name} {ua : Bool}
    {id : MetricId} (hc : createToken cfg h st n ua = .ok (id, st')) :
    n ∉ st.names ∧ st'.metrics = st.metrics ∧ st'.names = n :: st.names ∧ st'.obj = st.obj ∧
    st'.registry = st.registry ∧
    ((ua = false ∧ id = .name n ∧ st'.aliases = st.aliases) ∨
     (ua = true ∧ ∃ a, id = .alias a ∧ genAlias cfg h st n = .ok a ∧
        st'.aliases = a :: st.aliases)) := by
  unfold createToken at hc
  split at hc
  · cases hc
  · rename_i hn
    split at hc
    · rename_i hua
      split at hc
      · rename_i a hg
        cases hc
        exact ⟨hn, rfl, rfl, rfl, rfl, Or.inr ⟨hua, a, rfl, hg, rfl⟩⟩
      · cases hc
      · cases hc
    · rename_i hua
      cases hc
      exact ⟨hn, rfl, rfl, rfl, rfl, Or.inl ⟨by simpa using hua, rfl, rfl⟩⟩

theorem createToken_err {cfg : Cfg} {h : Name → Nat} {st : Init U} {n : Name} {ua : Bool}
    {e : Err} (hc : createToken cfg h st n ua = .err e) : e = .duplicate ∧ n ∈ st.names := by
  unfold createToken at hc
  split at hc
  · rename_i hn; cases hc; exact ⟨rfl, hn⟩
  · split at hc
    · split at hc
      · cases hc
      · rename_i e' hg; exact absurd hg (genAlias_ne_err e')
      · cases hc
    · cases hc

theorem createToken_panic {cfg : Cfg} {h : Name → Nat} {st : Init U} {n : Name} {ua : Bool}
    (hc : createToken cfg h st n ua = .panic) :
    n ∉ st.names ∧ ua = true ∧ genAlias cfg h st n = .panic := by
  unfold createToken at hc
  split at hc
  · cases hc
  · rename_i hn
    split at hc
    · rename_i hua
      split at hc
      · cases hc
      · cases hc
      · rename_i hg; exact ⟨hn, hua, hg⟩
    · cases hc

theorem pushWithId_metrics (st : Init U) (m : Metric U) (id : MetricId) :
    (pushWithId st m id).metrics = st.metrics ++ [{ m with alias := (idAlias id).or m.alias }] ∧
    (pushWithId st m id).names = st.names ∧ (pushWithId st m id).aliases = st.aliases ∧
    (pushWithId st m id).obj = st.obj ∧ (pushWithId st m id).registry = st.registry := by
  cases id <;> simp [pushWithId, idAlias]

/-- an accepted request: what it pushed and why it was accepted -/
theorem runReq_ok {cfg : Cfg} {h : Name → Nat} {st st' : Init U} {r : Req U} {id : MetricId}
    (hr : runReq cfg h st r = .ok (id, st')) :
    Pushed st st' r.name (specMetric r id) ∧ Accepts st.names st.registry r ∧
    ((r.details.useAlias = false ∧ id = .name r.name) ∨
     (r.details.useAlias = true ∧ ∃ a, id = .alias a ∧ genAlias cfg h st r.name = .ok a)) := by
  cases r with
  | metric d v =>
    simp only [runReq, registerMetric] at hr
    split at hr
    · split at hr <;> cases hr
    · rename_i hdt
      split at hr
      · rename_i id' st1 hc
        cases hr
        obtain ⟨hn, hm, hnm, ho, hrg, hal⟩ := createToken_ok hc
        obtain ⟨p1, p2, p3, p4, p5⟩ := pushWithId_metrics st1 (intoMetric d (v.map Val.user)) id
        have hacc : Accepts st.names st.registry (Req.metric d v) := by
          refine ⟨hn, ?_, ?_, ?_⟩
          · rintro ⟨d', v', h1, h2⟩; cases h1; exact hdt h2
          · rintro ⟨_, _, _, h1, _⟩; cases h1
          · rintro ⟨_, h1⟩; cases h1
        have hspec : ({ intoMetric d (v.map Val.user) with
              alias := (idAlias id).or (intoMetric d (v.map Val.user)).alias } : Metric U)
            = specMetric (Req.metric d v) id := by
          cases v <;> cases id <;> simp [intoMetric, specMetric, idAlias, Req.name, Req.details, Req.value]
        refine ⟨⟨?_, ?_, ?_, ?_, ?_, hn, ?_⟩, hacc, ?_⟩
        · rw [p1, hm, hspec]
        · rw [p2, hnm]; rfl
        · rw [p4, ho]
        · rw [p5, hrg]
        · simp [specMetric, Req.name]
        · rcases hal with ⟨_, hid, ha⟩ | ⟨_, a, hid, hg, ha⟩
          · left; subst hid; exact ⟨by simp [specMetric, idAlias], by rw [p3, ha]⟩
          · right; subst hid
            exact ⟨a, by simp [specMetric, idAlias], genAlias_ok hg, by rw [p3, ha]⟩
        · rcases hal with ⟨hu, hid, _⟩ | ⟨hu, a, hid, hg, _⟩
          · left; exact ⟨hu, hid⟩
          · right; exact ⟨hu, a, hid, hg⟩
      · cases hr
      · cases hr
  | template d i =>
    simp only [runReq, registerTemplateMetric] at hr
    split at hr
    · split at hr <;> cases hr
    · rename_i tref u
      split at hr
      · cases hr
      · rename_i hreg
        split at hr
        · rename_i id' st1 hc
          cases hr
          obtain ⟨hn, hm, hnm, ho, hrg, hal⟩ := createToken_ok hc
          obtain ⟨p1, p2, p3, p4, p5⟩ :=
            pushWithId_metrics st1 (intoMetric d (some (Val.inst tref u))) id
          have hacc : Accepts st.names st.registry (Req.template d (some (tref, u))) := by
            refine ⟨hn, ?_, ?_, ?_⟩
            · rintro ⟨_, _, h1, _⟩; cases h1
            · rintro ⟨_, _, _, h1, h2⟩; cases h1; exact h2 (by simpa using hreg)
            · rintro ⟨_, h1⟩; cases h1
          have hspec : ({ intoMetric d (some (Val.inst tref u)) with
                alias := (idAlias id).or (intoMetric d (some (Val.inst tref u))).alias } : Metric U)
              = specMetric (Req.template d (some (tref, u))) id := by
            cases id <;> simp [intoMetric, specMetric, idAlias, Req.name, Req.details, Req.value]
          refine ⟨⟨?_, ?_, ?_, ?_, ?_, hn, ?_⟩, hacc, ?_⟩
          · rw [p1, hm, hspec]
          · rw [p2, hnm]; rfl
          · rw [p4, ho]
          · rw [p5, hrg]
          · simp [specMetric, Req.name]
          · rcases hal with ⟨_, hid, ha⟩ | ⟨_, a, hid, hg, ha⟩
            · left; subst hid; exact ⟨by simp [specMetric, idAlias], by rw [p3, ha]⟩
            · right; subst hid
              exact ⟨a, by simp [specMetric, idAlias], genAlias_ok hg, by rw [p3, ha]⟩
          · rcases hal with ⟨hu, hid, _⟩ | ⟨hu, a, hid, hg, _⟩
            · left; exact ⟨hu, hid⟩
            · right; exact ⟨hu, a, hid, hg⟩
        · cases hr
        · cases hr

/-- a rejected request: the error names the reason -/
theorem runReq_err {cfg : Cfg} {h : Name → Nat} {st : Init U} {r : Req U} {e : Err}
    (hr : runReq cfg h st r = .err e) :
    (e = .duplicate ∧ r.name ∈ st.names ∧ ¬ WrongApi r ∧ ¬ Unregistered st.registry r ∧
        ¬ NoInstance r) ∨
    (e = .unsupportedDatatype ∧ WrongApi r ∧ cfg.dbg = false) ∨
    (e = .valueNotProvided ∧ NoInstance r ∧ cfg.dbg = false) ∨
    (e = .unregisteredTemplate ∧ Unregistered st.registry r) := by
  cases r with
  | metric d v =>
    simp only [runReq, registerMetric] at hr
    split at hr
    · rename_i hdt
      split at hr
      · cases hr
      · rename_i hdbg
        cases hr
        right; left
        exact ⟨rfl, ⟨d, v, rfl, hdt⟩, by simpa using hdbg⟩
    · rename_i hdt
      split at hr
      · cases hr
      · rename_i e' hc
        cases hr
        obtain ⟨he, hn⟩ := createToken_err hc
        left
        refine ⟨he, hn, ?_, ?_, ?_⟩
        · rintro ⟨d', v', h1, h2⟩; cases h1; exact hdt h2
        · rintro ⟨_, _, _, h1, _⟩; cases h1
        · rintro ⟨_, h1⟩; cases h1
      · cases hr
  | template d i =>
    simp only [runReq, registerTemplateMetric] at hr
    split at hr
    · split at hr
      · cases hr
      · rename_i hdbg
        cases hr
        right; right; left
        exact ⟨rfl, ⟨d, rfl⟩, by simpa using hdbg⟩
    · rename_i tref u
      split at hr
      · rename_i hreg
        cases hr
        right; right; right
        exact ⟨rfl, d, tref, u, rfl, hreg⟩
      · rename_i hreg
        split at hr
        · cases hr
        · rename_i e' hc
          cases hr
          obtain ⟨he, hn⟩ := createToken_err hc
          left
          refine ⟨he, hn, ?_, ?_, ?_⟩
          · rintro ⟨_, _, h1, _⟩; cases h1
          · rintro ⟨_, _, _, h1, h2⟩; cases h1; exact h2 (by simpa using hreg)
          · rintro ⟨_, h1⟩; cases h1
        · cases hr

/-- a panicking request: an active `debug_assert!`, or the alias overflow -/
theorem runReq_panic {cfg : Cfg} {h : Name → Nat} {st : Init U} {r : Req U}
    (hr : runReq cfg h st r = .panic) :
    (WrongApi r ∧ cfg.dbg = true) ∨ (NoInstance r ∧ cfg.dbg = true) ∨
    (Accepts st.names st.registry r ∧ r.details.useAlias = true ∧
      genAlias cfg h st r.name = .panic) := by
  cases r with
  | metric d v =>
    simp only [runReq, registerMetric] at hr
    split at hr
    · rename_i hdt
      split at hr
      · rename_i hdbg
        left; exact ⟨⟨d, v, rfl, hdt⟩, hdbg⟩
      · cases hr
    · rename_i hdt
      split at hr
      · cases hr
      · cases hr
      · rename_i hc
        obtain ⟨hn, hu, hg⟩ := createToken_panic hc
        right; right
        refine ⟨⟨hn, ?_, ?_, ?_⟩, hu, hg⟩
        · rintro ⟨d', v', h1, h2⟩; cases h1; exact hdt h2
        · rintro ⟨_, _, _, h1, _⟩; cases h1
        · rintro ⟨_, h1⟩; cases h1
  | template d i =>
    simp only [runReq, registerTemplateMetric] at hr
    split at hr
    · split at hr
      · rename_i hdbg
        right; left; exact ⟨⟨d, rfl⟩, hdbg⟩
      · cases hr
    · rename_i tref u
      split at hr
      · cases hr
      · rename_i hreg
        split at hr
        · cases hr
        · cases hr
        · rename_i hc
          obtain ⟨hn, hu, hg⟩ := createToken_panic hc
          right; right
          refine ⟨⟨hn, ?_, ?_, ?_⟩, hu, hg⟩
          · rintro ⟨_, _, h1, _⟩; cases h1
          · rintro ⟨_, _, _, h1, h2⟩; cases h1; exact h2 (by simpa using hreg)
          · rintro ⟨_, h1⟩; cases h1

/-- accepted iff the acceptance rule holds, as long as the alias generator does not panic -/
theorem runReq_accept_iff {cfg : Cfg} {h : Name → Nat} {st : Init U} {r : Req U}
    (hg : genAlias cfg h st r.name ≠ .panic) :
    (∃ id st', runReq cfg h st r = .ok (id, st')) ↔ Accepts st.names st.registry r := by
  constructor
  · rintro ⟨id, st', hr⟩; exact (runReq_ok hr).2.1
  · intro hacc
    cases hr : runReq cfg h st r with
    | ok p => exact ⟨p.1, p.2, rfl⟩
    | err e =>
      exfalso
      rcases runReq_err hr with ⟨_, hn, _⟩ | ⟨_, hw, _⟩ | ⟨_, hni, _⟩ | ⟨_, hu⟩
      · exact hacc.1 hn
      · exact hacc.2.1 hw
      · exact hacc.2.2.2 hni
      · exact hacc.2.2.1 hu
    | panic =>
      exfalso
      rcases runReq_panic hr with ⟨hw, _⟩ | ⟨hni, _⟩ | ⟨_, _, hp⟩
      · exact hacc.2.1 hw
      · exact hacc.2.2.2 hni
      · exact hg hp

/-! ### the initializer invariant -/

/-- `metric_names` / `metric_aliases` are exactly the names / aliases of the pushed metrics,
which are pairwise distinct, and every pushed metric is well formed -/
structure Inv (st : Init U) : Prop where
  names : ∀ n, n ∈ st.names ↔ some n ∈ st.metrics.map (·.name)
  nd : NamesDistinct st.metrics
  aliases : ∀ a, a ∈ st.aliases ↔ a ∈ aliasesOf st.metrics
  ad : AliasesDistinct st.metrics
  wf : ∀ m ∈ st.metrics, WellFormed m

theorem Inv.init (obj : Nat) (reg : List Name) :
    Inv ({ obj := obj, registry := reg } : Init U) := by
  refine ⟨?_, ?_, ?_, ?_, ?_⟩ <;> simp [NamesDistinct, AliasesDistinct, aliasesOf]

theorem aliasesOf_append (l : List (Metric U)) (m : Metric U) :
    aliasesOf (l ++ [m]) = aliasesOf l ++ m.alias.toList := by
  cases hm : m.alias <;> simp [aliasesOf, List.filterMap_append, hm]

theorem Pushed.inv {st st' : Init U} {n : Name} {m : Metric U}
    (hp : Pushed st st' n m) (hi : Inv st) (hw : WellFormed m) : Inv st' := by
  obtain ⟨hm, hn, _, _, hmn, hfresh, hal⟩ := hp
  have hnot : some n ∉ st.metrics.map (·.name) := fun hc => hfresh ((hi.names n).mpr hc)
  refine ⟨?_, ?_, ?_, ?_, ?_⟩
  · intro x
    rw [hn, hm, List.map_append, List.mem_append, List.mem_cons, hi.names x]
    simp [hmn]
    constructor
    · rintro (h | h)
      · right; exact h
      · left; exact h
    · rintro (h | h)
      · right; exact h
      · left; exact h
  · unfold NamesDistinct
    rw [hm, List.map_append, List.nodup_append]
    refine ⟨hi.nd, by simp, ?_⟩
    intro a ha b hb
    simp [hmn] at hb
    subst hb
    intro hab; subst hab; exact hnot ha
  · intro a
    rw [hm, aliasesOf_append, List.mem_append]
    rcases hal with ⟨h1, h2⟩ | ⟨a', h1, _, h3⟩
    · rw [h2, h1, hi.aliases a]; simp
    · rw [h3, h1, List.mem_cons, hi.aliases a]; simp
      constructor
      · rintro (h | h)
        · right; exact h
        · left; exact h
      · rintro (h | h)
        · right; exact h
        · left; exact h
  · unfold AliasesDistinct
    rw [hm, aliasesOf_append]
    rcases hal with ⟨h1, _⟩ | ⟨a', h1, h2, _⟩
    · rw [h1]; simpa [AliasesDistinct] using hi.ad
    · rw [h1, List.nodup_append]
      refine ⟨hi.ad, by simp, ?_⟩
      intro a ha b hb
      simp at hb; subst hb
      intro hab; subst hab
      exact h2 ((hi.aliases a).mpr ha)
  · intro x hx
    rw [hm, List.mem_append] at hx
    rcases hx with hx | hx
    · exact hi.wf x hx
    · simp at hx; subst hx; exact hw

theorem specMetric_wf (r : Req U) (id : MetricId) : WellFormed (specMetric r id) := by
  unfold WellFormed specMetric
  refine ⟨rfl, rfl, rfl, ?_⟩
  cases hv : r.value <;> simp

/-- every alias of the object carries the object id in its high half -/
def HalfInv (st : Init U) : Prop := ∀ a ∈ st.aliases, a / two32 = st.obj

/-! ### a scripted manager -/

theorem accepted_nil_right (reqs : List (Req U)) : accepted reqs [] = [] := by
  cases reqs <;> rfl

theorem runReqs_spec {cfg : Cfg} {h : Name → Nat} :
    ∀ (reqs : List (Req U)) (st st' : Init U) (res : List (Res MetricId)),
      runReqs cfg h st reqs = (st', res) →
      res.length = reqs.length ∧ st'.metrics = st.metrics ++ accepted reqs res ∧
      st'.obj = st.obj ∧ st'.registry = st.registry ∧ (Inv st → Inv st') := by
  intro reqs
  induction reqs with
  | nil =>
    intro st st' res hr
    simp [runReqs] at hr
    obtain ⟨rfl, rfl⟩ := hr
    simp [accepted]
  | cons r rs ih =>
    intro st st' res hr
    unfold runReqs at hr
    split at hr
    · rename_i id st1 hq
      obtain ⟨hp, _, _⟩ := runReq_ok hq
      cases hrs : runReqs cfg h st1 rs with
      | mk s l =>
        rw [hrs] at hr
        simp at hr
        obtain ⟨rfl, rfl⟩ := hr
        obtain ⟨h1, h2, h3, h4, h5⟩ := ih st1 s l hrs
        refine ⟨by simp [h1], ?_, by rw [h3, hp.obj], by rw [h4, hp.registry], ?_⟩
        · rw [h2, hp.metrics]; simp [accepted]
        · intro hi; exact h5 (hp.inv hi (specMetric_wf r id))
    · cases hrs : runReqs cfg h st rs with
      | mk s l =>
        rw [hrs] at hr
        simp at hr
        obtain ⟨rfl, rfl⟩ := hr
        obtain ⟨h1, h2, h3, h4, h5⟩ := ih st s l hrs
        exact ⟨by simp [h1], by rw [h2]; simp [accepted], h3, h4, h5⟩
    · cases hrs : runReqs cfg h st rs with
      | mk s l =>
        rw [hrs] at hr
        simp at hr
        obtain ⟨rfl, rfl⟩ := hr
        obtain ⟨h1, h2, h3, h4, h5⟩ := ih st s l hrs
        exact ⟨by simp [h1], by rw [h2]; simp [accepted], h3, h4, h5⟩

theorem genAlias_no_panic {cfg : Cfg} {h : Name → Nat} {st : Init U} {n : Name}
    (hc : cfg.inHalf = true ∨ cfg.ovf = false) (hl : st.aliases.length < two32) :
    genAlias cfg h st n ≠ .panic := by
  intro hg
  obtain ⟨h1, h2, _⟩ := genAlias_panic hl hg
  rcases hc with hc | hc
  · rw [h1] at hc; cases hc
  · rw [h2] at hc; cases hc

theorem Pushed.aliases_length {st st' : Init U} {n : Name} {m : Metric U}
    (hp : Pushed st st' n m) : st'.aliases.length ≤ st.aliases.length + 1 := by
  rcases hp.alias with ⟨_, h⟩ | ⟨a, _, _, h⟩ <;> rw [h] <;> simp

/-- which requests a scripted manager gets accepted is decided by names alone -/
theorem runReqs_flags {cfg : Cfg} {h : Name → Nat}
    (hc : cfg.inHalf = true ∨ cfg.ovf = false) :
    ∀ (reqs : List (Req U)) (st : Init U), st.aliases.length + reqs.length < two32 →
      (runReqs cfg h st reqs).2.map Res.isOk = acceptFlags st.registry st.names reqs := by
  intro reqs
  induction reqs with
  | nil => intro st _; simp [runReqs, acceptFlags]
  | cons r rs ih =>
    intro st hl
    simp only [List.length_cons] at hl
    have hnp : genAlias cfg h st r.name ≠ .panic := genAlias_no_panic hc (by omega)
    have hiff := runReq_accept_iff (r := r) hnp
    unfold runReqs acceptFlags
    cases hq : runReq cfg h st r with
    | ok p =>
      obtain ⟨id, st1⟩ := p
      have hacc : Accepts st.names st.registry r := hiff.mp ⟨id, st1, hq⟩
      obtain ⟨hp, _, _⟩ := runReq_ok hq
      have := ih st1 (by have := hp.aliases_length; omega)
      rw [hp.registry, hp.names] at this
      simp [hacc, Res.isOk, this]
    | err e =>
      have hacc : ¬ Accepts st.names st.registry r := by
        intro ha; obtain ⟨id, st1, h1⟩ := hiff.mpr ha; rw [hq] at h1; cases h1
      have := ih st (by omega)
      simp [hacc, Res.isOk, this]
    | panic =>
      have hacc : ¬ Accepts st.names st.registry r := by
        intro ha; obtain ⟨id, st1, h1⟩ := hiff.mpr ha; rw [hq] at h1; cases h1
      have := ih st (by omega)
      simp [hacc, Res.isOk, this]

/-- the high-half invariant through a scripted manager -/
theorem runReqs_half {cfg : Cfg} {h : Name → Nat} :
    ∀ (reqs : List (Req U)) (st st' : Init U) (res : List (Res MetricId)),
      runReqs cfg h st reqs = (st', res) → HalfInv st →
      (cfg.inHalf = true ∨ (st.obj < two32 ∧
        ∀ r ∈ reqs, h r.name % two32 + (st.aliases.length + reqs.length) < two32)) →
      HalfInv st' := by
  intro reqs
  induction reqs with
  | nil =>
    intro st st' res hr hh _
    simp [runReqs] at hr
    obtain ⟨rfl, _⟩ := hr
    exact hh
  | cons r rs ih =>
    intro st st' res hr hh hc
    unfold runReqs at hr
    split at hr
    · rename_i id st1 hq
      obtain ⟨hp, _, hid⟩ := runReq_ok hq
      cases hrs : runReqs cfg h st1 rs with
      | mk s l =>
        rw [hrs] at hr
        simp at hr
        obtain ⟨rfl, rfl⟩ := hr
        have hh1 : HalfInv st1 := by
          intro a ha
          rw [hp.obj]
          rcases hp.alias with ⟨_, h2⟩ | ⟨a', h1, _, h3⟩
          · rw [h2] at ha; exact hh a ha
          · rw [h3, List.mem_cons] at ha
            rcases ha with ha | ha
            · subst ha
              rcases hid with ⟨_, hid⟩ | ⟨_, a'', hid, hg⟩
              · subst hid; simp [specMetric, idAlias] at h1
              · subst hid
                simp [specMetric, idAlias] at h1
                subst h1
                refine genAlias_half ?_ hg
                rcases hc with hc | ⟨ho, hb⟩
                · left; exact hc
                · right
                  refine ⟨ho, ?_⟩
                  have := hb r (by simp)
                  simp only [List.length_cons] at this
                  omega
            · exact hh a ha
        refine ih st1 s l hrs hh1 ?_
        rcases hc with hc | ⟨ho, hb⟩
        · left; exact hc
        · right
          refine ⟨by rw [hp.obj]; exact ho, ?_⟩
          intro r' hr'
          have := hb r' (by simp [hr'])
          have hlen := hp.aliases_length
          simp only [List.length_cons] at this
          omega
    · cases hrs : runReqs cfg h st rs with
      | mk s l =>
        rw [hrs] at hr
        simp at hr
        obtain ⟨rfl, rfl⟩ := hr
        refine ih st s l hrs hh ?_
        rcases hc with hc | ⟨ho, hb⟩
        · left; exact hc
        · right
          refine ⟨ho, ?_⟩
          intro r' hr'
          have := hb r' (by simp [hr'])
          simp only [List.length_cons] at this
          omega
    · cases hrs : runReqs cfg h st rs with
      | mk s l =>
        rw [hrs] at hr
        simp at hr
        obtain ⟨rfl, rfl⟩ := hr
        refine ih st s l hrs hh ?_
        rcases hc with hc | ⟨ho, hb⟩
        · left; exact hc
        · right
          refine ⟨ho, ?_⟩
          intro r' hr'
          have := hb r' (by simp [hr'])
          simp only [List.length_cons] at this
          omega

/-- the token of the `k`-th request, if accepted, is the id of a metric of the birth -/
theorem accepted_mem :
    ∀ (reqs : List (Req U)) (res : List (Res MetricId)) (k : Nat) (r : Req U) (id : MetricId),
      reqs[k]? = some r → res[k]? = some (.ok id) → specMetric r id ∈ accepted reqs res := by
  intro reqs
  induction reqs with
  | nil => intro res k r id h1; simp at h1
  | cons q qs ih =>
    intro res k r id h1 h2
    cases res with
    | nil => simp at h2
    | cons o os =>
      cases k with
      | zero =>
        simp at h1 h2
        subst h1 h2
        simp [accepted]
      | succ k =>
        simp at h1 h2
        have := ih os k r id h1 h2
        cases o <;> simp [accepted, this]

/-- conversely every metric of `accepted` belongs to an accepted request -/
theorem mem_accepted :
    ∀ (reqs : List (Req U)) (res : List (Res MetricId)) (m : Metric U),
      m ∈ accepted reqs res →
      ∃ (k : Nat) (r : Req U) (id : MetricId), reqs[k]? = some r ∧ res[k]? = some (Res.ok id) ∧ m = specMetric r id := by
  intro reqs
  induction reqs with
  | nil => intro res m hm; cases res <;> simp [accepted] at hm
  | cons q qs ih =>
    intro res m hm
    cases res with
    | nil => simp [accepted] at hm
    | cons o os =>
      cases o with
      | ok id =>
        simp [accepted] at hm
        rcases hm with hm | hm
        · exact ⟨0, q, id, rfl, rfl, hm⟩
        · obtain ⟨k, r, id', h1, h2, h3⟩ := ih os m hm
          exact ⟨k + 1, r, id', by simp [h1], by simp [h2], h3⟩
      | err e =>
        simp [accepted] at hm
        obtain ⟨k, r, id', h1, h2, h3⟩ := ih os m hm
        exact ⟨k + 1, r, id', by simp [h1], by simp [h2], h3⟩
      | panic =>
        simp [accepted] at hm
        obtain ⟨k, r, id', h1, h2, h3⟩ := ih os m hm
        exact ⟨k + 1, r, id', by simp [h1], by simp [h2], h3⟩

/-! ### the node's own metrics and the template definitions -/

theorem rebirth_ne_bdSeq : rebirthName ≠ bdSeqName := by decide

theorem defMetric_wf (now : Nat) (e : Name × U) : WellFormed (defMetric now e) := by
  unfold WellFormed defMetric; simp

theorem regDefs_spec (now : Nat) :
    ∀ (reg : List (Name × U)) (st : Init U),
      (reg.map (·.1)).Nodup → (∀ n ∈ reg.map (·.1), n ∉ st.names) → Inv st →
      ∃ st', regDefs now st reg = .ok st' ∧
        st'.metrics = st.metrics ++ reg.map (defMetric now) ∧
        st'.aliases = st.aliases ∧ st'.obj = st.obj ∧ st'.registry = st.registry ∧
        (∀ n, n ∈ st'.names ↔ n ∈ st.names ∨ n ∈ reg.map (·.1)) ∧ Inv st' := by
  intro reg
  induction reg with
  | nil => intro st _ _ hi; exact ⟨st, rfl, by simp, rfl, rfl, rfl, by simp, hi⟩
  | cons e t ih =>
    intro st hnd hfresh hi
    obtain ⟨n, u⟩ := e
    simp only [List.map_cons, List.nodup_cons] at hnd
    have hn : n ∉ st.names := hfresh n (by simp)
    let st1 : Init U := { st with
      metrics := st.metrics ++ [defMetric now (n, u)], names := n :: st.names }
    have hstep : registerTemplateDefinition now st n u = .ok st1 := by
      simp [registerTemplateDefinition, hn, st1, defMetric]
    have hp : Pushed st st1 n (defMetric now (n, u)) :=
      ⟨rfl, rfl, rfl, rfl, rfl, hn, Or.inl ⟨rfl, rfl⟩⟩
    have hi1 : Inv st1 := hp.inv hi (defMetric_wf now (n, u))
    have hfresh1 : ∀ x ∈ t.map (·.1), x ∉ st1.names := by
      intro x hx hmem
      simp only [st1, List.mem_cons] at hmem
      rcases hmem with hmem | hmem
      · subst hmem; exact hnd.1 hx
      · exact hfresh x (by simp [hx]) hmem
    obtain ⟨st', h1, h2, h3, h4, h5, h6, h7⟩ := ih st1 hnd.2 hfresh1 hi1
    refine ⟨st', ?_, ?_, h3, h4, h5, ?_, h7⟩
    · simp only [regDefs, hstep]; exact h1
    · rw [h2]; simp [st1]
    · intro x
      rw [h6 x]
      simp only [st1, List.mem_cons, List.map_cons]
      constructor
      · rintro ((h | h) | h)
        · right; left; exact h
        · left; exact h
        · right; right; exact h
      · rintro (h | h | h)
        · left; right; exact h
        · left; left; exact h
        · right; exact h

/-- the state in which the node's manager starts: bdSeq, Rebirth, one definition per registry
entry, no alias taken -/
theorem nodeBirth_header {cfg : Cfg} {h : Name → Nat} (now bdseq : Nat) {reg : List (Name × U)}
    (hreg : RegOk reg) :
    ∃ st3 : Init U,
      st3.metrics = bdSeqMetric now bdseq :: rebirthMetric now :: reg.map (defMetric now) ∧
      st3.aliases = [] ∧ st3.obj = 0 ∧ st3.registry = reg.map (·.1) ∧ Inv st3 ∧
      (∀ n, n ∈ st3.names ↔ n = bdSeqName ∨ n = rebirthName ∨ n ∈ reg.map (·.1)) ∧
      ∀ mgr : Mgr U, nodeBirth cfg h now bdseq reg mgr =
        (match runMgr cfg h now st3 mgr with
          | .ok (st4, res) => .ok (st4.metrics, res)
          | _ => .panic) := by
  obtain ⟨hnd, hb, hr⟩ := hreg
  let st2 : Init U :=
    { metrics := [bdSeqMetric now bdseq, rebirthMetric now], names := [rebirthName, bdSeqName],
      aliases := [], obj := 0, registry := reg.map (·.1) }
  have hi2 : Inv st2 := by
    refine ⟨?_, ?_, ?_, ?_, ?_⟩
    · intro n
      simp [st2, bdSeqMetric, rebirthMetric]
      constructor
      · rintro (h | h)
        · right; exact h
        · left; exact h
      · rintro (h | h)
        · right; exact h
        · left; exact h
    · simp [st2, NamesDistinct, bdSeqMetric, rebirthMetric]
      exact fun h => rebirth_ne_bdSeq h.symm
    · intro a; simp [st2, aliasesOf, bdSeqMetric, rebirthMetric]
    · simp [st2, AliasesDistinct, aliasesOf, bdSeqMetric, rebirthMetric]
    · intro m hm
      simp [st2] at hm
      rcases hm with hm | hm <;> subst hm <;> simp [WellFormed, bdSeqMetric, rebirthMetric]
  have hfresh : ∀ n ∈ reg.map (·.1), n ∉ st2.names := by
    intro n hn hmem
    simp only [st2, List.mem_cons, List.not_mem_nil, or_false] at hmem
    rcases hmem with hmem | hmem
    · subst hmem; exact hr hn
    · subst hmem; exact hb hn
  obtain ⟨st3, h1, h2, h3, h4, h5, h6, h7⟩ := regDefs_spec now reg st2 hnd hfresh hi2
  refine ⟨st3, ?_, ?_, ?_, ?_, h7, ?_, ?_⟩
  · rw [h2]; rfl
  · rw [h3]
  · rw [h4]
  · rw [h5]
  · intro n
    rw [h6 n]
    simp only [st2, List.mem_cons, List.not_mem_nil, or_false]
    constructor
    · rintro ((h | h) | h)
      · right; left; exact h
      · left; exact h
      · right; right; exact h
    · rintro (h | h | h)
      · left; right; exact h
      · left; left; exact h
      · right; exact h
  · intro mgr
    let st1 : Init U :=
      { metrics := [bdSeqMetric now bdseq], names := [bdSeqName], aliases := [], obj := 0,
        registry := reg.map (·.1) }
    have e1 : registerMetric cfg h ({ obj := 0, registry := reg.map (·.1) } : Init U)
        ⟨bdSeqName, false, dtInt64, now⟩ (some (.int64 bdseq)) = .ok (.name bdSeqName, st1) := by
      simp [registerMetric, createToken, pushWithId, intoMetric, bdSeqMetric, dtInt64, dtTemplate,
        st1]
    have e2 : registerMetric cfg h st1
        ⟨rebirthName, false, dtBoolean, now⟩ (some (.bool false))
        = .ok (.name rebirthName, st2) := by
      simp [registerMetric, createToken, pushWithId, intoMetric, rebirthMetric, dtBoolean,
        dtTemplate, rebirth_ne_bdSeq, st1, st2]
    simp only [nodeBirth, e1, e2, h1]
    cases runMgr cfg h now st3 mgr <;> rfl

/-! ### SimpleMetricManager = the scripted manager over its entries, with `.unwrap()` -/

theorem runSimple_ne_err {cfg : Cfg} {h : Name → Nat} (now : Nat) :
    ∀ (ms : List (SimpleMetric U)) (st : Init U) (e : Err), runSimple cfg h now st ms ≠ .err e := by
  intro ms
  induction ms with
  | nil => intro st e hc; simp [runSimple] at hc
  | cons m ms ih =>
    intro st e hc
    unfold runSimple at hc
    split at hc
    · split at hc
      · cases hc
      · rename_i e' hr; exact ih _ _ hr
      · cases hc
    · cases hc

theorem runSimple_ok {cfg : Cfg} {h : Name → Nat} (now : Nat) :
    ∀ (ms : List (SimpleMetric U)) (st s : Init U) (ids : List MetricId),
      runSimple cfg h now st ms = .ok (s, ids) →
      runReqs cfg h st (simpleReqs now ms) = (s, ids.map .ok) := by
  intro ms
  induction ms with
  | nil => intro st s ids hr; simp [runSimple] at hr; obtain ⟨rfl, rfl⟩ := hr; rfl
  | cons m ms ih =>
    intro st s ids hr
    unfold runSimple at hr
    split at hr
    · rename_i id st1 hq
      split at hr
      · rename_i s' l hrs
        cases hr
        have := ih st1 s l hrs
        simp only [simpleReqs, List.map_cons, runReqs, runReq, Option.map_some]
        simp only [simpleReqs] at this
        rw [hq]
        simp [this]
      · cases hr
      · cases hr
    · cases hr

/-- it panics exactly when the scripted run has a request that is not accepted -/
theorem runSimple_panic_iff {cfg : Cfg} {h : Name → Nat} (now : Nat) :
    ∀ (ms : List (SimpleMetric U)) (st : Init U),
      runSimple cfg h now st ms = .panic ↔
      ∃ o ∈ (runReqs cfg h st (simpleReqs now ms)).2, o.isOk = false := by
  intro ms
  induction ms with
  | nil => intro st; simp [runSimple, simpleReqs, runReqs]
  | cons m ms ih =>
    intro st
    have hrun : runReq cfg h st (.metric ⟨m.name, m.useAlias, m.dt, now⟩ (some m.value))
        = registerMetric cfg h st ⟨m.name, m.useAlias, m.dt, now⟩ (some (.user m.value)) := rfl
    unfold runSimple
    simp only [simpleReqs, List.map_cons, runReqs, hrun]
    cases hq : registerMetric cfg h st ⟨m.name, m.useAlias, m.dt, now⟩ (some (.user m.value)) with
    | ok p =>
      obtain ⟨id, st1⟩ := p
      have := ih st1
      simp only [simpleReqs] at this
      simp only
      cases hrs : runSimple cfg h now st1 ms with
      | ok q =>
        simp only
        rw [hrs] at this
        constructor
        · intro hc; cases hc
        · rintro ⟨o, ho, hf⟩
          simp at ho
          rcases ho with ho | ho
          · subst ho; simp [Res.isOk] at hf
          · exact absurd (this.mpr ⟨o, ho, hf⟩) (by simp)
      | err e => exact absurd hrs (runSimple_ne_err now ms st1 e)
      | panic =>
        rw [hrs] at this
        simp only [true_iff] at this ⊢
        obtain ⟨o, ho, hf⟩ := this
        exact ⟨o, by simp [ho], hf⟩
    | err e => simp [Res.isOk]
    | panic => simp [Res.isOk]

/-- all requests accepted ⇔ names pairwise distinct, unused, and each passes the rule -/
theorem acceptFlags_all_iff (reg : List Name) :
    ∀ (reqs : List (Req U)) (used : List Name),
      (∀ b ∈ acceptFlags reg used reqs, b = true) ↔
      ((reqs.map (·.name)).Nodup ∧ ∀ r ∈ reqs, Accepts used reg r) := by
  intro reqs
  induction reqs with
  | nil => intro used; simp [acceptFlags]
  | cons r rs ih =>
    intro used
    unfold acceptFlags
    by_cases hacc : Accepts used reg r
    · simp only [hacc, if_true, List.mem_cons, forall_eq_or_imp, true_and, List.map_cons,
        List.nodup_cons]
      rw [ih (r.name :: used)]
      constructor
      · rintro ⟨hnd, hall⟩
        refine ⟨⟨?_, hnd⟩, ?_⟩
        · intro hmem
          obtain ⟨r', hr', he⟩ := List.mem_map.mp hmem
          exact (hall r' hr').1 (by simp [he])
        · intro r' hr'
          obtain ⟨h1, h2⟩ := hall r' hr'
          exact ⟨fun hc => h1 (by simp [hc]), h2⟩
      · rintro ⟨⟨hn, hnd⟩, hall⟩
        refine ⟨hnd, ?_⟩
        intro r' hr'
        obtain ⟨h1, h2⟩ := hall r' hr'
        refine ⟨?_, h2⟩
        intro hc
        simp only [List.mem_cons] at hc
        rcases hc with hc | hc
        · exact hn (List.mem_map.mpr ⟨r', hr', hc⟩)
        · exact h1 hc
    · simp only [hacc, if_false]
      constructor
      · intro hall; exact absurd (hall false (by simp)) (by simp)
      · rintro ⟨_, hall⟩; exact absurd (hall r (by simp)) hacc

/-! ### device ids -/

theorem lookup_mem {α β} [BEq α] [LawfulBEq α] :
    ∀ (l : List (α × β)) (a : α) (b : β), l.lookup a = some b → (a, b) ∈ l := by
  intro l
  induction l with
  | nil => intro a b h; simp at h
  | cons e t ih =>
    intro a b h
    obtain ⟨x, y⟩ := e
    simp only [List.lookup] at h
    split at h
    · rename_i heq
      have : a = x := by simpa using heq
      cases h; subst this; simp
    · exact List.mem_cons_of_mem _ (ih a b h)

theorem nodup_map_inj {α β} (f : α → β) :
    ∀ (l : List α), (l.map f).Nodup → ∀ a ∈ l, ∀ b ∈ l, f a = f b → a = b := by
  intro l
  induction l with
  | nil => intro _ a ha; simp at ha
  | cons x t ih =>
    intro hnd a ha b hb hab
    simp only [List.map_cons, List.nodup_cons] at hnd
    simp only [List.mem_cons] at ha hb
    rcases ha with ha | ha <;> rcases hb with hb | hb
    · rw [ha, hb]
    · subst ha; exact absurd (List.mem_map.mpr ⟨b, hb, hab.symm⟩) hnd.1
    · subst hb; exact absurd (List.mem_map.mpr ⟨a, ha, hab⟩) hnd.1
    · exact ih hnd.2 a ha b hb hab

theorem genDeviceId_ok {cfg : Cfg} {h : Name → Nat} {ids : List Nat} {n : Name} {id : Nat}
    (hg : genDeviceId cfg h ids n = .ok id) : 0 < id ∧ id < two32 ∧ id ∉ ids := by
  obtain ⟨h1, k, _, hk⟩ := bump_ok hg
  simp only [List.mem_cons, not_or] at h1
  have : (h n % two32 + k) % two32 < two32 := Nat.mod_lt _ (by decide)
  exact ⟨by omega, by omega, h1.2⟩

theorem addDevice_ok {cfg : Cfg} {h : Name → Nat} {dm dm' : DevMap} {n : Name} {id : Nat}
    (ha : addDevice cfg h dm n = .ok dm' id) (hok : DevOk dm) :
    DevOk dm' ∧ dm'.devs = (n, id) :: dm.devs ∧ 0 < id ∧ id < two32 := by
  unfold addDevice at ha
  split at ha
  · cases ha
  · split at ha
    · cases ha
    · rename_i hn
      split at ha
      · rename_i id' hg
        cases ha
        obtain ⟨h0, h32, hni⟩ := genDeviceId_ok hg
        obtain ⟨k1, k2, k3, k4⟩ := hok
        refine ⟨⟨?_, ?_, ?_, ?_⟩, rfl, h0, h32⟩
        · simp only [List.map_cons, List.nodup_cons]; exact ⟨hn, k1⟩
        · simp only [List.map_cons, List.nodup_cons]
          exact ⟨fun hc => hni ((k4 _).mpr hc), k2⟩
        · intro e he
          simp only [List.mem_cons] at he
          rcases he with he | he
          · subst he; exact ⟨h0, h32⟩
          · exact k3 e he
        · intro x
          simp only [List.mem_cons, List.map_cons, k4 x]
      · cases ha

theorem removeDevice_ok {dm : DevMap} (n : Name) (hok : DevOk dm) : DevOk (removeDevice dm n) := by
  unfold removeDevice
  split
  · exact hok
  · rename_i id hl
    have hmem := lookup_mem _ _ _ hl
    obtain ⟨k1, k2, k3, k4⟩ := hok
    refine ⟨?_, ?_, ?_, ?_⟩
    · exact List.Nodup.sublist (List.Sublist.map _ List.filter_sublist) k1
    · exact List.Nodup.sublist (List.Sublist.map _ List.filter_sublist) k2
    · intro e he; exact k3 e (List.mem_filter.mp he).1
    · intro x
      simp only [List.mem_filter, List.mem_map, decide_eq_true_eq]
      constructor
      · rintro ⟨hx, hne⟩
        obtain ⟨e, he, hex⟩ := List.mem_map.mp ((k4 x).mp hx)
        refine ⟨e, ⟨he, ?_⟩, hex⟩
        intro hen
        have := nodup_map_inj (·.1) dm.devs k1 e he (n, id) hmem hen
        subst this
        exact hne hex.symm
      · rintro ⟨e, ⟨he, hen⟩, hex⟩
        refine ⟨(k4 x).mpr (List.mem_map.mpr ⟨e, he, hex⟩), ?_⟩
        intro hxi
        subst hxi
        have := nodup_map_inj (·.2) dm.devs k2 e he (n, x) hmem hex
        exact hen (by rw [this])

theorem applyDevOp_ok {cfg : Cfg} {h : Name → Nat} {dm : DevMap} (op : DevOp) (hok : DevOk dm) :
    DevOk (applyDevOp cfg h dm op) := by
  cases op with
  | add n =>
    simp only [applyDevOp]
    split
    · rename_i dm' id ha; exact (addDevice_ok ha hok).1
    · exact hok
  | remove n => exact removeDevice_ok n hok

/-! ### any manager -/

theorem runMgr_ok {cfg : Cfg} {h : Name → Nat} {now : Nat} {st s : Init U} {mgr : Mgr U}
    {res : List (Res MetricId)} (hr : runMgr cfg h now st mgr = .ok (s, res)) :
    runReqs cfg h st (mgrReqs now mgr) = (s, res) := by
  cases mgr with
  | scripted reqs =>
    simp only [runMgr, Res.ok.injEq] at hr
    exact hr
  | simple ms =>
    simp only [runMgr] at hr
    split at hr
    · rename_i s' ids hrs
      cases hr
      exact runSimple_ok now ms st _ ids hrs
    · cases hr
    · cases hr

theorem runMgr_scripted_ok {cfg : Cfg} {h : Name → Nat} {now : Nat} (st : Init U)
    (reqs : List (Req U)) : ∃ s res, runMgr cfg h now st (.scripted reqs) = .ok (s, res) :=
  ⟨_, _, rfl⟩

theorem acceptFlags_congr (reg : List Name) :
    ∀ (reqs : List (Req U)) (u1 u2 : List Name), (∀ n, n ∈ u1 ↔ n ∈ u2) →
      acceptFlags reg u1 reqs = acceptFlags reg u2 reqs := by
  intro reqs
  induction reqs with
  | nil => intros; rfl
  | cons r rs ih =>
    intro u1 u2 hu
    have hacc : Accepts u1 reg r ↔ Accepts u2 reg r := by
      unfold Accepts; rw [hu]
    unfold acceptFlags
    by_cases ha : Accepts u1 reg r
    · have ha2 := hacc.mp ha
      simp only [ha, ha2, if_true]
      rw [ih (r.name :: u1) (r.name :: u2) (by intro n; simp [hu n])]
    · have ha2 : ¬ Accepts u2 reg r := fun hc => ha (hacc.mpr hc)
      simp only [ha, ha2, if_false]
      rw [ih u1 u2 hu]

theorem nodup_filterMap_inj {α β} (f : α → Option β) :
    ∀ (l : List α), (l.filterMap f).Nodup →
      ∀ a ∈ l, ∀ b ∈ l, ∀ y, f a = some y → f b = some y → a = b := by
  intro l
  induction l with
  | nil => intro _ a ha; simp at ha
  | cons x t ih =>
    intro hnd a ha b hb y hfa hfb
    simp only [List.mem_cons] at ha hb
    cases hfx : f x with
    | none =>
      rw [List.filterMap_cons_none hfx] at hnd
      rcases ha with ha | ha
      · subst ha; rw [hfx] at hfa; cases hfa
      · rcases hb with hb | hb
        · subst hb; rw [hfx] at hfb; cases hfb
        · exact ih hnd a ha b hb y hfa hfb
    | some z =>
      rw [List.filterMap_cons_some hfx, List.nodup_cons] at hnd
      rcases ha with ha | ha <;> rcases hb with hb | hb
      · rw [ha, hb]
      · subst ha
        rw [hfx] at hfa; cases hfa
        exact absurd (List.mem_filterMap.mpr ⟨b, hb, hfb⟩) hnd.1
      · subst hb
        rw [hfx] at hfb; cases hfb
        exact absurd (List.mem_filterMap.mpr ⟨a, ha, hfa⟩) hnd.1
      · exact ih hnd.2 a ha b hb y hfa hfb

/-- a published metric built from the token of an accepted request names exactly the birth
metric of that request -/
theorem token_identifies {ms : List (Metric U)} (hnd : NamesDistinct ms) (had : AliasesDistinct ms)
    {r : Req U} {id : MetricId}
    (hid : (r.details.useAlias = false ∧ id = .name r.name) ∨ (∃ a, id = .alias a))
    (hb : specMetric r id ∈ ms) (v : Option U) (t : Nat) :
    Identifies (publishToMetric (createPublish id v t)) (specMetric r id) ∧
    ∀ b' ∈ ms, Identifies (publishToMetric (createPublish id v t)) b' → b' = specMetric r id := by
  rcases hid with ⟨_, hid⟩ | ⟨a, hid⟩
  · subst hid
    have hp : (publishToMetric (createPublish (MetricId.name r.name) v t) : Metric U).alias = none
        ∧ (publishToMetric (createPublish (MetricId.name r.name) v t) : Metric U).name
            = some r.name := by
      cases v <;> simp [publishToMetric, createPublish]
    constructor
    · simp [Identifies, hp.1, hp.2, specMetric, idAlias]
    · intro b' hb' hident
      simp only [Identifies, hp.1, hp.2] at hident
      have hnd' : (ms.map (·.name)).Nodup := hnd
      exact nodup_map_inj (·.name) ms hnd' b' hb' _ hb (by rw [← hident.2.1]; simp [specMetric])
  · subst hid
    have hp : (publishToMetric (createPublish (MetricId.alias a) v t) : Metric U).alias = some a := by
      cases v <;> simp [publishToMetric, createPublish]
    constructor
    · simp [Identifies, hp, specMetric, idAlias]
    · intro b' hb' hident
      simp only [Identifies, hp] at hident
      have had' : (ms.filterMap (·.alias)).Nodup := had
      exact nodup_filterMap_inj (·.alias) ms had' b' hb' _ hb a hident (by simp [specMetric, idAlias])

/-- the shape of the token of an accepted request -/
theorem runReqs_ids {cfg : Cfg} {h : Name → Nat} :
    ∀ (reqs : List (Req U)) (st : Init U) (k : Nat) (r : Req U) (id : MetricId),
      reqs[k]? = some r → (runReqs cfg h st reqs).2[k]? = some (Res.ok id) →
      (r.details.useAlias = false ∧ id = .name r.name) ∨
      (r.details.useAlias = true ∧ ∃ a, id = .alias a) := by
  intro reqs
  induction reqs with
  | nil => intro st k r id h1; simp at h1
  | cons q qs ih =>
    intro st k r id h1 h2
    unfold runReqs at h2
    cases hq : runReq cfg h st q with
    | ok p =>
      obtain ⟨id', st1⟩ := p
      rw [hq] at h2
      simp only at h2
      cases k with
      | zero =>
        simp at h1 h2
        subst h1 h2
        rcases (runReq_ok hq).2.2 with ⟨hu, hid⟩ | ⟨hu, a, hid, _⟩
        · left; exact ⟨hu, hid⟩
        · right; exact ⟨hu, a, hid⟩
      | succ k =>
        simp at h1 h2
        exact ih st1 k r id h1 h2
    | err e =>
      rw [hq] at h2
      simp only at h2
      cases k with
      | zero => simp at h2
      | succ k => simp at h1 h2; exact ih st k r id h1 h2
    | panic =>
      rw [hq] at h2
      simp only at h2
      cases k with
      | zero => simp at h2
      | succ k => simp at h1 h2; exact ih st k r id h1 h2

/-- what is common to a node birth and a device birth: a start state, then the manager -/
theorem nodeBirth_final {cfg : Cfg} {h : Name → Nat} {now bdseq : Nat} {reg : List (Name × U)}
    (hreg : RegOk reg) {mgr : Mgr U} {ms : List (Metric U)} {res : List (Res MetricId)}
    (hb : nodeBirth cfg h now bdseq reg mgr = .ok (ms, res)) :
    ∃ st3 st4 : Init U,
      st3.metrics = bdSeqMetric now bdseq :: rebirthMetric now :: reg.map (defMetric now) ∧
      st3.aliases = [] ∧ st3.obj = 0 ∧ st3.registry = reg.map (·.1) ∧ Inv st3 ∧
      (∀ n, n ∈ st3.names ↔ n = bdSeqName ∨ n = rebirthName ∨ n ∈ reg.map (·.1)) ∧
      runReqs cfg h st3 (mgrReqs now mgr) = (st4, res) ∧ ms = st4.metrics := by
  obtain ⟨st3, h1, h2, h3, h4, h5, h6, h7⟩ := nodeBirth_header (cfg := cfg) (h := h) now bdseq hreg
  rw [h7 mgr] at hb
  split at hb
  · rename_i st4 res' hm
    cases hb
    exact ⟨st3, st4, h1, h2, h3, h4, h5, h6, runMgr_ok hm, rfl⟩
  · cases hb

theorem deviceBirth_final {cfg : Cfg} {h : Name → Nat} {now id : Nat} {regNames : List Name}
    {mgr : Mgr U} {ms : List (Metric U)} {res : List (Res MetricId)}
    (hb : deviceBirth cfg h now id regNames mgr = .ok (ms, res)) :
    ∃ st4 : Init U,
      runReqs cfg h ({ obj := id, registry := regNames } : Init U) (mgrReqs now mgr) = (st4, res) ∧
      ms = st4.metrics := by
  unfold deviceBirth at hb
  split at hb
  · rename_i st4 res' hm
    cases hb
    exact ⟨st4, runMgr_ok hm, rfl⟩
  · cases hb

theorem halfInv_aliases {st : Init U} (hi : Inv st) (hh : HalfInv st) :
    ∀ m ∈ st.metrics, ∀ a, m.alias = some a → a / two32 = st.obj := by
  intro m hm a ha
  exact hh a ((hi.aliases a).mpr (List.mem_filterMap.mpr ⟨m, hm, ha⟩))

theorem simpleReqs_accepts (now : Nat) (used reg : List Name) (m : SimpleMetric U) :
    Accepts used reg (Req.metric ⟨m.name, m.useAlias, m.dt, now⟩ (some m.value) : Req U) ↔
      m.name ∉ used ∧ m.dt ≠ dtTemplate := by
  unfold Accepts
  constructor
  · rintro ⟨h1, h2, _, _⟩
    exact ⟨h1, fun hc => h2 ⟨_, _, rfl, hc⟩⟩
  · rintro ⟨h1, h2⟩
    refine ⟨h1, ?_, ?_, ?_⟩
    · rintro ⟨d, v, he, hd⟩; cases he; exact h2 hd
    · rintro ⟨_, _, _, he, _⟩; cases he
    · rintro ⟨_, he⟩; cases he

/-- when SimpleMetricManager's `.unwrap()` fires, from a start state with the names `used` -/
theorem runSimple_panic_names {cfg : Cfg} {h : Name → Nat} (now : Nat)
    (hc : cfg.inHalf = true ∨ cfg.ovf = false) (st : Init U) (ms : List (SimpleMetric U))
    (hl : st.aliases.length + ms.length < two32) (hnd : (ms.map (·.name)).Nodup) :
    runSimple cfg h now st ms = .panic ↔ ∃ m ∈ ms, m.name ∈ st.names ∨ m.dt = dtTemplate := by
  rw [runSimple_panic_iff]
  have hfl := runReqs_flags (U := U) (h := h) hc (simpleReqs now ms) st
    (by simpa [simpleReqs] using hl)
  have hall := acceptFlags_all_iff st.registry (simpleReqs now ms) st.names
  constructor
  · rintro ⟨o, ho, hf⟩
    apply Classical.byContradiction
    intro hne
    have hgood : ∀ m ∈ ms, m.name ∉ st.names ∧ m.dt ≠ dtTemplate := by
      intro m hm
      exact ⟨fun hc => hne ⟨m, hm, Or.inl hc⟩, fun hc => hne ⟨m, hm, Or.inr hc⟩⟩
    have : ∀ b ∈ acceptFlags st.registry st.names (simpleReqs now ms), b = true := by
      rw [hall]
      refine ⟨?_, ?_⟩
      · simpa [simpleReqs, Req.name, Req.details, Function.comp_def] using hnd
      · intro r hr
        obtain ⟨m, hm, rfl⟩ := List.mem_map.mp hr
        exact (simpleReqs_accepts now _ _ m).mpr (hgood m hm)
    rw [← hfl] at this
    have := this (o.isOk) (List.mem_map.mpr ⟨o, ho, rfl⟩)
    rw [hf] at this; cases this
  · rintro ⟨m, hm, hbad⟩
    apply Classical.byContradiction
    intro hne
    have : ∀ b ∈ acceptFlags st.registry st.names (simpleReqs now ms), b = true := by
      rw [← hfl]
      intro b hb
      obtain ⟨o, ho, rfl⟩ := List.mem_map.mp hb
      cases hio : o.isOk with
      | true => rfl
      | false => exact absurd ⟨o, ho, hio⟩ hne
    rw [hall] at this
    have hacc := this.2 _ (List.mem_map.mpr ⟨m, hm, rfl⟩)
    obtain ⟨h1, h2⟩ := (simpleReqs_accepts now _ _ m).mp hacc
    rcases hbad with hbad | hbad
    · exact h1 hbad
    · exact h2 hbad

end Srad.Birth
