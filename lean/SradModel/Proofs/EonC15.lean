/-
Helpers for `Props/C15Lts.lean` (C15's rebirth clauses stated over the edge-node LTS `Model/Eon`):
* the node-task steps that process an NCMD, one by one (`P15.dequeue_*`, `P15.inCb_step`,
  `P15.birthStart_step`, `P15.nbDone_step`) and what every other action leaves alone
  (`P15.other_keeps`);
* hand-over projection of a trace (`HO`, `handovers`), the expected DBIRTH list (`dbirthsFrom`);
* accepting-client schedules (`Act.isAcc`), exhausted states (`Exhausted`), the start hypotheses of
  the liveness theorem (`RebirthStart`), the invariant of a rebirth run (`P15.RB`), its
  preservation (`P15.RB_runAct`) and what it says about an exhausted state (`P15.RB_exhausted`);
* every state can be run to exhaustion by an accepting schedule (`P15.extend_to_exhausted`).
-/
import SradModel.Proofs.EonTerm

namespace Srad.Eon

/-! ### vocabulary -/

/-- a hand-over as the broker sees it: kind, device, sequence number, bdSeq -/
structure HO where
  kind : CK
  dev : Option Nat := none
  seq : Option Nat := none
  bd : Option Nat := none
  deriving DecidableEq, Repr

/-- the hand-overs of a trace, in order (ids, try flag and client decision dropped) -/
def handovers : List Obs → List HO
  | [] => []
  | .call _ k d sq bd _ _ :: t => ⟨k, d, sq, bd⟩ :: handovers t
  | _ :: t => handovers t

/-- the NBIRTH of a rebirth: sequence number 0, the given bdSeq -/
def nbirthHO (bd : Nat) : HO := { kind := .nbirth, seq := some 0, bd := some bd }

/-- DBIRTHs for the device names `names`, in this order, the first one carrying sequence number
`i + 1`, the following ones consecutive numbers (mod 256) -/
def dbirthsFrom (i : Nat) : List Nat → List HO
  | [] => []
  | d :: t => { kind := .dbirth, dev := some d, seq := some ((i + 1) % 256) } :: dbirthsFrom (i + 1) t

/-- the cooldown test of `on_sparkplug_message`: `now - last_node_rebirth_request ≥ cooldown` -/
def cooldownElapsed (s : St) : Prop := ¬ (s.wall - s.lastRebirthReq < s.cooldown)

instance (s : St) : Decidable (cooldownElapsed s) := by unfold cooldownElapsed; infer_instance

/-- the decision of `C15L_ncmd_decision`: the command asks for a rebirth, the cooldown has elapsed,
the node is birthed -/
def rebirthGranted (s : St) (rb : Bool) : Prop := rb = true ∧ cooldownElapsed s ∧ s.birthed = true

instance (s : St) (rb : Bool) : Decidable (rebirthGranted s rb) := by unfold rebirthGranted; infer_instance

/-- an action of a schedule under an **accepting client**: a task step whose hand-over (if any) is
accepted, the passage of time, or a late answer to a call parked earlier. No new stimulus. -/
def Act.isAcc : Act → Bool
  | .task _ dec _ => dec == .acc
  | .stim (.advance _) => true
  | .stim (.resolve _ _) => true
  | .stim _ => false

/-- nothing left to run under an accepting client: no task has an enabled step -/
def Exhausted (s : St) : Prop := ∀ (t : Task) (k : Nat), (step s t .acc)[k]? = none

/-- a device that takes part in births: enabled, still in the device map, task alive -/
def Dev.birthable (x : Dev) : Bool := x.enabled && x.registered && x.pc != .done

/-- the part of a device a rebirth run does not change: name, enabled, registered, task finished -/
def Dev.static (x : Dev) : Nat × Bool × Bool × Bool := (x.name, x.enabled, x.registered, x.pc == .done)

/-- **The start hypotheses of the liveness theorem**: a node rebirth is about to run
(`node = birthStart rebirth fc`) and it is the only pending work of the node and loop tasks —
no `client_state` message, no rebirth request, no further NCMD, no undelivered event, no stop
signal, every user call returned — no `on_dcmd` callback is gated, and every device task is either
finished or belongs to a registered device, is idle or inside `on_dcmd`, and has **no pending
node-state message and no pending enable / disable / rebirth request** (DCMDs may be queued). -/
structure RebirthStart (s : St) (fc : Option Nat) : Prop where
  node : s.node = .birthStart .rebirth fc
  cs : s.cs = none
  rq : s.rebirthQ = false
  mq : s.msgQ = []
  inbox : s.inbox = []
  loop : s.loop = .sel ∨ s.loop = .polling
  stop : s.stop = false
  ucalls : ∀ u ∈ s.ucalls, u.pc = .done
  cbs : s.devCbPark = []
  devs : ∀ x ∈ s.devs, x.pc = .done ∨
    (x.registered = true ∧ (x.pc = .idle ∨ x.pc = .inCb) ∧ x.nsq = [] ∧ x.hq = [])

namespace P15
open Srad.Eon.P20 Srad.Eon.Term
set_option linter.unusedSimpArgs false
set_option linter.unusedVariables false

/-! ### hand-over projection -/

theorem handovers_append (a b : List Obs) : handovers (a ++ b) = handovers a ++ handovers b := by
  induction a with
  | nil => rfl
  | cons o t ih => cases o <;> simp [handovers, ih]

theorem dbirthsFrom_append (i : Nat) (a b : List Nat) :
    dbirthsFrom i (a ++ b) = dbirthsFrom i a ++ dbirthsFrom (i + a.length) b := by
  induction a generalizing i with
  | nil => simp [dbirthsFrom]
  | cons d t ih => simp [dbirthsFrom, ih, Nat.add_assoc, Nat.add_comm 1]

theorem dbirthsFrom_length (i : Nat) (a : List Nat) : (dbirthsFrom i a).length = a.length := by
  induction a generalizing i with
  | nil => rfl
  | cons d t ih => simp [dbirthsFrom, ih]

theorem dbirthsFrom_kind (i : Nat) (a : List Nat) : ∀ h ∈ dbirthsFrom i a, h.kind = .dbirth := by
  induction a generalizing i with
  | nil => simp [dbirthsFrom]
  | cons d t ih =>
    intro h hh
    simp only [dbirthsFrom, List.mem_cons] at hh
    rcases hh with rfl | hh
    · rfl
    · exact ih _ _ hh

theorem dbirthsFrom_getElem (i : Nat) (a : List Nat) (j : Nat) (hj : j < a.length) :
    (dbirthsFrom i a)[j]? = some { kind := .dbirth, dev := some a[j], seq := some ((i + j + 1) % 256) } := by
  induction a generalizing i j with
  | nil => simp at hj
  | cons d t ih =>
    cases j with
    | zero => simp [dbirthsFrom]
    | succ j =>
      simp only [dbirthsFrom, List.getElem?_cons_succ, List.getElem_cons_succ]
      rw [ih (i + 1) j (by simpa using hj)]
      simp; omega

/-! ### the node-task steps that process an NCMD -/

/-- taking an NCMD off the queue: one without payload timestamp is dropped, no callback -/
theorem dequeue_no_ts (s : St) (dec : Dec) (rb : Bool) (rest : List (Bool × Bool))
    (hn : s.node = .idle) (hcs : s.cs = none) (hrq : s.rebirthQ = false) (hq : s.msgQ = (rb, false) :: rest) :
    stepNode s dec = [({ s with msgQ := rest }, [])] := by
  simp [stepNode, hn, hcs, hrq, hq]

/-- taking an NCMD with payload timestamp off the queue: `on_ncmd` is called -/
theorem dequeue_ts (s : St) (dec : Dec) (rb : Bool) (rest : List (Bool × Bool))
    (hn : s.node = .idle) (hcs : s.cs = none) (hrq : s.rebirthQ = false) (hq : s.msgQ = (rb, true) :: rest) :
    stepNode s dec = [({ s with msgQ := rest, node := .inCb rb }, [.cbNcmd])] := by
  simp [stepNode, hn, hcs, hrq, hq]

/-- the step after `on_ncmd` has returned -/
theorem inCb_step (s : St) (dec : Dec) (rb : Bool) (hn : s.node = .inCb rb) (hp : s.nodeCbPark = false) :
    stepNode s dec =
      [(if rebirthGranted s rb then { s with node := .birthStart .rebirth (some s.wall) }
        else if rb = true ∧ cooldownElapsed s then { s with lastRebirthReq := s.wall, node := .idle }
        else { s with node := .idle }, [])] := by
  cases rb
  · simp [stepNode, hn, hp, rebirthGranted, cooldownElapsed]
  · by_cases hc : s.wall - s.lastRebirthReq < s.cooldown
    · simp [stepNode, hn, hp, rebirthGranted, cooldownElapsed, hc]
    · cases hb : s.birthed <;> simp [stepNode, hn, hp, rebirthGranted, cooldownElapsed, hc, hb]

/-- `node_birth` of a rebirth: `start_birth` (epoch + 1, seq 0, unbirthed), NBIRTH handed over -/
theorem birthStart_step (s : St) (dec : Dec) (bt : BT) (fc : Option Nat) (hn : s.node = .birthStart bt fc) :
    ∃ c : Call, c.kind = .nbirth ∧ c.seq = some 0 ∧ c.bd = some s.bdseq ∧
    stepNode s dec =
      [({ s with birthed := false, seq := 0, epoch := s.epoch + 1, calls := s.calls ++ [c],
                 node := (match dec with
                          | .acc => .nbDone true bt fc | .rej => .nbDone false bt fc
                          | .park => .waitNb s.calls.length bt fc) },
        [.bNode, .call s.calls.length .nbirth none (some 0) (some s.bdseq) false dec])] := by
  refine ⟨{ kind := .nbirth, seq := some 0, bd := some s.bdseq, gOnline := s.online,
            res := (match dec with | .acc => some true | .rej => some false | .park => none) }, rfl, rfl, rfl, ?_⟩
  cases dec <;> simp [stepNode, hn, nodeBirthStart, handOver, callRes]

/-- the end of `birth` and of `on_sparkplug_message`: `birth_completed`, `birth_devices`, then the
cooldown reference is stamped with the clock reading taken before the birth -/
theorem nbDone_step (s : St) (dec : Dec) (ok : Bool) (bt : BT) (fc : Option Nat) (hn : s.node = .nbDone ok bt fc) :
    ∃ s', stepNode s dec = [(s', [])] ∧ s'.node = .idle ∧ s'.calls = s.calls ∧ s'.epoch = s.epoch ∧
      s'.bdseq = s.bdseq ∧ s'.seq = s.seq ∧ s'.online = s.online ∧
      s'.birthed = (if ok then true else s.birthed) ∧
      s'.devs = (if ok then pushAll (.birth bt s.epoch) s.devs else s.devs) ∧
      s'.lastRebirthReq = (match fc with | some w => w | none => s.lastRebirthReq) := by
  cases ok <;> cases fc <;> simp [stepNode, hn]

/-! ### what the node task owns -/

/-- the fields only the node task writes (the clock excepted, which the cooldown test reads) -/
def NodeOwned (s s' : St) : Prop :=
  s'.node = s.node ∧ s'.lastRebirthReq = s.lastRebirthReq ∧ s'.cooldown = s.cooldown ∧ s'.birthed = s.birthed ∧
  s'.epoch = s.epoch ∧ s'.bdseq = s.bdseq ∧ s'.online = s.online ∧ s'.msgQ.length ≥ s.msgQ.length

theorem stepLoop_owned {s : St} {r : St × List Obs} (h : r ∈ stepLoop s) : NodeOwned s r.1 := by
  unfold stepLoop at h
  simp only [loopHandle, newOneshot] at h
  repeat' split at h
  all_goals (try simp at h)
  all_goals (try (rcases h with h | h))
  all_goals (try subst h)
  all_goals (first | exact ⟨rfl, rfl, rfl, rfl, rfl, rfl, rfl, by simp⟩ | skip)

theorem stepLoopTimeout_owned {s : St} {r : St × List Obs} (h : r ∈ stepLoopTimeout s) : NodeOwned s r.1 := by
  unfold stepLoopTimeout at h
  simp only [newOneshot] at h
  repeat' split at h
  all_goals (try simp at h)
  all_goals (try subst h)
  all_goals (first | exact ⟨rfl, rfl, rfl, rfl, rfl, rfl, rfl, by simp⟩ | skip)

theorem devBirth_owned (s : St) (x : Dev) (bt : BT) (req : Option Nat) (dec : Dec) :
    NodeOwned s (devBirth s x bt req dec).1 := by
  simp only [devBirth, handOver, callRes]
  repeat' split
  all_goals (try (obtain ⟨rfl, _, _⟩ := nextSeqIn_ok ‹_›))
  all_goals exact ⟨rfl, rfl, rfl, rfl, rfl, rfl, rfl, by simp⟩

theorem devDeath_owned (s : St) (x : Dev) (a b : Bool) (dec : Dec) :
    NodeOwned s (devDeath s x a b dec).1 := by
  simp only [devDeath, handOver, callRes]
  repeat' split
  all_goals (try (obtain ⟨rfl, _, _⟩ := nextSeqIn_ok ‹_›))
  all_goals exact ⟨rfl, rfl, rfl, rfl, rfl, rfl, rfl, by simp⟩

theorem stepDev_owned {s : St} {u : Nat} {dec : Dec} {r : St × List Obs} (h : r ∈ stepDev s u dec) :
    NodeOwned s r.1 := by
  simp only [stepDev] at h
  repeat' split at h
  all_goals (try simp at h)
  all_goals (try subst h)
  all_goals (first | exact devBirth_owned .. | exact devDeath_owned .. | exact ⟨rfl, rfl, rfl, rfl, rfl, rfl, rfl, by simp⟩)

theorem stepUser_owned {s : St} {j : Nat} {dec : Dec} {r : St × List Obs} (h : r ∈ stepUser s j dec) :
    NodeOwned s r.1 := by
  simp only [stepUser, handOver, callRes] at h
  repeat' split at h
  all_goals (try (first | (obtain ⟨rfl, _, _⟩ := gate_ok (t := .node) ‹_›) | (obtain ⟨rfl, _, _⟩ := gate_ok (t := .dev _) ‹_›)))
  all_goals (try simp at h)
  all_goals (try subst h)
  all_goals (first | exact ⟨rfl, rfl, rfl, rfl, rfl, rfl, rfl, by simp⟩ | skip)

theorem applyStim_owned (s : St) (x : Stim) : NodeOwned s (applyStim s x).1 := by
  cases x <;> simp only [applyStim] <;> repeat' split
  all_goals exact ⟨rfl, rfl, rfl, rfl, rfl, rfl, rfl, by simp⟩

/-- every action other than a step of the node task leaves the node task's program location, the
cooldown reference, the configuration, `birthed`, the birth epoch, bdSeq and `online` alone and
takes nothing off the NCMD queue -/
theorem other_keeps {s s' : St} {a : Act} {o : List Obs} (h : runAct s a = some (s', o))
    (ha : ∀ dec k, a ≠ .task .node dec k) : NodeOwned s s' := by
  cases a with
  | stim x =>
    simp only [runAct, Option.some.injEq] at h
    have := applyStim_owned s x
    rw [h] at this; exact this
  | task t dec k =>
    have hm := mem_of_getElem? (r := (s', o)) h
    cases t <;> simp only [step] at hm
    · exact stepLoop_owned hm
    · exact stepLoopTimeout_owned hm
    · exact absurd rfl (ha dec k)
    · exact stepDev_owned hm
    · exact stepUser_owned hm

/-! ### the invariant of a rebirth run -/

/-- what a rebirth run (accepting client, no stimuli) never changes -/
structure Frame (s : St) : Prop where
  online : s.online = true
  cs : s.cs = none
  rq : s.rebirthQ = false
  mq : s.msgQ = []
  inbox : s.inbox = []
  loop : s.loop = .sel ∨ s.loop = .polling
  stop : s.stop = false
  ucalls : ∀ u ∈ s.ucalls, u.pc = .done
  cbs : s.devCbPark = []
  uid : P04.UidOk s.devs

/-- a device before `birth_devices` of the new node birth -/
def DevPre (x : Dev) : Prop :=
  x.pc = .done ∨ (x.registered = true ∧ (x.pc = .idle ∨ x.pc = .inCb) ∧ x.nsq = [] ∧ x.hq = [])

/-- a device after `birth_devices` of node birth `E`: finished; or the birth message is still
queued; or its DBIRTH has been handed over and accepted; or it is through (birthed for `E` if
enabled, skipped if disabled) -/
def DevPost (E : Nat) (x : Dev) : Prop :=
  x.pc = .done ∨ (x.registered = true ∧ x.hq = [] ∧
    (((x.pc = .idle ∨ x.pc = .inCb) ∧ x.nsq = [.birth .rebirth E]) ∨
     (x.nsq = [] ∧ x.enabled = true ∧ x.pc = .birthDone true E) ∨
     (x.nsq = [] ∧ (x.pc = .idle ∨ x.pc = .inCb) ∧ (x.enabled = true → x.flag = true ∧ x.epoch = E))))

/-- a birthable device named `d` that has taken the birth message of the new node birth -/
def served (d : Nat) (x : Dev) : Bool := x.name == d && x.birthable && x.nsq.isEmpty

/-- the phases of a rebirth run; `hs` = the hand-overs since the start -/
inductive RB (E bd : Nat) (fc : Option Nat) (s : St) (hs : List HO) : Prop
  | start (hn : s.node = .birthStart .rebirth fc) (he : s.epoch + 1 = E) (hbd : s.bdseq = bd) (hh : hs = [])
      (hd : ∀ x ∈ s.devs, DevPre x)
  | nbirth (hn : s.node = .nbDone true .rebirth fc) (he : s.epoch = E) (hbd : s.bdseq = bd)
      (hb : s.birthed = false) (hseq : s.seq = 0) (hh : hs = [nbirthHO bd]) (hd : ∀ x ∈ s.devs, DevPre x)
  | devs (names : List Nat) (hn : s.node = .idle) (he : s.epoch = E) (hbd : s.bdseq = bd)
      (hb : s.birthed = true) (hl : ∀ w, fc = some w → s.lastRebirthReq = w)
      (hseq : s.seq = names.length % 256) (hh : hs = nbirthHO bd :: dbirthsFrom 0 names)
      (hd : ∀ x ∈ s.devs, DevPost E x) (hc : ∀ d, names.count d = s.devs.countP (served d))

theorem RB_of_eq {E bd : Nat} {fc : Option Nat} {s s' : St} {hs : List HO} (hr : RB E bd fc s hs)
    (h1 : s'.node = s.node) (h2 : s'.epoch = s.epoch) (h3 : s'.bdseq = s.bdseq) (h4 : s'.birthed = s.birthed)
    (h5 : s'.seq = s.seq) (h6 : s'.lastRebirthReq = s.lastRebirthReq) (h7 : s'.devs = s.devs) : RB E bd fc s' hs := by
  cases hr with
  | start hn he hbd hh hd => exact .start (by rw [h1, hn]) (by rw [h2, he]) (by rw [h3, hbd]) hh (by rw [h7]; exact hd)
  | nbirth hn he hbd hb hseq hh hd =>
    exact .nbirth (by rw [h1, hn]) (by rw [h2, he]) (by rw [h3, hbd]) (by rw [h4, hb]) (by rw [h5, hseq]) hh (by rw [h7]; exact hd)
  | devs names hn he hbd hb hl hseq hh hd hc =>
    exact .devs names (by rw [h1, hn]) (by rw [h2, he]) (by rw [h3, hbd]) (by rw [h4, hb]) (by rw [h6]; exact hl)
      (by rw [h5, hseq]) hh (by rw [h7]; exact hd) (by rw [h7]; exact hc)

theorem RB_quiet {E bd : Nat} {fc : Option Nat} {s s' : St} {hs : List HO} {o : List Obs} (hr : RB E bd fc s hs)
    (ho : handovers o = [])
    (h1 : s'.node = s.node) (h2 : s'.epoch = s.epoch) (h3 : s'.bdseq = s.bdseq) (h4 : s'.birthed = s.birthed)
    (h5 : s'.seq = s.seq) (h6 : s'.lastRebirthReq = s.lastRebirthReq) (h7 : s'.devs = s.devs) :
    RB E bd fc s' (hs ++ handovers o) := by
  rw [ho, List.append_nil]; exact RB_of_eq hr h1 h2 h3 h4 h5 h6 h7

/-! #### device lists -/

theorem map_stat_setDev {u : Nat} {l : List Dev} {x x' : Dev} (h : findUid u l = some x) (hu : x'.uid = u)
    (hs : Dev.static x' = Dev.static x) : (setDev x' l).map Dev.static = l.map Dev.static := by
  induction l with
  | nil => rfl
  | cons y t ih =>
    simp only [setDev]
    by_cases hy : y.uid = u
    · have : x = y := by simpa [findUid, List.find?_cons, hy] using h.symm
      subst this
      simp [hy, hu, hs]
    · have hne : ¬ y.uid = x'.uid := by rw [hu]; exact hy
      have h' : findUid u t = some x := by simpa [findUid, List.find?_cons, hy] using h
      simp [hne, ih h']

theorem map_stat_pushAll (m : NS) (l : List Dev) : (pushAll m l).map Dev.static = l.map Dev.static := by
  simp only [pushAll, List.map_map]
  apply List.map_congr_left
  intro a _
  simp only [Function.comp]
  split <;> rfl

theorem countP_setDev (p : Dev → Bool) {u : Nat} {l : List Dev} {x x' : Dev} (h : findUid u l = some x) (hu : x'.uid = u) :
    (setDev x' l).countP p + (if p x then 1 else 0) = l.countP p + (if p x' then 1 else 0) := by
  induction l with
  | nil => simp [findUid] at h
  | cons y t ih =>
    simp only [setDev]
    by_cases hy : y.uid = u
    · have : x = y := by simpa [findUid, List.find?_cons, hy] using h.symm
      subst this
      simp only [hy, hu, beq_self_eq_true, if_true, List.countP_cons]
      omega
    · have hne : ¬ y.uid = x'.uid := by rw [hu]; exact hy
      have h' : findUid u t = some x := by simpa [findUid, List.find?_cons, hy] using h
      have := ih h'
      simp only [beq_iff_eq, hne, if_false, List.countP_cons]
      omega

theorem forall_setDev {P : Dev → Prop} {x' : Dev} {l : List Dev} (hl : ∀ y ∈ l, P y) (hx : P x') :
    ∀ y ∈ setDev x' l, P y := by
  intro y hy
  rcases P04.mem_setDev_weak _ _ _ hy with rfl | h
  · exact hx
  · exact hl y h

/-! #### device steps -/

theorem pc_beq (p q : DevPc) : (p == q) = decide (p = q) := rfl
theorem pc_bne (p q : DevPc) : (p != q) = decide (p ≠ q) := by simp [bne, pc_beq]

theorem dev_pre_step {s : St} {u : Nat} {dec : Dec} {x : Dev} {r : St × List Obs} (hcb : s.devCbPark = [])
    (hx : findUid u s.devs = some x) (hp : DevPre x) (h : r ∈ stepDev s u dec) :
    ∃ x', r.1 = { s with devs := setDev x' s.devs } ∧ x'.uid = u ∧ Dev.static x' = Dev.static x ∧ DevPre x' ∧
      handovers r.2 = [] := by
  have hxu : x.uid = u := (P04.findUid_some hx).2
  rcases hp with hdone | ⟨hreg, hpc | hpc, hn, hh⟩
  · simp [stepDev, hx, hdone] at h
  · cases hm : x.mq with
    | nil => simp [stepDev, hx, hpc, hn, hh, hm] at h
    | cons ts rest =>
      cases ts <;> simp [stepDev, hx, hpc, hn, hh, hm] at h <;> subst h
      all_goals refine ⟨_, rfl, ?_, ?_, ?_, rfl⟩
      all_goals simp [Dev.static, DevPre, hxu, hreg, hpc, hn, hh, pc_beq]
  · have hc : s.devCbPark.contains x.name = false := by simp [hcb]
    simp [stepDev, hx, hpc, hc] at h
    obtain ⟨-, rfl⟩ := h
    refine ⟨_, rfl, ?_, ?_, ?_, rfl⟩
    all_goals simp [Dev.static, DevPre, hxu, hreg, hpc, hn, hh, pc_beq]

theorem dev_post_step {s : St} {u : Nat} {x : Dev} {r : St × List Obs} (hon : s.online = true)
    (hb : s.birthed = true) (hcb : s.devCbPark = []) (hx : findUid u s.devs = some x) (hp : DevPost s.epoch x)
    (h : r ∈ stepDev s u .acc) :
    ∃ x', x'.uid = u ∧ Dev.static x' = Dev.static x ∧ DevPost s.epoch x' ∧
      ((r.1 = { s with devs := setDev x' s.devs } ∧ handovers r.2 = [] ∧ ∀ d, served d x' = served d x) ∨
       (∃ c, r.1 = { s with seq := (s.seq + 1) % 256, calls := s.calls ++ [c], devs := setDev x' s.devs } ∧
          handovers r.2 = [{ kind := .dbirth, dev := some x.name, seq := some ((s.seq + 1) % 256) }] ∧
          (∀ d, served d x = false) ∧ ∀ d, served d x' = (x.name == d))) := by
  have hxu : x.uid = u := (P04.findUid_some hx).2
  cases s
  rename_i online birthed seq bdseq running stopping epoch cooldown wall lastRebirthReq inbox will loop stopDeadline cs rebirthQ msgQ stop oneshots nextOneshot node nodeCbPark devCbPark devs ucalls calls
  simp only at hon hb hcb hx hp h ⊢
  subst hon hb hcb
  rcases hp with hdone | ⟨hreg, hh, ⟨hpc | hpc, hn⟩ | ⟨hn, hen, hpc⟩ | ⟨hn, hpc | hpc, hfl⟩⟩
  · simp [stepDev, hx, hdone] at h
  · -- the birth message is taken
    cases hen : x.enabled
    · simp [stepDev, hx, hpc, hn, devBirth, hen] at h
      subst h
      refine ⟨_, ?_, ?_, ?_, .inl ⟨rfl, rfl, ?_⟩⟩
      all_goals simp [Dev.static, DevPost, served, Dev.birthable, hxu, hreg, hpc, hn, hh, hen, pc_beq, pc_bne]
    · simp [stepDev, hx, hpc, hn, devBirth, hen, hreg, nextSeqIn, handOver, callRes, P04.setDev_setDev] at h
      subst h
      refine ⟨_, ?_, ?_, ?_, .inr ⟨_, rfl, rfl, ?_, ?_⟩⟩
      all_goals simp [Dev.static, DevPost, served, Dev.birthable, hxu, hreg, hpc, hn, hh, hen, pc_beq, pc_bne]
  · simp [stepDev, hx, hpc] at h
    subst h
    refine ⟨_, ?_, ?_, ?_, .inl ⟨rfl, rfl, ?_⟩⟩
    all_goals simp [Dev.static, DevPost, served, Dev.birthable, hxu, hreg, hpc, hn, hh, pc_beq, pc_bne]
  · simp [stepDev, hx, hpc] at h
    subst h
    refine ⟨_, ?_, ?_, ?_, .inl ⟨rfl, rfl, ?_⟩⟩
    all_goals simp [Dev.static, DevPost, served, Dev.birthable, hxu, hreg, hpc, hn, hh, hen, pc_beq, pc_bne]
  · cases hm : x.mq with
    | nil => simp [stepDev, hx, hpc, hn, hh, hm] at h
    | cons ts rest =>
      cases ts <;> simp [stepDev, hx, hpc, hn, hh, hm] at h <;> subst h
      all_goals refine ⟨_, ?_, ?_, ?_, .inl ⟨rfl, rfl, ?_⟩⟩
      all_goals simp [Dev.static, DevPost, served, Dev.birthable, hxu, hreg, hpc, hn, hh, pc_beq, pc_bne]
      all_goals exact hfl
  · simp [stepDev, hx, hpc] at h
    subst h
    refine ⟨_, ?_, ?_, ?_, .inl ⟨rfl, rfl, ?_⟩⟩
    all_goals simp [Dev.static, DevPost, served, Dev.birthable, hxu, hreg, hpc, hn, hh, pc_beq, pc_bne]
    all_goals exact hfl

/-! #### preservation -/

theorem Frame_of_eq {s s' : St} (hf : Frame s) (h1 : s'.online = s.online) (h2 : s'.cs = s.cs)
    (h3 : s'.rebirthQ = s.rebirthQ) (h4 : s'.msgQ = s.msgQ) (h5 : s'.inbox = s.inbox) (h6 : s'.loop = s.loop)
    (h7 : s'.stop = s.stop) (h8 : s'.ucalls = s.ucalls) (h9 : s'.devCbPark = s.devCbPark)
    (h10 : P04.UidOk s'.devs) : Frame s' :=
  ⟨by rw [h1]; exact hf.online, by rw [h2]; exact hf.cs, by rw [h3]; exact hf.rq, by rw [h4]; exact hf.mq,
   by rw [h5]; exact hf.inbox, by rw [h6]; exact hf.loop, by rw [h7]; exact hf.stop, by rw [h8]; exact hf.ucalls,
   by rw [h9]; exact hf.cbs, h10⟩

/-- the step that ends an accepted node birth, as a state update -/
theorem nbDone_true_step (s : St) (dec : Dec) (bt : BT) (fc : Option Nat) (hn : s.node = .nbDone true bt fc) :
    stepNode s dec =
      [({ s with birthed := true, devs := pushAll (.birth bt s.epoch) s.devs,
                 lastRebirthReq := (match fc with | some w => w | none => s.lastRebirthReq), node := .idle }, [])] := by
  cases fc <;> simp [stepNode, hn]

theorem pre_pushAll {E : Nat} {l : List Dev} (h : ∀ x ∈ l, DevPre x) :
    (∀ y ∈ pushAll (.birth .rebirth E) l, DevPost E y) ∧ ∀ d, (pushAll (.birth .rebirth E) l).countP (served d) = 0 := by
  constructor
  · intro y hy
    simp only [pushAll, List.mem_map] at hy
    obtain ⟨x, hx, rfl⟩ := hy
    rcases h x hx with hd | ⟨hreg, hpc, hn, hh⟩
    · simp [hd, DevPost]
    · have : x.pc ≠ .done := by rcases hpc with h | h <;> simp [h]
      simp [hreg, this, DevPost, hn, hh, hpc]
  · intro d
    rw [List.countP_eq_zero]
    intro y hy
    simp only [pushAll, List.mem_map] at hy
    obtain ⟨x, hx, rfl⟩ := hy
    rcases h x hx with hd | ⟨hreg, hpc, hn, hh⟩
    · simp [hd, served, Dev.birthable]
    · have : x.pc ≠ .done := by rcases hpc with h | h <;> simp [h]
      simp [hreg, this, served, hn]

theorem RB_runAct {E bd : Nat} {fc : Option Nat} {S : List (Nat × Bool × Bool × Bool)} {s s' : St} {hs : List HO}
    {a : Act} {o : List Obs} (hf : Frame s) (hS : s.devs.map Dev.static = S) (hr : RB E bd fc s hs)
    (ha : a.isAcc = true) (h : runAct s a = some (s', o)) :
    Frame s' ∧ s'.devs.map Dev.static = S ∧ RB E bd fc s' (hs ++ handovers o) := by
  cases a with
  | stim x =>
    cases x <;> simp [Act.isAcc] at ha
    · -- a late answer to a parked call
      simp only [runAct, applyStim, Option.some.injEq] at h
      repeat' split at h
      all_goals simp only [Prod.mk.injEq] at h
      all_goals obtain ⟨rfl, rfl⟩ := h
      all_goals exact ⟨Frame_of_eq hf rfl rfl rfl rfl rfl rfl rfl rfl rfl hf.uid, hS,
        RB_quiet hr rfl rfl rfl rfl rfl rfl rfl rfl⟩
    · simp only [runAct, applyStim, Option.some.injEq, Prod.mk.injEq] at h
      obtain ⟨rfl, rfl⟩ := h
      exact ⟨Frame_of_eq hf rfl rfl rfl rfl rfl rfl rfl rfl rfl hf.uid, hS,
        RB_quiet hr rfl rfl rfl rfl rfl rfl rfl rfl⟩
  | task t dec k =>
    have hdec : dec = .acc := by simpa [Act.isAcc] using ha
    subst hdec
    have hm := mem_of_getElem? (r := (s', o)) h
    cases t <;> simp only [step] at hm
    · -- the event loop: `select!` → `poll()`, then blocked
      rcases hf.loop with hl | hl
      · simp [stepLoop, hl, hf.stop] at hm
        obtain ⟨rfl, rfl⟩ := hm
        exact ⟨⟨hf.online, hf.cs, hf.rq, hf.mq, hf.inbox, .inr rfl, rfl, hf.ucalls, hf.cbs, hf.uid⟩, hS,
          RB_quiet hr rfl rfl rfl rfl rfl rfl rfl rfl⟩
      · simp [stepLoop, hl, hf.stop, hf.inbox] at hm
    · -- the shutdown timer is not armed for this loop location
      simp only [stepLoopTimeout] at hm
      rcases hf.loop with hl | hl <;> (repeat' split at hm) <;> simp_all
    · -- the node task
      cases hr with
      | start hn he hbd hh hd =>
        obtain ⟨c, hk, hsq, hbdc, hst⟩ := birthStart_step s .acc .rebirth fc hn
        rw [hst] at hm
        simp only [List.mem_singleton, Prod.mk.injEq] at hm
        obtain ⟨rfl, rfl⟩ := hm
        refine ⟨Frame_of_eq hf rfl rfl rfl rfl rfl rfl rfl rfl rfl hf.uid, hS, ?_⟩
        exact .nbirth rfl he hbd rfl rfl (by simp [handovers, hh, nbirthHO, hbd]) hd
      | nbirth hn he hbd hb hseq hh hd =>
        rw [nbDone_true_step s .acc .rebirth fc hn] at hm
        simp only [List.mem_singleton, Prod.mk.injEq] at hm
        obtain ⟨rfl, rfl⟩ := hm
        obtain ⟨hp1, hp2⟩ := pre_pushAll (E := s.epoch) hd
        refine ⟨Frame_of_eq hf rfl rfl rfl rfl rfl rfl rfl rfl rfl (hf.uid.pushAll _), ?_, ?_⟩
        · rw [← hS]; exact map_stat_pushAll _ _
        · refine .devs [] rfl he hbd rfl ?_ (by simpa using hseq) (by simp [handovers, hh, dbirthsFrom]) ?_ ?_
          · intro w hw; subst hw; rfl
          · rw [← he]; exact hp1
          · intro d; simp [hp2 d]
      | devs names hn he hbd hb hl hseq hh hd hc =>
        simp [stepNode, hn, hf.cs, hf.rq, hf.mq] at hm
    · -- a device task
      rename_i u
      cases hfu : findUid u s.devs with
      | none => simp [stepDev, hfu] at hm
      | some x =>
        have hxm : x ∈ s.devs := (P04.findUid_some hfu).1
        cases hr with
        | start hn he hbd hh hd =>
          obtain ⟨x', h1, h2, h3, h4, h5⟩ := dev_pre_step hf.cbs hfu (hd x hxm) hm
          simp only at h1 h5
          subst h1
          refine ⟨Frame_of_eq hf rfl rfl rfl rfl rfl rfl rfl rfl rfl (hf.uid.setDev _), ?_, ?_⟩
          · rw [← hS]; exact map_stat_setDev hfu h2 h3
          · exact .start hn he hbd (by simp [hh, h5]) (forall_setDev hd h4)
        | nbirth hn he hbd hb hseq hh hd =>
          obtain ⟨x', h1, h2, h3, h4, h5⟩ := dev_pre_step hf.cbs hfu (hd x hxm) hm
          simp only at h1 h5
          subst h1
          refine ⟨Frame_of_eq hf rfl rfl rfl rfl rfl rfl rfl rfl rfl (hf.uid.setDev _), ?_, ?_⟩
          · rw [← hS]; exact map_stat_setDev hfu h2 h3
          · exact .nbirth hn he hbd hb hseq (by simp [hh, h5]) (forall_setDev hd h4)
        | devs names hn he hbd hb hl hseq hh hd hc =>
          subst he
          obtain ⟨x', h2, h3, h4, ⟨h1, h5, h6⟩ | ⟨c, h1, h5, h6, h7⟩⟩ := dev_post_step hf.online hb hf.cbs hfu (hd x hxm) hm
          · simp only at h1 h5
            subst h1
            refine ⟨Frame_of_eq hf rfl rfl rfl rfl rfl rfl rfl rfl rfl (hf.uid.setDev _), ?_, ?_⟩
            · rw [← hS]; exact map_stat_setDev hfu h2 h3
            · refine .devs names hn rfl hbd hb hl hseq (by simp [hh, h5]) (forall_setDev hd h4) ?_
              intro d
              have := countP_setDev (served d) hfu h2
              rw [h6 d] at this
              show names.count d = (setDev x' s.devs).countP (served d)
              rw [hc d]; omega
          · simp only at h1 h5
            subst h1
            refine ⟨Frame_of_eq hf rfl rfl rfl rfl rfl rfl rfl rfl rfl (hf.uid.setDev _), ?_, ?_⟩
            · rw [← hS]; exact map_stat_setDev hfu h2 h3
            · refine .devs (names ++ [x.name]) hn rfl hbd hb hl ?_ ?_ (forall_setDev hd h4) ?_
              · simp only [List.length_append, List.length_cons, List.length_nil]; omega
              · have : (s.seq + 1) % 256 = (names.length + 1) % 256 := by omega
                simp [hh, h5, dbirthsFrom_append, dbirthsFrom, this]
              · intro d
                have := countP_setDev (served d) hfu h2
                rw [h6 d, h7 d] at this
                show (names ++ [x.name]).count d = (setDev x' s.devs).countP (served d)
                simp only [List.count_append, List.count_cons, List.count_nil, hc d]
                simp only [beq_iff_eq, Bool.false_eq_true, if_false] at this ⊢
                omega
    · -- user calls: all returned
      rename_i j
      cases hfu : s.ucalls.find? (·.j == j) with
      | none => simp [stepUser, hfu] at hm
      | some v =>
        have hpc := hf.ucalls v (List.mem_of_find?_eq_some hfu)
        cases hk : v.kind <;> simp [stepUser, hfu, hpc, hk] at hm

theorem RB_runActs {E bd : Nat} {fc : Option Nat} {S : List (Nat × Bool × Bool × Bool)} :
    ∀ (sched : List Act) (s s' : St) (hs : List HO) (tr : List Obs), Frame s → s.devs.map Dev.static = S →
      RB E bd fc s hs → (∀ a ∈ sched, a.isAcc = true) → runActs s sched = some (s', tr) →
      Frame s' ∧ s'.devs.map Dev.static = S ∧ RB E bd fc s' (hs ++ handovers tr) := by
  intro sched
  induction sched with
  | nil =>
    intro s s' hs tr hf hS hr _ h
    simp only [runActs, Option.some.injEq, Prod.mk.injEq] at h
    obtain ⟨rfl, rfl⟩ := h
    exact ⟨hf, hS, by simpa [handovers] using hr⟩
  | cons a as ih =>
    intro s s' hs tr hf hS hr hall h
    simp only [runActs] at h
    split at h
    · simp at h
    · rename_i s1 o1 h1
      split at h
      · simp at h
      · rename_i s2 o2 h2
        simp only [Option.some.injEq, Prod.mk.injEq] at h
        obtain ⟨rfl, rfl⟩ := h
        obtain ⟨hf1, hS1, hr1⟩ := RB_runAct hf hS hr (hall a (by simp)) h1
        have := ih s1 s2 _ o2 hf1 hS1 hr1 (fun b hb => hall b (by simp [hb])) h2
        rwa [handovers_append, ← List.append_assoc]

/-! #### the end of a rebirth run -/

/-- a device task that cannot step under an accepting client is finished or through -/
theorem dev_stuck {s : St} {E : Nat} {x : Dev} (hf : Frame s) (hx : x ∈ s.devs) (hp : DevPost E x)
    (he : stepDev s x.uid .acc = []) :
    x.pc = .done ∨ (x.pc = .idle ∧ x.nsq = [] ∧ x.hq = [] ∧ x.mq = [] ∧ (x.enabled = true → x.flag = true ∧ x.epoch = E)) := by
  have hfu : findUid x.uid s.devs = some x := findUid_of_mem hf.uid.nodup hx
  have hc : s.devCbPark.contains x.name = false := by simp [hf.cbs]
  rcases hp with hdone | ⟨hreg, hh, ⟨hpc | hpc, hn⟩ | ⟨hn, hen, hpc⟩ | ⟨hn, hpc | hpc, hfl⟩⟩
  · exact .inl hdone
  · simp [stepDev, hfu, hpc, hn] at he
  · simp [stepDev, hfu, hpc, hf.cbs] at he
  · simp [stepDev, hfu, hpc] at he
  · cases hm : x.mq with
    | nil => exact .inr ⟨hpc, hn, hh, rfl, hfl⟩
    | cons ts rest => cases ts <;> simp [stepDev, hfu, hpc, hn, hh, hm] at he
  · simp [stepDev, hfu, hpc, hf.cbs] at he

/-- **what an exhausted rebirth run looks like**: the node task is idle again, the node is birthed
in epoch `E` with the old bdSeq, the cooldown reference carries the clock reading of the command,
every birthable device is birthed for epoch `E` with an idle task and empty queues, and the
hand-overs were the NBIRTH followed by one DBIRTH per birthable device with consecutive numbers -/
theorem RB_exhausted {E bd : Nat} {fc : Option Nat} {s : St} {hs : List HO} (hf : Frame s) (hr : RB E bd fc s hs)
    (hx : Exhausted s) :
    ∃ names : List Nat, hs = nbirthHO bd :: dbirthsFrom 0 names ∧
      (∀ d, names.count d = s.devs.countP (fun x => x.name == d && x.birthable)) ∧
      s.node = .idle ∧ s.epoch = E ∧ s.bdseq = bd ∧ s.birthed = true ∧ s.seq = names.length % 256 ∧
      (∀ w, fc = some w → s.lastRebirthReq = w) ∧
      (∀ x ∈ s.devs, x.birthable = true → x.flag = true ∧ x.epoch = E ∧ x.pc = .idle ∧ x.nsq = [] ∧ x.hq = [] ∧ x.mq = []) := by
  cases hr with
  | start hn he hbd hh hd =>
    obtain ⟨c, -, -, -, hst⟩ := birthStart_step s .acc .rebirth fc hn
    have := hx .node 0
    simp [step, hst] at this
  | nbirth hn he hbd hb hseq hh hd =>
    have := hx .node 0
    simp [step, nbDone_true_step s .acc .rebirth fc hn] at this
  | devs names hn he hbd hb hl hseq hh hd hc =>
    have hstuck : ∀ x ∈ s.devs, x.pc = .done ∨
        (x.pc = .idle ∧ x.nsq = [] ∧ x.hq = [] ∧ x.mq = [] ∧ (x.enabled = true → x.flag = true ∧ x.epoch = E)) := by
      intro x hxm
      refine dev_stuck hf hxm (hd x hxm) ?_
      have := hx (.dev x.uid) 0
      cases hl : stepDev s x.uid .acc with
      | nil => rfl
      | cons r t => simp [step, hl] at this
    refine ⟨names, hh, ?_, hn, he, hbd, hb, hseq, hl, ?_⟩
    · intro d
      rw [hc d]
      apply List.countP_congr
      intro x hxm
      rcases hstuck x hxm with hdn | ⟨-, hnq, -⟩
      · simp [served, Dev.birthable, hdn]
      · simp [served, hnq]
    · intro x hxm hbx
      simp only [Dev.birthable, Bool.and_eq_true, bne_iff_ne, ne_eq] at hbx
      rcases hstuck x hxm with hdn | ⟨h1, h2, h3, h4, h5⟩
      · exact absurd hdn hbx.2
      · exact ⟨(h5 hbx.1.1).1, (h5 hbx.1.1).2, h1, h2, h3, h4⟩

/-- the names of the birthable devices only depend on the static part of the device list -/
theorem countP_birthable_stat {l l' : List Dev} (h : l'.map Dev.static = l.map Dev.static) (d : Nat) :
    l'.countP (fun x => x.name == d && x.birthable) = l.countP (fun x => x.name == d && x.birthable) := by
  have key : ∀ l : List Dev, l.countP (fun x => x.name == d && x.birthable) =
      (l.map Dev.static).countP (fun q => q.1 == d && (q.2.1 && q.2.2.1 && !q.2.2.2)) := by
    intro l
    rw [List.countP_map]
    apply List.countP_congr
    intro x _
    simp [Dev.static, Dev.birthable, bne]
  rw [key l', key l, h]

theorem perm_of_counts {names : List Nat} {l : List Dev}
    (h : ∀ d, names.count d = l.countP (fun x => x.name == d && x.birthable)) :
    names.Perm ((l.filter Dev.birthable).map (·.name)) := by
  rw [List.perm_iff_count]
  intro d
  rw [h d, List.count_eq_countP, List.countP_map, List.countP_filter]
  apply List.countP_congr
  intro x _
  simp [Function.comp]

/-! ### running to exhaustion -/

theorem isInternal_of_isAcc {a : Act} (h : a.isAcc = true) : a.isInternal = true := by
  cases a with
  | task t dec k => rfl
  | stim x => cases x <;> simp_all [Act.isAcc, Act.isInternal]

theorem isSched_of_isAcc {a : Act} (h : a.isAcc = true) : a.isSched = true := by
  cases a with
  | task t dec k =>
    have : dec = .acc := by simpa [Act.isAcc] using h
    subst this
    cases t <;> rfl
  | stim x => cases x <;> simp_all [Act.isAcc, Act.isSched]

/-- every state can be run to exhaustion by an accepting schedule (no livelock, by the measure) -/
theorem extend_to_exhausted (n : Nat) : ∀ s : St, termMeasure s ≤ n → P04.UidOk s.devs →
    ∃ more s' tr', (∀ a ∈ more, Act.isAcc a = true) ∧ runActs s more = some (s', tr') ∧ Exhausted s' := by
  induction n with
  | zero =>
    intro s hm hu
    by_cases hx : Exhausted s
    · exact ⟨[], s, [], by simp, rfl, hx⟩
    · simp only [Exhausted, Classical.not_forall] at hx
      obtain ⟨t, k, hk⟩ := hx
      obtain ⟨⟨s1, o1⟩, h1⟩ := Option.ne_none_iff_exists'.1 hk
      have := step_dec hu (mem_of_getElem? (r := (s1, o1)) h1)
      simp only at this
      omega
  | succ n ih =>
    intro s hm hu
    by_cases hx : Exhausted s
    · exact ⟨[], s, [], by simp, rfl, hx⟩
    · simp only [Exhausted, Classical.not_forall] at hx
      obtain ⟨t, k, hk⟩ := hx
      obtain ⟨⟨s1, o1⟩, h1⟩ := Option.ne_none_iff_exists'.1 hk
      have hlt := step_dec hu (mem_of_getElem? (r := (s1, o1)) h1)
      simp only at hlt
      have hr1 : runAct s (.task t .acc k) = some (s1, o1) := h1
      obtain ⟨more, s2, tr2, hall, hrun, hx2⟩ := ih s1 (by omega) (uidOk_runAct hr1 hu)
      refine ⟨.task t .acc k :: more, s2, o1 ++ tr2, ?_, ?_, hx2⟩
      · intro b hb
        simp only [List.mem_cons] at hb
        rcases hb with rfl | hb
        · rfl
        · exact hall b hb
      · simp [runActs, hr1, hrun]

/-! ### the start of a rebirth run; stale births; who calls `on_ncmd` -/

theorem RB_init {cd : Nat} {acts : List Act} {s : St} {tr : List Obs} {fc : Option Nat}
    (h : runActs (init cd) acts = some (s, tr)) (hs : RebirthStart s fc) :
    Frame s ∧ RB (s.epoch + 1) s.bdseq fc s [] :=
  ⟨⟨(Inv_reach h).busy_online (by rw [hs.node]; rfl), hs.cs, hs.rq, hs.mq, hs.inbox, hs.loop, hs.stop, hs.ucalls,
     hs.cbs, uidOk_reach h⟩,
   .start hs.node rfl rfl rfl hs.devs⟩

/-- `Device::birth` for a node birth that is no longer current hands nothing over -/
theorem devBirth_stale (s : St) (x : Dev) (bt : BT) (ep : Nat) (dec : Dec) (hne : ep ≠ s.epoch) :
    devBirth s x bt (some ep) dec = (s, []) := by
  have hb : (ep != s.epoch) = true := by simpa using hne
  have herr : ∃ e, nextSeqIn s (some ep) = .error e := by
    simp only [nextSeqIn, hb, if_true]
    repeat' split
    all_goals exact ⟨_, rfl⟩
  obtain ⟨e, he⟩ := herr
  unfold devBirth
  split
  · rfl
  split
  · rfl
  rw [he]

/-- a queued birth message of another node birth is dropped without a hand-over -/
theorem stale_birth_dropped (s : St) (u : Nat) (dec : Dec) (x : Dev) (bt : BT) (ep : Nat) (rest : List NS)
    (hx : findUid u s.devs = some x) (hpc : x.pc = .idle) (hn : x.nsq = .birth bt ep :: rest) (hne : ep ≠ s.epoch) :
    stepDev s u dec = [({ s with devs := setDev { x with nsq := rest } s.devs }, [])] := by
  simp only [stepDev, hx, hpc, hn]
  rw [devBirth_stale _ _ _ _ _ (by exact hne)]

/-- `on_ncmd` is only called by the node-task step that takes an NCMD **with** payload timestamp
off the queue -/
theorem cb_only_with_timestamp {s : St} {dec : Dec} {r : St × List Obs} (h : r ∈ stepNode s dec)
    (hc : Obs.cbNcmd ∈ r.2) : ∃ rb rest, s.msgQ = (rb, true) :: rest ∧ r.1.node = .inCb rb ∧ r.1.msgQ = rest := by
  simp only [stepNode, nodeBirthStart, handOver, callRes] at h
  repeat' split at h
  all_goals (try simp at h)
  all_goals (try subst h)
  all_goals (try simp at hc)
  all_goals (simp_all)

/-- no `on_ncmd` callback among the observations -/
def noNcmdCb : List Obs → Bool
  | [] => true
  | .cbNcmd :: _ => false
  | _ :: t => noNcmdCb t

theorem noNcmdCb_spec {o : List Obs} (h : noNcmdCb o = true) : Obs.cbNcmd ∉ o := by
  induction o with
  | nil => simp
  | cons a t ih => cases a <;> simp_all [noNcmdCb]

theorem stepLoop_noCb {s : St} {r : St × List Obs} (h : r ∈ stepLoop s) : noNcmdCb r.2 = true := by
  unfold stepLoop at h
  repeat' split at h
  all_goals (try simp at h)
  all_goals (try (rcases h with h | h))
  all_goals (try subst h)
  all_goals (try rfl)

theorem stepLoopTimeout_noCb {s : St} {r : St × List Obs} (h : r ∈ stepLoopTimeout s) : noNcmdCb r.2 = true := by
  unfold stepLoopTimeout at h
  repeat' split at h
  all_goals (try simp at h)
  all_goals (try subst h)
  all_goals (try rfl)

theorem stepDev_noCb {s : St} {u : Nat} {dec : Dec} {r : St × List Obs} (h : r ∈ stepDev s u dec) : noNcmdCb r.2 = true := by
  simp only [stepDev, devBirth, devDeath, handOver, callRes] at h
  repeat' split at h
  all_goals (try simp at h)
  all_goals (try subst h)
  all_goals (try rfl)

theorem stepUser_noCb {s : St} {u : Nat} {dec : Dec} {r : St × List Obs} (h : r ∈ stepUser s u dec) : noNcmdCb r.2 = true := by
  simp only [stepUser, handOver, callRes] at h
  repeat' split at h
  all_goals (try simp at h)
  all_goals (try subst h)
  all_goals (try rfl)
  all_goals (simp_all [noNcmdCb])

/-- only the node task calls `on_ncmd` -/
theorem cb_is_node {s : St} {t : Task} {dec : Dec} {r : St × List Obs} (h : r ∈ step s t dec)
    (hc : Obs.cbNcmd ∈ r.2) : t = .node := by
  cases t <;> simp only [step] at h
  · exact absurd hc (noNcmdCb_spec (stepLoop_noCb h))
  · exact absurd hc (noNcmdCb_spec (stepLoopTimeout_noCb h))
  · rfl
  · exact absurd hc (noNcmdCb_spec (stepDev_noCb h))
  · exact absurd hc (noNcmdCb_spec (stepUser_noCb h))

end P15
end Srad.Eon
