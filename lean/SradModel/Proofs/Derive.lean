/-
Helper lemmas for C17 (`Props/C17.lean`) about the derive interpreter (`Model/Derive.lean`).
Plan: every law is an induction over the field list, with the nested template as the second
induction hypothesis. The two loops of the generated `try_from` / `update_from_instance` look
every metric / parameter up by name in the WHOLE field list; the `*_frame_*` lemmas peel the
head field off such a loop when no entry addresses it (wire names are unique: `wf`), which
lets the induction walk fields, values and temporaries in lock step. `rtVal` / `patch` are the
closed forms of the rebuilt / patched struct; `locP`/`locM`/`stP`/`stM` the intermediate states
of the locals / temporaries after the parameter and the metric loop.
-/
import SradModel.Model.DeriveSpec
import SradModel.Proofs.Codec
namespace Srad.Derive
open Srad.Codec

@[simp] theorem WMs.isEmpty_nil : WMs.nil.isEmpty = true := rfl
@[simp] theorem WMs.isEmpty_val (n d v r) : (WMs.val n d v r).isEmpty = false := rfl
@[simp] theorem WMs.isEmpty_templ (n d i r v s p rest) : (WMs.templ n d i r v s p rest).isEmpty = false := rfl

theorem conv_toWire (k : SKind) (v : Option SV) (h : wtCell k v = true) :
    convScalar k (toWire k.ty v) = some v := by
  cases v with
  | none => simp [wtCell] at h; simp [toWire, convScalar, h]
  | some x => simp [wtCell] at h; simp [toWire, convScalar, scalar_roundtrip _ _ h]

theorem mkDiff_none (ref : Name) (ver : Option Name) (ms : WMs) (ps : List WP) :
    mkDiff ref ver ms ps = none ↔ (ps.isEmpty && ms.isEmpty) = true := by
  unfold mkDiff; split <;> simp_all

/-- both difference vectors are empty exactly when the values agree -/
theorem diff_empty_eq_agree (fs : Fields) (b a : Vals) :
    ((diffParams fs b a).isEmpty && (diffMetrics fs b a).isEmpty) = agree fs b a := by
  induction fs generalizing b a with
  | nil => simp [diffParams, diffMetrics, agree]
  | scalar w skip k d rest ih =>
    cases b <;> cases a <;> simp [diffParams, diffMetrics, agree]
    rename_i vb bs va as
    have := ih bs as
    cases skip <;> cases hk : k.isParam <;> cases he : optEq k.ty vb va <;>
      simp [← this]
  | nested w skip ref ver sub d rest ihs ih =>
    cases b <;> cases a <;> simp [diffParams, diffMetrics, agree]
    rename_i sb bs sa as
    have h1 := ih bs as
    have h2 := ihs sb sa
    cases skip
    · simp only [Bool.false_eq_true, ↓reduceIte, Bool.false_or]
      cases hm : mkDiff ref ver (diffMetrics sub sb sa) (diffParams sub sb sa) with
      | none =>
        have := (mkDiff_none _ _ _ _).1 hm
        rw [h2] at this
        simp [this, ← h1]
      | some d =>
        have : ¬ ((diffParams sub sb sa).isEmpty && (diffMetrics sub sb sa).isEmpty) = true := by
          intro hh; rw [(mkDiff_none ref ver _ _).2 hh] at hm; cases hm
        rw [h2] at this
        simp [this]
    · simp [← h1]

theorem mkDiff_eq_none_iff_agree (ref : Name) (ver : Option Name) (fs : Fields) (b a : Vals) :
    mkDiff ref ver (diffMetrics fs b a) (diffParams fs b a) = none ↔ agree fs b a = true := by
  rw [mkDiff_none, diff_empty_eq_agree]

/-! ### names and datatypes -/

theorem instMetrics_decls (fs : Fields) (a : Vals) (h : wt fs a = true) :
    (instMetrics fs a).decls = metricDecls fs := by
  induction fs generalizing a with
  | nil => cases a <;> simp [instMetrics, WMs.decls, metricDecls]
  | scalar w skip k d rest ih =>
    cases a with
    | s v vs =>
      simp only [wt, Bool.and_eq_true] at h
      simp only [instMetrics, metricDecls]
      split <;> simp [WMs.decls, ih vs h.2]
    | _ => simp [wt] at h
  | nested w skip ref ver sub d rest _ ih =>
    cases a with
    | nest sv vs =>
      simp only [wt, Bool.and_eq_true] at h
      simp only [instMetrics, metricDecls]
      split <;> simp [WMs.decls, ih vs h.2]
    | _ => simp [wt] at h

theorem instParams_decls (fs : Fields) (a : Vals) (h : wt fs a = true) :
    (instParams fs a).map WP.decl = paramDecls fs := by
  induction fs generalizing a with
  | nil => cases a <;> simp [instParams, paramDecls]
  | scalar w skip k d rest ih =>
    cases a with
    | s v vs =>
      simp only [wt, Bool.and_eq_true] at h
      simp only [instParams, paramDecls]
      split <;> simp [WP.decl, ih vs h.2]
    | _ => simp [wt] at h
  | nested w skip ref ver sub d rest _ ih =>
    cases a with
    | nest sv vs =>
      simp only [wt, Bool.and_eq_true] at h
      simp only [instParams, paramDecls]
      exact ih vs h.2
    | _ => simp [wt] at h

theorem defMetrics_decls (fs : Fields) : (instMetrics fs (defaults fs)).decls = metricDecls fs := by
  induction fs with
  | nil => simp [instMetrics, WMs.decls, metricDecls]
  | scalar w skip k d rest ih =>
    simp only [instMetrics, metricDecls, defaults]
    split <;> simp [WMs.decls, ih]
  | nested w skip ref ver sub d rest _ ih =>
    simp only [instMetrics, metricDecls, defaults]
    split <;> simp [WMs.decls, ih]

theorem defParams_decls (fs : Fields) :
    (instParams fs (defaults fs)).map WP.decl = paramDecls fs := by
  induction fs with
  | nil => simp [instParams, paramDecls]
  | scalar w skip k d rest ih =>
    simp only [instParams, paramDecls, defaults]
    split <;> simp [WP.decl, ih]
  | nested w skip ref ver sub d rest _ ih =>
    simp only [instParams, paramDecls, defaults]
    exact ih

/-! ### difference entries name differing fields -/

theorem diffMetrics_decls_sub (fs : Fields) (b a : Vals) :
    ∀ e ∈ (diffMetrics fs b a).decls, e ∈ metricDecls fs := by
  induction fs generalizing b a with
  | nil => simp [diffMetrics, WMs.decls]
  | scalar w skip k d rest ih =>
    cases b <;> cases a <;> simp [diffMetrics, WMs.decls]
    rename_i vb bs va as
    intro x y hxy
    have := ih bs as (x, y)
    simp only [metricDecls]
    split at hxy <;> split <;> simp_all [WMs.decls]
    rcases hxy with h | h
    · simp [h]
    · exact Or.inr (this h)
  | nested w skip ref ver sub d rest _ ih =>
    cases b <;> cases a <;> simp [diffMetrics, WMs.decls]
    rename_i sb bs sa as
    intro x y hxy
    have := ih bs as (x, y)
    simp only [metricDecls]
    cases skip
    · simp only [Bool.false_eq_true, ↓reduceIte] at hxy
      split at hxy
      · simp; exact Or.inr (this hxy)
      · simp [WMs.decls] at hxy ⊢
        rcases hxy with h | h
        · exact Or.inl h
        · exact Or.inr (this h)
    · simp at hxy ⊢; exact this hxy

theorem diffParams_decls_sub (fs : Fields) (b a : Vals) :
    ∀ p ∈ diffParams fs b a, p.decl ∈ paramDecls fs := by
  induction fs generalizing b a with
  | nil => simp [diffParams]
  | scalar w skip k d rest ih =>
    cases b <;> cases a <;> simp [diffParams]
    rename_i vb bs va as
    intro p hp
    have := ih bs as p
    simp only [paramDecls]
    split at hp <;> split <;> simp_all [WP.decl]
    rcases hp with h | h
    · subst h; simp
    · exact Or.inr (this h)
  | nested w skip ref ver sub d rest _ ih =>
    cases b <;> cases a <;> simp [diffParams]
    rename_i sb bs sa as
    intro p hp
    simp only [paramDecls]
    exact ih bs as p hp

theorem diffMetrics_name_iff (fs : Fields) (b a : Vals) (n : Name) :
    (∃ dt, (some n, dt) ∈ (diffMetrics fs b a).decls) ↔ metricDiffers fs b a n = true := by
  induction fs generalizing b a with
  | nil => simp [diffMetrics, WMs.decls, metricDiffers]
  | scalar w skip k d rest ih =>
    cases b <;> cases a <;> simp [diffMetrics, WMs.decls, metricDiffers]
    rename_i vb bs va as
    rw [← ih bs as]
    cases skip <;> cases hk : k.isParam <;> cases he : optEq k.ty vb va <;> simp [WMs.decls]
    constructor
    · rintro ⟨dt, h | h⟩
      · exact Or.inl h.1.symm
      · exact Or.inr ⟨dt, h⟩
    · rintro (h | ⟨dt, h⟩)
      · exact ⟨_, Or.inl ⟨h.symm, rfl⟩⟩
      · exact ⟨dt, Or.inr h⟩
  | nested w skip ref ver sub d rest _ ih =>
    cases b <;> cases a <;> simp [diffMetrics, WMs.decls, metricDiffers]
    rename_i sb bs sa as
    rw [← ih bs as]
    cases skip
    · simp only [Bool.false_eq_true, ↓reduceIte]
      cases hm : mkDiff ref ver (diffMetrics sub sb sa) (diffParams sub sb sa) with
      | none =>
        have hag := (mkDiff_eq_none_iff_agree _ _ _ _ _).1 hm
        simp [hag]
      | some d =>
        have hag : agree sub sb sa = false := by
          cases h : agree sub sb sa with
          | false => rfl
          | true => rw [(mkDiff_eq_none_iff_agree ref ver _ _ _).2 h] at hm; cases hm
        simp [hag, WMs.decls]
        constructor
        · rintro ⟨dt, h | h⟩
          · exact Or.inl h.1.symm
          · exact Or.inr ⟨dt, h⟩
        · rintro (h | ⟨dt, h⟩)
          · exact ⟨_, Or.inl ⟨h.symm, rfl⟩⟩
          · exact ⟨dt, Or.inr h⟩
    · simp

theorem diffParams_name_iff (fs : Fields) (b a : Vals) (n : Name) :
    (∃ p ∈ diffParams fs b a, p.name = some n) ↔ paramDiffers fs b a n = true := by
  induction fs generalizing b a with
  | nil => simp [diffParams, paramDiffers]
  | scalar w skip k d rest ih =>
    cases b <;> cases a <;> simp [diffParams, paramDiffers]
    rename_i vb bs va as
    rw [← ih bs as]
    cases skip <;> cases hk : k.isParam <;> cases he : optEq k.ty vb va <;> simp
  | nested w skip ref ver sub d rest _ ih =>
    cases b <;> cases a <;> simp [diffParams, paramDiffers]
    rename_i sb bs sa as
    exact ih bs as

/-! ### round trip: `try_from(template_instance(a))` -/

/-- the cells of the value line up with the fields -/
def shaped : Fields → Vals → Bool
  | .nil, .nil => true
  | .scalar _ _ _ _ rest, .s _ vs => shaped rest vs
  | .nested _ _ _ _ _ _ rest, .nest _ vs => shaped rest vs
  | _, _ => false

theorem shaped_of_wt (fs : Fields) (a : Vals) (h : wt fs a = true) : shaped fs a = true := by
  induction fs generalizing a with
  | nil => cases a <;> simp_all [wt, shaped]
  | scalar w skip k d rest ih => cases a <;> simp_all [wt, shaped]
  | nested w skip ref ver sub d rest _ ih => cases a <;> simp_all [wt, shaped]

theorem shaped_defaults (fs : Fields) : shaped fs (defaults fs) = true := by
  induction fs <;> simp_all [shaped, defaults]

/-- the struct rebuilt from the instance of `a`: every non-skipped field is `a`'s (a nested
template rebuilt the same way), every skipped field its default -/
def rtVal : Fields → Vals → Vals
  | .scalar _ skip _ d rest, .s va as => .s (if skip then d else va) (rtVal rest as)
  | .nested _ skip _ _ sub d rest, .nest sa as =>
    .nest (if skip then d else rtVal sub sa) (rtVal rest as)
  | _, _ => .nil

/-- locals after the parameter loop over `instParams fs a` -/
def locP : Fields → Vals → Vals → Vals
  | .scalar _ skip k _ rest, .s va as, .s vl ls =>
    .s (if !skip && k.isParam then va else vl) (locP rest as ls)
  | .nested _ _ _ _ _ _ rest, .nest _ as, .nest sl ls => .nest sl (locP rest as ls)
  | _, _, l => l

/-- locals after the metric loop over `instMetrics fs a` -/
def locM : Fields → Vals → Vals → Vals
  | .scalar _ skip k _ rest, .s va as, .s vl ls =>
    .s (if !skip && !k.isParam then va else vl) (locM rest as ls)
  | .nested _ skip _ _ sub _ rest, .nest sa as, .nest sl ls =>
    .nest (if !skip then rtVal sub sa else sl) (locM rest as ls)
  | _, _, l => l

theorem shaped_locP (fs : Fields) (a l : Vals) (ha : shaped fs a = true) (hl : shaped fs l = true) :
    shaped fs (locP fs a l) = true := by
  induction fs generalizing a l with
  | nil => cases a <;> cases l <;> simp_all [shaped, locP]
  | scalar w skip k d rest ih => cases a <;> cases l <;> simp_all [shaped, locP]
  | nested w skip ref ver sub d rest _ ih => cases a <;> cases l <;> simp_all [shaped, locP]

theorem locM_locP_defaults (fs : Fields) (a : Vals) (ha : shaped fs a = true) :
    locM fs a (locP fs a (defaults fs)) = rtVal fs a := by
  induction fs generalizing a with
  | nil => cases a <;> simp_all [shaped, locP, locM, defaults, rtVal]
  | scalar w skip k d rest ih =>
    cases a with
    | s v vs =>
      simp only [shaped] at ha
      simp only [defaults, locP, locM, rtVal, ih vs ha]
      cases skip <;> cases k.isParam <;> simp
    | _ => simp [shaped] at ha
  | nested w skip ref ver sub d rest _ ih =>
    cases a with
    | nest sv vs =>
      simp only [shaped] at ha
      simp only [defaults, locP, locM, rtVal, ih vs ha]
      cases skip <;> simp
    | _ => simp [shaped] at ha

theorem instParams_names (fs : Fields) (a : Vals) :
    ∀ p ∈ instParams fs a, ∃ n, p.name = some n ∧ n ∈ names fs := by
  induction fs generalizing a with
  | nil => simp [instParams]
  | scalar w skip k d rest ih =>
    cases a with
    | s v vs =>
      intro p hp
      simp only [instParams] at hp
      have hn : ∀ n, n ∈ names rest → n ∈ names (.scalar w skip k d rest) := by
        intro n h; simp only [names]; split <;> simp [h]
      split at hp
      · rename_i hc
        simp at hc
        rcases List.mem_cons.1 hp with h | h
        · subst h; exact ⟨w, rfl, by simp [names, hc.1]⟩
        · obtain ⟨n, h1, h2⟩ := ih vs p h
          exact ⟨n, h1, hn n h2⟩
      · obtain ⟨n, h1, h2⟩ := ih vs p hp
        exact ⟨n, h1, hn n h2⟩
    | _ => simp [instParams]
  | nested w skip ref ver sub d rest _ ih =>
    cases a with
    | nest sv vs =>
      intro p hp
      simp only [instParams] at hp
      obtain ⟨n, h1, h2⟩ := ih vs p hp
      refine ⟨n, h1, ?_⟩
      simp only [names]; split <;> simp [h2]
    | _ => simp [instParams]

theorem instMetrics_names (fs : Fields) (a : Vals) :
    ∀ e ∈ (instMetrics fs a).decls, ∃ n, e.1 = some n ∧ n ∈ names fs := by
  induction fs generalizing a with
  | nil => simp [instMetrics, WMs.decls]
  | scalar w skip k d rest ih =>
    cases a with
    | s v vs =>
      intro e he
      simp only [instMetrics] at he
      have hn : ∀ n, n ∈ names rest → n ∈ names (.scalar w skip k d rest) := by
        intro n h; simp only [names]; split <;> simp [h]
      split at he
      · rename_i hc
        simp at hc
        simp only [WMs.decls] at he
        rcases List.mem_cons.1 he with h | h
        · subst h; exact ⟨w, rfl, by simp [names, hc.1]⟩
        · obtain ⟨n, h1, h2⟩ := ih vs e h
          exact ⟨n, h1, hn n h2⟩
      · obtain ⟨n, h1, h2⟩ := ih vs e he
        exact ⟨n, h1, hn n h2⟩
    | _ => simp [instMetrics, WMs.decls]
  | nested w skip ref ver sub d rest _ ih =>
    cases a with
    | nest sv vs =>
      intro e he
      simp only [instMetrics] at he
      have hn : ∀ n, n ∈ names rest → n ∈ names (.nested w skip ref ver sub d rest) := by
        intro n h; simp only [names]; split <;> simp [h]
      split at he
      · rename_i hc
        simp at hc
        simp only [WMs.decls] at he
        rcases List.mem_cons.1 he with h | h
        · subst h; exact ⟨w, rfl, by simp [names, hc]⟩
        · obtain ⟨n, h1, h2⟩ := ih vs e h
          exact ⟨n, h1, hn n h2⟩
      · obtain ⟨n, h1, h2⟩ := ih vs e he
        exact ⟨n, h1, hn n h2⟩
    | _ => simp [instMetrics, WMs.decls]


theorem fromParams_frame_scalar (w : Name) (skip : Bool) (k : SKind) (d : Option SV) (rest : Fields)
    (v : Option SV) (ps : List WP)
    (h : skip = true ∨ k.isParam = false ∨ ∀ p ∈ ps, p.name ≠ some w) (vs : Vals) :
    fromParams (.scalar w skip k d rest) (.s v vs) ps =
      match fromParams rest vs ps with
      | .ok r => .ok (.s v r)
      | .error e => .error e := by
  induction ps generalizing vs with
  | nil => simp [fromParams]
  | cons p ps ih =>
    have h' : skip = true ∨ k.isParam = false ∨ ∀ p ∈ ps, p.name ≠ some w := by
      rcases h with h | h | h
      · exact Or.inl h
      · exact Or.inr (Or.inl h)
      · exact Or.inr (Or.inr fun q hq => h q (List.mem_cons_of_mem _ hq))
    simp only [fromParams]
    cases hn : p.name with
    | none => simp
    | some n =>
      have hc : (!skip && k.isParam && w == n) = false := by
        rcases h with h | h | h
        · simp [h]
        · simp [h]
        · have := h p (List.mem_cons_self ..)
          rw [hn] at this
          have : w ≠ n := fun e => this (by rw [e])
          simp [this]
      simp only [setParam, hc, Bool.false_eq_true, ↓reduceIte]
      cases hr : setParam rest vs n p.value with
      | error e => simp
      | ok r => simp [ih h' r]

theorem fromParams_frame_nested (w : Name) (skip : Bool) (ref : Name) (ver : Option Name)
    (sub : Fields) (d : Vals) (rest : Fields) (sv : Vals) (ps : List WP) (vs : Vals) :
    fromParams (.nested w skip ref ver sub d rest) (.nest sv vs) ps =
      match fromParams rest vs ps with
      | .ok r => .ok (.nest sv r)
      | .error e => .error e := by
  induction ps generalizing vs with
  | nil => simp [fromParams]
  | cons p ps ih =>
    simp only [fromParams]
    cases hn : p.name with
    | none => simp
    | some n =>
      simp only [setParam]
      cases hr : setParam rest vs n p.value with
      | error e => simp
      | ok r => simp [ih r]

theorem not_contains_ne {l : List Name} {w : Name} (h : l.contains w = false) :
    ∀ n ∈ l, n ≠ w := by
  intro n hn e
  subst e
  simp at h
  exact h hn

/-- parameter loop of `try_from` over the parameters of `a`'s own instance -/
theorem fromParams_inst (fs : Fields) (a loc : Vals) (hwf : wf fs = true) (hwt : wt fs a = true)
    (hl : shaped fs loc = true) :
    fromParams fs loc (instParams fs a) = .ok (locP fs a loc) := by
  induction fs generalizing a loc with
  | nil => cases a <;> simp_all [wt, instParams, fromParams, locP]
  | scalar w skip k d rest ih =>
    cases a with
    | s va as =>
      cases loc with
      | s vl ls =>
        simp only [wt, Bool.and_eq_true, Bool.or_eq_true] at hwt
        simp only [wf, Bool.and_eq_true, Bool.or_eq_true] at hwf
        simp only [shaped] at hl
        have hrest := ih as ls hwf.2 hwt.2 hl
        simp only [instParams, locP]
        by_cases hc : (!skip && k.isParam) = true
        · simp only [hc, ↓reduceIte]
          simp only [Bool.and_eq_true, Bool.not_eq_true'] at hc
          have hcell : wtCell k va = true := by
            rcases hwt.1 with h | h
            · simp [hc.1] at h
            · exact h
          have hnot : (names rest).contains w = false := by
            rcases hwf.1 with h | h
            · simp [hc.1] at h
            · simpa using h
          simp only [fromParams, setParam, hc.1, hc.2, Bool.not_false, Bool.true_and, beq_self_eq_true,
            ↓reduceIte, conv_toWire k va hcell]
          rw [fromParams_frame_scalar _ _ _ _ _ _ _ _ _, hrest]
          right; right
          intro p hp
          obtain ⟨n, h1, h2⟩ := instParams_names rest as p hp
          rw [h1]
          intro e
          cases e
          exact not_contains_ne hnot _ h2 rfl
        · simp only [hc, Bool.false_eq_true, ↓reduceIte]
          rw [fromParams_frame_scalar _ _ _ _ _ _ _ _ _, hrest]
          simp only [Bool.and_eq_true, Bool.not_eq_true', not_and, Bool.not_eq_true] at hc
          cases hs : skip
          · exact Or.inr (Or.inl (hc hs))
          · exact Or.inl rfl
      | _ => simp [shaped] at hl
    | _ => simp [wt] at hwt
  | nested w skip ref ver sub d rest _ ih =>
    cases a with
    | nest sa as =>
      cases loc with
      | nest sl ls =>
        simp only [wt, Bool.and_eq_true] at hwt
        simp only [wf, Bool.and_eq_true] at hwf
        simp only [shaped] at hl
        simp only [instParams, locP]
        rw [fromParams_frame_nested, ih as ls hwf.2 hwt.2 hl]
      | _ => simp [shaped] at hl
    | _ => simp [wt] at hwt


theorem fiMetric_scalar_skip (mv : MVal) (nf : Name → Option Name → Fields → Option Vals)
    (w : Name) (skip : Bool) (k : SKind) (d : Option SV) (rest : Fields) (v : Option SV) (vs : Vals)
    (n : Name) (hc : (!skip && !k.isParam && w == n) = false) :
    fiMetric mv nf (.scalar w skip k d rest) (.s v vs) n =
      match fiMetric mv nf rest vs n with
      | .ok r => .ok (.s v r)
      | .error e => .error e := by
  simp only [fiMetric, hc, Bool.false_eq_true, ↓reduceIte]
  rfl

theorem fiMetric_nested_skip (mv : MVal) (nf : Name → Option Name → Fields → Option Vals)
    (w : Name) (skip : Bool) (ref : Name) (ver : Option Name) (sub : Fields) (d : Vals)
    (rest : Fields) (sv : Vals) (vs : Vals)
    (n : Name) (hc : (!skip && w == n) = false) :
    fiMetric mv nf (.nested w skip ref ver sub d rest) (.nest sv vs) n =
      match fiMetric mv nf rest vs n with
      | .ok r => .ok (.nest sv r)
      | .error e => .error e := by
  simp only [fiMetric, hc, Bool.false_eq_true, ↓reduceIte]
  rfl

/-- the nested-field closure of the metric loop of `try_from` for a template-valued metric -/
def nestedFromOf (isDef : Option Bool) (ref ver : Option Name) (sub : WMs) (ps : List WP) :
    Name → Option Name → Fields → Option Vals :=
  fun fref fver ffs =>
    match instMarkers isDef ref with
    | none => none
    | some r =>
      match fromWith fref fver ffs r ver ps (fun loc0 => fromMetrics ffs loc0 sub) with
      | .ok x => some x
      | .error _ => none

theorem fromMetrics_val (fs : Fields) (loc : Vals) (n : Name) (dt : Option Nat) (v : Option PV)
    (rest : WMs) :
    fromMetrics fs loc (.val (some n) dt v rest) =
      match fiMetric (.val v) (fun _ _ _ => none) fs loc n with
      | .ok loc' => fromMetrics fs loc' rest
      | .error e => .error e := by
  simp only [fromMetrics]
  rfl

theorem fromMetrics_templ (fs : Fields) (loc : Vals) (n : Name) (dt : Option Nat)
    (isDef : Option Bool) (ref ver : Option Name) (sub : WMs) (ps : List WP) (rest : WMs) :
    fromMetrics fs loc (.templ (some n) dt isDef ref ver sub ps rest) =
      match fiMetric .templ (nestedFromOf isDef ref ver sub ps) fs loc n with
      | .ok loc' => fromMetrics fs loc' rest
      | .error e => .error e := by
  simp only [fromMetrics]
  rfl

theorem fromMetrics_noname_val (fs : Fields) (loc : Vals) (dt : Option Nat) (v : Option PV)
    (rest : WMs) : fromMetrics fs loc (.val none dt v rest) = .error .invalidPayload := by
  simp only [fromMetrics]

theorem fromMetrics_noname_templ (fs : Fields) (loc : Vals) (dt : Option Nat)
    (isDef : Option Bool) (ref ver : Option Name) (sub : WMs) (ps : List WP) (rest : WMs) :
    fromMetrics fs loc (.templ none dt isDef ref ver sub ps rest) = .error .invalidPayload := by
  simp only [fromMetrics]

theorem fromMetrics_frame_scalar (w : Name) (skip : Bool) (k : SKind) (d : Option SV) (rest : Fields)
    (v : Option SV) (ms : WMs)
    (h : skip = true ∨ k.isParam = true ∨ ∀ e ∈ ms.decls, e.1 ≠ some w) (vs : Vals) :
    fromMetrics (.scalar w skip k d rest) (.s v vs) ms =
      match fromMetrics rest vs ms with
      | .ok r => .ok (.s v r)
      | .error e => .error e := by
  induction ms generalizing vs with
  | nil => simp [fromMetrics]
  | val name dt pv tail ih =>
    have h' : skip = true ∨ k.isParam = true ∨ ∀ e ∈ tail.decls, e.1 ≠ some w := by
      rcases h with h | h | h
      · exact Or.inl h
      · exact Or.inr (Or.inl h)
      · exact Or.inr (Or.inr fun q hq => h q (by simp [WMs.decls, hq]))
    cases name with
    | none => simp [fromMetrics_noname_val]
    | some n =>
      have hc : (!skip && !k.isParam && w == n) = false := by
        rcases h with h | h | h
        · simp [h]
        · simp [h]
        · have := h (some n, dt) (by simp [WMs.decls])
          have : w ≠ n := fun e => this (by rw [e])
          simp [this]
      rw [fromMetrics_val, fromMetrics_val, fiMetric_scalar_skip _ _ _ _ _ _ _ _ _ _ hc]
      cases hr : fiMetric (.val pv) (fun _ _ _ => none) rest vs n with
      | error e => rfl
      | ok r => exact ih h' r
  | templ name dt isDef ref ver sub ps tail _ ih =>
    have h' : skip = true ∨ k.isParam = true ∨ ∀ e ∈ tail.decls, e.1 ≠ some w := by
      rcases h with h | h | h
      · exact Or.inl h
      · exact Or.inr (Or.inl h)
      · exact Or.inr (Or.inr fun q hq => h q (by simp [WMs.decls, hq]))
    cases name with
    | none => simp [fromMetrics_noname_templ]
    | some n =>
      have hc : (!skip && !k.isParam && w == n) = false := by
        rcases h with h | h | h
        · simp [h]
        · simp [h]
        · have := h (some n, dt) (by simp [WMs.decls])
          have : w ≠ n := fun e => this (by rw [e])
          simp [this]
      rw [fromMetrics_templ, fromMetrics_templ, fiMetric_scalar_skip _ _ _ _ _ _ _ _ _ _ hc]
      cases hr : fiMetric .templ (nestedFromOf isDef ref ver sub ps) rest vs n with
      | error e => rfl
      | ok r => exact ih h' r

theorem fromMetrics_frame_nested (w : Name) (skip : Bool) (ref : Name) (ver : Option Name)
    (sub : Fields) (d : Vals) (rest : Fields) (sv : Vals) (ms : WMs)
    (h : skip = true ∨ ∀ e ∈ ms.decls, e.1 ≠ some w) (vs : Vals) :
    fromMetrics (.nested w skip ref ver sub d rest) (.nest sv vs) ms =
      match fromMetrics rest vs ms with
      | .ok r => .ok (.nest sv r)
      | .error e => .error e := by
  induction ms generalizing vs with
  | nil => simp [fromMetrics]
  | val name dt pv tail ih =>
    have h' : skip = true ∨ ∀ e ∈ tail.decls, e.1 ≠ some w := by
      rcases h with h | h
      · exact Or.inl h
      · exact Or.inr fun q hq => h q (by simp [WMs.decls, hq])
    cases name with
    | none => simp [fromMetrics_noname_val]
    | some n =>
      have hc : (!skip && w == n) = false := by
        rcases h with h | h
        · simp [h]
        · have := h (some n, dt) (by simp [WMs.decls])
          have : w ≠ n := fun e => this (by rw [e])
          simp [this]
      rw [fromMetrics_val, fromMetrics_val, fiMetric_nested_skip _ _ _ _ _ _ _ _ _ _ _ _ hc]
      cases hr : fiMetric (.val pv) (fun _ _ _ => none) rest vs n with
      | error e => rfl
      | ok r => exact ih h' r
  | templ name dt isDef iref iver isub ps tail _ ih =>
    have h' : skip = true ∨ ∀ e ∈ tail.decls, e.1 ≠ some w := by
      rcases h with h | h
      · exact Or.inl h
      · exact Or.inr fun q hq => h q (by simp [WMs.decls, hq])
    cases name with
    | none => simp [fromMetrics_noname_templ]
    | some n =>
      have hc : (!skip && w == n) = false := by
        rcases h with h | h
        · simp [h]
        · have := h (some n, dt) (by simp [WMs.decls])
          have : w ≠ n := fun e => this (by rw [e])
          simp [this]
      rw [fromMetrics_templ, fromMetrics_templ, fiMetric_nested_skip _ _ _ _ _ _ _ _ _ _ _ _ hc]
      cases hr : fiMetric .templ (nestedFromOf isDef iref iver isub ps) rest vs n with
      | error e => rfl
      | ok r => exact ih h' r

theorem fromWith_self (ref : Name) (ver : Option Name) (fs : Fields) (ps : List WP)
    (loop : Vals → Except TErr Vals) :
    fromWith ref ver fs ref ver ps loop =
      match fromParams fs (defaults fs) ps with
      | .error e => .error e
      | .ok loc => loop loc := by
  simp [fromWith]
  rfl

/-- metric loop of `try_from` over the metrics of `a`'s own instance -/
theorem fromMetrics_inst (fs : Fields) (a loc : Vals) (hwf : wf fs = true) (hwt : wt fs a = true)
    (hl : shaped fs loc = true) :
    fromMetrics fs loc (instMetrics fs a) = .ok (locM fs a loc) := by
  induction fs generalizing a loc with
  | nil => cases a <;> simp_all [wt, instMetrics, fromMetrics, locM]
  | scalar w skip k d rest ih =>
    cases a with
    | s va as =>
      cases loc with
      | s vl ls =>
        simp only [wt, Bool.and_eq_true, Bool.or_eq_true] at hwt
        simp only [wf, Bool.and_eq_true, Bool.or_eq_true] at hwf
        simp only [shaped] at hl
        have hrest := ih as ls hwf.2 hwt.2 hl
        simp only [instMetrics, locM]
        by_cases hc : (!skip && !k.isParam) = true
        · simp only [hc, ↓reduceIte]
          simp only [Bool.and_eq_true, Bool.not_eq_true'] at hc
          have hcell : wtCell k va = true := by
            rcases hwt.1 with h | h
            · simp [hc.1] at h
            · exact h
          have hnot : (names rest).contains w = false := by
            rcases hwf.1 with h | h
            · simp [hc.1] at h
            · simpa using h
          rw [fromMetrics_val]
          simp only [fiMetric, hc.1, hc.2, Bool.not_false, Bool.true_and, beq_self_eq_true,
            ↓reduceIte, convMetric, conv_toWire k va hcell]
          rw [fromMetrics_frame_scalar _ _ _ _ _ _ _ _ _, hrest]
          right; right
          intro e he
          obtain ⟨n, h1, h2⟩ := instMetrics_names rest as e he
          rw [h1]
          intro e
          cases e
          exact not_contains_ne hnot _ h2 rfl
        · simp only [hc, Bool.false_eq_true, ↓reduceIte]
          rw [fromMetrics_frame_scalar _ _ _ _ _ _ _ _ _, hrest]
          simp only [Bool.and_eq_true, Bool.not_eq_true', not_and, Bool.not_eq_false] at hc
          cases hs : skip
          · exact Or.inr (Or.inl (hc hs))
          · exact Or.inl rfl
      | _ => simp [shaped] at hl
    | _ => simp [wt] at hwt
  | nested w skip ref ver sub d rest ihs ih =>
    cases a with
    | nest sa as =>
      cases loc with
      | nest sl ls =>
        simp only [wt, Bool.and_eq_true, Bool.or_eq_true] at hwt
        simp only [wf, Bool.and_eq_true, Bool.or_eq_true] at hwf
        simp only [shaped] at hl
        have hrest := ih as ls hwf.2 hwt.2 hl
        simp only [instMetrics, locM]
        cases hs : skip
        · simp only [Bool.not_false, ↓reduceIte]
          have hsub : wt sub sa = true := by
            rcases hwt.1 with h | h
            · simp [hs] at h
            · exact h
          have hwfs : (names rest).contains w = false ∧ wf sub = true := by
            rcases hwf.1 with h | h
            · simp [hs] at h
            · simpa using h
          have hnf : nestedFromOf (some false) (some ref) ver (instMetrics sub sa) (instParams sub sa)
              ref ver sub = some (rtVal sub sa) := by
            simp only [nestedFromOf, instMarkers, fromWith_self,
              fromParams_inst sub sa (defaults sub) hwfs.2 hsub (shaped_defaults sub)]
            rw [ihs sa _ hwfs.2 hsub
              (shaped_locP sub sa _ (shaped_of_wt sub sa hsub) (shaped_defaults sub)),
              locM_locP_defaults sub sa (shaped_of_wt sub sa hsub)]
          rw [fromMetrics_templ]
          simp only [fiMetric, Bool.not_false, Bool.true_and, beq_self_eq_true, ↓reduceIte, hnf]
          rw [fromMetrics_frame_nested _ _ _ _ _ _ _ _ _ _, hrest]
          right
          intro e he
          obtain ⟨n, h1, h2⟩ := instMetrics_names rest as e he
          rw [h1]
          intro e
          cases e
          exact not_contains_ne hwfs.1 _ h2 rfl
        · simp only [Bool.not_true, Bool.false_eq_true, ↓reduceIte]
          rw [fromMetrics_frame_nested _ _ _ _ _ _ _ _ _ _, hrest]
          exact Or.inl rfl
      | _ => simp [shaped] at hl
    | _ => simp [wt] at hwt

theorem same_rtVal (fs : Fields) (a : Vals) (hwt : wt fs a = true) : same fs a (rtVal fs a) = true := by
  induction fs generalizing a with
  | nil => cases a <;> simp_all [wt, same, rtVal]
  | scalar w skip k d rest ih =>
    cases a with
    | s va as =>
      simp only [wt, Bool.and_eq_true] at hwt
      simp only [rtVal, same, ih as hwt.2]
      cases skip <;> simp
    | _ => simp [wt] at hwt
  | nested w skip ref ver sub d rest ihs ih =>
    cases a with
    | nest sa as =>
      simp only [wt, Bool.and_eq_true, Bool.or_eq_true] at hwt
      simp only [rtVal, same, ih as hwt.2]
      cases hs : skip
      · have : wt sub sa = true := by
          rcases hwt.1 with h | h
          · simp [hs] at h
          · exact h
        simp [ihs sa this]
      · simp
    | _ => simp [wt] at hwt

/-- round trip: the struct rebuilt from `a`'s own instance -/
theorem fromInstance_instanceOf (σ : Schema) (a : Vals) (hwf : wf σ.fields = true)
    (hwt : wt σ.fields a = true) :
    fromInstance σ (instanceOf σ a) = .ok (rtVal σ.fields a) := by
  simp only [fromInstance, instanceOf, fromWith_self,
    fromParams_inst σ.fields a (defaults σ.fields) hwf hwt (shaped_defaults _)]
  rw [fromMetrics_inst σ.fields a _ hwf hwt
    (shaped_locP _ a _ (shaped_of_wt _ a hwt) (shaped_defaults _)),
    locM_locP_defaults _ a (shaped_of_wt _ a hwt)]


/-! ### patch law: `a.update_from_instance(b.template_instance_from_difference(&a))` -/

theorem metricDecls_names (fs : Fields) :
    ∀ e ∈ metricDecls fs, ∃ n, e.1 = some n ∧ n ∈ names fs := by
  induction fs with
  | nil => simp [metricDecls]
  | scalar w skip k d rest ih =>
    intro e he
    simp only [metricDecls] at he
    have hn : ∀ n, n ∈ names rest → n ∈ names (.scalar w skip k d rest) := by
      intro n h; simp only [names]; split <;> simp [h]
    split at he
    · rename_i hc
      simp at hc
      rcases List.mem_cons.1 he with h | h
      · subst h; exact ⟨w, rfl, by simp [names, hc.1]⟩
      · obtain ⟨n, h1, h2⟩ := ih e h
        exact ⟨n, h1, hn n h2⟩
    · obtain ⟨n, h1, h2⟩ := ih e he
      exact ⟨n, h1, hn n h2⟩
  | nested w skip ref ver sub d rest _ ih =>
    intro e he
    simp only [metricDecls] at he
    have hn : ∀ n, n ∈ names rest → n ∈ names (.nested w skip ref ver sub d rest) := by
      intro n h; simp only [names]; split <;> simp [h]
    split at he
    · rename_i hc
      simp at hc
      rcases List.mem_cons.1 he with h | h
      · subst h; exact ⟨w, rfl, by simp [names, hc]⟩
      · obtain ⟨n, h1, h2⟩ := ih e h
        exact ⟨n, h1, hn n h2⟩
    · obtain ⟨n, h1, h2⟩ := ih e he
      exact ⟨n, h1, hn n h2⟩

theorem paramDecls_names (fs : Fields) :
    ∀ e ∈ paramDecls fs, ∃ n, e.1 = some n ∧ n ∈ names fs := by
  induction fs with
  | nil => simp [paramDecls]
  | scalar w skip k d rest ih =>
    intro e he
    simp only [paramDecls] at he
    have hn : ∀ n, n ∈ names rest → n ∈ names (.scalar w skip k d rest) := by
      intro n h; simp only [names]; split <;> simp [h]
    split at he
    · rename_i hc
      simp at hc
      rcases List.mem_cons.1 he with h | h
      · subst h; exact ⟨w, rfl, by simp [names, hc.1]⟩
      · obtain ⟨n, h1, h2⟩ := ih e h
        exact ⟨n, h1, hn n h2⟩
    · obtain ⟨n, h1, h2⟩ := ih e he
      exact ⟨n, h1, hn n h2⟩
  | nested w skip ref ver sub d rest _ ih =>
    intro e he
    simp only [paramDecls] at he
    obtain ⟨n, h1, h2⟩ := ih e he
    refine ⟨n, h1, ?_⟩
    simp only [names]; split <;> simp [h2]

theorem diffMetrics_ne (rest : Fields) (bs as : Vals) (w : Name)
    (hnot : (names rest).contains w = false) :
    ∀ e ∈ (diffMetrics rest bs as).decls, e.1 ≠ some w := by
  intro e he
  obtain ⟨n, h1, h2⟩ := metricDecls_names rest e (diffMetrics_decls_sub rest bs as e he)
  rw [h1]
  intro e
  cases e
  exact not_contains_ne hnot _ h2 rfl

theorem diffParams_ne (rest : Fields) (bs as : Vals) (w : Name)
    (hnot : (names rest).contains w = false) :
    ∀ p ∈ diffParams rest bs as, p.name ≠ some w := by
  intro p hp
  obtain ⟨n, h1, h2⟩ := paramDecls_names rest p.decl (diffParams_decls_sub rest bs as p hp)
  simp only [WP.decl] at h1
  rw [h1]
  intro e
  cases e
  exact not_contains_ne hnot _ h2 rfl

/-- the temporaries line up with the fields -/
def stShaped : Fields → List SCell → Bool
  | .nil, [] => true
  | .scalar _ _ _ _ rest, _ :: st => stShaped rest st
  | .nested _ _ _ _ _ _ rest, _ :: st => stShaped rest st
  | _, _ => false

theorem stShaped_init (fs : Fields) : stShaped fs (stageInit fs) = true := by
  induction fs <;> simp_all [stShaped, stageInit]

/-- what `a` becomes: every template field on which `b` differs is replaced by `b`'s (a nested
template patched recursively), everything else is kept -/
def patch : Fields → Vals → Vals → Vals
  | .scalar _ skip k _ rest, .s va as, .s vb bs =>
    .s (if !skip && !optEq k.ty vb va then vb else va) (patch rest as bs)
  | .nested _ skip _ _ sub _ rest, .nest sa as, .nest sb bs =>
    .nest (if !skip && !agree sub sb sa then patch sub sa sb else sa) (patch rest as bs)
  | _, a, _ => a

/-- temporaries after the parameter loop over `diffParams fs b a` -/
def stP : Fields → Vals → Vals → List SCell → List SCell
  | .scalar _ skip k _ rest, .s vb bs, .s va as, c :: st =>
    (if !skip && k.isParam && !optEq k.ty vb va then .s vb else c) :: stP rest bs as st
  | .nested _ _ _ _ _ _ rest, .nest _ bs, .nest _ as, c :: st => c :: stP rest bs as st
  | _, _, _, st => st

/-- temporaries after the metric loop over `diffMetrics fs b a` -/
def stM : Fields → Vals → Vals → List SCell → List SCell
  | .scalar _ skip k _ rest, .s vb bs, .s va as, c :: st =>
    (if !skip && !k.isParam && !optEq k.ty vb va then .s vb else c) :: stM rest bs as st
  | .nested _ skip _ _ sub _ rest, .nest sb bs, .nest sa as, c :: st =>
    (if !skip && !agree sub sb sa then .nest (patch sub sa sb) else c) :: stM rest bs as st
  | _, _, _, st => st

theorem stShaped_stP (fs : Fields) (b a : Vals) (st : List SCell) (h : stShaped fs st = true) :
    stShaped fs (stP fs b a st) = true := by
  induction fs generalizing b a st with
  | nil => cases b <;> cases a <;> cases st <;> simp_all [stShaped, stP]
  | scalar w skip k d rest ih =>
    cases st with
    | nil => simp [stShaped] at h
    | cons c st =>
      simp only [stShaped] at h
      cases b <;> cases a <;> simp_all [stShaped, stP]
  | nested w skip ref ver sub d rest _ ih =>
    cases st with
    | nil => simp [stShaped] at h
    | cons c st =>
      simp only [stShaped] at h
      cases b <;> cases a <;> simp_all [stShaped, stP]

theorem stageParams_frame_scalar (w : Name) (skip : Bool) (k : SKind) (d : Option SV) (rest : Fields)
    (c : SCell) (ps : List WP)
    (h : skip = true ∨ k.isParam = false ∨ ∀ p ∈ ps, p.name ≠ some w) (st : List SCell) :
    stageParams (.scalar w skip k d rest) (c :: st) ps =
      match stageParams rest st ps with
      | .ok r => .ok (c :: r)
      | .error e => .error e := by
  induction ps generalizing st with
  | nil => simp [stageParams]
  | cons p ps ih =>
    have h' : skip = true ∨ k.isParam = false ∨ ∀ p ∈ ps, p.name ≠ some w := by
      rcases h with h | h | h
      · exact Or.inl h
      · exact Or.inr (Or.inl h)
      · exact Or.inr (Or.inr fun q hq => h q (List.mem_cons_of_mem _ hq))
    simp only [stageParams]
    cases hn : p.name with
    | none => simp
    | some n =>
      have hc : (!skip && k.isParam && w == n) = false := by
        rcases h with h | h | h
        · simp [h]
        · simp [h]
        · have := h p (List.mem_cons_self ..)
          rw [hn] at this
          have : w ≠ n := fun e => this (by rw [e])
          simp [this]
      simp only [stageParam, hc, Bool.false_eq_true, ↓reduceIte]
      cases hr : stageParam rest st n p.value with
      | error e => simp
      | ok r => simp [ih h' r]

theorem stageParams_frame_nested (w : Name) (skip : Bool) (ref : Name) (ver : Option Name)
    (sub : Fields) (d : Vals) (rest : Fields) (c : SCell) (ps : List WP) (st : List SCell) :
    stageParams (.nested w skip ref ver sub d rest) (c :: st) ps =
      match stageParams rest st ps with
      | .ok r => .ok (c :: r)
      | .error e => .error e := by
  induction ps generalizing st with
  | nil => simp [stageParams]
  | cons p ps ih =>
    simp only [stageParams]
    cases hn : p.name with
    | none => simp
    | some n =>
      simp only [stageParam]
      cases hr : stageParam rest st n p.value with
      | error e => simp
      | ok r => simp [ih r]

/-- parameter loop of `update_from_instance` over the parameters of the difference -/
theorem stageParams_diff (fs : Fields) (b a : Vals) (st : List SCell) (hwf : wf fs = true)
    (hb : wt fs b = true) (ha : wt fs a = true) (hst : stShaped fs st = true) :
    stageParams fs st (diffParams fs b a) = .ok (stP fs b a st) := by
  induction fs generalizing b a st with
  | nil => cases b <;> cases a <;> simp_all [wt, diffParams, stageParams, stP]
  | scalar w skip k d rest ih =>
    cases b with
    | s vb bs =>
      cases a with
      | s va as =>
        cases st with
        | cons c st =>
          simp only [wt, Bool.and_eq_true, Bool.or_eq_true] at hb ha
          simp only [wf, Bool.and_eq_true, Bool.or_eq_true] at hwf
          simp only [stShaped] at hst
          have hrest := ih bs as st hwf.2 hb.2 ha.2 hst
          simp only [diffParams, stP]
          by_cases hc : (!skip && k.isParam && !optEq k.ty vb va) = true
          · simp only [hc, ↓reduceIte]
            simp only [Bool.and_eq_true, Bool.not_eq_true'] at hc
            have hcell : wtCell k vb = true := by
              rcases hb.1 with h | h
              · simp [hc.1.1] at h
              · exact h
            have hnot : (names rest).contains w = false := by
              rcases hwf.1 with h | h
              · simp [hc.1.1] at h
              · simpa using h
            simp only [stageParams, stageParam, hc.1.1, hc.1.2, Bool.not_false, Bool.true_and,
              beq_self_eq_true, ↓reduceIte, conv_toWire k vb hcell]
            rw [stageParams_frame_scalar _ _ _ _ _ _ _ _ _, hrest]
            exact Or.inr (Or.inr (diffParams_ne rest bs as w hnot))
          · simp only [hc, Bool.false_eq_true, ↓reduceIte]
            have hc' : skip = true ∨ k.isParam = false ∨ optEq k.ty vb va = true := by
              cases hs : skip <;> cases hk : k.isParam <;> cases he : optEq k.ty vb va <;> simp_all
            rcases hc' with h | h | h
            · rw [stageParams_frame_scalar _ _ _ _ _ _ _ (Or.inl h) _, hrest]
            · rw [stageParams_frame_scalar _ _ _ _ _ _ _ (Or.inr (Or.inl h)) _, hrest]
            · cases hs : skip
              · have hnot : (names rest).contains w = false := by
                  rcases hwf.1 with h | h
                  · simp [hs] at h
                  · simpa using h
                rw [stageParams_frame_scalar _ _ _ _ _ _ _
                  (Or.inr (Or.inr (diffParams_ne rest bs as w hnot))) _, hrest]
              · rw [stageParams_frame_scalar _ _ _ _ _ _ _ (Or.inl rfl) _, hrest]
        | nil => simp [stShaped] at hst
      | _ => simp [wt] at ha
    | _ => simp [wt] at hb
  | nested w skip ref ver sub d rest _ ih =>
    cases b with
    | nest sb bs =>
      cases a with
      | nest sa as =>
        cases st with
        | cons c st =>
          simp only [wt, Bool.and_eq_true] at hb ha
          simp only [wf, Bool.and_eq_true] at hwf
          simp only [stShaped] at hst
          simp only [diffParams, stP]
          rw [stageParams_frame_nested, ih bs as st hwf.2 hb.2 ha.2 hst]
        | nil => simp [stShaped] at hst
      | _ => simp [wt] at ha
    | _ => simp [wt] at hb


/-- nested-field closure of the metric loop of `update_from_instance`, metric without a
template value -/
def nestedUpdVal (v : Option PV) : Name → Option Name → Fields → Vals → Option Vals :=
  fun _ _ _ tmp => match v with | none => some tmp | some _ => none

/-- … and for a template-valued metric -/
def nestedUpdOf (isDef : Option Bool) (ref ver : Option Name) (sub : WMs) (ps : List WP) :
    Name → Option Name → Fields → Vals → Option Vals :=
  fun fref fver ffs tmp =>
    match instMarkers isDef ref with
    | none => none
    | some r =>
      match updateWith fref fver ffs tmp r ver ps (fun st0 => stageMetrics ffs tmp st0 sub) with
      | .ok x => some x
      | .error _ => none

theorem stageMetrics_val (fs : Fields) (self : Vals) (st : List SCell) (n : Name) (dt : Option Nat)
    (v : Option PV) (rest : WMs) :
    stageMetrics fs self st (.val (some n) dt v rest) =
      match armMetric (.val v) (nestedUpdVal v) fs self st n with
      | .ok st' => stageMetrics fs self st' rest
      | .error e => .error e := by
  simp only [stageMetrics]
  rfl

theorem stageMetrics_templ (fs : Fields) (self : Vals) (st : List SCell) (n : Name)
    (dt : Option Nat) (isDef : Option Bool) (ref ver : Option Name) (sub : WMs) (ps : List WP)
    (rest : WMs) :
    stageMetrics fs self st (.templ (some n) dt isDef ref ver sub ps rest) =
      match armMetric .templ (nestedUpdOf isDef ref ver sub ps) fs self st n with
      | .ok st' => stageMetrics fs self st' rest
      | .error e => .error e := by
  simp only [stageMetrics]
  rfl

theorem stageMetrics_noname_val (fs : Fields) (self : Vals) (st : List SCell) (dt : Option Nat)
    (v : Option PV) (rest : WMs) :
    stageMetrics fs self st (.val none dt v rest) = .error .invalidPayload := by
  simp only [stageMetrics]

theorem stageMetrics_noname_templ (fs : Fields) (self : Vals) (st : List SCell) (dt : Option Nat)
    (isDef : Option Bool) (ref ver : Option Name) (sub : WMs) (ps : List WP) (rest : WMs) :
    stageMetrics fs self st (.templ none dt isDef ref ver sub ps rest) = .error .invalidPayload := by
  simp only [stageMetrics]

theorem armMetric_scalar_skip (mv : MVal) (nu : Name → Option Name → Fields → Vals → Option Vals)
    (w : Name) (skip : Bool) (k : SKind) (d : Option SV) (rest : Fields) (v : Option SV) (vs : Vals)
    (c : SCell) (st : List SCell)
    (n : Name) (hc : (!skip && !k.isParam && w == n) = false) :
    armMetric mv nu (.scalar w skip k d rest) (.s v vs) (c :: st) n =
      match armMetric mv nu rest vs st n with
      | .ok r => .ok (c :: r)
      | .error e => .error e := by
  simp only [armMetric, hc, Bool.false_eq_true, ↓reduceIte]
  rfl

theorem armMetric_nested_skip (mv : MVal) (nu : Name → Option Name → Fields → Vals → Option Vals)
    (w : Name) (skip : Bool) (ref : Name) (ver : Option Name) (sub : Fields) (d : Vals)
    (rest : Fields) (sv : Vals) (vs : Vals) (c : SCell) (st : List SCell)
    (n : Name) (hc : (!skip && w == n) = false) :
    armMetric mv nu (.nested w skip ref ver sub d rest) (.nest sv vs) (c :: st) n =
      match armMetric mv nu rest vs st n with
      | .ok r => .ok (c :: r)
      | .error e => .error e := by
  simp only [armMetric, hc, Bool.false_eq_true, ↓reduceIte]
  rfl

theorem stageMetrics_frame_scalar (w : Name) (skip : Bool) (k : SKind) (d : Option SV)
    (rest : Fields) (v : Option SV) (vs : Vals) (c : SCell) (ms : WMs)
    (h : skip = true ∨ k.isParam = true ∨ ∀ e ∈ ms.decls, e.1 ≠ some w) (st : List SCell) :
    stageMetrics (.scalar w skip k d rest) (.s v vs) (c :: st) ms =
      match stageMetrics rest vs st ms with
      | .ok r => .ok (c :: r)
      | .error e => .error e := by
  induction ms generalizing st with
  | nil => simp [stageMetrics]
  | val name dt pv tail ih =>
    have h' : skip = true ∨ k.isParam = true ∨ ∀ e ∈ tail.decls, e.1 ≠ some w := by
      rcases h with h | h | h
      · exact Or.inl h
      · exact Or.inr (Or.inl h)
      · exact Or.inr (Or.inr fun q hq => h q (by simp [WMs.decls, hq]))
    cases name with
    | none => simp [stageMetrics_noname_val]
    | some n =>
      have hc : (!skip && !k.isParam && w == n) = false := by
        rcases h with h | h | h
        · simp [h]
        · simp [h]
        · have := h (some n, dt) (by simp [WMs.decls])
          have : w ≠ n := fun e => this (by rw [e])
          simp [this]
      rw [stageMetrics_val, stageMetrics_val, armMetric_scalar_skip _ _ _ _ _ _ _ _ _ _ _ _ hc]
      cases hr : armMetric (.val pv) (nestedUpdVal pv) rest vs st n with
      | error e => rfl
      | ok r => exact ih h' r
  | templ name dt isDef ref ver sub ps tail _ ih =>
    have h' : skip = true ∨ k.isParam = true ∨ ∀ e ∈ tail.decls, e.1 ≠ some w := by
      rcases h with h | h | h
      · exact Or.inl h
      · exact Or.inr (Or.inl h)
      · exact Or.inr (Or.inr fun q hq => h q (by simp [WMs.decls, hq]))
    cases name with
    | none => simp [stageMetrics_noname_templ]
    | some n =>
      have hc : (!skip && !k.isParam && w == n) = false := by
        rcases h with h | h | h
        · simp [h]
        · simp [h]
        · have := h (some n, dt) (by simp [WMs.decls])
          have : w ≠ n := fun e => this (by rw [e])
          simp [this]
      rw [stageMetrics_templ, stageMetrics_templ, armMetric_scalar_skip _ _ _ _ _ _ _ _ _ _ _ _ hc]
      cases hr : armMetric .templ (nestedUpdOf isDef ref ver sub ps) rest vs st n with
      | error e => rfl
      | ok r => exact ih h' r

theorem stageMetrics_frame_nested (w : Name) (skip : Bool) (ref : Name) (ver : Option Name)
    (sub : Fields) (d : Vals) (rest : Fields) (sv : Vals) (vs : Vals) (c : SCell) (ms : WMs)
    (h : skip = true ∨ ∀ e ∈ ms.decls, e.1 ≠ some w) (st : List SCell) :
    stageMetrics (.nested w skip ref ver sub d rest) (.nest sv vs) (c :: st) ms =
      match stageMetrics rest vs st ms with
      | .ok r => .ok (c :: r)
      | .error e => .error e := by
  induction ms generalizing st with
  | nil => simp [stageMetrics]
  | val name dt pv tail ih =>
    have h' : skip = true ∨ ∀ e ∈ tail.decls, e.1 ≠ some w := by
      rcases h with h | h
      · exact Or.inl h
      · exact Or.inr fun q hq => h q (by simp [WMs.decls, hq])
    cases name with
    | none => simp [stageMetrics_noname_val]
    | some n =>
      have hc : (!skip && w == n) = false := by
        rcases h with h | h
        · simp [h]
        · have := h (some n, dt) (by simp [WMs.decls])
          have : w ≠ n := fun e => this (by rw [e])
          simp [this]
      rw [stageMetrics_val, stageMetrics_val, armMetric_nested_skip _ _ _ _ _ _ _ _ _ _ _ _ _ _ hc]
      cases hr : armMetric (.val pv) (nestedUpdVal pv) rest vs st n with
      | error e => rfl
      | ok r => exact ih h' r
  | templ name dt isDef iref iver isub ps tail _ ih =>
    have h' : skip = true ∨ ∀ e ∈ tail.decls, e.1 ≠ some w := by
      rcases h with h | h
      · exact Or.inl h
      · exact Or.inr fun q hq => h q (by simp [WMs.decls, hq])
    cases name with
    | none => simp [stageMetrics_noname_templ]
    | some n =>
      have hc : (!skip && w == n) = false := by
        rcases h with h | h
        · simp [h]
        · have := h (some n, dt) (by simp [WMs.decls])
          have : w ≠ n := fun e => this (by rw [e])
          simp [this]
      rw [stageMetrics_templ, stageMetrics_templ, armMetric_nested_skip _ _ _ _ _ _ _ _ _ _ _ _ _ _ hc]
      cases hr : armMetric .templ (nestedUpdOf isDef iref iver isub ps) rest vs st n with
      | error e => rfl
      | ok r => exact ih h' r


theorem updateWith_self (ref : Name) (ver : Option Name) (fs : Fields) (self : Vals) (ps : List WP)
    (loop : List SCell → Except TErr (List SCell)) :
    updateWith ref ver fs self ref ver ps loop =
      match stageParams fs (stageInit fs) ps with
      | .error e => .error e
      | .ok st1 =>
        match loop st1 with
        | .error e => .error e
        | .ok st2 => .ok (commit self st2) := by
  simp [updateWith]
  rfl

theorem mkDiff_some (ref : Name) (ver : Option Name) (ms : WMs) (ps : List WP) (d : TInst)
    (h : mkDiff ref ver ms ps = some d) : d = { ref := ref, ver := ver, metrics := ms, params := ps } := by
  unfold mkDiff at h
  split at h
  · cases h
  · cases h; rfl

theorem commit_patch (fs : Fields) (a b : Vals) (ha : shaped fs a = true) (hb : shaped fs b = true) :
    commit a (stM fs b a (stP fs b a (stageInit fs))) = patch fs a b := by
  induction fs generalizing a b with
  | nil => cases a <;> cases b <;> simp_all [shaped, commit, patch]
  | scalar w skip k d rest ih =>
    cases a with
    | s va as =>
      cases b with
      | s vb bs =>
        simp only [shaped] at ha hb
        simp only [stageInit, stP, stM, commit, patch, ih as bs ha hb]
        cases skip <;> cases k.isParam <;> cases optEq k.ty vb va <;> simp
      | _ => simp [shaped] at hb
    | _ => simp [shaped] at ha
  | nested w skip ref ver sub d rest _ ih =>
    cases a with
    | nest sa as =>
      cases b with
      | nest sb bs =>
        simp only [shaped] at ha hb
        simp only [stageInit, stP, stM, commit, patch, ih as bs ha hb]
        cases skip <;> cases agree sub sb sa <;> simp
      | _ => simp [shaped] at hb
    | _ => simp [shaped] at ha

/-- metric loop of `update_from_instance` over the metrics of the difference -/
theorem stageMetrics_diff (fs : Fields) (b a : Vals) (st : List SCell) (hwf : wf fs = true)
    (hb : wt fs b = true) (ha : wt fs a = true) (hst : stShaped fs st = true) :
    stageMetrics fs a st (diffMetrics fs b a) = .ok (stM fs b a st) := by
  induction fs generalizing b a st with
  | nil => cases b <;> cases a <;> simp_all [wt, diffMetrics, stageMetrics, stM]
  | scalar w skip k d rest ih =>
    cases b with
    | s vb bs =>
      cases a with
      | s va as =>
        cases st with
        | cons c st =>
          simp only [wt, Bool.and_eq_true, Bool.or_eq_true] at hb ha
          simp only [wf, Bool.and_eq_true, Bool.or_eq_true] at hwf
          simp only [stShaped] at hst
          have hrest := ih bs as st hwf.2 hb.2 ha.2 hst
          simp only [diffMetrics, stM]
          by_cases hc : (!skip && !k.isParam && !optEq k.ty vb va) = true
          · simp only [hc, ↓reduceIte]
            simp only [Bool.and_eq_true, Bool.not_eq_true'] at hc
            have hcell : wtCell k vb = true := by
              rcases hb.1 with h | h
              · simp [hc.1.1] at h
              · exact h
            have hnot : (names rest).contains w = false := by
              rcases hwf.1 with h | h
              · simp [hc.1.1] at h
              · simpa using h
            rw [stageMetrics_val]
            simp only [armMetric, hc.1.1, hc.1.2, Bool.not_false, Bool.true_and,
              beq_self_eq_true, ↓reduceIte, convMetric, conv_toWire k vb hcell]
            rw [stageMetrics_frame_scalar _ _ _ _ _ _ _ _ _ _ _, hrest]
            exact Or.inr (Or.inr (diffMetrics_ne rest bs as w hnot))
          · simp only [hc, Bool.false_eq_true, ↓reduceIte]
            have hc' : skip = true ∨ k.isParam = true ∨ optEq k.ty vb va = true := by
              cases hs : skip <;> cases hk : k.isParam <;> cases he : optEq k.ty vb va <;> simp_all
            rcases hc' with h | h | h
            · rw [stageMetrics_frame_scalar _ _ _ _ _ _ _ _ _ (Or.inl h) _, hrest]
            · rw [stageMetrics_frame_scalar _ _ _ _ _ _ _ _ _ (Or.inr (Or.inl h)) _, hrest]
            · cases hs : skip
              · have hnot : (names rest).contains w = false := by
                  rcases hwf.1 with h | h
                  · simp [hs] at h
                  · simpa using h
                rw [stageMetrics_frame_scalar _ _ _ _ _ _ _ _ _
                  (Or.inr (Or.inr (diffMetrics_ne rest bs as w hnot))) _, hrest]
              · rw [stageMetrics_frame_scalar _ _ _ _ _ _ _ _ _ (Or.inl rfl) _, hrest]
        | nil => simp [stShaped] at hst
      | _ => simp [wt] at ha
    | _ => simp [wt] at hb
  | nested w skip ref ver sub d rest ihs ih =>
    cases b with
    | nest sb bs =>
      cases a with
      | nest sa as =>
        cases st with
        | cons c st =>
          simp only [wt, Bool.and_eq_true, Bool.or_eq_true] at hb ha
          simp only [wf, Bool.and_eq_true, Bool.or_eq_true] at hwf
          simp only [stShaped] at hst
          have hrest := ih bs as st hwf.2 hb.2 ha.2 hst
          simp only [diffMetrics, stM]
          cases hs : skip
          · simp only [Bool.false_eq_true, ↓reduceIte, Bool.not_false, Bool.true_and]
            have hsb : wt sub sb = true := by
              rcases hb.1 with h | h
              · simp [hs] at h
              · exact h
            have hsa : wt sub sa = true := by
              rcases ha.1 with h | h
              · simp [hs] at h
              · exact h
            have hwfs : (names rest).contains w = false ∧ wf sub = true := by
              rcases hwf.1 with h | h
              · simp [hs] at h
              · simpa using h
            have hframe := stageMetrics_frame_nested w false ref ver sub d rest sa as
            cases hm : mkDiff ref ver (diffMetrics sub sb sa) (diffParams sub sb sa) with
            | none =>
              have hag := (mkDiff_eq_none_iff_agree _ _ _ _ _).1 hm
              simp only [hag, Bool.not_true, Bool.false_eq_true, ↓reduceIte]
              rw [hframe _ _ (Or.inr (diffMetrics_ne rest bs as w hwfs.1)) _, hrest]
            | some dd =>
              have hag : agree sub sb sa = false := by
                cases h : agree sub sb sa with
                | false => rfl
                | true => rw [(mkDiff_eq_none_iff_agree ref ver _ _ _).2 h] at hm; cases hm
              have hdd := mkDiff_some _ _ _ _ _ hm
              subst hdd
              simp only [hag, Bool.not_false, ↓reduceIte]
              have hnu : nestedUpdOf (some false) (some ref) ver (diffMetrics sub sb sa)
                  (diffParams sub sb sa) ref ver sub sa = some (patch sub sa sb) := by
                simp only [nestedUpdOf, instMarkers, updateWith_self,
                  stageParams_diff sub sb sa (stageInit sub) hwfs.2 hsb hsa (stShaped_init sub)]
                rw [ihs sb sa _ hwfs.2 hsb hsa (stShaped_stP sub sb sa _ (stShaped_init sub))]
                simp only [commit_patch sub sa sb (shaped_of_wt _ _ hsa) (shaped_of_wt _ _ hsb)]
              rw [stageMetrics_templ]
              simp only [armMetric, Bool.not_false, Bool.true_and, beq_self_eq_true, ↓reduceIte, hnu]
              rw [hframe _ _ (Or.inr (diffMetrics_ne rest bs as w hwfs.1)) _, hrest]
          · simp only [↓reduceIte, Bool.not_true, Bool.false_and, Bool.false_eq_true]
            rw [stageMetrics_frame_nested _ _ _ _ _ _ _ _ _ _ _ (Or.inl rfl) _, hrest]
        | nil => simp [stShaped] at hst
      | _ => simp [wt] at ha
    | _ => simp [wt] at hb

/-- the patch law, computed: applying the difference of `b` from `a` to `a` yields `patch` -/
theorem update_diff (σ : Schema) (b a : Vals) (d : TInst) (hwf : wf σ.fields = true)
    (hb : wt σ.fields b = true) (ha : wt σ.fields a = true) (hd : diff σ b a = some d) :
    update σ a d = (.ok (), patch σ.fields a b) := by
  have hdd := mkDiff_some _ _ _ _ _ hd
  subst hdd
  simp only [update, updateWith_self,
    stageParams_diff σ.fields b a _ hwf hb ha (stShaped_init _)]
  rw [stageMetrics_diff σ.fields b a _ hwf hb ha (stShaped_stP _ b a _ (stShaped_init _))]
  simp only [commit_patch _ a b (shaped_of_wt _ _ ha) (shaped_of_wt _ _ hb)]


theorem agree_patch (fs : Fields) (a b : Vals) (hrefl : agree fs b b = true) :
    agree fs b (patch fs a b) = true := by
  induction fs generalizing a b with
  | nil => simp [agree]
  | scalar w skip k d rest ih =>
    cases a with
    | s va as =>
      cases b with
      | s vb bs =>
        simp only [agree, Bool.and_eq_true, Bool.or_eq_true] at hrefl
        simp only [patch, agree, ih as bs hrefl.2, Bool.and_true]
        cases hs : skip
        · cases he : optEq k.ty vb va
          · have : optEq k.ty vb vb = true := by
              rcases hrefl.1 with h | h
              · simp [hs] at h
              · exact h
            simp [this]
          · simp [he]
        · simp
      | _ => simp [agree]
    | _ => cases b <;> simp_all [patch, agree]
  | nested w skip ref ver sub d rest ihs ih =>
    cases a with
    | nest sa as =>
      cases b with
      | nest sb bs =>
        simp only [agree, Bool.and_eq_true, Bool.or_eq_true] at hrefl
        simp only [patch, agree, ih as bs hrefl.2, Bool.and_true]
        cases hs : skip
        · cases he : agree sub sb sa
          · have : agree sub sb sb = true := by
              rcases hrefl.1 with h | h
              · simp [hs] at h
              · exact h
            simp [ihs sa sb this]
          · simp [he]
        · simp
      | _ => simp [agree]
    | _ => cases b <;> simp_all [patch, agree]

theorem wt_patch (fs : Fields) (a b : Vals) (ha : wt fs a = true) (hb : wt fs b = true) :
    wt fs (patch fs a b) = true := by
  induction fs generalizing a b with
  | nil => cases a <;> cases b <;> simp_all [wt, patch]
  | scalar w skip k d rest ih =>
    cases a with
    | s va as =>
      cases b with
      | s vb bs =>
        simp only [wt, Bool.and_eq_true, Bool.or_eq_true] at ha hb
        simp only [patch, wt, ih as bs ha.2 hb.2, Bool.and_true]
        cases hs : skip
        · have h1 : wtCell k va = true := by
            rcases ha.1 with h | h
            · simp [hs] at h
            · exact h
          have h2 : wtCell k vb = true := by
            rcases hb.1 with h | h
            · simp [hs] at h
            · exact h
          cases optEq k.ty vb va <;> simp [h1, h2]
        · simp
      | _ => simp [wt] at hb
    | _ => simp [wt] at ha
  | nested w skip ref ver sub d rest ihs ih =>
    cases a with
    | nest sa as =>
      cases b with
      | nest sb bs =>
        simp only [wt, Bool.and_eq_true, Bool.or_eq_true] at ha hb
        simp only [patch, wt, ih as bs ha.2 hb.2, Bool.and_true]
        cases hs : skip
        · have h1 : wt sub sa = true := by
            rcases ha.1 with h | h
            · simp [hs] at h
            · exact h
          have h2 : wt sub sb = true := by
            rcases hb.1 with h | h
            · simp [hs] at h
            · exact h
          cases agree sub sb sa <;> simp [h1, ihs sa sb h1 h2]
        · simp
      | _ => simp [wt] at hb
    | _ => simp [wt] at ha


theorem patched_patch (fs : Fields) (a b : Vals) (ha : wt fs a = true) (hb : wt fs b = true) :
    patched fs a b (patch fs a b) = true := by
  induction fs generalizing a b with
  | nil => cases a <;> cases b <;> simp_all [wt, patched, patch]
  | scalar w skip k d rest ih =>
    cases a with
    | s va as =>
      cases b with
      | s vb bs =>
        simp only [wt, Bool.and_eq_true] at ha hb
        simp only [patch, patched, ih as bs ha.2 hb.2, Bool.and_true]
        cases skip <;> cases optEq k.ty vb va <;> simp
      | _ => simp [wt] at hb
    | _ => simp [wt] at ha
  | nested w skip ref ver sub d rest ihs ih =>
    cases a with
    | nest sa as =>
      cases b with
      | nest sb bs =>
        simp only [wt, Bool.and_eq_true, Bool.or_eq_true] at ha hb
        simp only [patch, patched, ih as bs ha.2 hb.2, Bool.and_true]
        cases hs : skip
        · cases he : agree sub sb sa
          · have h1 : wt sub sa = true := by
              rcases ha.1 with h | h
              · simp [hs] at h
              · exact h
            have h2 : wt sub sb = true := by
              rcases hb.1 with h | h
              · simp [hs] at h
              · exact h
            simp [ihs sa sb h1 h2]
          · simp
        · simp
      | _ => simp [wt] at hb
    | _ => simp [wt] at ha

/-! ### rejection: foreign instances, all-or-nothing -/

theorem stageParam_no_arm (fs : Fields) (n : Name) (h : hasParamArm fs n = false)
    (st : List SCell) (pv : Option PV) : ∃ e, stageParam fs st n pv = .error e := by
  induction fs generalizing st with
  | nil => exact ⟨_, rfl⟩
  | scalar w skip k d rest ih =>
    simp only [hasParamArm, Bool.or_eq_false_iff] at h
    cases st with
    | nil => exact ⟨_, rfl⟩
    | cons c st =>
      obtain ⟨e, he⟩ := ih h.2 st
      exact ⟨e, by simp only [stageParam, h.1, Bool.false_eq_true, ↓reduceIte, he]⟩
  | nested w skip ref ver sub d rest _ ih =>
    simp only [hasParamArm] at h
    cases st with
    | nil => exact ⟨_, rfl⟩
    | cons c st =>
      obtain ⟨e, he⟩ := ih h st
      exact ⟨e, by simp only [stageParam, he]⟩

theorem stageParams_foreign (fs : Fields) (ps : List WP) (h : foreignPs fs ps = true)
    (st : List SCell) : ∃ e, stageParams fs st ps = .error e := by
  induction ps generalizing st with
  | nil => simp [foreignPs] at h
  | cons p ps ih =>
    simp only [foreignPs, Bool.or_eq_true] at h
    cases hn : p.name with
    | none => exact ⟨.invalidPayload, by simp only [stageParams, hn]⟩
    | some n =>
      simp only [hn] at h
      cases hr : stageParam fs st n p.value with
      | error e => exact ⟨e, by simp only [stageParams, hn, hr]⟩
      | ok st' =>
        rcases h with h | h
        · simp only [Bool.not_eq_true'] at h
          obtain ⟨e, he⟩ := stageParam_no_arm fs n h st p.value
          rw [he] at hr; cases hr
        · obtain ⟨e, he⟩ := ih h st'
          exact ⟨e, by simp only [stageParams, hn, hr, he]⟩

theorem armMetric_no_arm (mv : MVal) (nu : Name → Option Name → Fields → Vals → Option Vals)
    (fs : Fields) (n : Name) (h : metricArm fs n = none) (self : Vals) (st : List SCell) :
    ∃ e, armMetric mv nu fs self st n = .error e := by
  induction fs generalizing self st with
  | nil => exact ⟨_, rfl⟩
  | scalar w skip k d rest ih =>
    simp only [metricArm] at h
    split at h
    · cases h
    · rename_i hc
      cases self with
      | s v vs =>
        cases st with
        | nil => exact ⟨_, rfl⟩
        | cons c st =>
          obtain ⟨e, he⟩ := ih h vs st
          simp only [Bool.not_eq_true] at hc
          exact ⟨e, by rw [armMetric_scalar_skip _ _ _ _ _ _ _ _ _ _ _ _ hc, he]⟩
      | nil => exact ⟨_, rfl⟩
      | nest _ _ => exact ⟨_, rfl⟩
  | nested w skip ref ver sub d rest _ ih =>
    simp only [metricArm] at h
    split at h
    · cases h
    · rename_i hc
      cases self with
      | nest sv vs =>
        cases st with
        | nil => exact ⟨_, rfl⟩
        | cons c st =>
          obtain ⟨e, he⟩ := ih h vs st
          simp only [Bool.not_eq_true] at hc
          exact ⟨e, by rw [armMetric_nested_skip _ _ _ _ _ _ _ _ _ _ _ _ _ _ hc, he]⟩
      | nil => exact ⟨_, rfl⟩
      | s _ _ => exact ⟨_, rfl⟩

theorem armMetric_nested_fail (mv : MVal) (nu : Name → Option Name → Fields → Vals → Option Vals)
    (fs : Fields) (n : Name) (fref : Name) (fver : Option Name) (ffs : Fields)
    (h : metricArm fs n = some (some (fref, fver, ffs)))
    (hnu : ∀ tmp, nu fref fver ffs tmp = none) (self : Vals) (st : List SCell) :
    ∃ e, armMetric mv nu fs self st n = .error e := by
  induction fs generalizing self st with
  | nil => exact ⟨_, rfl⟩
  | scalar w skip k d rest ih =>
    simp only [metricArm] at h
    split at h
    · cases h
    · rename_i hc
      cases self with
      | s v vs =>
        cases st with
        | nil => exact ⟨_, rfl⟩
        | cons c st =>
          obtain ⟨e, he⟩ := ih h vs st
          simp only [Bool.not_eq_true] at hc
          exact ⟨e, by rw [armMetric_scalar_skip _ _ _ _ _ _ _ _ _ _ _ _ hc, he]⟩
      | nil => exact ⟨_, rfl⟩
      | nest _ _ => exact ⟨_, rfl⟩
  | nested w skip ref ver sub d rest _ ih =>
    simp only [metricArm] at h
    cases self with
    | nest sv vs =>
      cases st with
      | nil => exact ⟨_, rfl⟩
      | cons c st =>
        split at h
        · rename_i hc
          simp only [Option.some.injEq, Prod.mk.injEq] at h
          obtain ⟨h1, h2, h3⟩ := h
          subst h1 h2 h3
          exact ⟨.invalidMetricValue w, by simp only [armMetric, hc, ↓reduceIte, hnu sv]⟩
        · rename_i hc
          obtain ⟨e, he⟩ := ih h vs st
          simp only [Bool.not_eq_true] at hc
          exact ⟨e, by rw [armMetric_nested_skip _ _ _ _ _ _ _ _ _ _ _ _ _ _ hc, he]⟩
    | nil => exact ⟨_, rfl⟩
    | s _ _ => exact ⟨_, rfl⟩


theorem updateWith_foreign (fref : Name) (fver : Option Name) (ffs : Fields) (tmp : Vals)
    (r : Name) (ver : Option Name) (ps : List WP)
    (loop : List SCell → Except TErr (List SCell))
    (h : (r != fref) = true ∨ (ver != fver) = true ∨ foreignPs ffs ps = true ∨
      ∀ st, ∃ e, loop st = .error e) :
    ∃ e, updateWith fref fver ffs tmp r ver ps loop = .error e := by
  unfold updateWith
  split
  · exact ⟨_, rfl⟩
  · split
    · exact ⟨_, rfl⟩
    · rename_i h1 h2
      rcases h with h | h | h | h
      · exact absurd h h1
      · exact absurd h h2
      · obtain ⟨e, he⟩ := stageParams_foreign ffs ps h (stageInit ffs)
        exact ⟨e, by simp only [he]⟩
      · cases hp : stageParams ffs (stageInit ffs) ps with
        | error e => exact ⟨e, rfl⟩
        | ok st1 =>
          obtain ⟨e, he⟩ := h st1
          exact ⟨e, by simp only [he]⟩

theorem stageMetrics_foreign (ms : WMs) : ∀ (fs : Fields), foreignMs fs ms = true →
    ∀ (self : Vals) (st : List SCell), ∃ e, stageMetrics fs self st ms = .error e := by
  induction ms with
  | nil => intro fs h; simp [foreignMs] at h
  | val name dt pv tail ih =>
    intro fs h self st
    simp only [foreignMs, Bool.or_eq_true] at h
    cases name with
    | none => exact ⟨_, stageMetrics_noname_val ..⟩
    | some n =>
      rw [stageMetrics_val]
      cases hr : armMetric (.val pv) (nestedUpdVal pv) fs self st n with
      | error e => exact ⟨e, rfl⟩
      | ok st' =>
        rcases h with h | h
        · simp only [Option.isNone_iff_eq_none] at h
          obtain ⟨e, he⟩ := armMetric_no_arm (.val pv) (nestedUpdVal pv) fs n h self st
          rw [he] at hr; cases hr
        · exact ih fs h self st'
  | templ name dt isDef ref ver sub ps tail ihsub ih =>
    intro fs h self st
    simp only [foreignMs, Bool.or_eq_true] at h
    cases name with
    | none => exact ⟨_, stageMetrics_noname_templ ..⟩
    | some n =>
      rw [stageMetrics_templ]
      cases hr : armMetric .templ (nestedUpdOf isDef ref ver sub ps) fs self st n with
      | error e => exact ⟨e, rfl⟩
      | ok st' =>
        rcases h with h | h
        · exfalso
          cases harm : metricArm fs n with
          | none =>
            obtain ⟨e, he⟩ := armMetric_no_arm .templ (nestedUpdOf isDef ref ver sub ps) fs n harm self st
            rw [he] at hr; cases hr
          | some o =>
            cases o with
            | none => simp [harm] at h
            | some t =>
              obtain ⟨fref, fver, ffs⟩ := t
              simp only [harm] at h
              cases ref with
              | none => simp at h
              | some r =>
                simp only [Bool.or_eq_true] at h
                have hnu : ∀ tmp, nestedUpdOf isDef (some r) ver sub ps fref fver ffs tmp = none := by
                  intro tmp
                  simp only [nestedUpdOf]
                  cases hm : instMarkers isDef (some r) with
                  | none => rfl
                  | some r' =>
                    have : r' = r := by
                      cases isDef with
                      | none => simp [instMarkers] at hm
                      | some bb => cases bb <;> simp [instMarkers] at hm; exact hm.symm
                    subst this
                    have hh : (r' != fref) = true ∨ (ver != fver) = true ∨ foreignPs ffs ps = true ∨
                        ∀ st, ∃ e, (fun st0 => stageMetrics ffs tmp st0 sub) st = .error e := by
                      rcases h with ((h | h) | h) | h
                      · exact Or.inl h
                      · exact Or.inr (Or.inl h)
                      · exact Or.inr (Or.inr (Or.inl h))
                      · exact Or.inr (Or.inr (Or.inr fun st => ihsub ffs h tmp st))
                    obtain ⟨e, he⟩ := updateWith_foreign fref fver ffs tmp r' ver ps _ hh
                    simp only [he]
                obtain ⟨e, he⟩ := armMetric_nested_fail .templ _ fs n fref fver ffs harm hnu self st
                rw [he] at hr; cases hr
        · exact ih fs h self st'

/-- a foreign instance is rejected and `self` is left as it was -/
theorem update_foreign (σ : Schema) (a : Vals) (i : TInst) (h : foreign σ i = true) :
    ∃ e, update σ a i = (.error e, a) := by
  simp only [foreign, Bool.or_eq_true] at h
  have hh : (i.ref != σ.ref) = true ∨ (i.ver != σ.ver) = true ∨ foreignPs σ.fields i.params = true ∨
      ∀ st, ∃ e, (fun st => stageMetrics σ.fields a st i.metrics) st = .error e := by
    rcases h with ((h | h) | h) | h
    · exact Or.inl h
    · exact Or.inr (Or.inl h)
    · exact Or.inr (Or.inr (Or.inl h))
    · exact Or.inr (Or.inr (Or.inr fun st => stageMetrics_foreign _ _ h a st))
  obtain ⟨e, he⟩ := updateWith_foreign σ.ref σ.ver σ.fields a i.ref i.ver i.params _ hh
  exact ⟨e, by simp only [update, he]⟩

/-- all-or-nothing: whatever the instance, an error leaves `self` as it was -/
theorem update_error_unchanged (σ : Schema) (a : Vals) (i : TInst) (e : TErr)
    (h : (update σ a i).1 = .error e) : (update σ a i).2 = a := by
  unfold update at h ⊢
  split
  · rename_i v hv
    rw [hv] at h
    cases h
  · rfl


/-! ### the same rejection for `try_from` -/

theorem setParam_no_arm (fs : Fields) (n : Name) (h : hasParamArm fs n = false)
    (loc : Vals) (pv : Option PV) : ∃ e, setParam fs loc n pv = .error e := by
  induction fs generalizing loc with
  | nil => exact ⟨_, rfl⟩
  | scalar w skip k d rest ih =>
    simp only [hasParamArm, Bool.or_eq_false_iff] at h
    cases loc with
    | s v vs =>
      obtain ⟨e, he⟩ := ih h.2 vs
      exact ⟨e, by simp only [setParam, h.1, Bool.false_eq_true, ↓reduceIte, he]⟩
    | nil => exact ⟨_, rfl⟩
    | nest _ _ => exact ⟨_, rfl⟩
  | nested w skip ref ver sub d rest _ ih =>
    simp only [hasParamArm] at h
    cases loc with
    | nest sv vs =>
      obtain ⟨e, he⟩ := ih h vs
      exact ⟨e, by simp only [setParam, he]⟩
    | nil => exact ⟨_, rfl⟩
    | s _ _ => exact ⟨_, rfl⟩

theorem fromParams_foreign (fs : Fields) (ps : List WP) (h : foreignPs fs ps = true)
    (loc : Vals) : ∃ e, fromParams fs loc ps = .error e := by
  induction ps generalizing loc with
  | nil => simp [foreignPs] at h
  | cons p ps ih =>
    simp only [foreignPs, Bool.or_eq_true] at h
    cases hn : p.name with
    | none => exact ⟨.invalidPayload, by simp only [fromParams, hn]⟩
    | some n =>
      simp only [hn] at h
      cases hr : setParam fs loc n p.value with
      | error e => exact ⟨e, by simp only [fromParams, hn, hr]⟩
      | ok loc' =>
        rcases h with h | h
        · simp only [Bool.not_eq_true'] at h
          obtain ⟨e, he⟩ := setParam_no_arm fs n h loc p.value
          rw [he] at hr; cases hr
        · obtain ⟨e, he⟩ := ih h loc'
          exact ⟨e, by simp only [fromParams, hn, hr, he]⟩

theorem fiMetric_no_arm (mv : MVal) (nf : Name → Option Name → Fields → Option Vals)
    (fs : Fields) (n : Name) (h : metricArm fs n = none) (loc : Vals) :
    ∃ e, fiMetric mv nf fs loc n = .error e := by
  induction fs generalizing loc with
  | nil => exact ⟨_, rfl⟩
  | scalar w skip k d rest ih =>
    simp only [metricArm] at h
    split at h
    · cases h
    · rename_i hc
      cases loc with
      | s v vs =>
        obtain ⟨e, he⟩ := ih h vs
        simp only [Bool.not_eq_true] at hc
        exact ⟨e, by rw [fiMetric_scalar_skip _ _ _ _ _ _ _ _ _ _ hc, he]⟩
      | nil => exact ⟨_, rfl⟩
      | nest _ _ => exact ⟨_, rfl⟩
  | nested w skip ref ver sub d rest _ ih =>
    simp only [metricArm] at h
    split at h
    · cases h
    · rename_i hc
      cases loc with
      | nest sv vs =>
        obtain ⟨e, he⟩ := ih h vs
        simp only [Bool.not_eq_true] at hc
        exact ⟨e, by rw [fiMetric_nested_skip _ _ _ _ _ _ _ _ _ _ _ _ hc, he]⟩
      | nil => exact ⟨_, rfl⟩
      | s _ _ => exact ⟨_, rfl⟩

theorem fiMetric_nested_fail (mv : MVal) (nf : Name → Option Name → Fields → Option Vals)
    (fs : Fields) (n : Name) (fref : Name) (fver : Option Name) (ffs : Fields)
    (h : metricArm fs n = some (some (fref, fver, ffs)))
    (hnf : nf fref fver ffs = none) (loc : Vals) :
    ∃ e, fiMetric mv nf fs loc n = .error e := by
  induction fs generalizing loc with
  | nil => exact ⟨_, rfl⟩
  | scalar w skip k d rest ih =>
    simp only [metricArm] at h
    split at h
    · cases h
    · rename_i hc
      cases loc with
      | s v vs =>
        obtain ⟨e, he⟩ := ih h vs
        simp only [Bool.not_eq_true] at hc
        exact ⟨e, by rw [fiMetric_scalar_skip _ _ _ _ _ _ _ _ _ _ hc, he]⟩
      | nil => exact ⟨_, rfl⟩
      | nest _ _ => exact ⟨_, rfl⟩
  | nested w skip ref ver sub d rest _ ih =>
    simp only [metricArm] at h
    cases loc with
    | nest sv vs =>
      split at h
      · rename_i hc
        simp only [Option.some.injEq, Prod.mk.injEq] at h
        obtain ⟨h1, h2, h3⟩ := h
        subst h1 h2 h3
        exact ⟨.invalidMetricValue w, by simp only [fiMetric, hc, ↓reduceIte, hnf]⟩
      · rename_i hc
        obtain ⟨e, he⟩ := ih h vs
        simp only [Bool.not_eq_true] at hc
        exact ⟨e, by rw [fiMetric_nested_skip _ _ _ _ _ _ _ _ _ _ _ _ hc, he]⟩
    | nil => exact ⟨_, rfl⟩
    | s _ _ => exact ⟨_, rfl⟩

theorem fromWith_foreign (fref : Name) (fver : Option Name) (ffs : Fields)
    (r : Name) (ver : Option Name) (ps : List WP) (loop : Vals → Except TErr Vals)
    (h : (r != fref) = true ∨ (ver != fver) = true ∨ foreignPs ffs ps = true ∨
      ∀ loc, ∃ e, loop loc = .error e) :
    ∃ e, fromWith fref fver ffs r ver ps loop = .error e := by
  unfold fromWith
  split
  · exact ⟨_, rfl⟩
  · split
    · exact ⟨_, rfl⟩
    · rename_i h1 h2
      rcases h with h | h | h | h
      · exact absurd h h1
      · exact absurd h h2
      · obtain ⟨e, he⟩ := fromParams_foreign ffs ps h (defaults ffs)
        exact ⟨e, by simp only [he]⟩
      · cases hp : fromParams ffs (defaults ffs) ps with
        | error e => exact ⟨e, rfl⟩
        | ok loc =>
          obtain ⟨e, he⟩ := h loc
          exact ⟨e, by simp only [he]⟩

theorem fromMetrics_foreign (ms : WMs) : ∀ (fs : Fields), foreignMs fs ms = true →
    ∀ (loc : Vals), ∃ e, fromMetrics fs loc ms = .error e := by
  induction ms with
  | nil => intro fs h; simp [foreignMs] at h
  | val name dt pv tail ih =>
    intro fs h loc
    simp only [foreignMs, Bool.or_eq_true] at h
    cases name with
    | none => exact ⟨_, fromMetrics_noname_val ..⟩
    | some n =>
      rw [fromMetrics_val]
      cases hr : fiMetric (.val pv) (fun _ _ _ => none) fs loc n with
      | error e => exact ⟨e, rfl⟩
      | ok loc' =>
        rcases h with h | h
        · simp only [Option.isNone_iff_eq_none] at h
          obtain ⟨e, he⟩ := fiMetric_no_arm (.val pv) (fun _ _ _ => none) fs n h loc
          rw [he] at hr; cases hr
        · exact ih fs h loc'
  | templ name dt isDef ref ver sub ps tail ihsub ih =>
    intro fs h loc
    simp only [foreignMs, Bool.or_eq_true] at h
    cases name with
    | none => exact ⟨_, fromMetrics_noname_templ ..⟩
    | some n =>
      rw [fromMetrics_templ]
      cases hr : fiMetric .templ (nestedFromOf isDef ref ver sub ps) fs loc n with
      | error e => exact ⟨e, rfl⟩
      | ok loc' =>
        rcases h with h | h
        · exfalso
          cases harm : metricArm fs n with
          | none =>
            obtain ⟨e, he⟩ := fiMetric_no_arm .templ (nestedFromOf isDef ref ver sub ps) fs n harm loc
            rw [he] at hr; cases hr
          | some o =>
            cases o with
            | none => simp [harm] at h
            | some t =>
              obtain ⟨fref, fver, ffs⟩ := t
              simp only [harm] at h
              cases ref with
              | none => simp at h
              | some r =>
                simp only [Bool.or_eq_true] at h
                have hnf : nestedFromOf isDef (some r) ver sub ps fref fver ffs = none := by
                  simp only [nestedFromOf]
                  cases hm : instMarkers isDef (some r) with
                  | none => rfl
                  | some r' =>
                    have : r' = r := by
                      cases isDef with
                      | none => simp [instMarkers] at hm
                      | some bb => cases bb <;> simp [instMarkers] at hm; exact hm.symm
                    subst this
                    have hh : (r' != fref) = true ∨ (ver != fver) = true ∨ foreignPs ffs ps = true ∨
                        ∀ loc, ∃ e, (fun loc0 => fromMetrics ffs loc0 sub) loc = .error e := by
                      rcases h with ((h | h) | h) | h
                      · exact Or.inl h
                      · exact Or.inr (Or.inl h)
                      · exact Or.inr (Or.inr (Or.inl h))
                      · exact Or.inr (Or.inr (Or.inr fun loc => ihsub ffs h loc))
                    obtain ⟨e, he⟩ := fromWith_foreign fref fver ffs r' ver ps _ hh
                    simp only [he]
                obtain ⟨e, he⟩ := fiMetric_nested_fail .templ _ fs n fref fver ffs harm hnf loc
                rw [he] at hr; cases hr
        · exact ih fs h loc'

/-- a foreign instance is rejected by `try_from` as well -/
theorem fromInstance_foreign (σ : Schema) (i : TInst) (h : foreign σ i = true) :
    ∃ e, fromInstance σ i = .error e := by
  simp only [foreign, Bool.or_eq_true] at h
  have hh : (i.ref != σ.ref) = true ∨ (i.ver != σ.ver) = true ∨ foreignPs σ.fields i.params = true ∨
      ∀ loc, ∃ e, (fun loc => fromMetrics σ.fields loc i.metrics) loc = .error e := by
    rcases h with ((h | h) | h) | h
    · exact Or.inl h
    · exact Or.inr (Or.inl h)
    · exact Or.inr (Or.inr (Or.inl h))
    · exact Or.inr (Or.inr (Or.inr fun loc => fromMetrics_foreign _ _ h loc))
  exact fromWith_foreign σ.ref σ.ver σ.fields i.ref i.ver i.params _ hh


/-- identical template fields compare equal whenever the value equals itself -/
theorem agree_of_same (fs : Fields) (a a' : Vals) (hs : same fs a a' = true)
    (hrefl : agree fs a a = true) : agree fs a a' = true := by
  induction fs generalizing a a' with
  | nil => simp [agree]
  | scalar w skip k d rest ih =>
    cases a with
    | s va as =>
      cases a' with
      | s va' as' =>
        simp only [same, Bool.and_eq_true, Bool.or_eq_true, beq_iff_eq] at hs
        simp only [agree, Bool.and_eq_true, Bool.or_eq_true] at hrefl ⊢
        refine ⟨?_, ih as as' hs.2 hrefl.2⟩
        rcases hs.1 with h | h
        · exact Or.inl h
        · rw [← h]; exact hrefl.1
      | _ => simp [same] at hs
    | _ => cases a' <;> simp [same] at hs
  | nested w skip ref ver sub d rest ihs ih =>
    cases a with
    | nest sa as =>
      cases a' with
      | nest sa' as' =>
        simp only [same, Bool.and_eq_true, Bool.or_eq_true] at hs
        simp only [agree, Bool.and_eq_true, Bool.or_eq_true] at hrefl ⊢
        refine ⟨?_, ih as as' hs.2 hrefl.2⟩
        rcases hs.1 with h | h
        · exact Or.inl h
        · rcases hrefl.1 with h' | h'
          · exact Or.inl h'
          · exact Or.inr (ihs sa sa' h h')
      | _ => simp [same] at hs
    | _ => cases a' <;> simp [same] at hs

theorem wt_rtVal (fs : Fields) (a : Vals) (h : wt fs a = true) : shaped fs (rtVal fs a) = true := by
  induction fs generalizing a with
  | nil => cases a <;> simp_all [wt, shaped, rtVal]
  | scalar w skip k d rest ih =>
    cases a <;> simp_all [wt, shaped, rtVal]
  | nested w skip ref ver sub d rest _ ih =>
    cases a <;> simp_all [wt, shaped, rtVal]


end Srad.Derive
