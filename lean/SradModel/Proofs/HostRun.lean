/-
Helper lemmas for `Props/C20Host.lean`: the run loop of the generic `Application` (`Host.runStep`,
`Host.runAll`) around a cancel.
-/
import SradModel.Model.Host

namespace Srad.Host.Run
open Srad.Host


/-- **`AppEvent::Cancelled` makes the run loop return, and does nothing else**: whatever the state of
the application (running or already waiting for the final Offline), the step has no effect on any
node or store, leaves every node actor's state and the online flag as they are, and the loop is
`returned`. -/
theorem cancelled_returns (c : Cfg) (r : RunApp) (now wall : Nat) :
    (runStep c r .cancelled now wall).1.phase = .returned ∧
    (runStep c r .cancelled now wall).2 = [] ∧
    (runStep c r .cancelled now wall).1.app = r.app := by
  cases r with
  | mk app phase => cases phase <;> simp [runStep]

/-- **taking the stop request does nothing to the nodes either**: no effect, same application state,
and a running loop is `stopping` afterwards -/
theorem stop_is_silent (c : Cfg) (r : RunApp) (now wall : Nat) :
    (runStep c r .stop now wall).2 = [] ∧ (runStep c r .stop now wall).1.app = r.app ∧
    (r.phase = .running → (runStep c r .stop now wall).1.phase = .stopping) := by
  cases r with
  | mk app phase => cases phase <;> simp [runStep]

/-- **while the host waits for the final Offline nothing is dispatched**: an event the client's event
loop yields in that phase — a node or device message, an invalid payload, Online, the Offline itself —
reaches no node actor: no effect, every node's state unchanged (only a reorder-timeout task of a
still living actor can act, `stopping_timer`) -/
theorem stopping_dispatches_nothing (c : Cfg) (r : RunApp) (i : AppIn) (now wall : Nat)
    (hp : r.phase = .stopping) (hi : ∀ n, i ≠ .timerFire n) :
    (runStep c r (.ev i) now wall).2 = [] ∧ (runStep c r (.ev i) now wall).1.app.nodes = r.app.nodes ∧
    (runStep c r (.ev i) now wall).1.phase = .stopping := by
  cases r with
  | mk app phase =>
    simp only at hp
    subst hp
    cases i with
    | timerFire n => exact absurd rfl (hi n)
    | node n j => simp [runStep]
    | invalidPayload n => simp [runStep]
    | online => simp [runStep]
    | offline => simp [runStep]

/-- the reorder-timeout task of a node completes while the host is stopping: exactly what it does in a
running host (`appStep`) -/
theorem stopping_timer (c : Cfg) (r : RunApp) (n : Nat) (now wall : Nat) (hp : r.phase = .stopping) :
    runStep c r (.ev (.timerFire n)) now wall =
      ({ r with app := (appStep c r.app (.timerFire n) now wall).1 }, (appStep c r.app (.timerFire n) now wall).2) := by
  cases r with
  | mk app phase =>
    simp only at hp
    subst hp
    simp [runStep]

/-- **once `run()` has returned nothing happens any more**: no input has any effect or changes
anything -/
theorem returned_is_final (c : Cfg) (r : RunApp) (i : RunIn) (now wall : Nat) (hp : r.phase = .returned) :
    runStep c r i now wall = (r, []) := by
  cases r with
  | mk app phase =>
    simp only at hp
    subst hp
    simp [runStep]

/-- … for whole histories: after the return every continuation is silent and leaves the state alone -/
theorem nothing_after_return (c : Cfg) (r : RunApp) (h : List (RunIn × Nat × Nat)) (hp : r.phase = .returned) :
    runAll c r h = (r, []) := by
  induction h with
  | nil => rfl
  | cons x t ih =>
    obtain ⟨i, now, wall⟩ := x
    simp [runAll, returned_is_final c r i now wall hp, ih]

theorem stopping_tail (c : Cfg) (t2 : Nat) (evs : List (AppIn × Nat × Nat)) : ∀ (r : RunApp),
    r.phase = .stopping → (∀ x ∈ evs, ∀ n, x.1 ≠ .timerFire n) →
    (runAll c r (evs.map (fun x => (RunIn.ev x.1, x.2.1, x.2.2)) ++ [(RunIn.cancelled, t2, t2)])).1.phase = .returned ∧
    (runAll c r (evs.map (fun x => (RunIn.ev x.1, x.2.1, x.2.2)) ++ [(RunIn.cancelled, t2, t2)])).2 = [] ∧
    (runAll c r (evs.map (fun x => (RunIn.ev x.1, x.2.1, x.2.2)) ++ [(RunIn.cancelled, t2, t2)])).1.app.nodes = r.app.nodes := by
  induction evs with
  | nil =>
    intro r _ _
    have hc := cancelled_returns c r t2 t2
    simp [runAll, hc.1, hc.2.1, hc.2.2]
  | cons x t ih =>
    intro r hr hx
    obtain ⟨i, now, wall⟩ := x
    have hs := stopping_dispatches_nothing c r i now wall hr (fun n => hx (i, now, wall) (by simp) n)
    have ht := ih (runStep c r (.ev i) now wall).1 hs.2.2 (fun y hy n => hx y (by simp [hy]) n)
    simp only [List.map_cons, List.cons_append, runAll]
    refine ⟨ht.1, ?_, ?_⟩
    · rw [hs.1, ht.2.1]; rfl
    · rw [ht.2.2, hs.2.1]

/-- **cancel of a running host**: the stop request is taken, then — whatever the client's event loop
yields meanwhile (`evs`: anything but timeout tasks completing) — `Cancelled` arrives: the run loop
has returned, no store was touched, no NCMD was published, no node actor's state has changed. -/
theorem cancel_returns_silently (c : Cfg) (r : RunApp) (evs : List (AppIn × Nat × Nat))
    (t1 t2 : Nat) (hp : r.phase = .running) (hev : ∀ x ∈ evs, ∀ n, x.1 ≠ .timerFire n) :
    (runAll c r (cancelHist evs t1 t2)).1.phase = .returned ∧ (runAll c r (cancelHist evs t1 t2)).2 = [] ∧
    (runAll c r (cancelHist evs t1 t2)).1.app.nodes = r.app.nodes := by
  have h0 := stop_is_silent c r t1 t1
  have hk := stopping_tail c t2 evs (runStep c r .stop t1 t1).1 (h0.2.2 hp) hev
  simp only [cancelHist, runAll]
  refine ⟨hk.1, ?_, ?_⟩
  · rw [h0.1, hk.2.1]; rfl
  · rw [hk.2.2, h0.2.1]

end Srad.Host.Run
