import SradModel.Model.EonSpec

namespace Srad.Eon.P01

end Srad.Eon.P01
