import SradModel.Model.EonSpec

namespace Srad.Eon.P01
open Srad.Eon

/-! ### vocabulary of the state invariant -/

/-- the oneshot the event loop is waiting on -/
def awaitOf : LoopPc → Option Nat
  | .awaitWill o | .stopAwaitWill o | .forceAwaitWill o => some o
  | _ => none

/-- the oneshot whose `Offline` message the event loop still has to send -/
def pendOf : LoopPc → Option Nat
  | .sendCs (.offline o) | .stopSendCs o | .forceSendCs o => some o
  | _ => none

/-- the node task is not inside a (re)birth -/
def quietN : NodePc → Bool
  | .idle | .inCb _ | .done => true
  | _ => false

structure SInv (s : St) : Prop where
  bo : s.birthed = true → s.online = true
  busy : quietN s.node = false → s.online = true
  cg : ∀ c ∈ s.calls, c.kind.bearsSeq = true → c.gOnline = true ∧ c.gBirthed = true
  wn : ∀ id bt fc, s.node = .waitNb id bt fc → s.birthed = false ∧ id < s.calls.length
  w : (s.loop = .start ∨ (awaitOf s.loop).isSome = true) → s.cs ≠ some .online
  q0 : s.loop = .start → s.birthed = false ∧ quietN s.node = true
  q1 : ∀ o bd, awaitOf s.loop = some o → reply? s o = some (some bd) →
        s.birthed = false ∧ quietN s.node = true
  f1 : ∀ p ∈ s.oneshots, p.1 < s.nextOneshot
  f2 : ∀ o, s.cs = some (.offline o) → o < s.nextOneshot
  f3 : ∀ o, pendOf s.loop = some o →
        o < s.nextOneshot ∧ reply? s o = none ∧ s.cs ≠ some (.offline o)

theorem SInv_init (cd : Nat) : SInv (init cd) := by
  constructor <;> simp [init, awaitOf, pendOf, quietN, reply?]

theorem reply_none_of_fresh (l : List (Nat × Option Nat)) (n o : Nat) (h : ∀ p ∈ l, p.1 < n)
    (ho : n ≤ o) : (l.find? (·.1 == o)).map (·.2) = none := by
  simp only [Option.map_eq_none_iff, List.find?_eq_none]
  intro p hp
  have := h p hp
  simp; omega

/-- observations neither scanner of C01 looks at -/
def quietO : Obs → Bool
  | .poll | .polled _ | .ures _ _ | .cbNcmd | .cbDcmd _ | .bDev _ | .runReturned => true
  | _ => false

/-! ### the event-loop task -/

def KeepL (s s' : St) : Prop :=
  s'.online = s.online ∧ s'.birthed = s.birthed ∧ s'.node = s.node ∧ s'.calls = s.calls ∧
  s'.oneshots = s.oneshots

def neutralL (l : LoopPc) : Prop := l ≠ .start ∧ awaitOf l = none ∧ pendOf l = none

/-- what a step of the event-loop task does to `loop`, `cs`, `nextOneshot` -/
inductive LTv (l : LoopPc) (cs : Option CS) (n : Nat) : LoopPc → Option CS → Nat → Prop
  | same (l') : neutralL l' → LTv l cs n l' cs n
  | put (l' cs') : neutralL l' → cs = none → (cs' = some .online ∨ cs' = some .stopped) →
      LTv l cs n l' cs' n
  | freshA (l') : cs = none → l' ≠ .start → awaitOf l' = some n → pendOf l' = none →
      LTv l cs n l' (some (.offline n)) (n + 1)
  | freshP (l') : l' ≠ .start → awaitOf l' = none → pendOf l' = some n → LTv l cs n l' cs (n + 1)
  | send (o : Nat) (l') : pendOf l = some o → cs = none → l' ≠ .start → awaitOf l' = some o →
      pendOf l' = none → LTv l cs n l' (some (.offline o)) n

def LT (s s' : St) : Prop := LTv s.loop s.cs s.nextOneshot s'.loop s'.cs s'.nextOneshot

/-- the observations of an event-loop step: a will only at the start or when the node has replied -/
def LoopObs (s : St) (o : List Obs) : Prop :=
  (∀ x ∈ o, quietO x = true) ∨
  (∃ bd, o = [.will bd] ∧
    (s.loop = .start ∨ ∃ o', awaitOf s.loop = some o' ∧ reply? s o' = some (some bd)))

syntax "lt_tac" : tactic
macro_rules
  | `(tactic| lt_tac) => `(tactic| (simp only [LT]; first
      | (refine LTv.same _ ?_ <;> simp [neutralL, awaitOf, pendOf, *]; done)
      | (refine LTv.put _ _ ?_ ?_ ?_ <;> simp [neutralL, awaitOf, pendOf, *]; done)
      | (refine LTv.freshA _ ?_ ?_ ?_ ?_ <;> simp [neutralL, awaitOf, pendOf, *]; done)
      | (refine LTv.freshP _ ?_ ?_ ?_ <;> simp [neutralL, awaitOf, pendOf, *]; done)
      | (refine LTv.send _ _ ?_ ?_ ?_ ?_ ?_ <;> simp [neutralL, awaitOf, pendOf, *]; done)))

theorem loopHandle_sum (s : St) (e : Ev) :
    KeepL s (loopHandle s e) ∧ LT s (loopHandle s e) := by
  unfold loopHandle
  simp only [newOneshot]
  repeat' split
  all_goals refine ⟨⟨rfl, rfl, rfl, rfl, rfl⟩, ?_⟩
  all_goals lt_tac

theorem loopHandle_sum' (s : St) (rest : List Ev) (e : Ev) :
    KeepL s (loopHandle { s with inbox := rest } e) ∧ LT s (loopHandle { s with inbox := rest } e) :=
  loopHandle_sum { s with inbox := rest } e

theorem stepLoop_sum (s : St) (r : St × List Obs) (h : r ∈ stepLoop s) :
    KeepL s r.1 ∧ LT s r.1 ∧ LoopObs s r.2 := by
  unfold stepLoop at h
  simp only [newOneshot] at h
  repeat' split at h
  all_goals try simp at h
  all_goals try (rcases h with h | h)
  all_goals try subst h
  all_goals try (refine ⟨(loopHandle_sum' _ _ _).1, (loopHandle_sum' _ _ _).2, ?_⟩)
  all_goals try refine ⟨⟨rfl, rfl, rfl, rfl, rfl⟩, ?_, ?_⟩
  all_goals try lt_tac
  all_goals try (simp [LoopObs, quietO, awaitOf, *]; done)
  case h_2.refine_1 =>
    rename_i a _ _ _ _ hne
    cases a
    · lt_tac
    · simp at hne
    · lt_tac

theorem stepLoopTimeout_sum (s : St) (r : St × List Obs) (h : r ∈ stepLoopTimeout s) :
    KeepL s r.1 ∧ LT s r.1 ∧ r.2 = [] := by
  unfold stepLoopTimeout at h
  simp only [newOneshot] at h
  repeat' split at h
  all_goals try simp at h
  all_goals try subst h
  all_goals try refine ⟨⟨rfl, rfl, rfl, rfl, rfl⟩, ?_, rfl⟩
  all_goals try lt_tac

/-- the state invariant is preserved by any step with the footprint of an event-loop step -/
theorem SInv_of_LT (s s' : St) (hi : SInv s) (hk : KeepL s s') (ht : LT s s') : SInv s' := by
  obtain ⟨k1, k2, k3, k4, k5⟩ := hk
  obtain ⟨bo, busy, cg, wn, w, q0, q1, f1, f2, f3⟩ := hi
  have hr : ∀ o, reply? s' o = reply? s o := by intro o; simp [reply?, k5]
  have hfresh : reply? s s.nextOneshot = none :=
    reply_none_of_fresh s.oneshots s.nextOneshot s.nextOneshot f1 (Nat.le_refl _)
  unfold LT at ht
  generalize hl' : s'.loop = l' at ht
  generalize hc' : s'.cs = c' at ht
  generalize hn' : s'.nextOneshot = n' at ht
  cases ht <;> constructor <;> simp only [k1, k2, k3, k4, k5, hr, hl', hc', hn'] <;> try assumption
  all_goals grind [neutralL]

/-! ### device tasks, user tasks, stimuli -/

def KeepD (s s' : St) : Prop :=
  s'.online = s.online ∧ s'.birthed = s.birthed ∧ s'.node = s.node ∧ s'.loop = s.loop ∧
  s'.cs = s.cs ∧ s'.oneshots = s.oneshots ∧ s'.nextOneshot = s.nextOneshot

/-- what a device or user step does to the call log, and what it emits -/
def DT (s s' : St) (o : List Obs) : Prop :=
  (s'.calls = s.calls ∧ ∀ x ∈ o, quietO x = true) ∨
  (∃ (c : Call) (dec : Dec) (pre post : List Obs), s'.calls = s.calls ++ [c] ∧
     o = pre ++ Obs.call s.calls.length c.kind c.dev c.seq c.bd c.isTry dec :: post ∧
     (∀ x ∈ pre, quietO x = true) ∧ (∀ x ∈ post, quietO x = true) ∧
     (c.kind.bearsSeq = true →
        s.online = true ∧ s.birthed = true ∧ c.gOnline = true ∧ c.gBirthed = true) ∧
     (c.kind.bearsSeq = true ∨ c.kind = .ndeath ∨ c.kind = .disconnect))

def DS (s s' : St) (o : List Obs) : Prop := KeepD s s' ∧ DT s s' o

theorem nextSeqIn_ok (s s1 : St) (req : Option Nat) (n : Nat) (h : nextSeqIn s req = .ok (s1, n)) :
    s.online = true ∧ s.birthed = true ∧ s1 = { s with seq := n } := by
  unfold nextSeqIn at h
  repeat' split at h
  all_goals try (simp at h; done)
  all_goals
    simp only [Except.ok.injEq, Prod.mk.injEq] at h
    obtain ⟨rfl, rfl⟩ := h
    simp_all

theorem DS_devBirth (s : St) (x : Dev) (bt : BT) (req : Option Nat) (dec : Dec) :
    DS s (devBirth s x bt req dec).1 (devBirth s x bt req dec).2 := by
  unfold devBirth
  split
  · exact ⟨⟨rfl, rfl, rfl, rfl, rfl, rfl, rfl⟩, Or.inl ⟨rfl, by simp⟩⟩
  split
  · exact ⟨⟨rfl, rfl, rfl, rfl, rfl, rfl, rfl⟩, Or.inl ⟨rfl, by simp⟩⟩
  split
  · exact ⟨⟨rfl, rfl, rfl, rfl, rfl, rfl, rfl⟩, Or.inl ⟨rfl, by simp⟩⟩
  rename_i s1 n hn
  obtain ⟨h1, h2, rfl⟩ := nextSeqIn_ok _ _ _ _ hn
  simp only [handOver]
  split
  all_goals
    refine ⟨⟨rfl, rfl, rfl, rfl, rfl, rfl, rfl⟩, Or.inr ⟨_, _, [.bDev _], [], rfl, rfl, ?_, ?_, ?_, ?_⟩⟩
  all_goals simp [quietO, CK.bearsSeq, *]

theorem DS_devBirth' (s : St) (dv : List Dev) (x : Dev) (bt : BT) (req : Option Nat) (dec : Dec) :
    DS s (devBirth { s with devs := dv } x bt req dec).1 (devBirth { s with devs := dv } x bt req dec).2 :=
  DS_devBirth { s with devs := dv } x bt req dec

theorem DS_devDeath (s : St) (x : Dev) (pub thenDone : Bool) (dec : Dec) :
    DS s (devDeath s x pub thenDone dec).1 (devDeath s x pub thenDone dec).2 := by
  unfold devDeath
  dsimp only
  repeat' split
  all_goals first
    | exact ⟨⟨rfl, rfl, rfl, rfl, rfl, rfl, rfl⟩, Or.inl ⟨rfl, by simp⟩⟩
    | (obtain ⟨h1, h2, rfl⟩ := nextSeqIn_ok _ _ _ _ ‹nextSeqIn _ _ = Except.ok _›
       simp only [handOver]
       refine ⟨⟨rfl, rfl, rfl, rfl, rfl, rfl, rfl⟩, Or.inr ⟨_, _, [], [], rfl, rfl, ?_, ?_, ?_, ?_⟩⟩ <;>
          simp [quietO, CK.bearsSeq, *])

theorem DS_devDeath' (s : St) (dv : List Dev) (x : Dev) (pub thenDone : Bool) (dec : Dec) :
    DS s (devDeath { s with devs := dv } x pub thenDone dec).1
      (devDeath { s with devs := dv } x pub thenDone dec).2 :=
  DS_devDeath { s with devs := dv } x pub thenDone dec

theorem stepDev_sum (s : St) (u : Nat) (dec : Dec) (r : St × List Obs) (h : r ∈ stepDev s u dec) :
    DS s r.1 r.2 := by
  unfold stepDev at h
  repeat' split at h
  all_goals try simp at h
  all_goals try subst h
  all_goals first
    | exact DS_devBirth' _ _ _ _ _ _
    | exact DS_devDeath' _ _ _ _ _ _
    | exact ⟨⟨rfl, rfl, rfl, rfl, rfl, rfl, rfl⟩, Or.inl ⟨rfl, by simp [quietO]⟩⟩
    | skip

theorem Except_map_ok {ε α β : Type} (f : α → β) (x : Except ε α) (b : β) (h : x.map f = .ok b) :
    ∃ a, x = .ok a ∧ f a = b := by
  cases x with
  | error e => simp [Except.map] at h
  | ok a => exact ⟨a, rfl, by simpa [Except.map] using h⟩

theorem stepUser_sum (s : St) (j : Nat) (dec : Dec) (r : St × List Obs) (h : r ∈ stepUser s j dec) :
    DS s r.1 r.2 := by
  unfold stepUser at h
  dsimp only [nextSeq] at h
  split at h
  · simp at h
  split at h
  · rename_i t isTry n hk hp
    split at h
    · simp at h; subst h
      exact ⟨⟨rfl, rfl, rfl, rfl, rfl, rfl, rfl⟩, Or.inl ⟨rfl, by simp [quietO]⟩⟩
    · split at h
      · simp at h; subst h
        exact ⟨⟨rfl, rfl, rfl, rfl, rfl, rfl, rfl⟩, Or.inl ⟨rfl, by simp [quietO]⟩⟩
      · rename_i s1 k fl hg
        have hs : s.online = true ∧ s.birthed = true ∧ s1 = { s with seq := k } := by
          cases t with
          | node =>
            obtain ⟨a, ha, hb⟩ := Except_map_ok _ _ _ hg
            obtain ⟨a1, a2⟩ := a
            obtain ⟨h1, h2, h3⟩ := nextSeqIn_ok _ _ _ _ ha
            simp at hb
            obtain ⟨rfl, rfl, _⟩ := hb
            exact ⟨h1, h2, h3⟩
          | dev d =>
            dsimp only at hg
            split at hg
            · split at hg
              · simp at hg
              · obtain ⟨a, ha, hb⟩ := Except_map_ok _ _ _ hg
                obtain ⟨a1, a2⟩ := a
                obtain ⟨h1, h2, h3⟩ := nextSeqIn_ok _ _ _ _ ha
                simp at hb
                obtain ⟨rfl, rfl, _⟩ := hb
                exact ⟨h1, h2, h3⟩
            · simp at hg
        obtain ⟨h1, h2, rfl⟩ := hs
        simp only [handOver] at h
        repeat' split at h
        all_goals simp at h
        all_goals subst h
        all_goals
          refine ⟨⟨rfl, rfl, rfl, rfl, rfl, rfl, rfl⟩, Or.inr ⟨_, _, [], _, rfl, rfl, ?_, ?_, ?_, ?_⟩⟩
        all_goals simp [quietO, CK.bearsSeq, *]
  all_goals try simp only [handOver] at h
  all_goals repeat' split at h
  all_goals try simp at h
  all_goals try subst h
  all_goals first
    | exact ⟨⟨rfl, rfl, rfl, rfl, rfl, rfl, rfl⟩, Or.inl ⟨rfl, by simp [quietO]⟩⟩
    | (refine ⟨⟨rfl, rfl, rfl, rfl, rfl, rfl, rfl⟩, Or.inr ⟨_, _, [], _, rfl, rfl, ?_, ?_, ?_, ?_⟩⟩ <;>
        simp [quietO, CK.bearsSeq])

/-- what a stimulus does to the call log, and what it emits -/
def ST (s s' : St) (o : List Obs) : Prop :=
  (s'.calls = s.calls ∧ o = []) ∨
  (∃ id ok c, s.calls[id]? = some c ∧ c.res = none ∧
     s'.calls = s.calls.set id { c with res := some ok } ∧ o = [.resolved id ok])

theorem applyStim_sum (s : St) (x : Stim) :
    KeepD s (applyStim s x).1 ∧ ST s (applyStim s x).1 (applyStim s x).2 := by
  unfold applyStim
  repeat' split
  all_goals first
    | exact ⟨⟨rfl, rfl, rfl, rfl, rfl, rfl, rfl⟩, Or.inl ⟨rfl, rfl⟩⟩
    | exact ⟨⟨rfl, rfl, rfl, rfl, rfl, rfl, rfl⟩,
        Or.inr ⟨_, _, _, ‹_ = some _›, by simpa using ‹Option.isNone _ = true›, rfl, rfl⟩⟩

/-! ### the node task -/

/-- what a step of the node task does (`loop` and `nextOneshot` are never touched) -/
inductive NT (s s' : St) (o : List Obs) : Prop
  | quiet : quietN s.node = true → quietN s'.node = true → (s'.cs = s.cs ∨ s'.cs = none) →
      s'.online = s.online → s'.birthed = s.birthed → s'.oneshots = s.oneshots →
      s'.calls = s.calls → (∀ x ∈ o, quietO x = true) → NT s s' o
  | sub (c : Call) (dec : Dec) : s.node = .idle → s.cs = some .online → s.online = false →
      s'.cs = none → s'.online = true → s'.birthed = s.birthed → s'.oneshots = s.oneshots →
      s'.calls = s.calls ++ [c] → c.kind = .sub →
      o = [.call s.calls.length .sub c.dev c.seq c.bd c.isTry dec] →
      ((∃ ok, s'.node = .subDone ok) ∨ (∃ id, s'.node = .waitSub id)) → NT s s' o
  | offNo (o1 : Nat) : s.node = .idle → s.cs = some (.offline o1) → s.online = false →
      s'.cs = none → s'.oneshots = s.oneshots ++ [(o1, none)] → s'.online = s.online →
      s'.birthed = s.birthed → s'.node = s.node → s'.calls = s.calls → o = [] → NT s s' o
  | offYes (o1 bd : Nat) : s.node = .idle → s.cs = some (.offline o1) → s.online = true →
      s'.cs = none → s'.oneshots = s.oneshots ++ [(o1, some bd)] → s'.online = false →
      s'.birthed = false → s'.node = .idle → s'.calls = s.calls → o = [] → NT s s' o
  | rebirth (fc : Option Nat) : quietN s.node = true → s.birthed = true →
      s'.node = .birthStart .rebirth fc → s'.cs = s.cs → s'.online = s.online →
      s'.birthed = s.birthed → s'.oneshots = s.oneshots → s'.calls = s.calls → o = [] → NT s s' o
  | pre : ((∃ id, s.node = .waitSub id) ∨ (∃ ok, s.node = .subDone ok)) →
      ((∃ ok, s'.node = .subDone ok) ∨ s'.node = .birthStart .birth none ∨ s'.node = .idle) →
      s'.cs = s.cs → s'.online = s.online → s'.birthed = s.birthed → s'.oneshots = s.oneshots →
      s'.calls = s.calls → o = [] → NT s s' o
  | nb (bt : BT) (fc : Option Nat) (c : Call) (dec : Dec) : s.node = .birthStart bt fc →
      s'.birthed = false → s'.calls = s.calls ++ [c] → c.kind = .nbirth →
      o = [.bNode, .call s.calls.length .nbirth c.dev c.seq c.bd c.isTry dec] →
      ((dec = .acc ∧ s'.node = .nbDone true bt fc) ∨ (dec = .rej ∧ s'.node = .nbDone false bt fc) ∨
       (dec = .park ∧ s'.node = .waitNb s.calls.length bt fc ∧ c.res = none)) →
      s'.cs = s.cs → s'.online = s.online → s'.oneshots = s.oneshots → NT s s' o
  | nbRes (id : Nat) (ok : Bool) (bt : BT) (fc : Option Nat) : s.node = .waitNb id bt fc →
      callRes s id = some ok → s'.node = .nbDone ok bt fc →
      s'.cs = s.cs → s'.online = s.online → s'.birthed = s.birthed → s'.oneshots = s.oneshots →
      s'.calls = s.calls → o = [] → NT s s' o
  | nbFin (ok : Bool) (bt : BT) (fc : Option Nat) : s.node = .nbDone ok bt fc → s'.node = .idle →
      s'.birthed = (if ok then true else s.birthed) →
      s'.cs = s.cs → s'.online = s.online → s'.oneshots = s.oneshots →
      s'.calls = s.calls → o = [] → NT s s' o

theorem stepNode_sum (s : St) (dec : Dec) (r : St × List Obs) (h : r ∈ stepNode s dec) :
    r.1.loop = s.loop ∧ r.1.nextOneshot = s.nextOneshot ∧ NT s r.1 r.2 := by
  unfold stepNode at h
  cases dec
  all_goals simp [nodeBirthStart, handOver, callRes] at h
  all_goals repeat' split at h
  all_goals try simp at h
  all_goals try subst h
  all_goals try refine ⟨rfl, rfl, ?_⟩
  all_goals first
    | (refine NT.quiet ?_ ?_ ?_ ?_ ?_ ?_ ?_ ?_ <;> simp [quietN, quietO, *]; done)
    | (refine NT.sub _ _ ?_ ?_ ?_ rfl rfl rfl rfl rfl rfl rfl ?_ <;> simp [*]; done)
    | (refine NT.offNo _ ?_ ?_ ?_ rfl rfl rfl rfl ?_ rfl rfl <;> simp [*]; done)
    | (refine NT.offYes _ _ ?_ ?_ ?_ rfl rfl rfl rfl ?_ rfl rfl <;> simp [*]; done)
    | (refine NT.rebirth _ ?_ ?_ rfl ?_ rfl rfl rfl rfl rfl <;> simp [quietN, *]; done)
    | (refine NT.pre ?_ ?_ rfl rfl rfl rfl rfl rfl <;> simp [*]; done)
    | (refine NT.nb _ _ _ _ ‹_› rfl rfl rfl rfl ?_ rfl rfl rfl <;> simp [*]; done)
    | (refine NT.nbRes _ _ _ _ ‹_› ?_ rfl rfl rfl rfl rfl rfl rfl <;> simp [callRes, *]; done)
    | (refine NT.nbFin _ _ _ ‹_› rfl ?_ rfl rfl rfl rfl rfl <;> simp [*]; done)
    | skip

/-! ### the state invariant is inductive -/

/-! ### the state invariant is inductive -/

theorem SInv_of_DS (s s' : St) (o : List Obs) (hi : SInv s) (h : DS s s' o) : SInv s' := by
  obtain ⟨⟨k1, k2, k3, k4, k5, k6, k7⟩, ht⟩ := h
  obtain ⟨bo, busy, cg, wn, w, q0, q1, f1, f2, f3⟩ := hi
  have hr : ∀ o, reply? s' o = reply? s o := by intro o; simp [reply?, k6]
  constructor
  all_goals try simp only [k1, k2, k3, k4, k5, k6, k7, hr]
  all_goals try assumption
  · rcases ht with ⟨hc, _⟩ | ⟨c, dec, pre, post, hc, _, _, _, hb, _⟩
    · rw [hc]; exact cg
    · rw [hc]; intro c' hc' hk
      rcases List.mem_append.1 hc' with h | h
      · exact cg c' h hk
      · simp at h; subst h; exact ⟨(hb hk).2.2.1, (hb hk).2.2.2⟩
  · intro id bt fc hn
    refine ⟨(wn id bt fc hn).1, ?_⟩
    have := (wn id bt fc hn).2
    rcases ht with ⟨hc, _⟩ | ⟨c, dec, pre, post, hc, _⟩
    · rw [hc]; exact this
    · rw [hc]; simp; omega

theorem SInv_of_ST (s s' : St) (o : List Obs) (hi : SInv s) (hk : KeepD s s') (ht : ST s s' o) :
    SInv s' := by
  obtain ⟨k1, k2, k3, k4, k5, k6, k7⟩ := hk
  obtain ⟨bo, busy, cg, wn, w, q0, q1, f1, f2, f3⟩ := hi
  have hr : ∀ o, reply? s' o = reply? s o := by intro o; simp [reply?, k6]
  constructor
  all_goals try simp only [k1, k2, k3, k4, k5, k6, k7, hr]
  all_goals try assumption
  · rcases ht with ⟨hc, _⟩ | ⟨id, ok, c, hg, hres, hc, _⟩
    · rw [hc]; exact cg
    · rw [hc]; intro c' hc' hk
      rcases List.mem_or_eq_of_mem_set hc' with h | h
      · exact cg c' h hk
      · subst h; exact cg c (List.mem_of_getElem? hg) hk
  · intro id bt fc hn
    refine ⟨(wn id bt fc hn).1, ?_⟩
    have := (wn id bt fc hn).2
    rcases ht with ⟨hc, _⟩ | ⟨id, ok, c, hg, hres, hc, _⟩
    · rw [hc]; exact this
    · rw [hc]; simpa using this


theorem reply_append (s s' : St) (o1 : Nat) (x : Option Nat) (o : Nat)
    (h : s'.oneshots = s.oneshots ++ [(o1, x)]) :
    reply? s' o = (match reply? s o with
      | some r => some r
      | none => if o1 = o then some x else none) := by
  simp only [reply?, h, List.find?_append]
  cases hf : List.find? (fun x => x.fst == o) s.oneshots with
  | some p => simp
  | none =>
    by_cases ho : o1 = o <;> simp [ho]

theorem SInv_of_NT (s s' : St) (o : List Obs) (hi : SInv s) (hl : s'.loop = s.loop)
    (hn : s'.nextOneshot = s.nextOneshot) (ht : NT s s' o) : SInv s' := by
  obtain ⟨bo, busy, cg, wn, w, q0, q1, f1, f2, f3⟩ := hi
  have hfresh : reply? s s.nextOneshot = none :=
    reply_none_of_fresh s.oneshots s.nextOneshot s.nextOneshot f1 (Nat.le_refl _)
  cases ht with
  | quiet a1 a2 a3 a4 a5 a6 a7 a8 =>
    have hr : ∀ o, reply? s' o = reply? s o := by intro o; simp [reply?, a6]
    constructor <;> simp only [hl, hn, hr, a4, a5, a6, a7] <;> try assumption
    all_goals grind [quietN]
  | sub c dec a1 a2 a3 a4 a5 a6 a7 a8 a9 a10 a11 =>
    have hr : ∀ o, reply? s' o = reply? s o := by intro o; simp [reply?, a7]
    constructor <;> simp only [hl, hn, hr, a4, a5, a6, a7, a8] <;> try assumption
    all_goals grind [quietN, CK.bearsSeq]
  | offNo o1 a1 a2 a3 a4 a5 a6 a7 a8 a9 a10 =>
    have hr := fun o => reply_append s s' o1 none o a5
    constructor <;> simp only [hl, hn, hr, a4, a5, a6, a7, a8, a9] <;> try assumption
    all_goals grind [quietN]
  | offYes o1 bd a1 a2 a3 a4 a5 a6 a7 a8 a9 a10 =>
    have hr := fun o => reply_append s s' o1 (some bd) o a5
    constructor <;> simp only [hl, hn, hr, a4, a5, a6, a7, a8, a9] <;> try assumption
    all_goals grind [quietN]
  | rebirth fc a1 a2 a3 a4 a5 a6 a7 a8 a9 =>
    have hr : ∀ o, reply? s' o = reply? s o := by intro o; simp [reply?, a7]
    constructor <;> simp only [hl, hn, hr, a3, a4, a5, a6, a7, a8] <;> try assumption
    all_goals grind [quietN]
  | pre a1 a2 a3 a4 a5 a6 a7 a8 =>
    have hr : ∀ o, reply? s' o = reply? s o := by intro o; simp [reply?, a6]
    constructor <;> simp only [hl, hn, hr, a3, a4, a5, a6, a7] <;> try assumption
    all_goals grind [quietN]
  | nb bt fc c dec a1 a2 a3 a4 a5 a6 a7 a8 a9 =>
    have hr : ∀ o, reply? s' o = reply? s o := by intro o; simp [reply?, a9]
    constructor <;> simp only [hl, hn, hr, a2, a3, a7, a8, a9] <;> try assumption
    all_goals grind [quietN, CK.bearsSeq]
  | nbRes id ok bt fc a1 a2 a3 a4 a5 a6 a7 a8 a9 =>
    have hr : ∀ o, reply? s' o = reply? s o := by intro o; simp [reply?, a7]
    constructor <;> simp only [hl, hn, hr, a3, a4, a5, a6, a7, a8] <;> try assumption
    all_goals grind [quietN]
  | nbFin ok bt fc a1 a2 a3 a4 a5 a6 a7 a8 =>
    have hr : ∀ o, reply? s' o = reply? s o := by intro o; simp [reply?, a6]
    constructor <;> simp only [hl, hn, hr, a2, a3, a4, a5, a6, a7] <;> try assumption
    all_goals grind [quietN]
/-! ### executions -/

/-- one step of an execution, summarised -/
inductive Step (s s' : St) (o : List Obs) : Prop
  | loop : KeepL s s' → LT s s' → LoopObs s o → Step s s' o
  | node : s'.loop = s.loop → s'.nextOneshot = s.nextOneshot → NT s s' o → Step s s' o
  | data : DS s s' o → Step s s' o
  | stim : KeepD s s' → ST s s' o → Step s s' o

theorem runAct_Step (s s' : St) (a : Act) (o : List Obs) (h : runAct s a = some (s', o)) :
    Step s s' o := by
  cases a with
  | stim x =>
    simp only [runAct, Option.some.injEq] at h
    have := applyStim_sum s x
    rw [h] at this
    exact .stim this.1 this.2
  | task t dec k =>
    have hm := List.mem_of_getElem? h
    cases t with
    | loop => have := stepLoop_sum s _ hm; exact .loop this.1 this.2.1 this.2.2
    | loopTimeout =>
      have := stepLoopTimeout_sum s _ hm
      have h3 : o = [] := this.2.2
      exact .loop this.1 this.2.1 (Or.inl (by rw [h3]; simp))
    | node => have := stepNode_sum s dec _ hm; exact .node this.1 this.2.1 this.2.2
    | dev d => exact .data (stepDev_sum s d dec _ hm)
    | user j => exact .data (stepUser_sum s j dec _ hm)

theorem SInv_Step (s s' : St) (o : List Obs) (hi : SInv s) (h : Step s s' o) : SInv s' := by
  cases h with
  | loop a b c => exact SInv_of_LT s s' hi a b
  | node a b c => exact SInv_of_NT s s' o hi a b c
  | data a => exact SInv_of_DS s s' o hi a
  | stim a b => exact SInv_of_ST s s' o hi a b

theorem runActs_cons (s : St) (a : Act) (as : List Act) (s2 : St) (tr : List Obs)
    (h : runActs s (a :: as) = some (s2, tr)) :
    ∃ s1 o1 o2, runAct s a = some (s1, o1) ∧ runActs s1 as = some (s2, o2) ∧ tr = o1 ++ o2 := by
  simp only [runActs] at h
  split at h
  · simp at h
  · rename_i s1 o1 h1
    split at h
    · simp at h
    · rename_i s2' o2 h2
      simp at h
      exact ⟨s1, o1, o2, h1, by rw [h2, h.1], h.2.symm⟩

theorem SInv_runActs (acts : List Act) : ∀ (s s' : St) (tr : List Obs), SInv s →
    runActs s acts = some (s', tr) → SInv s' := by
  induction acts with
  | nil => intro s s' tr hi h; simp [runActs] at h; rw [← h.1]; exact hi
  | cons a as ih =>
    intro s s' tr hi h
    obtain ⟨s1, o1, o2, h1, h2, _⟩ := runActs_cons s a as s' tr h
    exact ih s1 s' o2 (SInv_Step s s1 o1 hi (runAct_Step s s1 a o1 h1)) h2

/-! ### the gate scanner -/

def gateChk (live : Bool) : Obs → Bool
  | .call _ k _ _ _ _ _ => if k == .sub || k == .nbirth then true else if k.bearsSeq then live else true
  | _ => true

def gateNext (live : Bool) (pend : Option Nat) : Obs → Bool × Option Nat
  | .call id k _ _ _ _ dec =>
    if k == .sub then (false, none)
    else if k == .nbirth then
      (match dec with
       | .acc => (true, none)
       | .rej => (false, none)
       | .park => (false, some id))
    else (live, pend)
  | .bNode => (false, none)
  | .resolved id ok => if pend == some id then (ok, none) else (live, pend)
  | .will _ => (false, none)
  | _ => (live, pend)

def gateAfter (live : Bool) (pend : Option Nat) : List Obs → Bool × Option Nat
  | [] => (live, pend)
  | o :: t => gateAfter (gateNext live pend o).1 (gateNext live pend o).2 t

theorem gateOk_cons (live : Bool) (pend : Option Nat) (o : Obs) (t : List Obs) :
    gateOk live pend (o :: t) =
      (gateChk live o && gateOk (gateNext live pend o).1 (gateNext live pend o).2 t) := by
  cases o with
  | call id k d sq bd it dec =>
    cases k <;> cases dec <;> simp [gateOk, gateChk, gateNext, CK.bearsSeq]
  | resolved id ok =>
    by_cases h : pend = some id <;> simp [gateOk, gateChk, gateNext, h]
  | _ => simp [gateOk, gateChk, gateNext]

theorem gateOk_append (t1 t2 : List Obs) : ∀ (live : Bool) (pend : Option Nat),
    gateOk live pend (t1 ++ t2) =
      (gateOk live pend t1 && gateOk (gateAfter live pend t1).1 (gateAfter live pend t1).2 t2) := by
  induction t1 with
  | nil => intro live pend; simp [gateOk, gateAfter]
  | cons o t ih =>
    intro live pend
    simp only [List.cons_append, gateOk_cons, gateAfter, ih, Bool.and_assoc]

theorem gate_quiet (o : List Obs) (h : ∀ x ∈ o, quietO x = true) : ∀ (live : Bool) (pend : Option Nat),
    gateOk live pend o = true ∧ gateAfter live pend o = (live, pend) := by
  induction o with
  | nil => intro live pend; simp [gateOk, gateAfter]
  | cons x t ih =>
    intro live pend
    have hx := h x (by simp)
    have ht := ih (fun y hy => h y (by simp [hy]))
    cases x <;> simp [quietO] at hx <;> simp [gateOk_cons, gateAfter, gateChk, gateNext, ht]

theorem gateAfter_append (t1 t2 : List Obs) : ∀ (live : Bool) (pend : Option Nat),
    gateAfter live pend (t1 ++ t2) =
      gateAfter (gateAfter live pend t1).1 (gateAfter live pend t1).2 t2 := by
  induction t1 with
  | nil => intro live pend; rfl
  | cons o t ih => intro live pend; simp only [List.cons_append, gateAfter, ih]

theorem gate_call (pre post : List Obs) (id : Nat) (k : CK) (d sq bd : Option Nat) (it : Bool)
    (dec : Dec) (hpre : ∀ x ∈ pre, quietO x = true) (hpost : ∀ x ∈ post, quietO x = true)
    (hk : k.bearsSeq = true ∨ k = .ndeath ∨ k = .disconnect) (live : Bool) (pend : Option Nat) :
    gateOk live pend (pre ++ Obs.call id k d sq bd it dec :: post) = (if k.bearsSeq then live else true) ∧
    gateAfter live pend (pre ++ Obs.call id k d sq bd it dec :: post) = (live, pend) := by
  have h1 := gate_quiet pre hpre live pend
  have h2 := gate_quiet post hpost live pend
  have hn : gateNext live pend (Obs.call id k d sq bd it dec) = (live, pend) := by
    rcases hk with hk | hk | hk <;> cases k <;> simp_all [gateNext, CK.bearsSeq]
  have hc : gateChk live (Obs.call id k d sq bd it dec) = (if k.bearsSeq then live else true) := by
    rcases hk with hk | hk | hk <;> cases k <;> simp_all [gateChk, CK.bearsSeq]
  constructor
  · rw [gateOk_append, h1.1, h1.2, gateOk_cons, hn, hc, h2.1]; simp
  · rw [gateAfter_append, h1.2]; simp only [gateAfter, hn]; exact h2.2

theorem callRes_calls (s s' : St) (id : Nat) (h : s'.calls = s.calls) : callRes s' id = callRes s id := by
  simp [callRes, h]

theorem callRes_append_lt (s s' : St) (c : Call) (id : Nat) (h : s'.calls = s.calls ++ [c])
    (hl : id < s.calls.length) : callRes s' id = callRes s id := by
  simp [callRes, h, List.getElem?_append_left hl]

theorem callRes_append_len (s s' : St) (c : Call) (h : s'.calls = s.calls ++ [c]) :
    callRes s' s.calls.length = c.res := by
  simp [callRes, h]

theorem callRes_lt (s : St) (id : Nat) (r : Bool) (h : callRes s id = some r) : id < s.calls.length := by
  unfold callRes at h
  cases hg : s.calls[id]? with
  | none => simp [hg] at h
  | some c => exact (List.getElem?_eq_some_iff.1 hg).1

theorem callRes_set_ne (s s' : St) (c : Call) (id id2 : Nat) (h : s'.calls = s.calls.set id c)
    (hne : id2 ≠ id) : callRes s' id2 = callRes s id2 := by
  simp [callRes, h, List.getElem?_set_ne (Ne.symm hne)]

theorem callRes_set_eq (s s' : St) (c c0 : Call) (id : Nat) (h : s'.calls = s.calls.set id c)
    (hg : s.calls[id]? = some c0) : callRes s' id = c.res := by
  have hl := (List.getElem?_eq_some_iff.1 hg).1
  simp [callRes, h, hl]

structure GInv (s : St) (live : Bool) (pend : Option Nat) : Prop where
  a : s.birthed = true → live = true
  b : ∀ bt fc, s.node = .nbDone true bt fc → live = true
  c : ∀ id bt fc, s.node = .waitNb id bt fc →
        (callRes s id = none → pend = some id) ∧ (callRes s id = some true → live = true)
  d : ∀ id, pend = some id → (∃ bt fc, s.node = .waitNb id bt fc) ∧ callRes s id = none

theorem gate_step (s s' : St) (o : List Obs) (live : Bool) (pend : Option Nat) (hs : SInv s)
    (hg : GInv s live pend) (h : Step s s' o) :
    gateOk live pend o = true ∧ GInv s' (gateAfter live pend o).1 (gateAfter live pend o).2 := by
  obtain ⟨bo, busy, cg, wn, w, q0, q1, f1, f2, f3⟩ := hs
  obtain ⟨ga, gb, gc, gd⟩ := hg
  cases h with
  | loop hk ht ho =>
    obtain ⟨k1, k2, k3, k4, k5⟩ := hk
    have hr := fun id => callRes_calls s s' id k4
    rcases ho with ho | ⟨bd, rfl, ho⟩
    · obtain ⟨h1, h2⟩ := gate_quiet o ho live pend
      refine ⟨h1, ?_⟩
      rw [h2]
      constructor <;> simp only [k2, k3, hr] <;> assumption
    · refine ⟨by simp [gateOk], ?_⟩
      have hq : s.birthed = false ∧ quietN s.node = true := by
        rcases ho with ho | ⟨o', h1, h2⟩
        · exact q0 ho
        · exact q1 o' bd h1 h2
      simp only [gateAfter, gateNext]
      constructor <;> simp only [k2, k3, hr] <;> grind [quietN]
  | data hd =>
    obtain ⟨⟨k1, k2, k3, k4, k5, k6, k7⟩, ht⟩ := hd
    rcases ht with ⟨hc, ho⟩ | ⟨c, dec, pre, post, hc, rfl, hpre, hpost, hb, hk⟩
    · have hr := fun id => callRes_calls s s' id hc
      obtain ⟨h1, h2⟩ := gate_quiet o ho live pend
      refine ⟨h1, ?_⟩
      rw [h2]
      constructor <;> simp only [k2, k3, hr] <;> assumption
    · obtain ⟨h1, h2⟩ := gate_call pre post s.calls.length c.kind c.dev c.seq c.bd c.isTry dec hpre hpost
        hk live pend
      have hr : ∀ id bt fc, s.node = .waitNb id bt fc → callRes s' id = callRes s id :=
        fun id bt fc hn => callRes_append_lt s s' c id hc (wn id bt fc hn).2
      refine ⟨?_, ?_⟩
      · rw [h1]; split
        · rename_i hbs; exact ga (hb hbs).2.1
        · rfl
      · rw [h2]
        constructor <;> simp only [k2, k3] <;> try assumption
        · intro id bt fc hn; rw [hr id bt fc hn]; exact gc id bt fc hn
        · intro id hp
          obtain ⟨⟨bt, fc, hn⟩, h4⟩ := gd id hp
          exact ⟨⟨bt, fc, hn⟩, by rw [hr id bt fc hn]; exact h4⟩
  | stim hk ht =>
    obtain ⟨k1, k2, k3, k4, k5, k6, k7⟩ := hk
    rcases ht with ⟨hc, rfl⟩ | ⟨id, ok, c, hgc, hres, hc, rfl⟩
    · have hr := fun id => callRes_calls s s' id hc
      refine ⟨by simp [gateOk], ?_⟩
      simp only [gateAfter]
      constructor <;> simp only [k2, k3, hr] <;> assumption
    · refine ⟨by simp [gateOk], ?_⟩
      have hne := fun id2 (hne : id2 ≠ id) => callRes_set_ne s s' _ id id2 hc hne
      have heq : callRes s' id = some ok := callRes_set_eq s s' _ c id hc hgc
      have hold : callRes s id = none := by simp [callRes, hgc, hres]
      simp only [gateAfter, gateNext]
      by_cases hp : pend = some id
      · simp only [hp, beq_self_eq_true, if_true]
        obtain ⟨⟨bt, fc, hn⟩, _⟩ := gd id hp
        constructor <;> simp only [k2, k3] <;> grind
      · have hp' : (pend == some id) = false := by simpa using hp
        simp only [hp', Bool.false_eq_true, if_false]
        constructor <;> simp only [k2, k3] <;> try assumption
        · intro id2 bt fc hn
          by_cases h2 : id2 = id
          · subst h2; exact absurd ((gc id2 bt fc hn).1 hold) hp
          · rw [hne id2 h2]; exact gc id2 bt fc hn
        · intro id2 hp2
          have h2 : id2 ≠ id := by rintro rfl; exact hp hp2
          rw [hne id2 h2]; exact gd id2 hp2
  | node hl hn ht =>
    cases ht with
    | quiet a1 a2 a3 a4 a5 a6 a7 a8 =>
      have hr := fun id => callRes_calls s s' id a7
      obtain ⟨h1, h2⟩ := gate_quiet o a8 live pend
      refine ⟨h1, ?_⟩
      rw [h2]
      constructor <;> (try simp only [a5, hr]) <;> grind [quietN]
    | sub c dec a1 a2 a3 a4 a5 a6 a7 a8 a9 a10 a11 =>
      subst a10
      refine ⟨by simp [gateOk], ?_⟩
      simp only [gateAfter, gateNext]
      constructor <;> (try simp only [a6]) <;> grind
    | offNo o1 a1 a2 a3 a4 a5 a6 a7 a8 a9 a10 =>
      subst a10
      have hr := fun id => callRes_calls s s' id a9
      refine ⟨by simp [gateOk], ?_⟩
      simp only [gateAfter]
      constructor <;> (try simp only [a7, a8, hr]) <;> assumption
    | offYes o1 bd a1 a2 a3 a4 a5 a6 a7 a8 a9 a10 =>
      subst a10
      have hr := fun id => callRes_calls s s' id a9
      refine ⟨by simp [gateOk], ?_⟩
      simp only [gateAfter]
      constructor <;> (try simp only [a7, a8, hr]) <;> grind
    | rebirth fc a1 a2 a3 a4 a5 a6 a7 a8 a9 =>
      subst a9
      have hr := fun id => callRes_calls s s' id a8
      refine ⟨by simp [gateOk], ?_⟩
      simp only [gateAfter]
      constructor <;> (try simp only [a3, a6, hr]) <;> grind [quietN]
    | pre a1 a2 a3 a4 a5 a6 a7 a8 =>
      subst a8
      have hr := fun id => callRes_calls s s' id a7
      refine ⟨by simp [gateOk], ?_⟩
      simp only [gateAfter]
      constructor <;> (try simp only [a5, hr]) <;> grind
    | nb bt fc c dec a1 a2 a3 a4 a5 a6 a7 a8 a9 =>
      subst a5
      have hlen := callRes_append_len s s' c a3
      rcases a6 with ⟨rfl, h6⟩ | ⟨rfl, h6⟩ | ⟨rfl, h6, h7⟩
      all_goals refine ⟨by simp [gateOk], ?_⟩
      all_goals simp only [gateAfter, gateNext]
      all_goals constructor <;> (try simp only [a2, h6]) <;> grind
    | nbRes id ok bt fc a1 a2 a3 a4 a5 a6 a7 a8 a9 =>
      subst a9
      have hr := fun id => callRes_calls s s' id a8
      refine ⟨by simp [gateOk], ?_⟩
      simp only [gateAfter]
      constructor <;> (try simp only [a3, a6, hr]) <;> grind
    | nbFin ok bt fc a1 a2 a3 a4 a5 a6 a7 a8 =>
      subst a8
      have hr := fun id => callRes_calls s s' id a7
      refine ⟨by simp [gateOk], ?_⟩
      simp only [gateAfter]
      constructor <;> (try simp only [a2, a3, hr]) <;> grind


theorem GInv_init (cd : Nat) : GInv (init cd) false none := by
  constructor <;> simp [init]

theorem gate_runActs (acts : List Act) : ∀ (s s' : St) (live : Bool) (pend : Option Nat)
    (tr : List Obs), SInv s → GInv s live pend → runActs s acts = some (s', tr) →
    gateOk live pend tr = true := by
  induction acts with
  | nil => intro s s' live pend tr _ _ h; simp [runActs] at h; rw [h.2]; simp [gateOk]
  | cons a as ih =>
    intro s s' live pend tr hi hg h
    obtain ⟨s1, o1, o2, h1, h2, rfl⟩ := runActs_cons s a as s' tr h
    have hst := runAct_Step s s1 a o1 h1
    obtain ⟨g1, g2⟩ := gate_step s s1 o1 live pend hi hg hst
    rw [gateOk_append, g1, Bool.true_and]
    exact ih s1 s' _ _ o2 (SInv_Step s s1 o1 hi hst) g2 h2

/-! ### the first-after-subscribe scanner -/

def fasChk (w : Bool) : Obs → Bool
  | .call _ k _ _ _ _ _ =>
    if k == .sub then true else if w then (k == .nbirth || k == .ndeath || k == .disconnect) else true
  | _ => true

def fasNext (w : Bool) : Obs → Bool
  | .call _ k _ _ _ _ _ => if k == .sub then true else if w then (if k == .nbirth then false else true) else false
  | _ => w

def fasAfter (w : Bool) : List Obs → Bool
  | [] => w
  | o :: t => fasAfter (fasNext w o) t

theorem fas_cons (w : Bool) (o : Obs) (t : List Obs) :
    firstAfterSubOk w (o :: t) = (fasChk w o && firstAfterSubOk (fasNext w o) t) := by
  cases o with
  | call id k d sq bd it dec =>
    cases k <;> cases w <;> simp [firstAfterSubOk, fasChk, fasNext]
  | _ => cases w <;> simp [firstAfterSubOk, fasChk, fasNext]

theorem fas_append (t1 t2 : List Obs) : ∀ (w : Bool),
    firstAfterSubOk w (t1 ++ t2) = (firstAfterSubOk w t1 && firstAfterSubOk (fasAfter w t1) t2) := by
  induction t1 with
  | nil => intro w; simp [firstAfterSubOk, fasAfter]
  | cons o t ih => intro w; simp only [List.cons_append, fas_cons, fasAfter, ih, Bool.and_assoc]

theorem fasAfter_append (t1 t2 : List Obs) : ∀ (w : Bool),
    fasAfter w (t1 ++ t2) = fasAfter (fasAfter w t1) t2 := by
  induction t1 with
  | nil => intro w; rfl
  | cons o t ih => intro w; simp only [List.cons_append, fasAfter, ih]

theorem fas_quiet (o : List Obs) (h : ∀ x ∈ o, quietO x = true) : ∀ (w : Bool),
    firstAfterSubOk w o = true ∧ fasAfter w o = w := by
  induction o with
  | nil => intro w; simp [firstAfterSubOk, fasAfter]
  | cons x t ih =>
    intro w
    have hx := h x (by simp)
    have ht := ih (fun y hy => h y (by simp [hy]))
    cases x <;> simp [quietO] at hx <;> simp [fas_cons, fasAfter, fasChk, fasNext, ht]

def preNb : NodePc → Bool
  | .waitNb _ _ _ | .nbDone _ _ _ => false
  | _ => true

def FInv (s : St) (w : Bool) : Prop := w = true → s.birthed = false ∧ preNb s.node = true

theorem fas_call (pre post : List Obs) (id : Nat) (k : CK) (d sq bd : Option Nat) (it : Bool)
    (dec : Dec) (hpre : ∀ x ∈ pre, quietO x = true) (hpost : ∀ x ∈ post, quietO x = true)
    (hk : k.bearsSeq = true ∨ k = .ndeath ∨ k = .disconnect) (w : Bool) :
    firstAfterSubOk w (pre ++ Obs.call id k d sq bd it dec :: post) = (if k.bearsSeq then !w else true) ∧
    (k.bearsSeq = false → fasAfter w (pre ++ Obs.call id k d sq bd it dec :: post) = w) ∧
    (w = false → fasAfter w (pre ++ Obs.call id k d sq bd it dec :: post) = false) := by
  have h1 := fas_quiet pre hpre w
  have h2 := fun w => fas_quiet post hpost w
  refine ⟨?_, ?_, ?_⟩
  · rw [fas_append, h1.1, h1.2, fas_cons, (h2 _).1]
    rcases hk with hk | hk | hk <;> cases k <;> cases w <;> simp_all [fasChk, CK.bearsSeq]
  · intro hb
    rw [fasAfter_append, h1.2]; simp only [fasAfter, (h2 _).2]
    rcases hk with hk | hk | hk <;> cases k <;> cases w <;> simp_all [fasNext, CK.bearsSeq]
  · intro hw
    rw [fasAfter_append, h1.2]; simp only [fasAfter, (h2 _).2]
    rcases hk with hk | hk | hk <;> cases k <;> simp_all [fasNext, CK.bearsSeq]

theorem preNb_of_quiet (n : NodePc) (h : quietN n = true) : preNb n = true := by
  cases n <;> simp [quietN, preNb] at *

theorem fas_step (s s' : St) (o : List Obs) (w : Bool) (hs : SInv s)
    (hf : FInv s w) (h : Step s s' o) :
    firstAfterSubOk w o = true ∧ FInv s' (fasAfter w o) := by
  obtain ⟨bo, busy, cg, wn, _, q0, q1, f1, f2, f3⟩ := hs
  unfold FInv at *
  cases h with
  | loop hk ht ho =>
    obtain ⟨k1, k2, k3, k4, k5⟩ := hk
    rcases ho with ho | ⟨bd, rfl, ho⟩
    · obtain ⟨h1, h2⟩ := fas_quiet o ho w
      refine ⟨h1, ?_⟩
      rw [h2, k2, k3]; exact hf
    · refine ⟨by simp [firstAfterSubOk], ?_⟩
      simp only [fasAfter, fasNext]
      rw [k2, k3]; exact hf
  | data hd =>
    obtain ⟨⟨k1, k2, k3, k4, k5, k6, k7⟩, ht⟩ := hd
    rcases ht with ⟨hc, ho⟩ | ⟨c, dec, pre, post, hc, rfl, hpre, hpost, hb, hk⟩
    · obtain ⟨h1, h2⟩ := fas_quiet o ho w
      refine ⟨h1, ?_⟩
      rw [h2, k2, k3]; exact hf
    · obtain ⟨h1, h2, h3⟩ := fas_call pre post s.calls.length c.kind c.dev c.seq c.bd c.isTry dec hpre hpost
        hk w
      rw [k2, k3]
      cases hbs : c.kind.bearsSeq with
      | true =>
        have hbt := (hb hbs).2.1
        have hw : w = false := by
          cases w with
          | false => rfl
          | true => have := (hf rfl).1; simp [hbt] at this
        refine ⟨by rw [h1, hbs, hw]; rfl, ?_⟩
        rw [h3 hw]; intro hh; cases hh
      | false =>
        refine ⟨by rw [h1, hbs]; rfl, ?_⟩
        rw [h2 hbs]; exact hf
  | stim hk ht =>
    obtain ⟨k1, k2, k3, k4, k5, k6, k7⟩ := hk
    rcases ht with ⟨hc, rfl⟩ | ⟨id, ok, c, hgc, hres, hc, rfl⟩
    · refine ⟨by simp [firstAfterSubOk], ?_⟩
      simp only [fasAfter]; rw [k2, k3]; exact hf
    · refine ⟨by simp [firstAfterSubOk], ?_⟩
      simp only [fasAfter, fasNext]; rw [k2, k3]; exact hf
  | node hl hn ht =>
    cases ht with
    | quiet a1 a2 a3 a4 a5 a6 a7 a8 =>
      obtain ⟨h1, h2⟩ := fas_quiet o a8 w
      refine ⟨h1, ?_⟩
      rw [h2, a5]; intro hw; exact ⟨(hf hw).1, preNb_of_quiet _ a2⟩
    | sub c dec a1 a2 a3 a4 a5 a6 a7 a8 a9 a10 a11 =>
      subst a10
      refine ⟨by simp [firstAfterSubOk], ?_⟩
      simp only [fasAfter, fasNext]
      grind [preNb]
    | offNo o1 a1 a2 a3 a4 a5 a6 a7 a8 a9 a10 =>
      subst a10
      refine ⟨by simp [firstAfterSubOk], ?_⟩
      simp only [fasAfter]; rw [a7, a8]; exact hf
    | offYes o1 bd a1 a2 a3 a4 a5 a6 a7 a8 a9 a10 =>
      subst a10
      refine ⟨by simp [firstAfterSubOk], ?_⟩
      simp only [fasAfter]; grind [preNb]
    | rebirth fc a1 a2 a3 a4 a5 a6 a7 a8 a9 =>
      subst a9
      refine ⟨by simp [firstAfterSubOk], ?_⟩
      simp only [fasAfter]; grind [preNb]
    | pre a1 a2 a3 a4 a5 a6 a7 a8 =>
      subst a8
      refine ⟨by simp [firstAfterSubOk], ?_⟩
      simp only [fasAfter]; grind [preNb]
    | nb bt fc c dec a1 a2 a3 a4 a5 a6 a7 a8 a9 =>
      subst a5
      refine ⟨by cases w <;> simp [firstAfterSubOk], ?_⟩
      simp [fasAfter, fasNext]
    | nbRes id ok bt fc a1 a2 a3 a4 a5 a6 a7 a8 a9 =>
      subst a9
      refine ⟨by simp [firstAfterSubOk], ?_⟩
      simp only [fasAfter]; grind [preNb]
    | nbFin ok bt fc a1 a2 a3 a4 a5 a6 a7 a8 =>
      subst a8
      refine ⟨by simp [firstAfterSubOk], ?_⟩
      simp only [fasAfter]; grind [preNb]

theorem fas_runActs (acts : List Act) : ∀ (s s' : St) (w : Bool)
    (tr : List Obs), SInv s → FInv s w → runActs s acts = some (s', tr) →
    firstAfterSubOk w tr = true := by
  induction acts with
  | nil => intro s s' w tr _ _ h; simp [runActs] at h; rw [h.2]; simp [firstAfterSubOk]
  | cons a as ih =>
    intro s s' w tr hi hg h
    obtain ⟨s1, o1, o2, h1, h2, rfl⟩ := runActs_cons s a as s' tr h
    have hst := runAct_Step s s1 a o1 h1
    obtain ⟨g1, g2⟩ := fas_step s s1 o1 w hi hg hst
    rw [fas_append, g1, Bool.true_and]
    exact ih s1 s' _ o2 (SInv_Step s s1 o1 hi hst) g2 h2

/-! ### refused publishes (state level) -/

theorem node_publish_refused (s : St) (j : Nat) (isTry : Bool) (n : Nat) (dec : Dec)
    (r : St × List Obs) (hn : 0 < n)
    (hu : s.ucalls.find? (·.j == j) = some { j := j, kind := .pub .node isTry n, pc := .start })
    (hgate : ¬ (s.online = true ∧ s.birthed = true))
    (h : r ∈ stepUser s j dec) :
    (r.2 = [.ures j .offline] ∨ r.2 = [.ures j .unbirthed]) ∧ r.1.calls = s.calls ∧ r.1.seq = s.seq := by
  have hn0 : n ≠ 0 := by omega
  simp only [stepUser, hu, hn0, if_false, nextSeq, nextSeqIn] at h
  cases ho : s.online <;> cases hb : s.birthed <;> simp [ho, hb, Except.map] at h hgate <;> subst h <;> simp

theorem device_publish_refused (s : St) (j d : Nat) (isTry : Bool) (n : Nat) (dec : Dec)
    (r : St × List Obs) (hn : 0 < n)
    (hu : s.ucalls.find? (·.j == j) = some { j := j, kind := .pub (.dev d) isTry n, pc := .start })
    (hgate : ¬ (s.online = true ∧ s.birthed = true) ∨
             (∀ x, findDev d s.devs = some x → x.flag = false ∨ x.epoch ≠ s.epoch))
    (h : r ∈ stepUser s j dec) :
    (r.2 = [.ures j .offline] ∨ r.2 = [.ures j .unbirthed]) ∧ r.1.calls = s.calls ∧ r.1.seq = s.seq := by
  have hn0 : n ≠ 0 := by omega
  simp only [stepUser, hu, hn0, if_false, nextSeqIn] at h
  cases hf : findDev d s.devs with
  | none => simp [hf] at h; subst h; simp
  | some x =>
    simp only [hf] at h
    cases hfl : x.flag with
    | false => simp [hfl] at h; subst h; simp
    | true =>
      cases ho : s.online <;> cases hb : s.birthed <;> simp [hfl, ho, hb, Except.map] at h hgate
      · subst h; simp
      · subst h; simp
      · subst h; simp
      · have := hgate x hf
        simp [hfl] at this
        simp [this] at h
        subst h; simp

end Srad.Eon.P01
