import SradModel.Model.HostSpec
import SradModel.Proofs.Reseq

set_option linter.unusedSimpArgs false

namespace Srad.Host

/-! ### trace lifecycles -/

theorem nodeLife_cons (l : Life) (e : Eff) (t : List Eff) :
    nodeLife l (e :: t) = nodeLife (nodeLife l [e]) t := by
  cases e <;> try simp [nodeLife]
  case nodeBirth id ok => cases ok <;> simp [nodeLife]

theorem devLife_cons (d : Nat) (l : Life) (e : Eff) (t : List Eff) :
    devLife d l (e :: t) = devLife d (devLife d l [e]) t := by
  cases e <;> try simp [devLife]
  case devBirth d' id ok => cases ok <;> simp [devLife] <;> split <;> rfl
  case devStale d' => split <;> rfl

theorem nodeLife_append (l : Life) (a b : List Eff) :
    nodeLife l (a ++ b) = nodeLife (nodeLife l a) b := by
  induction a generalizing l with
  | nil => rfl
  | cons e t ih => rw [List.cons_append, nodeLife_cons, ih, ← nodeLife_cons]

theorem devLife_append (d : Nat) (l : Life) (a b : List Eff) :
    devLife d l (a ++ b) = devLife d (devLife d l a) b := by
  induction a generalizing l with
  | nil => rfl
  | cons e t ih => rw [List.cons_append, devLife_cons, ih, ← devLife_cons]

/-- effects that do not change the node store's lifecycle -/
def Eff.nodeNeutral : Eff → Bool
  | .nodeBirth _ true | .nodeStale => false
  | _ => true

/-- effects that do not change any device store's lifecycle -/
def Eff.devNeutral : Eff → Bool
  | .devBirth _ _ true | .devStale _ => false
  | _ => true

def Eff.isData : Eff → Bool
  | .nodeData _ | .devData _ _ => true
  | _ => false

theorem nodeLife_neutral (l : Life) (es : List Eff) (h : ∀ e ∈ es, e.nodeNeutral = true) :
    nodeLife l es = l := by
  induction es with
  | nil => rfl
  | cons e t ih =>
    rw [nodeLife_cons]
    have he := h e (List.mem_cons_self ..)
    have : nodeLife l [e] = l := by
      cases e <;> try simp [nodeLife]
      case nodeBirth id ok => cases ok <;> simp_all [nodeLife, Eff.nodeNeutral]
      case nodeStale => simp [Eff.nodeNeutral] at he
    rw [this]
    exact ih (fun e he => h e (List.mem_cons_of_mem _ he))

theorem devLife_neutral (d : Nat) (l : Life) (es : List Eff) (h : ∀ e ∈ es, e.devNeutral = true) :
    devLife d l es = l := by
  induction es with
  | nil => rfl
  | cons e t ih =>
    rw [devLife_cons]
    have he := h e (List.mem_cons_self ..)
    have : devLife d l [e] = l := by
      cases e <;> try simp [devLife]
      case devBirth d' id ok => cases ok <;> simp_all [devLife, Eff.devNeutral]
      case devStale => simp [Eff.devNeutral] at he
    rw [this]
    exact ih (fun e he => h e (List.mem_cons_of_mem _ he))

theorem devLife_map_stale (d : Nat) (l : Life) (L : List (Nat × Life)) :
    devLife d l (L.map fun x => Eff.devStale x.1) =
      if d ∈ L.map Prod.fst then .stale else l := by
  induction L generalizing l with
  | nil => rfl
  | cons a t ih =>
    simp only [List.map_cons, devLife, List.mem_cons]
    by_cases h : a.1 = d
    · simp [h, ih]
    · have : ¬ d = a.1 := fun h' => h h'.symm
      simp only [h, ih, this, false_or, if_false]

theorem devLife_filter_stale (d : Nat) (l : Life) (L : List (Nat × Life)) :
    devLife d l ((L.filter fun x => x.2 == Life.birthed).map fun x => Eff.devStale x.1) =
      if (d, Life.birthed) ∈ L then .stale else l := by
  induction L generalizing l with
  | nil => rfl
  | cons a t ih =>
    obtain ⟨d', l'⟩ := a
    cases l' with
    | stale =>
      have : (List.filter (fun x : Nat × Life => x.2 == Life.birthed) ((d', Life.stale) :: t))
          = List.filter (fun x : Nat × Life => x.2 == Life.birthed) t := by
        rw [List.filter_cons]; simp
      rw [this, ih]
      simp
    | birthed =>
      have : (List.filter (fun x : Nat × Life => x.2 == Life.birthed) ((d', Life.birthed) :: t))
          = (d', Life.birthed) :: List.filter (fun x : Nat × Life => x.2 == Life.birthed) t := by
        rw [List.filter_cons]; simp
      rw [this]
      simp only [List.map_cons, devLife, List.mem_cons, Prod.mk.injEq, and_true]
      by_cases h : d' = d
      · simp [h, ih]
      · have : ¬ d = d' := fun h' => h h'.symm
        simp only [h, ih, this, false_or, if_false]

/-! ### the guard checker -/

def okData (ln : Life) (ld : Nat → Life) : Eff → Prop
  | .nodeData _ => ln = .birthed
  | .devData d _ => ln = .birthed ∧ ld d = .birthed
  | _ => True

def Guard : Life → (Nat → Life) → List Eff → Prop
  | _, _, [] => True
  | ln, ld, e :: t => okData ln ld e ∧ Guard (nodeLife ln [e]) (fun d => devLife d (ld d) [e]) t

theorem Guard_append (ln : Life) (ld : Nat → Life) (a b : List Eff) :
    Guard ln ld (a ++ b) ↔
      Guard ln ld a ∧ Guard (nodeLife ln a) (fun d => devLife d (ld d) a) b := by
  induction a generalizing ln ld with
  | nil => simp [Guard, nodeLife, devLife]
  | cons e t ih =>
    simp only [List.cons_append, Guard, ih, ← nodeLife_cons, ← devLife_cons, and_assoc]

theorem Guard_nodata (ln : Life) (ld : Nat → Life) (es : List Eff)
    (h : ∀ e ∈ es, e.isData = false) : Guard ln ld es := by
  induction es generalizing ln ld with
  | nil => trivial
  | cons e t ih =>
    refine ⟨?_, ih _ _ (fun e he => h e (List.mem_cons_of_mem _ he))⟩
    have he := h e (List.mem_cons_self ..)
    cases e <;> simp_all [okData, Eff.isData]

theorem Guard_dataGuarded (ln : Life) (ld : Nat → Life) (es : List Eff) (h : Guard ln ld es) :
    DataGuarded ln ld es := by
  constructor
  · intro pre
    induction pre generalizing ln ld es with
    | nil =>
      intro post id he; subst he
      exact h.1
    | cons e pre ih =>
      intro post id he; subst he
      rw [nodeLife_cons]
      exact ih _ _ _ h.2 post id rfl
  · intro pre
    induction pre generalizing ln ld es with
    | nil =>
      intro post d id he; subst he
      exact h.1
    | cons e pre ih =>
      intro post d id he; subst he
      rw [nodeLife_cons, devLife_cons]
      exact ih _ _ _ h.2 post d id rfl

/-! ### device lists -/

theorem findDev_eq_none (d : Nat) (L : List (Nat × Life)) :
    findDev d L = none ↔ d ∉ L.map Prod.fst := by
  induction L with
  | nil => simp [findDev]
  | cons a t ih =>
    obtain ⟨d', l'⟩ := a
    simp only [findDev, List.map_cons, List.mem_cons]
    by_cases h : d' = d
    · simp [h]
    · have : ¬ d = d' := fun h' => h h'.symm
      simp [h, ih, this]

theorem findDev_some_mem (d : Nat) (l : Life) (L : List (Nat × Life)) (h : findDev d L = some l) :
    (d, l) ∈ L := by
  induction L with
  | nil => simp [findDev] at h
  | cons a t ih =>
    obtain ⟨d', l'⟩ := a
    simp only [findDev] at h
    split at h
    · simp_all
    · exact List.mem_cons_of_mem _ (ih h)

theorem findDev_some_mem_fst (d : Nat) (l : Life) (L : List (Nat × Life))
    (h : findDev d L = some l) : d ∈ L.map Prod.fst :=
  List.mem_map.mpr ⟨(d, l), findDev_some_mem d l L h, rfl⟩

theorem map_fst_setDev (d : Nat) (l : Life) (L : List (Nat × Life)) :
    (setDev d l L).map Prod.fst = L.map Prod.fst := by
  induction L with
  | nil => rfl
  | cons a t ih =>
    obtain ⟨d', l'⟩ := a
    simp only [setDev]
    split
    · simp
    · simp [ih]

theorem findDev_setDev_self (d : Nat) (l : Life) (L : List (Nat × Life)) :
    findDev d (setDev d l L) = (findDev d L).map fun _ => l := by
  induction L with
  | nil => rfl
  | cons a t ih =>
    obtain ⟨d', l'⟩ := a
    simp only [setDev, findDev]
    split
    · simp_all [findDev]
    · simp_all [findDev]

theorem findDev_setDev_ne (d d' : Nat) (l : Life) (L : List (Nat × Life)) (h : d' ≠ d) :
    findDev d' (setDev d l L) = findDev d' L := by
  induction L with
  | nil => rfl
  | cons a t ih =>
    obtain ⟨d'', l''⟩ := a
    simp only [setDev, findDev]
    split
    · rename_i h2; subst h2
      have : ¬ d'' = d' := fun h' => h h'.symm
      simp [findDev, this]
    · simp only [findDev, ih]

theorem findDev_append_single (d d' : Nat) (l : Life) (L : List (Nat × Life)) :
    findDev d' (L ++ [(d, l)]) =
      match findDev d' L with
      | some x => some x
      | none => if d = d' then some l else none := by
  induction L with
  | nil => simp [findDev]
  | cons a t ih =>
    obtain ⟨d'', l''⟩ := a
    simp only [List.cons_append, findDev]
    split
    · rfl
    · exact ih

theorem findDev_map_stale (d : Nat) (L : List (Nat × Life)) :
    findDev d (L.map fun x => (x.1, Life.stale)) = (findDev d L).map fun _ => Life.stale := by
  induction L with
  | nil => rfl
  | cons a t ih =>
    obtain ⟨d', l'⟩ := a
    simp only [List.map_cons, findDev]
    split
    · rfl
    · exact ih

theorem findDev_all_stale (d : Nat) (L : List (Nat × Life)) (h : ∀ x ∈ L, x.2 = Life.stale) :
    (findDev d L).getD .stale = .stale := by
  cases hf : findDev d L with
  | none => rfl
  | some l => exact h _ (findDev_some_mem d l L hf)

/-! ### simulation of the stores' lifecycles by the recorded state -/

theorem devState_all_stale (s : St) (h : ∀ x ∈ s.devices, x.2 = Life.stale) (d : Nat) :
    devState s d = .stale := findDev_all_stale d s.devices h

/-- effects that touch no store lifecycle and carry no data -/
def Eff.inert : Eff → Bool
  | .timerStart | .timerCancel | .ncmd | .devCreated _ | .nodeBirth _ false => true
  | _ => false

theorem Eff.inert_nodeNeutral (e : Eff) (h : e.inert = true) : e.nodeNeutral = true := by
  cases e <;> try simp_all [Eff.inert, Eff.nodeNeutral]
  case nodeBirth id ok => cases ok <;> simp_all [Eff.inert, Eff.nodeNeutral]
theorem Eff.inert_devNeutral (e : Eff) (h : e.inert = true) : e.devNeutral = true := by
  cases e <;> simp_all [Eff.inert, Eff.devNeutral]
theorem Eff.inert_not_data (e : Eff) (h : e.inert = true) : e.isData = false := by
  cases e <;> simp_all [Eff.inert, Eff.isData]

/-- the trace `es` takes the stores from what `s` records to what `s'` records, and every data
effect in it is guarded -/
def Sim (s : St) (es : List Eff) (s' : St) : Prop :=
  nodeLife s.life es = s'.life ∧ (∀ d, devLife d (devState s d) es = devState s' d) ∧
  Guard s.life (devState s) es

theorem Sim.refl (s : St) : Sim s [] s := ⟨rfl, fun _ => rfl, trivial⟩

theorem Sim.trans {s s1 s2 : St} {a b : List Eff} (h1 : Sim s a s1) (h2 : Sim s1 b s2) :
    Sim s (a ++ b) s2 := by
  obtain ⟨hn1, hd1, hg1⟩ := h1
  obtain ⟨hn2, hd2, hg2⟩ := h2
  have hf : (fun d => devLife d (devState s d) a) = devState s1 := funext hd1
  refine ⟨?_, ?_, ?_⟩
  · rw [nodeLife_append, hn1, hn2]
  · intro d; rw [devLife_append, hd1, hd2]
  · rw [Guard_append, hn1, hf]; exact ⟨hg1, hg2⟩

theorem Sim_inert (s s' : St) (es : List Eff) (hl : s'.life = s.life)
    (hd : s'.devices = s.devices) (h : ∀ e ∈ es, e.inert = true) : Sim s es s' := by
  refine ⟨?_, ?_, ?_⟩
  · rw [nodeLife_neutral _ _ (fun e he => Eff.inert_nodeNeutral e (h e he)), hl]
  · intro d
    rw [devLife_neutral _ _ _ (fun e he => Eff.inert_devNeutral e (h e he))]
    simp [devState, hd]
  · exact Guard_nodata _ _ _ (fun e he => Eff.inert_not_data e (h e he))

/-! ### cancelTimer, startTimer -/

theorem cancelTimer_fst (s : St) : (cancelTimer s).1 = { s with timer := .none } := by
  unfold cancelTimer
  split
  · rename_i h; cases s; simp_all
  · rfl

theorem cancelTimer_snd (s : St) : ∀ e ∈ (cancelTimer s).2, e = Eff.timerCancel := by
  unfold cancelTimer
  split <;> simp

theorem startTimer_fst (c : Cfg) (s : St) (now : Nat) :
    ∃ t, (startTimer c s now).1 = { s with timer := t } := by
  unfold startTimer
  split
  · exact ⟨_, rfl⟩
  · exact ⟨s.timer, by cases s; rfl⟩

theorem startTimer_snd (c : Cfg) (s : St) (now : Nat) :
    ∀ e ∈ (startTimer c s now).2, e = Eff.timerStart := by
  unfold startTimer
  split <;> simp

/-! ### setStale -/

theorem setStale_noop (s : St) (t : Nat) (h : s.life = .stale ∨ t < s.birthTs) :
    setStale s t = (s, []) := by
  unfold setStale
  rcases h with h | h
  · simp [h]
  · simp [h]

theorem setStale_go (s : St) (t : Nat) (h1 : s.life = .birthed) (h2 : s.birthTs ≤ t) :
    setStale s t =
      ({ s with reseq := Reseq.init, timer := .none, life := .stale, staleTs := t,
                devices := s.devices.map fun d => (d.1, .stale) },
       (cancelTimer { s with reseq := Reseq.init }).2 ++ [.nodeStale] ++
         s.devices.map fun d => .devStale d.1) := by
  unfold setStale
  have h3 : ¬ t < s.birthTs := by omega
  have h4 : ¬ s.life = .stale := by simp [h1]
  simp only [h4, h3, if_false, cancelTimer_fst]

theorem setStale_cases (s : St) (t : Nat) :
    setStale s t = (s, []) ∨
    (s.life = .birthed ∧ s.birthTs ≤ t ∧ setStale s t =
      ({ s with reseq := Reseq.init, timer := .none, life := .stale, staleTs := t,
                devices := s.devices.map fun d => (d.1, .stale) },
       (cancelTimer { s with reseq := Reseq.init }).2 ++ [.nodeStale] ++
         s.devices.map fun d => .devStale d.1)) := by
  by_cases h1 : s.life = .stale
  · exact Or.inl (setStale_noop s t (Or.inl h1))
  · by_cases h2 : t < s.birthTs
    · exact Or.inl (setStale_noop s t (Or.inr h2))
    · have h1' : s.life = .birthed := by cases h : s.life <;> simp_all
      exact Or.inr ⟨h1', by omega, setStale_go s t h1' (by omega)⟩

/-- effects a rebirth / staleness handler may emit -/
def Eff.staleish : Eff → Bool
  | .ncmd | .nodeStale | .timerCancel | .devStale _ => true
  | _ => false

theorem setStale_sim (s : St) (t : Nat) : Sim s (setStale s t).2 (setStale s t).1 := by
  rcases setStale_cases s t with h | ⟨h1, _, h⟩
  · rw [h]; exact Sim.refl s
  · rw [h]
    have hc := cancelTimer_snd { s with reseq := Reseq.init }
    refine ⟨?_, ?_, ?_⟩
    · simp only [nodeLife_append]
      rw [nodeLife_neutral (es := List.map _ _)]
      · rfl
      · intro e he; simp only [List.mem_map] at he; obtain ⟨x, _, rfl⟩ := he; rfl
    · intro d
      simp only [devLife_append, devLife_map_stale]
      rw [devLife_neutral (es := (cancelTimer _).2)]
      · simp only [devLife, devState, findDev_map_stale]
        cases hf : findDev d s.devices with
        | none => simp [(findDev_eq_none d s.devices).mp hf]
        | some l => simp [findDev_some_mem_fst d l s.devices hf]
      · intro e he; rw [hc e he]; rfl
    · apply Guard_nodata
      intro e he
      simp only [List.mem_append, List.mem_map, List.mem_singleton] at he
      rcases he with (he | rfl) | ⟨x, _, rfl⟩
      · rw [hc e he]; rfl
      · rfl
      · rfl

theorem setStale_staleish (s : St) (t : Nat) : ∀ e ∈ (setStale s t).2, e.staleish = true := by
  rcases setStale_cases s t with h | ⟨h1, _, h⟩
  · rw [h]; simp
  · rw [h]
    have hc := cancelTimer_snd { s with reseq := Reseq.init }
    intro e he
    simp only [List.mem_append, List.mem_map, List.mem_singleton] at he
    rcases he with (he | rfl) | ⟨x, _, rfl⟩
    · rw [hc e he]; rfl
    · rfl
    · rfl

theorem setStale_inv (s : St) (t : Nat) (h : HostInv s) : HostInv (setStale s t).1 := by
  rcases setStale_cases s t with h' | ⟨h1, _, h'⟩
  · rw [h']; exact h
  · rw [h']
    refine ⟨Reseq.init_inv, fun _ => ⟨rfl, rfl, ?_⟩, ?_⟩
    · intro d hd; simp only [List.mem_map] at hd; obtain ⟨x, _, rfl⟩ := hd; rfl
    · have : (List.map Prod.fst (List.map (fun d : Nat × Life => (d.1, Life.stale)) s.devices))
          = s.devices.map Prod.fst := by simp [List.map_map, Function.comp_def]
      simp only [this]; exact h.2.2

/-- what `setStale` achieves when the clock is coherent -/
theorem setStale_marks (s : St) (t : Nat) (hclock : s.birthTs ≤ t)
    (hst : s.life = .stale → ∀ d ∈ s.devices, d.2 = .stale) :
    (setStale s t).1.life = .stale ∧ (∀ d ∈ (setStale s t).1.devices, d.2 = .stale) ∧
    (s.life = .birthed → Eff.nodeStale ∈ (setStale s t).2 ∧
      ∀ d ∈ s.devices, Eff.devStale d.1 ∈ (setStale s t).2) := by
  cases hl : s.life with
  | stale =>
    rw [setStale_noop s t (Or.inl hl)]
    exact ⟨hl, hst hl, fun h => by simp at h⟩
  | birthed =>
    rw [setStale_go s t hl hclock]
    refine ⟨rfl, ?_, fun _ => ⟨by simp, ?_⟩⟩
    · intro d hd; simp only [List.mem_map] at hd; obtain ⟨x, _, rfl⟩ := hd; rfl
    · intro d hd
      simp only [List.mem_append, List.mem_map]
      exact Or.inr ⟨d, hd, rfl⟩

theorem setStale_fields (s : St) (t : Nat) :
    (setStale s t).1.birthTs = s.birthTs ∧ (setStale s t).1.bdseq = s.bdseq ∧
    (setStale s t).1.lastRebirth = s.lastRebirth := by
  rcases setStale_cases s t with h | ⟨_, _, h⟩ <;> rw [h] <;> simp

/-! ### issueRebirth -/

theorem issueRebirth_cases (c : Cfg) (s : St) (r : Reason) (now wall : Nat) :
    issueRebirth c s r now wall = (s, []) ∨
    (c.enabled r = true ∧ c.cooldown ≤ wall - s.lastRebirth ∧
     issueRebirth c s r now wall =
      ((setStale { s with lastRebirth := wall } now).1,
       (setStale { s with lastRebirth := wall } now).2 ++ [.ncmd])) := by
  unfold issueRebirth
  by_cases h1 : c.enabled r = true
  · by_cases h2 : wall - s.lastRebirth < c.cooldown
    · simp [h1, h2]
    · exact Or.inr ⟨h1, by omega, by simp [h1, h2]⟩
  · simp [h1]

theorem issueRebirth_sim (c : Cfg) (s : St) (r : Reason) (now wall : Nat) :
    Sim s (issueRebirth c s r now wall).2 (issueRebirth c s r now wall).1 := by
  rcases issueRebirth_cases c s r now wall with h | ⟨_, _, h⟩
  · rw [h]; exact Sim.refl s
  · rw [h]
    have h1 : Sim s [] { s with lastRebirth := wall } := Sim_inert _ _ _ rfl rfl (by simp)
    have h2 := setStale_sim { s with lastRebirth := wall } now
    have h3 : Sim (setStale { s with lastRebirth := wall } now).1 [Eff.ncmd]
        (setStale { s with lastRebirth := wall } now).1 :=
      Sim_inert _ _ _ rfl rfl (by simp [Eff.inert])
    exact (h1.trans h2).trans h3

theorem issueRebirth_staleish (c : Cfg) (s : St) (r : Reason) (now wall : Nat) :
    ∀ e ∈ (issueRebirth c s r now wall).2, e.staleish = true := by
  rcases issueRebirth_cases c s r now wall with h | ⟨_, _, h⟩
  · rw [h]; simp
  · rw [h]
    intro e he
    simp only [List.mem_append, List.mem_singleton] at he
    rcases he with he | rfl
    · exact setStale_staleish _ _ e he
    · rfl

theorem issueRebirth_inv (c : Cfg) (s : St) (r : Reason) (now wall : Nat) (h : HostInv s) :
    HostInv (issueRebirth c s r now wall).1 := by
  rcases issueRebirth_cases c s r now wall with h' | ⟨_, _, h'⟩
  · rw [h']; exact h
  · rw [h']; exact setStale_inv _ _ h

theorem issueRebirth_fields (c : Cfg) (s : St) (r : Reason) (now wall : Nat) :
    (issueRebirth c s r now wall).1.birthTs = s.birthTs ∧
    (issueRebirth c s r now wall).1.bdseq = s.bdseq := by
  rcases issueRebirth_cases c s r now wall with h | ⟨_, _, h⟩
  · rw [h]; simp
  · rw [h]; have := setStale_fields { s with lastRebirth := wall } now; simp_all

/-- an issued rebirth (NCMD in the effects) marks everything stale -/
theorem issueRebirth_marks (c : Cfg) (s : St) (r : Reason) (now wall : Nat)
    (hclock : s.birthTs ≤ now) (hst : s.life = .stale → ∀ d ∈ s.devices, d.2 = .stale)
    (h : Eff.ncmd ∈ (issueRebirth c s r now wall).2) :
    (issueRebirth c s r now wall).1.life = .stale ∧
    (∀ d ∈ (issueRebirth c s r now wall).1.devices, d.2 = .stale) ∧
    (s.life = .birthed → Eff.nodeStale ∈ (issueRebirth c s r now wall).2 ∧
      ∀ d ∈ s.devices, Eff.devStale d.1 ∈ (issueRebirth c s r now wall).2) := by
  rcases issueRebirth_cases c s r now wall with h' | ⟨_, _, h'⟩
  · rw [h'] at h; simp at h
  · rw [h']
    obtain ⟨m1, m2, m3⟩ := setStale_marks { s with lastRebirth := wall } now hclock hst
    refine ⟨m1, m2, fun hb => ?_⟩
    obtain ⟨m4, m5⟩ := m3 hb
    exact ⟨List.mem_append_left _ m4, fun d hd => List.mem_append_left _ (m5 d hd)⟩

/-- effects the resequenceable-message handler itself may emit -/
def Eff.plain : Eff → Bool
  | .nodeData _ | .devCreated _ | .devBirth _ _ _ | .devData _ _ | .devStale _
  | .timerStart | .timerCancel => true
  | _ => false

/-- what handling a resequenceable message (before any rebirth) does to the state -/
def Rel (s : St) (es : List Eff) (s' : St) : Prop :=
  s'.life = s.life ∧ s'.birthTs = s.birthTs ∧
  (∀ d ∈ s.devices.map Prod.fst, d ∈ s'.devices.map Prod.fst) ∧
  (∀ e ∈ es, e.plain = true) ∧ Sim s es s'

theorem Rel.refl (s : St) : Rel s [] s := ⟨rfl, rfl, fun _ h => h, by simp, Sim.refl s⟩

theorem Rel.trans {s s1 s2 : St} {a b : List Eff} (h1 : Rel s a s1) (h2 : Rel s1 b s2) :
    Rel s (a ++ b) s2 := by
  obtain ⟨a1, a2, a3, a4, a5⟩ := h1
  obtain ⟨b1, b2, b3, b4, b5⟩ := h2
  refine ⟨b1.trans a1, b2.trans a2, fun d hd => b3 d (a3 d hd), ?_, a5.trans b5⟩
  intro e he
  rcases List.mem_append.mp he with he | he
  · exact a4 e he
  · exact b4 e he

theorem Rel_timer (s s' : St) (es : List Eff) (hl : s'.life = s.life) (hb : s'.birthTs = s.birthTs)
    (hd : s'.devices = s.devices) (h : ∀ e ∈ es, e = Eff.timerStart ∨ e = Eff.timerCancel) :
    Rel s es s' := by
  refine ⟨hl, hb, by simp [hd], ?_, Sim_inert s s' es hl hd ?_⟩
  · intro e he; rcases h e he with rfl | rfl <;> rfl
  · intro e he; rcases h e he with rfl | rfl <;> rfl

theorem apply_fst_eq (s : St) (m : RMsg) :
    (apply s m).1 = { s with devices := (apply s m).1.devices } := by
  cases m <;> simp only [apply] <;> (repeat' split) <;> rfl

theorem apply_rel (s : St) (m : RMsg) (hb : s.life = .birthed) :
    Rel s (apply s m).2.1 (apply s m).1 := by
  cases m with
  | ndata id ans =>
    simp only [apply]
    refine ⟨rfl, rfl, fun _ h => h, by simp [Eff.plain], ?_, ?_, ?_⟩
    · simp [nodeLife]
    · simp [devLife]
    · simp [Guard, okData, hb]
  | dbirth d id ans =>
    simp only [apply]
    cases hf : findDev d s.devices with
    | some l =>
      by_cases ha : ans = .ok
      · simp only [ha, if_true, List.nil_append]
        refine ⟨rfl, rfl, by simp [map_fst_setDev], by simp [Eff.plain], ?_, ?_, ?_⟩
        · simp [nodeLife]
        · intro d'
          by_cases hd : d' = d
          · subst hd; simp [devLife, devState, findDev_setDev_self, hf]
          · have : ¬ d = d' := fun h => hd h.symm
            simp [devLife, devState, findDev_setDev_ne _ _ _ _ hd, this]
        · simp [Guard, okData]
      · simp only [ha, if_false, List.nil_append]
        refine ⟨rfl, rfl, fun _ h => h, by simp [Eff.plain], ?_, ?_, ?_⟩
        · simp [nodeLife]
        · simp [devLife, devState]
        · simp [Guard, okData]
    | none =>
      by_cases ha : ans = .ok
      · simp only [ha, if_true]
        refine ⟨rfl, rfl, by simp [map_fst_setDev]; grind, by simp [Eff.plain], ?_, ?_, ?_⟩
        · simp [nodeLife]
        · intro d'
          by_cases hd : d' = d
          · subst hd; simp [devLife, devState, findDev_setDev_self, findDev_append_single, hf]
          · have : ¬ d = d' := fun h => hd h.symm
            simp only [devLife, devState, findDev_setDev_ne _ _ _ _ hd, findDev_append_single]
            cases findDev d' s.devices <;> simp [this, devLife]
        · simp [Guard, okData]
      · simp only [ha, if_false]
        refine ⟨rfl, rfl, by simp; grind, by simp [Eff.plain], ?_, ?_, ?_⟩
        · simp [nodeLife]
        · intro d'
          simp only [devLife, devState, findDev_append_single]
          cases findDev d' s.devices <;> simp [devLife] <;> split <;> rfl
        · simp [Guard, okData]
  | ddeath d id =>
    simp only [apply]
    cases hf : findDev d s.devices with
    | none => exact Rel.refl s
    | some l =>
      refine ⟨rfl, rfl, by simp [map_fst_setDev], by simp [Eff.plain], ?_, ?_, ?_⟩
      · simp [nodeLife]
      · intro d'
        by_cases hd : d' = d
        · subst hd; simp [devLife, devState, findDev_setDev_self, hf]
        · have : ¬ d = d' := fun h => hd h.symm
          simp [devLife, devState, findDev_setDev_ne _ _ _ _ hd, this]
      · simp [Guard, okData]
  | ddata d id ans =>
    simp only [apply]
    cases hf : findDev d s.devices with
    | none => exact Rel.refl s
    | some l =>
      cases l with
      | stale => exact Rel.refl s
      | birthed =>
        refine ⟨rfl, rfl, fun _ h => h, by simp [Eff.plain], ?_, ?_, ?_⟩
        · simp [nodeLife]
        · simp [devLife]
        · simp [Guard, okData, hb, devState, hf]

/-- the invariant in a birthed state -/
def BInv (s : St) : Prop :=
  s.life = .birthed ∧ Reseq.Inv s.reseq ∧ (s.devices.map Prod.fst).Nodup

theorem BInv.hostInv {s : St} (h : BInv s) : HostInv s :=
  ⟨h.2.1, fun hs => by simp [h.1] at hs, h.2.2⟩

theorem HostInv.binv {s : St} (h : HostInv s) (hb : s.life = .birthed) : BInv s :=
  ⟨hb, h.1, h.2.2⟩

theorem apply_nodup (s : St) (m : RMsg) (h : (s.devices.map Prod.fst).Nodup) :
    ((apply s m).1.devices.map Prod.fst).Nodup := by
  cases m with
  | ndata id ans => exact h
  | dbirth d id ans =>
    simp only [apply]
    cases hf : findDev d s.devices with
    | some l => by_cases ha : ans = .ok <;> simp [ha, map_fst_setDev, h]
    | none =>
      have hn := (findDev_eq_none d s.devices).mp hf
      have : (s.devices.map Prod.fst ++ [d]).Nodup := by
        rw [List.nodup_append]
        refine ⟨h, by simp, ?_⟩
        intro a ha b hb
        simp only [List.mem_singleton] at hb
        subst hb
        intro hab; subst hab; exact hn ha
      by_cases ha : ans = .ok <;> simpa [ha, map_fst_setDev] using this
  | ddeath d id =>
    simp only [apply]
    split
    · exact h
    · simp [map_fst_setDev, h]
  | ddata d id ans =>
    simp only [apply]
    split <;> exact h

theorem apply_binv (s : St) (m : RMsg) (h : BInv s) : BInv (apply s m).1 := by
  have hn := apply_nodup s m h.2.2
  rw [apply_fst_eq]
  exact ⟨h.1, h.2.1, hn⟩

theorem drainBuf_spec (c : Cfg) (now : Nat) (s0 : St) (fuel : Nat) :
    ∀ (released : Bool) (s : St) (acc : List Eff), BInv s → Rel s0 acc s →
      BInv (drainBuf c now fuel released s acc).1 ∧
      Rel s0 (drainBuf c now fuel released s acc).2.1 (drainBuf c now fuel released s acc).1 := by
  induction fuel with
  | zero => intro released s acc hb hr; exact ⟨hb, hr⟩
  | succ fuel ih =>
    intro released s acc hb hr
    have hd := Reseq.drain_inv s.reseq hb.2.1
    have hset : ∀ r', Reseq.Inv r' → BInv { s with reseq := r' } ∧ Rel s0 acc { s with reseq := r' } := by
      intro r' hr'
      refine ⟨⟨hb.1, hr', hb.2.2⟩, ?_⟩
      have := hr.trans (Rel_timer s { s with reseq := r' } [] rfl rfl rfl (by simp))
      simpa using this
    have hcancel : ∀ s' : St, BInv s' → Rel s0 acc s' →
        BInv (cancelTimer s').1 ∧ Rel s0 (acc ++ (cancelTimer s').2) (cancelTimer s').1 := by
      intro s' hb' hr'
      rw [cancelTimer_fst]
      refine ⟨⟨hb'.1, hb'.2.1, hb'.2.2⟩, hr'.trans (Rel_timer _ _ _ rfl rfl rfl ?_)⟩
      intro e he; exact Or.inr (cancelTimer_snd s' e he)
    unfold drainBuf
    split
    · rename_i r' m heq
      rw [heq] at hd
      obtain ⟨hb1, hr1⟩ := hset r' hd
      have hb2 := apply_binv _ m.2 hb1
      have hr2 := hr1.trans (apply_rel _ m.2 hb1.1)
      split
      · rename_i s1 e1 happ
        rw [happ] at hb2 hr2
        exact ih true s1 (acc ++ e1) hb2 hr2
      · rename_i s1 e1 r happ
        rw [happ] at hb2 hr2
        exact ⟨hb2, hr2⟩
    · rename_i r' heq
      rw [heq] at hd
      obtain ⟨hb1, hr1⟩ := hset r' hd
      exact hcancel _ hb1 hr1
    · rename_i r' heq
      rw [heq] at hd
      obtain ⟨hb1, hr1⟩ := hset r' hd
      split
      · obtain ⟨hb2, hr2⟩ := hcancel _ hb1 hr1
        obtain ⟨t, ht⟩ := startTimer_fst c (cancelTimer { s with reseq := r' }).1 now
        simp only
        rw [ht]
        refine ⟨⟨hb2.1, hb2.2.1, hb2.2.2⟩, ?_⟩
        rw [← ht]
        refine hr2.trans (Rel_timer _ _ _ (by rw [ht]) (by rw [ht]) (by rw [ht]) ?_)
        intro e he; exact Or.inl (startTimer_snd _ _ _ e he)
      · exact ⟨hb1, hr1⟩
    · rename_i r' heq
      rw [heq] at hd
      exact hset r' hd

theorem handleRMsg_stale (c : Cfg) (s : St) (seq ts : Nat) (m : RMsg) (now : Nat)
    (h : s.life = .stale) :
    (handleRMsg c s seq ts m now).1 = s ∧ (handleRMsg c s seq ts m now).2.1 = [] := by
  unfold handleRMsg
  split
  · exact ⟨rfl, rfl⟩
  · simp [h]

theorem handleRMsg_spec (c : Cfg) (s : St) (seq ts : Nat) (m : RMsg) (now : Nat)
    (h : HostInv s) (hseq : seq < 256) :
    HostInv (handleRMsg c s seq ts m now).1 ∧
    Rel s (handleRMsg c s seq ts m now).2.1 (handleRMsg c s seq ts m now).1 := by
  unfold handleRMsg
  split
  · exact ⟨h, Rel.refl s⟩
  split
  · exact ⟨h, Rel.refl s⟩
  rename_i _ hlife
  have hl : s.life = .birthed := by simpa using hlife
  have hb := h.binv hl
  split
  · exact ⟨(apply_binv s m hb).hostInv, apply_rel s m hl⟩
  have hp := Reseq.process_inv s.reseq seq m hb.2.1 hseq
  have hset : ∀ r', Reseq.Inv r' → BInv { s with reseq := r' } ∧ Rel s [] { s with reseq := r' } :=
    fun r' hr' => ⟨⟨hb.1, hr', hb.2.2⟩, Rel_timer s _ [] rfl rfl rfl (by simp)⟩
  split
  · rename_i r' heq
    rw [heq] at hp
    obtain ⟨hb1, hr1⟩ := hset r' hp
    dsimp only
    split
    · obtain ⟨t, ht⟩ := startTimer_fst c { s with reseq := r' } now
      simp only
      constructor
      · rw [ht]; exact BInv.hostInv ⟨hb1.1, hb1.2.1, hb1.2.2⟩
      · have := hr1.trans (Rel_timer _ (startTimer c { s with reseq := r' } now).1
            (startTimer c { s with reseq := r' } now).2
            (by rw [ht]) (by rw [ht]) (by rw [ht])
            (fun e he => Or.inl (startTimer_snd _ _ _ e he)))
        simpa using this
    · exact ⟨hb1.hostInv, hr1⟩
  · rename_i r' heq
    rw [heq] at hp
    obtain ⟨hb1, hr1⟩ := hset r' hp
    exact ⟨hb1.hostInv, hr1⟩
  · rename_i r' m' heq
    rw [heq] at hp
    obtain ⟨hb1, hr1⟩ := hset r' hp
    have hb2 := apply_binv _ m'.2 hb1
    have hr2 := hr1.trans (apply_rel _ m'.2 hb1.1)
    simp only [List.nil_append] at hr2
    split
    · rename_i s1 e1 r happ
      rw [happ] at hb2 hr2
      exact ⟨hb2.hostInv, hr2⟩
    · rename_i s1 e1 happ
      rw [happ] at hb2 hr2
      obtain ⟨hb3, hr3⟩ := drainBuf_spec c now s (s1.reseq.buf.length + 1) false s1 e1 hb2 hr2
      exact ⟨hb3.hostInv, hr3⟩

theorem cancelTimer_inv (s : St) (h : HostInv s) : HostInv (cancelTimer s).1 := by
  rw [cancelTimer_fst]
  exact ⟨h.1, fun hs => ⟨(h.2.1 hs).1, rfl, (h.2.1 hs).2.2⟩, h.2.2⟩

theorem cancelTimer_sim (s : St) : Sim s (cancelTimer s).2 (cancelTimer s).1 := by
  apply Sim_inert
  · rw [cancelTimer_fst]
  · rw [cancelTimer_fst]
  · intro e he; rw [cancelTimer_snd s e he]; rfl

theorem cancelTimer_staleish (s : St) : ∀ e ∈ (cancelTimer s).2, e.staleish = true := by
  intro e he; rw [cancelTimer_snd s e he]; rfl

theorem setNext_init_inv : Reseq.Inv (Reseq.setNext (Reseq.init : Reseq.St (Nat × RMsg)) 1) := by
  simp [Reseq.Inv, Reseq.setNext, Reseq.init]

theorem handleBirth_cases (c : Cfg) (s : St) (ts bdseq id : Nat) (ans : Ans) (now wall : Nat) :
    (ts ≤ s.birthTs ∧ handleBirth c s ts bdseq id ans now wall = (s, [])) ∨
    (s.birthTs < ts ∧ ans ≠ .ok ∧
      handleBirth c s ts bdseq id ans now wall =
        ((issueRebirth c s .invalidPayload now wall).1,
          [.nodeBirth id false] ++ (issueRebirth c s .invalidPayload now wall).2)) ∨
    (s.birthTs < ts ∧ ans = .ok ∧
      handleBirth c s ts bdseq id ans now wall =
        ({ s with timer := .none, birthTs := ts, life := .birthed, bdseq := bdseq,
                  reseq := Reseq.setNext Reseq.init 1,
                  devices := s.devices.map fun d => (d.1, Life.stale) },
         ([Eff.nodeBirth id true] ++ (cancelTimer s).2) ++
           (s.devices.filter fun d => d.2 == Life.birthed).map fun d => Eff.devStale d.1)) := by
  unfold handleBirth
  by_cases h1 : ts ≤ s.birthTs
  · exact Or.inl ⟨h1, by simp [h1]⟩
  · right
    simp only [h1, if_false]
    by_cases h2 : ans ≠ .ok
    · left
      refine ⟨by omega, h2, ?_⟩
      rw [if_pos h2]
    · right
      refine ⟨by omega, by simpa using h2, ?_⟩
      rw [if_neg h2]
      simp only [cancelTimer_fst]

theorem handleBirth_spec (c : Cfg) (s : St) (ts bdseq id : Nat) (ans : Ans) (now wall : Nat)
    (h : HostInv s) :
    HostInv (handleBirth c s ts bdseq id ans now wall).1 ∧
    Sim s (handleBirth c s ts bdseq id ans now wall).2 (handleBirth c s ts bdseq id ans now wall).1 := by
  rcases handleBirth_cases c s ts bdseq id ans now wall with ⟨_, he⟩ | ⟨_, _, he⟩ | ⟨_, hok, he⟩
  · rw [he]; exact ⟨h, Sim.refl s⟩
  · rw [he]
    refine ⟨issueRebirth_inv c s _ now wall h, ?_⟩
    exact (Sim_inert s s [.nodeBirth id false] rfl rfl (by simp [Eff.inert])).trans
      (issueRebirth_sim c s _ now wall)
  · rw [he]
    have hhd : ∀ e ∈ [Eff.nodeBirth id true] ++
        (cancelTimer s).2, e.devNeutral = true ∧ e.isData = false := by
      intro e he
      rcases List.mem_append.mp he with he | he
      · simp only [List.mem_singleton] at he; subst he; exact ⟨rfl, rfl⟩
      · rw [cancelTimer_snd s e he]; exact ⟨rfl, rfl⟩
    have htl : ∀ e ∈ (s.devices.filter fun d => d.2 == Life.birthed).map fun d => Eff.devStale d.1,
        e.nodeNeutral = true ∧ e.isData = false := by
      intro e he
      obtain ⟨x, _, rfl⟩ := List.mem_map.mp he
      exact ⟨rfl, rfl⟩
    refine ⟨⟨setNext_init_inv, fun hs => by simp at hs, ?_⟩, ?_, ?_, ?_⟩
    · have : (List.map Prod.fst (List.map (fun d : Nat × Life => (d.1, Life.stale)) s.devices))
          = s.devices.map Prod.fst := by simp [List.map_map, Function.comp_def]
      simp only [this]; exact h.2.2
    · rw [nodeLife_append, nodeLife_neutral _ (List.map _ _) (fun e he => (htl e he).1),
        nodeLife_append, nodeLife_neutral _ _ (fun e he => by rw [cancelTimer_snd s e he]; rfl)]
      rfl
    · intro d
      rw [devLife_append, devLife_neutral _ _ _ (fun e he => (hhd e he).1), devLife_filter_stale]
      simp only [devState, findDev_map_stale]
      cases hf : findDev d s.devices with
      | none =>
        have : (d, Life.birthed) ∉ s.devices := fun hm =>
          (findDev_eq_none d s.devices).mp hf (List.mem_map.mpr ⟨_, hm, rfl⟩)
        simp [this]
      | some l =>
        cases l with
        | birthed => simp [findDev_some_mem d _ s.devices hf]
        | stale => simp
    · apply Guard_nodata
      intro e he
      rcases List.mem_append.mp he with he | he
      · exact (hhd e he).2
      · exact (htl e he).2

theorem Rel.sim {s s' : St} {es : List Eff} (h : Rel s es s') : Sim s es s' := h.2.2.2.2

theorem step_spec (c : Cfg) (s : St) (i : In) (now wall : Nat) (h : HostInv s) (hwf : i.WF) :
    HostInv (step c s i now wall).1 ∧ Sim s (step c s i now wall).2 (step c s i now wall).1 := by
  cases i with
  | nbirth ts bd id ans => exact handleBirth_spec c s ts bd id ans now wall h
  | ndeath bd =>
    simp only [step]
    have h1 := cancelTimer_inv s h
    have s1 := cancelTimer_sim s
    have h2 := setStale_inv _ now h1
    have s2 := s1.trans (setStale_sim (cancelTimer s).1 now)
    split
    · exact ⟨issueRebirth_inv c _ _ now wall h2, s2.trans (issueRebirth_sim c _ _ now wall)⟩
    · exact ⟨h2, s2⟩
  | rmsg seq ts m =>
    simp only [step]
    obtain ⟨h1, r1⟩ := handleRMsg_spec c s seq ts m now h hwf
    split
    · rename_i s1 e1 heq
      rw [heq] at h1 r1
      exact ⟨h1, r1.sim⟩
    · rename_i s1 e1 r heq
      rw [heq] at h1 r1
      exact ⟨issueRebirth_inv c _ _ now wall h1, r1.sim.trans (issueRebirth_sim c _ _ now wall)⟩
  | offline => exact ⟨setStale_inv s now h, setStale_sim s now⟩
  | rebirthReq r => exact ⟨issueRebirth_inv c s r now wall h, issueRebirth_sim c s r now wall⟩
  | timerFire =>
    simp only [step]
    split
    · rename_i d ht
      have hi : HostInv { s with timer := .fired } :=
        ⟨h.1, fun hs => by have := (h.2.1 hs).2.1; simp [ht] at this, h.2.2⟩
      have hs : Sim s [] { s with timer := .fired } := Sim_inert _ _ _ rfl rfl (by simp)
      exact ⟨issueRebirth_inv c _ _ now wall hi, by simpa using hs.trans (issueRebirth_sim c _ _ now wall)⟩
    · exact ⟨h, Sim.refl s⟩

theorem run_cons (c : Cfg) (s : St) (e : Ev) (es : List Ev) :
    run c s (e :: es) = ((run c (step c s e.inp e.now e.wall).1 es).1,
      (step c s e.inp e.now e.wall).2 ++ (run c (step c s e.inp e.now e.wall).1 es).2) := rfl

theorem run_spec (c : Cfg) (evs : List Ev) :
    ∀ (s : St), HostInv s → (∀ e ∈ evs, e.inp.WF) →
      HostInv (run c s evs).1 ∧ Sim s (run c s evs).2 (run c s evs).1 := by
  induction evs with
  | nil => intro s h _; exact ⟨h, Sim.refl s⟩
  | cons e es ih =>
    intro s h hwf
    rw [run_cons]
    obtain ⟨h1, s1⟩ := step_spec c s e.inp e.now e.wall h (hwf e (List.mem_cons_self ..))
    obtain ⟨h2, s2⟩ := ih _ h1 (fun e' he' => hwf e' (List.mem_cons_of_mem _ he'))
    exact ⟨h2, s1.trans s2⟩

theorem init_inv : HostInv init := by
  refine ⟨Reseq.init_inv, fun _ => ⟨rfl, rfl, by simp [init]⟩, by simp [init]⟩

theorem devState_init : devState init = fun _ => Life.stale := rfl

theorem Eff.staleish_not_data (e : Eff) (h : e.staleish = true) : e.isData = false := by
  cases e <;> simp_all [Eff.staleish, Eff.isData]

theorem Eff.not_data (e : Eff) (h : e.isData = false) :
    (∀ id, e ≠ Eff.nodeData id) ∧ (∀ d id, e ≠ Eff.devData d id) := by
  cases e <;> simp_all [Eff.isData]

theorem setStale_no_ncmd (s : St) (t : Nat) : Eff.ncmd ∉ (setStale s t).2 := by
  rcases setStale_cases s t with h | ⟨_, _, h⟩
  · rw [h]; simp
  · rw [h]
    intro hm
    simp only [List.mem_append, List.mem_map, List.mem_singleton] at hm
    rcases hm with (hm | hm) | ⟨x, _, hx⟩
    · have := cancelTimer_snd _ _ hm; simp at this
    · simp at hm
    · simp at hx

theorem issueRebirth_stale (c : Cfg) (s : St) (r : Reason) (now wall : Nat) (h : s.life = .stale) :
    (issueRebirth c s r now wall).1.life = .stale ∧
    (issueRebirth c s r now wall).1.devices = s.devices := by
  rcases issueRebirth_cases c s r now wall with h' | ⟨_, _, h'⟩
  · rw [h']; exact ⟨h, rfl⟩
  · rw [h', setStale_noop { s with lastRebirth := wall } now (Or.inl h)]; exact ⟨h, rfl⟩

/-- NDEATH -/
theorem ndeath_marks (c : Cfg) (s : St) (bd now wall : Nat) (hinv : HostInv s)
    (hclock : s.birthTs ≤ now) :
    (step c s (.ndeath bd) now wall).1.life = .stale ∧
    (∀ d ∈ (step c s (.ndeath bd) now wall).1.devices, d.2 = .stale) ∧
    (s.life = .birthed → Eff.nodeStale ∈ (step c s (.ndeath bd) now wall).2 ∧
      ∀ d ∈ s.devices, Eff.devStale d.1 ∈ (step c s (.ndeath bd) now wall).2) := by
  have hm := setStale_marks (cancelTimer s).1 now (by rw [cancelTimer_fst]; exact hclock)
    (by rw [cancelTimer_fst]; exact fun hs => (hinv.2.1 hs).2.2)
  simp only [cancelTimer_fst s] at hm
  obtain ⟨m1, m2, m3⟩ := hm
  simp only [step, cancelTimer_fst s]
  split
  · obtain ⟨i1, i2⟩ := issueRebirth_stale c _ .outOfSyncBdSeq now wall m1
    refine ⟨i1, by rw [i2]; exact m2, fun hb => ?_⟩
    obtain ⟨m4, m5⟩ := m3 hb
    refine ⟨?_, fun d hd => ?_⟩
    · exact List.mem_append_left _ (List.mem_append_right _ m4)
    · exact List.mem_append_left _ (List.mem_append_right _ (m5 d hd))
  · refine ⟨m1, m2, fun hb => ?_⟩
    obtain ⟨m4, m5⟩ := m3 hb
    exact ⟨List.mem_append_right _ m4, fun d hd => List.mem_append_right _ (m5 d hd)⟩

theorem offline_marks (c : Cfg) (s : St) (now wall : Nat) (hinv : HostInv s)
    (hclock : s.birthTs ≤ now) :
    (step c s .offline now wall).1.life = .stale ∧
    (∀ d ∈ (step c s .offline now wall).1.devices, d.2 = .stale) ∧
    (s.life = .birthed → Eff.nodeStale ∈ (step c s .offline now wall).2 ∧
      ∀ d ∈ s.devices, Eff.devStale d.1 ∈ (step c s .offline now wall).2) :=
  setStale_marks s now hclock (fun hs => (hinv.2.1 hs).2.2)

theorem rebirth_marks (c : Cfg) (s : St) (i : In) (now wall : Nat) (hinv : HostInv s)
    (hwf : i.WF) (hclock : s.birthTs ≤ now) (h : Eff.ncmd ∈ (step c s i now wall).2) :
    (step c s i now wall).1.life = .stale ∧
    (∀ d ∈ (step c s i now wall).1.devices, d.2 = .stale) ∧
    (s.life = .birthed → Eff.nodeStale ∈ (step c s i now wall).2 ∧
      ∀ d ∈ s.devices, Eff.devStale d.1 ∈ (step c s i now wall).2) := by
  have hst : s.life = .stale → ∀ d ∈ s.devices, d.2 = .stale := fun hs => (hinv.2.1 hs).2.2
  cases i with
  | nbirth ts bd id ans =>
    simp only [step] at h ⊢
    rcases handleBirth_cases c s ts bd id ans now wall with ⟨_, he⟩ | ⟨_, _, he⟩ | ⟨_, hok, he⟩
    · rw [he] at h; simp at h
    · rw [he] at h ⊢
      simp only [List.mem_append, List.mem_singleton, reduceCtorEq, false_or] at h
      obtain ⟨m1, m2, m3⟩ := issueRebirth_marks c s _ now wall hclock hst h
      refine ⟨m1, m2, fun hb => ?_⟩
      obtain ⟨m4, m5⟩ := m3 hb
      exact ⟨List.mem_append_right _ m4, fun d hd => List.mem_append_right _ (m5 d hd)⟩
    · rw [he] at h
      exfalso
      rcases List.mem_append.mp h with h | h
      · rcases List.mem_append.mp h with h | h
        · simp at h
        · have := cancelTimer_snd _ _ h; simp at this
      · simp at h
  | ndeath bd => exact ndeath_marks c s bd now wall hinv hclock
  | offline => exact offline_marks c s now wall hinv hclock
  | rebirthReq r => exact issueRebirth_marks c s r now wall hclock hst h
  | timerFire =>
    simp only [step] at h ⊢
    split at h
    · rename_i d ht
      exact issueRebirth_marks c { s with timer := .fired } _ now wall hclock hst h
    · simp at h
  | rmsg seq ts m =>
    simp only [step] at h ⊢
    obtain ⟨h1, r1⟩ := handleRMsg_spec c s seq ts m now hinv hwf
    split at h
    · rename_i s1 e1 heq
      rw [heq] at r1
      have := r1.2.2.2.1 _ h
      simp [Eff.plain] at this
    · rename_i s1 e1 r heq
      rw [heq] at h1 r1
      obtain ⟨rl, rb, rn, rp, _⟩ := r1
      simp only at rl rb rn rp h1
      have h2 : Eff.ncmd ∈ (issueRebirth c s1 r now wall).2 := by
        rcases List.mem_append.mp h with h | h
        · have := rp _ h; simp [Eff.plain] at this
        · exact h
      obtain ⟨m1, m2, m3⟩ := issueRebirth_marks c s1 r now wall (by omega)
        (fun hs => (h1.2.1 hs).2.2) h2
      refine ⟨m1, m2, fun hb => ?_⟩
      obtain ⟨m4, m5⟩ := m3 (by rw [rl]; exact hb)
      refine ⟨List.mem_append_right _ m4, fun d hd => ?_⟩
      have := rn d.1 (List.mem_map.mpr ⟨d, hd, rfl⟩)
      obtain ⟨d', hd', hdd⟩ := List.mem_map.mp this
      rw [← hdd]
      exact List.mem_append_right _ (m5 d' hd')

theorem stale_no_data (c : Cfg) (s : St) (i : In) (now wall : Nat) (hst : s.life = .stale) :
    ∀ e ∈ (step c s i now wall).2, e.isData = false := by
  cases i with
  | nbirth ts bd id ans =>
    simp only [step]
    rcases handleBirth_cases c s ts bd id ans now wall with ⟨_, he⟩ | ⟨_, _, he⟩ | ⟨_, hok, he⟩
    · rw [he]; simp
    · rw [he]
      intro e hm
      rcases List.mem_append.mp hm with hm | hm
      · simp only [List.mem_singleton] at hm; subst hm; rfl
      · exact Eff.staleish_not_data e (issueRebirth_staleish _ _ _ _ _ e hm)
    · rw [he]
      intro e hm
      rcases List.mem_append.mp hm with hm | hm
      · rcases List.mem_append.mp hm with hm | hm
        · simp only [List.mem_singleton] at hm; subst hm; rfl
        · exact Eff.staleish_not_data e (cancelTimer_staleish _ e hm)
      · obtain ⟨x, _, rfl⟩ := List.mem_map.mp hm
        rfl
  | ndeath bd =>
    simp only [step]
    intro e hm
    apply Eff.staleish_not_data
    split at hm
    · rcases List.mem_append.mp hm with hm | hm
      · rcases List.mem_append.mp hm with hm | hm
        · exact cancelTimer_staleish _ e hm
        · exact setStale_staleish _ _ e hm
      · exact issueRebirth_staleish _ _ _ _ _ e hm
    · rcases List.mem_append.mp hm with hm | hm
      · exact cancelTimer_staleish _ e hm
      · exact setStale_staleish _ _ e hm
  | offline => exact fun e hm => Eff.staleish_not_data e (setStale_staleish _ _ e hm)
  | rebirthReq r => exact fun e hm => Eff.staleish_not_data e (issueRebirth_staleish _ _ _ _ _ e hm)
  | timerFire =>
    simp only [step]
    split
    · exact fun e hm => Eff.staleish_not_data e (issueRebirth_staleish _ _ _ _ _ e hm)
    · simp
  | rmsg seq ts m =>
    simp only [step]
    obtain ⟨_, h2⟩ := handleRMsg_stale c s seq ts m now hst
    split
    · rename_i s1 e1 heq
      rw [heq] at h2; simp only at h2; subst h2; simp
    · rename_i s1 e1 r heq
      rw [heq] at h2; simp only at h2; subst h2
      intro e hm
      simp only [List.nil_append] at hm
      exact Eff.staleish_not_data e (issueRebirth_staleish _ _ _ _ _ e hm)

/-! ### the dispatcher -/

theorem findNode_setNode_ne (n m : Nat) (s : St) (L : Nodes) (h : m ≠ n) :
    findNode m (setNode n s L) = findNode m L := by
  induction L with
  | nil =>
    have : ¬ n = m := fun h' => h h'.symm
    simp [setNode, findNode, this]
  | cons a t ih =>
    obtain ⟨n', s'⟩ := a
    simp only [setNode]
    split
    · rename_i h2; subst h2
      have : ¬ n' = m := fun h' => h h'.symm
      simp [findNode, this]
    · simp only [findNode, ih]

theorem map_fst_setNode (n : Nat) (s : St) (L : Nodes) :
    (setNode n s L).map Prod.fst =
      if (findNode n L).isSome then L.map Prod.fst else L.map Prod.fst ++ [n] := by
  induction L with
  | nil => simp [setNode, findNode]
  | cons a t ih =>
    obtain ⟨n', s'⟩ := a
    simp only [setNode, findNode]
    split
    · simp
    · simp only [List.map_cons, ih]
      split <;> simp

theorem stepNode_nodes (c : Cfg) (a : App) (n : Nat) (s : St) (i : In) (now wall : Nat)
    (pre : List AppEff) :
    (stepNode c a n s i now wall pre).1.nodes = setNode n (step c s i now wall).1 a.nodes := rfl

theorem stepNode_effs (c : Cfg) (a : App) (n : Nat) (s : St) (i : In) (now wall : Nat)
    (pre : List AppEff) :
    (stepNode c a n s i now wall pre).2 = pre ++ (step c s i now wall).2.map (AppEff.node n) := rfl

theorem stepNode_find_ne (c : Cfg) (a : App) (n m : Nat) (s : St) (i : In) (now wall : Nat)
    (pre : List AppEff) (h : m ≠ n) :
    findNode m (stepNode c a n s i now wall pre).1.nodes = findNode m a.nodes := by
  rw [stepNode_nodes, findNode_setNode_ne _ _ _ _ h]

theorem appStep_node_find_ne (c : Cfg) (a : App) (n m : Nat) (i : In) (now wall : Nat)
    (h : m ≠ n) :
    findNode m (appStep c a (.node n i) now wall).1.nodes = findNode m a.nodes := by
  cases i <;> simp only [appStep] <;> split <;>
    first | rfl | exact stepNode_find_ne _ _ _ _ _ _ _ _ _ h

theorem appStep_invalid_off (c : Cfg) (a : App) (n now wall : Nat)
    (h : c.invalidPayload = false) :
    appStep c a (.invalidPayload n) now wall = (a, []) := by
  simp [appStep, h]

theorem appStep_invalid_on (c : Cfg) (a : App) (n now wall : Nat)
    (h : c.invalidPayload = true) :
    (∀ m, m ≠ n → findNode m (appStep c a (.invalidPayload n) now wall).1.nodes = findNode m a.nodes) ∧
    (∀ e ∈ (appStep c a (.invalidPayload n) now wall).2,
        e = AppEff.nodeCreated n ∨ e = AppEff.node n Eff.ncmd ∨ e = AppEff.node n Eff.nodeStale ∨
        e = AppEff.node n Eff.timerCancel ∨ ∃ d, e = AppEff.node n (Eff.devStale d)) ∧
    (appStep c a (.invalidPayload n) now wall).1.nodes.map Prod.fst
        = (if (findNode n a.nodes).isSome then a.nodes.map Prod.fst else a.nodes.map Prod.fst ++ [n]) := by
  have heff : ∀ (s : St) (e : AppEff),
      e ∈ (step c s (.rebirthReq .invalidPayload) now wall).2.map (AppEff.node n) →
        e = AppEff.node n Eff.ncmd ∨ e = AppEff.node n Eff.nodeStale ∨
        e = AppEff.node n Eff.timerCancel ∨ ∃ d, e = AppEff.node n (Eff.devStale d) := by
    intro s e he
    obtain ⟨x, hx, rfl⟩ := List.mem_map.mp he
    have := issueRebirth_staleish c s .invalidPayload now wall x hx
    cases x <;> simp_all [Eff.staleish]
  simp only [appStep, h, if_true]
  cases hf : findNode n a.nodes with
  | some s =>
    refine ⟨fun m hm => stepNode_find_ne _ _ _ _ _ _ _ _ _ hm, ?_, ?_⟩
    · intro e he
      rw [stepNode_effs, List.nil_append] at he
      exact Or.inr (heff s e he)
    · rw [stepNode_nodes, map_fst_setNode, hf]
  | none =>
    refine ⟨fun m hm => stepNode_find_ne _ _ _ _ _ _ _ _ _ hm, ?_, ?_⟩
    · intro e he
      rw [stepNode_effs] at he
      rcases List.mem_append.mp he with he | he
      · simp only [List.mem_singleton] at he; exact Or.inl he
      · exact Or.inr (heff init e he)
    · rw [stepNode_nodes, map_fst_setNode, hf]

end Srad.Host
