import SradModel.Model.HostSpec
import SradModel.Proofs.Reseq

namespace Srad.Host

end Srad.Host
