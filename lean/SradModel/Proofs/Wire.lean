/-
Helper lemmas for M13 (wire format). The property theorems are in `SradModel/Props/M13.lean`.
-/
import SradModel.Model.Wire

namespace Srad.Wire

/-! ### varints -/

theorem encVarAux_ne_nil (k n : Nat) : encVarAux (k + 1) n ≠ [] := by
  unfold encVarAux; split <;> simp

theorem encodeVarint_length_pos (n : Nat) : 0 < (encodeVarint n).length := by
  have := encVarAux_ne_nil 9 n
  unfold encodeVarint
  exact List.length_pos_iff.mpr this

theorem decVarAux_encVarAux (j : Nat) : ∀ (n : Nat) (rest : Bytes), n < 2 ^ (7 * j + 1) →
    decVarAux (j + 1) (encVarAux (j + 1) n ++ rest) = some (n, rest) := by
  induction j with
  | zero =>
    intro n rest h
    have h2 : n < 2 := by simpa using h
    have h128 : n < 128 := by omega
    have hm : n % 256 = n := Nat.mod_eq_of_lt (by omega)
    simp [encVarAux, decVarAux, h128, UInt8.toNat_ofNat', hm]
    omega
  | succ j ih =>
    intro n rest h
    by_cases h128 : n < 128
    · have hm : n % 256 = n := Nat.mod_eq_of_lt (by omega)
      rw [encVarAux]
      simp [decVarAux, h128, UInt8.toNat_ofNat', hm]
    · have hpow : 2 ^ (7 * (j + 1) + 1) = 128 * 2 ^ (7 * j + 1) := by
        rw [show 7 * (j + 1) + 1 = (7 * j + 1) + 7 by omega, Nat.pow_add, Nat.mul_comm]
      have hdiv : n / 128 < 2 ^ (7 * j + 1) := by
        rw [hpow] at h
        exact Nat.div_lt_of_lt_mul h
      have hb : (n % 128 + 128) % 256 = n % 128 + 128 := Nat.mod_eq_of_lt (by omega)
      rw [encVarAux]
      simp only [h128, if_false, List.cons_append]
      rw [decVarAux]
      simp only [UInt8.toNat_ofNat', hb]
      rw [if_neg (by omega), ih (n / 128) rest hdiv]
      have e : n % 128 + 128 - 128 + 128 * (n / 128) = n := by omega
      simp only [e]

theorem decodeVarint_encodeVarint (n : Nat) (rest : Bytes) (h : n < 2 ^ 64) :
    decodeVarint (encodeVarint n ++ rest) = some (n, rest) := by
  unfold decodeVarint encodeVarint
  exact decVarAux_encVarAux 9 n rest (by simpa using h)

/-- a varint is 1 to 10 bytes long -/
theorem encVarAux_length_le (k n : Nat) : (encVarAux k n).length ≤ k := by
  induction k generalizing n with
  | zero => simp [encVarAux]
  | succ k ih =>
    rw [encVarAux]; split
    · simp
    · simp only [List.length_cons]; have := ih (n / 128); omega

/-- decoding consumes at least one byte and never invents bytes -/
theorem decVarAux_length (k : Nat) : ∀ (bs : Bytes) (v : Nat) (rest : Bytes),
    decVarAux k bs = some (v, rest) → rest.length < bs.length := by
  induction k with
  | zero => intro bs v rest h; simp [decVarAux] at h
  | succ k ih =>
    intro bs v rest h
    cases bs with
    | nil => simp [decVarAux] at h
    | cons b t =>
      rw [decVarAux] at h
      split at h
      · split at h
        · cases h
        · cases h; simp
      · cases hr : decVarAux k t with
        | none => simp [hr] at h
        | some p =>
          obtain ⟨v', r'⟩ := p
          simp [hr] at h
          have := ih t v' r' hr
          obtain ⟨_, rfl⟩ := h
          simp; omega

theorem decodeVarint_length (bs : Bytes) (v : Nat) (rest : Bytes)
    (h : decodeVarint bs = some (v, rest)) : rest.length < bs.length :=
  decVarAux_length 10 bs v rest h


/-! ### fixed width -/

theorem le_length (w n : Nat) : (le w n).length = w := by
  induction w generalizing n with
  | zero => rfl
  | succ w ih => simp [le, ih]

theorem unle_le (w : Nat) : ∀ n, n < 256 ^ w → unle (le w n) = n := by
  induction w with
  | zero => intro n h; simp at h; simp [le, unle, h]
  | succ w ih =>
    intro n h
    have hd : n / 256 < 256 ^ w := by
      rw [Nat.pow_succ] at h
      exact Nat.div_lt_of_lt_mul (by omega)
    have hp : n % 256 % 256 = n % 256 := Nat.mod_mod _ _
    simp only [le, unle, ih _ hd, UInt8.toNat_ofNat', hp]
    omega

theorem decodeFixed_le (w n : Nat) (rest : Bytes) (h : n < 256 ^ w) :
    decodeFixed w (le w n ++ rest) = some (n, rest) := by
  unfold decodeFixed
  have hl := le_length w n
  rw [if_neg (by simp [hl]), List.take_left' hl, List.drop_left' hl, unle_le w n h]

theorem decodeFixed_length (w : Nat) (bs : Bytes) (v : Nat) (rest : Bytes)
    (h : decodeFixed w bs = some (v, rest)) : rest.length + w = bs.length := by
  unfold decodeFixed at h
  split at h
  · cases h
  · cases h; simp; omega

/-! ### keys -/

theorem keyOf_eq (tag wt : Nat) (h : wt < 8) : keyOf tag wt = 8 * tag + wt := by
  unfold keyOf
  rw [← Nat.shiftLeft_add_eq_or_of_lt (i := 3) (by simpa using h), Nat.shiftLeft_eq]
  omega

theorem decodeKey_encodeKey (tag wt : Nat) (rest : Bytes) (h1 : 1 ≤ tag) (h2 : tag < 536870912)
    (hw : wt ≤ 5) : decodeKey (encodeKey tag wt ++ rest) = some (tag, wt, rest) := by
  unfold decodeKey encodeKey
  have hk := keyOf_eq tag wt (by omega)
  rw [decodeVarint_encodeVarint _ _ (by rw [hk]; omega)]
  have ha : keyOf tag wt &&& 7 = wt := by
    rw [show (7 : Nat) = 2 ^ 3 - 1 from rfl, Nat.and_two_pow_sub_one_eq_mod, hk]; omega
  have hs : keyOf tag wt >>> 3 = tag := by
    rw [Nat.shiftRight_eq_div_pow, hk]; omega
  simp only [ha, hs]
  rw [if_neg (by rw [hk]; omega), if_neg (by omega), if_neg (by omega)]

theorem decodeKey_length (bs : Bytes) (t w : Nat) (rest : Bytes)
    (h : decodeKey bs = some (t, w, rest)) : rest.length < bs.length := by
  unfold decodeKey at h
  cases hv : decodeVarint bs with
  | none => simp [hv] at h
  | some p =>
    obtain ⟨k, r⟩ := p
    have := decodeVarint_length bs k r hv
    simp only [hv] at h
    split at h
    · cases h
    · split at h
      · cases h
      · split at h
        · cases h
        · cases h; exact this

/-! ### length-delimited -/

theorem decodeLen_enc (b rest : Bytes) (h : b.length < 2 ^ 64) :
    decodeLen (encodeVarint b.length ++ (b ++ rest)) = some (b, rest) := by
  unfold decodeLen
  rw [decodeVarint_encodeVarint _ _ h]
  simp only
  rw [if_neg (by simp), List.take_left' rfl, List.drop_left' rfl]

theorem decodeLen_length (bs body rest : Bytes) (h : decodeLen bs = some (body, rest)) :
    body.length + rest.length < bs.length := by
  unfold decodeLen at h
  cases hv : decodeVarint bs with
  | none => simp [hv] at h
  | some p =>
    obtain ⟨k, r⟩ := p
    have := decodeVarint_length bs k r hv
    simp only [hv] at h
    split at h
    · cases h
    · cases h; simp; omega

/-! ### scalars -/

theorem decScalar_encVal (valid : Bytes → Bool) (s : Schema) (ty : Ty) (v : Val) (rest : Bytes)
    (hty : ∀ m, ty ≠ .message m) (h : scalarTyped valid ty v = true) :
    decScalar valid ty ty.wire (encVal s ty v ++ rest) = some (v, rest) := by
  cases ty <;> cases v <;> simp [scalarTyped] at h <;> try (exact absurd rfl (hty _))
  · rename_i n
    simp [decScalar, encVal, decodeVarint_encodeVarint n rest (by omega), Nat.mod_eq_of_lt h]
  · rename_i n
    simp [decScalar, encVal, decodeVarint_encodeVarint n rest (by omega)]
  · rename_i b
    cases b <;> simp [decScalar, encVal, decodeVarint_encodeVarint _ rest]
  · rename_i b
    simp [decScalar, encVal, List.append_assoc, decodeLen_enc b rest (by omega), h.1]
  · rename_i b
    simp [decScalar, encVal, List.append_assoc, decodeLen_enc b rest (by omega)]
  · rename_i n
    simp [decScalar, encVal, decodeFixed_le 4 n rest (by omega)]
  · rename_i n
    simp [decScalar, encVal, decodeFixed_le 8 n rest (by omega)]


/-! ### schema lookups -/

/-- every tag of the entries is a legal protobuf field number -/
def TagsOK (es : List Entry) : Prop :=
  ∀ r t x, findIn es r t = some x → 1 ≤ t ∧ t < 536870912

/-- … for every message of the schema -/
def SchemaOK (s : Schema) : Prop := ∀ m es, lookupMsg s m = some es → TagsOK es

theorem findIn_mem (es : List Entry) : ∀ r t x, findIn es r t = some x →
    t ∈ es.flatMap (fun e => e.fields.map (·.tag)) := by
  induction es with
  | nil => intro r t x h; simp [findIn] at h
  | cons e es ih =>
    intro r t x h
    cases e with
    | optional f =>
      simp only [findIn] at h
      split at h
      · next he => simp [Entry.fields, he]
      · simp only [List.flatMap_cons, List.mem_append]; exact Or.inr (ih _ _ _ h)
    | repeated f =>
      simp only [findIn] at h
      split at h
      · next he => simp [Entry.fields, he]
      · simp only [List.flatMap_cons, List.mem_append]; exact Or.inr (ih _ _ _ h)
    | oneof ms =>
      simp only [findIn] at h
      split at h
      · next f hf =>
        have h1 := List.mem_of_find?_eq_some hf
        have h2 := List.find?_some hf
        simp only [List.flatMap_cons, List.mem_append, Entry.fields, List.mem_map]
        exact Or.inl ⟨f, h1, by simpa using h2⟩
      · simp only [List.flatMap_cons, List.mem_append]; exact Or.inr (ih _ _ _ h)

theorem schemaOK_of_wf (s : Schema) (h : wfSchema s = true) : SchemaOK s := by
  intro m es hl r t x hf
  unfold lookupMsg at hl
  cases hd : s.find? (fun d => d.name == m) with
  | none => simp [hd] at hl
  | some d =>
    simp [hd] at hl
    have hmem := List.mem_of_find?_eq_some hd
    unfold wfSchema at h
    simp only [Bool.and_eq_true, List.all_eq_true] at h
    have hd' := (h.2 d hmem).1.1.1.1
    have ht := findIn_mem es r t x hf
    rw [← hl] at ht
    have := hd' t (by simpa [MsgDef.tags] using ht)
    simpa using this

theorem findIn_rank_ge (es : List Entry) : ∀ r t rank k ty,
    findIn es r t = some (rank, k, ty) → r ≤ rank := by
  induction es with
  | nil => intro r t rank k ty h; simp [findIn] at h
  | cons e es ih =>
    intro r t rank k ty h
    cases e <;> simp only [findIn] at h <;> split at h
    all_goals first
      | (cases h; exact Nat.le_refl _)
      | (have := ih _ _ _ _ _ h; omega)

theorem rankOf_of_findIn (es : List Entry) (t rank : Nat) (k : Kind) (ty : Ty)
    (h : findIn es 1 t = some (rank, k, ty)) : rankOf es t = rank := by
  simp [rankOf, h]

theorem Ty.message_or (ty : Ty) : (∃ m, ty = .message m) ∨ (∀ m, ty ≠ .message m) := by
  cases ty <;> first | exact Or.inl ⟨_, rfl⟩ | (right; intro m h; cases h)


/-! ### one step of the decoding loop -/

theorem mergeLoop_nil (valid : Bytes → Bool) (s : Schema) (fuel d : Nat) (es : List Entry)
    (acc : Recs) : mergeLoop valid s fuel d es acc [] = some acc := by
  cases fuel <;> simp [mergeLoop]

theorem decodeKey_nil : decodeKey [] = none := by
  simp [decodeKey, decodeVarint, decVarAux]

theorem mergeLoop_scalar (valid : Bytes → Bool) (s : Schema) (fuel d : Nat) (es : List Entry)
    (acc : Recs) (bs rest rest' : Bytes) (t w rank : Nat) (kind : Kind) (ty : Ty) (v : Val)
    (hk : decodeKey bs = some (t, w, rest)) (hf : findIn es 1 t = some (rank, kind, ty))
    (hty : ∀ m, ty ≠ .message m) (hnp : ¬ (kind = .repeated ∧ w = 2 ∧ ty.numeric = true))
    (hv : decScalar valid ty w rest = some (v, rest')) :
    mergeLoop valid s (fuel + 1) d es acc bs =
      mergeLoop valid s fuel d es (put es rank kind t v acc) rest' := by
  have hne : bs.isEmpty = false := by
    cases bs with
    | nil => simp [decodeKey_nil] at hk
    | cons _ _ => rfl
  rw [mergeLoop]
  simp only [hne, hk, hf]
  cases ty <;> first | exact absurd rfl (hty _) | simp only [hnp, hv, if_false, Bool.false_eq_true]

theorem mergeLoop_message (valid : Bytes → Bool) (s : Schema) (fuel d' : Nat) (es es' : List Entry)
    (acc sub : Recs) (bs rest body rest' : Bytes) (t rank : Nat) (kind : Kind) (m : String)
    (hk : decodeKey bs = some (t, 2, rest)) (hf : findIn es 1 t = some (rank, kind, .message m))
    (hl : lookupMsg s m = some es') (hb : decodeLen rest = some (body, rest'))
    (hsub : mergeLoop valid s fuel d' es' (initOf kind acc t) body = some sub) :
    mergeLoop valid s (fuel + 1) (d' + 1) es acc bs =
      mergeLoop valid s fuel (d' + 1) es (put es rank kind t (.msg sub) acc) rest' := by
  have hne : bs.isEmpty = false := by
    cases bs with
    | nil => simp [decodeKey_nil] at hk
    | cons _ _ => rfl
  rw [mergeLoop]
  simp only [hne, hk, hf, hl, hb, hsub, if_false, Bool.false_eq_true, ne_eq, not_true_eq_false]

theorem stepF_scalar (s : Schema) (nrec : List Entry → Recs → Recs → Recs) (es : List Entry)
    (acc : Recs) (t rank : Nat) (kind : Kind) (ty : Ty) (v : Val)
    (hf : findIn es 1 t = some (rank, kind, ty)) (hty : ∀ m, ty ≠ .message m) :
    stepF s nrec es acc (t, v) = put es rank kind t v acc := by
  unfold stepF
  simp only [hf]

theorem stepF_message (s : Schema) (nrec : List Entry → Recs → Recs → Recs) (es es' : List Entry)
    (acc sub : Recs) (t rank : Nat) (kind : Kind) (m : String)
    (hf : findIn es 1 t = some (rank, kind, .message m)) (hl : lookupMsg s m = some es') :
    stepF s nrec es acc (t, .msg sub) =
      put es rank kind t (.msg (nrec es' (initOf kind acc t) sub)) acc := by
  unfold stepF
  simp only [hf, hl]

theorem encRecs_cons (s : Schema) (es : List Entry) (t rank : Nat) (kind : Kind) (ty : Ty) (v : Val)
    (rest : Recs) (hf : findIn es 1 t = some (rank, kind, ty)) :
    encRecs s es ((t, v) :: rest) = encodeKey t ty.wire ++ (encVal s ty v ++ encRecs s es rest) := by
  simp [encRecs, hf]

theorem encVal_message (s : Schema) (m : String) (es' : List Entry) (sub : Recs)
    (hl : lookupMsg s m = some es') :
    encVal s (.message m) (.msg sub) =
      encodeVarint (encRecs s es' sub).length ++ encRecs s es' sub := by
  simp [encVal, hl]

theorem typedRecF_scalar (valid : Bytes → Bool) (s : Schema) (trec : List Entry → Recs → Bool)
    (es : List Entry) (t rank : Nat) (kind : Kind) (ty : Ty) (v : Val)
    (hf : findIn es 1 t = some (rank, kind, ty)) (hty : ∀ m, ty ≠ .message m)
    (h : typedRecF valid s trec es (t, v) = true) : scalarTyped valid ty v = true := by
  unfold typedRecF at h
  simp only [hf] at h
  cases ty <;> first | exact h | exact absurd rfl (hty _)

theorem typedRecF_message (valid : Bytes → Bool) (s : Schema) (trec : List Entry → Recs → Bool)
    (es : List Entry) (t rank : Nat) (kind : Kind) (m : String) (v : Val)
    (hf : findIn es 1 t = some (rank, kind, .message m))
    (h : typedRecF valid s trec es (t, v) = true) :
    ∃ sub es', v = .msg sub ∧ lookupMsg s m = some es' ∧ trec es' sub = true ∧
      (encRecs s es' sub).length < 2 ^ 64 := by
  unfold typedRecF at h
  simp only [hf] at h
  cases v with
  | msg sub =>
    cases hl : lookupMsg s m with
    | none => simp [hl] at h
    | some es' =>
      simp [hl] at h
      exact ⟨sub, es', rfl, rfl, h.1, by simpa using h.2⟩
  | _ => simp at h

theorem wire_ne_two_of_numeric (ty : Ty) (h : ty.numeric = true) : ty.wire ≠ 2 := by
  cases ty <;> simp [Ty.numeric] at h <;> simp [Ty.wire]

theorem wire_le_five (ty : Ty) : ty.wire ≤ 5 := by
  cases ty <;> simp [Ty.wire]

/-- The decoding loop on the encoding of typed records performs, record by record, the
tree-level merge `stepF`. `trec`/`nrec` abstract the nested level (instantiated by induction on
the depth). -/
theorem mergeLoop_encRecs_step (valid : Bytes → Bool) (s : Schema) (d : Nat) (es : List Entry)
    (hes : TagsOK es) (trec : List Entry → Recs → Bool) (nrec : List Entry → Recs → Recs → Recs)
    (hnested : ∀ m es' sub init f, lookupMsg s m = some es' → trec es' sub = true →
      (encRecs s es' sub).length ≤ f →
      ∃ d', d = d' + 1 ∧
        mergeLoop valid s f d' es' init (encRecs s es' sub) = some (nrec es' init sub)) :
    ∀ (rs acc : Recs) (fuel : Nat), typedRecsF valid s trec es rs = true →
      (encRecs s es rs).length ≤ fuel →
      mergeLoop valid s fuel d es acc (encRecs s es rs) = some (rs.foldl (stepF s nrec es) acc) := by
  intro rs
  induction rs with
  | nil => intro acc fuel _ _; simp [encRecs, mergeLoop_nil]
  | cons r rest ih =>
    obtain ⟨t, v⟩ := r
    intro acc fuel htyped hlen
    simp only [typedRecsF, List.all_cons, Bool.and_eq_true] at htyped
    obtain ⟨h1, hrest⟩ := htyped
    cases hf : findIn es 1 t with
    | none => simp [typedRecF, hf] at h1
    | some x =>
      obtain ⟨rank, kind, ty⟩ := x
      obtain ⟨htag1, htag2⟩ := hes 1 t _ hf
      rw [encRecs_cons s es t rank kind ty v rest hf] at hlen ⊢
      have hkl := encodeVarint_length_pos (keyOf t ty.wire)
      simp only [List.length_append, encodeKey] at hlen
      obtain ⟨f, rfl⟩ : ∃ f, fuel = f + 1 := ⟨fuel - 1, by omega⟩
      have hk := decodeKey_encodeKey t ty.wire (encVal s ty v ++ encRecs s es rest) htag1 htag2
        (wire_le_five ty)
      rcases Ty.message_or ty with ⟨m, rfl⟩ | hty
      · -- nested message
        obtain ⟨sub, es', rfl, hl, htr, hlt⟩ := typedRecF_message valid s trec es t rank kind m v hf h1
        rw [encVal_message s m es' sub hl] at hk hlen ⊢
        simp only [List.length_append] at hlen
        obtain ⟨d', rfl, hsub⟩ := hnested m es' sub (initOf kind acc t) f hl htr (by omega)
        have hb := decodeLen_enc (encRecs s es' sub) (encRecs s es rest) hlt
        rw [List.append_assoc] at hk ⊢
        rw [mergeLoop_message valid s f d' es es' acc _ _ _ _ _ t rank kind m hk hf hl hb hsub,
          ih _ f hrest (by omega), List.foldl_cons, stepF_message s nrec es es' acc sub t rank kind m hf hl]
      · -- scalar
        have hv := typedRecF_scalar valid s trec es t rank kind ty v hf hty h1
        have hd := decScalar_encVal valid s ty v (encRecs s es rest) hty hv
        have hnp : ¬ (kind = .repeated ∧ ty.wire = 2 ∧ ty.numeric = true) := by
          intro h; exact wire_ne_two_of_numeric ty h.2.2 h.2.1
        rw [mergeLoop_scalar valid s f d es acc _ _ _ t ty.wire rank kind ty v hk hf hty hnp hd,
          ih _ f hrest (by omega), List.foldl_cons, stepF_scalar s nrec es acc t rank kind ty v hf hty]

/-- decoding the encoding of typed records yields their normal form -/
theorem mergeLoop_encRecs (valid : Bytes → Bool) (s : Schema) (hs : SchemaOK s) :
    ∀ (d : Nat) (es : List Entry), TagsOK es → ∀ (rs acc : Recs) (fuel : Nat),
      typedRecs valid s d es rs = true → (encRecs s es rs).length ≤ fuel →
      mergeLoop valid s fuel d es acc (encRecs s es rs) = some (normRecs s d es acc rs) := by
  intro d
  induction d with
  | zero =>
    intro es hes rs acc fuel ht hl
    simp only [typedRecs] at ht
    simp only [normRecs]
    exact mergeLoop_encRecs_step valid s 0 es hes _ _
      (fun _ _ _ _ _ _ h _ => by simp at h) rs acc fuel ht hl
  | succ d ih =>
    intro es hes rs acc fuel ht hl
    simp only [typedRecs] at ht
    simp only [normRecs]
    exact mergeLoop_encRecs_step valid s (d + 1) es hes _ _
      (fun m es' sub init f hlk htr hlen =>
        ⟨d, rfl, ih es' (hs m es' hlk) sub init f htr hlen⟩) rs acc fuel ht hl


/-! ### canonical records are their own normal form -/

theorem insertRec_append (es : List Entry) (r : Nat) (x : Nat × Val) (acc : Recs)
    (h : ∀ y ∈ acc, rankOf es y.1 ≤ r) : insertRec es r x acc = acc ++ [x] := by
  induction acc with
  | nil => rfl
  | cons y ys ih =>
    have hy := h y (by simp)
    simp only [insertRec, hy, if_true, List.cons_append]
    rw [ih (fun z hz => h z (by simp [hz]))]

theorem put_append (es : List Entry) (r : Nat) (k : Kind) (t : Nat) (v : Val) (acc : Recs)
    (h1 : ∀ y ∈ acc, rankOf es y.1 ≤ r) (h2 : k ≠ .repeated → ∀ y ∈ acc, rankOf es y.1 < r) :
    put es r k t v acc = acc ++ [(t, v)] := by
  have hfilter : k ≠ .repeated → acc.filter (fun y => rankOf es y.1 != r) = acc := by
    intro hk
    rw [List.filter_eq_self]
    intro y hy
    have := h2 hk y hy
    simp; omega
  cases k with
  | repeated => exact insertRec_append es r (t, v) acc h1
  | optional =>
    simp only [put]
    rw [hfilter (by simp)]; exact insertRec_append es r (t, v) acc h1
  | oneof =>
    simp only [put]
    rw [hfilter (by simp)]; exact insertRec_append es r (t, v) acc h1

theorem initOf_nil (es : List Entry) (k : Kind) (acc : Recs) (t r : Nat) (hr : rankOf es t = r)
    (h2 : k ≠ .repeated → ∀ y ∈ acc, rankOf es y.1 < r) : initOf k acc t = [] := by
  cases k with
  | repeated => rfl
  | optional =>
    have : acc.find? (fun y => y.1 == t) = none := by
      rw [List.find?_eq_none]
      intro y hy he
      have := h2 (by simp) y hy
      simp at he
      rw [he, hr] at this; omega
    simp [initOf, this]
  | oneof =>
    have : acc.find? (fun y => y.1 == t) = none := by
      rw [List.find?_eq_none]
      intro y hy he
      have := h2 (by simp) y hy
      simp at he
      rw [he, hr] at this; omega
    simp [initOf, this]

/-- ordered, typed records merged one by one into a struct whose records all precede them are
simply appended -/
theorem foldl_stepF_canon (valid : Bytes → Bool) (s : Schema) (es : List Entry)
    (trec crec : List Entry → Recs → Bool) (nrec : List Entry → Recs → Recs → Recs)
    (hnested : ∀ m es' sub, lookupMsg s m = some es' → trec es' sub = true → crec es' sub = true →
      nrec es' [] sub = sub) :
    ∀ (rs acc : Recs) (last : Nat), (∀ y ∈ acc, rankOf es y.1 ≤ last) →
      typedRecsF valid s trec es rs = true → orderedFrom es last rs = true →
      rs.all (canonRecF s crec es) = true →
      rs.foldl (stepF s nrec es) acc = acc ++ rs := by
  intro rs
  induction rs with
  | nil => intro acc last _ _ _ _; simp
  | cons r rest ih =>
    obtain ⟨t, v⟩ := r
    intro acc last hacc htyped hord hcan
    simp only [typedRecsF, List.all_cons, Bool.and_eq_true] at htyped hcan
    obtain ⟨h1, hrest⟩ := htyped
    obtain ⟨c1, crest⟩ := hcan
    cases hf : findIn es 1 t with
    | none => simp [typedRecF, hf] at h1
    | some x =>
      obtain ⟨rank, kind, ty⟩ := x
      have hrk := rankOf_of_findIn es t rank kind ty hf
      -- what the order check says about this record
      have hord' : (last ≤ rank ∧ (kind ≠ .repeated → last < rank)) ∧
          orderedFrom es rank rest = true := by
        simp only [orderedFrom, hf] at hord
        cases kind <;> simp only [Bool.and_eq_true, decide_eq_true_eq] at hord <;>
          refine ⟨⟨by omega, ?_⟩, hord.2⟩ <;> intro hk <;> first | omega | exact absurd rfl hk
      obtain ⟨⟨hle, hlt⟩, hordrest⟩ := hord'
      have hacc1 : ∀ y ∈ acc, rankOf es y.1 ≤ rank := fun y hy => Nat.le_trans (hacc y hy) hle
      have hacc2 : kind ≠ .repeated → ∀ y ∈ acc, rankOf es y.1 < rank :=
        fun hk y hy => Nat.lt_of_le_of_lt (hacc y hy) (hlt hk)
      have hnew : ∀ w, ∀ y ∈ acc ++ [(t, w)], rankOf es y.1 ≤ rank := by
        intro w y hy
        rcases List.mem_append.mp hy with h | h
        · exact hacc1 y h
        · simp at h; rw [h]; simp [hrk]
      rw [List.foldl_cons]
      rcases Ty.message_or ty with ⟨m, rfl⟩ | hty
      · obtain ⟨sub, es', rfl, hl, htr, _⟩ := typedRecF_message valid s trec es t rank kind m v hf h1
        have hc : crec es' sub = true := by simpa [canonRecF, hf, hl] using c1
        rw [stepF_message s nrec es es' acc sub t rank kind m hf hl,
          initOf_nil es kind acc t rank hrk hacc2, hnested m es' sub hl htr hc,
          put_append es rank kind t _ acc hacc1 hacc2,
          ih _ rank (hnew _) hrest hordrest crest]
        simp
      · rw [stepF_scalar s nrec es acc t rank kind ty v hf hty,
          put_append es rank kind t _ acc hacc1 hacc2,
          ih _ rank (hnew _) hrest hordrest crest]
        simp

theorem normRecs_canon (valid : Bytes → Bool) (s : Schema) :
    ∀ (d : Nat) (es : List Entry) (rs : Recs), typedRecs valid s d es rs = true →
      canonRecs s d es rs = true → normRecs s d es [] rs = rs := by
  intro d
  induction d with
  | zero =>
    intro es rs ht hc
    simp only [typedRecs] at ht
    simp only [canonRecs, canonRecsF, Bool.and_eq_true] at hc
    simp only [normRecs]
    have := foldl_stepF_canon valid s es _ (fun _ _ => true) (fun _ a _ => a)
      (fun _ _ _ _ h _ => by simp at h) rs [] 0 (by simp) ht hc.1 hc.2
    simpa using this
  | succ d ih =>
    intro es rs ht hc
    simp only [typedRecs] at ht
    simp only [canonRecs, canonRecsF, Bool.and_eq_true] at hc
    simp only [normRecs]
    have := foldl_stepF_canon valid s es _ (canonRecs s d) (normRecs s d)
      (fun _ es' sub _ h1 h2 => ih es' sub h1 h2) rs [] 0 (by simp) ht hc.1 hc.2
    simpa using this


/-! ### the fuel never runs out -/

theorem skip_length (fuel : Nat) :
    (∀ depth wt tag bs rest, skipAux fuel depth wt tag bs = some rest → rest.length ≤ bs.length) ∧
    (∀ depth tag bs rest, skipGroup fuel depth tag bs = some rest → rest.length ≤ bs.length) := by
  induction fuel with
  | zero => constructor <;> intros <;> simp_all [skipAux, skipGroup]
  | succ fuel ih =>
    constructor
    · intro depth wt tag bs rest h
      rw [skipAux] at h
      split at h
      · cases h
      · split at h
        · cases hv : decodeVarint bs with
          | none => simp [hv] at h
          | some p =>
            have := decodeVarint_length bs p.1 p.2 hv
            simp [hv] at h; subst h; omega
        · split at h
          · cases hv : decodeFixed 8 bs with
            | none => simp [hv] at h
            | some p =>
              have := decodeFixed_length 8 bs p.1 p.2 hv
              simp [hv] at h; subst h; omega
          · split at h
            · cases hv : decodeFixed 4 bs with
              | none => simp [hv] at h
              | some p =>
                have := decodeFixed_length 4 bs p.1 p.2 hv
                simp [hv] at h; subst h; omega
            · split at h
              · cases hv : decodeLen bs with
                | none => simp [hv] at h
                | some p =>
                  have := decodeLen_length bs p.1 p.2 hv
                  simp [hv] at h; subst h; omega
              · split at h
                · exact ih.2 _ _ _ _ h
                · cases h
    · intro depth tag bs rest h
      rw [skipGroup] at h
      cases hk : decodeKey bs with
      | none => simp [hk] at h
      | some p =>
        obtain ⟨itag, iwt, r1⟩ := p
        have h1 := decodeKey_length bs itag iwt r1 hk
        simp only [hk] at h
        split at h
        · split at h
          · cases h; omega
          · cases h
        · cases hs : skipAux fuel (depth - 1) iwt itag r1 with
          | none => simp [hs] at h
          | some r2 =>
            have h2 := ih.1 _ _ _ _ _ hs
            simp only [hs] at h
            have h3 := ih.2 _ _ _ _ h
            omega

theorem skipField_length (depth wt tag : Nat) (bs rest : Bytes)
    (h : skipField depth wt tag bs = some rest) : rest.length ≤ bs.length :=
  (skip_length _).1 _ _ _ _ _ h

theorem decScalar_length (valid : Bytes → Bool) (ty : Ty) (wt : Nat) (bs : Bytes) (v : Val)
    (rest : Bytes) (h : decScalar valid ty wt bs = some (v, rest)) : rest.length < bs.length := by
  unfold decScalar at h
  split at h
  · cases h
  · cases ty <;> simp only at h
    case message => cases h
    case string =>
      cases hv : decodeLen bs with
      | none => simp [hv] at h
      | some p =>
        have := decodeLen_length bs p.1 p.2 hv
        simp only [hv] at h
        split at h
        · cases h; omega
        · cases h
    case bytes =>
      cases hv : decodeLen bs with
      | none => simp [hv] at h
      | some p =>
        have := decodeLen_length bs p.1 p.2 hv
        simp [hv] at h; obtain ⟨_, rfl⟩ := h; omega
    case float =>
      cases hv : decodeFixed 4 bs with
      | none => simp [hv] at h
      | some p =>
        have := decodeFixed_length 4 bs p.1 p.2 hv
        simp [hv] at h; obtain ⟨_, rfl⟩ := h; omega
    case double =>
      cases hv : decodeFixed 8 bs with
      | none => simp [hv] at h
      | some p =>
        have := decodeFixed_length 8 bs p.1 p.2 hv
        simp [hv] at h; obtain ⟨_, rfl⟩ := h; omega
    all_goals
      cases hv : decodeVarint bs with
      | none => simp [hv] at h
      | some p =>
        have := decodeVarint_length bs p.1 p.2 hv
        simp [hv] at h; obtain ⟨_, rfl⟩ := h; omega

/-- Any fuel of at least the input length gives the same answer: `none` never means "out of
fuel", only a prost `DecodeError`. -/
theorem mergeLoop_fuel (valid : Bytes → Bool) (s : Schema) : ∀ (f1 f2 d : Nat) (es : List Entry)
    (acc : Recs) (bs : Bytes), bs.length ≤ f1 → bs.length ≤ f2 →
    mergeLoop valid s f1 d es acc bs = mergeLoop valid s f2 d es acc bs := by
  intro f1
  induction f1 with
  | zero =>
    intro f2 d es acc bs h1 _
    have : bs = [] := List.eq_nil_of_length_eq_zero (by omega)
    subst this; simp [mergeLoop_nil]
  | succ f1 ih =>
    intro f2 d es acc bs h1 h2
    cases bs with
    | nil => simp [mergeLoop_nil]
    | cons b bt =>
      obtain ⟨f2, rfl⟩ : ∃ f, f2 = f + 1 := ⟨f2 - 1, by simp at h2; omega⟩
      rw [mergeLoop, mergeLoop]
      simp only [List.isEmpty_cons, Bool.false_eq_true, if_false]
      cases hk : decodeKey (b :: bt) with
      | none => rfl
      | some p =>
        obtain ⟨tag, wt, rest⟩ := p
        have hr := decodeKey_length _ tag wt rest hk
        simp only [List.length_cons] at hr h1 h2
        simp only
        cases hf : findIn es 1 tag with
        | none =>
          simp only
          cases hs : skipField d wt tag rest with
          | none => rfl
          | some rest' =>
            have := skipField_length d wt tag rest rest' hs
            exact ih f2 d es acc rest' (by omega) (by omega)
        | some x =>
          obtain ⟨rank, kind, ty⟩ := x
          rcases Ty.message_or ty with ⟨m, rfl⟩ | hty
          · simp only
            split
            · rfl
            · cases d with
              | zero => rfl
              | succ d' =>
                simp only
                cases hl : lookupMsg s m with
                | none => rfl
                | some es' =>
                  simp only
                  cases hb : decodeLen rest with
                  | none => rfl
                  | some q =>
                    obtain ⟨body, rest'⟩ := q
                    have := decodeLen_length rest body rest' hb
                    simp only
                    rw [ih f2 d' es' (initOf kind acc tag) body (by omega) (by omega)]
                    cases mergeLoop valid s f2 d' es' (initOf kind acc tag) body with
                    | none => rfl
                    | some sub => exact ih f2 (d' + 1) es _ rest' (by omega) (by omega)
          · cases ty
            case message => exact absurd rfl (hty _)
            all_goals
              simp only
              split
              · cases hb : decodeLen rest with
                | none => rfl
                | some q =>
                  obtain ⟨body, rest'⟩ := q
                  have := decodeLen_length rest body rest' hb
                  simp only
                  split
                  · rfl
                  · exact ih f2 d es _ rest' (by omega) (by omega)
              · split
                · rfl
                · next v rest' hv =>
                  have := decScalar_length valid _ wt rest v rest' hv
                  exact ih f2 d es _ rest' (by omega) (by omega)


/-- the same for `skip_field`: `2 * length + 2` steps always suffice -/
theorem skip_fuel (f1 : Nat) : ∀ f2,
    (∀ depth wt tag bs, 2 * bs.length + 2 ≤ f1 → 2 * bs.length + 2 ≤ f2 →
      skipAux f1 depth wt tag bs = skipAux f2 depth wt tag bs) ∧
    (∀ depth tag bs, 2 * bs.length + 1 ≤ f1 → 2 * bs.length + 1 ≤ f2 →
      skipGroup f1 depth tag bs = skipGroup f2 depth tag bs) := by
  induction f1 with
  | zero => intro f2; constructor <;> intros <;> omega
  | succ f1 ih =>
    intro f2
    constructor
    · intro depth wt tag bs h1 h2
      obtain ⟨f2, rfl⟩ : ∃ f, f2 = f + 1 := ⟨f2 - 1, by omega⟩
      rw [skipAux, skipAux]
      rw [(ih f2).2 depth tag bs (by omega) (by omega)]
    · intro depth tag bs h1 h2
      obtain ⟨f2, rfl⟩ : ∃ f, f2 = f + 1 := ⟨f2 - 1, by omega⟩
      rw [skipGroup, skipGroup]
      cases hk : decodeKey bs with
      | none => rfl
      | some p =>
        obtain ⟨itag, iwt, r1⟩ := p
        have hr := decodeKey_length bs itag iwt r1 hk
        simp only
        split
        · rfl
        · rw [(ih f2).1 (depth - 1) iwt itag r1 (by omega) (by omega)]
          cases hs : skipAux f2 (depth - 1) iwt itag r1 with
          | none => rfl
          | some r2 =>
            have := (skip_length f2).1 _ _ _ _ _ hs
            exact (ih f2).2 depth tag r2 (by omega) (by omega)

theorem skipField_fuel (f depth wt tag : Nat) (bs : Bytes) (h : 2 * bs.length + 2 ≤ f) :
    skipAux f depth wt tag bs = skipField depth wt tag bs :=
  ((skip_fuel f (2 * bs.length + 2)).1 depth wt tag bs h (Nat.le_refl _))


/-! ### whatever the decoder accepts, its result is canonical -/

theorem orderedFrom_cons (es : List Entry) (last t : Nat) (v : Val) (rest : Recs) (r : Nat)
    (k : Kind) (ty : Ty) (hf : findIn es 1 t = some (r, k, ty)) :
    orderedFrom es last ((t, v) :: rest) = true ↔
      (last ≤ r ∧ (k ≠ .repeated → last < r)) ∧ orderedFrom es r rest = true := by
  simp only [orderedFrom, hf]
  cases k <;> simp only [Bool.and_eq_true, decide_eq_true_eq] <;> constructor
  all_goals
    intro h
    first
      | exact ⟨⟨by omega, fun _ => by omega⟩, h.2⟩
      | exact ⟨⟨h.1, fun hk => absurd rfl hk⟩, h.2⟩
      | exact ⟨h.1.2 (by simp), h.2⟩
      | exact ⟨h.1.1, h.2⟩

theorem orderedFrom_none (es : List Entry) (last t : Nat) (v : Val) (rest : Recs)
    (hf : findIn es 1 t = none) : orderedFrom es last ((t, v) :: rest) = false := by
  simp [orderedFrom, hf]

theorem orderedFrom_mono (es : List Entry) (rs : Recs) (last last' : Nat) (h : last' ≤ last)
    (ho : orderedFrom es last rs = true) : orderedFrom es last' rs = true := by
  cases rs with
  | nil => rfl
  | cons y ys =>
    obtain ⟨t, v⟩ := y
    cases hf : findIn es 1 t with
    | none => rw [orderedFrom_none es last t v ys hf] at ho; cases ho
    | some x =>
      obtain ⟨r, k, ty⟩ := x
      rw [orderedFrom_cons es _ t v ys r k ty hf] at ho ⊢
      exact ⟨⟨by omega, fun hk => by have := ho.1.2 hk; omega⟩, ho.2⟩

theorem orderedFrom_filter (es : List Entry) (p : Nat × Val → Bool) : ∀ (rs : Recs) (last : Nat),
    orderedFrom es last rs = true → orderedFrom es last (rs.filter p) = true := by
  intro rs
  induction rs with
  | nil => intro last _; rfl
  | cons y ys ih =>
    intro last ho
    obtain ⟨t, v⟩ := y
    cases hf : findIn es 1 t with
    | none => rw [orderedFrom_none es last t v ys hf] at ho; cases ho
    | some x =>
      obtain ⟨r, k, ty⟩ := x
      rw [orderedFrom_cons es _ t v ys r k ty hf] at ho
      rw [List.filter_cons]
      split
      · rw [orderedFrom_cons es _ t v _ r k ty hf]
        exact ⟨ho.1, ih r ho.2⟩
      · exact orderedFrom_mono es _ r last ho.1.1 (ih r ho.2)

theorem orderedFrom_insertRec (es : List Entry) (t r : Nat) (k : Kind) (ty : Ty) (v : Val)
    (hf : findIn es 1 t = some (r, k, ty)) : ∀ (acc : Recs) (last : Nat),
    orderedFrom es last acc = true → last ≤ r → (k ≠ .repeated → last < r) →
    (k ≠ .repeated → ∀ y ∈ acc, rankOf es y.1 ≠ r) →
    orderedFrom es last (insertRec es r (t, v) acc) = true := by
  intro acc
  induction acc with
  | nil =>
    intro last _ h1 h2 _
    simp only [insertRec]
    rw [orderedFrom_cons es _ t v [] r k ty hf]
    exact ⟨⟨h1, h2⟩, rfl⟩
  | cons y ys ih =>
    intro last ho h1 h2 h3
    obtain ⟨ty', vy⟩ := y
    cases hfy : findIn es 1 ty' with
    | none => rw [orderedFrom_none es last ty' vy ys hfy] at ho; cases ho
    | some x =>
      obtain ⟨ry, ky, tyy⟩ := x
      have hry : rankOf es ty' = ry := rankOf_of_findIn es ty' ry ky tyy hfy
      rw [orderedFrom_cons es _ ty' vy ys ry ky tyy hfy] at ho
      simp only [insertRec, hry]
      split
      · next hle =>
        rw [orderedFrom_cons es _ ty' vy _ ry ky tyy hfy]
        refine ⟨ho.1, ih ry ho.2 hle ?_ ?_⟩
        · intro hk
          have := h3 hk (ty', vy) (by simp)
          simp only [hry] at this; omega
        · intro hk y hy; exact h3 hk y (by simp [hy])
      · next hgt =>
        rw [orderedFrom_cons es _ t v _ r k ty hf]
        refine ⟨⟨h1, h2⟩, ?_⟩
        rw [orderedFrom_cons es _ ty' vy ys ry ky tyy hfy]
        exact ⟨⟨by omega, fun _ => by omega⟩, ho.2⟩

theorem orderedFrom_put (es : List Entry) (t r : Nat) (k : Kind) (ty : Ty) (v : Val)
    (hf : findIn es 1 t = some (r, k, ty)) (hr : 1 ≤ r) (acc : Recs)
    (ho : orderedFrom es 0 acc = true) : orderedFrom es 0 (put es r k t v acc) = true := by
  cases k with
  | repeated =>
    exact orderedFrom_insertRec es t r _ ty v hf acc 0 ho (by omega) (fun h => absurd rfl h)
      (fun h => absurd rfl h)
  | optional =>
    simp only [put]
    refine orderedFrom_insertRec es t r _ ty v hf _ 0 (orderedFrom_filter es _ acc 0 ho) (by omega)
      (fun _ => by omega) (fun _ y hy => ?_)
    have := (List.mem_filter.mp hy).2
    simpa using this
  | oneof =>
    simp only [put]
    refine orderedFrom_insertRec es t r _ ty v hf _ 0 (orderedFrom_filter es _ acc 0 ho) (by omega)
      (fun _ => by omega) (fun _ y hy => ?_)
    have := (List.mem_filter.mp hy).2
    simpa using this

theorem mem_insertRec (es : List Entry) (r : Nat) (x y : Nat × Val) (acc : Recs)
    (h : y ∈ insertRec es r x acc) : y = x ∨ y ∈ acc := by
  induction acc with
  | nil => simp [insertRec] at h; exact Or.inl h
  | cons z zs ih =>
    simp only [insertRec] at h
    split at h
    · rcases List.mem_cons.mp h with h | h
      · exact Or.inr (by simp [h])
      · rcases ih h with h | h
        · exact Or.inl h
        · exact Or.inr (by simp [h])
    · rcases List.mem_cons.mp h with h | h
      · exact Or.inl h
      · exact Or.inr h

theorem mem_put (es : List Entry) (r : Nat) (k : Kind) (t : Nat) (v : Val) (y : Nat × Val)
    (acc : Recs) (h : y ∈ put es r k t v acc) : y = (t, v) ∨ y ∈ acc := by
  cases k <;> simp only [put] at h <;> rcases mem_insertRec es r _ y _ h with h | h
  all_goals first
    | exact Or.inl h
    | exact Or.inr h
    | exact Or.inr (List.mem_filter.mp h).1

/-- one level of the invariant: ordered, nested messages satisfy `crec` -/
def CanonLevel (s : Schema) (crec : List Entry → Recs → Bool) (es : List Entry) (acc : Recs) : Prop :=
  orderedFrom es 0 acc = true ∧ ∀ y ∈ acc, canonRecF s crec es y = true

theorem canonLevel_iff (s : Schema) (crec : List Entry → Recs → Bool) (es : List Entry) (acc : Recs) :
    canonRecsF s crec es acc = true ↔ CanonLevel s crec es acc := by
  simp [canonRecsF, CanonLevel, List.all_eq_true]

theorem canonLevel_put (s : Schema) (crec : List Entry → Recs → Bool) (es : List Entry)
    (t r : Nat) (k : Kind) (ty : Ty) (v : Val) (hf : findIn es 1 t = some (r, k, ty)) (acc : Recs)
    (hv : canonRecF s crec es (t, v) = true) (h : CanonLevel s crec es acc) :
    CanonLevel s crec es (put es r k t v acc) := by
  have hr := findIn_rank_ge es 1 t r k ty hf
  refine ⟨orderedFrom_put es t r k ty v hf hr acc h.1, fun y hy => ?_⟩
  rcases mem_put es r k t v y acc hy with rfl | hy
  · exact hv
  · exact h.2 y hy

theorem canonRecF_scalar (s : Schema) (crec : List Entry → Recs → Bool) (es : List Entry)
    (t : Nat) (v : Val) (hv : ∀ sub, v ≠ .msg sub) : canonRecF s crec es (t, v) = true := by
  cases v with
  | msg sub => exact absurd rfl (hv sub)
  | _ => unfold canonRecF; split <;> simp_all

theorem decScalar_not_msg (valid : Bytes → Bool) (ty : Ty) (wt : Nat) (bs : Bytes) (v : Val)
    (rest : Bytes) (h : decScalar valid ty wt bs = some (v, rest)) : ∀ sub, v ≠ .msg sub := by
  intro sub hv
  subst hv
  unfold decScalar at h
  split at h
  · cases h
  · cases ty <;> simp only at h
    case string =>
      split at h
      · split at h <;> cases h
      · cases h
    all_goals first
      | cases h
      | (simp only [Option.map_eq_some_iff] at h; obtain ⟨_, _, h⟩ := h; cases h)

theorem decPacked_not_msg (valid : Bytes → Bool) (ty : Ty) : ∀ (fuel : Nat) (bs : Bytes)
    (vs : List Val), decPacked valid ty fuel bs = some vs → ∀ v ∈ vs, ∀ sub, v ≠ .msg sub := by
  intro fuel
  induction fuel with
  | zero =>
    intro bs vs h
    simp only [decPacked] at h
    split at h
    · cases h; simp
    · cases h
  | succ fuel ih =>
    intro bs vs h
    rw [decPacked] at h
    split at h
    · cases h; simp
    · cases hd : decScalar valid ty ty.wire bs with
      | none => simp [hd] at h
      | some p =>
        obtain ⟨v, rest⟩ := p
        simp only [hd] at h
        cases hp : decPacked valid ty fuel rest with
        | none => simp [hp] at h
        | some vs' =>
          simp only [hp] at h
          cases h
          intro w hw
          rcases List.mem_cons.mp hw with rfl | hw
          · exact decScalar_not_msg valid ty _ bs _ rest hd
          · exact ih rest vs' hp w hw

theorem canonLevel_foldl_put (s : Schema) (crec : List Entry → Recs → Bool) (es : List Entry)
    (t r : Nat) (k : Kind) (ty : Ty) (hf : findIn es 1 t = some (r, k, ty)) :
    ∀ (vs : List Val) (acc : Recs), (∀ v ∈ vs, ∀ sub, v ≠ .msg sub) → CanonLevel s crec es acc →
      CanonLevel s crec es (vs.foldl (fun a v => put es r k t v a) acc) := by
  intro vs
  induction vs with
  | nil => intro acc _ h; exact h
  | cons v vs ih =>
    intro acc hv h
    rw [List.foldl_cons]
    exact ih _ (fun w hw => hv w (by simp [hw]))
      (canonLevel_put s crec es t r k ty v hf acc
        (canonRecF_scalar s crec es t v (hv v (by simp))) h)

/-- the struct being built stays canonical through the whole loop -/
theorem mergeLoop_canon (valid : Bytes → Bool) (s : Schema) : ∀ (fuel d : Nat) (es : List Entry)
    (acc : Recs) (bs : Bytes) (res : Recs), canonRecs s d es acc = true →
    mergeLoop valid s fuel d es acc bs = some res → canonRecs s d es res = true := by
  intro fuel
  induction fuel with
  | zero =>
    intro d es acc bs res hc h
    simp only [mergeLoop] at h
    split at h
    · cases h; exact hc
    · cases h
  | succ fuel ih =>
    intro d es acc bs res hc h
    rw [mergeLoop] at h
    split at h
    · cases h; exact hc
    · cases hk : decodeKey bs with
      | none => simp [hk] at h
      | some p =>
        obtain ⟨tag, wt, rest⟩ := p
        simp only [hk] at h
        cases hf : findIn es 1 tag with
        | none =>
          simp only [hf] at h
          cases hs : skipField d wt tag rest with
          | none => simp [hs] at h
          | some rest' => simp only [hs] at h; exact ih d es acc rest' res hc h
        | some x =>
          obtain ⟨rank, kind, ty⟩ := x
          simp only [hf] at h
          rcases Ty.message_or ty with ⟨m, rfl⟩ | hty
          · simp only at h
            split at h
            · cases h
            · cases d with
              | zero => cases h
              | succ d' =>
                simp only at h
                cases hl : lookupMsg s m with
                | none => simp [hl] at h
                | some es' =>
                  simp only [hl] at h
                  cases hb : decodeLen rest with
                  | none => simp [hb] at h
                  | some q =>
                    obtain ⟨body, rest'⟩ := q
                    simp only [hb] at h
                    cases hsub : mergeLoop valid s fuel d' es' (initOf kind acc tag) body with
                    | none => simp [hsub] at h
                    | some sub =>
                      simp only [hsub] at h
                      have hlevel : CanonLevel s (canonRecs s d') es acc := by
                        rw [← canonLevel_iff]; simpa [canonRecs] using hc
                      -- the message merged into is canonical
                      have hinit : canonRecs s d' es' (initOf kind acc tag) = true := by
                        have hnil : canonRecs s d' es' [] = true := by
                          cases d' <;> simp [canonRecs, canonRecsF, orderedFrom]
                        cases kind with
                        | repeated => exact hnil
                        | optional =>
                          simp only [initOf]
                          split
                          · next y old hfind =>
                            have hmem := List.mem_of_find?_eq_some hfind
                            have htag := List.find?_some hfind
                            simp only [beq_iff_eq] at htag
                            have := hlevel.2 _ hmem
                            simp only [canonRecF, htag, hf, hl] at this
                            exact this
                          · exact hnil
                        | oneof =>
                          simp only [initOf]
                          split
                          · next y old hfind =>
                            have hmem := List.mem_of_find?_eq_some hfind
                            have htag := List.find?_some hfind
                            simp only [beq_iff_eq] at htag
                            have := hlevel.2 _ hmem
                            simp only [canonRecF, htag, hf, hl] at this
                            exact this
                          · exact hnil
                      have hsubc := ih d' es' _ body sub hinit hsub
                      have hnew : canonRecF s (canonRecs s d') es (tag, .msg sub) = true := by
                        simp only [canonRecF, hf, hl]; exact hsubc
                      have hacc' := canonLevel_put s (canonRecs s d') es tag rank kind _ (.msg sub)
                        hf acc hnew hlevel
                      refine ih (d' + 1) es _ rest' res ?_ h
                      simp only [canonRecs]
                      rw [canonLevel_iff]; exact hacc'
          · have hlevel : ∃ crec, canonRecs s d es = canonRecsF s crec es := by
              cases d with
              | zero => exact ⟨_, rfl⟩
              | succ d => exact ⟨_, rfl⟩
            obtain ⟨crec, hcrec⟩ := hlevel
            rw [hcrec, canonLevel_iff] at hc
            have hgoal : ∀ acc' rest', CanonLevel s crec es acc' →
                mergeLoop valid s fuel d es acc' rest' = some res → canonRecs s d es res = true := by
              intro acc' rest' hl' hm
              exact ih d es acc' rest' res (by rw [hcrec, canonLevel_iff]; exact hl') hm
            cases ty
            case message => exact absurd rfl (hty _)
            all_goals
              simp only at h
              split at h
              · cases hb : decodeLen rest with
                | none => simp [hb] at h
                | some q =>
                  obtain ⟨body, rest'⟩ := q
                  simp only [hb] at h
                  split at h
                  · cases h
                  · next vs hvs =>
                    exact hgoal _ rest' (canonLevel_foldl_put s crec es tag rank kind _ hf vs acc
                      (decPacked_not_msg valid _ _ body vs hvs) hc) h
              · split at h
                · cases h
                · next v rest' hv =>
                  exact hgoal _ rest' (canonLevel_put s crec es tag rank kind _ v hf acc
                    (canonRecF_scalar s crec es tag v (decScalar_not_msg valid _ wt rest v rest' hv))
                    hc) h

end Srad.Wire
