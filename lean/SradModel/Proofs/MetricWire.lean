/-
Helper lemmas for `Props/C12Wire.lean`: the payload records of the metric model, printed as value
trees (`Model/MetricWire.lean`), are well-typed and canonical trees of the Sparkplug schema when
they are in the Rust ranges, reading the tree back gives the record, and hence the concrete codec
`encW` / `decW` round-trips (by `M13_sparkplug_payload_roundtrip`).
-/
import SradModel.Model.MetricWire
import SradModel.Model.MetricSpec
import SradModel.Proofs.Metric
import SradModel.Props.M13

namespace Srad.Metric
open Srad.Codec (Bytes DT)
open Srad.Wire (Val Recs Entry Ty Kind Schema sparkplug lookupMsg findIn encRecs encodeMsg decodeMsg
  canonRecs canonRecsF canonRecF orderedFrom typedRecs typedRecsF typedRecF scalarTyped optF repF)

/-! ### lists of records built from segments -/

theorem all_optRec_map {α : Type} (t : Nat) (o : Option α) (f : α → Val) (p : Nat × Val → Bool) :
    (optRec t (o.map f)).all p = o.all fun x => p (t, f x) := by
  cases o <;> simp [optRec]

theorem all_repRec_map {α : Type} (t : Nat) (l : List α) (f : α → Val) (p : Nat × Val → Bool) :
    (repRec t (l.map f)).all p = l.all fun x => p (t, f x) := by
  simp [repRec, List.all_map]; rfl

theorem ppvsRecs_eq (vs : List PPV) : ppvsRecs vs = repRec 2 (vs.map fun pv => Val.msg (ppvRecs pv)) := by
  induction vs with
  | nil => rfl
  | cons pv t ih => obtain ⟨ty, nu, v⟩ := pv; simp [ppvsRecs, ih, repRec, ppvRecs]

theorem psetsRecs_eq (l : List PSet) : psetsRecs l = pslRecs l := by
  induction l with
  | nil => rfl
  | cons ps t ih =>
    obtain ⟨ks, vs⟩ := ps
    simp [psetsRecs, ih, pslRecs, repRec, psetRecs, ppvsRecs_eq]

theorem pvalRecs_set (ks : List Str) (vs : List PPV) :
    pvalRecs (.set ks vs) = [(9, .msg (psetRecs (ks, vs)))] := by
  simp [pvalRecs, psetRecs, ppvsRecs_eq]

theorem pvalRecs_sets (l : List PSet) : pvalRecs (.sets l) = [(10, .msg (pslRecs l))] := by
  simp [pvalRecs, psetsRecs_eq]

/-! ### the Sparkplug schema: lookups by evaluation -/

theorem lookup_payload : lookupMsg sparkplug "Payload" = some (esOf "Payload") := by rfl
theorem lookup_metric : lookupMsg sparkplug "Metric" = some (esOf "Metric") := by rfl
theorem lookup_meta : lookupMsg sparkplug "MetaData" = some (esOf "MetaData") := by rfl
theorem lookup_ps : lookupMsg sparkplug "PropertySet" = some (esOf "PropertySet") := by rfl
theorem lookup_pv : lookupMsg sparkplug "PropertyValue" = some (esOf "PropertyValue") := by rfl
theorem lookup_psl : lookupMsg sparkplug "PropertySetList" = some (esOf "PropertySetList") := by rfl
theorem lookup_dataset : lookupMsg sparkplug "DataSet" = some (esOf "DataSet") := by rfl
theorem lookup_template : lookupMsg sparkplug "Template" = some (esOf "Template") := by rfl
theorem lookup_pvext : lookupMsg sparkplug "PropertyValueExtension" = some [] := by rfl
theorem lookup_mvext : lookupMsg sparkplug "MetricValueExtension" = some [] := by rfl

theorem fi_payload (r t : Nat) : findIn (esOf "Payload") r t = findIn [optF 1 .uint64,
    repF 2 (.message "Metric"), optF 3 .uint64, optF 4 .string, optF 5 .bytes] r t := by rfl
theorem fi_meta (r t : Nat) : findIn (esOf "MetaData") r t = findIn [optF 1 .bool, optF 2 .string,
    optF 3 .uint64, optF 4 .uint64, optF 5 .string, optF 6 .string, optF 7 .string, optF 8 .string]
    r t := by rfl
theorem fi_ps (r t : Nat) : findIn (esOf "PropertySet") r t = findIn [repF 1 .string,
    repF 2 (.message "PropertyValue")] r t := by rfl
theorem fi_psl (r t : Nat) : findIn (esOf "PropertySetList") r t =
    findIn [repF 1 (.message "PropertySet")] r t := by rfl
theorem fi_pv (r t : Nat) : findIn (esOf "PropertyValue") r t = findIn [optF 1 .uint32, optF 2 .bool,
    .oneof [⟨3, .uint32⟩, ⟨4, .uint64⟩, ⟨5, .float⟩, ⟨6, .double⟩, ⟨7, .bool⟩, ⟨8, .string⟩,
      ⟨9, .message "PropertySet"⟩, ⟨10, .message "PropertySetList"⟩,
      ⟨11, .message "PropertyValueExtension"⟩]] r t := by rfl
theorem fi_metric (r t : Nat) : findIn (esOf "Metric") r t = findIn [optF 1 .string, optF 2 .uint64,
    optF 3 .uint64, optF 4 .uint32, optF 5 .bool, optF 6 .bool, optF 7 .bool,
    optF 8 (.message "MetaData"), optF 9 (.message "PropertySet"),
    .oneof [⟨10, .uint32⟩, ⟨11, .uint64⟩, ⟨12, .float⟩, ⟨13, .double⟩, ⟨14, .bool⟩, ⟨15, .string⟩,
      ⟨16, .bytes⟩, ⟨17, .message "DataSet"⟩, ⟨18, .message "Template"⟩,
      ⟨19, .message "MetricValueExtension"⟩]] r t := by rfl

/-! ### typing: the length bounds follow from the length of the whole encoding -/

theorem scalarTyped_of_loose (valid : Bytes → Bool) (s : Schema) (ty : Ty) (v : Val)
    (h : scalarLoose valid ty v = true) (hl : (Wire.encVal s ty v).length < 2 ^ 64) :
    scalarTyped valid ty v = true := by
  cases ty <;> cases v <;> simp [scalarLoose, u32, u64] at h <;>
    simp [scalarTyped, Wire.encVal] at hl ⊢ <;> first | omega | (refine ⟨h, ?_⟩; omega) | exact h

theorem typedRecsF_of_loose (valid : Bytes → Bool) (s : Schema)
    (recL rec : List Entry → Recs → Bool)
    (hrec : ∀ es' sub, recL es' sub = true → (encRecs s es' sub).length < 2 ^ 64 →
      rec es' sub = true) (es : List Entry) :
    ∀ rs, looseRecsF valid s recL es rs = true → (encRecs s es rs).length < 2 ^ 64 →
      typedRecsF valid s rec es rs = true := by
  intro rs
  induction rs with
  | nil => intro _ _; rfl
  | cons x rest ih =>
    obtain ⟨t, v⟩ := x
    intro h hl
    simp only [looseRecsF, List.all_cons, Bool.and_eq_true] at h
    obtain ⟨h1, h2⟩ := h
    simp only [typedRecsF, List.all_cons, Bool.and_eq_true]
    unfold looseRecF at h1
    cases hf : findIn es 1 t with
    | none => simp [hf] at h1
    | some x =>
      obtain ⟨r, k, ty⟩ := x
      rw [Wire.encRecs_cons s es t r k ty v rest hf] at hl
      simp only [List.length_append] at hl
      refine ⟨?_, ih h2 (by omega)⟩
      unfold typedRecF
      simp only [hf] at h1 ⊢
      rcases Wire.Ty.message_or ty with ⟨m, rfl⟩ | hty
      · cases v with
        | msg sub =>
          cases hlk : lookupMsg s m with
          | none => simp [hlk] at h1
          | some es' =>
            simp only [hlk] at h1 ⊢
            rw [Wire.encVal_message s m es' sub hlk] at hl
            simp only [List.length_append] at hl
            have hlen : (encRecs s es' sub).length < 2 ^ 64 := by omega
            simp only [Bool.and_eq_true, decide_eq_true_eq]
            exact ⟨hrec es' sub h1 hlen, hlen⟩
        | _ => simp at h1
      · have h1' : scalarLoose valid ty v = true := by
          cases ty <;> first | exact h1 | exact absurd rfl (hty _)
        have := scalarTyped_of_loose valid s ty v h1' (by omega)
        cases ty <;> first | exact this | exact absurd rfl (hty _)

theorem typedRecs_of_loose (valid : Bytes → Bool) (s : Schema) :
    ∀ (d : Nat) (es : List Entry) (rs : Recs), looseRecs valid s d es rs = true →
      (encRecs s es rs).length < 2 ^ 64 → typedRecs valid s d es rs = true := by
  intro d
  induction d with
  | zero =>
    intro es rs h hl
    exact typedRecsF_of_loose valid s _ _ (fun _ _ h _ => by simp at h) es rs h hl
  | succ d ih =>
    intro es rs h hl
    exact typedRecsF_of_loose valid s _ _ (fun es' sub h hl => ih es' sub h hl) es rs h hl

theorem looseRecs_nil (valid : Bytes → Bool) (s : Schema) (d : Nat) (es : List Entry) :
    looseRecs valid s d es [] = true := by
  cases d <;> rfl

theorem looseRecs_eq (valid : Bytes → Bool) (s : Schema) (d : Nat) :
    ∃ rec, looseRecs valid s d = looseRecsF valid s rec := by
  cases d with
  | zero => exact ⟨_, rfl⟩
  | succ d => exact ⟨_, rfl⟩

/-! ### typing of the trees `toTree` prints -/

theorem meta_loose (valid : Bytes → Bool) (rec : List Entry → Recs → Bool) (m : PMeta)
    (h : metaOK valid m = true) :
    looseRecsF valid sparkplug rec (esOf "MetaData") (metaRecs m) = true := by
  simp only [looseRecsF, metaRecs, List.all_append, all_optRec_map]
  simp [looseRecF, fi_meta, findIn, optF, scalarLoose]
  simpa [metaOK, and_assoc] using h

theorem ps_loose_step (valid : Bytes → Bool) (rec : List Entry → Recs → Bool) (okPV : PPV → Bool)
    (hpv : ∀ pv, okPV pv = true → rec (esOf "PropertyValue") (ppvRecs pv) = true) (ps : PSet)
    (h : psOKWith valid okPV ps = true) :
    looseRecsF valid sparkplug rec (esOf "PropertySet") (psetRecs ps) = true := by
  simp only [psOKWith, Bool.and_eq_true, List.all_eq_true] at h
  simp only [looseRecsF, psetRecs, List.all_append, all_repRec_map, Bool.and_eq_true,
    List.all_eq_true]
  refine ⟨fun k hk => ?_, fun pv hm => ?_⟩
  · simpa [looseRecF, fi_ps, findIn, repF, scalarLoose] using h.1 k hk
  · simpa [looseRecF, fi_ps, findIn, repF, lookup_pv] using hpv pv (h.2 pv hm)

theorem psl_loose_step (valid : Bytes → Bool) (rec : List Entry → Recs → Bool) (okPS : PSet → Bool)
    (hps : ∀ ps, okPS ps = true → rec (esOf "PropertySet") (psetRecs ps) = true) (l : List PSet)
    (h : pslOKWith okPS l = true) :
    looseRecsF valid sparkplug rec (esOf "PropertySetList") (pslRecs l) = true := by
  simp only [pslOKWith, List.all_eq_true] at h
  simp only [looseRecsF, pslRecs, all_repRec_map, List.all_eq_true]
  intro ps hm
  simpa [looseRecF, fi_psl, findIn, repF, lookup_ps] using hps ps (h ps hm)

theorem pv_loose_step (valid : Bytes → Bool) (rec : List Entry → Recs → Bool)
    (okPS : PSet → Bool) (okPSL : List PSet → Bool) (okSub : Bool)
    (hps : ∀ ps, okPS ps = true → rec (esOf "PropertySet") (psetRecs ps) = true)
    (hpsl : ∀ l, okPSL l = true → rec (esOf "PropertySetList") (pslRecs l) = true)
    (hsub : okSub = true → rec [] [] = true) (pv : PPV)
    (h : pvOKWith valid okPS okPSL okSub pv = true) :
    looseRecsF valid sparkplug rec (esOf "PropertyValue") (ppvRecs pv) = true := by
  obtain ⟨ty, nu, v⟩ := pv
  simp only [pvOKWith, Bool.and_eq_true] at h
  obtain ⟨hty, hv⟩ := h
  simp only [looseRecsF, ppvRecs, List.all_append, all_optRec_map, Bool.and_eq_true]
  refine ⟨?_, ?_, ?_⟩
  · simpa [looseRecF, fi_pv, findIn, optF, scalarLoose] using hty
  · simp [looseRecF, fi_pv, findIn, optF, scalarLoose]
  · cases v with
    | none => rfl
    | sc s =>
      cases s <;>
        simp [pvalRecs, scalarTag, scalarVal, looseRecF, fi_pv, findIn, optF, scalarLoose,
          lookup_pvext] <;> first | simpa [scalarOK] using hv | exact hsub hv
    | set ks vs =>
      simp only [Bool.and_eq_true] at hv
      rw [pvalRecs_set]
      simp [looseRecF, fi_pv, findIn, optF, lookup_ps]
      exact hps _ hv.2
    | sets l =>
      simp only [Bool.and_eq_true] at hv
      rw [pvalRecs_sets]
      simp [looseRecF, fi_pv, findIn, optF, lookup_psl]
      exact hpsl _ hv.2

theorem props_loose (valid : Bytes → Bool) : ∀ d,
    (∀ ps, psOK valid d ps = true →
      looseRecs valid sparkplug d (esOf "PropertySet") (psetRecs ps) = true) ∧
    (∀ pv, pvOK valid d pv = true →
      looseRecs valid sparkplug d (esOf "PropertyValue") (ppvRecs pv) = true) ∧
    (∀ l, pslOK valid d l = true →
      looseRecs valid sparkplug d (esOf "PropertySetList") (pslRecs l) = true) := by
  intro d
  induction d with
  | zero =>
    refine ⟨fun ps h => ?_, fun pv h => ?_, fun l h => ?_⟩
    · exact ps_loose_step valid _ _ (fun _ h => by simp at h) ps h
    · exact pv_loose_step valid _ (fun _ => false) (fun _ => false) false
        (fun _ h => by simp at h) (fun _ h => by simp at h) (fun h => by cases h) pv h
    · exact psl_loose_step valid _ _ (fun _ h => by simp at h) l h
  | succ d ih =>
    obtain ⟨ih1, ih2, ih3⟩ := ih
    refine ⟨fun ps h => ?_, fun pv h => ?_, fun l h => ?_⟩
    · exact ps_loose_step valid _ _ ih2 ps h
    · exact pv_loose_step valid _ _ _ _ ih1 ih3 (fun _ => looseRecs_nil valid sparkplug d []) pv h
    · exact psl_loose_step valid _ _ ih1 l h

/-- what `subOK` says, without the decoder -/
theorem subOK_spec (valid : Bytes → Bool) (d : Nat) (m : String) (enc : Bytes)
    (h : subOK valid d m enc = true) :
    ∃ sub, subTree m enc = .msg sub ∧ looseRecs valid sparkplug d (esOf m) sub = true ∧
      canonRecs sparkplug d (esOf m) sub = true ∧ encRecs sparkplug (esOf m) sub = enc := by
  unfold subOK at h
  unfold subTree
  cases hd : decodeMsg (fun _ => true) sparkplug m enc with
  | none => simp [hd] at h
  | some v =>
    cases v with
    | msg sub =>
      simp only [hd, Bool.and_eq_true, beq_iff_eq] at h
      exact ⟨sub, rfl, h.1.1, h.1.2, h.2⟩
    | _ => simp [hd] at h

theorem mval_loose (valid : Bytes → Bool) (d : Nat) (v : MVal) (h : mvalOK valid d v = true) :
    looseRecF valid sparkplug (looseRecs valid sparkplug d) (esOf "Metric") (mvalTag v, mvalVal v)
      = true := by
  cases v with
  | dataset enc =>
    obtain ⟨sub, h1, h2, _, _⟩ := subOK_spec valid d "DataSet" enc h
    simp [mvalTag, mvalVal, h1, looseRecF, fi_metric, findIn, optF, lookup_dataset, h2]
  | template enc =>
    obtain ⟨sub, h1, h2, _, _⟩ := subOK_spec valid d "Template" enc h
    simp [mvalTag, mvalVal, h1, looseRecF, fi_metric, findIn, optF, lookup_template, h2]
  | ext =>
    simp [mvalTag, mvalVal, looseRecF, fi_metric, findIn, optF, lookup_mvext, looseRecs_nil]
  | _ =>
    simp [mvalTag, mvalVal, looseRecF, fi_metric, findIn, optF, scalarLoose] <;>
      simpa [mvalOK] using h

theorem metric_loose (valid : Bytes → Bool) (d : Nat) (m : PMetric)
    (h : metricOK valid d m = true) :
    looseRecsF valid sparkplug (looseRecs valid sparkplug d) (esOf "Metric") (metricRecs m)
      = true := by
  simp only [metricOK, Bool.and_eq_true] at h
  obtain ⟨⟨⟨⟨⟨⟨h1, h2⟩, h3⟩, h4⟩, h5⟩, h6⟩, h7⟩ := h
  simp only [looseRecsF, metricRecs, List.all_append, all_optRec_map, Bool.and_eq_true]
  refine ⟨?_, ?_, ?_, ?_, ?_, ?_, ?_, ?_, ?_, ?_⟩
  · simpa [looseRecF, fi_metric, findIn, optF, scalarLoose] using h1
  · simpa [looseRecF, fi_metric, findIn, optF, scalarLoose] using h2
  · simpa [looseRecF, fi_metric, findIn, optF, scalarLoose] using h3
  · simpa [looseRecF, fi_metric, findIn, optF, scalarLoose] using h4
  · simp [looseRecF, fi_metric, findIn, optF, scalarLoose]
  · simp [looseRecF, fi_metric, findIn, optF, scalarLoose]
  · simp [looseRecF, fi_metric, findIn, optF, scalarLoose]
  · cases hm : m.metadata with
    | none => rfl
    | some md =>
      obtain ⟨rec, hr⟩ := looseRecs_eq valid sparkplug d
      have := meta_loose valid rec md (by simpa [hm] using h5)
      simpa [looseRecF, fi_metric, findIn, optF, lookup_meta, hr] using this
  · cases hm : m.properties with
    | none => rfl
    | some ps =>
      have := (props_loose valid d).1 ps (by simpa [hm] using h6)
      simpa [looseRecF, fi_metric, findIn, optF, lookup_ps] using this
  · cases hm : m.value with
    | none => rfl
    | some v =>
      simp only [mvalRecs, List.all_cons, List.all_nil, Bool.and_true]
      exact mval_loose valid d v (by simpa [hm] using h7)

theorem payload_loose (valid : Bytes → Bool) (p : Payload) (h : inRange valid p = true) :
    looseRecs valid sparkplug 100 (esOf "Payload") (payloadRecs p) = true := by
  simp only [inRange, Bool.and_eq_true, List.all_eq_true] at h
  obtain ⟨⟨⟨⟨h1, h2⟩, h3⟩, h4⟩, _⟩ := h
  show looseRecsF valid sparkplug (looseRecs valid sparkplug 99) (esOf "Payload") (payloadRecs p)
    = true
  simp only [looseRecsF, payloadRecs, List.all_append, all_optRec_map, all_repRec_map,
    Bool.and_eq_true, List.all_eq_true]
  refine ⟨?_, fun m hm => ?_, ?_, ?_, ?_⟩
  · simpa [looseRecF, fi_payload, findIn, optF, scalarLoose] using h1
  · have : looseRecs valid sparkplug 99 (esOf "Metric") (metricRecs m) = true :=
      metric_loose valid 98 m (h2 m hm)
    simpa [looseRecF, fi_payload, findIn, optF, repF, lookup_metric] using this
  · simpa [looseRecF, fi_payload, findIn, optF, repF, scalarLoose] using h3
  · simpa [looseRecF, fi_payload, findIn, optF, repF, scalarLoose] using h4
  · simp [looseRecF, fi_payload, findIn, optF, repF, scalarLoose]

theorem encW_eq (p : Payload) : encW p = encRecs sparkplug (esOf "Payload") (payloadRecs p) := by
  rfl

/-- step 2, first half: an in-range payload prints as a typed tree -/
theorem toTree_typed (valid : Bytes → Bool) (p : Payload) (h : inRange valid p = true) :
    Wire.Typed valid sparkplug "Payload" (toTree p) := by
  have hl : (encW p).length < 2 ^ 64 := by
    simp only [inRange, Bool.and_eq_true, decide_eq_true_eq] at h
    exact h.2
  rw [encW_eq] at hl
  have := typedRecs_of_loose valid sparkplug 100 _ _ (payload_loose valid p h) hl
  simpa [Wire.Typed, Wire.typedMsg, Wire.typedMsgD, toTree, lookup_payload, Wire.recursionLimit]
    using this

/-! ### canonical order of the trees `toTree` prints -/

theorem ordered_rep' (es : List Entry) (t : Nat) (vs : List Val) (last : Nat) (rest : Recs)
    (h : ∃ r ty, findIn es 1 t = some (r, .repeated, ty) ∧ last ≤ r ∧ orderedFrom es r rest = true) :
    orderedFrom es last (repRec t vs ++ rest) = true := by
  obtain ⟨r, ty, hf, hl, ho⟩ := h
  induction vs generalizing last with
  | nil => exact Wire.orderedFrom_mono es rest r last hl ho
  | cons v vs ih =>
    show orderedFrom es last ((t, v) :: (repRec t vs ++ rest)) = true
    rw [Wire.orderedFrom_cons es last t v _ r .repeated ty hf]
    exact ⟨⟨hl, fun hk => absurd rfl hk⟩, ih r (Nat.le_refl _)⟩

theorem ordered_opt' (es : List Entry) (t : Nat) (o : Option Val) (last : Nat) (rest : Recs)
    (h : ∃ r k ty, findIn es 1 t = some (r, k, ty) ∧ last < r ∧ orderedFrom es r rest = true) :
    orderedFrom es last (optRec t o ++ rest) = true := by
  obtain ⟨r, k, ty, hf, hl, ho⟩ := h
  cases o with
  | none => exact Wire.orderedFrom_mono es rest r last (Nat.le_of_lt hl) ho
  | some v =>
    show orderedFrom es last ((t, v) :: rest) = true
    rw [Wire.orderedFrom_cons es last t v _ r k ty hf]
    exact ⟨⟨Nat.le_of_lt hl, fun _ => hl⟩, ho⟩

theorem ordered_rep_end (es : List Entry) (t : Nat) (vs : List Val) (last : Nat)
    (h : ∃ r ty, findIn es 1 t = some (r, .repeated, ty) ∧ last ≤ r) :
    orderedFrom es last (repRec t vs) = true := by
  obtain ⟨r, ty, hf, hl⟩ := h
  have := ordered_rep' es t vs last [] ⟨r, ty, hf, hl, rfl⟩
  simpa using this

theorem ordered_opt_end (es : List Entry) (t : Nat) (o : Option Val) (last : Nat)
    (h : ∃ r k ty, findIn es 1 t = some (r, k, ty) ∧ last < r) :
    orderedFrom es last (optRec t o) = true := by
  obtain ⟨r, k, ty, hf, hl⟩ := h
  have := ordered_opt' es t o last [] ⟨r, k, ty, hf, hl, rfl⟩
  simpa using this

macro "ord_opt" : tactic =>
  `(tactic| refine ordered_opt' _ _ _ _ _ ⟨_, _, _, rfl, by decide, ?_⟩)
macro "ord_rep" : tactic =>
  `(tactic| refine ordered_rep' _ _ _ _ _ ⟨_, _, rfl, by decide, ?_⟩)
macro "ord_opt_end" : tactic =>
  `(tactic| exact ordered_opt_end _ _ _ _ ⟨_, _, _, rfl, by decide⟩)
macro "ord_rep_end" : tactic =>
  `(tactic| exact ordered_rep_end _ _ _ _ ⟨_, _, rfl, by decide⟩)

theorem canonRecs_nil (s : Schema) (d : Nat) (es : List Entry) : canonRecs s d es [] = true := by
  cases d <;> rfl

theorem canonRecs_eq (s : Schema) (d : Nat) : ∃ rec, canonRecs s d = canonRecsF s rec := by
  cases d with
  | zero => exact ⟨_, rfl⟩
  | succ d => exact ⟨_, rfl⟩

theorem meta_canon (rec : List Entry → Recs → Bool) (m : PMeta) :
    canonRecsF sparkplug rec (esOf "MetaData") (metaRecs m) = true := by
  simp only [canonRecsF, Bool.and_eq_true]
  constructor
  · unfold metaRecs
    ord_opt; ord_opt; ord_opt; ord_opt; ord_opt; ord_opt; ord_opt; ord_opt_end
  · simp only [metaRecs, List.all_append, all_optRec_map]
    simp [canonRecF, fi_meta, findIn, optF]

theorem ps_canon_step (rec : List Entry → Recs → Bool)
    (hpv : ∀ pv, rec (esOf "PropertyValue") (ppvRecs pv) = true) (ps : PSet) :
    canonRecsF sparkplug rec (esOf "PropertySet") (psetRecs ps) = true := by
  simp only [canonRecsF, Bool.and_eq_true]
  constructor
  · unfold psetRecs
    ord_rep; ord_rep_end
  · simp only [psetRecs, List.all_append, all_repRec_map, Bool.and_eq_true, List.all_eq_true]
    refine ⟨fun k _ => ?_, fun pv _ => ?_⟩
    · simp [canonRecF, fi_ps, findIn, repF]
    · simpa [canonRecF, fi_ps, findIn, repF, lookup_pv] using hpv pv

theorem psl_canon_step (rec : List Entry → Recs → Bool)
    (hps : ∀ ps, rec (esOf "PropertySet") (psetRecs ps) = true) (l : List PSet) :
    canonRecsF sparkplug rec (esOf "PropertySetList") (pslRecs l) = true := by
  simp only [canonRecsF, Bool.and_eq_true]
  constructor
  · unfold pslRecs
    ord_rep_end
  · simp only [pslRecs, all_repRec_map, List.all_eq_true]
    intro ps _
    simpa [canonRecF, fi_psl, findIn, repF, lookup_ps] using hps ps

theorem pv_canon_step (rec : List Entry → Recs → Bool)
    (hps : ∀ ps, rec (esOf "PropertySet") (psetRecs ps) = true)
    (hpsl : ∀ l, rec (esOf "PropertySetList") (pslRecs l) = true)
    (hnil : rec [] [] = true) (pv : PPV) :
    canonRecsF sparkplug rec (esOf "PropertyValue") (ppvRecs pv) = true := by
  obtain ⟨ty, nu, v⟩ := pv
  simp only [canonRecsF, Bool.and_eq_true]
  constructor
  · unfold ppvRecs
    ord_opt; ord_opt
    cases v with
    | none => rfl
    | sc s => cases s <;> rfl
    | set ks vs => rw [pvalRecs_set]; rfl
    | sets l => rw [pvalRecs_sets]; rfl
  · simp only [ppvRecs, List.all_append, all_optRec_map, Bool.and_eq_true]
    refine ⟨?_, ?_, ?_⟩
    · simp [canonRecF, fi_pv, findIn, optF]
    · simp [canonRecF, fi_pv, findIn, optF]
    · cases v with
      | none => rfl
      | sc s =>
        cases s <;>
          simp [pvalRecs, scalarTag, scalarVal, canonRecF, fi_pv, findIn, optF, lookup_pvext, hnil]
      | set ks vs =>
        rw [pvalRecs_set]
        simpa [canonRecF, fi_pv, findIn, optF, lookup_ps] using hps (ks, vs)
      | sets l =>
        rw [pvalRecs_sets]
        simpa [canonRecF, fi_pv, findIn, optF, lookup_psl] using hpsl l

theorem props_canon : ∀ d,
    (∀ ps, canonRecs sparkplug d (esOf "PropertySet") (psetRecs ps) = true) ∧
    (∀ pv, canonRecs sparkplug d (esOf "PropertyValue") (ppvRecs pv) = true) ∧
    (∀ l, canonRecs sparkplug d (esOf "PropertySetList") (pslRecs l) = true) := by
  intro d
  induction d with
  | zero =>
    exact ⟨ps_canon_step _ (fun _ => rfl), pv_canon_step _ (fun _ => rfl) (fun _ => rfl) rfl,
      psl_canon_step _ (fun _ => rfl)⟩
  | succ d ih =>
    obtain ⟨ih1, ih2, ih3⟩ := ih
    exact ⟨ps_canon_step _ ih2, pv_canon_step _ ih1 ih3 (canonRecs_nil sparkplug d []),
      psl_canon_step _ ih1⟩

theorem mval_canon (valid : Bytes → Bool) (d : Nat) (v : MVal) (h : mvalOK valid d v = true) :
    canonRecF sparkplug (canonRecs sparkplug d) (esOf "Metric") (mvalTag v, mvalVal v) = true := by
  cases v with
  | dataset enc =>
    obtain ⟨sub, h1, _, h2, _⟩ := subOK_spec valid d "DataSet" enc h
    simp [mvalTag, mvalVal, h1, canonRecF, fi_metric, findIn, optF, lookup_dataset, h2]
  | template enc =>
    obtain ⟨sub, h1, _, h2, _⟩ := subOK_spec valid d "Template" enc h
    simp [mvalTag, mvalVal, h1, canonRecF, fi_metric, findIn, optF, lookup_template, h2]
  | ext =>
    simp [mvalTag, mvalVal, canonRecF, fi_metric, findIn, optF, lookup_mvext, canonRecs_nil]
  | _ => simp [mvalTag, mvalVal, canonRecF, fi_metric, findIn, optF]

theorem metric_canon (valid : Bytes → Bool) (d : Nat) (m : PMetric)
    (h : metricOK valid d m = true) :
    canonRecsF sparkplug (canonRecs sparkplug d) (esOf "Metric") (metricRecs m) = true := by
  simp only [canonRecsF, Bool.and_eq_true]
  constructor
  · unfold metricRecs
    ord_opt; ord_opt; ord_opt; ord_opt; ord_opt; ord_opt; ord_opt; ord_opt; ord_opt
    cases m.value with
    | none => rfl
    | some v => cases v <;> rfl
  · simp only [metricRecs, List.all_append, all_optRec_map, Bool.and_eq_true]
    refine ⟨?_, ?_, ?_, ?_, ?_, ?_, ?_, ?_, ?_, ?_⟩
    · simp [canonRecF, fi_metric, findIn, optF]
    · simp [canonRecF, fi_metric, findIn, optF]
    · simp [canonRecF, fi_metric, findIn, optF]
    · simp [canonRecF, fi_metric, findIn, optF]
    · simp [canonRecF, fi_metric, findIn, optF]
    · simp [canonRecF, fi_metric, findIn, optF]
    · simp [canonRecF, fi_metric, findIn, optF]
    · cases m.metadata with
      | none => rfl
      | some md =>
        obtain ⟨rec, hr⟩ := canonRecs_eq sparkplug d
        simpa [canonRecF, fi_metric, findIn, optF, lookup_meta, hr] using meta_canon rec md
    · cases m.properties with
      | none => rfl
      | some ps =>
        simpa [canonRecF, fi_metric, findIn, optF, lookup_ps] using (props_canon d).1 ps
    · simp only [metricOK, Bool.and_eq_true] at h
      cases hm : m.value with
      | none => rfl
      | some v =>
        simp only [mvalRecs, List.all_cons, List.all_nil, Bool.and_true]
        exact mval_canon valid d v (by simpa [hm] using h.2)

theorem payload_canon (valid : Bytes → Bool) (p : Payload) (h : inRange valid p = true) :
    canonRecs sparkplug 100 (esOf "Payload") (payloadRecs p) = true := by
  simp only [inRange, Bool.and_eq_true, List.all_eq_true] at h
  obtain ⟨⟨⟨⟨_, h2⟩, _⟩, _⟩, _⟩ := h
  show canonRecsF sparkplug (canonRecs sparkplug 99) (esOf "Payload") (payloadRecs p) = true
  simp only [canonRecsF, Bool.and_eq_true]
  constructor
  · unfold payloadRecs
    ord_opt; ord_rep; ord_opt; ord_opt; ord_opt_end
  · simp only [payloadRecs, List.all_append, all_optRec_map, all_repRec_map, Bool.and_eq_true,
      List.all_eq_true]
    refine ⟨?_, fun m hm => ?_, ?_, ?_, ?_⟩
    · simp [canonRecF, fi_payload, findIn, optF]
    · have : canonRecs sparkplug 99 (esOf "Metric") (metricRecs m) = true :=
        metric_canon valid 98 m (h2 m hm)
      simpa [canonRecF, fi_payload, findIn, optF, repF, lookup_metric] using this
    · simp [canonRecF, fi_payload, findIn, optF, repF]
    · simp [canonRecF, fi_payload, findIn, optF, repF]
    · simp [canonRecF, fi_payload, findIn, optF, repF]

/-- step 2, second half: … in canonical order -/
theorem toTree_canonical (valid : Bytes → Bool) (p : Payload) (h : inRange valid p = true) :
    Wire.Canonical sparkplug "Payload" (toTree p) := by
  have := payload_canon valid p h
  simpa [Wire.Canonical, Wire.canonMsg, Wire.canonMsgD, toTree, lookup_payload,
    Wire.recursionLimit] using this

/-! ### reading the tree back -/

theorem getOpt_append (a b : Recs) (t : Nat) : getOpt (a ++ b) t = (getOpt a t).or (getOpt b t) := by
  unfold getOpt
  rw [List.find?_append]
  cases a.find? fun r => r.1 == t <;> simp

theorem getOpt_optRec_map {α : Type} (t t' : Nat) (o : Option α) (f : α → Val) :
    getOpt (optRec t (o.map f)) t' = if t = t' then o.map f else none := by
  cases o <;> simp [getOpt, optRec]

theorem getOpt_repRec_ne (t t' : Nat) (vs : List Val) (h : t ≠ t') : getOpt (repRec t vs) t' = none := by
  simp [getOpt, repRec, List.find?_eq_none, h]

theorem getRep_append (a b : Recs) (t : Nat) : getRep (a ++ b) t = getRep a t ++ getRep b t := by
  simp [getRep]

theorem getRep_optRec_ne (t t' : Nat) (o : Option Val) (h : t ≠ t') : getRep (optRec t o) t' = [] := by
  cases o <;> simp [getRep, optRec, h]

theorem getRep_repRec (t t' : Nat) (vs : List Val) :
    getRep (repRec t vs) t' = if t = t' then vs else [] := by
  unfold getRep repRec
  split
  · next h => subst h; simp [List.filter_map, Function.comp_def]
  · next h => simp [List.filter_map, Function.comp_def, h]

theorem mapOpt_map {α β : Type} (f : β → Option α) (g : α → β) (l : List α)
    (h : ∀ x ∈ l, f (g x) = some x) : mapOpt f (l.map g) = some l := by
  induction l with
  | nil => rfl
  | cons a t ih =>
    simp only [List.map_cons, mapOpt, h a (by simp), ih fun x hx => h x (by simp [hx])]

theorem optVia_map {α : Type} (f : Val → Option α) (g : α → Val) (o : Option α)
    (h : ∀ x, o = some x → f (g x) = some x) : optVia f (o.map g) = some o := by
  cases o with
  | none => rfl
  | some x => simp [optVia, h x rfl]

@[simp] theorem optVia_num (o : Option Nat) : optVia asNum (o.map Val.num) = some o :=
  optVia_map _ _ _ fun _ _ => rfl
@[simp] theorem optVia_bool (o : Option Bool) : optVia asBool (o.map Val.bool) = some o :=
  optVia_map _ _ _ fun _ _ => rfl
@[simp] theorem optVia_bytes (o : Option (List UInt8)) : optVia asBytes (o.map Val.bytes) = some o :=
  optVia_map _ _ _ fun _ _ => rfl

theorem find_inTags_optRec (lo hi t : Nat) (o : Option Val) (h : ¬ (lo ≤ t ∧ t ≤ hi)) :
    (optRec t o).find? (inTags lo hi) = none := by
  cases o <;> simp [optRec, inTags]
  omega

theorem ofMeta_metaRecs (m : PMeta) : ofMeta (metaRecs m) = some m := by
  simp [ofMeta, optField, metaRecs, getOpt_append, getOpt_optRec_map]

/-- property values: the segments before the oneof carry tags 1 and 2 only -/
theorem getOpt_pvalRecs (v : PVal) (t : Nat) (h : t < 3) : getOpt (pvalRecs v) t = none := by
  cases v with
  | none => rfl
  | sc s => cases s <;> simp [pvalRecs, scalarTag, getOpt] <;> omega
  | set ks vs => simp [pvalRecs, getOpt]; omega
  | sets l => simp [pvalRecs, getOpt]; omega

theorem ofPSetWith_step (ofPV : Recs → Option PPV) (ps : PSet)
    (h : ∀ pv ∈ ps.2, ofPV (ppvRecs pv) = some pv) : ofPSetWith ofPV (psetRecs ps) = some ps := by
  obtain ⟨ks, vs⟩ := ps
  have h1 : repField (psetRecs (ks, vs)) 1 asBytes = some ks := by
    simp only [repField, psetRecs, getRep_append, getRep_repRec]
    simpa using mapOpt_map asBytes Val.bytes ks fun _ _ => rfl
  have h2 : repField (psetRecs (ks, vs)) 2 (msgWith ofPV) = some vs := by
    simp only [repField, psetRecs, getRep_append, getRep_repRec]
    simpa using mapOpt_map (msgWith ofPV) (fun pv => Val.msg (ppvRecs pv)) vs fun pv hm => h pv hm
  simp [ofPSetWith, h1, h2]

theorem ofPSLWith_step (ofPS : Recs → Option PSet) (l : List PSet)
    (h : ∀ ps ∈ l, ofPS (psetRecs ps) = some ps) : ofPSLWith ofPS (pslRecs l) = some l := by
  simp only [ofPSLWith, repField, pslRecs, getRep_repRec]
  simpa using mapOpt_map (msgWith ofPS) (fun ps => Val.msg (psetRecs ps)) l fun ps hm => h ps hm

theorem ofPPVWith_step (ofPS : Recs → Option PSet) (ofPSL : Recs → Option (List PSet)) (pv : PPV)
    (hset : ∀ ks vs, pv.2.2 = .set ks vs → ofPS (psetRecs (ks, vs)) = some (ks, vs))
    (hsets : ∀ l, pv.2.2 = .sets l → ofPSL (pslRecs l) = some l) :
    ofPPVWith ofPS ofPSL (ppvRecs pv) = some pv := by
  obtain ⟨ty, nu, v⟩ := pv
  have h1 : optField (ppvRecs (ty, nu, v)) 1 asNum = some ty := by
    simp [optField, ppvRecs, getOpt_append, getOpt_optRec_map, getOpt_pvalRecs v 1 (by decide)]
  have h2 : optField (ppvRecs (ty, nu, v)) 2 asBool = some nu := by
    simp [optField, ppvRecs, getOpt_append, getOpt_optRec_map, getOpt_pvalRecs v 2 (by decide)]
  have h3 : ofPValWith ofPS ofPSL (ppvRecs (ty, nu, v)) = some v := by
    simp only [ofPValWith, ppvRecs, List.find?_append,
      find_inTags_optRec 3 11 1 _ (by decide), find_inTags_optRec 3 11 2 _ (by decide),
      Option.none_or]
    cases v with
    | none => rfl
    | sc s => cases s <;> rfl
    | set ks vs =>
      rw [pvalRecs_set]
      simp [inTags, hset ks vs rfl]
    | sets l =>
      rw [pvalRecs_sets]
      simp [inTags, hsets l rfl]
  simp [ofPPVWith, h1, h2, h3]

theorem props_readback (valid : Bytes → Bool) : ∀ d,
    (∀ ps, psOK valid d ps = true → ofPSet d (psetRecs ps) = some ps) ∧
    (∀ pv, pvOK valid d pv = true → ofPPV d (ppvRecs pv) = some pv) ∧
    (∀ l, pslOK valid d l = true → ofPSL d (pslRecs l) = some l) := by
  intro d
  induction d with
  | zero =>
    refine ⟨fun ps h => ?_, fun pv h => ?_, fun l h => ?_⟩
    · have h' : psOKWith valid (fun _ => false) ps = true := h
      simp only [psOKWith, Bool.and_eq_true, List.all_eq_true] at h'
      exact ofPSetWith_step _ ps fun pv hm => by simpa using h'.2 pv hm
    · have h' : pvOKWith valid (fun _ => false) (fun _ => false) false pv = true := h
      simp only [pvOKWith, Bool.and_eq_true] at h'
      refine ofPPVWith_step _ _ pv (fun ks vs he => ?_) (fun l he => ?_)
      · rw [he] at h'; simp at h'
      · rw [he] at h'; simp at h'
    · have h' : pslOKWith (fun _ => false) l = true := h
      simp only [pslOKWith, List.all_eq_true] at h'
      exact ofPSLWith_step _ l fun ps hm => by simpa using h' ps hm
  | succ d ih =>
    obtain ⟨ih1, ih2, ih3⟩ := ih
    refine ⟨fun ps h => ?_, fun pv h => ?_, fun l h => ?_⟩
    · have h' : psOKWith valid (pvOK valid d) ps = true := h
      simp only [psOKWith, Bool.and_eq_true, List.all_eq_true] at h'
      exact ofPSetWith_step _ ps fun pv hm => ih2 pv (h'.2 pv hm)
    · have h' : pvOKWith valid (psOK valid d) (pslOK valid d) true pv = true := h
      simp only [pvOKWith, Bool.and_eq_true] at h'
      refine ofPPVWith_step _ _ pv (fun ks vs he => ?_) (fun l he => ?_)
      · rw [he] at h'; exact ih1 _ (by simpa using h'.2)
      · rw [he] at h'; exact ih3 _ (by simpa using h'.2)
    · have h' : pslOKWith (psOK valid d) l = true := h
      simp only [pslOKWith, List.all_eq_true] at h'
      exact ofPSLWith_step _ l fun ps hm => ih1 ps (h' ps hm)

theorem getOpt_mvalRecs (o : Option MVal) (t : Nat) (h : t < 10) : getOpt (mvalRecs o) t = none := by
  cases o with
  | none => rfl
  | some v => cases v <;> simp [mvalRecs, mvalTag, getOpt] <;> omega

theorem ofMVal_step (valid : Bytes → Bool) (d : Nat) (o : Option MVal)
    (h : o.all (mvalOK valid d) = true) (pre : Recs)
    (hpre : pre.find? (inTags 10 19) = none) : ofMVal (pre ++ mvalRecs o) = some o := by
  simp only [ofMVal, List.find?_append, hpre, Option.none_or]
  cases o with
  | none => rfl
  | some v =>
    cases v with
    | dataset enc =>
      obtain ⟨sub, h1, _, _, h2⟩ := subOK_spec valid d "DataSet" enc (by simpa [mvalOK] using h)
      simp [mvalRecs, mvalTag, mvalVal, h1, inTags, h2]
    | template enc =>
      obtain ⟨sub, h1, _, _, h2⟩ := subOK_spec valid d "Template" enc (by simpa [mvalOK] using h)
      simp [mvalRecs, mvalTag, mvalVal, h1, inTags, h2]
    | _ => rfl

theorem ofMetric_metricRecs (valid : Bytes → Bool) (d : Nat) (m : PMetric)
    (h : metricOK valid d m = true) : ofMetric d (metricRecs m) = some m := by
  simp only [metricOK, Bool.and_eq_true] at h
  obtain ⟨⟨⟨⟨⟨⟨_, _⟩, _⟩, _⟩, _⟩, h6⟩, h7⟩ := h
  have hv : ofMVal (metricRecs m) = some m.value := by
    have := ofMVal_step valid d m.value h7
      (optRec 1 (m.name.map Val.bytes) ++ (optRec 2 (m.alias.map Val.num) ++
      (optRec 3 (m.timestamp.map Val.num) ++ (optRec 4 (m.datatype.map Val.num) ++
      (optRec 5 (m.isHistorical.map Val.bool) ++ (optRec 6 (m.isTransient.map Val.bool) ++
      (optRec 7 (m.isNull.map Val.bool) ++ (optRec 8 (m.metadata.map fun md => Val.msg (metaRecs md)) ++
      optRec 9 (m.properties.map fun ps => Val.msg (psetRecs ps))))))))))
      (by simp [List.find?_append, find_inTags_optRec])
    simpa [metricRecs, List.append_assoc] using this
  have hmd : optVia (msgWith ofMeta) (m.metadata.map fun md => Val.msg (metaRecs md))
      = some m.metadata :=
    optVia_map _ _ _ fun x _ => ofMeta_metaRecs x
  have hps : optVia (msgWith (ofPSet d)) (m.properties.map fun ps => Val.msg (psetRecs ps))
      = some m.properties :=
    optVia_map _ _ _ fun x hx => (props_readback valid d).1 x (by simpa [hx] using h6)
  simp only [ofMetric, hv]
  simp [optField, metricRecs, getOpt_append, getOpt_optRec_map,
    getOpt_mvalRecs m.value 1 (by decide), getOpt_mvalRecs m.value 2 (by decide),
    getOpt_mvalRecs m.value 3 (by decide), getOpt_mvalRecs m.value 4 (by decide),
    getOpt_mvalRecs m.value 5 (by decide), getOpt_mvalRecs m.value 6 (by decide),
    getOpt_mvalRecs m.value 7 (by decide), getOpt_mvalRecs m.value 8 (by decide),
    getOpt_mvalRecs m.value 9 (by decide), hmd, hps]

/-- step 1: reading the printed tree back gives the record -/
theorem ofTree_toTree (valid : Bytes → Bool) (p : Payload) (h : inRange valid p = true) :
    ofTree (toTree p) = some p := by
  simp only [inRange, Bool.and_eq_true, List.all_eq_true] at h
  obtain ⟨⟨⟨⟨_, h2⟩, _⟩, _⟩, _⟩ := h
  have hms : repField (payloadRecs p) 2 (msgWith (ofMetric 98)) = some p.metrics := by
    simp only [repField, payloadRecs, getRep_append, getRep_repRec,
      getRep_optRec_ne 1 2 _ (by decide), getRep_optRec_ne 3 2 _ (by decide),
      getRep_optRec_ne 4 2 _ (by decide), getRep_optRec_ne 5 2 _ (by decide)]
    simpa using mapOpt_map (msgWith (ofMetric 98)) (fun m => Val.msg (metricRecs m)) p.metrics
      fun m hm => ofMetric_metricRecs valid 98 m (h2 m hm)
  simp only [ofTree, toTree, ofPayloadRecs, hms]
  simp [optField, payloadRecs, getOpt_append,
    getOpt_optRec_map, getOpt_repRec_ne]

/-- step 3: the concrete codec round-trips on in-range payloads -/
theorem decW_encW (valid : Bytes → Bool) (p : Payload) (h : inRange valid p = true) :
    decW valid (encW p) = some p := by
  have hw : Wire.WellTyped valid sparkplug "Payload" (toTree p) :=
    ⟨toTree_typed valid p h, toTree_canonical valid p h⟩
  simp only [decW, encW, Wire.M13_sparkplug_payload_roundtrip valid (toTree p) hw]
  exact ofTree_toTree valid p h

/-! ### what a publish call hands over is in range -/

theorem metaOK_metaToPayload (valid : Bytes → Bool) (e : EMeta) (h : emetaOK valid e = true) :
    metaOK valid (metaToPayload e) = true := by
  simp only [emetaOK, Bool.and_eq_true] at h
  simp only [metaOK, metaToPayload, Bool.and_eq_true]
  simp [h]

theorem ups_step (valid : Bytes → Bool) (okV : UVal → Bool) (okPV : PPV → Bool)
    (h : ∀ e : UEnt, okV e.2.2 = true → okPV (encEnt e) = true) (m : List UEnt)
    (hm : upsOKWith valid okV m = true) : psOKWith valid okPV (encPS m) = true := by
  simp only [upsOKWith, List.all_eq_true, Bool.and_eq_true] at hm
  simp only [psOKWith, encPS, encKeys_eq_map, encEnts_eq_map, List.all_map, Bool.and_eq_true,
    List.all_eq_true, Function.comp_def]
  exact ⟨fun e he => (hm e he).1, fun e he => h e (hm e he).2⟩

theorem uv_step (valid : Bytes → Bool) (okS : List UEnt → Bool) (okSL : List (List UEnt) → Bool)
    (okSub : Bool) (okPS : PSet → Bool) (okPSL : List PSet → Bool)
    (hS : ∀ es, okS es = true → okPS (encPS es) = true)
    (hSL : ∀ l, okSL l = true → okPSL (encSets l) = true) (e : UEnt)
    (h : uvOKWith valid okS okSL okSub e.2.2 = true) :
    pvOKWith valid okPS okPSL okSub (encEnt e) = true := by
  obtain ⟨k, dt, v⟩ := e
  have hdt : (dt.map DT.code).all u32 = true := by
    cases dt with
    | none => rfl
    | some c => have := code_lt c; simp [u32]; omega
  simp only [pvOKWith, encEnt, hdt, Bool.true_and]
  cases v with
  | null => rfl
  | sc s => cases s <;> simpa [uvOKWith, encVal] using h
  | set es =>
    simp only [uvOKWith, Bool.and_eq_true] at h
    simp only [encVal, Bool.and_eq_true]
    exact ⟨h.1, hS es h.2⟩
  | sets l =>
    simp only [uvOKWith, Bool.and_eq_true] at h
    simp only [encVal, Bool.and_eq_true]
    exact ⟨h.1, hSL l h.2⟩

theorem uprops_ok (valid : Bytes → Bool) : ∀ d,
    (∀ m, upsOK valid d m = true → psOK valid d (encPS m) = true) ∧
    (∀ e : UEnt, uvOK valid d e.2.2 = true → pvOK valid d (encEnt e) = true) ∧
    (∀ l, upslOK valid d l = true → pslOK valid d (encSets l) = true) := by
  intro d
  induction d with
  | zero =>
    refine ⟨fun m h => ?_, fun e h => ?_, fun l h => ?_⟩
    · exact ups_step valid (fun _ => false) (fun _ => false) (fun _ h => by simp at h) m h
    · exact uv_step valid (fun _ => false) (fun _ => false) false (fun _ => false) (fun _ => false)
        (fun _ h => by simp at h) (fun _ h => by simp at h) e h
    · have h' : (l.all fun _ => false) = true := h
      show pslOKWith (fun _ => false) (encSets l) = true
      cases l with
      | nil => rfl
      | cons a t => simp at h'
  | succ d ih =>
    obtain ⟨ih1, ih2, ih3⟩ := ih
    refine ⟨fun m h => ?_, fun e h => ?_, fun l h => ?_⟩
    · exact ups_step valid _ _ ih2 m h
    · exact uv_step valid _ _ true _ _ ih1 ih3 e h
    · have h' : l.all (upsOK valid d) = true := h
      show pslOKWith (psOK valid d) (encSets l) = true
      simp only [List.all_eq_true] at h'
      simp only [pslOKWith, encSets_eq_map, List.all_map, List.all_eq_true, Function.comp_def]
      exact fun m hm => ih1 m (h' m hm)

theorem metricOK_edgeEncode (valid : Bytes → Bool) (pm : PubMetric)
    (h : pubMetricOK valid pm = true) : metricOK valid 98 (edgeEncode pm) = true := by
  obtain ⟨id, value, tr, hi, ts, md, props⟩ := pm
  simp only [pubMetricOK, Bool.and_eq_true] at h
  obtain ⟨⟨⟨⟨h1, h2⟩, h3⟩, h4⟩, h5⟩ := h
  have hmd : (md.map metaToPayload).all (metaOK valid) = true := by
    cases md with
    | none => rfl
    | some e => exact metaOK_metaToPayload valid e (by simpa using h4)
  have hps : (props.map encPS).all (psOK valid 98) = true := by
    cases props with
    | none => rfl
    | some m => exact (uprops_ok valid 98).1 m (by simpa using h5)
  cases id <;> cases value <;>
    simp_all [metricOK, edgeEncode, PMetric.new, PMetric.setName, PMetric.setAlias,
      PMetric.setValue, PMetric.setNull, idOK]

theorem inRange_payloadOf (valid : Bytes → Bool) (seq now : Nat) (ms : List PubMetric)
    (hs : seq < 2 ^ 64) (hn : now < 2 ^ 64) (hms : ∀ pm ∈ ms, pubMetricOK valid pm = true)
    (hl : (encW (payloadOf seq now ms)).length < 2 ^ 64) :
    inRange valid (payloadOf seq now ms) = true := by
  simp only [inRange, Bool.and_eq_true, List.all_eq_true, decide_eq_true_eq]
  refine ⟨⟨⟨⟨?_, ?_⟩, ?_⟩, ?_⟩, hl⟩
  · simpa [payloadOf, u64] using hn
  · intro m hm
    simp only [payloadOf, List.mem_map] at hm
    obtain ⟨pm, hpm, rfl⟩ := hm
    exact metricOK_edgeEncode valid pm (hms pm hpm)
  · simpa [payloadOf, u64] using hs
  · rfl

/-! ### the condition on data-set / template bytes is met by every encoding of a struct -/

theorem scalarTyped_mono (valid1 valid2 : Bytes → Bool) (hv : ∀ b, valid1 b = true → valid2 b = true)
    (ty : Ty) (v : Val) (h : scalarTyped valid1 ty v = true) : scalarTyped valid2 ty v = true := by
  cases ty <;> cases v <;> simp [scalarTyped] at h ⊢ <;> first | exact h | exact ⟨hv _ h.1, h.2⟩

theorem typedRecF_mono (valid1 valid2 : Bytes → Bool) (hv : ∀ b, valid1 b = true → valid2 b = true)
    (s : Schema) (rec1 rec2 : List Entry → Recs → Bool)
    (hrec : ∀ es sub, rec1 es sub = true → rec2 es sub = true) (es : List Entry) (r : Nat × Val)
    (h : typedRecF valid1 s rec1 es r = true) : typedRecF valid2 s rec2 es r = true := by
  unfold typedRecF at h ⊢
  cases hf : findIn es 1 r.1 with
  | none => simp [hf] at h
  | some x =>
    obtain ⟨a, b, ty⟩ := x
    simp only [hf] at h ⊢
    rcases Wire.Ty.message_or ty with ⟨m, rfl⟩ | hty
    · cases hr : r.2 with
      | msg sub =>
        cases hl : lookupMsg s m with
        | none => simp [hr, hl] at h
        | some es' =>
          simp only [hr, hl, Bool.and_eq_true] at h ⊢
          exact ⟨hrec _ _ h.1, h.2⟩
      | _ => simp [hr] at h
    · have h' : scalarTyped valid1 ty r.2 = true := by
        cases ty <;> first | exact h | exact absurd rfl (hty _)
      have := scalarTyped_mono valid1 valid2 hv ty r.2 h'
      cases ty <;> first | exact this | exact absurd rfl (hty _)

theorem typedRecs_mono (valid1 valid2 : Bytes → Bool) (hv : ∀ b, valid1 b = true → valid2 b = true)
    (s : Schema) : ∀ (d : Nat) (es : List Entry) (rs : Recs),
      typedRecs valid1 s d es rs = true → typedRecs valid2 s d es rs = true := by
  intro d
  induction d with
  | zero =>
    intro es rs h
    simp only [typedRecs, typedRecsF, List.all_eq_true] at h ⊢
    exact fun r hr => typedRecF_mono valid1 valid2 hv s _ _ (fun _ _ h => h) es r (h r hr)
  | succ d ih =>
    intro es rs h
    simp only [typedRecs, typedRecsF, List.all_eq_true] at h ⊢
    exact fun r hr => typedRecF_mono valid1 valid2 hv s _ _ ih es r (h r hr)

theorem typedRecs_succ (valid : Bytes → Bool) (s : Schema) : ∀ (d : Nat) (es : List Entry) (rs : Recs),
    typedRecs valid s d es rs = true → typedRecs valid s (d + 1) es rs = true := by
  intro d
  induction d with
  | zero =>
    intro es rs h
    simp only [typedRecs, typedRecsF, List.all_eq_true] at h ⊢
    exact fun r hr => typedRecF_mono valid valid (fun _ h => h) s _ _ (fun _ _ h => by simp at h) es r
      (h r hr)
  | succ d ih =>
    intro es rs h
    simp only [typedRecs, typedRecsF, List.all_eq_true] at h ⊢
    exact fun r hr => typedRecF_mono valid valid (fun _ h => h) s _ _ ih es r (h r hr)

theorem canonRecF_up (valid : Bytes → Bool) (s : Schema) (trec crec crec' : List Entry → Recs → Bool)
    (hup : ∀ es sub, trec es sub = true → crec es sub = true → crec' es sub = true)
    (es : List Entry) (r : Nat × Val) (ht : typedRecF valid s trec es r = true)
    (hc : canonRecF s crec es r = true) : canonRecF s crec' es r = true := by
  unfold typedRecF at ht
  unfold canonRecF at hc ⊢
  cases hf : findIn es 1 r.1 with
  | none => simp [hf] at ht
  | some x =>
    obtain ⟨a, b, ty⟩ := x
    simp only [hf] at ht hc ⊢
    rcases Wire.Ty.message_or ty with ⟨m, rfl⟩ | hty
    · cases hr : r.2 with
      | msg sub =>
        cases hl : lookupMsg s m with
        | none => simp [hr, hl] at ht
        | some es' =>
          simp only [hr, hl, Bool.and_eq_true] at ht hc ⊢
          exact hup _ _ ht.1 hc
      | _ => simp [hr] at ht
    · cases ty <;> first | rfl | exact absurd rfl (hty _)

theorem canonRecs_succ (valid : Bytes → Bool) (s : Schema) : ∀ (d : Nat) (es : List Entry) (rs : Recs),
    typedRecs valid s d es rs = true → canonRecs s d es rs = true →
      canonRecs s (d + 1) es rs = true := by
  intro d
  induction d with
  | zero =>
    intro es rs ht hc
    simp only [typedRecs, typedRecsF, List.all_eq_true] at ht
    simp only [canonRecs, canonRecsF, Bool.and_eq_true, List.all_eq_true] at hc ⊢
    exact ⟨hc.1, fun r hr => canonRecF_up valid s _ _ _ (fun _ _ h => by simp at h) es r (ht r hr)
      (hc.2 r hr)⟩
  | succ d ih =>
    intro es rs ht hc
    simp only [typedRecs, typedRecsF, List.all_eq_true] at ht
    simp only [canonRecs, canonRecsF, Bool.and_eq_true, List.all_eq_true] at hc ⊢
    exact ⟨hc.1, fun r hr => canonRecF_up valid s _ _ _ ih es r (ht r hr) (hc.2 r hr)⟩

theorem typed_canon_up (valid : Bytes → Bool) (s : Schema) (d : Nat) (es : List Entry) (rs : Recs)
    (ht : typedRecs valid s d es rs = true) (hc : canonRecs s d es rs = true) :
    ∀ k, typedRecs valid s (d + k) es rs = true ∧ canonRecs s (d + k) es rs = true := by
  intro k
  induction k with
  | zero => exact ⟨ht, hc⟩
  | succ k ih =>
    exact ⟨typedRecs_succ valid s _ es rs ih.1, canonRecs_succ valid s _ es rs ih.1 ih.2⟩

/-- typed records are loosely typed (the length bounds are dropped) -/
theorem looseRecs_of_typed (valid : Bytes → Bool) (s : Schema) : ∀ (d : Nat) (es : List Entry)
    (rs : Recs), typedRecs valid s d es rs = true → looseRecs valid s d es rs = true := by
  have hsc : ∀ ty v, scalarTyped valid ty v = true → scalarLoose valid ty v = true := by
    intro ty v h
    cases ty <;> cases v <;> simp [scalarTyped] at h <;> simp [scalarLoose, u32, u64, h]
  have step : ∀ (trec lrec : List Entry → Recs → Bool)
      (_ : ∀ es sub, trec es sub = true → lrec es sub = true) (es : List Entry) (r : Nat × Val),
      typedRecF valid s trec es r = true → looseRecF valid s lrec es r = true := by
    intro trec lrec hrec es r h
    unfold typedRecF at h
    unfold looseRecF
    cases hf : findIn es 1 r.1 with
    | none => simp [hf] at h
    | some x =>
      obtain ⟨a, b, ty⟩ := x
      simp only [hf] at h ⊢
      rcases Wire.Ty.message_or ty with ⟨m, rfl⟩ | hty
      · cases hr : r.2 with
        | msg sub =>
          cases hl : lookupMsg s m with
          | none => simp [hr, hl] at h
          | some es' =>
            simp only [hr, hl, Bool.and_eq_true] at h ⊢
            exact hrec _ _ h.1
        | _ => simp [hr] at h
      · have h' : scalarTyped valid ty r.2 = true := by
          cases ty <;> first | exact h | exact absurd rfl (hty _)
        have := hsc ty r.2 h'
        cases ty <;> first | exact this | exact absurd rfl (hty _)
  intro d
  induction d with
  | zero =>
    intro es rs h
    simp only [typedRecs, typedRecsF, List.all_eq_true] at h
    simp only [looseRecs, looseRecsF, List.all_eq_true]
    exact fun r hr => step _ _ (fun _ _ h => by simp at h) es r (h r hr)
  | succ d ih =>
    intro es rs h
    simp only [typedRecs, typedRecsF, List.all_eq_true] at h
    simp only [looseRecs, looseRecsF, List.all_eq_true]
    exact fun r hr => step _ _ ih es r (h r hr)

/-- the bytes the encoder writes for a typed canonical `DataSet` / `Template` tree (message `m`)
with at most `d ≤ 100` levels below it pass `subOK` -/
theorem subOK_of_struct (valid : Bytes → Bool) (d : Nat) (m : String) (sub : Recs)
    (hm : lookupMsg sparkplug m = some (esOf m)) (hd : d ≤ 100)
    (ht : typedRecs valid sparkplug d (esOf m) sub = true)
    (hc : canonRecs sparkplug d (esOf m) sub = true) :
    subOK valid d m (encRecs sparkplug (esOf m) sub) = true := by
  have ht1 := typedRecs_mono valid (fun _ => true) (fun _ _ => rfl) sparkplug d _ _ ht
  obtain ⟨h1, h2⟩ := typed_canon_up (fun _ => true) sparkplug d _ _ ht1 hc (100 - d)
  have e : d + (100 - d) = 100 := by omega
  rw [e] at h1 h2
  have hw : Wire.WellTyped (fun _ => true) sparkplug m (.msg sub) := by
    constructor
    · simpa [Wire.Typed, Wire.typedMsg, Wire.typedMsgD, hm, Wire.recursionLimit] using h1
    · simpa [Wire.Canonical, Wire.canonMsg, Wire.canonMsgD, hm, Wire.recursionLimit] using h2
  have hrt := Wire.M13_sparkplug_roundtrip (fun _ => true) m (.msg sub) hw
  have henc : encodeMsg sparkplug m (.msg sub) = encRecs sparkplug (esOf m) sub := by
    simp [encodeMsg, hm]
  rw [henc] at hrt
  simp [subOK, hrt, looseRecs_of_typed valid sparkplug d _ _ ht, hc]

/-- `hostReceive_payloadOf` (Proofs/Metric.lean) for the concrete codec -/
theorem hostReceive_payloadOf_wire (valid : Bytes → Bool) (seq now : Nat) (ms : List PubMetric)
    (h : inRange valid (payloadOf seq now ms) = true) :
    hostReceiveData (decW valid) (encW (payloadOf seq now ms))
      = .data { seq := seq % 256, timestamp := now, metrics := ms.map hostEntry } := by
  simp [hostReceiveData, decW_encW valid _ h, ndata_payloadOf]

end Srad.Metric
