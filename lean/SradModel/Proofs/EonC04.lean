import SradModel.Model.EonSpec

namespace Srad.Eon.P04

end Srad.Eon.P04
