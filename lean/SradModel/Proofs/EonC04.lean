import SradModel.Model.EonSpec

namespace Srad.Eon.P04
open Srad.Eon

/-! ### the scanners as folds -/

def ddNext (d : Nat) (st : DLife) : Obs → DLife
  | .bNode => .none
  | .call id .dbirth (some d') _ _ _ dec =>
    if d' == d then (match dec with | .acc => .birthed | .rej => .none | .park => .pending id) else st
  | .resolved id ok => if st == .pending id then (if ok then .birthed else .none) else st
  | .call _ .ddeath (some d') _ _ _ _ => if d' == d then .dead else st
  | _ => st

def ddChk (d : Nat) (st : DLife) : Obs → Bool
  | .call _ .ddata (some d') _ _ _ _ => if d' == d then st == .birthed else true
  | _ => true

theorem ddataOk_cons (d : Nat) (st : DLife) (o : Obs) (t : List Obs) :
    ddataOk d st (o :: t) = (ddChk d st o && ddataOk d (ddNext d st o) t) := by
  cases o with
  | call id k dv sq bd tr dec =>
    cases k <;> cases dv <;> simp [ddataOk, ddChk, ddNext]
    all_goals (split <;> try simp_all)
    all_goals (cases dec <;> rfl)
  | resolved id ok => simp [ddataOk, ddChk, ddNext]; split <;> rfl
  | _ => simp [ddataOk, ddChk, ddNext]

def ddAfter (d : Nat) (st : DLife) (tr : List Obs) : DLife := tr.foldl (ddNext d) st

theorem ddataOk_append (d : Nat) (a b : List Obs) : ∀ st,
    ddataOk d st (a ++ b) = (ddataOk d st a && ddataOk d (ddAfter d st a) b) := by
  induction a with
  | nil => intro st; simp [ddataOk, ddAfter]
  | cons o t ih => intro st; simp [ddataOk_cons, ih, ddAfter, Bool.and_assoc]

def deNext (d : Nat) (last : Bool) : Obs → Bool
  | .call _ .sub _ _ _ _ _ => false
  | .call _ .dbirth (some d') _ _ _ _ => if d' == d then true else last
  | .call _ .ddeath (some d') _ _ _ _ => if d' == d then false else last
  | _ => last

def deChk (d : Nat) (last : Bool) : Obs → Bool
  | .call _ .ddeath (some d') _ _ _ _ => if d' == d then last else true
  | _ => true

theorem ddeathOk_cons (d : Nat) (last : Bool) (o : Obs) (t : List Obs) :
    ddeathOk d last (o :: t) = (deChk d last o && ddeathOk d (deNext d last o) t) := by
  cases o with
  | call id k dv sq bd tr dec =>
    cases k <;> cases dv <;> simp [ddeathOk, deChk, deNext]
    all_goals (split <;> try simp_all)
  | _ => simp [ddeathOk, deChk, deNext]

def deAfter (d : Nat) (last : Bool) (tr : List Obs) : Bool := tr.foldl (deNext d) last

theorem ddeathOk_append (d : Nat) (a b : List Obs) : ∀ st,
    ddeathOk d st (a ++ b) = (ddeathOk d st a && ddeathOk d (deAfter d st a) b) := by
  induction a with
  | nil => intro st; simp [ddeathOk, deAfter]
  | cons o t ih => intro st; simp [ddeathOk_cons, ih, deAfter, Bool.and_assoc]

/-! ### device lists -/

def UidOk (l : List Dev) : Prop := l.map (·.uid) = List.range l.length

/-- the fields of a device the invariants talk about -/
def core (x : Dev) : Nat × Nat × DevPc × Bool × Nat := (x.uid, x.name, x.pc, x.flag, x.epoch)

theorem setDev_length (x : Dev) (l : List Dev) : (setDev x l).length = l.length := by
  induction l with
  | nil => rfl
  | cons y t ih => simp only [setDev]; split <;> simp [ih]

theorem setDev_map_uid (x : Dev) (l : List Dev) : (setDev x l).map (·.uid) = l.map (·.uid) := by
  induction l with
  | nil => rfl
  | cons y t ih => simp only [setDev]; split <;> simp_all

theorem setDev_setDev (x1 x2 : Dev) (l : List Dev) (h : x1.uid = x2.uid) :
    setDev x2 (setDev x1 l) = setDev x2 l := by
  induction l with
  | nil => rfl
  | cons y t ih =>
    simp only [setDev]
    by_cases hy : y.uid = x1.uid
    · simp [hy, h, setDev]
    · have hy2 : ¬ y.uid = x2.uid := by rw [← h]; exact hy
      simp [hy, hy2, setDev, ih]

theorem mem_setDev_weak (x y : Dev) (l : List Dev) (h : y ∈ setDev x l) : y = x ∨ y ∈ l := by
  induction l with
  | nil => simp [setDev] at h
  | cons z t ih =>
    simp only [setDev] at h
    split at h
    · simp at h; rcases h with h | h <;> simp [h]
    · simp at h; rcases h with h | h
      · simp [h]
      · rcases ih h with h | h <;> simp [h]

theorem mem_setDev (x y : Dev) (l : List Dev) (hn : (l.map (·.uid)).Nodup) (h : y ∈ setDev x l) :
    y = x ∨ (y ∈ l ∧ y.uid ≠ x.uid) := by
  induction l with
  | nil => simp [setDev] at h
  | cons z t ih =>
    simp only [List.map_cons, List.nodup_cons, List.mem_map, not_exists, not_and] at hn
    simp only [setDev] at h
    split at h
    · rename_i hz
      simp at hz h
      rcases h with h | h
      · exact .inl h
      · refine .inr ⟨by simp [h], fun hu => hn.1 y h (by rw [hu, hz])⟩
    · rename_i hz
      simp at hz h
      rcases h with h | h
      · subst h; exact .inr ⟨by simp, hz⟩
      · rcases ih hn.2 h with h | h
        · exact .inl h
        · exact .inr ⟨by simp [h.1], h.2⟩

theorem UidOk.nodup {l : List Dev} (h : UidOk l) : (l.map (·.uid)).Nodup := by
  rw [h]; exact List.nodup_range

theorem UidOk.setDev {l : List Dev} (h : UidOk l) (x : Dev) : UidOk (setDev x l) := by
  simp [UidOk, setDev_map_uid, setDev_length]; exact h

theorem UidOk.pushAll {l : List Dev} (h : UidOk l) (m : NS) : UidOk (pushAll m l) := by
  unfold UidOk at *
  simp only [Srad.Eon.pushAll, List.map_map, List.length_map]
  rw [← h]; apply List.map_congr_left; intro a _; simp; split <;> rfl

theorem UidOk.append {l : List Dev} (h : UidOk l) (x : Dev) (hx : x.uid = l.length) : UidOk (l ++ [x]) := by
  unfold UidOk at *
  simp [List.range_succ, h, hx]

theorem findUid_some {u : Nat} {l : List Dev} {x : Dev} (h : findUid u l = some x) : x ∈ l ∧ x.uid = u := by
  unfold findUid at h
  have := List.find?_some h
  exact ⟨List.mem_of_find?_eq_some h, by simpa using this⟩

theorem findUid_setDev {u : Nat} {l : List Dev} {x x' : Dev} (h : findUid u l = some x) (hu : x'.uid = u) :
    findUid u (setDev x' l) = some x' := by
  induction l with
  | nil => simp [findUid] at h
  | cons y t ih =>
    simp only [setDev]
    by_cases hy : y.uid = u
    · simp [hy, hu, findUid]
    · have : ¬ y.uid = x'.uid := by rw [hu]; exact hy
      have h' : findUid u t = some x := by simpa [findUid, List.find?_cons, hy] using h
      simpa [this, findUid, List.find?_cons, hy] using ih h'

theorem findReg_some {d : Nat} {l : List Dev} {x : Dev}
    (h : l.find? (fun x => x.name == d && x.registered && x.pc != .done) = some x) :
    x ∈ l ∧ x.name = d ∧ x.pc ≠ .done ∧ x.registered = true := by
  have := List.find?_some h
  simp at this
  exact ⟨List.mem_of_find?_eq_some h, this.1.1, this.2, this.1.2⟩

theorem findDev_some {d : Nat} {l : List Dev} {x : Dev} (h : findDev d l = some x) :
    x ∈ l ∧ x.name = d ∧ x.pc ≠ .done := by
  unfold findDev at h
  split at h
  · rename_i y hy
    have := findReg_some hy
    simp at h; subst h; exact ⟨this.1, this.2.1, this.2.2.1⟩
  · have h1 := List.find?_some h
    have h2 := List.mem_of_find?_eq_some h
    simp at h1 h2
    exact ⟨h2, h1.1, h1.2⟩

/-- at most one live incarnation of name `d` -/
def Uniq (d : Nat) (l : List Dev) : Prop := (l.filter fun x => x.name == d && x.pc != .done).length ≤ 1

theorem Uniq.eq {d : Nat} {l : List Dev} (h : Uniq d l) {x y : Dev} (hx : x ∈ l) (hy : y ∈ l)
    (hxd : x.name = d) (hyd : y.name = d) (hxp : x.pc ≠ .done) (hyp : y.pc ≠ .done) : x = y := by
  unfold Uniq at h
  have hx' : x ∈ l.filter fun x => x.name == d && x.pc != .done := by simp [hx, hxd, hxp]
  have hy' : y ∈ l.filter fun x => x.name == d && x.pc != .done := by simp [hy, hyd, hyp]
  generalize l.filter (fun x => x.name == d && x.pc != .done) = f at *
  match f, h with
  | [], _ => simp at hx'
  | [a], _ => simp at hx' hy'; rw [hx', hy']
  | _ :: _ :: _, h => simp at h

/-- how a step that does not touch the cores changes the device list -/
def DevsQ (l l' : List Dev) : Prop :=
  l' = l ∨ (∃ x x', x ∈ l ∧ core x' = core x ∧ l' = setDev x' l) ∨ ∃ m, l' = pushAll m l

theorem DevsQ.uidOk {l l' : List Dev} (h : DevsQ l l') (hu : UidOk l) : UidOk l' := by
  rcases h with h | ⟨x, x', _, _, h⟩ | ⟨m, h⟩
  · rw [h]; exact hu
  · rw [h]; exact hu.setDev _
  · rw [h]; exact hu.pushAll _

theorem DevsQ.rel {l l' : List Dev} (h : DevsQ l l') {y' : Dev} (hy : y' ∈ l') : ∃ y ∈ l, core y = core y' := by
  rcases h with h | ⟨x, x', hx, hc, h⟩ | ⟨m, h⟩
  · rw [h] at hy; exact ⟨y', hy, rfl⟩
  · rw [h] at hy
    rcases mem_setDev_weak _ _ _ hy with h1 | h1
    · exact ⟨x, hx, by rw [h1, hc]⟩
    · exact ⟨y', h1, rfl⟩
  · rw [h] at hy
    simp only [pushAll, List.mem_map] at hy
    obtain ⟨y, hy1, hy2⟩ := hy
    refine ⟨y, hy1, ?_⟩
    rw [← hy2]; split <;> rfl

/-! ### what each kind of step does to the fields the invariants mention -/

/-- observations neither scanner looks at -/
def inert : Obs → Bool
  | .call .. | .resolved .. | .bNode => false
  | _ => true

def NodeSame (s s' : St) : Prop :=
  s'.epoch = s.epoch ∧ s'.birthed = s.birthed ∧ s'.online = s.online ∧ s'.node = s.node

def Quiet (s s' : St) (o : List Obs) : Prop :=
  NodeSame s s' ∧ s'.calls = s.calls ∧ DevsQ s.devs s'.devs ∧ ∀ ob ∈ o, inert ob = true

theorem loopHandle_eff (s : St) (e : Ev) : Quiet s (loopHandle s e) [] := by
  unfold loopHandle
  cases e with
  | dcmd d ts =>
    simp only
    split
    · rename_i x hx
      refine ⟨⟨rfl, rfl, rfl, rfl⟩, rfl, .inr (.inl ⟨x, _, (findReg_some hx).1, ?_, rfl⟩), by simp⟩
      rfl
    · exact ⟨⟨rfl, rfl, rfl, rfl⟩, rfl, .inl rfl, by simp⟩
  | _ =>
    simp only [newOneshot]
    (try split) <;> exact ⟨⟨rfl, rfl, rfl, rfl⟩, rfl, .inl rfl, by simp⟩

theorem stepLoopTimeout_eff {s s' : St} {o : List Obs} (h : (s', o) ∈ stepLoopTimeout s) : Quiet s s' o := by
  unfold stepLoopTimeout at h
  simp only [newOneshot] at h
  repeat' split at h
  all_goals simp at h
  all_goals (obtain ⟨rfl, rfl⟩ := h)
  all_goals exact ⟨⟨rfl, rfl, rfl, rfl⟩, rfl, .inl rfl, by simp [inert]⟩

theorem quiet_triv {s s' : St} {o : List Obs} (h1 : s'.epoch = s.epoch) (h2 : s'.birthed = s.birthed)
    (h3 : s'.online = s.online) (h4 : s'.node = s.node) (h5 : s'.calls = s.calls) (h6 : s'.devs = s.devs)
    (h7 : ∀ ob ∈ o, inert ob = true) : Quiet s s' o :=
  ⟨⟨h1, h2, h3, h4⟩, h5, .inl h6, h7⟩

theorem stepLoop_eff {s s' : St} {o : List Obs} (h : (s', o) ∈ stepLoop s) : Quiet s s' o := by
  unfold stepLoop at h
  simp only [newOneshot] at h
  split at h
  case h_3 =>
    -- polling
    simp only [List.mem_append] at h
    rcases h with h | h
    · split at h
      · simp at h; obtain ⟨rfl, rfl⟩ := h
        exact quiet_triv rfl rfl rfl rfl rfl rfl (by simp)
      · simp at h
    · split at h
      · rename_i e rest _
        simp at h; obtain ⟨rfl, rfl⟩ := h
        have := loopHandle_eff { s with inbox := rest } e
        exact ⟨this.1, this.2.1, this.2.2.1, by simp [inert]⟩
      · simp at h
  case h_2 =>
    simp at h
    rcases h with ⟨-, rfl, rfl⟩ | ⟨rfl, rfl⟩ <;> exact quiet_triv rfl rfl rfl rfl rfl rfl (by simp [inert])
  all_goals
    (repeat' split at h)
    all_goals simp at h
    all_goals (obtain ⟨rfl, rfl⟩ := h)
    all_goals exact quiet_triv rfl rfl rfl rfl rfl rfl (by simp [inert])

def StimEff (s s' : St) (o : List Obs) : Prop :=
  Quiet s s' o ∨
  (NodeSame s s' ∧ s'.calls = s.calls ∧ o = [] ∧ ∃ d', s'.devs = s.devs ++ [{ uid := s.devs.length, name := d' }]) ∨
  (NodeSame s s' ∧ s'.devs = s.devs ∧ ∃ id ok c, s.calls[id]? = some c ∧ c.res = none ∧
    s'.calls = s.calls.set id { c with res := some ok } ∧ o = [.resolved id ok])

theorem quiet_setDev {s s' : St} {o : List Obs} {x x' : Dev} (h1 : s'.epoch = s.epoch) (h2 : s'.birthed = s.birthed)
    (h3 : s'.online = s.online) (h4 : s'.node = s.node) (h5 : s'.calls = s.calls)
    (hx : x ∈ s.devs) (h6 : s'.devs = setDev x' s.devs) (hc : core x' = core x)
    (h7 : ∀ ob ∈ o, inert ob = true) : Quiet s s' o :=
  ⟨⟨h1, h2, h3, h4⟩, h5, .inr (.inl ⟨x, x', hx, hc, h6⟩), h7⟩

theorem applyStim_eff (s : St) (x : Stim) : StimEff s (applyStim s x).1 (applyStim s x).2 := by
  cases x with
  | reg d =>
    simp only [applyStim]
    split
    · exact .inl (quiet_triv rfl rfl rfl rfl rfl rfl (by simp))
    · exact .inr (.inl ⟨⟨rfl, rfl, rfl, rfl⟩, rfl, rfl, d, rfl⟩)
  | unreg d =>
    simp only [applyStim]
    split
    · rename_i x hx
      exact .inl (quiet_setDev rfl rfl rfl rfl rfl (findReg_some hx).1 rfl rfl (by simp))
    · exact .inl (quiet_triv rfl rfl rfl rfl rfl rfl (by simp))
  | enable d =>
    simp only [applyStim]
    split
    · rename_i x hx
      exact .inl (quiet_setDev rfl rfl rfl rfl rfl (findDev_some hx).1 rfl rfl (by simp))
    · exact .inl (quiet_triv rfl rfl rfl rfl rfl rfl (by simp))
  | disable d =>
    simp only [applyStim]
    split
    · rename_i x hx
      exact .inl (quiet_setDev rfl rfl rfl rfl rfl (findDev_some hx).1 rfl rfl (by simp))
    · exact .inl (quiet_triv rfl rfl rfl rfl rfl rfl (by simp))
  | drebirth d =>
    simp only [applyStim]
    split
    · rename_i x hx
      exact .inl (quiet_setDev rfl rfl rfl rfl rfl (findDev_some hx).1 rfl rfl (by simp))
    · exact .inl (quiet_triv rfl rfl rfl rfl rfl rfl (by simp))
  | resolve id ok =>
    simp only [applyStim]
    split
    · rename_i c hc
      split
      · rename_i hr
        refine .inr (.inr ⟨⟨rfl, rfl, rfl, rfl⟩, rfl, id, ok, c, hc, ?_, rfl, rfl⟩)
        simpa using hr
      · exact .inl (quiet_triv rfl rfl rfl rfl rfl rfl (by simp))
    · exact .inl (quiet_triv rfl rfl rfl rfl rfl rfl (by simp))
  | cbPark t on =>
    simp only [applyStim]
    repeat' split
    all_goals exact .inl (quiet_triv rfl rfl rfl rfl rfl rfl (by simp))
  | _ => exact .inl (quiet_triv rfl rfl rfl rfl rfl rfl (by simp [applyStim]))

def isNb : NodePc → Bool
  | .waitNb .. | .nbDone .. => true
  | _ => false

def active : NodePc → Bool
  | .idle | .inCb _ | .done => false
  | _ => true

/-- no SUB since the last node birth started -/
def live (s : St) : Bool := s.birthed || isNb s.node

def NodeEff (s s' : St) (o : List Obs) : Prop :=
  (s'.epoch = s.epoch ∧ s'.birthed = s.birthed ∧ s'.online = s.online ∧ s'.calls = s.calls ∧ s'.devs = s.devs ∧
    (∀ ob ∈ o, inert ob = true) ∧ (isNb s'.node = true → isNb s.node = true) ∧
    (active s'.node = true → active s.node = true ∨ s.birthed = true)) ∨
  (s.online = false ∧ s.node = .idle ∧ s'.online = true ∧ s'.birthed = s.birthed ∧ s'.epoch = s.epoch ∧
    s'.devs = s.devs ∧ isNb s'.node = false ∧
    ∃ c dc, s'.calls = s.calls ++ [c] ∧ o = [.call s.calls.length .sub none none none false dc]) ∨
  (s'.node = .idle ∧ s'.online = false ∧ s'.birthed = false ∧ s'.epoch = s.epoch ∧ s'.calls = s.calls ∧
    s'.devs = pushAll .death s.devs ∧ o = []) ∨
  (active s.node = true ∧ s'.epoch = s.epoch + 1 ∧ s'.birthed = false ∧ s'.online = s.online ∧ s'.devs = s.devs ∧
    isNb s'.node = true ∧
    ∃ c bd dc, s'.calls = s.calls ++ [c] ∧ o = [.bNode, .call s.calls.length .nbirth none (some 0) (some bd) false dc]) ∨
  (isNb s.node = true ∧ s'.node = .idle ∧ s'.epoch = s.epoch ∧ s'.online = s.online ∧ s'.calls = s.calls ∧
    DevsQ s.devs s'.devs ∧ o = [])

theorem stepNode_eff {s s' : St} {o : List Obs} {dec : Dec} (h : (s', o) ∈ stepNode s dec) : NodeEff s s' o := by
  unfold stepNode at h
  split at h
  case h_1 hn =>
    split at h
    · -- cs = online
      simp only at h
      split at h
      · simp at h; obtain ⟨rfl, rfl⟩ := h
        exact .inl (by simp [hn, isNb, active])
      · split at h
        · rename_i ho
          simp at h; obtain ⟨rfl, rfl⟩ := h
          exact .inl (by simp [hn, isNb, active, ho])
        · rename_i ho
          simp only [handOver] at h
          split at h
          · simp at h; obtain ⟨rfl, rfl⟩ := h
            refine .inr (.inl ?_)
            simp [hn, isNb] ; simpa using ho
          · simp at h; obtain ⟨rfl, rfl⟩ := h
            refine .inr (.inl ?_)
            simp [hn, isNb] ; simpa using ho
    · -- cs = offline
      simp only at h
      split at h
      · simp at h; obtain ⟨rfl, rfl⟩ := h
        exact .inl (by simp [hn, isNb, active])
      · simp at h; obtain ⟨rfl, rfl⟩ := h
        exact .inr (.inr (.inl (by simp [hn])))
    · simp at h; obtain ⟨rfl, rfl⟩ := h
      exact .inl (by simp [isNb, active])
    · simp only at h
      repeat' split at h
      all_goals simp at h
      all_goals (obtain ⟨rfl, rfl⟩ := h)
      all_goals exact .inl (by simp_all [isNb, active, inert])
  case h_2 hn =>
    split at h
    · simp at h; obtain ⟨rfl, rfl⟩ := h
      exact .inl (by simp [hn, isNb, active])
    · simp at h
  case h_3 hn =>
    split at h
    all_goals simp at h
    all_goals (obtain ⟨rfl, rfl⟩ := h)
    all_goals exact .inl (by simp [hn, isNb, active])
  case h_4 hn =>
    simp only [nodeBirthStart, handOver] at h
    split at h
    all_goals simp at h
    all_goals (obtain ⟨rfl, rfl⟩ := h)
    all_goals exact .inr (.inr (.inr (.inl (by simp [hn, isNb, active]))))
  case h_5 hn =>
    split at h
    · simp at h; obtain ⟨rfl, rfl⟩ := h
      exact .inl (by simp [hn, isNb, active])
    · simp at h
  case h_6 hn =>
    simp at h; obtain ⟨rfl, rfl⟩ := h
    refine .inr (.inr (.inr (.inr ?_)))
    simp only [hn, isNb, true_and]
    split <;> split <;> simp [DevsQ]
    all_goals exact .inr (.inr ⟨_, rfl⟩)
  case h_7 hn =>
    repeat' split at h
    all_goals simp at h
    all_goals (obtain ⟨rfl, rfl⟩ := h)
    all_goals exact .inl (by simp_all [isNb, active, inert])
  case h_8 hn => simp at h

theorem nextSeqIn_ok {s s1 : St} {req : Option Nat} {n : Nat} (h : nextSeqIn s req = .ok (s1, n)) :
    s.online = true ∧ s.birthed = true ∧ (∀ e, req = some e → e = s.epoch) ∧ s1 = { s with seq := n } := by
  unfold nextSeqIn at h
  cases hon : s.online <;> cases hb : s.birthed <;> simp [hon, hb] at h
  cases req with
  | none => simp at h; obtain ⟨rfl, rfl⟩ := h; simp [← hon]
  | some e =>
    by_cases he : e = s.epoch
    · simp [he] at h
      obtain ⟨rfl, rfl⟩ := h
      simp [← hon, he]
    · simp [he] at h

def UObs (s : St) (ob : Obs) : Prop :=
  inert ob = true ∨
  (∃ id k sq bd t dc, ob = .call id k none sq bd t dc ∧ k ≠ .sub) ∨
  (∃ id d' x sq bd t dc, ob = .call id .ddata (some d') sq bd t dc ∧ findDev d' s.devs = some x ∧
    x.flag = true ∧ x.epoch = s.epoch ∧ s.online = true ∧ s.birthed = true)

theorem stepUser_eff {s s' : St} {o : List Obs} {j : Nat} {dec : Dec} (h : (s', o) ∈ stepUser s j dec) :
    NodeSame s s' ∧ s'.devs = s.devs ∧ (∃ cs, s'.calls = s.calls ++ cs) ∧ ∀ ob ∈ o, UObs s ob := by
  unfold stepUser at h
  split at h
  · simp at h
  rename_i u hu
  simp only at h
  split at h
  · -- pub, start
    rename_i t isTry n _ _
    split at h
    · simp at h; obtain ⟨rfl, rfl⟩ := h
      exact ⟨⟨rfl, rfl, rfl, rfl⟩, rfl, ⟨[], by simp⟩, by simp [UObs, inert]⟩
    · cases t with
      | node =>
        simp only [nextSeq] at h
        cases hq : nextSeqIn s none with
        | error e =>
          simp [hq, Except.map] at h; obtain ⟨rfl, rfl⟩ := h
          exact ⟨⟨rfl, rfl, rfl, rfl⟩, rfl, ⟨[], by simp⟩, by simp [UObs, inert]⟩
        | ok r =>
          obtain ⟨s1, k⟩ := r
          obtain ⟨-, -, -, rfl⟩ := nextSeqIn_ok hq
          simp only [hq, Except.map, handOver] at h
          split at h
          all_goals simp only [List.mem_singleton, Prod.mk.injEq] at h
          all_goals (obtain ⟨rfl, rfl⟩ := h)
          all_goals refine ⟨⟨rfl, rfl, rfl, rfl⟩, rfl, ⟨[_], rfl⟩, ?_⟩
          all_goals intro ob hob
          all_goals simp only [List.mem_append, List.mem_cons, List.not_mem_nil, or_false] at hob
          all_goals first
            | (rcases hob with rfl | rfl
               · exact .inr (.inl ⟨_, _, _, _, _, _, rfl, by decide⟩)
               · exact .inl rfl)
            | (subst hob; exact .inr (.inl ⟨_, _, _, _, _, _, rfl, by decide⟩))
      | dev d =>
        simp only at h
        cases hf : findDev d s.devs with
        | none =>
          simp [hf] at h; obtain ⟨rfl, rfl⟩ := h
          exact ⟨⟨rfl, rfl, rfl, rfl⟩, rfl, ⟨[], by simp⟩, by simp [UObs, inert]⟩
        | some x =>
          simp only [hf] at h
          cases hfl : x.flag with
          | false =>
            simp [hfl] at h; obtain ⟨rfl, rfl⟩ := h
            exact ⟨⟨rfl, rfl, rfl, rfl⟩, rfl, ⟨[], by simp⟩, by simp [UObs, inert]⟩
          | true =>
            cases hq : nextSeqIn s (some x.epoch) with
            | error e =>
              simp [hfl, hq, Except.map] at h; obtain ⟨rfl, rfl⟩ := h
              exact ⟨⟨rfl, rfl, rfl, rfl⟩, rfl, ⟨[], by simp⟩, by simp [UObs, inert]⟩
            | ok r =>
              obtain ⟨s1, k⟩ := r
              obtain ⟨hon, hb, hep, rfl⟩ := nextSeqIn_ok hq
              have hep := hep _ rfl
              simp [hfl, hq, Except.map, handOver] at h
              split at h
              all_goals simp only [List.mem_singleton, Prod.mk.injEq] at h
              all_goals (obtain ⟨rfl, rfl⟩ := h)
              all_goals refine ⟨⟨rfl, rfl, rfl, rfl⟩, rfl, ⟨[_], rfl⟩, ?_⟩
              all_goals intro ob hob
              all_goals simp only [List.mem_cons, List.not_mem_nil, or_false] at hob
              all_goals first
                | (rcases hob with rfl | rfl
                   · exact .inr (.inr ⟨_, _, _, _, _, _, _, rfl, hf, hfl, hep, hon, hb⟩)
                   · exact .inl rfl)
                | (subst hob; exact .inr (.inr ⟨_, _, _, _, _, _, _, rfl, hf, hfl, hep, hon, hb⟩))
  · -- pub, wait
    split at h
    all_goals simp at h
    all_goals (obtain ⟨rfl, rfl⟩ := h)
    all_goals exact ⟨⟨rfl, rfl, rfl, rfl⟩, rfl, ⟨[], by simp⟩, by simp [UObs, inert]⟩
  · -- cancel, start
    split at h
    · simp at h; obtain ⟨rfl, rfl⟩ := h
      exact ⟨⟨rfl, rfl, rfl, rfl⟩, rfl, ⟨[], by simp⟩, by simp [UObs, inert]⟩
    · simp [handOver] at h; obtain ⟨rfl, rfl⟩ := h
      refine ⟨⟨rfl, rfl, rfl, rfl⟩, rfl, ⟨[_], rfl⟩, ?_⟩
      intro ob hob
      simp only [List.mem_cons, List.not_mem_nil, or_false] at hob
      subst hob; exact .inr (.inl ⟨_, _, _, _, _, _, rfl, by decide⟩)
  · -- cancelStop
    repeat' split at h
    all_goals simp at h
    all_goals (obtain ⟨rfl, rfl⟩ := h)
    all_goals exact ⟨⟨rfl, rfl, rfl, rfl⟩, rfl, ⟨[], by simp⟩, by simp [UObs, inert]⟩
  · -- cancelDisc
    simp [handOver] at h; obtain ⟨rfl, rfl⟩ := h
    refine ⟨⟨rfl, rfl, rfl, rfl⟩, rfl, ⟨[_], rfl⟩, ?_⟩
    intro ob hob
    simp only [List.mem_cons, List.not_mem_nil, or_false] at hob
    rcases hob with rfl | rfl
    · exact .inr (.inl ⟨_, _, _, _, _, _, rfl, by decide⟩)
    · exact .inl rfl
  · simp at h

def decRes : Dec → Option Bool
  | .acc => some true | .rej => some false | .park => none

def birthPc (dec : Dec) (id ep : Nat) : DevPc :=
  match dec with
  | .acc => .birthDone true ep | .rej => .birthDone false ep | .park => .waitBirth id ep

/-- the five shapes of a device-task step (`x` before, `x'` after) -/
def DevEff (s : St) (x : Dev) (s' : St) (x' : Dev) (o : List Obs) (dec : Dec) : Prop :=
  (s'.calls = s.calls ∧ (∀ ob ∈ o, inert ob = true) ∧ (x'.flag = true → x.flag = true) ∧ x'.epoch = x.epoch ∧
    (x'.pc = .idle ∨ x'.pc = .inCb ∨ x'.pc = .done)) ∨
  (s.online = true ∧ s.birthed = true ∧ x'.enabled = true ∧ x'.registered = true ∧ x'.flag = false ∧
    x'.epoch = x.epoch ∧ x'.pc = birthPc dec s.calls.length s.epoch ∧
    ∃ c n, s'.calls = s.calls ++ [c] ∧ c.res = decRes dec ∧
      o = [.bDev x.name, .call s.calls.length .dbirth (some x.name) (some n) none false dec]) ∨
  (x.flag = true ∧ x.epoch = s.epoch ∧ s.online = true ∧ s.birthed = true ∧ x'.flag = false ∧ x'.epoch = x.epoch ∧
    (x'.pc = .idle ∨ x'.pc = .done ∨ ∃ id td, x'.pc = .waitDeath id td) ∧
    ∃ c n, s'.calls = s.calls ++ [c] ∧ o = [.call s.calls.length .ddeath (some x.name) (some n) none false dec]) ∨
  (∃ id ep ok, x.pc = .waitBirth id ep ∧ callRes s id = some ok ∧ x'.pc = .birthDone ok ep ∧ x'.flag = x.flag ∧
    x'.epoch = x.epoch ∧ s'.calls = s.calls ∧ o = []) ∨
  (∃ ok ep, x.pc = .birthDone ok ep ∧ x'.pc = .idle ∧
    (if ok = true then x'.flag = true ∧ x'.epoch = ep else x'.flag = x.flag ∧ x'.epoch = x.epoch) ∧
    s'.calls = s.calls ∧ o = [])

theorem devBirth_eff (s : St) (x : Dev) (bt : BT) (req : Option Nat) (dec : Dec) (l : List Dev)
    (hd : s.devs = setDev x l) (hpc : x.pc = .idle) :
    ∃ x', (devBirth s x bt req dec).1.devs = setDev x' l ∧ x'.uid = x.uid ∧ x'.name = x.name ∧
      x'.registered = x.registered ∧ NodeSame s (devBirth s x bt req dec).1 ∧
      DevEff s x (devBirth s x bt req dec).1 x' (devBirth s x bt req dec).2 dec := by
  have quiet : ∀ s, s.devs = setDev x l → ∃ x', (s, ([] : List Obs)).1.devs = setDev x' l ∧ x'.uid = x.uid ∧ x'.name = x.name ∧
      x'.registered = x.registered ∧ NodeSame s (s, ([] : List Obs)).1 ∧ DevEff s x (s, ([] : List Obs)).1 x' (s, ([] : List Obs)).2 dec :=
    fun s hd => ⟨x, hd, rfl, rfl, rfl, ⟨rfl, rfl, rfl, rfl⟩, .inl ⟨rfl, by simp, id, rfl, .inl hpc⟩⟩
  unfold devBirth
  split
  · exact quiet s hd
  split
  · exact quiet s hd
  rename_i hen _
  cases hq : nextSeqIn s req with
  | error e => exact quiet s hd
  | ok r =>
    obtain ⟨s1, n⟩ := r
    obtain ⟨hon, hb, -, rfl⟩ := nextSeqIn_ok hq
    simp only [handOver, Bool.false_and, Bool.false_eq_true, if_false]
    simp at hen
    refine ⟨{ x with flag := false, pc := birthPc dec s.calls.length s.epoch }, ?_, rfl, rfl, rfl, ?_, .inr (.inl ?_)⟩
    · cases dec <;> simp [callRes, hd, setDev_setDev, birthPc]
    · cases dec <;> simp [callRes, NodeSame]
    · cases dec <;> simp [callRes, hon, hb, hen, birthPc, decRes]

theorem devDeath_eff (s : St) (x : Dev) (pub thenDone : Bool) (dec : Dec) (l : List Dev)
    (hd : s.devs = setDev x l) :
    ∃ x', (devDeath s x pub thenDone dec).1.devs = setDev x' l ∧ x'.uid = x.uid ∧ x'.name = x.name ∧
      x'.registered = x.registered ∧ NodeSame s (devDeath s x pub thenDone dec).1 ∧
      DevEff s x (devDeath s x pub thenDone dec).1 x' (devDeath s x pub thenDone dec).2 dec := by
  have hfin : ∀ b : Bool, (if b = true then DevPc.done else DevPc.idle) = .idle ∨
      (if b = true then DevPc.done else DevPc.idle) = .inCb ∨ (if b = true then DevPc.done else DevPc.idle) = .done := by
    intro b; cases b <;> simp
  unfold devDeath
  simp only
  split
  · refine ⟨{ x with pc := if thenDone then .done else .idle }, ?_, rfl, rfl, rfl, ⟨rfl, rfl, rfl, rfl⟩, .inl ?_⟩
    · simp [hd, setDev_setDev]
    · exact ⟨rfl, by simp, id, rfl, hfin _⟩
  rename_i hfl
  simp at hfl
  split
  · refine ⟨{ x with flag := false, pc := if thenDone then .done else .idle }, ?_, rfl, rfl, rfl, ⟨rfl, rfl, rfl, rfl⟩, .inl ?_⟩
    · simp [hd, setDev_setDev]
    · exact ⟨rfl, by simp, by simp, rfl, hfin _⟩
  cases hq : nextSeqIn s (some x.epoch) with
  | error e =>
    refine ⟨{ x with flag := false, pc := if thenDone then .done else .idle }, ?_, rfl, rfl, rfl, ⟨rfl, rfl, rfl, rfl⟩, .inl ?_⟩
    · simp [hd, setDev_setDev]
    · exact ⟨rfl, by simp, by simp, rfl, hfin _⟩
  | ok r =>
    obtain ⟨s1, n⟩ := r
    obtain ⟨hon, hb, hep, rfl⟩ := nextSeqIn_ok hq
    have hep := hep _ rfl
    simp only [handOver, Bool.false_and, Bool.false_eq_true, if_false]
    refine ⟨{ x with flag := false, pc := match dec with | .park => .waitDeath s.calls.length thenDone | _ => if thenDone then .done else .idle }, ?_, rfl, rfl, rfl, ?_, .inr (.inr (.inl ?_))⟩
    · cases dec <;> simp [callRes, hd, setDev_setDev]
    · cases dec <;> simp [callRes, NodeSame]
    · cases dec <;> cases thenDone <;> simp [callRes, hon, hb, hep, hfl]

theorem stepDev_eff {s s' : St} {o : List Obs} {u : Nat} {dec : Dec} (h : (s', o) ∈ stepDev s u dec) :
    ∃ x x', findUid u s.devs = some x ∧ x.pc ≠ .done ∧ s'.devs = setDev x' s.devs ∧ x'.uid = x.uid ∧
      x'.name = x.name ∧ x'.registered = x.registered ∧ NodeSame s s' ∧ DevEff s x s' x' o dec := by
  unfold stepDev at h
  split at h
  · simp at h
  rename_i x hx
  simp only at h
  split at h
  case h_1 hpc =>
    -- idle
    split at h
    · rename_i m rest hn
      cases m with
      | birth bt ep =>
        simp only [List.mem_singleton] at h
        obtain ⟨x', h1, h2, h3, h4, h5, h6⟩ := devBirth_eff { s with devs := setDev { x with nsq := rest } s.devs }
          { x with nsq := rest } bt (some ep) dec s.devs rfl hpc
        rw [← h] at h1 h5 h6
        exact ⟨x, x', hx, by simp [hpc], h1, h2, h3, h4, h5, h6⟩
      | death =>
        simp only [List.mem_singleton] at h
        obtain ⟨x', h1, h2, h3, h4, h5, h6⟩ := devDeath_eff { s with devs := setDev { x with nsq := rest } s.devs }
          { x with nsq := rest } false false dec s.devs rfl
        rw [← h] at h1 h5 h6
        exact ⟨x, x', hx, by simp [hpc], h1, h2, h3, h4, h5, h6⟩
      | removed =>
        simp only [List.mem_singleton] at h
        obtain ⟨x', h1, h2, h3, h4, h5, h6⟩ := devDeath_eff { s with devs := setDev { x with nsq := rest } s.devs }
          { x with nsq := rest } true true dec s.devs rfl
        rw [← h] at h1 h5 h6
        exact ⟨x, x', hx, by simp [hpc], h1, h2, h3, h4, h5, h6⟩
    · split at h
      · rename_i r rest hh
        cases r with
        | enable =>
          simp only [List.mem_singleton] at h
          obtain ⟨x', h1, h2, h3, h4, h5, h6⟩ := devBirth_eff { s with devs := setDev { x with hq := rest, enabled := true } s.devs }
            { x with hq := rest, enabled := true } .birth none dec s.devs rfl hpc
          rw [← h] at h1 h5 h6
          exact ⟨x, x', hx, by simp [hpc], h1, h2, h3, h4, h5, h6⟩
        | disable =>
          simp only [List.mem_singleton] at h
          obtain ⟨x', h1, h2, h3, h4, h5, h6⟩ := devDeath_eff { s with devs := setDev { x with hq := rest, enabled := false } s.devs }
            { x with hq := rest, enabled := false } true false dec s.devs rfl
          rw [← h] at h1 h5 h6
          exact ⟨x, x', hx, by simp [hpc], h1, h2, h3, h4, h5, h6⟩
        | rebirth =>
          simp only [List.mem_singleton] at h
          obtain ⟨x', h1, h2, h3, h4, h5, h6⟩ := devBirth_eff { s with devs := setDev { x with hq := rest } s.devs }
            { x with hq := rest } .rebirth none dec s.devs rfl hpc
          rw [← h] at h1 h5 h6
          exact ⟨x, x', hx, by simp [hpc], h1, h2, h3, h4, h5, h6⟩
      · split at h
        · split at h
          all_goals simp only [List.mem_singleton, Prod.mk.injEq] at h
          all_goals (obtain ⟨rfl, rfl⟩ := h)
          all_goals refine ⟨x, _, hx, by simp [hpc], rfl, rfl, rfl, rfl, ⟨rfl, rfl, rfl, rfl⟩, .inl ⟨rfl, by simp [inert], id, rfl, ?_⟩⟩
          all_goals simp [hpc]
        · simp at h
  case h_2 id ep hpc =>
    split at h
    · rename_i ok hr
      simp only [List.mem_singleton, Prod.mk.injEq] at h
      obtain ⟨rfl, rfl⟩ := h
      exact ⟨x, _, hx, by simp [hpc], rfl, rfl, rfl, rfl, ⟨rfl, rfl, rfl, rfl⟩,
        .inr (.inr (.inr (.inl ⟨id, ep, ok, hpc, hr, rfl, rfl, rfl, rfl, rfl⟩)))⟩
    · simp at h
  case h_3 ok ep hpc =>
    simp only [List.mem_singleton, Prod.mk.injEq] at h
    obtain ⟨rfl, rfl⟩ := h
    refine ⟨x, _, hx, by simp [hpc], rfl, ?_, ?_, ?_, ⟨rfl, rfl, rfl, rfl⟩,
        .inr (.inr (.inr (.inr ⟨ok, ep, hpc, ?_, ?_, rfl, rfl⟩)))⟩
    all_goals cases ok <;> simp
  case h_4 cid td hpc =>
    split at h
    · simp only [List.mem_singleton, Prod.mk.injEq] at h
      obtain ⟨rfl, rfl⟩ := h
      refine ⟨x, _, hx, by simp [hpc], rfl, rfl, rfl, rfl, ⟨rfl, rfl, rfl, rfl⟩, .inl ⟨rfl, by simp, id, rfl, ?_⟩⟩
      cases td <;> simp
    · simp at h
  case h_5 hpc =>
    split at h
    · simp at h
    · simp only [List.mem_singleton, Prod.mk.injEq] at h
      obtain ⟨rfl, rfl⟩ := h
      exact ⟨x, _, hx, by simp [hpc], rfl, rfl, rfl, rfl, ⟨rfl, rfl, rfl, rfl⟩, .inl ⟨rfl, by simp, id, rfl, .inl rfl⟩⟩
  case h_6 hpc => simp at h

theorem dbirth_only_enabled_registered (s s' : St) (u : Nat) (dec : Dec) (k : Nat) (o : List Obs)
    (id : Nat) (d : Option Nat) (sq bd : Option Nat) (t : Bool) (dc : Dec)
    (h : (step s (.dev u) dec)[k]? = some (s', o)) (hc : Obs.call id .dbirth d sq bd t dc ∈ o) :
    ∃ x x', findUid u s.devs = some x ∧ findUid u s'.devs = some x' ∧ d = some x.name ∧
      x'.enabled = true ∧ x.registered = true ∧ s.online = true ∧ s.birthed = true := by
  have hm : (s', o) ∈ stepDev s u dec := List.mem_of_getElem? h
  obtain ⟨x, x', hx, -, hd, hu, hn, hr, -, he⟩ := stepDev_eff hm
  have hxu := (findUid_some hx).2
  refine ⟨x, x', hx, by rw [hd]; exact findUid_setDev hx (by rw [hu, hxu]), ?_⟩
  rcases he with ⟨-, hi, -⟩ | ⟨hon, hb, hen, hreg, -, -, -, c, n, -, -, rfl⟩ | ⟨-, -, -, -, -, -, -, c, n, -, rfl⟩ |
    ⟨_, _, _, -, -, -, -, -, -, rfl⟩ | ⟨_, _, -, -, -, -, rfl⟩
  · have := hi _ hc; simp [inert] at this
  · simp at hc
    exact ⟨hc.2.1, hen, by rw [← hr]; exact hreg, hon, hb⟩
  · simp at hc
  · simp at hc
  · simp at hc

theorem enable_births (s : St) (u : Nat) (dec : Dec) (x : Dev) (rest : List HR)
    (hx : findUid u s.devs = some x) (hpc : x.pc = .idle) (hq : x.nsq = []) (hh : x.hq = .enable :: rest)
    (hreg : x.registered = true) (hfl : x.flag = false) (hon : s.online = true) (hb : s.birthed = true) :
    ∃ s' id dc, step s (.dev u) dec = [(s', [.bDev x.name,
        .call id .dbirth (some x.name) (some ((s.seq + 1) % 256)) none false dc])] := by
  simp only [step, stepDev, hx, hpc, hq, hh, devBirth, nextSeqIn, handOver]
  simp [hreg, hfl, hon, hb]
  cases dec <;> simp [callRes]

/-! ### all steps -/

def StepEff (s s' : St) (o : List Obs) : Prop :=
  StimEff s s' o ∨ NodeEff s s' o ∨
  (∃ u dec x x', findUid u s.devs = some x ∧ x.pc ≠ .done ∧ s'.devs = setDev x' s.devs ∧ x'.uid = x.uid ∧
    x'.name = x.name ∧ NodeSame s s' ∧ DevEff s x s' x' o dec) ∨
  (NodeSame s s' ∧ s'.devs = s.devs ∧ (∃ cs, s'.calls = s.calls ++ cs) ∧ ∀ ob ∈ o, UObs s ob)

theorem runAct_eff {s s' : St} {a : Act} {o : List Obs} (h : runAct s a = some (s', o)) : StepEff s s' o := by
  cases a with
  | stim x =>
    simp only [runAct, Option.some.injEq] at h
    have := applyStim_eff s x
    rw [h] at this
    exact .inl this
  | task t dec k =>
    have hm : (s', o) ∈ step s t dec := List.mem_of_getElem? h
    cases t with
    | loop => exact .inl (.inl (stepLoop_eff hm))
    | loopTimeout => exact .inl (.inl (stepLoopTimeout_eff hm))
    | node => exact .inr (.inl (stepNode_eff hm))
    | dev u =>
      obtain ⟨x, x', h1, h2, h3, h4, h5, -, h7, h8⟩ := stepDev_eff hm
      exact .inr (.inr (.inl ⟨u, dec, x, x', h1, h2, h3, h4, h5, h7, h8⟩))
    | user j => exact .inr (.inr (.inr (stepUser_eff hm)))

/-- lifting a one-step invariant to executions; `U` is a hypothesis on every visited state -/
theorem run_inv {σ : Type} (U : St → Prop) (Inv : St → σ → Prop) (chk : σ → List Obs → Bool)
    (aft : σ → List Obs → σ)
    (happ : ∀ st a b, chk st (a ++ b) = (chk st a && chk (aft st a) b))
    (haft : ∀ st a b, aft st (a ++ b) = aft (aft st a) b)
    (hnil : ∀ st, chk st [] = true) (haft_nil : ∀ st, aft st [] = st)
    (hstep : ∀ s st s' o, U s → Inv s st → StepEff s s' o → chk st o = true ∧ Inv s' (aft st o)) :
    ∀ (acts : List Act) (s0 : St) (st0 : σ) (s : St) (tr : List Obs), Inv s0 st0 →
      (∀ pre, pre <+: acts → ∀ s1 t1, runActs s0 pre = some (s1, t1) → U s1) →
      runActs s0 acts = some (s, tr) → chk st0 tr = true ∧ Inv s (aft st0 tr) := by
  intro acts
  induction acts with
  | nil =>
    intro s0 st0 s tr hI _ h
    simp only [runActs, Option.some.injEq, Prod.mk.injEq] at h
    obtain ⟨rfl, rfl⟩ := h
    exact ⟨hnil _, by rw [haft_nil]; exact hI⟩
  | cons a as ih =>
    intro s0 st0 s tr hI hU h
    simp only [runActs] at h
    split at h
    · simp at h
    rename_i s1 o1 ha
    split at h
    · simp at h
    rename_i s2 o2 has
    simp only [Option.some.injEq, Prod.mk.injEq] at h
    obtain ⟨rfl, rfl⟩ := h
    have hU0 : U s0 := hU [] (List.nil_prefix) s0 [] rfl
    obtain ⟨hc1, hI1⟩ := hstep s0 st0 s1 o1 hU0 hI (runAct_eff ha)
    have hU1 : ∀ pre, pre <+: as → ∀ s1' t1, runActs s1 pre = some (s1', t1) → U s1' := by
      intro pre hp s1' t1 hr
      refine hU (a :: pre) ((List.cons_prefix_cons).2 ⟨rfl, hp⟩) s1' (o1 ++ t1) ?_
      simp [runActs, ha, hr]
    obtain ⟨hc2, hI2⟩ := ih s1 (aft st0 o1) s2 o2 hI1 hU1 has
    exact ⟨by rw [happ, hc1, hc2]; rfl, by rw [haft]; exact hI2⟩

/-! ### C04 DDATA ordering: the invariant -/

def WB (s : St) (st : DLife) (id : Nat) : Prop :=
  (callRes s id = none → st = .pending id) ∧ (callRes s id = some true → st = .birthed)

def PD (s : St) (st : DLife) (x : Dev) : Prop :=
  x.epoch ≤ s.epoch ∧
  (x.flag = true → x.epoch = s.epoch → st = .birthed) ∧
  (∀ id ep, x.pc = .waitBirth id ep → ep ≤ s.epoch ∧ (ep = s.epoch → id < s.calls.length ∧ WB s st id)) ∧
  (∀ ok ep, x.pc = .birthDone ok ep → ep ≤ s.epoch ∧ (ok = true → ep = s.epoch → st = .birthed))

def InvD (d : Nat) (s : St) (st : DLife) : Prop :=
  UidOk s.devs ∧ ∀ x ∈ s.devs, x.name = d → x.pc ≠ .done → PD s st x

theorem core_eq {y y' : Dev} (h : core y = core y') :
    y.uid = y'.uid ∧ y.name = y'.name ∧ y.pc = y'.pc ∧ y.flag = y'.flag ∧ y.epoch = y'.epoch := by
  simpa [core] using h

theorem callRes_append {s s' : St} {cs : List Call} (hc : s'.calls = s.calls ++ cs) {id : Nat}
    (hid : id < s.calls.length) : callRes s' id = callRes s id := by
  simp [callRes, hc, List.getElem?_append_left hid]

theorem PD_mono {s s' : St} {st : DLife} {y y' : Dev} {cs : List Call} (hcore : core y = core y')
    (he : s'.epoch = s.epoch) (hc : s'.calls = s.calls ++ cs) (h : PD s st y) : PD s' st y' := by
  obtain ⟨-, -, hpc, hfl, hep⟩ := core_eq hcore
  obtain ⟨h1, h2, h3, h4⟩ := h
  rw [hfl, hep] at h2
  rw [hep] at h1
  rw [hpc] at h3 h4
  refine ⟨by rw [he]; exact h1, by rw [he]; exact h2, ?_, by rw [he]; exact h4⟩
  intro id ep hp
  obtain ⟨h5, h6⟩ := h3 id ep hp
  rw [he]
  refine ⟨h5, fun h7 => ?_⟩
  obtain ⟨h8, h9⟩ := h6 h7
  refine ⟨by rw [hc]; simp; omega, ?_⟩
  unfold WB at *
  rw [callRes_append hc h8]
  exact h9

theorem PD_stale {s s' : St} {st st' : DLife} {y : Dev} (he : s'.epoch = s.epoch + 1) (h : PD s st y) :
    PD s' st' y := by
  obtain ⟨h1, h2, h3, h4⟩ := h
  refine ⟨by omega, fun _ h => by omega, fun id ep hp => ⟨by have := (h3 id ep hp).1; omega, fun h => ?_⟩,
    fun ok ep hp => ⟨by have := (h4 ok ep hp).1; omega, fun _ h => ?_⟩⟩
  · have := (h3 id ep hp).1; omega
  · have := (h4 ok ep hp).1; omega

theorem dd_inert (d : Nat) (st : DLife) (o : List Obs)
    (h : ∀ ob ∈ o, ddChk d st ob = true ∧ ddNext d st ob = st) :
    ddataOk d st o = true ∧ ddAfter d st o = st := by
  induction o with
  | nil => simp [ddataOk, ddAfter]
  | cons ob t ih =>
    have h1 := h ob (by simp)
    have h2 := ih (fun ob' hob => h ob' (by simp [hob]))
    simp only [ddataOk_cons, ddAfter, List.foldl_cons, h1.1, h1.2, Bool.true_and]
    exact h2

theorem dd_of_inert (d : Nat) (st : DLife) (ob : Obs) (h : inert ob = true) :
    ddChk d st ob = true ∧ ddNext d st ob = st := by
  cases ob <;> simp [inert] at h <;> simp [ddChk, ddNext]

theorem invD_quiet {d : Nat} {s s' : St} {st : DLife} {o : List Obs} (he : s'.epoch = s.epoch)
    (hc : s'.calls = s.calls) (hq : DevsQ s.devs s'.devs) (hi : ∀ ob ∈ o, inert ob = true) (hI : InvD d s st) :
    ddataOk d st o = true ∧ InvD d s' (ddAfter d st o) := by
  obtain ⟨h1, h2⟩ := dd_inert d st o (fun ob hob => dd_of_inert d st ob (hi ob hob))
  refine ⟨h1, hq.uidOk hI.1, ?_⟩
  rw [h2]
  intro y' hy' hn hp
  obtain ⟨y, hy, hcore⟩ := hq.rel hy'
  obtain ⟨-, hnm, hpc, -, -⟩ := core_eq hcore
  exact PD_mono (cs := []) hcore he (by simp [hc]) (hI.2 y hy (by rw [hnm]; exact hn) (by rw [hpc]; exact hp))

theorem invD_stim {d : Nat} {s s' : St} {st : DLife} {o : List Obs} (h : StimEff s s' o) (hI : InvD d s st) :
    ddataOk d st o = true ∧ InvD d s' (ddAfter d st o) := by
  rcases h with ⟨hn, hc, hq, hi⟩ | ⟨hn, hc, rfl, d', hd⟩ | ⟨hn, hd, id, ok, c, hcid, hres, hc, rfl⟩
  · exact invD_quiet hn.1 hc hq hi hI
  · refine ⟨by simp [ddataOk], ?_, ?_⟩
    · rw [hd]; exact hI.1.append _ rfl
    · simp only [ddAfter, List.foldl_nil]
      intro y hy hnm hp
      rw [hd] at hy
      simp only [List.mem_append, List.mem_singleton] at hy
      rcases hy with hy | rfl
      · exact PD_mono (cs := []) rfl hn.1 (by simp [hc]) (hI.2 y hy hnm hp)
      · refine ⟨by simp, by simp, by simp, by simp⟩
  · refine ⟨by simp [ddataOk], by rw [hd]; exact hI.1, ?_⟩
    simp only [ddAfter, List.foldl_cons, List.foldl_nil, ddNext]
    intro y hy hnm hp
    rw [hd] at hy
    obtain ⟨h1, h2, h3, h4⟩ := hI.2 y hy hnm hp
    have hne : ∀ {st : DLife}, st = .birthed →
        (if (st == DLife.pending id) = true then if ok = true then DLife.birthed else DLife.none else st) = .birthed := by
      intro st h; subst h; simp
    have hcr : ∀ id', callRes s' id' = if id' = id then some ok else callRes s id' := by
      intro id'
      have hlt : id < s.calls.length := by
        have := List.getElem?_eq_some_iff.1 hcid; exact this.1
      simp only [callRes, hc, List.getElem?_set]
      by_cases hid : id = id'
      · subst hid; simp [hlt]
      · have : ¬ id' = id := fun h => hid h.symm
        simp [hid, this]
    refine ⟨by rw [hn.1]; exact h1, fun hf he => hne (h2 hf (by rw [← hn.1]; exact he)), ?_, ?_⟩
    · intro id' ep hpc
      obtain ⟨h5, h6⟩ := h3 id' ep hpc
      rw [hn.1]
      refine ⟨h5, fun he => ?_⟩
      obtain ⟨h7, h8, h9⟩ := h6 he
      refine ⟨by simp [hc]; exact h7, ?_⟩
      unfold WB
      rw [hcr]
      by_cases hid : id' = id
      · subst hid
        have hnone : callRes s id' = none := by simp [callRes, hcid, hres]
        have := h8 hnone
        subst this
        cases ok <;> simp
      · simp only [hid, if_false]
        constructor
        · intro hx; have := h8 hx; subst this; simp [hid]
        · intro hx; exact hne (h9 hx)
    · intro ok' ep hpc
      obtain ⟨h5, h6⟩ := h4 ok' ep hpc
      rw [hn.1]
      exact ⟨h5, fun ho he => hne (h6 ho he)⟩

theorem invD_node {d : Nat} {s s' : St} {st : DLife} {o : List Obs} (h : NodeEff s s' o) (hI : InvD d s st) :
    ddataOk d st o = true ∧ InvD d s' (ddAfter d st o) := by
  rcases h with ⟨he, -, -, hc, hd, hi, -, -⟩ | ⟨-, -, -, -, he, hd, -, c, dc, hc, rfl⟩ |
    ⟨-, -, -, he, hc, hd, rfl⟩ | ⟨-, he, -, -, hd, -, c, bd, dc, hc, rfl⟩ | ⟨-, -, he, -, hc, hq, rfl⟩
  · exact invD_quiet he hc (.inl hd) hi hI
  · refine ⟨by simp [ddataOk], by rw [hd]; exact hI.1, ?_⟩
    simp only [ddAfter, List.foldl_cons, List.foldl_nil, ddNext]
    intro y hy hnm hp
    rw [hd] at hy
    exact PD_mono rfl he hc (hI.2 y hy hnm hp)
  · exact invD_quiet he hc (.inr (.inr ⟨_, hd⟩)) (by simp) hI
  · refine ⟨by simp [ddataOk], by rw [hd]; exact hI.1, ?_⟩
    intro y hy hnm hp
    rw [hd] at hy
    exact PD_stale he (hI.2 y hy hnm hp)
  · exact invD_quiet he hc hq (by simp) hI

theorem invD_user {d : Nat} {s s' : St} {st : DLife} {o : List Obs}
    (h : NodeSame s s' ∧ s'.devs = s.devs ∧ (∃ cs, s'.calls = s.calls ++ cs) ∧ ∀ ob ∈ o, UObs s ob)
    (hI : InvD d s st) : ddataOk d st o = true ∧ InvD d s' (ddAfter d st o) := by
  obtain ⟨hn, hd, ⟨cs, hc⟩, ho⟩ := h
  have hob : ∀ ob ∈ o, ddChk d st ob = true ∧ ddNext d st ob = st := by
    intro ob hm
    rcases ho ob hm with hi | ⟨id, k, sq, bd, t, dc, rfl, hk⟩ | ⟨id, d', x, sq, bd, t, dc, rfl, hf, hfl, hep, -, -⟩
    · exact dd_of_inert d st ob hi
    · cases k <;> simp [ddChk, ddNext]
    · simp only [ddChk, ddNext, and_true]
      by_cases hdd : d' = d
      · subst hdd
        obtain ⟨hx, hnm, hp⟩ := findDev_some hf
        have := (hI.2 x hx hnm hp).2.1 hfl hep
        simp [this]
      · simp [hdd]
  obtain ⟨h1, h2⟩ := dd_inert d st o hob
  refine ⟨h1, by rw [hd]; exact hI.1, ?_⟩
  rw [h2]
  intro y hy hnm hp
  rw [hd] at hy
  exact PD_mono rfl hn.1 hc (hI.2 y hy hnm hp)

/-- a step of a device of another name is invisible to the scanner of `d` -/
theorem devEff_other {d : Nat} {s s' : St} {x x' : Dev} {o : List Obs} {dec : Dec} (st : DLife)
    (he : DevEff s x s' x' o dec) (hxd : x.name ≠ d) :
    (∃ cs, s'.calls = s.calls ++ cs) ∧ ddataOk d st o = true ∧ ddAfter d st o = st := by
  rcases he with ⟨hc, hi, -⟩ | ⟨-, -, -, -, -, -, -, c, n, hc, -, rfl⟩ | ⟨-, -, -, -, -, -, -, c, n, hc, rfl⟩ |
    ⟨_, _, _, -, -, -, -, -, hc, rfl⟩ | ⟨_, _, -, -, -, hc, rfl⟩
  · exact ⟨⟨[], by simp [hc]⟩, dd_inert d st o (fun ob hob => dd_of_inert d st ob (hi ob hob))⟩
  · exact ⟨⟨_, hc⟩, by simp [ddataOk, hxd], by simp [ddAfter, ddNext, hxd]⟩
  · exact ⟨⟨_, hc⟩, by simp [ddataOk, hxd], by simp [ddAfter, ddNext, hxd]⟩
  · exact ⟨⟨[], by simp [hc]⟩, by simp [ddataOk], by simp [ddAfter]⟩
  · exact ⟨⟨[], by simp [hc]⟩, by simp [ddataOk], by simp [ddAfter]⟩

theorem devEff_self {s s' : St} {x x' : Dev} {o : List Obs} {dec : Dec} {st : DLife}
    (he : DevEff s x s' x' o dec) (hep : s'.epoch = s.epoch) (hP : PD s st x) :
    ddataOk x.name st o = true ∧ PD s' (ddAfter x.name st o) x' := by
  obtain ⟨h1, h2, h3, h4⟩ := hP
  rcases he with ⟨hc, hi, hfl, hxe, hpc⟩ | ⟨-, -, -, -, hfl, hxe, hpc, c, n, hc, hres, rfl⟩ |
    ⟨-, -, -, -, hfl, hxe, hpc, c, n, hc, rfl⟩ |
    ⟨id, ep, ok, hpc, hcr, hpc', hfl, hxe, hc, rfl⟩ | ⟨ok, ep, hpc, hpc', hif, hc, rfl⟩
  · obtain ⟨h5, h6⟩ := dd_inert x.name st o (fun ob hob => dd_of_inert x.name st ob (hi ob hob))
    refine ⟨h5, ?_⟩
    rw [h6]
    refine ⟨by omega, fun hf he => h2 (hfl hf) (by omega), ?_, ?_⟩
    · intro id ep hp; rcases hpc with h | h | h <;> simp [h] at hp
    · intro ok ep hp; rcases hpc with h | h | h <;> simp [h] at hp
  · refine ⟨by cases dec <;> simp [ddataOk], ?_⟩
    simp only [ddAfter, List.foldl_cons, List.foldl_nil, ddNext, beq_self_eq_true, if_true]
    refine ⟨by omega, fun hf => by simp [hfl] at hf, ?_, ?_⟩
    · intro id ep hp
      cases dec <;> simp [birthPc, hpc] at hp
      obtain ⟨rfl, rfl⟩ := hp
      refine ⟨by omega, fun _ => ⟨by simp [hc], ?_⟩⟩
      have : callRes s' s.calls.length = none := by simp [callRes, hc, hres, decRes]
      simp [WB, this]
    · intro ok ep hp
      cases dec <;> simp [birthPc, hpc] at hp
      · obtain ⟨rfl, rfl⟩ := hp; exact ⟨by omega, fun _ _ => rfl⟩
      · obtain ⟨rfl, rfl⟩ := hp; exact ⟨by omega, fun h => by simp at h⟩
  · refine ⟨by simp [ddataOk], ?_⟩
    simp only [ddAfter, List.foldl_cons, List.foldl_nil, ddNext, beq_self_eq_true, if_true]
    refine ⟨by omega, fun hf => by simp [hfl] at hf, ?_, ?_⟩
    · intro id ep hp; rcases hpc with h | h | ⟨_, _, h⟩ <;> simp [h] at hp
    · intro ok ep hp; rcases hpc with h | h | ⟨_, _, h⟩ <;> simp [h] at hp
  · refine ⟨by simp [ddataOk], ?_⟩
    simp only [ddAfter, List.foldl_nil]
    obtain ⟨h5, h6⟩ := h3 id ep hpc
    refine ⟨by omega, fun hf he => h2 (by rw [← hfl]; exact hf) (by omega), ?_, ?_⟩
    · intro id' ep' hp; simp [hpc'] at hp
    · intro ok' ep' hp
      simp [hpc'] at hp
      obtain ⟨rfl, rfl⟩ := hp
      refine ⟨by omega, fun hok he => ?_⟩
      subst hok
      exact (h6 (by omega)).2.2 hcr
  · refine ⟨by simp [ddataOk], ?_⟩
    simp only [ddAfter, List.foldl_nil]
    obtain ⟨h5, h6⟩ := h4 ok ep hpc
    cases ok with
    | true =>
      simp at hif
      refine ⟨by omega, fun _ he => h6 rfl (by omega), ?_, ?_⟩
      · intro id' ep' hp; simp [hpc'] at hp
      · intro ok' ep' hp; simp [hpc'] at hp
    | false =>
      simp at hif
      refine ⟨by omega, fun hf he => h2 (by rw [← hif.1]; exact hf) (by omega), ?_, ?_⟩
      · intro id' ep' hp; simp [hpc'] at hp
      · intro ok' ep' hp; simp [hpc'] at hp

theorem invD_dev {d : Nat} {s s' : St} {st : DLife} {o : List Obs} {u : Nat} {dec : Dec} {x x' : Dev}
    (hU : Uniq d s.devs) (hI : InvD d s st) (hx : findUid u s.devs = some x) (hlive : x.pc ≠ .done)
    (hd : s'.devs = setDev x' s.devs) (hu : x'.uid = x.uid) (hnm : x'.name = x.name) (hn : NodeSame s s')
    (he : DevEff s x s' x' o dec) : ddataOk d st o = true ∧ InvD d s' (ddAfter d st o) := by
  have hxm := (findUid_some hx).1
  by_cases hxd : x.name = d
  · subst hxd
    obtain ⟨h1, h2⟩ := devEff_self he hn.1 (hI.2 x hxm rfl hlive)
    refine ⟨h1, by rw [hd]; exact hI.1.setDev _, ?_⟩
    intro y hy hyn hyp
    rw [hd] at hy
    rcases mem_setDev _ _ _ hI.1.nodup hy with rfl | ⟨hy1, hy2⟩
    · exact h2
    · have := hU.eq hy1 hxm hyn rfl hyp hlive
      subst this
      exact absurd hu.symm hy2
  · obtain ⟨⟨cs, hc⟩, h1, h2⟩ := devEff_other st he hxd
    refine ⟨h1, by rw [hd]; exact hI.1.setDev _, ?_⟩
    rw [h2]
    intro y hy hyn hyp
    rw [hd] at hy
    rcases mem_setDev_weak _ _ _ hy with rfl | hy1
    · exact absurd (hnm.symm.trans hyn) hxd
    · exact PD_mono rfl hn.1 hc (hI.2 y hy1 hyn hyp)

theorem invD_step (d : Nat) (s : St) (st : DLife) (s' : St) (o : List Obs) (hU : Uniq d s.devs)
    (hI : InvD d s st) (he : StepEff s s' o) : ddataOk d st o = true ∧ InvD d s' (ddAfter d st o) := by
  rcases he with h | h | ⟨u, dec, x, x', h1, h2, h3, h4, h5, h6, h7⟩ | h
  · exact invD_stim h hI
  · exact invD_node h hI
  · exact invD_dev hU hI h1 h2 h3 h4 h5 h6 h7
  · exact invD_user h hI

theorem ddata_ordered (cd : Nat) (acts : List Act) (s : St) (tr : List Obs) (d : Nat)
    (h : runActs (init cd) acts = some (s, tr))
    (hone : ∀ pre, pre <+: acts → ∀ s1 t1, runActs (init cd) pre = some (s1, t1) →
        ((s1.devs.filter fun x => x.name == d && x.pc != .done).length ≤ 1)) :
    ddataOk d .none tr = true := by
  have hinit : InvD d (init cd) .none := ⟨by simp [init, UidOk], by simp [init]⟩
  exact (run_inv (fun s => Uniq d s.devs) (InvD d) (ddataOk d) (ddAfter d) (fun st a b => ddataOk_append d a b st)
    (fun st a b => by simp [ddAfter]) (fun st => by simp [ddataOk]) (fun st => rfl) (invD_step d)
    acts (init cd) .none s tr hinit hone h).1

/-! ### C04 DDEATH only after DBIRTH: the invariant -/

def PE (s : St) (last : Bool) (x : Dev) : Prop :=
  x.epoch ≤ s.epoch ∧
  (x.flag = true → x.epoch = s.epoch → live s = true → last = true) ∧
  (∀ id ep, x.pc = .waitBirth id ep → ep ≤ s.epoch ∧ (ep = s.epoch → live s = true → last = true)) ∧
  (∀ ok ep, x.pc = .birthDone ok ep → ep ≤ s.epoch ∧ (ok = true → ep = s.epoch → live s = true → last = true))

def InvE (d : Nat) (s : St) (last : Bool) : Prop :=
  UidOk s.devs ∧ (s.birthed = true → s.online = true) ∧ (active s.node = true → s.online = true) ∧
  ∀ x ∈ s.devs, x.name = d → x.pc ≠ .done → PE s last x

theorem PE_mono {s s' : St} {last : Bool} {y y' : Dev} (hcore : core y = core y')
    (he : s'.epoch = s.epoch) (hl : live s' = true → live s = true) (h : PE s last y) : PE s' last y' := by
  obtain ⟨-, -, hpc, hfl, hep⟩ := core_eq hcore
  obtain ⟨h1, h2, h3, h4⟩ := h
  rw [hfl, hep] at h2
  rw [hep] at h1
  rw [hpc] at h3 h4
  rw [← he] at h1 h2 h3 h4
  exact ⟨h1, fun a b c => h2 a b (hl c), fun id ep hp => ⟨(h3 id ep hp).1, fun a b => (h3 id ep hp).2 a (hl b)⟩,
    fun ok ep hp => ⟨(h4 ok ep hp).1, fun a b c => (h4 ok ep hp).2 a b (hl c)⟩⟩

theorem PE_dead {s s' : St} {last last' : Bool} {y y' : Dev} (hcore : core y = core y')
    (he : s'.epoch = s.epoch) (hl : live s' = false) (h : PE s last y) : PE s' last' y' := by
  obtain ⟨-, -, hpc, hfl, hep⟩ := core_eq hcore
  obtain ⟨h1, h2, h3, h4⟩ := h
  rw [hep] at h1
  rw [hpc] at h3 h4
  rw [← he] at h1 h3 h4
  exact ⟨h1, fun _ _ c => by simp [hl] at c, fun id ep hp => ⟨(h3 id ep hp).1, fun _ c => by simp [hl] at c⟩,
    fun ok ep hp => ⟨(h4 ok ep hp).1, fun _ _ c => by simp [hl] at c⟩⟩

theorem PE_stale {s s' : St} {last last' : Bool} {y : Dev} (he : s'.epoch = s.epoch + 1) (h : PE s last y) :
    PE s' last' y := by
  obtain ⟨h1, h2, h3, h4⟩ := h
  refine ⟨by omega, fun _ h => by omega, fun id ep hp => ⟨by have := (h3 id ep hp).1; omega, fun h => ?_⟩,
    fun ok ep hp => ⟨by have := (h4 ok ep hp).1; omega, fun _ h => ?_⟩⟩
  · have := (h3 id ep hp).1; omega
  · have := (h4 ok ep hp).1; omega

theorem de_inert (d : Nat) (last : Bool) (o : List Obs)
    (h : ∀ ob ∈ o, deChk d last ob = true ∧ deNext d last ob = last) :
    ddeathOk d last o = true ∧ deAfter d last o = last := by
  induction o with
  | nil => simp [ddeathOk, deAfter]
  | cons ob t ih =>
    have h1 := h ob (by simp)
    have h2 := ih (fun ob' hob => h ob' (by simp [hob]))
    simp only [ddeathOk_cons, deAfter, List.foldl_cons, h1.1, h1.2, Bool.true_and]
    exact h2

theorem de_of_inert (d : Nat) (last : Bool) (ob : Obs) (h : inert ob = true) :
    deChk d last ob = true ∧ deNext d last ob = last := by
  cases ob <;> simp [inert] at h <;> simp [deChk, deNext]

theorem isNb_active {n : NodePc} (h : isNb n = true) : active n = true := by
  cases n <;> simp [isNb] at h <;> simp [active]

theorem live_same {s s' : St} (h : NodeSame s s') : live s' = live s := by
  simp [live, h.2.1, h.2.2.2]

theorem invE_quiet {d : Nat} {s s' : St} {last : Bool} {o : List Obs} (he : s'.epoch = s.epoch)
    (hl : live s' = true → live s = true) (h1' : s'.birthed = true → s'.online = true)
    (h2' : active s'.node = true → s'.online = true)
    (hq : DevsQ s.devs s'.devs) (hi : ∀ ob ∈ o, inert ob = true) (hI : InvE d s last) :
    ddeathOk d last o = true ∧ InvE d s' (deAfter d last o) := by
  obtain ⟨h1, h2⟩ := de_inert d last o (fun ob hob => de_of_inert d last ob (hi ob hob))
  refine ⟨h1, hq.uidOk hI.1, h1', h2', ?_⟩
  rw [h2]
  intro y' hy' hn hp
  obtain ⟨y, hy, hcore⟩ := hq.rel hy'
  obtain ⟨-, hnm, hpc, -, -⟩ := core_eq hcore
  exact PE_mono hcore he hl (hI.2.2.2 y hy (by rw [hnm]; exact hn) (by rw [hpc]; exact hp))

theorem invE_same {d : Nat} {s s' : St} {last : Bool} {o : List Obs} (hn : NodeSame s s')
    (hq : DevsQ s.devs s'.devs) (hi : ∀ ob ∈ o, inert ob = true) (hI : InvE d s last) :
    ddeathOk d last o = true ∧ InvE d s' (deAfter d last o) :=
  invE_quiet hn.1 (by rw [live_same hn]; exact id) (by rw [hn.2.1, hn.2.2.1]; exact hI.2.1)
    (by rw [hn.2.2.2, hn.2.2.1]; exact hI.2.2.1) hq hi hI

theorem invE_stim {d : Nat} {s s' : St} {last : Bool} {o : List Obs} (h : StimEff s s' o) (hI : InvE d s last) :
    ddeathOk d last o = true ∧ InvE d s' (deAfter d last o) := by
  rcases h with ⟨hn, hc, hq, hi⟩ | ⟨hn, hc, rfl, d', hd⟩ | ⟨hn, hd, cid, ok, c, hcid, hres, hc, rfl⟩
  · exact invE_same hn hq hi hI
  · refine ⟨by simp [ddeathOk], ?_, by rw [hn.2.1, hn.2.2.1]; exact hI.2.1,
      by rw [hn.2.2.2, hn.2.2.1]; exact hI.2.2.1, ?_⟩
    · rw [hd]; exact hI.1.append _ rfl
    · simp only [deAfter, List.foldl_nil]
      intro y hy hnm hp
      rw [hd] at hy
      simp only [List.mem_append, List.mem_singleton] at hy
      rcases hy with hy | rfl
      · exact PE_mono rfl hn.1 (by rw [live_same hn]; exact id) (hI.2.2.2 y hy hnm hp)
      · refine ⟨by simp, by simp, by simp, by simp⟩
  · refine ⟨by simp [ddeathOk], by rw [hd]; exact hI.1, by rw [hn.2.1, hn.2.2.1]; exact hI.2.1,
      by rw [hn.2.2.2, hn.2.2.1]; exact hI.2.2.1, ?_⟩
    simp only [deAfter, List.foldl_cons, List.foldl_nil, deNext]
    intro y hy hnm hp
    rw [hd] at hy
    exact PE_mono rfl hn.1 (by rw [live_same hn]; exact id) (hI.2.2.2 y hy hnm hp)

theorem invE_node {d : Nat} {s s' : St} {last : Bool} {o : List Obs} (h : NodeEff s s' o) (hI : InvE d s last) :
    ddeathOk d last o = true ∧ InvE d s' (deAfter d last o) := by
  obtain ⟨hu, i1, i2, hP⟩ := hI
  rcases h with ⟨he, hb, hon, hc, hd, hi, hnb, hact⟩ | ⟨hon, hnode, hon', hb, he, hd, hnb, c, dc, hc, rfl⟩ |
    ⟨hnode, hon', hb', he, hc, hd, rfl⟩ | ⟨hact, he, hb', hon, hd, hnb, c, bd, dc, hc, rfl⟩ |
    ⟨hnb, hnode, he, hon, hc, hq, rfl⟩
  · refine invE_quiet he ?_ (by rw [hb, hon]; exact i1) ?_ (.inl hd) hi ⟨hu, i1, i2, hP⟩
    · simp only [live, hb, Bool.or_eq_true]
      rintro (h | h)
      · exact .inl h
      · exact .inr (hnb h)
    · intro h; rw [hon]; rcases hact h with h | h
      · exact i2 h
      · exact i1 h
  · have hbf : s.birthed = false := by
      cases hbb : s.birthed with
      | false => rfl
      | true => rw [i1 hbb] at hon; exact absurd hon (by simp)
    have hl : live s' = false := by simp [live, hb, hbf, hnb]
    refine ⟨by simp [ddeathOk], by rw [hd]; exact hu, fun _ => hon', fun _ => hon', ?_⟩
    intro y hy hnm hp
    rw [hd] at hy
    exact PE_dead rfl he hl (hP y hy hnm hp)
  · have hl : live s' = false := by simp [live, hb', hnode, isNb]
    refine ⟨by simp [ddeathOk], by rw [hd]; exact hu.pushAll _, by simp [hb'], by simp [hnode, active], ?_⟩
    intro y' hy' hnm hp
    have hq : DevsQ s.devs s'.devs := .inr (.inr ⟨_, hd⟩)
    obtain ⟨y, hy, hcore⟩ := hq.rel hy'
    obtain ⟨-, hnm', hpc, -, -⟩ := core_eq hcore
    exact PE_dead hcore he hl (hP y hy (by rw [hnm']; exact hnm) (by rw [hpc]; exact hp))
  · refine ⟨by simp [ddeathOk], by rw [hd]; exact hu, by simp [hb'], fun _ => by rw [hon]; exact i2 hact, ?_⟩
    intro y hy hnm hp
    rw [hd] at hy
    exact PE_stale he (hP y hy hnm hp)
  · have hon2 : s.online = true := i2 (isNb_active hnb)
    exact invE_quiet he (fun _ => by simp [live, hnb]) (fun _ => by rw [hon]; exact hon2)
      (by simp [hnode, active]) hq (by simp) ⟨hu, i1, i2, hP⟩

theorem invE_user {d : Nat} {s s' : St} {last : Bool} {o : List Obs}
    (h : NodeSame s s' ∧ s'.devs = s.devs ∧ (∃ cs, s'.calls = s.calls ++ cs) ∧ ∀ ob ∈ o, UObs s ob)
    (hI : InvE d s last) : ddeathOk d last o = true ∧ InvE d s' (deAfter d last o) := by
  obtain ⟨hn, hd, -, ho⟩ := h
  have hob : ∀ ob ∈ o, deChk d last ob = true ∧ deNext d last ob = last := by
    intro ob hm
    rcases ho ob hm with hi | ⟨id, k, sq, bd, t, dc, rfl, hk⟩ | ⟨id, d', x, sq, bd, t, dc, rfl, -⟩
    · exact de_of_inert d last ob hi
    · cases k <;> simp [deChk, deNext] at hk ⊢
    · simp [deChk, deNext]
  obtain ⟨h1, h2⟩ := de_inert d last o hob
  refine ⟨h1, by rw [hd]; exact hI.1, by rw [hn.2.1, hn.2.2.1]; exact hI.2.1,
      by rw [hn.2.2.2, hn.2.2.1]; exact hI.2.2.1, ?_⟩
  rw [h2]
  intro y hy hnm hp
  rw [hd] at hy
  exact PE_mono rfl hn.1 (by rw [live_same hn]; exact fun h => h) (hI.2.2.2 y hy hnm hp)

theorem devEff_other_e {d : Nat} {s s' : St} {x x' : Dev} {o : List Obs} {dec : Dec} (last : Bool)
    (he : DevEff s x s' x' o dec) (hxd : x.name ≠ d) :
    ddeathOk d last o = true ∧ deAfter d last o = last := by
  rcases he with ⟨hc, hi, -⟩ | ⟨-, -, -, -, -, -, -, c, n, hc, -, rfl⟩ | ⟨-, -, -, -, -, -, -, c, n, hc, rfl⟩ |
    ⟨_, _, _, -, -, -, -, -, hc, rfl⟩ | ⟨_, _, -, -, -, hc, rfl⟩
  · exact de_inert d last o (fun ob hob => de_of_inert d last ob (hi ob hob))
  · exact ⟨by simp [ddeathOk, hxd], by simp [deAfter, deNext, hxd]⟩
  · exact ⟨by simp [ddeathOk, hxd], by simp [deAfter, deNext, hxd]⟩
  · exact ⟨by simp [ddeathOk], by simp [deAfter]⟩
  · exact ⟨by simp [ddeathOk], by simp [deAfter]⟩

theorem devEff_self_e {s s' : St} {x x' : Dev} {o : List Obs} {dec : Dec} {last : Bool}
    (he : DevEff s x s' x' o dec) (hep : s'.epoch = s.epoch) (hl : live s' = live s) (hP : PE s last x) :
    ddeathOk x.name last o = true ∧ PE s' (deAfter x.name last o) x' := by
  obtain ⟨h1, h2, h3, h4⟩ := hP
  rcases he with ⟨hc, hi, hfl, hxe, hpc⟩ | ⟨-, -, -, -, hfl, hxe, hpc, c, n, hc, hres, rfl⟩ |
    ⟨hxf, hxep, -, hb, hfl, hxe, hpc, c, n, hc, rfl⟩ |
    ⟨id, ep, ok, hpc, hcr, hpc', hfl, hxe, hc, rfl⟩ | ⟨ok, ep, hpc, hpc', hif, hc, rfl⟩
  · obtain ⟨h5, h6⟩ := de_inert x.name last o (fun ob hob => de_of_inert x.name last ob (hi ob hob))
    refine ⟨h5, ?_⟩
    rw [h6]
    refine ⟨by omega, fun hf he hv => h2 (hfl hf) (by omega) (by rw [← hl]; exact hv), ?_, ?_⟩
    · intro id ep hp; rcases hpc with h | h | h <;> simp [h] at hp
    · intro ok ep hp; rcases hpc with h | h | h <;> simp [h] at hp
  · refine ⟨by simp [ddeathOk], ?_⟩
    simp only [deAfter, List.foldl_cons, List.foldl_nil, deNext, beq_self_eq_true, if_true]
    refine ⟨by omega, fun _ _ _ => rfl, ?_, ?_⟩
    · intro id ep hp
      cases dec <;> simp [birthPc, hpc] at hp
      obtain ⟨rfl, rfl⟩ := hp
      exact ⟨by omega, fun _ _ => rfl⟩
    · intro ok ep hp
      cases dec <;> simp [birthPc, hpc] at hp
      · obtain ⟨rfl, rfl⟩ := hp; exact ⟨by omega, fun _ _ _ => rfl⟩
      · obtain ⟨rfl, rfl⟩ := hp; exact ⟨by omega, fun _ _ _ => rfl⟩
  · have hlast : last = true := h2 hxf hxep (by simp [live, hb])
    refine ⟨by simp [ddeathOk, hlast], ?_⟩
    simp only [deAfter, List.foldl_cons, List.foldl_nil, deNext, beq_self_eq_true, if_true]
    refine ⟨by omega, fun hf => by simp [hfl] at hf, ?_, ?_⟩
    · intro id ep hp; rcases hpc with h | h | ⟨_, _, h⟩ <;> simp [h] at hp
    · intro ok ep hp; rcases hpc with h | h | ⟨_, _, h⟩ <;> simp [h] at hp
  · refine ⟨by simp [ddeathOk], ?_⟩
    simp only [deAfter, List.foldl_nil]
    obtain ⟨h5, h6⟩ := h3 id ep hpc
    refine ⟨by omega, fun hf he hv => h2 (by rw [← hfl]; exact hf) (by omega) (by rw [← hl]; exact hv), ?_, ?_⟩
    · intro id' ep' hp; simp [hpc'] at hp
    · intro ok' ep' hp
      simp [hpc'] at hp
      obtain ⟨rfl, rfl⟩ := hp
      exact ⟨by omega, fun _ he hv => h6 (by omega) (by rw [← hl]; exact hv)⟩
  · refine ⟨by simp [ddeathOk], ?_⟩
    simp only [deAfter, List.foldl_nil]
    obtain ⟨h5, h6⟩ := h4 ok ep hpc
    cases ok with
    | true =>
      simp at hif
      refine ⟨by omega, fun _ he hv => h6 rfl (by omega) (by rw [← hl]; exact hv), ?_, ?_⟩
      · intro id' ep' hp; simp [hpc'] at hp
      · intro ok' ep' hp; simp [hpc'] at hp
    | false =>
      simp at hif
      refine ⟨by omega, fun hf he hv => h2 (by rw [← hif.1]; exact hf) (by omega) (by rw [← hl]; exact hv), ?_, ?_⟩
      · intro id' ep' hp; simp [hpc'] at hp
      · intro ok' ep' hp; simp [hpc'] at hp

theorem invE_dev {d : Nat} {s s' : St} {last : Bool} {o : List Obs} {u : Nat} {dec : Dec} {x x' : Dev}
    (hU : Uniq d s.devs) (hI : InvE d s last) (hx : findUid u s.devs = some x) (hlive : x.pc ≠ .done)
    (hd : s'.devs = setDev x' s.devs) (hu : x'.uid = x.uid) (hnm : x'.name = x.name) (hn : NodeSame s s')
    (he : DevEff s x s' x' o dec) : ddeathOk d last o = true ∧ InvE d s' (deAfter d last o) := by
  have hxm := (findUid_some hx).1
  have i1 : s'.birthed = true → s'.online = true := by rw [hn.2.1, hn.2.2.1]; exact hI.2.1
  have i2 : active s'.node = true → s'.online = true := by rw [hn.2.2.2, hn.2.2.1]; exact hI.2.2.1
  by_cases hxd : x.name = d
  · subst hxd
    obtain ⟨h1, h2⟩ := devEff_self_e he hn.1 (live_same hn) (hI.2.2.2 x hxm rfl hlive)
    refine ⟨h1, by rw [hd]; exact hI.1.setDev _, i1, i2, ?_⟩
    intro y hy hyn hyp
    rw [hd] at hy
    rcases mem_setDev _ _ _ hI.1.nodup hy with rfl | ⟨hy1, hy2⟩
    · exact h2
    · have := hU.eq hy1 hxm hyn rfl hyp hlive
      subst this
      exact absurd hu.symm hy2
  · obtain ⟨h1, h2⟩ := devEff_other_e last he hxd
    refine ⟨h1, by rw [hd]; exact hI.1.setDev _, i1, i2, ?_⟩
    rw [h2]
    intro y hy hyn hyp
    rw [hd] at hy
    rcases mem_setDev_weak _ _ _ hy with rfl | hy1
    · exact absurd (hnm.symm.trans hyn) hxd
    · exact PE_mono rfl hn.1 (by rw [live_same hn]; exact fun h => h) (hI.2.2.2 y hy1 hyn hyp)

theorem invE_step (d : Nat) (s : St) (last : Bool) (s' : St) (o : List Obs) (hU : Uniq d s.devs)
    (hI : InvE d s last) (he : StepEff s s' o) : ddeathOk d last o = true ∧ InvE d s' (deAfter d last o) := by
  rcases he with h | h | ⟨u, dec, x, x', h1, h2, h3, h4, h5, h6, h7⟩ | h
  · exact invE_stim h hI
  · exact invE_node h hI
  · exact invE_dev hU hI h1 h2 h3 h4 h5 h6 h7
  · exact invE_user h hI

theorem ddeath_after_dbirth (cd : Nat) (acts : List Act) (s : St) (tr : List Obs) (d : Nat)
    (h : runActs (init cd) acts = some (s, tr))
    (hone : ∀ pre, pre <+: acts → ∀ s1 t1, runActs (init cd) pre = some (s1, t1) →
        ((s1.devs.filter fun x => x.name == d && x.pc != .done).length ≤ 1)) :
    ddeathOk d false tr = true := by
  have hinit : InvE d (init cd) false :=
    ⟨by simp [init, UidOk], by simp [init], by simp [init, active], by simp [init]⟩
  exact (run_inv (fun s => Uniq d s.devs) (InvE d) (ddeathOk d) (deAfter d) (fun st a b => ddeathOk_append d a b st)
    (fun st a b => by simp [deAfter]) (fun st => by simp [ddeathOk]) (fun st => rfl) (invE_step d)
    acts (init cd) false s tr hinit hone h).1

end Srad.Eon.P04
