/-
Helper lemmas for `Props/C08Sched.lean`: fault-free schedules of the closed loop.

Part N  fault-free runs: `settle`, its phases and the generalised rounds are fault-free schedules.
Part O  `UpTo`: "in sync up to what is in flight" is an invariant of every fault-free action; the
        host's effects along the way are exactly the data effects of the messages delivered.
Part P  commutation: a publish and a FIFO delivery commute (something is in flight); any interleaving
        of publishes with FIFO deliveries flushes to the same state as the publishes alone.
Part Q  the fuel of `drainNet` does not matter once it suffices; a generalised round is `round`.
-/
import SradModel.Proofs.LoopReach
import SradModel.Model.LoopSched

namespace Srad.Loop
open Srad Srad.Host

/-! ## Part O — in sync up to what is in flight -/

theorem runEnd_append (m : Msg) : ∀ (l : List Msg) (e : Nat), runEnd e (l ++ [m]) = (runEnd e l + 1) % 256 := by
  intro l
  induction l with
  | nil => intro e; rfl
  | cons a t ih => intro e; simp only [List.cons_append, runEnd]; exact ih _

theorem dataRun_append (bts sts : Nat) (names : List Nat) (m : Msg) : ∀ (l : List Msg) (e : Nat),
    dataRun bts sts names e l = true → dataRun bts sts names (runEnd e l) [m] = true →
    dataRun bts sts names e (l ++ [m]) = true := by
  intro l
  induction l with
  | nil => intro e _ h; exact h
  | cons a t ih =>
    intro e h1 h2
    cases a with
    | ndata seq ts id =>
      simp only [dataRun, Bool.and_eq_true] at h1
      simp only [List.cons_append, dataRun, Bool.and_eq_true]
      exact ⟨h1.1, ih _ h1.2 h2⟩
    | ddata dv seq ts id =>
      simp only [dataRun, Bool.and_eq_true] at h1
      simp only [List.cons_append, dataRun, Bool.and_eq_true]
      exact ⟨h1.1, ih _ h1.2 h2⟩
    | nbirth _ _ _ => simp [dataRun] at h1
    | ndeath _ => simp [dataRun] at h1
    | dbirth _ _ _ _ => simp [dataRun] at h1
    | ddeath _ _ _ _ => simp [dataRun] at h1

/-- in sync up to what is in flight (the `Prop` behind `Sys.syncUpTo`, with the configuration and
the node's flag discipline) -/
structure UpTo (d : Nat) (s : Sys) : Prop where
  cfg : s.cfg = Sys.fullCfg d
  nodeConn : s.nodeConn = true
  hostConn : s.hostConn = true
  online : s.node.online = true
  birthed : s.node.birthed = true
  flags : ∀ x ∈ s.node.devs, x.flag = true → x.enabled = true
  track : Track s.host s.host.reseq.next
  toNode : s.toNode = 0
  birthTs : s.host.birthTs ≤ s.clock
  staleTs : s.host.staleTs ≤ s.clock
  devs : ∀ dv ∈ s.node.enabledNames, findDev dv s.host.devices = some .birthed
  only : (s.host.devices.all fun p => decide (p.2 = Life.stale) || s.node.enabledNames.contains p.1) = true
  flight : dataRun s.host.birthTs s.host.staleTs s.node.enabledNames s.host.reseq.next s.toHost = true
  fin : runEnd s.host.reseq.next s.toHost = (s.node.seq + 1) % 256

/-- the ghost quantity that a fault-free step from an `UpTo` state extends by the data effects of
what the node hands over: effects so far, then the data effects of what is in flight -/
def pend (s : Sys) : List Eff := s.effs ++ s.toHost.filterMap Msg.dataEff

/-- what one step does, as seen from outside: `ms` handed over, all of it data, `pend` extended -/
def StepOut (s t : Sys) : Prop :=
  ∃ ms, t.sent = s.sent ++ ms ∧ pend t = pend s ++ ms.filterMap Msg.dataEff ∧
    ∀ m ∈ ms, (Msg.dataShape m).isSome = true

theorem StepOut.refl (s : Sys) : StepOut s s := ⟨[], by simp, by simp, by simp⟩

theorem StepOut.trans {a b c : Sys} (h1 : StepOut a b) (h2 : StepOut b c) : StepOut a c := by
  obtain ⟨x, x1, x2, x3⟩ := h1
  obtain ⟨y, y1, y2, y3⟩ := h2
  refine ⟨x ++ y, by rw [y1, x1, List.append_assoc], by rw [y2, x2, List.filterMap_append, List.append_assoc], ?_⟩
  intro m hm
  rcases List.mem_append.mp hm with h | h
  · exact x3 m h
  · exact y3 m h

theorem send_nil (s : Sys) : s.send s.node [] = s := by
  cases s; simp [Sys.send]

theorem tracked_next (h : St) (e : Nat) : (tracked h e).reseq.next = (e + 1) % 256 := rfl

/-- delivering the oldest message in flight from an `UpTo` state -/
theorem UpTo.deliver {d : Nat} {s : Sys} (h : UpTo d s) :
    UpTo d (s.step (.deliver 0)) ∧ StepOut s (s.step (.deliver 0)) := by
  cases hq : s.toHost with
  | nil =>
    have : s.step (.deliver 0) = s := by simp [Sys.step, hq]
    rw [this]; exact ⟨h, StepOut.refl s⟩
  | cons m t =>
    rw [step_deliver0 s m t h.hostConn hq]
    have hrun := h.flight
    have hfin := h.fin
    rw [hq] at hrun hfin
    have key : ∀ (eff : Eff), Msg.dataEff m = some eff →
        step (Sys.fullCfg d) s.host m.toIn s.clock s.clock = (tracked s.host s.host.reseq.next, [eff]) →
        dataRun s.host.birthTs s.host.staleTs s.node.enabledNames ((s.host.reseq.next + 1) % 256) t = true →
        UpTo d (({ s with toHost := t } : Sys).hostStep m.toIn) ∧
          StepOut s (({ s with toHost := t } : Sys).hostStep m.toIn) := by
      intro eff heff hstep hrun'
      have hne : eff ≠ Eff.ncmd := by
        cases m <;> simp [Msg.dataEff] at heff <;> subst heff <;> simp
      have hS : ({ s with toHost := t } : Sys).hostStep m.toIn =
          { s with toHost := t, host := tracked s.host s.host.reseq.next, effs := s.effs ++ [eff] } := by
        simp only [Sys.hostStep, h.cfg, hstep, h.hostConn, if_true]
        have : List.count Eff.ncmd [eff] = 0 := by
          simp [hne]
        simp [this]
      rw [hS]
      refine ⟨⟨h.cfg, h.nodeConn, h.hostConn, h.online, h.birthed, h.flags,
        tracked_track _ _ h.track, h.toNode, h.birthTs, h.staleTs, h.devs, h.only, hrun', ?_⟩, ?_⟩
      · simp only [runEnd] at hfin
        exact hfin
      · refine ⟨[], by simp, ?_, by simp⟩
        simp only [pend, hq, List.filterMap_cons, heff, List.filterMap_nil, List.append_nil,
          List.append_assoc, List.singleton_append]
    cases m with
    | ndata seq ts id =>
      simp only [dataRun, Bool.and_eq_true, decide_eq_true_eq] at hrun
      obtain ⟨⟨⟨h1, h2⟩, h3⟩, h4⟩ := hrun
      subst h1
      exact key (.nodeData id) rfl (step_track_ndata d s.host _ ts id s.clock h.track h2 h3) h4
    | ddata dv seq ts id =>
      simp only [dataRun, Bool.and_eq_true, decide_eq_true_eq] at hrun
      obtain ⟨⟨⟨⟨h0, h1⟩, h2⟩, h3⟩, h4⟩ := hrun
      subst h1
      have hmem : dv ∈ s.node.enabledNames := by simpa using h0
      exact key (.devData dv id) rfl
        (step_track_ddata_ok d s.host _ ts dv id s.clock h.track h2 h3 (h.devs dv hmem)) h4
    | nbirth _ _ _ => simp [dataRun] at hrun
    | ndeath _ => simp [dataRun] at hrun
    | dbirth _ _ _ _ => simp [dataRun] at hrun
    | ddeath _ _ _ _ => simp [dataRun] at hrun

/-- the node hands over one data message `m`, numbered with its next sequence number and stamped
with the clock, from an `UpTo` state -/
theorem UpTo.sendData {d : Nat} {s : Sys} (h : UpTo d s) (m : Msg)
    (hm : dataRun s.host.birthTs s.host.staleTs s.node.enabledNames ((s.node.seq + 1) % 256) [m] = true) :
    let n' : Node := { s.node with seq := (s.node.seq + 1) % 256, nextId := s.node.nextId + 1 }
    UpTo d (s.send n' [m]) ∧ StepOut s (s.send n' [m]) := by
  intro n'
  have hsh : (Msg.dataShape m).isSome = true := by
    cases m <;> simp [dataRun] at hm <;> rfl
  refine ⟨⟨h.cfg, h.nodeConn, h.hostConn, h.online, h.birthed, h.flags, h.track, h.toNode, h.birthTs, h.staleTs,
    h.devs, h.only, ?_, ?_⟩, ?_⟩
  · show dataRun _ _ _ _ (s.toHost ++ [m]) = true
    refine dataRun_append _ _ _ m _ _ h.flight ?_
    show dataRun s.host.birthTs s.host.staleTs s.node.enabledNames (runEnd s.host.reseq.next s.toHost) [m] = true
    rw [h.fin]; exact hm
  · show runEnd _ (s.toHost ++ [m]) = _
    rw [runEnd_append]
    show (runEnd s.host.reseq.next s.toHost + 1) % 256 = ((s.node.seq + 1) % 256 + 1) % 256
    rw [h.fin]
  · refine ⟨[m], rfl, ?_, ?_⟩
    · simp only [pend, Sys.send, List.filterMap_append, List.append_assoc]
    · intro x hx
      rw [List.mem_singleton.mp hx]; exact hsh

theorem UpTo.publishNode {d : Nat} {s : Sys} (h : UpTo d s) :
    UpTo d (s.step .publishNode) ∧ StepOut s (s.step .publishNode) := by
  have hp := pubNode_eq s.clock s.node h.online h.birthed
  have : s.step .publishNode = s.send { s.node with seq := (s.node.seq + 1) % 256, nextId := s.node.nextId + 1 }
      [.ndata ((s.node.seq + 1) % 256) s.clock s.node.nextId] := by
    simp only [Sys.step, hp]
  rw [this]
  refine h.sendData _ ?_
  simp [dataRun, h.birthTs, h.staleTs]

theorem find_name (l : List Dev) (dv : Nat) (x : Dev) (hx : l.find? (fun y => y.name == dv) = some x) :
    x ∈ l ∧ x.name = dv := by
  refine ⟨List.mem_of_find?_eq_some hx, ?_⟩
  have := List.find?_some hx
  simpa using this

theorem UpTo.publishDev {d : Nat} {s : Sys} (h : UpTo d s) (dv : Nat) :
    UpTo d (s.step (.publishDev dv)) ∧ StepOut s (s.step (.publishDev dv)) := by
  have hnoop : s.node.pubDev dv s.clock = (s.node, []) →
      UpTo d (s.step (.publishDev dv)) ∧ StepOut s (s.step (.publishDev dv)) := by
    intro he
    have : s.step (.publishDev dv) = s := by simp only [Sys.step, he]; exact send_nil s
    rw [this]; exact ⟨h, StepOut.refl s⟩
  cases hf : s.node.findDev dv with
  | none => exact hnoop (by simp [Node.pubDev, hf])
  | some x =>
    cases hfl : x.flag with
    | false => exact hnoop (by simp [Node.pubDev, hf, hfl])
    | true =>
      have hp : s.node.pubDev dv s.clock =
          ({ s.node with seq := (s.node.seq + 1) % 256, nextId := s.node.nextId + 1 },
           [.ddata dv ((s.node.seq + 1) % 256) s.clock s.node.nextId]) := by
        simp [Node.pubDev, hf, hfl, nextSeq_gate s.node h.online h.birthed]
      have : s.step (.publishDev dv) =
          s.send { s.node with seq := (s.node.seq + 1) % 256, nextId := s.node.nextId + 1 }
            [.ddata dv ((s.node.seq + 1) % 256) s.clock s.node.nextId] := by
        simp only [Sys.step, hp]
      rw [this]
      refine h.sendData _ ?_
      obtain ⟨hx1, hx2⟩ := find_name _ _ _ hf
      have hen : dv ∈ s.node.enabledNames := by
        simp only [Node.enabledNames, List.mem_map, List.mem_filter]
        exact ⟨x, ⟨hx1, h.flags x hx1 hfl⟩, hx2⟩
      simp [dataRun, h.birthTs, h.staleTs, hen]

theorem UpTo.advance {d : Nat} {s : Sys} (h : UpTo d s) (k : Nat) :
    UpTo d (s.step (.advance k)) ∧ StepOut s (s.step (.advance k)) := by
  rw [advance_idle s k h.track.timer]
  refine ⟨⟨h.cfg, h.nodeConn, h.hostConn, h.online, h.birthed, h.flags, h.track, h.toNode, ?_, ?_,
    h.devs, h.only, h.flight, h.fin⟩, ⟨[], by simp, by simp [pend], by simp⟩⟩
  · have := h.birthTs; simp only; omega
  · have := h.staleTs; simp only; omega

theorem UpTo.noop {d : Nat} {s : Sys} (h : UpTo d s) (a : Action)
    (ha : a = .deliverNcmd ∨ a = .hostConnect ∨ a = .nodeConnect) : s.step a = s := by
  rcases ha with rfl | rfl | rfl
  · simp [Sys.step, h.toNode]
  · have := h.hostConn
    cases s; simp_all [Sys.step]
  · simp [Sys.step, h.nodeConn]

/-- **every fault-free action preserves `UpTo`** -/
theorem UpTo.step {d : Nat} {s : Sys} (h : UpTo d s) (a : Action) (ha : a.ff = true) :
    UpTo d (s.step a) ∧ StepOut s (s.step a) := by
  cases a with
  | publishNode => exact h.publishNode
  | publishDev dv => exact h.publishDev dv
  | deliver k =>
    cases k with
    | zero => exact h.deliver
    | succ k => simp [Action.ff] at ha
  | advance k => exact h.advance k
  | deliverNcmd => rw [h.noop _ (Or.inl rfl)]; exact ⟨h, StepOut.refl s⟩
  | hostConnect => rw [h.noop _ (Or.inr (Or.inl rfl))]; exact ⟨h, StepOut.refl s⟩
  | nodeConnect => rw [h.noop _ (Or.inr (Or.inr rfl))]; exact ⟨h, StepOut.refl s⟩
  | enable _ => simp [Action.ff] at ha
  | disable _ => simp [Action.ff] at ha
  | manualRebirth => simp [Action.ff] at ha
  | duplicate _ => simp [Action.ff] at ha
  | drop _ => simp [Action.ff] at ha
  | dropNcmd => simp [Action.ff] at ha
  | nodeDisconnect => simp [Action.ff] at ha
  | hostDisconnect => simp [Action.ff] at ha

theorem UpTo.run {d : Nat} (σ : List Action) : ∀ {s : Sys}, UpTo d s → FaultFree σ = true →
    UpTo d (s.run σ) ∧ StepOut s (s.run σ) := by
  induction σ with
  | nil => intro s h _; exact ⟨h, StepOut.refl s⟩
  | cons a t ih =>
    intro s h hff
    simp only [FaultFree, List.all_cons, Bool.and_eq_true] at hff
    obtain ⟨h1, o1⟩ := h.step a hff.1
    obtain ⟨h2, o2⟩ := ih h1 hff.2
    exact ⟨h2, o1.trans o2⟩

/-! ### flushing -/

theorem deliver0_toHost (s : Sys) : (s.step (.deliver 0)).toHost = s.toHost.drop 1 := by
  cases hq : s.toHost with
  | nil => simp [Sys.step, hq]
  | cons m t =>
    simp only [Sys.step, hq, List.getElem?_cons_zero, List.eraseIdx_cons_zero, Sys.recv, List.drop_one,
      List.tail_cons]
    split <;> rfl

theorem deliverAll_toHost : ∀ (k : Nat) (s : Sys), (Sys.deliverAll k s).toHost = s.toHost.drop k := by
  intro k
  induction k with
  | zero => intro s; rfl
  | succ k ih =>
    intro s
    simp only [Sys.deliverAll]
    rw [ih, deliver0_toHost, List.drop_drop]
    congr 1; omega

theorem flush_toHost (s : Sys) : (Sys.flush s).toHost = [] := by
  unfold Sys.flush
  rw [deliverAll_toHost]; simp

theorem deliverAll_run (k : Nat) : ∀ s : Sys, Sys.deliverAll k s = s.run (List.replicate k (.deliver 0)) := by
  induction k with
  | zero => intro s; rfl
  | succ k ih => intro s; simp only [Sys.deliverAll, List.replicate_succ, Sys.run]; exact ih _

theorem ff_replicate_deliver (k : Nat) : FaultFree (List.replicate k (.deliver 0)) = true := by
  simp [FaultFree, Action.ff]

/-- `drain` is `flush` when flushing leaves no NCMD in flight -/
theorem drain_eq_flush (s : Sys) (h : (Sys.flush s).toNode = 0) : Sys.drain s = Sys.flush s := by
  unfold Sys.drain
  cases hf : s.toNode + s.toHost.length with
  | zero => rfl
  | succ f =>
    show (if (Sys.flush s).toNode = 0 then Sys.flush s else _) = _
    rw [if_pos h]

/-- flushing an `UpTo` state: `UpTo` with nothing in flight; the effects are exactly `pend` -/
theorem UpTo.flush {d : Nat} {s : Sys} (h : UpTo d s) :
    UpTo d (Sys.flush s) ∧ (Sys.flush s).toHost = [] ∧ (Sys.flush s).effs = pend s ∧
    (Sys.flush s).sent = s.sent ∧ Sys.drain s = Sys.flush s := by
  have hr : Sys.flush s = s.run (List.replicate s.toHost.length (.deliver 0)) := deliverAll_run _ s
  obtain ⟨h1, ms, o1, o2, _⟩ := h.run (List.replicate s.toHost.length (.deliver 0)) (ff_replicate_deliver _)
  rw [← hr] at h1 o1 o2
  have he := flush_toHost s
  -- nothing was handed over: `sent` only grows by node operations, and `deliver` is none
  have hsent : ∀ (k : Nat) (s : Sys), (Sys.deliverAll k s).sent = s.sent := by
    intro k
    induction k with
    | zero => intro s; rfl
    | succ k ih =>
      intro s
      simp only [Sys.deliverAll]
      rw [ih]
      simp only [Sys.step]
      split
      · rfl
      · simp only [Sys.recv]; split <;> rfl
  have hs : (Sys.flush s).sent = s.sent := hsent _ s
  have hms : ms = [] := by
    rw [hs] at o1
    have := congrArg List.length o1
    simpa using this
  subst hms
  refine ⟨h1, he, ?_, hs, drain_eq_flush s h1.toNode⟩
  simp only [pend, he, List.filterMap_nil, List.append_nil] at o2
  exact o2

/-! ### `UpTo` and the executable predicates -/

theorem devsAll_of (n : Node) (D : List (Nat × Life))
    (h : ∀ dv ∈ n.enabledNames, findDev dv D = some .birthed) :
    (n.devs.all fun x => !x.enabled || decide (findDev x.name D = some Life.birthed)) = true := by
  rw [List.all_eq_true]
  intro x hx
  cases hen : x.enabled with
  | false => rfl
  | true =>
    have : x.name ∈ n.enabledNames := by
      simp only [Node.enabledNames, List.mem_map, List.mem_filter]
      exact ⟨x, ⟨hx, hen⟩, rfl⟩
    simp [h x.name this]

theorem devsAll_to (n : Node) (D : List (Nat × Life))
    (h : (n.devs.all fun x => !x.enabled || decide (findDev x.name D = some Life.birthed)) = true) :
    ∀ dv ∈ n.enabledNames, findDev dv D = some .birthed := by
  intro dv hd
  simp only [Node.enabledNames, List.mem_map, List.mem_filter] at hd
  obtain ⟨x, ⟨hx, hen⟩, rfl⟩ := hd
  rw [List.all_eq_true] at h
  have := h x hx
  simpa [hen] using this

theorem flagsOk_to (s : Sys) (h : Sys.flagsOk s = true) : ∀ x ∈ s.node.devs, x.flag = true → x.enabled = true := by
  intro x hx hf
  simp only [Sys.flagsOk, List.all_eq_true] at h
  have := h x hx
  simpa [hf] using this

theorem reseq_eta (r : Reseq.St (Nat × RMsg)) (h1 : r.buf = []) (h2 : r.mode = .good) :
    r = { buf := [], next := r.next, mode := .good } := by
  cases r; simp_all

/-- the executable predicate implies the `Prop` (given the configuration and the flag discipline) -/
theorem upTo_of_b (d : Nat) (s : Sys) (hcfg : s.cfg = Sys.fullCfg d) (hfl : Sys.flagsOk s = true)
    (h : Sys.syncUpTo s = true) : UpTo d s := by
  simp only [Sys.syncUpTo, Bool.and_eq_true, decide_eq_true_eq] at h
  obtain ⟨⟨⟨⟨⟨⟨⟨⟨⟨⟨⟨⟨⟨⟨a1, a2⟩, a3⟩, a4⟩, a5⟩, a6⟩, a7⟩, a8⟩, a9⟩, a10⟩, a11⟩, a12⟩, a13⟩, a14⟩, a15⟩ := h
  exact ⟨hcfg, a1, a2, a3, a4, flagsOk_to s hfl, ⟨a5, reseq_eta _ a6 a7, a8⟩, a11, a12, a13,
    devsAll_to _ _ a9, a10, a14, a15⟩

theorem UpTo.b {d : Nat} {s : Sys} (h : UpTo d s) : Sys.syncUpTo s = true := by
  have hr := h.track.reseq
  have h6 : s.host.reseq.buf = [] := by rw [hr]
  have h7 : s.host.reseq.mode = .good := by rw [hr]
  simp only [Sys.syncUpTo, Bool.and_eq_true, decide_eq_true_eq]
  exact ⟨⟨⟨⟨⟨⟨⟨⟨⟨⟨⟨⟨⟨⟨h.nodeConn, h.hostConn⟩, h.online⟩, h.birthed⟩, h.track.life⟩, h6⟩, h7⟩, h.track.timer⟩,
    devsAll_of _ _ h.devs⟩, h.only⟩, h.toNode⟩, h.birthTs⟩, h.staleTs⟩, h.flight⟩, h.fin⟩

theorem UpTo.flagsB {d : Nat} {s : Sys} (h : UpTo d s) : Sys.flagsOk s = true := by
  simp only [Sys.flagsOk, List.all_eq_true]
  intro x hx
  cases hf : x.flag with
  | false => rfl
  | true => simp [h.flags x hx hf]

/-- an in-sync view with coherent stamps is in sync up to (nothing) in flight -/
theorem syncUpTo_of_view (s : Sys) (hco : Coherent s.host s.clock) (h : Sys.InSyncView s = true) :
    Sys.syncUpTo s = true := by
  simp only [Sys.InSyncView, Bool.and_eq_true, decide_eq_true_eq, List.isEmpty_iff] at h
  obtain ⟨⟨⟨⟨⟨⟨⟨⟨⟨⟨a1, a2⟩, a3⟩, a4⟩, a5⟩, a6⟩, a7⟩, a8⟩, a9⟩, a10⟩, a11⟩ := h
  simp only [Sys.syncUpTo, Bool.and_eq_true, decide_eq_true_eq]
  refine ⟨⟨⟨⟨⟨⟨⟨⟨⟨⟨⟨⟨⟨⟨a1, a2⟩, a3⟩, a4⟩, a5⟩, by rw [a6]⟩, by rw [a6]⟩, a7⟩, a8⟩, a9⟩, a11⟩, hco.1⟩, hco.2⟩, ?_⟩, ?_⟩
  · rw [a10]; rfl
  · rw [a10, a6]; rfl

/-- with nothing in flight, in sync up to what is in flight is the in-sync view -/
theorem UpTo.view {d : Nat} {s : Sys} (h : UpTo d s) (he : s.toHost = []) : Sys.InSyncView s = true := by
  have hfin := h.fin
  rw [he] at hfin
  simp only [runEnd] at hfin
  have hr := h.track.reseq
  rw [hfin] at hr
  simp only [Sys.InSyncView, Bool.and_eq_true, decide_eq_true_eq, List.isEmpty_iff]
  exact ⟨⟨⟨⟨⟨⟨⟨⟨⟨⟨h.nodeConn, h.hostConn⟩, h.online⟩, h.birthed⟩, h.track.life⟩, hr⟩, h.track.timer⟩,
    devsAll_of _ _ h.devs⟩, h.only⟩, he⟩, h.toNode⟩

theorem inSync_split (s : Sys) (last : List Eff) :
    Sys.InSync s last = (Sys.InSyncView s && Sys.lastRoundIs s last) := rfl

/-! ## Part P — publishes and FIFO deliveries commute -/

theorem deliver0_empty (s : Sys) (h : s.toHost = []) : s.step (.deliver 0) = s := by simp [Sys.step, h]

/-- a node operation that hands messages over commutes with the delivery of the oldest message in
flight (the operation reads the node and the clock only; the delivery leaves both alone) -/
theorem send_deliver_comm (f : Node → Nat → Node × List Msg) (s : Sys) (hne : s.toHost ≠ []) :
    (s.send (f s.node s.clock).1 (f s.node s.clock).2).step (.deliver 0) =
      (s.step (.deliver 0)).send (f (s.step (.deliver 0)).node (s.step (.deliver 0)).clock).1
        (f (s.step (.deliver 0)).node (s.step (.deliver 0)).clock).2 := by
  cases hq : s.toHost with
  | nil => exact absurd hq hne
  | cons m t =>
    cases hc : s.hostConn <;>
    simp [Sys.step, Sys.send, hq, Sys.recv, hc, Sys.hostStep]

theorem pub_deliver_comm (s : Sys) (a : Action) (ha : a.isPub = true) (hne : s.toHost ≠ []) :
    (s.step a).step (.deliver 0) = (s.step (.deliver 0)).step a := by
  cases a with
  | publishNode => exact send_deliver_comm (fun n c => n.pubNode c) s hne
  | publishDev dv => exact send_deliver_comm (fun n c => n.pubDev dv c) s hne
  | _ => simp [Action.isPub] at ha

theorem flush_deliver0 (s : Sys) : Sys.flush (s.step (.deliver 0)) = Sys.flush s := by
  cases hq : s.toHost with
  | nil => rw [deliver0_empty s hq]
  | cons m t =>
    have h1 : (s.step (.deliver 0)).toHost = t := by rw [deliver0_toHost, hq]; rfl
    unfold Sys.flush
    rw [h1, hq]
    rfl

theorem flush_deliver0_pubs (π : List Action) : ∀ s : Sys, π.all Action.isPub = true →
    Sys.flush ((s.step (.deliver 0)).run π) = Sys.flush (s.run π) := by
  induction π with
  | nil => intro s _; exact flush_deliver0 s
  | cons a t ih =>
    intro s hall
    simp only [List.all_cons, Bool.and_eq_true] at hall
    by_cases he : s.toHost = []
    · rw [deliver0_empty s he]
    · simp only [Sys.run]
      rw [← pub_deliver_comm s a hall.1 he]
      exact ih _ hall.2

theorem isPub_of_pubDel (a : Action) (h : a.isPubDel = true) : a.isPub = true ∨ a = .deliver 0 := by
  cases a with
  | publishNode => exact Or.inl rfl
  | publishDev _ => exact Or.inl rfl
  | deliver k =>
    cases k with
    | zero => exact Or.inr rfl
    | succ k => simp [Action.isPubDel] at h
  | _ => simp [Action.isPubDel] at h

/-- **any interleaving of publishes with FIFO deliveries flushes to the same state as the publishes
alone** (the deliveries moved behind all the publishes) -/
theorem flush_interleave (σ : List Action) : ∀ s : Sys, σ.all Action.isPubDel = true →
    Sys.flush (s.run σ) = Sys.flush (s.run (σ.filter Action.isPub)) := by
  induction σ with
  | nil => intro s _; rfl
  | cons a t ih =>
    intro s hall
    simp only [List.all_cons, Bool.and_eq_true] at hall
    rcases isPub_of_pubDel a hall.1 with hp | rfl
    · simp only [List.filter_cons, hp, if_true, Sys.run]
      exact ih _ hall.2
    · have hnp : Action.isPub (.deliver 0) = false := rfl
      simp only [List.filter_cons, hnp, Bool.false_eq_true, if_false, Sys.run]
      rw [ih _ hall.2]
      exact flush_deliver0_pubs _ s (by simp [List.all_filter])

/-- what publishes and FIFO deliveries leave alone, and how much can be in flight afterwards -/
theorem pubDel_frame (σ : List Action) : ∀ s : Sys, σ.all Action.isPubDel = true →
    (s.run σ).hostConn = s.hostConn ∧ (s.run σ).cfg = s.cfg ∧ (s.run σ).clock = s.clock := by
  induction σ with
  | nil => intro s _; exact ⟨rfl, rfl, rfl⟩
  | cons a t ih =>
    intro s hall
    simp only [List.all_cons, Bool.and_eq_true] at hall
    obtain ⟨i1, i2, i3⟩ := ih (s.step a) hall.2
    have : (s.step a).hostConn = s.hostConn ∧ (s.step a).cfg = s.cfg ∧ (s.step a).clock = s.clock := by
      rcases isPub_of_pubDel a hall.1 with hp | rfl
      · cases a with
        | publishNode => exact ⟨rfl, rfl, rfl⟩
        | publishDev _ => exact ⟨rfl, rfl, rfl⟩
        | _ => simp [Action.isPub] at hp
      · cases hq : s.toHost with
        | nil => rw [deliver0_empty s hq]; exact ⟨rfl, rfl, rfl⟩
        | cons m t =>
          cases hc : s.hostConn <;> simp [Sys.step, hq, Sys.recv, hc, Sys.hostStep]
    simp only [Sys.run]
    exact ⟨i1.trans this.1, i2.trans this.2.1, i3.trans this.2.2⟩

/-- flushing raises the number of NCMDs in flight by at most one per message delivered -/
theorem flush_toNode_le (s : Sys) : (Sys.flush s).toNode ≤ s.toNode + s.toHost.length := by
  cases hc : s.hostConn with
  | true =>
    unfold Sys.flush
    rw [deliverAll_eq s.toHost s hc rfl]
    have := feed_count_le s.cfg s.clock s.toHost s.host
    simp only; omega
  | false =>
    have : ∀ (k : Nat) (s : Sys), s.hostConn = false → (Sys.deliverAll k s).toNode = s.toNode := by
      intro k
      induction k with
      | zero => intro s _; rfl
      | succ k ih =>
        intro s hc
        simp only [Sys.deliverAll]
        have h1 : (s.step (.deliver 0)).hostConn = false ∧ (s.step (.deliver 0)).toNode = s.toNode := by
          cases hq : s.toHost with
          | nil => rw [deliver0_empty s hq]; exact ⟨hc, rfl⟩
          | cons m t => simp [Sys.step, hq, Sys.recv, hc]
        rw [ih _ h1.1, h1.2]
    unfold Sys.flush
    rw [this _ s hc]; omega

/-! ## Part Q — the fuel of `drainNet` -/

theorem flush_flush (s : Sys) : Sys.flush (Sys.flush s) = Sys.flush s := by
  have : (Sys.flush s).toHost = [] := flush_toHost s
  show Sys.deliverAll (Sys.flush s).toHost.length (Sys.flush s) = _
  rw [this]; rfl

/-- `drainNet` looks at its argument only through `flush` -/
theorem drainNet_congr (f : Nat) (t t' : Sys) (h : Sys.flush t = Sys.flush t') :
    Sys.drainNet f t = Sys.drainNet f t' := by
  cases f with
  | zero => exact h
  | succ f =>
    show (if (Sys.flush t).toNode = 0 then Sys.flush t else
      Sys.drainNet f (((Sys.flush t).step (.advance 1)).step .deliverNcmd)) = 
      (if (Sys.flush t').toNode = 0 then Sys.flush t' else
      Sys.drainNet f (((Sys.flush t').step (.advance 1)).step .deliverNcmd))
    rw [h]

/-- once the loop has emptied the NCMD queue, more fuel changes nothing -/
theorem drainNet_mono : ∀ (f : Nat) (t : Sys), (Sys.drainNet f t).toNode = 0 → ∀ f', f ≤ f' →
    Sys.drainNet f' t = Sys.drainNet f t := by
  intro f
  induction f with
  | zero =>
    intro t h0 f' _
    cases f' with
    | zero => rfl
    | succ f' =>
      have h0' : (Sys.flush t).toNode = 0 := h0
      show (if (Sys.flush t).toNode = 0 then Sys.flush t else _) = Sys.flush t
      rw [if_pos h0']
  | succ f ih =>
    intro t h0 f' hle
    obtain ⟨f'', rfl⟩ : ∃ f'', f' = f'' + 1 := ⟨f' - 1, by omega⟩
    by_cases hz : (Sys.flush t).toNode = 0
    · show (if (Sys.flush t).toNode = 0 then Sys.flush t else _) =
        (if (Sys.flush t).toNode = 0 then Sys.flush t else _)
      rw [if_pos hz, if_pos hz]
    · have e1 : ∀ g, Sys.drainNet (g + 1) t =
          Sys.drainNet g (((Sys.flush t).step (.advance 1)).step .deliverNcmd) := by
        intro g
        show (if (Sys.flush t).toNode = 0 then Sys.flush t else _) = _
        rw [if_neg hz]; rfl
      rw [e1] at h0 ⊢
      rw [e1]
      exact ih _ h0 f'' (by omega)

/-- two states that flush to the same quiet state `D` from which every rebirth cycle removes one
NCMD: `drain` gives the same result from both, whatever fuel each computes -/
theorem drain_congr (d : Nat) (t t' : Sys) (h : Sys.flush t' = Sys.flush t)
    (hq : Quiet d (Sys.flush t)) (hpre : (Sys.flush t).toNode ≠ 0 →
      CyclePre (Sys.flush t).host (Sys.flush t).node (Sys.flush t).clock) :
    Sys.drain t' = Sys.drain t := by
  have hm : (Sys.drainNet (Sys.flush t).toNode t).toNode = 0 := by
    obtain ⟨r1, r2⟩ := drainNet_spec d (Sys.flush t).toNode t hq (Nat.le_refl _) hpre
    by_cases hz : (Sys.flush t).toNode = 0
    · rw [r1 hz]; exact hz
    · exact (r2 hz).2.1
  have h1 : Sys.drain t = Sys.drainNet (Sys.flush t).toNode t :=
    drainNet_mono _ t hm _ (flush_toNode_le t)
  have hm' : (Sys.drainNet (Sys.flush t).toNode t').toNode = 0 := by
    rw [drainNet_congr _ t' t h]; exact hm
  have h2 : Sys.drain t' = Sys.drainNet (Sys.flush t).toNode t' :=
    drainNet_mono _ t' hm' _ (by have := flush_toNode_le t'; rw [h] at this; exact this)
  rw [h1, h2, drainNet_congr _ t' t h]

/-- the state the round's publishes flush to (any host record with nothing buffered and no timer):
quiet, and if an NCMD is in flight the host's record is ready for the rebirth cycle -/
theorem pub_flush_facts (d : Nat) (s : Sys) (hq : Quiet d s) (h0 : s.toNode = 0)
    (hp : CyclePre s.host s.node s.clock) (hgood : s.host.life = .birthed → s.host.reseq.mode = .good) :
    Quiet d (Sys.flush (Sys.pubAll s)) ∧
    ((Sys.flush (Sys.pubAll s)).toNode ≠ 0 →
      CyclePre (Sys.flush (Sys.pubAll s)).host (Sys.flush (Sys.pubAll s)).node (Sys.flush (Sys.pubAll s)).clock) ∧
    (Sys.pubAll s).effs = s.effs := by
  obtain ⟨hD, hPe, hPn, hPh⟩ := pub_delivered d s hq hp.timer
  have hD' : Sys.flush (Sys.pubAll s) = _ := hD
  have hfew := hq.node.few
  have hb1 : s.host.birthTs ≤ s.clock + 1 := by have := hp.birthTs; omega
  have hb2 : s.host.staleTs ≤ s.clock + 1 := by have := hp.staleTs; omega
  refine ⟨?_, ?_, hPe⟩
  · rw [hD']; exact ⟨hq.cfg, hq.nodeConn, hq.hostConn, rfl, afterPub_ok _ hq.node⟩
  by_cases hst : s.host.life = .stale
  · obtain ⟨⟨lr, hlr⟩, hc⟩ := feed_stale d (s.clock + 1)
      (burst (s.clock + 1) (s.node.seq + 1) s.node.nextId s.node.enabledNames) s.host hst hb1 hb2
      (burst_isR _ _ _ _)
    intro _
    rw [hD']
    simp only [hlr]
    have hinv : HostInv { s.host with lastRebirth := lr } := ⟨hp.inv.1, hp.inv.2.1, hp.inv.2.2⟩
    exact stale_cyclePre _ _ _ hinv hst hb1 hb2
  · have hbirthed : s.host.life = .birthed := by cases h : s.host.life <;> simp_all
    have hmode := hgood hbirthed
    have hbuf : s.host.reseq.buf = [] := by have := hp.inv.1.2; rw [hmode] at this; exact this
    have ht : Track s.host s.host.reseq.next := ⟨hbirthed, reseq_eta _ hbuf hmode, hp.timer⟩
    by_cases hsync : s.host.reseq.next = (s.node.seq + 1) % 256 ∧
        ∀ dv ∈ s.node.enabledNames, findDev dv s.host.devices = some .birthed
    · have hR := feed_burst_sync d (s.clock + 1) (s.node.seq + 1) s.node.nextId s.node.enabledNames s.host
        (by rw [← hsync.1]; exact ht) hb1 hb2 hsync.2
      intro hne
      exfalso
      apply hne
      rw [hD', hR]
      simp only [count_ncmd_zero _ (dataEff_ncmd _), Nat.add_zero]
      exact h0
    · rcases feed_burst_idle d (s.clock + 1) (s.node.seq + 1) s.node.nextId s.host.reseq.next
        s.node.enabledNames s.host ht hp.inv.1.1 hp.inv.2.2 hb1 hb2 hfew hsync with ⟨l1, l2, l3, l4⟩ | hse
      · intro hne
        exfalso
        apply hne
        rw [hD']
        simp only [l4, h0]
      · intro _
        rw [hD']
        exact stale_cyclePre _ _ _ hse.inv hse.life (by simp only; rw [hse.birthTs]; exact hb1)
          (by simp only; rw [hse.staleTs]; exact Nat.le_refl _)

theorem run_map_publishDev (L : List Nat) : ∀ s : Sys,
    s.run (L.map Action.publishDev) = L.foldl (fun s d => s.step (.publishDev d)) s := by
  induction L with
  | nil => intro s; rfl
  | cons a t ih => intro s; simp only [List.map_cons, Sys.run, List.foldl_cons]; exact ih _

theorem enabledNames_sig (n : Node) : n.enabledNames = ((sig n).filter (·.2)).map (·.1) := by
  simp only [Node.enabledNames, sig, List.filter_map, List.map_map]
  rfl

theorem steps_enabledNames {s t : Sys} (h : Steps s t) : t.node.enabledNames = s.node.enabledNames := by
  rw [enabledNames_sig, enabledNames_sig, steps_sig h]

theorem quiesce_eq (s : Sys) : Sys.quiesce s = Sys.firstPhase s := rfl

/-- `pubAll` is the clock tick followed by the round's publishes, as a run -/
theorem pubAll_run (s p : Sys) (hs : Steps s p) :
    Sys.pubAll p = (p.step (.advance 1)).run (Sys.roundPubs s) := by
  have hen : ((p.step (.advance 1)).step .publishNode).node.enabledNames = s.node.enabledNames :=
    steps_enabledNames (hs.trans ((Steps.step _ _).trans (Steps.step _ _)))
  unfold Sys.pubAll Sys.roundPubs
  simp only [Sys.run]
  rw [run_map_publishDev, hen]

/-- **a generalised round is `round`**: the round's publishes interleaved with FIFO deliveries in any
way give the same state and the same "effects since the publishes" as `settle`'s phase order -/
theorem gRound_eq_round (d : Nat) (s : Sys) (hr : Reach d s) (hfew : s.node.enabledNames.length < 255)
    (σ : List Action) (hok : Sys.roundOk s σ = true) : Sys.gRound σ s = Sys.round s := by
  simp only [Sys.roundOk, Bool.and_eq_true, decide_eq_true_eq] at hok
  obtain ⟨hall, hpubs⟩ := hok
  have hp := firstPhase_spec d s hr hfew
  have hst := firstPhase_steps s
  obtain ⟨fq, fpre, feff⟩ := pub_flush_facts d _ hp.quiet hp.toNode hp.pre hp.good
  have hrun := pubAll_run s _ hst
  have hfl : Sys.flush (((Sys.firstPhase s).step (.advance 1)).run σ) = Sys.flush (Sys.pubAll (Sys.firstPhase s)) := by
    rw [flush_interleave σ _ hall, hpubs, ← hrun]
  have hdr := drain_congr d _ _ hfl fq fpre
  show (Sys.drain (((Sys.firstPhase s).step (.advance 1)).run σ),
      (Sys.drain (((Sys.firstPhase s).step (.advance 1)).run σ)).effs.drop (Sys.firstPhase s).effs.length) =
    (Sys.drain (Sys.pubAll (Sys.firstPhase s)),
      (Sys.drain (Sys.pubAll (Sys.firstPhase s))).effs.drop (Sys.pubAll (Sys.firstPhase s)).effs.length)
  rw [hdr, feff]

theorem Reach.round {d : Nat} {s : Sys} (h : Reach d s) : Reach d (Sys.round s).1 := h.steps (round_steps s)

theorem round_enabledNames (s : Sys) : (Sys.round s).1.node.enabledNames = s.node.enabledNames :=
  steps_enabledNames (round_steps s)

/-- **generalised rounds are `settle`** -/
theorem gSettle_eq_settle (d : Nat) : ∀ (σs : List (List Action)) (s : Sys), Reach d s →
    s.node.enabledNames.length < 255 → Sys.roundsOk σs s = true →
    Sys.gSettle σs s = Sys.settle σs.length s := by
  intro σs
  induction σs with
  | nil => intro s _ _ _; rfl
  | cons σ rest ih =>
    intro s hr hfew hok
    simp only [Sys.roundsOk, Bool.and_eq_true] at hok
    have h1 := gRound_eq_round d s hr hfew σ hok.1
    cases rest with
    | nil => simp only [Sys.gSettle, h1]; rfl
    | cons ρ rest' =>
      have h2 := ih (Sys.round s).1 hr.round (by rw [round_enabledNames]; exact hfew) (by rw [← h1]; exact hok.2)
      simp only [Sys.gSettle, h1]
      rw [h2]
      exact (settle_shift s rest'.length).symm

/-! ## Part N — `settle`, its phases and the generalised rounds are fault-free schedules -/

/-- `t` is reached from `s` by a fault-free schedule -/
def FRun (s t : Sys) : Prop := ∃ acts : List Action, FaultFree acts = true ∧ s.run acts = t

theorem FRun.refl (s : Sys) : FRun s s := ⟨[], rfl, rfl⟩

theorem FRun.trans {a b c : Sys} (h1 : FRun a b) (h2 : FRun b c) : FRun a c := by
  obtain ⟨x, hxa, hx⟩ := h1
  obtain ⟨y, hya, hy⟩ := h2
  refine ⟨x ++ y, ?_, by rw [run_append, hx, hy]⟩
  simp only [FaultFree, List.all_append, Bool.and_eq_true] at hxa hya ⊢
  exact ⟨hxa, hya⟩

theorem FRun.step (s : Sys) (a : Action) (ha : a.ff = true := by rfl) : FRun s (s.step a) :=
  ⟨[a], by simpa [FaultFree] using ha, rfl⟩

theorem FRun.of_run (s : Sys) (σ : List Action) (h : FaultFree σ = true) : FRun s (s.run σ) := ⟨σ, h, rfl⟩

theorem ff_auto (a : Action) (h : a.ff = true) : a.auto = true := by
  cases a <;> first | rfl | (simp [Action.ff] at h)

theorem FRun.steps {s t : Sys} (h : FRun s t) : Steps s t := by
  obtain ⟨acts, ha, hr⟩ := h
  refine ⟨acts, ?_, hr⟩
  intro a hm
  simp only [FaultFree, List.all_eq_true] at ha
  exact ff_auto a (ha a hm)

theorem deliverAll_frun : ∀ (k : Nat) (s : Sys), FRun s (Sys.deliverAll k s) := by
  intro k
  induction k with
  | zero => intro s; exact FRun.refl s
  | succ k ih => intro s; exact (FRun.step s _).trans (ih _)

theorem drainNet_frun : ∀ (f : Nat) (s : Sys), FRun s (Sys.drainNet f s) := by
  intro f
  induction f with
  | zero => intro s; exact deliverAll_frun _ s
  | succ f ih =>
    intro s
    show FRun s (if (Sys.deliverAll s.toHost.length s).toNode = 0 then _ else _)
    split
    · exact deliverAll_frun _ s
    · exact (deliverAll_frun _ s).trans (((FRun.step _ _).trans (FRun.step _ _)).trans (ih _))

theorem drain_frun (s : Sys) : FRun s (Sys.drain s) := drainNet_frun _ s

theorem reconnect_frun (s : Sys) : FRun s (Sys.reconnect s) := by
  rw [reconnect_eq]
  have h1 : FRun s (hostUp s) := by
    unfold hostUp
    split
    · exact FRun.refl s
    · exact FRun.step s _
  refine h1.trans ?_
  unfold nodeUp
  split
  · exact FRun.refl _
  · exact (FRun.step _ _).trans (FRun.step _ _)

theorem timerPhase_frun (s : Sys) : FRun s (Sys.timerPhase s) := by
  unfold Sys.timerPhase
  split
  · exact FRun.step s _
  · exact FRun.refl s

theorem foldl_frun (L : List Nat) : ∀ s : Sys, FRun s (L.foldl (fun s d => s.step (.publishDev d)) s) := by
  induction L with
  | nil => intro s; exact FRun.refl s
  | cons d t ih => intro s; exact (FRun.step s _).trans (ih _)

theorem pubAll_frun (s : Sys) : FRun s (Sys.pubAll s) := by
  unfold Sys.pubAll
  exact ((FRun.step _ _).trans (FRun.step _ _)).trans (foldl_frun _ _)

theorem firstPhase_frun (s : Sys) : FRun s (Sys.firstPhase s) :=
  (reconnect_frun s).trans ((drain_frun _).trans ((timerPhase_frun _).trans (drain_frun _)))

theorem round_frun (s : Sys) : FRun s (Sys.round s).1 := by
  rw [round_eq]
  exact (firstPhase_frun s).trans ((pubAll_frun _).trans (drain_frun _))

theorem settle_frun : ∀ (k : Nat) (s : Sys), FRun s (Sys.settle k s).1 := by
  intro k
  induction k with
  | zero => intro s; exact FRun.refl s
  | succ k ih => intro s; exact (ih s).trans (round_frun _)

theorem pubDel_ff (σ : List Action) (h : σ.all Action.isPubDel = true) : FaultFree σ = true := by
  simp only [FaultFree, List.all_eq_true] at h ⊢
  intro a ha
  rcases isPub_of_pubDel a (h a ha) with hp | rfl
  · cases a <;> first | rfl | (simp [Action.isPub] at hp)
  · rfl

theorem gRound_frun (σ : List Action) (s : Sys) (h : σ.all Action.isPubDel = true) : FRun s (Sys.gRound σ s).1 :=
  (firstPhase_frun s).trans ((FRun.step _ _).trans ((FRun.of_run _ σ (pubDel_ff σ h)).trans (drain_frun _)))

theorem gSettle_frun : ∀ (σs : List (List Action)) (s : Sys), Sys.roundsOk σs s = true → FRun s (Sys.gSettle σs s).1 := by
  intro σs
  induction σs with
  | nil => intro s _; exact FRun.refl s
  | cons σ rest ih =>
    intro s hok
    simp only [Sys.roundsOk, Sys.roundOk, Bool.and_eq_true] at hok
    have h1 := gRound_frun σ s hok.1.1
    cases rest with
    | nil => exact h1
    | cons ρ rest' => exact h1.trans (ih _ hok.2)

/-! ### assembling: from a reachable state to `UpTo` -/

/-- a reachable state whose view is in sync is in sync up to (nothing) in flight -/
theorem Reach.upTo {d : Nat} {s : Sys} (hr : Reach d s) (hv : Sys.InSyncView s = true) : UpTo d s := by
  have hb := syncUpTo_of_view s ⟨hr.live.birthTs, hr.live.staleTs⟩ hv
  have hfl : Sys.flagsOk s = true := by
    simp only [Sys.flagsOk, List.all_eq_true]
    intro x hx
    cases hf : x.flag with
    | false => rfl
    | true => simp [hr.node.flagEn x hx hf]
  exact upTo_of_b d s hr.live.safe.cfg hfl hb

theorem inSync_view (s : Sys) (last : List Eff) (h : Sys.InSync s last = true) : Sys.InSyncView s = true := by
  rw [inSync_split, Bool.and_eq_true] at h
  exact h.1

/-- the conclusions about a fault-free schedule from an `UpTo` state, in one statement -/
theorem UpTo.sched {d : Nat} {s : Sys} (h : UpTo d s) (σ : List Action) (hff : FaultFree σ = true) :
    let t := s.run σ
    let ms := t.sent.drop s.sent.length
    Sys.syncUpTo t = true ∧ Sys.flagsOk t = true ∧ t.sent = s.sent ++ ms ∧
    (∀ m ∈ ms, (Msg.dataShape m).isSome = true) ∧
    Sys.drain t = Sys.flush t ∧ Sys.InSyncView (Sys.drain t) = true ∧
    (Sys.drain t).effs = s.effs ++ (s.toHost ++ ms).filterMap Msg.dataEff ∧
    (Sys.drain t).sent = t.sent := by
  intro t ms
  obtain ⟨h1, ms', o1, o2, o3⟩ := h.run σ hff
  have hms : ms = ms' := by
    show (s.run σ).sent.drop s.sent.length = ms'
    rw [o1, List.drop_left]
  obtain ⟨f1, f2, f3, f4, f5⟩ := h1.flush
  refine ⟨h1.b, h1.flagsB, by rw [hms]; exact o1, by rw [hms]; exact o3, f5, ?_, ?_, ?_⟩
  · rw [f5]; exact f1.view f2
  · rw [f5, f3, o2, hms]
    simp only [pend, List.filterMap_append, List.append_assoc]
  · rw [f5, f4]

/-- quiet, no NCMD in flight, the host in step: in sync up to (nothing) in flight -/
theorem SyncOk.upTo {d : Nat} {s : Sys} (hq : Quiet d s) (h0 : s.toNode = 0)
    (hs : SyncOk s.host s.node s.clock) : UpTo d s := by
  have hnext : s.host.reseq.next = (s.node.seq + 1) % 256 := by rw [hs.track.reseq]
  refine ⟨hq.cfg, hq.nodeConn, hq.hostConn, hq.node.online, hq.node.birthed, ?_, by rw [hnext]; exact hs.track,
    h0, hs.birthTs, hs.staleTs, fun dv hd => (hs.devs dv).mpr hd, ?_, by rw [hq.flight]; rfl,
    by rw [hq.flight]; exact hnext⟩
  · intro x hx hf
    rw [← hq.node.flags x hx]; exact hf
  · rw [List.all_eq_true]
    intro p hp
    obtain ⟨dv, l⟩ := p
    cases l with
    | stale => simp
    | birthed =>
      have := (hs.devs dv).mp (mem_findDev _ _ _ hp hs.nodup)
      simp [this]

/-! ## Part R — healing: a stale (or tracking) host, rebirths in flight, any fault-free interleaving -/

/-- what the host's record says to messages that arrive in order: lifecycle, expected number, stamps,
device table -/
structure Abs where
  life : Life
  next : Nat
  bts : Nat
  sts : Nat
  devs : List (Nat × Life)

def absH (h : St) : Abs := ⟨h.life, h.reseq.next, h.birthTs, h.staleTs, h.devices⟩

/-- the record after an expected message (a stale record stays as it is) -/
def simA (a : Abs) : Msg → Abs
  | .nbirth ts _ _ => ⟨.birthed, 1, ts, a.sts, a.devs.map fun p => (p.1, Life.stale)⟩
  | .ndata _ _ _ => if a.life = .stale then a else { a with next := (a.next + 1) % 256 }
  | .ddata _ _ _ _ => if a.life = .stale then a else { a with next := (a.next + 1) % 256 }
  | .dbirth dv _ _ _ =>
    if a.life = .stale then a else { a with next := (a.next + 1) % 256, devs := birthDev dv a.devs }
  | _ => a

/-- the message is one the record handles without buffering: a newer NBIRTH; or a fresh NDATA /
DDATA / DBIRTH that meets a stale record (answered by an NCMD) or carries the expected number (a
DDATA for a device held birthed) -/
def expA (a : Abs) : Msg → Prop
  | .nbirth ts _ _ => a.bts < ts ∧ a.sts ≤ ts
  | .ndata seq ts _ => a.bts ≤ ts ∧ a.sts ≤ ts ∧ (a.life = .stale ∨ seq = a.next)
  | .ddata dv seq ts _ =>
    a.bts ≤ ts ∧ a.sts ≤ ts ∧ (a.life = .stale ∨ (seq = a.next ∧ findDev dv a.devs = some .birthed))
  | .dbirth _ seq ts _ => a.bts ≤ ts ∧ a.sts ≤ ts ∧ (a.life = .stale ∨ seq = a.next)
  | _ => False

def goodA : Abs → List Msg → Prop
  | _, [] => True
  | a, m :: t => expA a m ∧ goodA (simA a m) t

def endA : Abs → List Msg → Abs
  | a, [] => a
  | a, m :: t => endA (simA a m) t

theorem endA_append (l' : List Msg) : ∀ (l : List Msg) (a : Abs), endA a (l ++ l') = endA (endA a l) l' := by
  intro l
  induction l with
  | nil => intro a; rfl
  | cons m t ih => intro a; exact ih _

theorem goodA_append (l' : List Msg) : ∀ (l : List Msg) (a : Abs),
    goodA a l → goodA (endA a l) l' → goodA a (l ++ l') := by
  intro l
  induction l with
  | nil => intro a _ h; exact h
  | cons m t ih => intro a h1 h2; exact ⟨h1.1, ih _ h1.2 h2⟩

/-- the host's record is calm: reachable-state invariant, no timer, nothing buffered -/
structure Calm (h : St) : Prop where
  inv : HostInv h
  timer : h.timer = .none
  good : h.life = .birthed → h.reseq.buf = [] ∧ h.reseq.mode = .good

theorem Calm.track {h : St} (hc : Calm h) (hb : h.life = .birthed) : Track h h.reseq.next :=
  ⟨hb, reseq_eta _ (hc.good hb).1 (hc.good hb).2, hc.timer⟩

theorem calm_of_track (h : St) (e : Nat) (ht : Track h e) (he : e < 256)
    (hn : (h.devices.map Prod.fst).Nodup) : Calm h :=
  ⟨track_inv h e ht he hn, ht.timer, fun _ => by rw [ht.reseq]; exact ⟨rfl, rfl⟩⟩

theorem life_cases (l : Life) : l = .stale ∨ l = .birthed := by cases l <;> simp

/-- an expected message, handled by the real host actor at any clock reading: the record stays calm
and moves as `simA` says -/
theorem host_expected (d : Nat) (h : St) (m : Msg) (now : Nat) (hc : Calm h) (he : expA (absH h) m) :
    Calm (step (Sys.fullCfg d) h m.toIn now now).1 ∧
    absH (step (Sys.fullCfg d) h m.toIn now now).1 = simA (absH h) m := by
  have hstale : ∀ (seq ts : Nat) (rm : RMsg), h.life = .stale → h.birthTs ≤ ts → h.staleTs ≤ ts →
      Calm (step (Sys.fullCfg d) h (.rmsg seq ts rm) now now).1 ∧
      absH (step (Sys.fullCfg d) h (.rmsg seq ts rm) now now).1 = absH h := by
    intro seq ts rm hst h1 h2
    rw [step_stale_rmsg d h seq ts rm now hst h1 h2]
    exact ⟨⟨⟨hc.inv.1, hc.inv.2.1, hc.inv.2.2⟩, hc.timer, hc.good⟩, rfl⟩
  cases m with
  | nbirth ts bd id =>
    obtain ⟨h1, _⟩ := he
    have h1 : h.birthTs < ts := h1
    obtain ⟨n1, _⟩ := step_nbirth (Sys.fullCfg d) h ts bd id now h1
    show Calm (step (Sys.fullCfg d) h (.nbirth ts bd id .ok) now now).1 ∧
      absH (step (Sys.fullCfg d) h (.nbirth ts bd id .ok) now now).1 = _
    rw [n1]
    refine ⟨calm_of_track _ 1 ⟨rfl, rfl, rfl⟩ (by omega) ?_, rfl⟩
    simpa [List.map_map, Function.comp_def] using hc.inv.2.2
  | ndata seq ts id =>
    obtain ⟨h1, h2, h3⟩ := he
    have h1 : h.birthTs ≤ ts := h1
    have h2 : h.staleTs ≤ ts := h2
    rcases life_cases h.life with hst | hb
    · obtain ⟨c1, c2⟩ := hstale seq ts (.ndata id .ok) hst h1 h2
      refine ⟨c1, ?_⟩
      show absH (step (Sys.fullCfg d) h (.rmsg seq ts (.ndata id .ok)) now now).1 = _
      rw [c2]
      have : (absH h).life = .stale := hst
      simp [simA, this]
    · have hseq : seq = h.reseq.next := by
        rcases h3 with h3 | h3
        · have h3 : h.life = .stale := h3
          rw [hb] at h3; cases h3
        · exact h3
      subst hseq
      show Calm (step (Sys.fullCfg d) h (.rmsg h.reseq.next ts (.ndata id .ok)) now now).1 ∧
        absH (step (Sys.fullCfg d) h (.rmsg h.reseq.next ts (.ndata id .ok)) now now).1 = _
      rw [step_track_ndata d h _ ts id now (hc.track hb) h1 h2]
      refine ⟨calm_of_track _ _ (tracked_track _ _ (hc.track hb)) (Nat.mod_lt _ (by omega)) hc.inv.2.2, ?_⟩
      have : ¬ (absH h).life = .stale := by show ¬ h.life = .stale; rw [hb]; simp
      simp only [simA, this, if_false]
      rfl
  | ddata dv seq ts id =>
    obtain ⟨h1, h2, h3⟩ := he
    have h1 : h.birthTs ≤ ts := h1
    have h2 : h.staleTs ≤ ts := h2
    rcases life_cases h.life with hst | hb
    · obtain ⟨c1, c2⟩ := hstale seq ts (.ddata dv id .ok) hst h1 h2
      refine ⟨c1, ?_⟩
      show absH (step (Sys.fullCfg d) h (.rmsg seq ts (.ddata dv id .ok)) now now).1 = _
      rw [c2]
      have : (absH h).life = .stale := hst
      simp [simA, this]
    · have hseq : seq = h.reseq.next ∧ findDev dv h.devices = some .birthed := by
        rcases h3 with h3 | h3
        · have h3 : h.life = .stale := h3
          rw [hb] at h3; cases h3
        · exact h3
      obtain ⟨hseq, hdev⟩ := hseq
      subst hseq
      show Calm (step (Sys.fullCfg d) h (.rmsg h.reseq.next ts (.ddata dv id .ok)) now now).1 ∧
        absH (step (Sys.fullCfg d) h (.rmsg h.reseq.next ts (.ddata dv id .ok)) now now).1 = _
      rw [step_track_ddata_ok d h _ ts dv id now (hc.track hb) h1 h2 hdev]
      refine ⟨calm_of_track _ _ (tracked_track _ _ (hc.track hb)) (Nat.mod_lt _ (by omega)) hc.inv.2.2, ?_⟩
      have : ¬ (absH h).life = .stale := by show ¬ h.life = .stale; rw [hb]; simp
      simp only [simA, this, if_false]
      rfl
  | dbirth dv seq ts id =>
    obtain ⟨h1, h2, h3⟩ := he
    have h1 : h.birthTs ≤ ts := h1
    have h2 : h.staleTs ≤ ts := h2
    rcases life_cases h.life with hst | hb
    · obtain ⟨c1, c2⟩ := hstale seq ts (.dbirth dv id .ok) hst h1 h2
      refine ⟨c1, ?_⟩
      show absH (step (Sys.fullCfg d) h (.rmsg seq ts (.dbirth dv id .ok)) now now).1 = _
      rw [c2]
      have : (absH h).life = .stale := hst
      simp [simA, this]
    · have hseq : seq = h.reseq.next := by
        rcases h3 with h3 | h3
        · have h3 : h.life = .stale := h3
          rw [hb] at h3; cases h3
        · exact h3
      subst hseq
      obtain ⟨q1, _⟩ := step_track_dbirth d h _ ts dv id now (hc.track hb) h1 h2
      show Calm (step (Sys.fullCfg d) h (.rmsg h.reseq.next ts (.dbirth dv id .ok)) now now).1 ∧
        absH (step (Sys.fullCfg d) h (.rmsg h.reseq.next ts (.dbirth dv id .ok)) now now).1 = _
      rw [q1]
      have ht' := tracked_track _ _ (hc.track hb)
      refine ⟨calm_of_track _ ((h.reseq.next + 1) % 256) ⟨ht'.life, ht'.reseq, ht'.timer⟩
        (Nat.mod_lt _ (by omega)) (birthDev_nodup dv _ hc.inv.2.2), ?_⟩
      have : ¬ (absH h).life = .stale := by show ¬ h.life = .stale; rw [hb]; simp
      simp only [simA, this, if_false]
      rfl
  | ndeath _ => exact absurd he id
  | ddeath _ _ _ _ => exact absurd he id

/-- **healing**: both sides connected, the node at rest, the host's record calm, and what is in flight
is handled without buffering when delivered in order, after which the record is stale or in step with
the node; `b`: the clock has advanced since the node's last birth. Any number of NCMDs in flight. -/
structure Heal (d : Nat) (s : Sys) (b : Bool) : Prop where
  cfg : s.cfg = Sys.fullCfg d
  nodeConn : s.nodeConn = true
  hostConn : s.hostConn = true
  node : NodeOk s.node
  calm : Calm s.host
  good : goodA (absH s.host) s.toHost
  inStep : (endA (absH s.host) s.toHost).life = .birthed →
    (endA (absH s.host) s.toHost).next = (s.node.seq + 1) % 256 ∧
    ∀ dv, findDev dv (endA (absH s.host) s.toHost).devs = some .birthed ↔ dv ∈ s.node.enabledNames
  bts : (endA (absH s.host) s.toHost).bts ≤ s.clock
  sts : (endA (absH s.host) s.toHost).sts ≤ s.clock
  tick : b = true → (endA (absH s.host) s.toHost).bts < s.clock

theorem Heal.weaken {d : Nat} {s : Sys} {b : Bool} (h : Heal d s b) : Heal d s false :=
  ⟨h.cfg, h.nodeConn, h.hostConn, h.node, h.calm, h.good, h.inStep, h.bts, h.sts, fun hb => by cases hb⟩

theorem Heal.setToNode {d : Nat} {s : Sys} {b : Bool} (h : Heal d s b) (k : Nat) :
    Heal d { s with toNode := k } b :=
  ⟨h.cfg, h.nodeConn, h.hostConn, h.node, h.calm, h.good, h.inStep, h.bts, h.sts, h.tick⟩

/-- the node hands over `ms` -/
theorem Heal.send {d : Nat} {s : Sys} {b : Bool} (h : Heal d s b) (n' : Node) (ms : List Msg) (b' : Bool)
    (hn : NodeOk n')
    (hg : goodA (endA (absH s.host) s.toHost) ms)
    (hin : (endA (endA (absH s.host) s.toHost) ms).life = .birthed →
      (endA (endA (absH s.host) s.toHost) ms).next = (n'.seq + 1) % 256 ∧
      ∀ dv, findDev dv (endA (endA (absH s.host) s.toHost) ms).devs = some .birthed ↔ dv ∈ n'.enabledNames)
    (hb : (endA (endA (absH s.host) s.toHost) ms).bts ≤ s.clock)
    (hs : (endA (endA (absH s.host) s.toHost) ms).sts ≤ s.clock)
    (ht : b' = true → (endA (endA (absH s.host) s.toHost) ms).bts < s.clock) :
    Heal d (s.send n' ms) b' := by
  have hE : endA (absH (s.send n' ms).host) (s.send n' ms).toHost = endA (endA (absH s.host) s.toHost) ms :=
    endA_append ms s.toHost _
  refine ⟨h.cfg, h.nodeConn, h.hostConn, hn, h.calm, goodA_append ms s.toHost _ h.good hg, ?_, ?_, ?_, ?_⟩
  · rw [hE]; exact hin
  · rw [hE]; exact hb
  · rw [hE]; exact hs
  · rw [hE]; exact ht

/-- a data message numbered with the node's next number and stamped with the clock -/
theorem Heal.sendData {d : Nat} {s : Sys} {b : Bool} (h : Heal d s b) (m : Msg)
    (hm : (∃ id, m = .ndata ((s.node.seq + 1) % 256) s.clock id) ∨
          (∃ dv id, m = .ddata dv ((s.node.seq + 1) % 256) s.clock id ∧ dv ∈ s.node.enabledNames)) :
    Heal d (s.send { s.node with seq := (s.node.seq + 1) % 256, nextId := s.node.nextId + 1 } [m]) b := by
  have hn : NodeOk ({ s.node with seq := (s.node.seq + 1) % 256, nextId := s.node.nextId + 1 } : Node) :=
    ⟨h.node.online, h.node.birthed, Nat.mod_lt _ (by omega), h.node.bdseq, h.node.flags, h.node.names, h.node.few⟩
  generalize hE : endA (absH s.host) s.toHost = E
  have hin := h.inStep
  have hb := h.bts
  have hs := h.sts
  have ht := h.tick
  rw [hE] at hin hb hs ht
  have key : expA E m ∧ (simA E m).bts = E.bts ∧ (simA E m).sts = E.sts ∧
      ((simA E m).life = .birthed → E.life = .birthed ∧ (simA E m).next = (E.next + 1) % 256 ∧
        (simA E m).devs = E.devs) := by
    rcases life_cases E.life with hst | hbi
    · have hsim : simA E m = E := by
        rcases hm with ⟨id, rfl⟩ | ⟨dv, id, rfl, _⟩ <;> simp [simA, hst]
      have hexp : expA E m := by
        rcases hm with ⟨id, rfl⟩ | ⟨dv, id, rfl, _⟩
        · exact ⟨hb, hs, Or.inl hst⟩
        · exact ⟨hb, hs, Or.inl hst⟩
      rw [hsim]
      exact ⟨hexp, rfl, rfl, fun hl => by rw [hst] at hl; cases hl⟩
    · have hns : ¬ E.life = .stale := by rw [hbi]; simp
      obtain ⟨i1, i2⟩ := hin hbi
      have hsim : simA E m = { E with next := (E.next + 1) % 256 } := by
        rcases hm with ⟨id, rfl⟩ | ⟨dv, id, rfl, _⟩ <;> simp [simA, hns]
      have hexp : expA E m := by
        rcases hm with ⟨id, rfl⟩ | ⟨dv, id, rfl, hdv⟩
        · exact ⟨hb, hs, Or.inr i1.symm⟩
        · exact ⟨hb, hs, Or.inr ⟨i1.symm, (i2 dv).mpr hdv⟩⟩
      rw [hsim]
      exact ⟨hexp, rfl, rfl, fun _ => ⟨hbi, rfl, rfl⟩⟩
  obtain ⟨k1, k2, k3, k4⟩ := key
  have := h.send _ [m] b hn (by rw [hE]; exact ⟨k1, trivial⟩)
  rw [hE] at this
  refine this ?_ (by show (simA E m).bts ≤ _; rw [k2]; exact hb) (by show (simA E m).sts ≤ _; rw [k3]; exact hs)
    (fun hbt => by show (simA E m).bts < _; rw [k2]; exact ht hbt)
  intro hl
  have hl' : (simA E m).life = .birthed := hl
  obtain ⟨e1, e2, e3⟩ := k4 hl'
  obtain ⟨i1, i2⟩ := hin e1
  refine ⟨?_, ?_⟩
  · show (simA E m).next = _
    rw [e2, i1]
  · intro dv
    show findDev dv (simA E m).devs = _ ↔ _
    rw [e3]; exact i2 dv

/-- the DBIRTHs of a (re)birth, in order, at a record in step -/
theorem births_sim (clk id0 : Nat) (L : List Nat) : ∀ (i : Nat) (a : Abs), a.life = .birthed →
    a.next = (0 + i) % 256 → a.bts ≤ clk → a.sts ≤ clk →
    goodA a (devMsgs .dbirth clk 0 id0 i L) ∧
    endA a (devMsgs .dbirth clk 0 id0 i L) =
      { a with next := (0 + i + L.length) % 256, devs := birthAll L a.devs } := by
  induction L with
  | nil =>
    intro i a _ hn _ _
    refine ⟨trivial, ?_⟩
    simp only [devMsgs, endA, List.length_nil, Nat.add_zero, birthAll, List.foldl_nil]
    rw [← hn]
  | cons dv t ih =>
    intro i a hl hn h1 h2
    have hns : ¬ a.life = .stale := by rw [hl]; simp
    have hsim : simA a (.dbirth dv ((0 + i) % 256) clk (id0 + i)) =
        { a with next := (a.next + 1) % 256, devs := birthDev dv a.devs } := by
      simp only [simA, hns, if_false]
    obtain ⟨g, e⟩ := ih (i + 1) { a with next := (a.next + 1) % 256, devs := birthDev dv a.devs } hl
      (by simp only; rw [hn]; omega) h1 h2
    refine ⟨⟨⟨h1, h2, Or.inr hn.symm⟩, by rw [hsim]; exact g⟩, ?_⟩
    simp only [devMsgs, endA]
    rw [hsim, e]
    simp only [List.length_cons]
    have he : (0 + (i + 1) + t.length) % 256 = (0 + i + (t.length + 1)) % 256 := by congr 1; omega
    rw [he]
    rfl

theorem Heal.noop {d : Nat} {s : Sys} {b : Bool} (h : Heal d s b) (a : Action)
    (ha : a = .hostConnect ∨ a = .nodeConnect) : s.step a = s := by
  rcases ha with rfl | rfl
  · have := h.hostConn
    cases s; simp_all [Sys.step]
  · simp [Sys.step, h.nodeConn]

theorem Heal.deliver {d : Nat} {s : Sys} {b : Bool} (h : Heal d s b) : Heal d (s.step (.deliver 0)) b := by
  cases hq : s.toHost with
  | nil => rw [deliver0_empty s hq]; exact h
  | cons m t =>
    rw [step_deliver0 s m t h.hostConn hq]
    have hg := h.good
    rw [hq] at hg
    obtain ⟨c1, c2⟩ := host_expected d s.host m s.clock h.calm hg.1
    have hE : endA (absH (step (Sys.fullCfg d) s.host m.toIn s.clock s.clock).1) t =
        endA (absH s.host) s.toHost := by rw [c2, hq]; rfl
    have hin := h.inStep
    have hb := h.bts
    have hs := h.sts
    have ht := h.tick
    rw [← hE] at hin hb hs ht
    have hcfg := h.cfg
    exact ⟨h.cfg, h.nodeConn, h.hostConn, h.node,
      by show Calm (step s.cfg s.host m.toIn s.clock s.clock).1; rw [hcfg]; exact c1,
      by show goodA (absH (step s.cfg s.host m.toIn s.clock s.clock).1) t; rw [hcfg, c2]; exact hg.2,
      by show (endA (absH (step s.cfg s.host m.toIn s.clock s.clock).1) t).life = _ → _; rw [hcfg]; exact hin,
      by show (endA (absH (step s.cfg s.host m.toIn s.clock s.clock).1) t).bts ≤ _; rw [hcfg]; exact hb,
      by show (endA (absH (step s.cfg s.host m.toIn s.clock s.clock).1) t).sts ≤ _; rw [hcfg]; exact hs,
      by show _ → (endA (absH (step s.cfg s.host m.toIn s.clock s.clock).1) t).bts < _; rw [hcfg]; exact ht⟩

theorem Heal.publishNode {d : Nat} {s : Sys} {b : Bool} (h : Heal d s b) : Heal d (s.step .publishNode) b := by
  have hp := pubNode_eq s.clock s.node h.node.online h.node.birthed
  have : s.step .publishNode = s.send { s.node with seq := (s.node.seq + 1) % 256, nextId := s.node.nextId + 1 }
      [.ndata ((s.node.seq + 1) % 256) s.clock s.node.nextId] := by
    simp only [Sys.step, hp]
  rw [this]
  exact h.sendData _ (Or.inl ⟨_, rfl⟩)

theorem Heal.publishDev {d : Nat} {s : Sys} {b : Bool} (h : Heal d s b) (dv : Nat) :
    Heal d (s.step (.publishDev dv)) b := by
  have hnoop : s.node.pubDev dv s.clock = (s.node, []) → Heal d (s.step (.publishDev dv)) b := by
    intro he
    have : s.step (.publishDev dv) = s := by simp only [Sys.step, he]; exact send_nil s
    rw [this]; exact h
  cases hf : s.node.findDev dv with
  | none => exact hnoop (by simp [Node.pubDev, hf])
  | some x =>
    cases hfl : x.flag with
    | false => exact hnoop (by simp [Node.pubDev, hf, hfl])
    | true =>
      have hp : s.node.pubDev dv s.clock =
          ({ s.node with seq := (s.node.seq + 1) % 256, nextId := s.node.nextId + 1 },
           [.ddata dv ((s.node.seq + 1) % 256) s.clock s.node.nextId]) := by
        simp [Node.pubDev, hf, hfl, nextSeq_gate s.node h.node.online h.node.birthed]
      have : s.step (.publishDev dv) =
          s.send { s.node with seq := (s.node.seq + 1) % 256, nextId := s.node.nextId + 1 }
            [.ddata dv ((s.node.seq + 1) % 256) s.clock s.node.nextId] := by
        simp only [Sys.step, hp]
      rw [this]
      obtain ⟨hx1, hx2⟩ := find_name _ _ _ hf
      have hen : dv ∈ s.node.enabledNames := by
        simp only [Node.enabledNames, List.mem_map, List.mem_filter]
        exact ⟨x, ⟨hx1, by rw [← h.node.flags x hx1]; exact hfl⟩, hx2⟩
      exact h.sendData _ (Or.inr ⟨dv, _, rfl, hen⟩)

theorem Heal.advance {d : Nat} {s : Sys} {b : Bool} (h : Heal d s b) (k : Nat) :
    Heal d (s.step (.advance k)) (b || decide (0 < k)) := by
  rw [advance_idle s k h.calm.timer]
  refine ⟨h.cfg, h.nodeConn, h.hostConn, h.node, h.calm, h.good, h.inStep, ?_, ?_, ?_⟩
  · have := h.bts; show (endA (absH s.host) s.toHost).bts ≤ s.clock + k; omega
  · have := h.sts; show (endA (absH s.host) s.toHost).sts ≤ s.clock + k; omega
  · intro hb
    show (endA (absH s.host) s.toHost).bts < s.clock + k
    have h1 := h.bts
    simp only [Bool.or_eq_true, decide_eq_true_eq] at hb
    rcases hb with hb | hb
    · have := h.tick hb; omega
    · omega

/-- an NCMD reaches the node after the clock has advanced: a rebirth, its births in flight -/
theorem Heal.deliverNcmd {d : Nat} {s : Sys} (h : Heal d s true) : Heal d (s.step .deliverNcmd) false := by
  by_cases h0 : s.toNode = 0
  · have : s.step .deliverNcmd = s := by simp [Sys.step, h0]
    rw [this]; exact h.weaken
  · have hs1 : s.step .deliverNcmd =
        ({ s with toNode := s.toNode - 1 } : Sys).send (afterRebirth s.node)
          (.nbirth s.clock s.node.bdseq s.node.nextId ::
            devMsgs .dbirth s.clock 0 s.node.nextId 1 s.node.enabledNames) := by
      simp only [Sys.step, h0, if_false, h.nodeConn, if_true, rebirth_eq _ _ h.node]
    rw [hs1]
    have h' := h.setToNode (s.toNode - 1)
    generalize hE : endA (absH s.host) s.toHost = E
    have hb := h.bts
    have hs := h.sts
    have ht := h.tick rfl
    rw [hE] at hb hs ht
    have hfew := h.node.few
    obtain ⟨g, e⟩ := births_sim s.clock s.node.nextId s.node.enabledNames 1
      ⟨.birthed, 1, s.clock, E.sts, E.devs.map fun p => (p.1, Life.stale)⟩ rfl rfl (Nat.le_refl _) hs
    have hend : endA E (.nbirth s.clock s.node.bdseq s.node.nextId ::
          devMsgs .dbirth s.clock 0 s.node.nextId 1 s.node.enabledNames) =
        { (⟨.birthed, 1, s.clock, E.sts, E.devs.map fun p => (p.1, Life.stale)⟩ : Abs) with
          next := (0 + 1 + s.node.enabledNames.length) % 256,
          devs := birthAll s.node.enabledNames (E.devs.map fun p => (p.1, Life.stale)) } := e
    have hsend := h'.send (afterRebirth s.node)
      (.nbirth s.clock s.node.bdseq s.node.nextId ::
        devMsgs .dbirth s.clock 0 s.node.nextId 1 s.node.enabledNames) false (afterRebirth_ok _ h.node)
    have hE' : endA (absH ({ s with toNode := s.toNode - 1 } : Sys).host) ({ s with toNode := s.toNode - 1 } : Sys).toHost = E := hE
    rw [hE', hend] at hsend
    refine hsend ⟨⟨ht, hs⟩, g⟩ ?_ (Nat.le_refl _) hs (fun hb => by cases hb)
    intro _
    refine ⟨?_, ?_⟩
    · simp only [afterRebirth]; omega
    · intro dv
      simp only [findDev_birthAll, findDev_map_stale]
      show _ ↔ dv ∈ s.node.enabledNames
      by_cases hm : dv ∈ s.node.enabledNames
      · simp [hm]
      · simp only [hm, if_false, iff_false]
        cases findDev dv E.devs <;> simp

/-- **every fault-free schedule in which the clock advances before each NCMD delivery preserves
`Heal`** -/
theorem Heal.run {d : Nat} (σ : List Action) : ∀ {s : Sys} {b : Bool}, Heal d s b → FaultFree σ = true →
    ticked b σ = true → ∃ b', Heal d (s.run σ) b' := by
  induction σ with
  | nil => intro s b h _ _; exact ⟨b, h⟩
  | cons a t ih =>
    intro s b h hff htk
    simp only [FaultFree, List.all_cons, Bool.and_eq_true] at hff
    obtain ⟨ha, hff⟩ := hff
    cases a with
    | publishNode => exact ih h.publishNode hff htk
    | publishDev dv => exact ih (h.publishDev dv) hff htk
    | deliver k =>
      cases k with
      | zero => exact ih h.deliver hff htk
      | succ k => simp [Action.ff] at ha
    | advance k => exact ih (h.advance k) hff htk
    | deliverNcmd =>
      simp only [ticked, Bool.and_eq_true] at htk
      obtain ⟨hb, htk⟩ := htk
      subst hb
      exact ih h.deliverNcmd hff htk
    | hostConnect => simp only [Sys.run]; rw [h.noop _ (Or.inl rfl)]; exact ih h hff htk
    | nodeConnect => simp only [Sys.run]; rw [h.noop _ (Or.inr rfl)]; exact ih h hff htk
    | enable _ => simp [Action.ff] at ha
    | disable _ => simp [Action.ff] at ha
    | manualRebirth => simp [Action.ff] at ha
    | duplicate _ => simp [Action.ff] at ha
    | drop _ => simp [Action.ff] at ha
    | dropNcmd => simp [Action.ff] at ha
    | nodeDisconnect => simp [Action.ff] at ha
    | hostDisconnect => simp [Action.ff] at ha

theorem ticked_replicate_deliver (b : Bool) (k : Nat) : ticked b (List.replicate k (.deliver 0)) = true := by
  induction k with
  | zero => rfl
  | succ k ih => simpa [List.replicate_succ, ticked] using ih

/-- a healing state with nothing in flight towards the host: quiet, ready for rebirth cycles, and in
step unless stale -/
theorem Heal.quiet {d : Nat} {s : Sys} {b : Bool} (h : Heal d s b) (he : s.toHost = []) :
    Quiet d s ∧ CyclePre s.host s.node s.clock ∧
    (s.host.life = .birthed → SyncOk s.host s.node s.clock) := by
  have hin := h.inStep
  have hb := h.bts
  have hs := h.sts
  rw [he] at hin hb hs
  refine ⟨⟨h.cfg, h.nodeConn, h.hostConn, he, h.node⟩, ⟨h.calm.inv, h.calm.timer, hb, hs⟩, ?_⟩
  intro hl
  obtain ⟨i1, i2⟩ := hin hl
  have ht := h.calm.track hl
  have i1 : s.host.reseq.next = (s.node.seq + 1) % 256 := i1
  rw [i1] at ht
  exact ⟨ht, i2, h.calm.inv.2.2, hb, hs⟩

/-- delivering what is in flight, then the NCMD cycles: in sync — unless the host is still stale and
no NCMD is in flight (then nothing reached the host) -/
theorem Heal.drain {d : Nat} {t : Sys} {b : Bool} (h : Heal d t b) :
    Sys.drain t = Sys.drain (Sys.flush t) ∧ (∃ b', Heal d (Sys.flush t) b') ∧ (Sys.flush t).toHost = [] ∧
    ((Sys.flush t).toNode ≠ 0 ∨ (Sys.flush t).host.life = .birthed → Sys.InSyncView (Sys.drain t) = true) ∧
    ((Sys.flush t).toNode = 0 → Sys.drain t = Sys.flush t) := by
  have hr : Sys.flush t = t.run (List.replicate t.toHost.length (.deliver 0)) := deliverAll_run _ t
  obtain ⟨b', hf⟩ := h.run (List.replicate t.toHost.length (.deliver 0)) (ff_replicate_deliver _)
    (ticked_replicate_deliver b _)
  rw [← hr] at hf
  have he := flush_toHost t
  obtain ⟨q, pre, sy⟩ := hf.quiet he
  have hdr : Sys.drain (Sys.flush t) = Sys.drain t :=
    drain_congr d t (Sys.flush t) (flush_flush t) q (fun _ => pre)
  obtain ⟨r1, r2⟩ := drain_quiet d (Sys.flush t) q (fun _ => pre)
  refine ⟨hdr.symm, ⟨b', hf⟩, he, ?_, fun h0 => by rw [← hdr]; exact r1 h0⟩
  intro hor
  rw [← hdr]
  by_cases h0 : (Sys.flush t).toNode = 0
  · rw [r1 h0]
    have hl : (Sys.flush t).host.life = .birthed := by
      rcases hor with hne | hl
      · exact absurd h0 hne
      · exact hl
    exact ((sy hl).upTo q h0).view he
  · obtain ⟨a1, a2, a3⟩ := r2 h0
    exact (a3.upTo a1 a2).view a1.flight

/-- a reachable state with both sides connected, nothing in flight towards the host and the host's
record stale is healing (any number of NCMDs in flight) -/
theorem Reach.heal {d : Nat} {s : Sys} (hr : Reach d s) (hfew : s.node.enabledNames.length < 255)
    (hn : s.nodeConn = true) (hh : s.hostConn = true) (he : s.toHost = []) (hst : s.host.life = .stale) :
    Heal d s false := by
  have hon : s.node.online = true := by rw [← hr.conn.conn]; exact hn
  have hok : NodeOk s.node := hr.node.nodeOk hr.live.safe.bd (hr.conn.birthed hon) hfew
  have hinv := hr.live.safe.hostInv
  refine ⟨hr.live.safe.cfg, hn, hh, hok, ⟨hinv, (hinv.2.1 hst).2.1, fun hb => by rw [hst] at hb; cases hb⟩,
    by rw [he]; trivial, ?_, ?_, ?_, fun hb => by cases hb⟩
  · rw [he]; intro hl
    have hl : s.host.life = .birthed := hl
    rw [hst] at hl; cases hl
  · rw [he]; exact hr.live.birthTs
  · rw [he]; exact hr.live.staleTs

/-- a stale quiet healing state: one publish on the node metric is answered by an NCMD -/
theorem Heal.publish_ncmd {d : Nat} {u : Sys} {b : Bool} (h : Heal d u b) (he : u.toHost = [])
    (hst : u.host.life = .stale) : (Sys.flush (u.step .publishNode)).toNode = u.toNode + 1 := by
  have hp := pubNode_eq u.clock u.node h.node.online h.node.birthed
  have hs : u.step .publishNode = u.send { u.node with seq := (u.node.seq + 1) % 256, nextId := u.node.nextId + 1 }
      [.ndata ((u.node.seq + 1) % 256) u.clock u.node.nextId] := by
    simp only [Sys.step, hp]
  have hb := h.bts
  have hs' := h.sts
  rw [he] at hb hs'
  have hb : u.host.birthTs ≤ u.clock := hb
  have hs' : u.host.staleTs ≤ u.clock := hs'
  have hq : (u.step .publishNode).toHost = [.ndata ((u.node.seq + 1) % 256) u.clock u.node.nextId] := by
    rw [hs]; simp [Sys.send, he]
  have hc : (u.step .publishNode).hostConn = true := by rw [hs]; exact h.hostConn
  show (Sys.deliverAll (u.step .publishNode).toHost.length (u.step .publishNode)).toNode = _
  rw [hq]
  show ((u.step .publishNode).step (.deliver 0)).toNode = _
  rw [step_deliver0 _ _ _ hc hq]
  have hhost : (u.step .publishNode).host = u.host := by rw [hs]; rfl
  have hcfg : (u.step .publishNode).cfg = Sys.fullCfg d := by rw [hs]; exact h.cfg
  have hclk : (u.step .publishNode).clock = u.clock := by rw [hs]; rfl
  have htn : (u.step .publishNode).toNode = u.toNode := by rw [hs]; rfl
  simp only [Sys.hostStep, hc, if_true, hhost, hcfg, hclk, htn, Msg.toIn,
    step_stale_rmsg d u.host _ u.clock (.ndata u.node.nextId .ok) u.clock hst hb hs']
  simp

/-- from a healing state: any ticked fault-free schedule, `drain`, one publish, `drain` -/
theorem Heal.converges {d : Nat} {s : Sys} {b : Bool} (hh : Heal d s b) (hr : Reach d s) (σ : List Action)
    (hff : FaultFree σ = true) (htk : ticked b σ = true) :
    let u := Sys.drain (s.run σ)
    (Sys.InSyncView u = true ∨ (u.host.life = .stale ∧ u.toHost = [] ∧ u.toNode = 0)) ∧
    Sys.InSyncView (Sys.drain (u.step .publishNode)) = true := by
  intro u
  obtain ⟨b', ht⟩ := hh.run σ hff htk
  obtain ⟨_, ⟨b'', hf⟩, e1, d4, d5⟩ := ht.drain
  by_cases hz : (Sys.flush (s.run σ)).toNode ≠ 0 ∨ (Sys.flush (s.run σ)).host.life = .birthed
  · have hv : Sys.InSyncView u = true := d4 hz
    refine ⟨Or.inl hv, ?_⟩
    have hru : Reach d u := hr.steps ((FRun.of_run s σ hff).steps.trans (drain_steps _))
    exact ((hru.upTo hv).sched [.publishNode] rfl).2.2.2.2.2.1
  · have h0 : (Sys.flush (s.run σ)).toNode = 0 := by
      apply Classical.byContradiction
      intro hne; exact hz (Or.inl hne)
    have hl : (Sys.flush (s.run σ)).host.life = .stale := by
      rcases life_cases (Sys.flush (s.run σ)).host.life with h | h
      · exact h
      · exact absurd (Or.inr h) hz
    have hu : u = Sys.flush (s.run σ) := d5 h0
    refine ⟨Or.inr (by rw [hu]; exact ⟨hl, e1, h0⟩), ?_⟩
    rw [hu]
    have hp := hf.publishNode
    have hn := hf.publish_ncmd e1 hl
    exact hp.drain.2.2.2.1 (Or.inl (by rw [hn]; omega))

/-- the timer phase on a quiet state whose host is waiting behind a gap: the record goes stale -/
theorem timerPhase_stale (d : Nat) (s : Sys) (hq : Quiet d s) (ha : ArmedOk s.host s.clock) :
    (Sys.timerPhase s).host.life = .stale := by
  obtain ⟨dl, hdl⟩ := ha.armed
  have hle : dl ≤ s.clock + (dl - s.clock) := by omega
  have hfire : step (Sys.fullCfg d) s.host .timerFire (s.clock + (dl - s.clock)) (s.clock + (dl - s.clock)) =
      issueRebirth (Sys.fullCfg d) { s.host with timer := .fired } .reorderTimeout
        (s.clock + (dl - s.clock)) (s.clock + (dl - s.clock)) := by
    simp [step, hdl]
  obtain ⟨q1, _⟩ := issueRebirth_full d { s.host with timer := .fired } .reorderTimeout
    (s.clock + (dl - s.clock)) ha.life (by have := ha.birthTs; simp only; omega)
  have : (Sys.timerPhase s).host = goStale { s.host with timer := .fired } (s.clock + (dl - s.clock)) := by
    simp only [Sys.timerPhase, hdl, Sys.step, hle, if_true, Sys.hostStep, hq.cfg, hfire, q1]
  rw [this]; rfl

/-- quiet and in step: healing (nothing to heal) -/
theorem SyncOk.heal {d : Nat} {s : Sys} (hq : Quiet d s) (hs : SyncOk s.host s.node s.clock) : Heal d s false := by
  have hnext : s.host.reseq.next = (s.node.seq + 1) % 256 := by rw [hs.track.reseq]
  refine ⟨hq.cfg, hq.nodeConn, hq.hostConn, hq.node,
    calm_of_track _ _ hs.track (Nat.mod_lt _ (by omega)) hs.nodup, by rw [hq.flight]; trivial, ?_, ?_, ?_,
    fun hb => by cases hb⟩
  · rw [hq.flight]; intro _; exact ⟨hnext, hs.devs⟩
  · rw [hq.flight]; exact hs.birthTs
  · rw [hq.flight]; exact hs.staleTs

end Srad.Loop
