import SradModel.Model.HostLoopLtsSpec
set_option linter.unusedSimpArgs false
set_option linter.unusedVariables false
set_option linter.unnecessarySimpa false

namespace Srad.HostLoopLts

/-! ### induction over the action list -/

theorem runActs_scan {σ : Type} (Inv : St → σ → Prop) (scan : σ → List Obs → Bool)
    (hnil : ∀ s st, Inv s st → scan st [] = true)
    (hstep : ∀ s st a s' o, Inv s st → runAct s a = some (s', o) →
      ∃ st', Inv s' st' ∧ ∀ t, scan st' t = true → scan st (o ++ t) = true) :
    ∀ (acts : List Act) (s : St) (st : σ) (s' : St) (tr : List Obs),
      Inv s st → runActs s acts = some (s', tr) → scan st tr = true ∧ ∃ st', Inv s' st'
  | [], s, st, s', tr, hI, h => by
    simp only [runActs, Option.some.injEq, Prod.mk.injEq] at h
    obtain ⟨rfl, rfl⟩ := h
    exact ⟨hnil _ _ hI, st, hI⟩
  | a :: as, s, st, s', tr, hI, h => by
    simp only [runActs] at h
    split at h
    · cases h
    rename_i s1 o1 h1
    split at h
    · cases h
    rename_i s2 o2 h2
    simp only [Option.some.injEq, Prod.mk.injEq] at h
    obtain ⟨rfl, rfl⟩ := h
    obtain ⟨st1, hI1, hs⟩ := hstep _ _ _ _ _ hI h1
    obtain ⟨ht, hI2⟩ := runActs_scan Inv scan hnil hstep as s1 st1 _ _ hI1 h2
    exact ⟨hs _ ht, hI2⟩

/-! ### what one action can do: every case of `runAct`, spelled out -/

/-- an event `handle_event` maps to `None` without any effect in state `s` -/
def QuietEv (s : St) : Ev → Prop
  | .online => s.online = true
  | .offline => s.online = false
  | .state own on => (s.flag && own && !on) = false
  | .node => False
  | .junk => True

inductive Step : St → St → List Obs → Prop
  | ev (s : St) (e : Ev) : Step s { s with inbox := s.inbox ++ [e] } []
  | clock (s : St) (n : Nat) : Step s { s with now := n } [.clock n]
  | resolveHit (s : St) (id : Nat) (ok : Bool) (h : s.tasks.any (fun t => isParkedOn id t.pc) = true) :
      Step s { s with tasks := s.tasks.map fun t => { t with pc := resolvePc id ok t.pc } } [.resolved id ok]
  | noop (s : St) : Step s s []
  | cancelReq (s : St) : Step s { s with cStart := s.cStart + 1 } [.cancelReq]
  | time (s : St) (v h : Nat) : Step s { s with vt := v, horizon := h } []
  | pollOnline (s : St) (rest : List Ev) (hi : s.inbox = .online :: rest) (hd : s.drain = none)
      (ho : s.online = false) :
      Step s { s with inbox := rest, online := true,
                      tasks := s.tasks ++ [{ session := true, ts := s.willTs, pc := .subscribe }] }
        [.polled .online, .spawn s.tasks.length true s.willTs, .event .online]
  | pollQuiet (s : St) (e : Ev) (rest : List Ev) (hi : s.inbox = e :: rest) (hd : s.drain = none)
      (hq : QuietEv s e) : Step s { s with inbox := rest } [.polled e]
  | pollOffline (s : St) (rest : List Ev) (hi : s.inbox = .offline :: rest) (hd : s.drain = none)
      (ho : s.online = true) :
      Step s { s with inbox := rest, online := false, flag := false, willTs := s.now }
        [.polled .offline, .will s.now, .event .offline]
  | pollAnswer (s : St) (rest : List Ev) (hi : s.inbox = .state true false :: rest) (hd : s.drain = none)
      (hf : s.flag = true) :
      Step s { s with inbox := rest, tasks := s.tasks ++ [{ session := false, ts := s.willTs, pc := .publish }] }
        [.polled (.state true false), .spawn s.tasks.length false s.willTs]
  | pollNode (s : St) (rest : List Ev) (hi : s.inbox = .node :: rest) (hd : s.drain = none) :
      Step s { s with inbox := rest } [.polled .node, .event .node]
  | drainOffline (s : St) (rest : List Ev) (dl : Nat) (hi : s.inbox = .offline :: rest)
      (hd : s.drain = some dl) (ho : s.online = true) :
      Step s { s with inbox := rest, online := false, flag := false, willTs := s.now, drain := none }
        [.polled .offline, .will s.now, .event .cancelled]
  | drainOfflineOff (s : St) (rest : List Ev) (dl : Nat) (hi : s.inbox = .offline :: rest)
      (hd : s.drain = some dl) (ho : s.online = false) :
      Step s { s with inbox := rest, drain := none } [.polled .offline, .event .cancelled]
  | drainDrop (s : St) (e : Ev) (rest : List Ev) (dl : Nat) (hi : s.inbox = e :: rest)
      (hd : s.drain = some dl) (he : e ≠ .offline) :
      Step s { s with inbox := rest } [.polled e, .dropped]
  | shutDrain (s : St) (hs : s.shut = true) (hd : s.drain = none) (ho : s.online = true) :
      Step s { s with shut := false, drain := some (s.vt + 1000) } []
  | shutNow (s : St) (hs : s.shut = true) (hd : s.drain = none) (ho : s.online = false) :
      Step s { s with shut := false } [.event .cancelled]
  | timeout (s : St) (dl : Nat) (hd : s.drain = some dl) (hh : dl ≤ s.horizon) :
      Step s { s with drain := none, vt := max s.vt dl } [.event .cancelled]
  | taskSub (s : St) (i : Nat) (t : Task) (dec : Dec) (ht : s.tasks[i]? = some t) (hp : t.pc = .subscribe) :
      Step s { s with nCalls := s.nCalls + 1,
                      tasks := s.tasks.set i { t with pc := (match dec with | .park => .subParked s.nCalls none | _ => .publish) } }
        [.sub i s.nCalls dec]
  | taskSubResumed (s : St) (i : Nat) (t : Task) (id : Nat) (r : Bool) (ht : s.tasks[i]? = some t)
      (hp : t.pc = .subParked id (some r)) :
      Step s { s with tasks := s.tasks.set i { t with pc := .publish } } []
  | taskPub (s : St) (i : Nat) (t : Task) (dec : Dec) (ht : s.tasks[i]? = some t) (hp : t.pc = .publish) :
      Step s { s with nCalls := s.nCalls + 1,
                      tasks := s.tasks.set i { t with pc := (match dec with | .park => .pubParked s.nCalls none | _ => afterPublish t) } }
        [.stateOn i s.nCalls t.ts dec]
  | taskPubResumed (s : St) (i : Nat) (t : Task) (id : Nat) (r : Bool) (ht : s.tasks[i]? = some t)
      (hp : t.pc = .pubParked id (some r)) :
      Step s { s with tasks := s.tasks.set i { t with pc := afterPublish t } } []
  | taskSetFlag (s : St) (i : Nat) (t : Task) (ht : s.tasks[i]? = some t) (hp : t.pc = .setFlag) :
      Step s { s with tasks := s.tasks.set i { t with pc := .done }, flag := true } [.flagSet i]
  | cancelStart (s : St) (dec : Dec) (hc : s.cStart ≠ 0) :
      Step s { s with cStart := s.cStart - 1, cSend := s.cSend + 1, nCalls := s.nCalls + 1 }
        [.stateOff s.nCalls s.now (tryDec dec)]
  | cancelSend (s : St) (hc : s.cSend ≠ 0) (hs : s.shut = false) :
      Step s { s with cSend := s.cSend - 1, cDisc := s.cDisc + 1, shut := true } []
  | cancelDisc (s : St) (dec : Dec) (hc : s.cDisc ≠ 0) :
      Step s { s with cDisc := s.cDisc - 1, nCalls := s.nCalls + 1 } [.disc s.nCalls (tryDec dec)]

theorem step_of_runAct {s : St} {a : Act} {s' : St} {o : List Obs} (h : runAct s a = some (s', o)) :
    Step s s' o := by
  cases a with
  | stim x =>
    cases x with
    | ev e => simp only [runAct, applyStim, Option.some.injEq, Prod.mk.injEq] at h; obtain ⟨rfl, rfl⟩ := h; exact .ev s e
    | clock n => simp only [runAct, applyStim, Option.some.injEq, Prod.mk.injEq] at h; obtain ⟨rfl, rfl⟩ := h; exact .clock s n
    | resolve id ok =>
      simp only [runAct, applyStim] at h
      split at h
      · rename_i hh
        simp only [Option.some.injEq, Prod.mk.injEq] at h; obtain ⟨rfl, rfl⟩ := h; exact .resolveHit s id ok hh
      · simp only [Option.some.injEq, Prod.mk.injEq] at h; obtain ⟨rfl, rfl⟩ := h; exact .noop s
    | cancel => simp only [runAct, applyStim, Option.some.injEq, Prod.mk.injEq] at h; obtain ⟨rfl, rfl⟩ := h; exact .cancelReq s
    | adv ms =>
      simp only [runAct, applyStim, Option.some.injEq, Prod.mk.injEq] at h; obtain ⟨rfl, rfl⟩ := h
      exact .time s s.vt (s.horizon + ms)
    | settle =>
      simp only [runAct, applyStim, Option.some.injEq, Prod.mk.injEq] at h; obtain ⟨rfl, rfl⟩ := h
      exact .time s _ _
  | task tk dec =>
    cases tk with
    | loopEvent =>
      simp only [runAct, step, loopEvent] at h
      split at h
      · cases h
      rename_i e rest hi
      try simp only [] at h
      split at h
      · -- outside the drain
        rename_i hd
        try simp only [] at hd
        cases e with
        | online =>
          simp only [handleEvent, handleOnline] at h
          split at h
          · rename_i ho
            simp only [Option.some.injEq, Prod.mk.injEq] at h; obtain ⟨rfl, rfl⟩ := h
            exact .pollQuiet s _ rest hi hd ho
          · rename_i ho
            simp only [Option.some.injEq, Prod.mk.injEq] at h; obtain ⟨rfl, rfl⟩ := h
            exact .pollOnline s rest hi hd (by simpa using ho)
        | offline =>
          simp only [handleEvent, handleOffline] at h
          split at h
          · rename_i ho
            simp only [Option.some.injEq, Prod.mk.injEq] at h; obtain ⟨rfl, rfl⟩ := h
            exact .pollQuiet s _ rest hi hd (by simpa [QuietEv] using ho)
          · rename_i ho
            simp only [Option.some.injEq, Prod.mk.injEq] at h; obtain ⟨rfl, rfl⟩ := h
            exact .pollOffline s rest hi hd (by simpa using ho)
        | state own on =>
          simp only [handleEvent] at h
          split at h
          · rename_i hf
            simp only [Option.some.injEq, Prod.mk.injEq] at h; obtain ⟨rfl, rfl⟩ := h
            simp only [Bool.and_eq_true, Bool.not_eq_true'] at hf
            obtain ⟨⟨hf, rfl⟩, rfl⟩ := hf
            exact .pollAnswer s rest hi hd hf
          · rename_i hf
            simp only [Option.some.injEq, Prod.mk.injEq] at h; obtain ⟨rfl, rfl⟩ := h
            exact .pollQuiet s _ rest hi hd (by simpa [QuietEv] using hf)
        | node =>
          simp only [handleEvent, Option.some.injEq, Prod.mk.injEq] at h; obtain ⟨rfl, rfl⟩ := h
          exact .pollNode s rest hi hd
        | junk =>
          simp only [handleEvent, Option.some.injEq, Prod.mk.injEq] at h; obtain ⟨rfl, rfl⟩ := h
          exact .pollQuiet s _ rest hi hd trivial
      · -- inside the drain
        rename_i dl hd
        try simp only [] at hd
        split at h
        · rename_i he
          subst he
          split at h
          · rename_i ho
            simp only [Option.some.injEq, Prod.mk.injEq] at h; obtain ⟨rfl, rfl⟩ := h
            exact .drainOffline s rest dl hi hd ho
          · rename_i ho
            simp only [Option.some.injEq, Prod.mk.injEq] at h; obtain ⟨rfl, rfl⟩ := h
            exact .drainOfflineOff s rest dl hi hd (by simpa using ho)
        · rename_i he
          simp only [Option.some.injEq, Prod.mk.injEq] at h; obtain ⟨rfl, rfl⟩ := h
          exact .drainDrop s e rest dl hi hd he
    | loopShutdown =>
      simp only [runAct, step, loopShutdown] at h
      split at h
      · rename_i hc
        simp only [Bool.and_eq_true, Option.isNone_iff_eq_none] at hc
        split at h
        · rename_i ho
          simp only [Option.some.injEq, Prod.mk.injEq] at h; obtain ⟨rfl, rfl⟩ := h
          exact .shutDrain s hc.1 hc.2 ho
        · rename_i ho
          simp only [Option.some.injEq, Prod.mk.injEq] at h; obtain ⟨rfl, rfl⟩ := h
          exact .shutNow s hc.1 hc.2 (by simpa using ho)
      · cases h
    | loopTimeout =>
      simp only [runAct, step, loopTimeout] at h
      split at h
      · rename_i dl hd
        split at h
        · rename_i hh
          simp only [Option.some.injEq, Prod.mk.injEq] at h; obtain ⟨rfl, rfl⟩ := h
          exact .timeout s dl hd hh
        · cases h
      · cases h
    | task i =>
      simp only [runAct, step, stepTask] at h
      split at h
      · cases h
      rename_i t ht
      split at h
      · rename_i hp
        simp only [setPc, Option.some.injEq, Prod.mk.injEq] at h; obtain ⟨rfl, rfl⟩ := h
        exact .taskSub s i t dec ht hp
      · rename_i id r hp
        simp only [setPc, Option.some.injEq, Prod.mk.injEq] at h; obtain ⟨rfl, rfl⟩ := h
        exact .taskSubResumed s i t id r ht hp
      · cases h
      · rename_i hp
        simp only [setPc, Option.some.injEq, Prod.mk.injEq] at h; obtain ⟨rfl, rfl⟩ := h
        exact .taskPub s i t dec ht hp
      · rename_i id r hp
        simp only [setPc, Option.some.injEq, Prod.mk.injEq] at h; obtain ⟨rfl, rfl⟩ := h
        exact .taskPubResumed s i t id r ht hp
      · cases h
      · rename_i hp
        simp only [setPc, Option.some.injEq, Prod.mk.injEq] at h; obtain ⟨rfl, rfl⟩ := h
        exact .taskSetFlag s i t ht hp
      · cases h
    | cancelStart =>
      simp only [runAct, step, cancelStart] at h
      split at h
      · cases h
      · rename_i hc
        simp only [Option.some.injEq, Prod.mk.injEq] at h; obtain ⟨rfl, rfl⟩ := h
        exact .cancelStart s dec hc
    | cancelSend =>
      simp only [runAct, step, cancelSend] at h
      split at h
      · cases h
      · rename_i hc
        simp only [Bool.or_eq_true, decide_eq_true_eq, not_or, Bool.not_eq_true] at hc
        simp only [Option.some.injEq, Prod.mk.injEq] at h; obtain ⟨rfl, rfl⟩ := h
        exact .cancelSend s hc.1 hc.2
    | cancelDisc =>
      simp only [runAct, step, cancelDisc] at h
      split at h
      · cases h
      · rename_i hc
        simp only [Option.some.injEq, Prod.mk.injEq] at h; obtain ⟨rfl, rfl⟩ := h
        exact .cancelDisc s dec hc

/-! ### fresh will on going offline -/

theorem fresh_step (s : St) (st : Nat × Bool) (a : Act) (s' : St) (o : List Obs)
    (hI : st.1 = s.now) (h : runAct s a = some (s', o)) :
    ∃ st' : Nat × Bool, st'.1 = s'.now ∧
      ∀ t, freshWillOk st'.1 st'.2 t = true → freshWillOk st.1 st.2 (o ++ t) = true := by
  obtain ⟨c, f⟩ := st
  simp only at hI; subst hI
  have hs := step_of_runAct h
  cases hs
  case pollOffline => exact ⟨(_, false), rfl, fun t ht => by simpa [freshWillOk] using ht⟩
  case drainOffline => exact ⟨(_, false), rfl, fun t ht => by simpa [freshWillOk] using ht⟩
  case clock n => exact ⟨(n, false), rfl, fun t ht => by simpa [freshWillOk] using ht⟩
  all_goals first
    | exact ⟨(_, f), rfl, fun t ht => by simpa [freshWillOk] using ht⟩
    | exact ⟨(_, false), rfl, fun t ht => by simpa [freshWillOk] using ht⟩

theorem fresh_runActs (acts : List Act) (s s' : St) (f : Bool) (tr : List Obs)
    (h : runActs s acts = some (s', tr)) : freshWillOk s.now f tr = true :=
  (runActs_scan (σ := Nat × Bool) (fun s st => st.1 = s.now) (fun st => freshWillOk st.1 st.2)
    (fun _ _ _ => rfl)
    (fun s st a s' o hI h => fresh_step s st a s' o hI h) acts s (s.now, f) s' tr rfl h).1

/-! ### cancel -/

theorem cancel_step (s : St) (st : Nat × Nat × Nat) (a : Act) (s' : St) (o : List Obs)
    (hI : st.1 = s.now ∧ st.2.1 = s.cStart ∧ st.2.2 = s.cSend + s.cDisc)
    (h : runAct s a = some (s', o)) :
    ∃ st' : Nat × Nat × Nat, (st'.1 = s'.now ∧ st'.2.1 = s'.cStart ∧ st'.2.2 = s'.cSend + s'.cDisc) ∧
      ∀ t, cancelOk st'.1 st'.2.1 st'.2.2 t = true → cancelOk st.1 st.2.1 st.2.2 (o ++ t) = true := by
  obtain ⟨c, r, p⟩ := st
  simp only at hI; obtain ⟨rfl, rfl, rfl⟩ := hI
  have hs := step_of_runAct h
  cases hs
  case cancelStart dec hc =>
    refine ⟨(_, _, _), ⟨rfl, rfl, rfl⟩, fun t ht => ?_⟩
    have h1 : s.cSend + s.cDisc + 1 = s.cSend + 1 + s.cDisc := by omega
    cases dec <;> simp [cancelOk, tryDec, Nat.pos_of_ne_zero hc, h1] <;> simpa using ht
  case cancelSend hc hs =>
    refine ⟨(_, _, _), ⟨rfl, rfl, rfl⟩, fun t ht => ?_⟩
    have h1 : s.cSend - 1 + (s.cDisc + 1) = s.cSend + s.cDisc := by omega
    simpa [h1] using ht
  case cancelDisc dec hc =>
    refine ⟨(_, _, _), ⟨rfl, rfl, rfl⟩, fun t ht => ?_⟩
    have h1 : s.cSend + s.cDisc - 1 = s.cSend + (s.cDisc - 1) := by omega
    have h2 : 0 < s.cSend + s.cDisc := by omega
    cases dec <;> simp [cancelOk, tryDec, h1, h2] <;> simpa using ht
  all_goals exact ⟨(_, _, _), ⟨rfl, rfl, rfl⟩, fun t ht => by simpa [cancelOk] using ht⟩

theorem cancel_runActs (acts : List Act) (s s' : St) (tr : List Obs)
    (h : runActs s acts = some (s', tr)) : cancelOk s.now s.cStart (s.cSend + s.cDisc) tr = true :=
  (runActs_scan (σ := Nat × Nat × Nat)
    (fun s st => st.1 = s.now ∧ st.2.1 = s.cStart ∧ st.2.2 = s.cSend + s.cDisc)
    (fun st => cancelOk st.1 st.2.1 st.2.2)
    (fun _ _ _ => rfl)
    (fun s st a s' o hI h => cancel_step s st a s' o hI h) acts s (_, _, _) s' tr ⟨rfl, rfl, rfl⟩ h).1

theorem counts_step {s s' : St} {o : List Obs} (hs : Step s s' o) :
    s'.cStart + nStateOff o = s.cStart + nCancelReq o ∧
    s'.cSend + s'.cDisc + nDisc o = s.cSend + s.cDisc + nStateOff o := by
  cases hs <;>
    simp [nStateOff, nCancelReq, nDisc, List.countP_cons, Obs.isStateOff, Obs.isCancelReq, Obs.isDisc] <;> omega

theorem counts_runActs : ∀ (acts : List Act) (s s' : St) (tr : List Obs),
    runActs s acts = some (s', tr) →
    s'.cStart + nStateOff tr = s.cStart + nCancelReq tr ∧
    s'.cSend + s'.cDisc + nDisc tr = s.cSend + s.cDisc + nStateOff tr
  | [], s, s', tr, h => by
    simp only [runActs, Option.some.injEq, Prod.mk.injEq] at h
    obtain ⟨rfl, rfl⟩ := h
    simp [nStateOff, nCancelReq, nDisc]
  | a :: as, s, s', tr, h => by
    simp only [runActs] at h
    split at h
    · cases h
    rename_i s1 o1 h1
    split at h
    · cases h
    rename_i s2 o2 h2
    simp only [Option.some.injEq, Prod.mk.injEq] at h
    obtain ⟨rfl, rfl⟩ := h
    have ha := counts_step (step_of_runAct h1)
    have hb := counts_runActs as s1 _ _ h2
    simp only [nStateOff, nCancelReq, nDisc, List.countP_append] at ha hb ⊢
    omega

/-! ### own offline STATE answered iff published -/

def OwnInv (s : St) (st : Bool × Nat × Bool) : Prop :=
  st.1 = s.flag ∧ st.2.1 = s.willTs ∧ (st.2.2 = true → s.flag = false)

theorem own_step (s : St) (st : Bool × Nat × Bool) (a : Act) (s' : St) (o : List Obs)
    (hI : OwnInv s st) (h : runAct s a = some (s', o)) :
    ∃ st' : Bool × Nat × Bool, OwnInv s' st' ∧
      ∀ t, ownOffOk st'.1 st'.2.1 st'.2.2 t = true → ownOffOk st.1 st.2.1 st.2.2 (o ++ t) = true := by
  obtain ⟨f, w, e⟩ := st
  obtain ⟨h1, h2, h3⟩ := hI
  simp only at h1 h2 h3; subst h1 h2
  have hs := step_of_runAct h
  cases hs
  case pollQuiet ev rest hi hd hq =>
    cases ev with
    | state own on =>
      by_cases hso : own = true ∧ on = false
      · obtain ⟨rfl, rfl⟩ := hso
        exact ⟨(_, _, true), ⟨rfl, rfl, by simpa [QuietEv] using hq⟩, fun t ht => by
          cases e <;> simp_all [ownOffOk]⟩
      · exact ⟨(_, _, false), ⟨rfl, rfl, by simp⟩, fun t ht => by
          cases e <;> cases own <;> cases on <;> simp_all [ownOffOk]⟩
    | _ => exact ⟨(_, _, false), ⟨rfl, rfl, by simp⟩, fun t ht => by cases e <;> simp_all [ownOffOk]⟩
  case drainDrop ev rest dl hi hd he =>
    exact ⟨(_, _, false), ⟨rfl, rfl, by simp⟩, fun t ht => by
      cases e <;> cases ev <;> simp_all [ownOffOk] <;> (rename_i own on; cases own <;> cases on <;> simp_all [ownOffOk])⟩
  case ev => exact ⟨(_, _, e), ⟨rfl, rfl, h3⟩, fun t ht => by simpa using ht⟩
  case noop => exact ⟨(_, _, e), ⟨rfl, rfl, h3⟩, fun t ht => by simpa using ht⟩
  case time => exact ⟨(_, _, e), ⟨rfl, rfl, h3⟩, fun t ht => by simpa using ht⟩
  case shutDrain => exact ⟨(_, _, e), ⟨rfl, rfl, h3⟩, fun t ht => by simpa using ht⟩
  case taskSubResumed => exact ⟨(_, _, e), ⟨rfl, rfl, h3⟩, fun t ht => by simpa using ht⟩
  case taskPubResumed => exact ⟨(_, _, e), ⟨rfl, rfl, h3⟩, fun t ht => by simpa using ht⟩
  case cancelSend => exact ⟨(_, _, e), ⟨rfl, rfl, h3⟩, fun t ht => by simpa using ht⟩
  all_goals exact ⟨(_, _, false), ⟨rfl, rfl, by simp⟩, fun t ht => by cases e <;> simp_all [ownOffOk]⟩

theorem own_runActs (acts : List Act) (s s' : St) (tr : List Obs)
    (h : runActs s acts = some (s', tr)) : ownOffOk s.flag s.willTs false tr = true :=
  (runActs_scan (σ := Bool × Nat × Bool) OwnInv (fun st => ownOffOk st.1 st.2.1 st.2.2)
    (fun s st hI => by
      obtain ⟨f, w, e⟩ := st
      obtain ⟨h1, h2, h3⟩ := hI
      simp only at h1 h2 h3; subst h1
      cases e <;> simp_all [ownOffOk])
    (fun s st a s' o hI h => own_step s st a s' o hI h) acts s (_, _, false) s' tr
      ⟨rfl, rfl, by simp⟩ h).1

/-! ### list helpers -/

theorem getElem?_set_of {α} {l : List α} {i k : Nat} {t t' : α} (ht : l[i]? = some t) :
    (l.set i t')[k]? = if i = k then some t' else l[k]? := by
  have hi : i < l.length := (List.getElem?_eq_some_iff.1 ht).1
  rw [List.getElem?_set]
  by_cases hik : i = k <;> simp [hik, hi]
  subst hik; exact hi

theorem getElem?_snoc {α} (l : List α) (x : α) (k : Nat) :
    (l ++ [x])[k]? = if k = l.length then some x else l[k]? := by
  by_cases hk : k = l.length
  · subst hk; simp
  · simp only [hk, if_false]
    by_cases hlt : k < l.length
    · rw [List.getElem?_append_left hlt]
    · have : l.length < k := by omega
      rw [List.getElem?_eq_none (by simp; omega), List.getElem?_eq_none (by omega)]

/-! ### the birth carries the timestamp captured at spawn -/

def capOf (s : St) (k : Nat) : Option Nat := (s.tasks[k]?).map Task.ts

theorem capOf_set {s : St} {i k : Nat} {t : Task} (p : Pc) (l : List Task) (hl : l = s.tasks)
    (ht : s.tasks[i]? = some t) :
    ((l.set i { t with pc := p })[k]?).map Task.ts = capOf s k := by
  subst hl
  unfold capOf
  rw [getElem?_set_of ht]
  by_cases hik : i = k
  · subst hik; simp [ht]
  · simp [hik]

theorem capOf_at {s : St} {k : Nat} {t : Task} (ht : s.tasks[k]? = some t) : capOf s k = some t.ts := by
  simp [capOf, ht]

theorem capOf_map (s : St) (k : Nat) (f : Pc → Pc) :
    (((s.tasks.map fun t => { t with pc := f t.pc })[k]?).map Task.ts) = capOf s k := by
  unfold capOf
  rw [List.getElem?_map]
  cases s.tasks[k]? <;> rfl

theorem capOf_snoc (s : St) (k : Nat) (x : Task) :
    (((s.tasks ++ [x])[k]?).map Task.ts) = if k = s.tasks.length then some x.ts else capOf s k := by
  unfold capOf
  rw [getElem?_snoc]
  by_cases hk : k = s.tasks.length <;> simp [hk]

theorem capOf_len (s : St) : capOf s s.tasks.length = none := by
  simp [capOf]

def TsInv (k : Nat) (s : St) (st : Option Nat × Option Nat) : Prop :=
  st.1 = some s.willTs ∧ st.2 = capOf s k

theorem ts_step (k : Nat) (s : St) (st : Option Nat × Option Nat) (a : Act) (s' : St) (o : List Obs)
    (hI : TsInv k s st) (h : runAct s a = some (s', o)) :
    ∃ st' : Option Nat × Option Nat, TsInv k s' st' ∧
      ∀ t, birthTsOk k st'.1 st'.2 t = true → birthTsOk k st.1 st.2 (o ++ t) = true := by
  obtain ⟨w, c⟩ := st
  obtain ⟨h1, h2⟩ := hI
  simp only at h1 h2; subst h1 h2
  have hs := step_of_runAct h
  have key : ∀ (i : Nat) (t : Task) (p : Pc) (o : List Obs) (s' : St),
      s.tasks[i]? = some t → s'.willTs = s.willTs → s'.tasks = s.tasks.set i { t with pc := p } →
      (∀ u, birthTsOk k (some s.willTs) (capOf s k) (o ++ u) = birthTsOk k (some s.willTs) (capOf s k) u) →
      ∃ st' : Option Nat × Option Nat, TsInv k s' st' ∧
        ∀ u, birthTsOk k st'.1 st'.2 u = true → birthTsOk k (some s.willTs) (capOf s k) (o ++ u) = true := by
    intro i t p o s' htk hw hts ho
    refine ⟨(some s.willTs, capOf s k), ⟨by simp [hw], ?_⟩, fun u hu => by rw [ho]; exact hu⟩
    simp only [capOf, hts]
    exact (capOf_set p s.tasks rfl htk).symm
  cases hs
  case pollOnline rest hi hd ho =>
    refine ⟨(some s.willTs, if k = s.tasks.length then some s.willTs else capOf s k), ⟨rfl, ?_⟩, fun t ht => ?_⟩
    · show _ = Option.map Task.ts _
      exact (capOf_snoc s k ⟨_, s.willTs, _⟩).symm
    · by_cases hk : k = s.tasks.length
      · subst hk; simpa [birthTsOk, capOf_len] using ht
      · have hk' : ¬ s.tasks.length = k := fun h => hk h.symm
        simpa [birthTsOk, hk, hk'] using ht
  case pollAnswer rest hi hd hf =>
    refine ⟨(some s.willTs, if k = s.tasks.length then some s.willTs else capOf s k), ⟨rfl, ?_⟩, fun t ht => ?_⟩
    · show _ = Option.map Task.ts _
      exact (capOf_snoc s k ⟨_, s.willTs, _⟩).symm
    · by_cases hk : k = s.tasks.length
      · subst hk; simpa [birthTsOk, capOf_len] using ht
      · have hk' : ¬ s.tasks.length = k := fun h => hk h.symm
        simpa [birthTsOk, hk, hk'] using ht
  case resolveHit id ok hh =>
    refine ⟨(some s.willTs, capOf s k), ⟨rfl, ?_⟩, fun t ht => by simpa [birthTsOk] using ht⟩
    exact (capOf_map s k _).symm
  case taskSub i t dec htk hp => exact key i t _ _ _ htk rfl rfl (fun u => by simp [birthTsOk])
  case taskSubResumed i t id r htk hp => exact key i t _ _ _ htk rfl rfl (fun u => by simp)
  case taskPub i t dec htk hp =>
    refine key i t _ _ _ htk rfl rfl (fun u => ?_)
    by_cases hik : i = k
    · subst hik; simp [birthTsOk, capOf_at htk]
    · simp [birthTsOk, hik]
  case taskPubResumed i t id r htk hp => exact key i t _ _ _ htk rfl rfl (fun u => by simp)
  case taskSetFlag i t htk hp => exact key i t _ _ _ htk rfl rfl (fun u => by simp [birthTsOk])
  case pollOffline => exact ⟨(some s.now, capOf s k), ⟨rfl, rfl⟩, fun t ht => by simpa [birthTsOk] using ht⟩
  case drainOffline => exact ⟨(some s.now, capOf s k), ⟨rfl, rfl⟩, fun t ht => by simpa [birthTsOk] using ht⟩
  all_goals exact ⟨(some s.willTs, capOf s k), ⟨rfl, rfl⟩, fun t ht => by simpa [birthTsOk] using ht⟩

theorem ts_runActs (k : Nat) (acts : List Act) (s s' : St) (tr : List Obs)
    (h : runActs s acts = some (s', tr)) :
    birthTsOk k (some s.willTs) (capOf s k) tr = true :=
  (runActs_scan (σ := Option Nat × Option Nat) (TsInv k) (fun st => birthTsOk k st.1 st.2)
    (fun _ _ _ => rfl)
    (fun s st a s' o hI h => ts_step k s st a s' o hI h) acts s (_, _) s' tr ⟨rfl, rfl⟩ h).1

/-! ### subscribe before birth -/

def phaseOf : Option Task → SubPhase
  | none => .unborn
  | some t =>
    if t.session then
      match t.pc with
      | .subscribe => .need
      | .subParked id none => .parked id
      | _ => .returned
    else .answer

/-- an answer task never stands at a subscribe -/
def AnsOk (t : Task) : Prop :=
  t.session = false → t.pc ≠ .subscribe ∧ ∀ id r, t.pc ≠ .subParked id r

def SbbInv (k : Nat) (s : St) (ph : SubPhase) : Prop :=
  ph = phaseOf s.tasks[k]? ∧ ∀ t, s.tasks[k]? = some t → AnsOk t

theorem sbb_set {k i : Nat} {s s' : St} {t : Task} {p : Pc} {o : List Obs} {ph : SubPhase}
    (htk : s.tasks[i]? = some t) (hts : s'.tasks = s.tasks.set i { t with pc := p })
    (hI : SbbInv k s ph)
    (hne : i ≠ k → ∀ u, subBeforeBirthOk k ph (o ++ u) = subBeforeBirthOk k ph u)
    (heq : i = k → AnsOk t → AnsOk { t with pc := p } ∧
      ∀ u, subBeforeBirthOk k (phaseOf (some { t with pc := p })) u = true →
        subBeforeBirthOk k (phaseOf (some t)) (o ++ u) = true) :
    ∃ ph', SbbInv k s' ph' ∧ ∀ u, subBeforeBirthOk k ph' u = true → subBeforeBirthOk k ph (o ++ u) = true := by
  obtain ⟨h1, h2⟩ := hI
  by_cases hik : i = k
  · subst hik
    have ha := h2 t htk
    obtain ⟨hb, hc⟩ := heq rfl ha
    refine ⟨phaseOf (some { t with pc := p }), ⟨?_, ?_⟩, fun u hu => ?_⟩
    · rw [hts, getElem?_set_of htk]; simp
    · intro t' ht'
      rw [hts, getElem?_set_of htk] at ht'
      simp only [if_true, Option.some.injEq] at ht'
      subst ht'; exact hb
    · rw [h1, htk]; exact hc u hu
  · refine ⟨ph, ⟨?_, ?_⟩, fun u hu => by rw [hne hik u]; exact hu⟩
    · rw [hts, getElem?_set_of htk]; simp [hik, h1]
    · intro t' ht'
      rw [hts, getElem?_set_of htk] at ht'
      simp only [hik, if_false] at ht'
      exact h2 t' ht'

theorem sbb_step (k : Nat) (s : St) (ph : SubPhase) (a : Act) (s' : St) (o : List Obs)
    (hI : SbbInv k s ph) (h : runAct s a = some (s', o)) :
    ∃ ph', SbbInv k s' ph' ∧
      ∀ t, subBeforeBirthOk k ph' t = true → subBeforeBirthOk k ph (o ++ t) = true := by
  have hs := step_of_runAct h
  cases hs
  case pollOnline rest hi hd ho =>
    obtain ⟨h1, h2⟩ := hI
    by_cases hk : k = s.tasks.length
    · subst hk
      refine ⟨.need, ⟨by simp [phaseOf], ?_⟩, fun t ht => ?_⟩
      · intro t' ht'; simp at ht'; subst ht'; simp [AnsOk]
      · simp at h1; subst h1; simpa [subBeforeBirthOk, phaseOf] using ht
    · have hk' : ¬ s.tasks.length = k := fun h => hk h.symm
      refine ⟨ph, ⟨?_, ?_⟩, fun t ht => by simpa [subBeforeBirthOk, hk'] using ht⟩
      · simp only [getElem?_snoc, hk, if_false]; exact h1
      · intro t' ht'; simp only [getElem?_snoc, hk, if_false] at ht'; exact h2 t' ht'
  case pollAnswer rest hi hd hf =>
    obtain ⟨h1, h2⟩ := hI
    by_cases hk : k = s.tasks.length
    · subst hk
      refine ⟨.answer, ⟨by simp [phaseOf], ?_⟩, fun t ht => ?_⟩
      · intro t' ht'; simp at ht'; subst ht'; simp [AnsOk]
      · simp at h1; subst h1; simpa [subBeforeBirthOk, phaseOf] using ht
    · have hk' : ¬ s.tasks.length = k := fun h => hk h.symm
      refine ⟨ph, ⟨?_, ?_⟩, fun t ht => by simpa [subBeforeBirthOk, hk'] using ht⟩
      · simp only [getElem?_snoc, hk, if_false]; exact h1
      · intro t' ht'; simp only [getElem?_snoc, hk, if_false] at ht'; exact h2 t' ht'
  case resolveHit id ok hh =>
    obtain ⟨h1, h2⟩ := hI
    refine ⟨phaseOf ((s.tasks.map fun t => { t with pc := resolvePc id ok t.pc })[k]?), ⟨rfl, ?_⟩, fun u hu => ?_⟩
    · intro t' ht'
      rw [List.getElem?_map] at ht'
      cases hk : s.tasks[k]? with
      | none => simp [hk] at ht'
      | some t0 =>
        simp only [hk, Option.map_some, Option.some.injEq] at ht'
        subst ht'
        have := h2 t0 hk
        intro hsess
        obtain ⟨ha, hb⟩ := this hsess
        obtain ⟨ses, ts, pc⟩ := t0
        cases pc <;> simp_all [resolvePc] <;> (rename_i j r; cases r <;> simp_all [resolvePc] <;> split <;> simp_all)
    · rw [List.getElem?_map] at hu
      subst h1
      cases hk : s.tasks[k]? with
      | none => simpa [hk, subBeforeBirthOk, phaseOf] using hu
      | some t0 =>
        simp only [hk, Option.map_some] at hu
        obtain ⟨ses, ts, pc⟩ := t0
        cases ses
        · simpa [subBeforeBirthOk, phaseOf] using hu
        · cases pc <;> simp_all [resolvePc, subBeforeBirthOk, phaseOf] <;>
            (rename_i j r; cases r <;> simp_all [resolvePc, subBeforeBirthOk, phaseOf] <;>
              (by_cases hj : j = id <;> simp_all [resolvePc, subBeforeBirthOk, phaseOf]))
  case taskSub i t dec htk hp =>
    refine sbb_set htk rfl hI (fun hik u => by simp [subBeforeBirthOk, hik]) (fun hik ha => ?_)
    subst hik
    have hses : t.session = true := by
      cases hs : t.session
      · exact absurd hp (ha hs).1
      · rfl
    refine ⟨by simp [AnsOk, hses], fun u hu => ?_⟩
    cases dec <;> simp_all [subBeforeBirthOk, phaseOf]
  case taskSubResumed i t id r htk hp =>
    refine sbb_set htk rfl hI (fun hik u => by simp) (fun hik ha => ?_)
    subst hik
    have hses : t.session = true := by
      cases hs : t.session
      · exact absurd hp ((ha hs).2 id (some r))
      · rfl
    refine ⟨by simp [AnsOk, hses], fun u hu => ?_⟩
    simp_all [subBeforeBirthOk, phaseOf]
  case taskPub i t dec htk hp =>
    refine sbb_set htk rfl hI (fun hik u => by simp [subBeforeBirthOk, hik]) (fun hik ha => ?_)
    subst hik
    refine ⟨?_, fun u hu => ?_⟩
    · intro hs; cases dec <;> simp_all [AnsOk, afterPublish]
    · cases hs : t.session <;> cases dec <;> simp_all [subBeforeBirthOk, phaseOf, afterPublish]
  case taskPubResumed i t id r htk hp =>
    refine sbb_set htk rfl hI (fun hik u => by simp) (fun hik ha => ?_)
    subst hik
    refine ⟨?_, fun u hu => ?_⟩
    · intro hs; simp_all [AnsOk, afterPublish]
    · cases hs : t.session <;> simp_all [subBeforeBirthOk, phaseOf, afterPublish]
  case taskSetFlag i t htk hp =>
    refine sbb_set htk rfl hI (fun hik u => by simp [subBeforeBirthOk]) (fun hik ha => ?_)
    subst hik
    refine ⟨?_, fun u hu => ?_⟩
    · intro hs; simp_all [AnsOk]
    · cases hs : t.session <;> simp_all [subBeforeBirthOk, phaseOf]
  all_goals exact ⟨ph, hI, fun t ht => by simpa [subBeforeBirthOk] using ht⟩

theorem sbb_runActs (k : Nat) (acts : List Act) (s s' : St) (tr : List Obs)
    (hI : ∀ t, s.tasks[k]? = some t → AnsOk t)
    (h : runActs s acts = some (s', tr)) :
    subBeforeBirthOk k (phaseOf s.tasks[k]?) tr = true :=
  (runActs_scan (σ := SubPhase) (SbbInv k) (subBeforeBirthOk k)
    (fun _ _ _ => rfl)
    (fun s st a s' o hI h => sbb_step k s st a s' o hI h) acts s _ s' tr ⟨rfl, hI⟩ h).1

/-! ### the flag is stored only after the birth has returned -/

def bphaseOf : Option Task → BirthPhase
  | none => .notYet
  | some t =>
    match t.pc with
    | .pubParked id none => .parked id
    | .pubParked _ (some _) => .returned
    | .setFlag => .returned
    | .done => .returned
    | _ => .notYet

theorem fab_set {k i : Nat} {s s' : St} {t : Task} {p : Pc} {o : List Obs} {ph : BirthPhase}
    (htk : s.tasks[i]? = some t) (hts : s'.tasks = s.tasks.set i { t with pc := p })
    (hI : ph = bphaseOf s.tasks[k]?)
    (hne : i ≠ k → ∀ u, flagAfterBirthOk k ph (o ++ u) = flagAfterBirthOk k ph u)
    (heq : i = k → ∀ u, flagAfterBirthOk k (bphaseOf (some { t with pc := p })) u = true →
        flagAfterBirthOk k (bphaseOf (some t)) (o ++ u) = true) :
    ∃ ph', ph' = bphaseOf s'.tasks[k]? ∧
      ∀ u, flagAfterBirthOk k ph' u = true → flagAfterBirthOk k ph (o ++ u) = true := by
  by_cases hik : i = k
  · subst hik
    refine ⟨bphaseOf (some { t with pc := p }), ?_, fun u hu => ?_⟩
    · rw [hts, getElem?_set_of htk]; simp
    · rw [hI, htk]; exact heq rfl u hu
  · refine ⟨ph, ?_, fun u hu => by rw [hne hik u]; exact hu⟩
    rw [hts, getElem?_set_of htk]; simp [hik, hI]

theorem fab_step (k : Nat) (s : St) (ph : BirthPhase) (a : Act) (s' : St) (o : List Obs)
    (hI : ph = bphaseOf s.tasks[k]?) (h : runAct s a = some (s', o)) :
    ∃ ph', ph' = bphaseOf s'.tasks[k]? ∧
      ∀ t, flagAfterBirthOk k ph' t = true → flagAfterBirthOk k ph (o ++ t) = true := by
  have hs := step_of_runAct h
  cases hs
  case pollOnline rest hi hd ho =>
    by_cases hk : k = s.tasks.length
    · subst hk
      refine ⟨.notYet, by simp [bphaseOf], fun t ht => ?_⟩
      simp at hI; subst hI; simpa [flagAfterBirthOk, bphaseOf] using ht
    · refine ⟨ph, ?_, fun t ht => by simpa [flagAfterBirthOk] using ht⟩
      simp only [getElem?_snoc, hk, if_false]; exact hI
  case pollAnswer rest hi hd hf =>
    by_cases hk : k = s.tasks.length
    · subst hk
      refine ⟨.notYet, by simp [bphaseOf], fun t ht => ?_⟩
      simp at hI; subst hI; simpa [flagAfterBirthOk, bphaseOf] using ht
    · refine ⟨ph, ?_, fun t ht => by simpa [flagAfterBirthOk] using ht⟩
      simp only [getElem?_snoc, hk, if_false]; exact hI
  case resolveHit id ok hh =>
    refine ⟨bphaseOf ((s.tasks.map fun t => { t with pc := resolvePc id ok t.pc })[k]?), rfl, fun u hu => ?_⟩
    rw [List.getElem?_map] at hu
    subst hI
    cases hk : s.tasks[k]? with
    | none => simpa [hk, flagAfterBirthOk, bphaseOf] using hu
    | some t0 =>
      simp only [hk, Option.map_some] at hu
      obtain ⟨ses, ts, pc⟩ := t0
      cases pc <;> simp_all [resolvePc, flagAfterBirthOk, bphaseOf] <;>
        (rename_i j r; cases r <;> simp_all [resolvePc, flagAfterBirthOk, bphaseOf] <;>
          (by_cases hj : j = id <;> simp_all [resolvePc, flagAfterBirthOk, bphaseOf]))
  case taskSub i t dec htk hp =>
    refine fab_set htk rfl hI (fun hik u => by simp [flagAfterBirthOk]) (fun hik u hu => ?_)
    cases dec <;> simp_all [flagAfterBirthOk, bphaseOf]
  case taskSubResumed i t id r htk hp =>
    refine fab_set htk rfl hI (fun hik u => by simp) (fun hik u hu => ?_)
    simp_all [flagAfterBirthOk, bphaseOf]
  case taskPub i t dec htk hp =>
    refine fab_set htk rfl hI (fun hik u => by simp [flagAfterBirthOk, hik]) (fun hik u hu => ?_)
    cases hs : t.session <;> cases dec <;> simp_all [flagAfterBirthOk, bphaseOf, afterPublish]
  case taskPubResumed i t id r htk hp =>
    refine fab_set htk rfl hI (fun hik u => by simp) (fun hik u hu => ?_)
    cases hs : t.session <;> simp_all [flagAfterBirthOk, bphaseOf, afterPublish]
  case taskSetFlag i t htk hp =>
    refine fab_set htk rfl hI (fun hik u => by simp [flagAfterBirthOk, hik]) (fun hik u hu => ?_)
    simp_all [flagAfterBirthOk, bphaseOf]
  all_goals exact ⟨ph, hI, fun t ht => by simpa [flagAfterBirthOk] using ht⟩

theorem fab_runActs (k : Nat) (acts : List Act) (s s' : St) (tr : List Obs)
    (h : runActs s acts = some (s', tr)) :
    flagAfterBirthOk k (bphaseOf s.tasks[k]?) tr = true :=
  (runActs_scan (σ := BirthPhase) (fun s ph => ph = bphaseOf s.tasks[k]?) (flagAfterBirthOk k)
    (fun _ _ _ => rfl)
    (fun s st a s' o hI h => fab_step k s st a s' o hI h) acts s _ s' tr rfl h).1

/-! ### the sequential model is a schedule of the LTS -/

open Srad.HostLoop (Str SubCfg)

theorem snoc_get {α} (l : List α) (x : α) : (l ++ [x])[l.length]? = some x := by simp
theorem snoc_set {α} (l : List α) (x y : α) : (l ++ [x]).set l.length y = l ++ [y] := by
  induction l with
  | nil => rfl
  | cons a l ih => simp [List.set, ih]

def RefOk (cfg : SubCfg) (host : Str) (s : St) (i : HostLoop.In) (now : Nat) : Prop :=
  match runActs s (sched host s i now) with
  | none => False
  | some (s', o) => QS s' ∧ HostLoop.step cfg host (absSt s) i now = (absSt s', effs cfg host o, rets o)

theorem qs_mk {s : St} (h1 : s.inbox = []) (h2 : ∀ t ∈ s.tasks, t.pc = .done)
    (h3 : s.cStart = 0 ∧ s.cSend = 0 ∧ s.cDisc = 0)
    (h6 : s.shut = true → s.drain.isSome = true) (h7 : s.drain.isSome = true → s.online = true)
    (h8 : s.vt ≤ s.horizon ∧ s.horizon < s.vt + 1000)
    (h10 : ∀ d, s.drain = some d → s.horizon < d ∧ d ≤ s.horizon + 1000) : QS s :=
  ⟨h1, h2, h3.1, h3.2.1, h3.2.2, h6, h7, h8.1, h8.2, h10⟩

theorem done_snoc {l : List Task} {x : Task} (h : ∀ t ∈ l, t.pc = .done) (hx : x.pc = .done) :
    ∀ t ∈ l ++ [x], t.pc = .done := by
  intro t ht
  rcases List.mem_append.1 ht with h' | h'
  · exact h t h'
  · simp at h'; subst h'; exact hx

theorem refine_ev (cfg : SubCfg) (host : Str) (s : St) (hq : QS s) (e : HostLoop.Ev) (now : Nat) :
    RefOk cfg host s (.ev e) now := by
  obtain ⟨online, willTs, flag, drain, shut, inbox, tasks, cStart, cSend, cDisc, nCalls, now0, vt, horizon⟩ := s
  obtain ⟨h1, h2, h3, h4, h5, h6, h7, h8, h9, h10⟩ := hq
  simp only at h1 h2 h3 h4 h5 h6 h7 h8 h9 h10
  subst h1 h3 h4 h5
  cases drain with
  | none =>
    have hsh : shut = false := by cases shut <;> simp_all
    subst hsh
    cases e with
    | state h on ts =>
      cases hh : (h == host) <;> cases on <;> cases flag <;>
      simp [RefOk, sched, evOf, runActs, runAct, applyStim, step, loopEvent, handleEvent, handleOnline,
        handleOffline, stepTask, setPc, afterPublish, snoc_get, snoc_set, hh] <;>
      refine ⟨qs_mk rfl (by first | exact h2 | exact done_snoc h2 rfl) ⟨rfl, rfl, rfl⟩ (by simp) (by simp) ⟨h8, h9⟩ (by simp), ?_⟩ <;>
      simp_all [HostLoop.step, HostLoop.handleEvent, HostLoop.handleOnline, HostLoop.handleOffline,
        HostLoop.updateLastWill, absSt, effs, rets, effOf, retOf, List.filterMap_cons]
    | _ =>
      cases online <;> cases flag <;>
      simp [RefOk, sched, evOf, runActs, runAct, applyStim, step, loopEvent, handleEvent, handleOnline,
        handleOffline, stepTask, setPc, afterPublish, snoc_get, snoc_set] <;>
      refine ⟨qs_mk rfl (by first | exact h2 | exact done_snoc h2 rfl) ⟨rfl, rfl, rfl⟩ (by simp) (by simp) ⟨h8, h9⟩ (by simp), ?_⟩ <;>
      simp_all [HostLoop.step, HostLoop.handleEvent, HostLoop.handleOnline, HostLoop.handleOffline,
        HostLoop.updateLastWill, absSt, effs, rets, effOf, retOf, List.filterMap_cons]
  | some dl =>
    have hon : online = true := by simpa using h7
    subst hon
    have hd := h10 dl rfl
    cases e with
    | offline =>
      cases shut <;>
      simp [RefOk, sched, evOf, runActs, runAct, applyStim, step, loopEvent, loopShutdown, handleEvent, handleOnline,
        handleOffline, stepTask, setPc, afterPublish, snoc_get, snoc_set] <;>
      refine ⟨qs_mk rfl h2 ⟨rfl, rfl, rfl⟩ (by simp) (by simp) ⟨h8, h9⟩ (by simp), ?_⟩ <;>
      simp_all [HostLoop.step, HostLoop.handleEvent, HostLoop.handleOnline, HostLoop.handleOffline,
        HostLoop.updateLastWill, HostLoop.endDrain, HostLoop.takeShutdown, absSt, effs, rets, effOf, retOf, List.filterMap_cons]
    | state h on ts =>
      cases hh : (h == host) <;> cases on <;>
      simp [RefOk, sched, evOf, runActs, runAct, applyStim, step, loopEvent, handleEvent, hh] <;>
      refine ⟨qs_mk rfl h2 ⟨rfl, rfl, rfl⟩ (by simpa using h6) (by simp) ⟨h8, h9⟩ (by simpa using hd), ?_⟩ <;>
      simp_all [HostLoop.step, absSt, effs, rets, effOf, retOf, List.filterMap_cons]
    | _ =>
      simp [RefOk, sched, evOf, runActs, runAct, applyStim, step, loopEvent, handleEvent] <;>
      refine ⟨qs_mk rfl h2 ⟨rfl, rfl, rfl⟩ (by simpa using h6) (by simp) ⟨h8, h9⟩ (by simpa using hd), ?_⟩ <;>
      simp_all [HostLoop.step, absSt, effs, rets, effOf, retOf, List.filterMap_cons]

theorem refine_timeout (cfg : SubCfg) (host : Str) (s : St) (hq : QS s) (now : Nat) :
    RefOk cfg host s .timeout now := by
  obtain ⟨online, willTs, flag, drain, shut, inbox, tasks, cStart, cSend, cDisc, nCalls, now0, vt, horizon⟩ := s
  obtain ⟨h1, h2, h3, h4, h5, h6, h7, h8, h9, h10⟩ := hq
  simp only at h1 h2 h3 h4 h5 h6 h7 h8 h9 h10
  subst h1 h3 h4 h5
  cases drain with
  | none =>
    have hsh : shut = false := by cases shut <;> simp_all
    subst hsh
    simp [RefOk, sched, runActs, runAct, applyStim]
    refine ⟨qs_mk rfl h2 ⟨rfl, rfl, rfl⟩ (by simp) (by simp) ⟨h8, h9⟩ (by simp), ?_⟩
    simp [HostLoop.step, absSt, effs, rets, effOf, retOf, List.filterMap_cons]
  | some dl =>
    have hon : online = true := by simpa using h7
    subst hon
    have hd := h10 dl rfl
    have hdl : dl ≤ horizon + 1000 := hd.2
    cases shut <;>
    simp [RefOk, sched, runActs, runAct, applyStim, step, loopTimeout, loopShutdown, hdl] <;>
    refine ⟨qs_mk rfl h2 ⟨rfl, rfl, rfl⟩ (by simp) (by simp) (by simp <;> omega) (by simp <;> omega), ?_⟩ <;>
    simp [HostLoop.step, HostLoop.endDrain, HostLoop.takeShutdown, absSt, effs, rets, effOf, retOf, List.filterMap_cons]

theorem refine_cancel (cfg : SubCfg) (host : Str) (s : St) (hq : QS s) (now : Nat)
    (hi : ¬ (s.drain.isSome = true ∧ s.shut = true)) :
    RefOk cfg host s .cancel now := by
  obtain ⟨online, willTs, flag, drain, shut, inbox, tasks, cStart, cSend, cDisc, nCalls, now0, vt, horizon⟩ := s
  obtain ⟨h1, h2, h3, h4, h5, h6, h7, h8, h9, h10⟩ := hq
  simp only at h1 h2 h3 h4 h5 h6 h7 h8 h9 h10 hi
  subst h1 h3 h4 h5
  cases drain with
  | none =>
    have hsh : shut = false := by cases shut <;> simp_all
    subst hsh
    cases online <;>
    simp [RefOk, sched, runActs, runAct, applyStim, step, cancelStart, cancelSend, cancelDisc, loopShutdown, tryDec] <;>
    refine ⟨qs_mk rfl h2 ⟨rfl, rfl, rfl⟩ (by simp) (by simp) ⟨h8, h9⟩ (by simp <;> omega), ?_⟩ <;>
    simp [HostLoop.step, HostLoop.takeShutdown, absSt, effs, rets, effOf, retOf, List.filterMap_cons]
  | some dl =>
    have hon : online = true := by simpa using h7
    subst hon
    have hd := h10 dl rfl
    have hsh : shut = false := by cases shut <;> simp_all
    subst hsh
    simp [RefOk, sched, runActs, runAct, applyStim, step, cancelStart, cancelSend, cancelDisc, loopShutdown, tryDec]
    refine ⟨qs_mk rfl h2 ⟨rfl, rfl, rfl⟩ (by simp) (by simp) ⟨h8, h9⟩ (by simpa using hd), ?_⟩
    simp [HostLoop.step, HostLoop.takeShutdown, absSt, effs, rets, effOf, retOf, List.filterMap_cons]

theorem refine_step (cfg : SubCfg) (host : Str) (s : St) (hq : QS s) (i : HostLoop.In) (now : Nat)
    (hi : ¬ (i = .cancel ∧ s.drain.isSome = true ∧ s.shut = true)) : RefOk cfg host s i now := by
  cases i with
  | ev e => exact refine_ev cfg host s hq e now
  | timeout => exact refine_timeout cfg host s hq now
  | cancel => exact refine_cancel cfg host s hq now (fun h => hi ⟨rfl, h⟩)

theorem sched_acceptAll (host : Str) (s : St) (i : HostLoop.In) (now : Nat) :
    acceptAll (sched host s i now) = true := by
  cases i with
  | ev e =>
    simp only [sched]
    cases s.drain <;> cases evOf host e <;> simp [acceptAll] <;>
      (try (rename_i own on; cases own <;> cases on <;> simp)) <;> split <;> simp
  | timeout => simp only [sched]; cases s.drain <;> simp [acceptAll] <;> split <;> simp
  | cancel => simp only [sched]; split <;> simp [acceptAll]

theorem runActs_append : ∀ (a b : List Act) (s s1 s2 : St) (o1 o2 : List Obs),
    runActs s a = some (s1, o1) → runActs s1 b = some (s2, o2) → runActs s (a ++ b) = some (s2, o1 ++ o2)
  | [], b, s, s1, s2, o1, o2, h1, h2 => by
    simp only [runActs, Option.some.injEq, Prod.mk.injEq] at h1
    obtain ⟨rfl, rfl⟩ := h1
    simpa using h2
  | x :: a, b, s, s1, s2, o1, o2, h1, h2 => by
    simp only [runActs] at h1
    split at h1
    · cases h1
    rename_i sa oa ha
    split at h1
    · cases h1
    rename_i sb ob hb
    simp only [Option.some.injEq, Prod.mk.injEq] at h1
    obtain ⟨rfl, rfl⟩ := h1
    have := runActs_append a b sa _ _ _ _ hb h2
    simp [runActs, ha, this]

theorem acceptAll_append (a b : List Act) : acceptAll (a ++ b) = (acceptAll a && acceptAll b) := by
  simp [acceptAll]

/-- no `cancel` is issued while two are outstanding (the sequential model does not follow the
third one, see `HostLoop.step`) -/
def noThirdCancel (cfg : SubCfg) (host : Str) : HostLoop.St → List HostLoop.Step → Prop
  | _, [] => True
  | a, x :: xs =>
    ¬ (x.inp = .cancel ∧ a.draining = true ∧ a.pending = true) ∧
      noThirdCancel cfg host (HostLoop.step cfg host a x.inp x.now).1 xs

theorem refine_exec (cfg : SubCfg) (host : Str) : ∀ (steps : List HostLoop.Step) (s : St), QS s →
    noThirdCancel cfg host (absSt s) steps →
    ∃ acts s' o, runActs s acts = some (s', o) ∧ acceptAll acts = true ∧ QS s' ∧
      HostLoop.exec cfg host (absSt s) steps = (absSt s', effs cfg host o, rets o)
  | [], s, hq, _ => ⟨[], s, [], rfl, rfl, hq, rfl⟩
  | x :: xs, s, hq, hn => by
    obtain ⟨hn1, hn2⟩ := hn
    have h1 := refine_step cfg host s hq x.inp x.now (by
      intro h; exact hn1 ⟨h.1, by simpa [absSt] using h.2.1, by simpa [absSt] using h.2.2⟩)
    unfold RefOk at h1
    split at h1
    · exact h1.elim
    rename_i s1 o1 hr
    obtain ⟨hq1, hst⟩ := h1
    rw [hst] at hn2
    obtain ⟨acts, s2, o2, hr2, ha2, hq2, he2⟩ := refine_exec cfg host xs s1 hq1 hn2
    refine ⟨sched host s x.inp x.now ++ acts, s2, o1 ++ o2, runActs_append _ _ _ _ _ _ _ hr hr2, ?_, hq2, ?_⟩
    · rw [acceptAll_append, sched_acceptAll, ha2]; rfl
    · simp only [HostLoop.exec, hst, he2, effs, rets, List.filterMap_append]

theorem qs_init (now0 : Nat) : QS (init now0) :=
  qs_mk rfl (by simp [init]) ⟨rfl, rfl, rfl⟩ (by simp [init]) (by simp [init]) (by simp [init]) (by simp [init])

theorem qs_quiescent {s : St} (hq : QS s) : quiescent s = true := by
  obtain ⟨h1, h2, h3, h4, h5, h6, h7, h8, h9, h10⟩ := hq
  simp only [quiescent, allTks, List.all_append, List.all_cons, List.all_nil, Bool.and_true, Bool.and_eq_true,
    List.all_map, List.all_eq_true, List.mem_range, Function.comp]
  refine ⟨⟨?_, ?_, ?_, ?_, ?_, ?_⟩, ?_⟩
  · simp [step, loopEvent, h1]
  · simp only [step, loopShutdown]
    cases hs : s.shut
    · simp
    · have := h6 hs
      cases hd : s.drain with
      | none => simp [hd] at this
      | some d => simp
  · simp only [step, loopTimeout]
    cases hd : s.drain with
    | none => simp
    | some d => have := (h10 d hd).1; simp; omega
  · simp [step, cancelStart, h3]
  · simp [step, cancelSend, h4]
  · simp [step, cancelDisc, h5]
  · intro i hi
    simp only [step, stepTask]
    have hm : s.tasks[i] ∈ s.tasks := List.getElem_mem hi
    have hp := h2 _ hm
    rw [List.getElem?_eq_getElem hi]
    simp [hp]

end Srad.HostLoopLts
