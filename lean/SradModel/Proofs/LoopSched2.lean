/-
Helper lemmas for `Props/C08Sched2.lean` (C08T_*).

Part S  `Safe`: no DBIRTH of a device that is not enabled is pending anywhere — preserved by every
        action except the operator's `enable` / `disable`; implies (H2) after quiescing.
Part T  `Heal` step by step: the only fault-free step that can leave `Heal` is a same-tick NCMD delivery.
-/
import SradModel.Proofs.LoopSched
import SradModel.Model.LoopSched2

namespace Srad.Loop
open Srad Srad.Host

/-! ## Part S — no DBIRTH of a disabled device is pending -/

/-- the host holds only devices of `E` birthed and buffers only DBIRTHs of devices of `E` -/
structure HeldIn (E : List Nat) (h : St) : Prop where
  held : ∀ d, (d, Life.birthed) ∈ h.devices → d ∈ E
  buf : ∀ x ∈ h.reseq.buf, RIn E x.2.2

theorem mem_setDev_host (d : Nat) (l : Life) (p : Nat × Life) : ∀ (L : List (Nat × Life)),
    p ∈ setDev d l L → p ∈ L ∨ p = (d, l) := by
  intro L
  induction L with
  | nil => intro h; cases h
  | cons a t ih =>
    obtain ⟨d', l'⟩ := a
    intro h
    simp only [setDev] at h
    split at h
    · rename_i he
      rcases List.mem_cons.mp h with h | h
      · right; rw [h, he]
      · left; exact List.mem_cons_of_mem _ h
    · rcases List.mem_cons.mp h with h | h
      · left; rw [h]; exact List.mem_cons_self ..
      · rcases ih h with h | h
        · left; exact List.mem_cons_of_mem _ h
        · right; exact h

theorem apply_held (E : List Nat) (s : St) (m : RMsg) (h : HeldIn E s) (hm : RIn E m) :
    HeldIn E (apply s m).1 := by
  refine ⟨?_, by rw [SeqP.apply_reseq]; exact h.buf⟩
  cases m with
  | ndata id ans => exact h.held
  | dbirth d id ans =>
    have hd : d ∈ E := hm
    have hpr : ∀ x, (x, Life.birthed) ∈
        (match findDev d s.devices with
          | some _ => (s.devices, ([] : List Eff))
          | none => (s.devices ++ [(d, Life.stale)], [Eff.devCreated d])).1 → x ∈ E := by
      intro x hx
      cases hf : findDev d s.devices with
      | some l => rw [hf] at hx; exact h.held x hx
      | none =>
        rw [hf] at hx
        rcases List.mem_append.mp hx with hx | hx
        · exact h.held x hx
        · simp at hx
    simp only [apply]
    by_cases ha : ans = .ok
    · simp only [ha, if_true]
      intro x hx
      rcases mem_setDev_host _ _ _ _ hx with hx | hx
      · exact hpr x hx
      · cases hx; exact hd
    · simp only [ha, if_false]
      exact hpr
  | ddeath d id =>
    simp only [apply]
    cases hf : findDev d s.devices with
    | none => exact h.held
    | some l =>
      intro x hx
      rcases mem_setDev_host _ _ _ _ hx with hx | hx
      · exact h.held x hx
      · cases hx
  | ddata d id ans =>
    simp only [apply]
    cases hf : findDev d s.devices with
    | none => exact h.held
    | some l => cases l <;> exact h.held

theorem drainBuf_held (E : List Nat) (c : Cfg) (now : Nat) (fuel : Nat) : ∀ (released : Bool) (s : St) (acc : List Eff),
    HeldIn E s → HeldIn E (drainBuf c now fuel released s acc).1 := by
  induction fuel with
  | zero => intro released s acc h; exact h
  | succ fuel ih =>
    intro released s acc h
    rw [C07P.drainBuf_succ]
    have hdm := drain_mem s.reseq
    have hset : ∀ r', (Reseq.drain s.reseq).1 = r' → HeldIn E { s with reseq := r' } := by
      intro r' hr'
      subst hr'
      exact ⟨h.held, fun x hx => h.buf x (hdm.1 x hx)⟩
    split
    · rename_i r' m hd
      have hb1 := hset r' (by rw [hd])
      obtain ⟨k, hk⟩ := hdm.2 m (by rw [hd])
      have hm : RIn E m.2 := h.buf (k, m) hk
      have hap := apply_held E { s with reseq := r' } m.2 hb1 hm
      split
      · rename_i s1 e1 happ
        rw [happ] at hap
        exact ih true s1 _ hap
      · rename_i s1 e1 r happ
        rw [happ] at hap
        exact hap
    · rename_i r' hd
      have hb1 := hset r' (by rw [hd])
      simp only [SeqP.cancelTimer_fst]
      exact ⟨hb1.held, hb1.buf⟩
    · rename_i r' hd
      have hb1 := hset r' (by rw [hd])
      split
      · simp only
        rw [SeqP.startTimer_fst, SeqP.cancelTimer_fst]
        exact ⟨hb1.held, hb1.buf⟩
      · exact hb1
    · rename_i r' hd
      exact hset r' (by rw [hd])

theorem handleRMsg_held (E : List Nat) (c : Cfg) (s : St) (seq ts : Nat) (m : RMsg) (now : Nat)
    (h : HeldIn E s) (hm : RIn E m) : HeldIn E (handleRMsg c s seq ts m now).1 := by
  rw [C07P.handleRMsg_eq]
  split
  · exact h
  split
  · exact h
  split
  · exact apply_held E s m h hm
  have hpc := Reseq.process_cases s.reseq seq (seq, m)
  split
  · rename_i r' hp
    have hb1 : HeldIn E { s with reseq := r' } := by
      refine ⟨h.held, ?_⟩
      rcases hpc with ⟨_, h'⟩ | ⟨s', h', _, k, hk⟩ | ⟨s', h', _, _⟩
      · rw [hp] at h'; cases h'
      · rw [hp] at h'; cases h'
        intro x hx
        simp only [hk] at hx
        rcases (Reseq.mem_insertSorted _ _ _ _).mp hx with rfl | hx
        · exact hm
        · exact h.buf x hx
      · rw [hp] at h'; cases h'
    split
    · simp only
      rw [SeqP.startTimer_fst]
      exact ⟨hb1.held, hb1.buf⟩
    · exact hb1
  · rename_i r' hp
    refine ⟨h.held, ?_⟩
    rcases hpc with ⟨_, h'⟩ | ⟨s', h', _, k, hk⟩ | ⟨s', h', _, hbuf⟩
    · rw [hp] at h'; cases h'
    · rw [hp] at h'; cases h'
    · rw [hp] at h'; cases h'
      intro x hx; simp only [hbuf] at hx; exact h.buf x hx
  · rename_i r' m' hp
    have hmr : m' = (seq, m) ∧ r'.buf = s.reseq.buf := by
      rcases hpc with ⟨_, h'⟩ | ⟨s', h', _, k, hk⟩ | ⟨s', h', _, hbuf⟩
      · rw [hp] at h'; cases h'; exact ⟨rfl, rfl⟩
      · rw [hp] at h'; cases h'
      · rw [hp] at h'; cases h'
    obtain ⟨rfl, hbuf⟩ := hmr
    have hb1 : HeldIn E { s with reseq := r' } :=
      ⟨h.held, fun x hx => by simp only [hbuf] at hx; exact h.buf x hx⟩
    have hap := apply_held E { s with reseq := r' } m hb1 hm
    split
    · rename_i s1 e1 r happ
      rw [happ] at hap
      exact hap
    · rename_i s1 e1 happ
      rw [happ] at hap
      exact drainBuf_held E c now _ false s1 e1 hap

theorem held_map_stale (E : List Nat) (D : List (Nat × Life)) :
    ∀ d, (d, Life.birthed) ∈ (D.map fun p => (p.1, Life.stale)) → d ∈ E := by
  intro d hd
  obtain ⟨p, _, hp⟩ := List.mem_map.mp hd
  cases hp

theorem setStale_held (E : List Nat) (s : St) (t : Nat) (h : HeldIn E s) : HeldIn E (setStale s t).1 := by
  rw [C07P.setStale_eq]
  split
  · exact h
  split
  · exact h
  · refine ⟨?_, ?_⟩
    · simp only [SeqP.cancelTimer_fst]
      exact held_map_stale E _
    · intro x hx
      simp only [SeqP.cancelTimer_fst, Reseq.init] at hx
      cases hx

theorem issueRebirth_held (E : List Nat) (c : Cfg) (s : St) (r : Reason) (now wall : Nat) (h : HeldIn E s) :
    HeldIn E (issueRebirth c s r now wall).1 := by
  rw [C07P.issueRebirth_eq]
  split
  · exact h
  split
  · exact h
  · exact setStale_held E { s with lastRebirth := wall } now ⟨h.held, h.buf⟩

/-- a host step keeps "only devices of `E` held birthed, only their DBIRTHs buffered" if the input is
not a DBIRTH of a device outside `E` -/
theorem step_held (E : List Nat) (c : Cfg) (s : St) (i : In) (now wall : Nat) (h : HeldIn E s) (hi : InIn E i) :
    HeldIn E (step c s i now wall).1 := by
  cases i with
  | nbirth ts bd id ans =>
    simp only [step]
    rw [C07P.handleBirth_eq]
    split
    · exact h
    split
    · exact issueRebirth_held E c s .invalidPayload now wall h
    · refine ⟨?_, ?_⟩
      · simp only [SeqP.cancelTimer_fst]
        exact held_map_stale E _
      · intro x hx
        simp [Reseq.setNext, Reseq.init] at hx
  | ndeath bd =>
    rw [C07P.step_ndeath_eq]
    have h0 : HeldIn E (cancelTimer s).1 := by rw [SeqP.cancelTimer_fst]; exact ⟨h.held, h.buf⟩
    have h1 := setStale_held E (cancelTimer s).1 now h0
    split
    · exact issueRebirth_held E c _ .outOfSyncBdSeq now wall h1
    · exact h1
  | rmsg seq ts m =>
    rw [C07P.step_rmsg_eq]
    have h1 := handleRMsg_held E c s seq ts m now h hi
    split
    · exact h1
    · exact issueRebirth_held E c _ _ now wall h1
  | offline => exact setStale_held E s now h
  | rebirthReq r => exact issueRebirth_held E c s r now wall h
  | timerFire =>
    simp only [step]
    split
    · exact issueRebirth_held E c _ _ now wall ⟨h.held, h.buf⟩
    · exact h

/-! ### node side -/

/-- the operation keeps the set of enabled devices and hands over only DBIRTHs of enabled devices -/
def OpEn (n : Node) (r : Node × List Msg) : Prop :=
  r.1.enabledNames = n.enabledNames ∧ ∀ m ∈ r.2, MsgIn n.enabledNames m

theorem OpEn_refl (n : Node) : OpEn n (n, []) := ⟨rfl, by simp⟩

theorem devBirth_msgs_en (rb : Bool) (ts : Nat) (n : Node) (x : Dev) (E : List Nat)
    (hx : x.enabled = true → x.name ∈ E) : ∀ m ∈ (Node.devBirth rb ts n x).2.2, MsgIn E m := by
  cases hen : x.enabled with
  | false => simp [Node.devBirth, hen]
  | true =>
    have hE := hx hen
    intro m hm
    unfold Node.devBirth at hm
    split at hm
    · simp at hm
    split at hm
    · simp at hm
    split at hm
    · simp at hm
    · simp only [List.mem_singleton] at hm
      subst hm
      exact hE

theorem birthDevs_msgs_en (rb : Bool) (ts : Nat) (E : List Nat) (l : List Dev) : ∀ n : Node,
    (∀ x ∈ l, x.enabled = true → x.name ∈ E) → ∀ m ∈ (Node.birthDevs rb ts n l).2.2, MsgIn E m := by
  induction l with
  | nil => intro n _ m hm; simp [Node.birthDevs] at hm
  | cons x t ih =>
    intro n hE m hm
    simp only [Node.birthDevs] at hm
    rcases List.mem_append.mp hm with hm | hm
    · exact devBirth_msgs_en rb ts n x E (hE x (List.mem_cons_self ..)) m hm
    · exact ih _ (fun y hy => hE y (List.mem_cons_of_mem _ hy)) m hm

theorem nodeBirth_en_op (rb : Bool) (ts : Nat) (n : Node) : OpEn n (Node.nodeBirth rb ts n) := by
  refine ⟨nodeBirth_en rb ts n, ?_⟩
  intro m hm
  simp only [Node.nodeBirth] at hm
  rcases List.mem_cons.mp hm with rfl | hm
  · trivial
  · refine birthDevs_msgs_en rb ts n.enabledNames n.devs _ ?_ m hm
    intro x hx hen
    simp only [Node.enabledNames, List.mem_map, List.mem_filter]
    exact ⟨x, ⟨hx, hen⟩, rfl⟩

theorem rebirth_en_op (ts : Nat) (n : Node) : OpEn n (n.rebirth ts) := by
  unfold Node.rebirth
  split
  · exact OpEn_refl n
  · exact nodeBirth_en_op true ts n

theorem goOnline_en_op (ts : Nat) (n : Node) : OpEn n (n.goOnline ts) := by
  unfold Node.goOnline
  split
  · exact OpEn_refl n
  · exact nodeBirth_en_op false ts { n with online := true }

theorem sig_enabledNames {n n' : Node} (h : sig n' = sig n) : n'.enabledNames = n.enabledNames := by
  rw [enabledNames_sig, enabledNames_sig, h]

theorem msgIn_data (E : List Nat) (m : Msg) (h : (Msg.dataShape m).isSome = true) : MsgIn E m := by
  cases m <;> first | trivial | (simp [Msg.dataShape] at h)

theorem pubNode_en_op (ts : Nat) (n : Node) : OpEn n (n.pubNode ts) := by
  refine ⟨sig_enabledNames (pubNode_sig ts n).1, ?_⟩
  unfold Node.pubNode
  split
  · simp
  · intro m hm
    simp only [List.mem_singleton] at hm
    subst hm; trivial

theorem pubDev_en_op (d ts : Nat) (n : Node) : OpEn n (n.pubDev d ts) := by
  refine ⟨sig_enabledNames (pubDev_sig d ts n).1, ?_⟩
  unfold Node.pubDev
  split
  · simp
  split
  · simp
  split
  · simp
  · intro m hm
    simp only [List.mem_singleton] at hm
    subst hm; trivial

/-! ### the composed system -/

/-- **no DBIRTH of a device that is not enabled is pending anywhere** (the `Prop` behind `Sys.safe`) -/
structure Safe (s : Sys) : Prop where
  host : HeldIn s.node.enabledNames s.host
  flight : ∀ m ∈ s.toHost, MsgIn s.node.enabledNames m

theorem Safe_send (s : Sys) (r : Node × List Msg) (h : Safe s) (hr : OpEn s.node r) : Safe (s.send r.1 r.2) := by
  refine ⟨?_, ?_⟩
  · show HeldIn r.1.enabledNames s.host
    rw [hr.1]; exact h.host
  · intro m hm
    show MsgIn r.1.enabledNames m
    rw [hr.1]
    have hm' : m ∈ s.toHost ++ r.2 := hm
    rcases List.mem_append.mp hm' with hm' | hm'
    · exact h.flight m hm'
    · exact hr.2 m hm'

theorem Safe_hostStep (s : Sys) (i : In) (h : Safe s) (hi : InIn s.node.enabledNames i) : Safe (s.hostStep i) :=
  ⟨step_held _ s.cfg s.host i s.clock s.clock h.host hi, h.flight⟩

theorem Safe_frame {s t : Sys} (h : Safe s) (h1 : t.node = s.node) (h2 : t.host = s.host)
    (h3 : ∀ m ∈ t.toHost, m ∈ s.toHost) : Safe t :=
  ⟨by rw [h1, h2]; exact h.host, by rw [h1]; exact fun m hm => h.flight m (h3 m hm)⟩

/-- **every action except `enable` / `disable` preserves `Safe`** — reordering, duplication, loss,
disconnects and manual rebirths included -/
theorem Safe_step (s : Sys) (a : Action) (h : Safe s) (ha : a.keepsSwitches = true) : Safe (s.step a) := by
  cases a with
  | publishNode => exact Safe_send s _ h (pubNode_en_op _ _)
  | publishDev d => exact Safe_send s _ h (pubDev_en_op _ _ _)
  | enable d => simp [Action.keepsSwitches] at ha
  | disable d => simp [Action.keepsSwitches] at ha
  | manualRebirth => exact Safe_send s _ h (rebirth_en_op _ _)
  | deliver k =>
    simp only [Sys.step]; split
    · exact h
    · rename_i m hm
      have hmem : m ∈ s.toHost := List.mem_of_getElem? hm
      have h1 : Safe { s with toHost := s.toHost.eraseIdx k } :=
        Safe_frame h rfl rfl (fun m' hm' => eraseIdx_mem _ _ _ hm')
      simp only [Sys.recv]; split
      · exact Safe_hostStep _ _ h1 (h.flight m hmem)
      · exact h1
  | duplicate k =>
    simp only [Sys.step]; split
    · exact h
    · rename_i m hm
      have hmem : m ∈ s.toHost := List.mem_of_getElem? hm
      refine Safe_frame h rfl rfl ?_
      intro m' hm'
      rcases List.mem_append.mp hm' with hm' | hm'
      · exact hm'
      · simp only [List.mem_singleton] at hm'; subst hm'; exact hmem
  | drop k =>
    simp only [Sys.step]; split
    · exact h
    · split
      · exact Safe_frame h rfl rfl (fun m' hm' => eraseIdx_mem _ _ _ hm')
      · exact h
  | deliverNcmd =>
    simp only [Sys.step]; split
    · exact h
    · have h1 : Safe { s with toNode := s.toNode - 1 } := Safe_frame h rfl rfl (fun _ hm => hm)
      split
      · exact Safe_send _ _ h1 (rebirth_en_op _ _)
      · exact h1
  | dropNcmd => exact Safe_frame h rfl rfl (fun _ hm => hm)
  | nodeDisconnect =>
    simp only [Sys.step]; split
    · exact h
    · have hn : s.node.goOffline.1.enabledNames = s.node.enabledNames := sig_enabledNames (goOffline_sig s.node)
      refine ⟨?_, ?_⟩
      · show HeldIn s.node.goOffline.1.enabledNames s.host
        rw [hn]; exact h.host
      · intro m hm
        show MsgIn s.node.goOffline.1.enabledNames m
        rw [hn]
        have hm' : m ∈ s.toHost ++ [Msg.ndeath s.will] := hm
        rcases List.mem_append.mp hm' with hm' | hm'
        · exact h.flight m hm'
        · simp only [List.mem_singleton] at hm'; subst hm'; trivial
  | nodeConnect =>
    simp only [Sys.step]; split
    · exact h
    · have h1 := Safe_send s _ h (goOnline_en_op s.clock s.node)
      exact ⟨h1.host, h1.flight⟩
  | hostDisconnect =>
    simp only [Sys.step]; split
    · exact h
    · have h1 := Safe_hostStep s .offline h trivial
      exact ⟨h1.host, h1.flight⟩
  | hostConnect => exact Safe_frame h rfl rfl (fun _ hm => hm)
  | advance ms =>
    simp only [Sys.step]
    have h1 : Safe { s with clock := s.clock + ms } := Safe_frame h rfl rfl (fun _ hm => hm)
    split
    · split
      · exact Safe_hostStep _ .timerFire h1 trivial
      · exact h1
    · exact h1

theorem Safe_run (σ : List Action) : ∀ s : Sys, Safe s → σ.all Action.keepsSwitches = true → Safe (s.run σ) := by
  induction σ with
  | nil => intro s h _; exact h
  | cons a t ih =>
    intro s h hall
    simp only [List.all_cons, Bool.and_eq_true] at hall
    exact ih _ (Safe_step s a h hall.1) hall.2

theorem ff_keeps (a : Action) (h : a.ff = true) : a.keepsSwitches = true := by
  cases a <;> first | rfl | (simp [Action.ff] at h)

theorem faultFree_keeps (σ : List Action) (h : FaultFree σ = true) : σ.all Action.keepsSwitches = true := by
  simp only [FaultFree, List.all_eq_true] at h ⊢
  exact fun a ha => ff_keeps a (h a ha)

theorem Safe_frun {s t : Sys} (h : Safe s) (hr : FRun s t) : Safe t := by
  obtain ⟨acts, hff, rfl⟩ := hr
  exact Safe_run acts s h (faultFree_keeps acts hff)

/-- `Safe` gives `DevsBelow` (and so (H2)) -/
theorem Safe.below {s : Sys} (h : Safe s) : DevsBelow s.host s.node :=
  fun d hd => h.host.held d (findDev_some_mem d _ _ hd)

/-- the executable predicate is the `Prop` -/
theorem safe_iff (s : Sys) : Sys.safe s = true ↔ Safe s := by
  simp only [Sys.safe, Bool.and_eq_true, List.all_eq_true]
  constructor
  · intro ⟨⟨h1, h2⟩, h3⟩
    refine ⟨⟨?_, ?_⟩, ?_⟩
    · intro d hd
      have := h1 (d, .birthed) hd
      simpa using this
    · intro x hx
      have := h2 x hx
      show RIn _ x.2.2
      cases hm : x.2.2 <;> simp only [RIn] <;> simp [hm, rmsgBirthOf] at this <;> first | trivial | exact this
    · intro m hm
      have := h3 m hm
      cases m <;> simp only [MsgIn, InIn, RIn, Msg.toIn] <;> simp [Msg.birthOf] at this <;> first | trivial | exact this
  · intro h
    refine ⟨⟨?_, ?_⟩, ?_⟩
    · intro p hp
      obtain ⟨d, l⟩ := p
      cases l with
      | stale => simp
      | birthed => simp [h.host.held d hp]
    · intro x hx
      have := h.host.buf x hx
      cases hm : x.2.2 <;> simp only [hm, RIn] at this <;> simp [rmsgBirthOf, this]
    · intro m hm
      have := h.flight m hm
      cases m <;> simp only [MsgIn, InIn, RIn, Msg.toIn] at this <;> simp [Msg.birthOf, this]

/-! ## Part T — `Heal`, step by step -/

theorem endA_bts : ∀ (l : List Msg) (a : Abs), (endA a l).bts = Sys.lastBirthTs a.bts l := by
  intro l
  induction l with
  | nil => intro a; rfl
  | cons m t ih =>
    intro a
    simp only [endA]
    rw [ih]
    cases m <;> simp only [simA, Sys.lastBirthTs] <;> (try split) <;> rfl

theorem pipe_eq (s : Sys) : (endA (absH s.host) s.toHost).bts = s.pipeBirthTs := endA_bts _ _

/-- **every fault-free step that is not a same-tick NCMD delivery preserves `Heal`** -/
theorem Heal.step_ok {d : Nat} {s : Sys} {b : Bool} (h : Heal d s b) (a : Action) (ha : a.ff = true)
    (hns : s.sameTickNcmd a = false) : Heal d (s.step a) false := by
  cases a with
  | publishNode => exact h.publishNode.weaken
  | publishDev dv => exact (h.publishDev dv).weaken
  | deliver k =>
    cases k with
    | zero => exact h.deliver.weaken
    | succ k => simp [Action.ff] at ha
  | advance k => exact (h.advance k).weaken
  | deliverNcmd =>
    by_cases h0 : s.toNode = 0
    · have : s.step .deliverNcmd = s := by simp [Sys.step, h0]
      rw [this]; exact h.weaken
    · have hlt : (endA (absH s.host) s.toHost).bts < s.clock := by
        rw [pipe_eq]
        simp only [Sys.sameTickNcmd, decide_true, Bool.true_and, Bool.and_eq_false_iff,
          decide_eq_false_iff_not] at hns
        rcases hns with hns | hns
        · exact absurd h0 (by simpa using hns)
        · omega
      have h' : Heal d s true :=
        ⟨h.cfg, h.nodeConn, h.hostConn, h.node, h.calm, h.good, h.inStep, h.bts, h.sts, fun _ => hlt⟩
      exact h'.deliverNcmd
  | hostConnect => rw [h.noop _ (Or.inl rfl)]; exact h.weaken
  | nodeConnect => rw [h.noop _ (Or.inr rfl)]; exact h.weaken
  | enable _ => simp [Action.ff] at ha
  | disable _ => simp [Action.ff] at ha
  | manualRebirth => simp [Action.ff] at ha
  | duplicate _ => simp [Action.ff] at ha
  | drop _ => simp [Action.ff] at ha
  | dropNcmd => simp [Action.ff] at ha
  | nodeDisconnect => simp [Action.ff] at ha
  | hostDisconnect => simp [Action.ff] at ha

theorem Heal.run_ok {d : Nat} (σ : List Action) : ∀ {s : Sys} {b : Bool}, Heal d s b → FaultFree σ = true →
    Sys.noSameTick s σ = true → Heal d (s.run σ) false := by
  induction σ with
  | nil => intro s b h _ _; exact h.weaken
  | cons a t ih =>
    intro s b h hff hns
    simp only [FaultFree, List.all_cons, Bool.and_eq_true] at hff
    simp only [Sys.noSameTick, Bool.and_eq_true, Bool.not_eq_true'] at hns
    exact ih (h.step_ok a hff.1 hns.1) hff.2 hns.2

/-- a reachable calm point is healing -/
theorem Reach.heal_of_calm {d : Nat} {s : Sys} (hr : Reach d s) (hfew : s.node.enabledNames.length < 255)
    (hc : Sys.calmPoint s = true) : Heal d s false := by
  simp only [Sys.calmPoint, Bool.and_eq_true, Bool.or_eq_true, decide_eq_true_eq, List.isEmpty_iff] at hc
  obtain ⟨⟨⟨⟨hn, hh⟩, he⟩, ht⟩, hcase⟩ := hc
  rcases hcase with hst | ⟨⟨hrs, hd1⟩, hd2⟩
  · exact hr.heal hfew hn hh he hst
  · have hon : s.node.online = true := by rw [← hr.conn.conn]; exact hn
    have hok : NodeOk s.node := hr.node.nodeOk hr.live.safe.bd (hr.conn.birthed hon) hfew
    have hinv := hr.live.safe.hostInv
    rcases life_cases s.host.life with hst | hlife
    · exact hr.heal hfew hn hh he hst
    have hq : Quiet d s := ⟨hr.live.safe.cfg, hn, hh, he, hok⟩
    refine SyncOk.heal hq ⟨⟨hlife, hrs, ht⟩, ?_, hinv.2.2, hr.live.birthTs, hr.live.staleTs⟩
    intro dv
    constructor
    · intro hf
      rw [List.all_eq_true] at hd2
      have := hd2 (dv, .birthed) (findDev_some_mem dv _ _ hf)
      simpa using this
    · exact devsAll_to _ _ hd1 dv

theorem take_drop_run (σ : List Action) (i : Nat) (s : Sys) : (s.run (σ.take i)).run (σ.drop i) = s.run σ := by
  rw [← run_append, List.take_append_drop]

/-- the syntactic condition `ticked` implies the exact one, from a healing state -/
theorem Heal.ticked_noSameTick {d : Nat} (σ : List Action) : ∀ {s : Sys} {b : Bool}, Heal d s b →
    FaultFree σ = true → ticked b σ = true → Sys.noSameTick s σ = true := by
  induction σ with
  | nil => intro s b _ _ _; rfl
  | cons a t ih =>
    intro s b h hff htk
    simp only [FaultFree, List.all_cons, Bool.and_eq_true] at hff
    obtain ⟨ha, hff⟩ := hff
    have hne : ∀ a', a' ≠ Action.deliverNcmd → Sys.sameTickNcmd s a' = false := by
      intro a' hne; simp [Sys.sameTickNcmd, hne]
    simp only [Sys.noSameTick, Bool.and_eq_true, Bool.not_eq_true']
    cases a with
    | publishNode => exact ⟨hne _ (by simp), ih h.publishNode hff htk⟩
    | publishDev dv => exact ⟨hne _ (by simp), ih (h.publishDev dv) hff htk⟩
    | deliver k =>
      cases k with
      | zero => exact ⟨hne _ (by simp), ih h.deliver hff htk⟩
      | succ k => simp [Action.ff] at ha
    | advance k => exact ⟨hne _ (by simp), ih (h.advance k) hff htk⟩
    | deliverNcmd =>
      simp only [ticked, Bool.and_eq_true] at htk
      obtain ⟨hb, htk⟩ := htk
      subst hb
      refine ⟨?_, ih h.deliverNcmd hff htk⟩
      have := h.tick rfl
      rw [pipe_eq] at this
      simp only [Sys.sameTickNcmd, Bool.and_eq_false_iff, decide_eq_false_iff_not]
      right; omega
    | hostConnect =>
      refine ⟨hne _ (by simp), ?_⟩
      rw [h.noop _ (Or.inl rfl)]; exact ih h hff htk
    | nodeConnect =>
      refine ⟨hne _ (by simp), ?_⟩
      rw [h.noop _ (Or.inr rfl)]; exact ih h hff htk
    | enable _ => simp [Action.ff] at ha
    | disable _ => simp [Action.ff] at ha
    | manualRebirth => simp [Action.ff] at ha
    | duplicate _ => simp [Action.ff] at ha
    | drop _ => simp [Action.ff] at ha
    | dropNcmd => simp [Action.ff] at ha
    | nodeDisconnect => simp [Action.ff] at ha
    | hostDisconnect => simp [Action.ff] at ha

/-- every action except `enable` / `disable` keeps the set of enabled devices -/
theorem keeps_enabledNames (s : Sys) (a : Action) (ha : a.keepsSwitches = true) :
    (s.step a).node.enabledNames = s.node.enabledNames := by
  cases a with
  | publishNode => exact (pubNode_en_op _ _).1
  | publishDev d => exact (pubDev_en_op _ _ _).1
  | enable d => simp [Action.keepsSwitches] at ha
  | disable d => simp [Action.keepsSwitches] at ha
  | manualRebirth => exact (rebirth_en_op _ _).1
  | deliver k =>
    simp only [Sys.step]; split
    · rfl
    · simp only [Sys.recv]; split <;> rfl
  | duplicate k => simp only [Sys.step]; split <;> rfl
  | drop k =>
    simp only [Sys.step]; split
    · rfl
    · split <;> rfl
  | deliverNcmd =>
    simp only [Sys.step]; split
    · rfl
    · split
      · exact (rebirth_en_op _ _).1
      · rfl
  | dropNcmd => rfl
  | nodeDisconnect =>
    simp only [Sys.step]; split
    · rfl
    · exact sig_enabledNames (goOffline_sig s.node)
  | nodeConnect =>
    simp only [Sys.step]; split
    · rfl
    · exact (goOnline_en_op _ _).1
  | hostDisconnect => simp only [Sys.step]; split <;> rfl
  | hostConnect => rfl
  | advance ms =>
    simp only [Sys.step]
    split
    · split <;> rfl
    · rfl

theorem run_keeps_enabledNames (σ : List Action) : ∀ s : Sys, σ.all Action.keepsSwitches = true →
    (s.run σ).node.enabledNames = s.node.enabledNames := by
  induction σ with
  | nil => intro s _; rfl
  | cons a t ih =>
    intro s hall
    simp only [List.all_cons, Bool.and_eq_true] at hall
    exact (ih _ hall.2).trans (keeps_enabledNames s a hall.1)

/-! ## Part U — recoverable: safe, or a newer NBIRTH in flight, or a rebirth still to come -/

theorem msgIn_of_birthOf (E : List Nat) (m : Msg) (h : ∀ dv, m.birthOf = some dv → dv ∈ E) : MsgIn E m := by
  cases m <;> first | trivial | exact h _ rfl

theorem birthOf_of_msgIn (E : List Nat) (m : Msg) (h : MsgIn E m) : ∀ dv, m.birthOf = some dv → dv ∈ E := by
  intro dv hb
  cases m <;> simp [Msg.birthOf] at hb
  subst hb; exact h

/-- a host step moves `birthTs` only to the timestamp of an NBIRTH it is given -/
theorem step_birthTs_lt (c : Cfg) (s : St) (i : In) (now wall B : Nat) (h : s.birthTs < B)
    (hi : ∀ ts bd id ans, i = .nbirth ts bd id ans → ts < B) : (step c s i now wall).1.birthTs < B := by
  cases i with
  | nbirth ts bd id ans =>
    have hts := hi ts bd id ans rfl
    simp only [step]
    rw [C07P.handleBirth_eq]
    split
    · exact h
    split
    · rw [(issueRebirth_clock c s .invalidPayload now wall).1]; exact h
    · exact hts
  | ndeath bd =>
    rw [C07P.step_ndeath_eq]
    have hk := C07P.cancelTimer_kept s
    have a1 := (C07P.setStale_fields (cancelTimer s).1 now).2.1
    have hb : (setStale (cancelTimer s).1 now).1.birthTs < B := by rw [a1, hk.2.1]; exact h
    split
    · rw [(issueRebirth_clock c _ .outOfSyncBdSeq now wall).1]; exact hb
    · exact hb
  | rmsg seq ts m =>
    rw [C07P.step_rmsg_eq]
    have hk := (C07P.handleRMsg_kept c s seq ts m now).1
    split
    · rw [hk.2.1]; exact h
    · rename_i r _
      rw [(issueRebirth_clock c _ r now wall).1, hk.2.1]; exact h
  | offline =>
    show (setStale s now).1.birthTs < B
    rw [(C07P.setStale_fields s now).2.1]; exact h
  | rebirthReq r =>
    show (issueRebirth c s r now wall).1.birthTs < B
    rw [(issueRebirth_clock c s r now wall).1]; exact h
  | timerFire =>
    simp only [step]
    split
    · rw [(issueRebirth_clock c { s with timer := .fired } .reorderTimeout now wall).1]; exact h
    · exact h

theorem Fresh_of_eq {s t : Sys} (h : s.FreshBirth) (h1 : t.toHost = s.toHost)
    (h2 : t.host.birthTs = s.host.birthTs) (h3 : t.node.enabledNames = s.node.enabledNames) : t.FreshBirth := by
  obtain ⟨pre, c, bd, id, post, hq, hb, hpre, hpost⟩ := h
  exact ⟨pre, c, bd, id, post, by rw [h1, hq], by rw [h2]; exact hb, hpre, by rw [h3]; exact hpost⟩

theorem Fresh_send (s : Sys) (r : Node × List Msg) (h : s.FreshBirth) (hr : OpEn s.node r) :
    (s.send r.1 r.2).FreshBirth := by
  obtain ⟨pre, c, bd, id, post, hq, hb, hpre, hpost⟩ := h
  refine ⟨pre, c, bd, id, post ++ r.2, ?_, hb, hpre, ?_⟩
  · show s.toHost ++ r.2 = _
    rw [hq]; simp
  · intro m hm
    show ∀ dv, m.birthOf = some dv → dv ∈ r.1.enabledNames
    rw [hr.1]
    rcases List.mem_append.mp hm with hm | hm
    · exact hpost m hm
    · exact birthOf_of_msgIn _ m (hr.2 m hm)

/-- delivering the oldest message while a newer NBIRTH is in flight: it still is, or it was the one
delivered and the state is `Safe` -/
theorem Fresh_deliver (s : Sys) (hh : s.hostConn = true) (h : s.FreshBirth) :
    Safe (s.step (.deliver 0)) ∨ (s.step (.deliver 0)).FreshBirth := by
  obtain ⟨pre, c, bd, id, post, hq, hb, hpre, hpost⟩ := h
  cases pre with
  | nil =>
    left
    have hq' : s.toHost = .nbirth c bd id :: post := hq
    rw [step_deliver0 s _ _ hh hq']
    obtain ⟨n1, _⟩ := step_nbirth s.cfg s.host c bd id s.clock hb
    refine ⟨?_, ?_⟩
    · show HeldIn s.node.enabledNames (step s.cfg s.host (.nbirth c bd id .ok) s.clock s.clock).1
      rw [n1]
      exact ⟨held_map_stale _ _, fun x hx => by cases hx⟩
    · intro m hm
      exact msgIn_of_birthOf _ m (hpost m hm)
  | cons m pre' =>
    right
    have hq' : s.toHost = m :: (pre' ++ .nbirth c bd id :: post) := hq
    rw [step_deliver0 s _ _ hh hq']
    refine ⟨pre', c, bd, id, post, rfl, ?_, fun ts b i hm => hpre ts b i (List.mem_cons_of_mem _ hm), hpost⟩
    show (step s.cfg s.host m.toIn s.clock s.clock).1.birthTs < c
    refine step_birthTs_lt _ _ _ _ _ c hb ?_
    intro ts b i ans he
    cases m <;> simp only [Msg.toIn] at he <;> cases he
    exact hpre ts b i (List.mem_cons_self ..)

theorem advance_fields (s : Sys) (k : Nat) :
    (s.step (.advance k)).toHost = s.toHost ∧ (s.step (.advance k)).node = s.node ∧
    (s.step (.advance k)).host.birthTs = s.host.birthTs ∧ (s.step (.advance k)).clock = s.clock + k ∧
    s.toNode ≤ (s.step (.advance k)).toNode := by
  simp only [Sys.step]
  split
  · split
    · refine ⟨rfl, rfl, ?_, rfl, ?_⟩
      · show (step s.cfg s.host .timerFire (s.clock + k) (s.clock + k)).1.birthTs = _
        simp only [step]
        split
        · exact (issueRebirth_clock _ _ _ _ _).1
        · rfl
      · simp only [Sys.hostStep]; split <;> omega
    · exact ⟨rfl, rfl, rfl, rfl, Nat.le_refl _⟩
  · exact ⟨rfl, rfl, rfl, rfl, Nat.le_refl _⟩

/-- fault-free steps keep both sides connected -/
theorem ff_conn (s : Sys) (a : Action) (ha : a.ff = true) (hn : s.nodeConn = true) (hh : s.hostConn = true) :
    (s.step a).nodeConn = true ∧ (s.step a).hostConn = true := by
  cases a with
  | publishNode => exact ⟨hn, hh⟩
  | publishDev _ => exact ⟨hn, hh⟩
  | deliver k =>
    cases hq : s.toHost[k]? with
    | none => simp [Sys.step, hq, hn, hh]
    | some m => simp [Sys.step, hq, Sys.recv, hh, Sys.hostStep, hn]
  | advance k =>
    have := advance_frame s k
    exact ⟨this.2.1.trans hn, this.2.2.trans hh⟩
  | deliverNcmd =>
    simp only [Sys.step]
    split
    · exact ⟨hn, hh⟩
    · first | exact ⟨hn, hh⟩ | (split <;> exact ⟨hn, hh⟩)
  | hostConnect => exact ⟨hn, rfl⟩
  | nodeConnect => simp [Sys.step, hn, hh]
  | enable _ => simp [Action.ff] at ha
  | disable _ => simp [Action.ff] at ha
  | manualRebirth => simp [Action.ff] at ha
  | duplicate _ => simp [Action.ff] at ha
  | drop _ => simp [Action.ff] at ha
  | dropNcmd => simp [Action.ff] at ha
  | nodeDisconnect => simp [Action.ff] at ha
  | hostDisconnect => simp [Action.ff] at ha

/-- recoverable and reachable -/
structure Rec (d : Nat) (s : Sys) : Prop where
  reach : Reach d s
  ok : Sys.Recoverable s

theorem hostConnect_id (s : Sys) (hh : s.hostConn = true) : s.step .hostConnect = s := by
  cases s; simp_all [Sys.step]

/-- **every fault-free step that is not a stale-tick NCMD delivery preserves `Rec`** -/
theorem Rec.step {d : Nat} {s : Sys} (h : Rec d s) (a : Action) (ha : a.ff = true)
    (hns : s.staleTickNcmd a = false) : Rec d (s.step a) := by
  obtain ⟨hn, hh, hcase⟩ := h.ok
  have hr' : Reach d (s.step a) := h.reach.steps (FRun.step s a ha).steps
  obtain ⟨hn', hh'⟩ := ff_conn s a ha hn hh
  refine ⟨hr', hn', hh', ?_⟩
  rcases hcase with hs | hf | h0
  · exact Or.inl ((safe_iff _).mpr (Safe_step s a ((safe_iff s).mp hs) (ff_keeps a ha)))
  · -- a newer NBIRTH is in flight
    cases a with
    | publishNode => exact Or.inr (Or.inl (Fresh_send s _ hf (pubNode_en_op _ _)))
    | publishDev dv => exact Or.inr (Or.inl (Fresh_send s _ hf (pubDev_en_op _ _ _)))
    | deliver k =>
      cases k with
      | zero =>
        rcases Fresh_deliver s hh hf with h1 | h1
        · exact Or.inl ((safe_iff _).mpr h1)
        · exact Or.inr (Or.inl h1)
      | succ k => simp [Action.ff] at ha
    | advance k =>
      obtain ⟨a1, a2, a3, _, _⟩ := advance_fields s k
      exact Or.inr (Or.inl (Fresh_of_eq hf a1 a3 (by rw [a2])))
    | deliverNcmd =>
      by_cases h0 : s.toNode = 0
      · have : s.step .deliverNcmd = s := by simp [Sys.step, h0]
        rw [this]; exact Or.inr (Or.inl hf)
      · have hs1 : s.step .deliverNcmd = ({ s with toNode := s.toNode - 1 } : Sys).send
            (s.node.rebirth s.clock).1 (s.node.rebirth s.clock).2 := by
          simp only [Sys.step, h0, if_false, hn, if_true]
        rw [hs1]
        exact Or.inr (Or.inl (Fresh_send _ _ (Fresh_of_eq hf rfl rfl rfl) (rebirth_en_op _ _)))
    | hostConnect => rw [hostConnect_id s hh]; exact Or.inr (Or.inl hf)
    | nodeConnect =>
      have : s.step .nodeConnect = s := by simp [Sys.step, hn]
      rw [this]; exact Or.inr (Or.inl hf)
    | enable _ => simp [Action.ff] at ha
    | disable _ => simp [Action.ff] at ha
    | manualRebirth => simp [Action.ff] at ha
    | duplicate _ => simp [Action.ff] at ha
    | drop _ => simp [Action.ff] at ha
    | dropNcmd => simp [Action.ff] at ha
    | nodeDisconnect => simp [Action.ff] at ha
    | hostDisconnect => simp [Action.ff] at ha
  · -- a rebirth NCMD is in flight
    by_cases hd : a = .deliverNcmd
    · subst hd
      simp only [Sys.staleTickNcmd, decide_true, Bool.true_and, Bool.and_eq_false_iff,
        decide_eq_false_iff_not, Bool.not_eq_false'] at hns
      have hall : s.allBirthsBefore = true := by
        rcases hns with hns | hns
        · exact absurd h0 hns
        · exact hns
      simp only [Sys.allBirthsBefore, Bool.and_eq_true, decide_eq_true_eq, List.all_eq_true] at hall
      have hon : s.node.online = true := by rw [← h.reach.conn.conn]; exact hn
      have hb : s.node.birthed = true := h.reach.conn.birthed hon
      have hs1 : s.step .deliverNcmd = ({ s with toNode := s.toNode - 1 } : Sys).send
          (s.node.rebirth s.clock).1 (s.node.rebirth s.clock).2 := by
        simp only [Sys.step, h0, if_false, hn, if_true]
      obtain ⟨bd, id, ms, hms⟩ : ∃ bd id ms, (s.node.rebirth s.clock).2 = .nbirth s.clock bd id :: ms := by
        simp [Node.rebirth, hb, Node.nodeBirth]
      have hop := rebirth_en_op s.clock s.node
      rw [hs1]
      refine Or.inr (Or.inl ⟨s.toHost, s.clock, bd, id, ms, ?_, hall.1, ?_, ?_⟩)
      · show s.toHost ++ (s.node.rebirth s.clock).2 = _
        rw [hms]
      · intro ts b i hm
        have := hall.2 _ hm
        simpa using this
      · intro m hm
        show ∀ dv, m.birthOf = some dv → dv ∈ (s.node.rebirth s.clock).1.enabledNames
        rw [hop.1]
        exact birthOf_of_msgIn _ m (hop.2 m (by rw [hms]; exact List.mem_cons_of_mem _ hm))
    · right; right
      have hmono : s.toNode ≤ (s.step a).toNode := by
        cases a with
        | publishNode => exact Nat.le_refl _
        | publishDev _ => exact Nat.le_refl _
        | deliver k =>
          cases hq : s.toHost[k]? with
          | none => simp [Sys.step, hq]
          | some m => simp [Sys.step, hq, Sys.recv, hh, Sys.hostStep]
        | advance k => exact (advance_fields s k).2.2.2.2
        | deliverNcmd => exact absurd rfl hd
        | hostConnect => exact Nat.le_refl _
        | nodeConnect => simp [Sys.step, hn]
        | enable _ => simp [Action.ff] at ha
        | disable _ => simp [Action.ff] at ha
        | manualRebirth => simp [Action.ff] at ha
        | duplicate _ => simp [Action.ff] at ha
        | drop _ => simp [Action.ff] at ha
        | dropNcmd => simp [Action.ff] at ha
        | nodeDisconnect => simp [Action.ff] at ha
        | hostDisconnect => simp [Action.ff] at ha
      omega

theorem Rec.run {d : Nat} (σ : List Action) : ∀ {s : Sys}, Rec d s → FaultFree σ = true →
    Sys.noStaleTick s σ = true → Rec d (s.run σ) := by
  induction σ with
  | nil => intro s h _ _; exact h
  | cons a t ih =>
    intro s h hff hns
    simp only [FaultFree, List.all_cons, Bool.and_eq_true] at hff
    simp only [Sys.noStaleTick, Bool.and_eq_true, Bool.not_eq_true'] at hns
    exact ih (h.step a hff.1 hns.1) hff.2 hns.2

theorem staleTick_ne (s : Sys) (a : Action) (h : a ≠ .deliverNcmd) : s.staleTickNcmd a = false := by
  simp [Sys.staleTickNcmd, h]

theorem Rec.deliverAll {d : Nat} : ∀ (k : Nat) {s : Sys}, Rec d s → Rec d (Sys.deliverAll k s) := by
  intro k
  induction k with
  | zero => intro s h; exact h
  | succ k ih => intro s h; exact ih (h.step _ rfl (staleTick_ne _ _ (by simp)))

/-- the NCMD cycle of `drainNet` (nothing in flight towards the host, the clock ticks first) -/
theorem Rec.cycle {d : Nat} {s : Sys} (h : Rec d s) (he : s.toHost = []) :
    Rec d ((s.step (.advance 1)).step .deliverNcmd) := by
  have h1 := h.step (.advance 1) rfl (staleTick_ne _ _ (by simp))
  refine h1.step .deliverNcmd rfl ?_
  obtain ⟨a1, _, a3, a4, _⟩ := advance_fields s 1
  have hall : (s.step (.advance 1)).allBirthsBefore = true := by
    simp only [Sys.allBirthsBefore, a1, he, List.all_nil, Bool.and_true, decide_eq_true_eq, a3, a4]
    have := h.reach.live.birthTs
    omega
  simp [Sys.staleTickNcmd, hall]

theorem Rec.drainNet {d : Nat} : ∀ (f : Nat) {s : Sys}, Rec d s → Rec d (Sys.drainNet f s) := by
  intro f
  induction f with
  | zero => intro s h; exact h.deliverAll _
  | succ f ih =>
    intro s h
    show Rec d (if (Sys.flush s).toNode = 0 then Sys.flush s else
      Sys.drainNet f (((Sys.flush s).step (.advance 1)).step .deliverNcmd))
    have hf : Rec d (Sys.flush s) := h.deliverAll _
    split
    · exact hf
    · exact ih (hf.cycle (flush_toHost s))

theorem Rec.quiesce {d : Nat} {s : Sys} (h : Rec d s) : Rec d (Sys.quiesce s) := by
  obtain ⟨hn, hh, _⟩ := h.ok
  have h1 : Sys.reconnect s = s := by simp [Sys.reconnect, hh, hn]
  have h2 : Rec d (Sys.drain (Sys.reconnect s)) := by rw [h1]; exact h.drainNet _
  have h3 : Rec d (Sys.timerPhase (Sys.drain (Sys.reconnect s))) := by
    unfold Sys.timerPhase
    split
    · exact h2.step _ rfl (staleTick_ne _ _ (by simp))
    · exact h2
  exact h3.drainNet _

/-- **recoverable ⇒ (H2) after quiescing** -/
theorem Rec.below {d : Nat} {s : Sys} (h : Rec d s) (hfew : s.node.enabledNames.length < 255) :
    DevsBelow (Sys.quiesce s).host (Sys.quiesce s).node := by
  have hq := h.quiesce
  have hp := firstPhase_spec d s h.reach hfew
  have he : (Sys.quiesce s).toHost = [] := hp.quiet.flight
  have h0 : (Sys.quiesce s).toNode = 0 := hp.toNode
  obtain ⟨_, _, hcase⟩ := hq.ok
  rcases hcase with hs | hf | hn
  · exact ((safe_iff _).mp hs).below
  · obtain ⟨pre, c, bd, id, post, hq', _⟩ := hf
    rw [he] at hq'
    cases pre <;> cases hq'
  · exact absurd h0 hn

/-! ### `ticked` implies "no stale-tick NCMD delivery" (both sides connected, reachable) -/

theorem allBefore_iff (s : Sys) : s.allBirthsBefore = true ↔
    s.host.birthTs < s.clock ∧ ∀ ts bd id, Msg.nbirth ts bd id ∈ s.toHost → ts < s.clock := by
  simp only [Sys.allBirthsBefore, Bool.and_eq_true, decide_eq_true_eq, List.all_eq_true]
  constructor
  · intro ⟨h1, h2⟩
    exact ⟨h1, fun ts bd id hm => by simpa using h2 _ hm⟩
  · intro ⟨h1, h2⟩
    refine ⟨h1, fun m hm => ?_⟩
    cases m <;> first | rfl | (simp; exact h2 _ _ _ hm)

theorem allBefore_send (s : Sys) (r : Node × List Msg) (h : s.allBirthsBefore = true)
    (hr : ∀ m ∈ r.2, (Msg.dataShape m).isSome = true) : (s.send r.1 r.2).allBirthsBefore = true := by
  rw [allBefore_iff] at h ⊢
  refine ⟨h.1, ?_⟩
  intro ts bd id hm
  have hm' : Msg.nbirth ts bd id ∈ s.toHost ++ r.2 := hm
  rcases List.mem_append.mp hm' with hm' | hm'
  · exact h.2 ts bd id hm'
  · have := hr _ hm'
    simp [Msg.dataShape] at this

theorem pubNode_data (ts : Nat) (n : Node) : ∀ m ∈ (n.pubNode ts).2, (Msg.dataShape m).isSome = true := by
  unfold Node.pubNode
  split
  · simp
  · intro m hm; simp only [List.mem_singleton] at hm; subst hm; rfl

theorem pubDev_data (d ts : Nat) (n : Node) : ∀ m ∈ (n.pubDev d ts).2, (Msg.dataShape m).isSome = true := by
  unfold Node.pubDev
  split
  · simp
  split
  · simp
  split
  · simp
  · intro m hm; simp only [List.mem_singleton] at hm; subst hm; rfl

theorem ticked_noStaleTick (d : Nat) (σ : List Action) : ∀ {s : Sys} {b : Bool}, Reach d s →
    s.nodeConn = true → s.hostConn = true → (b = true → s.allBirthsBefore = true) →
    FaultFree σ = true → ticked b σ = true → Sys.noStaleTick s σ = true := by
  induction σ with
  | nil => intro s b _ _ _ _ _ _; rfl
  | cons a t ih =>
    intro s b hr hn hh hP hff htk
    simp only [FaultFree, List.all_cons, Bool.and_eq_true] at hff
    obtain ⟨ha, hff⟩ := hff
    have hr' : Reach d (s.step a) := hr.steps (FRun.step s a ha).steps
    obtain ⟨hn', hh'⟩ := ff_conn s a ha hn hh
    simp only [Sys.noStaleTick, Bool.and_eq_true, Bool.not_eq_true']
    cases a with
    | publishNode =>
      exact ⟨staleTick_ne _ _ (by simp),
        ih hr' hn' hh' (fun hb => allBefore_send s _ (hP hb) (pubNode_data _ _)) hff htk⟩
    | publishDev dv =>
      exact ⟨staleTick_ne _ _ (by simp),
        ih hr' hn' hh' (fun hb => allBefore_send s _ (hP hb) (pubDev_data _ _ _)) hff htk⟩
    | deliver k =>
      cases k with
      | succ k => simp [Action.ff] at ha
      | zero =>
        refine ⟨staleTick_ne _ _ (by simp), ih hr' hn' hh' (fun hb => ?_) hff htk⟩
        have hall := (allBefore_iff s).mp (hP hb)
        cases hq : s.toHost with
        | nil => rw [deliver0_empty s hq]; exact hP hb
        | cons m tl =>
          rw [step_deliver0 s m tl hh hq, allBefore_iff]
          refine ⟨?_, fun ts bd id hm => hall.2 ts bd id (by rw [hq]; exact List.mem_cons_of_mem _ hm)⟩
          show (step s.cfg s.host m.toIn s.clock s.clock).1.birthTs < s.clock
          refine step_birthTs_lt _ _ _ _ _ _ hall.1 ?_
          intro ts bd id ans he
          cases m <;> simp only [Msg.toIn] at he <;> cases he
          exact hall.2 ts bd id (by rw [hq]; exact List.mem_cons_self ..)
    | advance k =>
      refine ⟨staleTick_ne _ _ (by simp), ih hr' hn' hh' (fun hb => ?_) hff htk⟩
      obtain ⟨a1, _, a3, a4, _⟩ := advance_fields s k
      rw [allBefore_iff, a1, a3, a4]
      simp only [Bool.or_eq_true, decide_eq_true_eq] at hb
      rcases hb with hb | hb
      · have hall := (allBefore_iff s).mp (hP hb)
        exact ⟨by omega, fun ts bd id hm => by have := hall.2 ts bd id hm; omega⟩
      · refine ⟨by have := hr.live.birthTs; omega, fun ts bd id hm => ?_⟩
        have : ts ≤ s.clock := hr.live.flightTs _ hm
        omega
    | deliverNcmd =>
      simp only [ticked, Bool.and_eq_true] at htk
      obtain ⟨hb, htk⟩ := htk
      refine ⟨?_, ih hr' hn' hh' (fun hb' => by cases hb') hff htk⟩
      simp [Sys.staleTickNcmd, hP hb]
    | hostConnect =>
      refine ⟨staleTick_ne _ _ (by simp), ?_⟩
      have : s.step .hostConnect = s := hostConnect_id s hh
      rw [this]; exact ih hr hn hh hP hff htk
    | nodeConnect =>
      refine ⟨staleTick_ne _ _ (by simp), ?_⟩
      have : s.step .nodeConnect = s := by simp [Sys.step, hn]
      rw [this]; exact ih hr hn hh hP hff htk
    | enable _ => simp [Action.ff] at ha
    | disable _ => simp [Action.ff] at ha
    | manualRebirth => simp [Action.ff] at ha
    | duplicate _ => simp [Action.ff] at ha
    | drop _ => simp [Action.ff] at ha
    | dropNcmd => simp [Action.ff] at ha
    | nodeDisconnect => simp [Action.ff] at ha
    | hostDisconnect => simp [Action.ff] at ha

end Srad.Loop
