import SradModel.Model.TemplSpec

namespace Srad.Templ
open Srad.Codec (Bytes Res Err DT PV KV)

theorem validDatatype_templateCode : validDatatype templateCode = true := by decide

/-! ### evaluation of the loop body, one lemma per path through the code -/

theorem checkMetric_nodt_plain (has : Bytes → Bool) (rest val) :
    checkMetric has (.plain rest none val) = .error .invalidDefinition := by
  simp [checkMetric]

theorem checkMetric_nodt_templ (has : Bytes → Bool) (rest v ref d ms ps) :
    checkMetric has (.templ rest none v ref d ms ps) = .error .invalidDefinition := by
  simp [checkMetric]

theorem checkMetric_baddt_plain (has : Bytes → Bool) (rest c val) (h : ¬ validDatatype c = true) :
    checkMetric has (.plain rest (some c) val) = .error .invalidDefinition := by
  simp [checkMetric, h]

theorem checkMetric_baddt_templ (has : Bytes → Bool) (rest c v ref d ms ps)
    (h : ¬ validDatatype c = true) :
    checkMetric has (.templ rest (some c) v ref d ms ps) = .error .invalidDefinition := by
  simp [checkMetric, h]

theorem checkMetric_other_plain (has : Bytes → Bool) (rest c val) (h : validDatatype c = true)
    (hc : c ≠ templateCode) : checkMetric has (.plain rest (some c) val) = .ok () := by
  simp [checkMetric, h, hc]

theorem checkMetric_other_templ (has : Bytes → Bool) (rest c v ref d ms ps)
    (h : validDatatype c = true) (hc : c ≠ templateCode) :
    checkMetric has (.templ rest (some c) v ref d ms ps) = .ok () := by
  simp [checkMetric, h, hc]

theorem checkMetric_tc_plain (has : Bytes → Bool) (rest val) :
    checkMetric has (.plain rest (some templateCode) val) = .error .invalidDefinition := by
  simp [checkMetric, validDatatype_templateCode]

theorem checkMetric_tc_noref (has : Bytes → Bool) (rest v d ms ps) :
    checkMetric has (.templ rest (some templateCode) v none d ms ps) = .error .invalidDefinition := by
  simp [checkMetric, validDatatype_templateCode]

theorem checkMetric_tc_unreg (has : Bytes → Bool) (rest v r d ms ps) (h : ¬ has r = true) :
    checkMetric has (.templ rest (some templateCode) v (some r) d ms ps) = .error .unregistered := by
  simp [checkMetric, validDatatype_templateCode, h]

theorem checkMetric_tc_reg (has : Bytes → Bool) (rest v r d ms ps) (h : has r = true) :
    checkMetric has (.templ rest (some templateCode) v (some r) d ms ps) = checkMetrics has ms := by
  simp [checkMetric, validDatatype_templateCode, h]

theorem checkMetrics_cons_err (has : Bytes → Bool) (m t e) (h : checkMetric has m = .error e) :
    checkMetrics has (m :: t) = .error e := by
  simp [checkMetrics, h]

theorem checkMetrics_cons_ok (has : Bytes → Bool) (m t) (h : checkMetric has m = .ok ()) :
    checkMetrics has (m :: t) = checkMetrics has t := by
  simp [checkMetrics, h]

/-! ### `check_template_metrics` against the declarative specification -/

/-- what the checker establishes about one metric -/
def Good (has : Bytes → Bool) (m : Metric) : Prop := WF m ∧ ∀ r, Nests m r → has r = true

theorem not_good_nodt_plain (has rest val) : ¬ Good has (.plain rest none val) := by
  rintro ⟨h, _⟩; cases h
theorem not_good_nodt_templ (has rest v ref d ms ps) : ¬ Good has (.templ rest none v ref d ms ps) := by
  rintro ⟨h, _⟩; cases h

mutual
theorem checkMetric_ok_iff (has : Bytes → Bool) : (m : Metric) →
    (checkMetric has m = .ok () ↔ Good has m)
  | .plain rest dt val => by
    cases dt with
    | none =>
      rw [checkMetric_nodt_plain]
      exact ⟨fun h => (nomatch h), fun h => absurd h (not_good_nodt_plain _ _ _)⟩
    | some c =>
      by_cases hv : validDatatype c = true
      · by_cases hc : c = templateCode
        · subst hc
          rw [checkMetric_tc_plain]
          refine ⟨fun h => (nomatch h), ?_⟩
          rintro ⟨h, _⟩; cases h; contradiction
        · rw [checkMetric_other_plain _ _ _ _ hv hc]
          exact ⟨fun _ => ⟨.plain hv hc, fun r h => by cases h⟩, fun _ => rfl⟩
      · rw [checkMetric_baddt_plain _ _ _ _ hv]
        refine ⟨fun h => (nomatch h), ?_⟩
        rintro ⟨h, _⟩; cases h; contradiction
  | .templ rest dt v ref d ms ps => by
    cases dt with
    | none =>
      rw [checkMetric_nodt_templ]
      exact ⟨fun h => (nomatch h), fun h => absurd h (not_good_nodt_templ _ _ _ _ _ _ _)⟩
    | some c =>
      by_cases hv : validDatatype c = true
      · by_cases hc : c = templateCode
        · subst hc
          cases ref with
          | none =>
            rw [checkMetric_tc_noref]
            refine ⟨fun h => (nomatch h), ?_⟩
            rintro ⟨h, _⟩; cases h; contradiction
          | some r =>
            by_cases hr : has r = true
            · rw [checkMetric_tc_reg _ _ _ _ _ _ _ hr, checkMetrics_ok_iff has ms]
              constructor
              · rintro h
                refine ⟨.templ (fun m hm => (h m hm).1), ?_⟩
                intro r' hn
                cases hn with
                | here => exact hr
                | deeper hm hn => exact (h _ hm).2 _ hn
              · rintro ⟨h1, h2⟩ m hm
                cases h1 with
                | skipped _ h => exact absurd rfl h
                | templ h1 => exact ⟨h1 m hm, fun r' hn => h2 r' (.deeper hm hn)⟩
            · rw [checkMetric_tc_unreg _ _ _ _ _ _ _ hr]
              refine ⟨fun h => (nomatch h), ?_⟩
              rintro ⟨_, h⟩
              exact absurd (h r .here) hr
        · rw [checkMetric_other_templ _ _ _ _ _ _ _ _ hv hc]
          refine ⟨fun _ => ⟨.skipped hv hc, fun r h => ?_⟩, fun _ => rfl⟩
          cases h <;> exact absurd rfl hc
      · rw [checkMetric_baddt_templ _ _ _ _ _ _ _ _ hv]
        refine ⟨fun h => (nomatch h), ?_⟩
        rintro ⟨h, _⟩
        cases h with
        | skipped h _ => exact absurd h hv
        | templ _ => exact absurd validDatatype_templateCode hv
theorem checkMetrics_ok_iff (has : Bytes → Bool) : (ms : List Metric) →
    (checkMetrics has ms = .ok () ↔ ∀ m ∈ ms, Good has m)
  | [] => by simp [checkMetrics]
  | m :: t => by
    have h1 := checkMetric_ok_iff has m
    have h2 := checkMetrics_ok_iff has t
    cases hm : checkMetric has m with
    | error e =>
      rw [checkMetrics_cons_err _ _ _ _ hm]
      refine ⟨fun h => (nomatch h), fun h => ?_⟩
      have := h1.2 (h m (List.mem_cons_self ..))
      rw [hm] at this; cases this
    | ok u =>
      cases u
      rw [checkMetrics_cons_ok _ _ _ hm, h2]
      have g := h1.1 hm
      constructor
      · intro h m' hm'
        cases hm' with
        | head => exact g
        | tail _ hh => exact h _ hh
      · intro h m' hm'
        exact h m' (List.mem_cons_of_mem _ hm')
end

/-- which error, and why: `UnregisteredMetric` only for a nested template that is not registered,
`InvalidDefinition` only for a malformed metric -/
def BadBecause (has : Bytes → Bool) (ms : List Metric) (e : RegErr) : Prop :=
  (e = .unregistered ∧ ∃ m ∈ ms, ∃ r, Nests m r ∧ has r = false) ∨
  (e = .invalidDefinition ∧ ∃ m ∈ ms, ¬ WF m)

mutual
theorem checkMetric_err (has : Bytes → Bool) : (m : Metric) → ∀ e, checkMetric has m = .error e →
    (e = .unregistered ∧ ∃ r, Nests m r ∧ has r = false) ∨ (e = .invalidDefinition ∧ ¬ WF m)
  | .plain rest dt val => by
    intro e he
    refine .inr ?_
    cases dt with
    | none =>
      rw [checkMetric_nodt_plain] at he; cases he
      exact ⟨rfl, fun h => nomatch h⟩
    | some c =>
      by_cases hv : validDatatype c = true
      · by_cases hc : c = templateCode
        · subst hc
          rw [checkMetric_tc_plain] at he; cases he
          refine ⟨rfl, fun h => ?_⟩
          cases h; contradiction
        · rw [checkMetric_other_plain _ _ _ _ hv hc] at he; cases he
      · rw [checkMetric_baddt_plain _ _ _ _ hv] at he; cases he
        refine ⟨rfl, fun h => ?_⟩
        cases h; contradiction
  | .templ rest dt v ref d ms ps => by
    intro e he
    cases dt with
    | none =>
      rw [checkMetric_nodt_templ] at he; cases he
      exact .inr ⟨rfl, fun h => nomatch h⟩
    | some c =>
      by_cases hv : validDatatype c = true
      · by_cases hc : c = templateCode
        · subst hc
          cases ref with
          | none =>
            rw [checkMetric_tc_noref] at he; cases he
            refine .inr ⟨rfl, fun h => ?_⟩
            cases h; contradiction
          | some r =>
            by_cases hr : has r = true
            · rw [checkMetric_tc_reg _ _ _ _ _ _ _ hr] at he
              rcases checkMetrics_err has ms e he with ⟨h1, m, hm, r', hn, hh⟩ | ⟨h1, m, hm, hw⟩
              · exact .inl ⟨h1, r', .deeper hm hn, hh⟩
              · refine .inr ⟨h1, fun h => ?_⟩
                cases h with
                | skipped _ h => exact absurd rfl h
                | templ h => exact hw (h m hm)
            · rw [checkMetric_tc_unreg _ _ _ _ _ _ _ hr] at he; cases he
              exact .inl ⟨rfl, r, .here, by simpa using hr⟩
        · rw [checkMetric_other_templ _ _ _ _ _ _ _ _ hv hc] at he; cases he
      · rw [checkMetric_baddt_templ _ _ _ _ _ _ _ _ hv] at he; cases he
        refine .inr ⟨rfl, fun h => ?_⟩
        cases h with
        | skipped h _ => exact absurd h hv
        | templ _ => exact absurd validDatatype_templateCode hv
theorem checkMetrics_err (has : Bytes → Bool) : (ms : List Metric) → ∀ e,
    checkMetrics has ms = .error e → BadBecause has ms e
  | [] => by intro e he; simp [checkMetrics] at he
  | m :: t => by
    intro e he
    cases hm : checkMetric has m with
    | error e' =>
      rw [checkMetrics_cons_err _ _ _ _ hm] at he; cases he
      rcases checkMetric_err has m e hm with ⟨h1, r, hn, hh⟩ | ⟨h1, hw⟩
      · exact .inl ⟨h1, m, List.mem_cons_self .., r, hn, hh⟩
      · exact .inr ⟨h1, m, List.mem_cons_self .., hw⟩
    | ok u =>
      cases u
      rw [checkMetrics_cons_ok _ _ _ hm] at he
      rcases checkMetrics_err has t e he with ⟨h1, m', hm', r, hn, hh⟩ | ⟨h1, m', hm', hw⟩
      · exact .inl ⟨h1, m', List.mem_cons_of_mem _ hm', r, hn, hh⟩
      · exact .inr ⟨h1, m', List.mem_cons_of_mem _ hm', hw⟩
end

/-- the checker is total: it returns `Ok` or one of the two errors -/
theorem checkMetrics_cases (has : Bytes → Bool) (ms : List Metric) :
    checkMetrics has ms = .ok () ∨ checkMetrics has ms = .error .unregistered ∨
    checkMetrics has ms = .error .invalidDefinition := by
  cases h : checkMetrics has ms with
  | ok u => cases u; exact .inl rfl
  | error e =>
    rcases checkMetrics_err has ms e h with ⟨h1, _⟩ | ⟨h1, _⟩ <;> subst h1 <;> simp

/-! ### registry -/

theorem has_nil (n : Bytes) : Registry.has [] n = false := rfl

theorem has_iff (r : Registry) (n : Bytes) : r.has n = true ↔ n ∈ r.names := by
  simp [Registry.has, Registry.names, List.any_eq_true]

theorem has_append (r s : Registry) (n : Bytes) : (r ++ s).has n = (r.has n || s.has n) := by
  simp [Registry.has, List.any_append]

theorem has_single (m n : Bytes) (d : TDef) : Registry.has [(m, d)] n = (m == n) := by
  simp [Registry.has]

theorem has_deregister (r : Registry) (n m : Bytes) :
    (deregister r n).has m = (r.has m && !(m == n)) := by
  induction r with
  | nil => rfl
  | cons e t ih =>
    simp only [deregister, List.filter_cons]
    by_cases h : e.1 = n
    · subst h
      simp only [beq_self_eq_true, Bool.not_true, Bool.false_eq_true, ↓reduceIte]
      have := ih; simp only [deregister] at this
      rw [this]
      simp only [Registry.has, List.any_cons]
      by_cases hm : e.1 = m
      · subst hm; simp
      · have : (e.1 == m) = false := by simpa using hm
        simp [this]
    · have hne : (e.1 == n) = false := by simpa using h
      simp only [hne, Bool.not_false, ↓reduceIte]
      have := ih; simp only [deregister] at this
      simp only [Registry.has, List.any_cons] at this ⊢
      rw [this]
      by_cases hm : e.1 = m
      · subst hm; simp [hne]
      · have : (e.1 == m) = false := by simpa using hm
        simp [this]

/-! #### the definition a name is registered with -/

theorem get?_none_iff (r : Registry) (n : Bytes) : r.get? n = none ↔ r.has n = false := by
  induction r with
  | nil => simp [Registry.get?, Registry.has]
  | cons e t ih =>
    simp only [Registry.get?, Registry.has, List.any_cons] at ih ⊢
    by_cases h : (e.1 == n) = true
    · simp [h]
    · have h' : (e.1 == n) = false := by simpa using h
      simp [h', ih]

theorem get?_append (r s : Registry) (n : Bytes) :
    (r ++ s).get? n = match r.get? n with | some d => some d | none => s.get? n := by
  induction r with
  | nil => simp [Registry.get?]
  | cons e t ih =>
    simp only [List.cons_append, Registry.get?]
    by_cases h : (e.1 == n) = true
    · simp [h]
    · have h' : (e.1 == n) = false := by simpa using h
      simp [h', ih]

theorem get?_single (m n : Bytes) (d : TDef) :
    Registry.get? [(m, d)] n = if m == n then some d else none := by
  simp [Registry.get?]

theorem get?_deregister (r : Registry) (n m : Bytes) :
    (deregister r n).get? m = if m == n then none else r.get? m := by
  induction r with
  | nil => simp [deregister, Registry.get?]
  | cons e t ih =>
    simp only [deregister, List.filter_cons] at ih ⊢
    by_cases h : e.1 = n
    · subst h
      simp only [beq_self_eq_true, Bool.not_true, Bool.false_eq_true, ↓reduceIte, ih,
        Registry.get?]
      by_cases hm : m = e.1
      · subst hm; simp
      · have h1 : (m == e.1) = false := by simpa using hm
        have h2 : (e.1 == m) = false := by simpa using fun h => hm h.symm
        simp [h1, h2]
    · have hne : (e.1 == n) = false := by simpa using h
      simp only [hne, Bool.not_false, ↓reduceIte, Registry.get?, ih]
      by_cases hm : e.1 = m
      · subst hm; simp [hne]
      · have h2 : (e.1 == m) = false := by simpa using hm
        simp [h2]

/-- the names announced are the names registered, each with the conversion of the definition it
is registered with -/
theorem mem_announced (r : Registry) (n : Bytes) (mv : MV) :
    (n, mv) ∈ announced r ↔ ∃ d, (n, d) ∈ r ∧ mv = defToMV d := by
  simp only [announced, List.mem_map, Prod.mk.injEq]
  constructor
  · rintro ⟨⟨n', d⟩, he, rfl, rfl⟩; exact ⟨d, he, rfl⟩
  · rintro ⟨d, he, rfl⟩; exact ⟨(n, d), he, rfl, rfl⟩

theorem register_ok_iff (r : Registry) (name : Bytes) (d : TDef) (r' : Registry) :
    register r name d = .ok r' ↔
      (reserved name = false ∧ r.has name = false ∧ d.WF ∧ (∀ ref, d.Nests ref → r.has ref = true))
      ∧ r' = r ++ [(name, d)] := by
  unfold register
  by_cases hres : reserved name = true
  · simp [hres]
  · have hres' : reserved name = false := by simpa using hres
    by_cases hdup : r.has name = true
    · simp [hres', hdup]
    · have hdup' : r.has name = false := by simpa using hdup
      simp only [hres', hdup', Bool.false_eq_true, ↓reduceIte, true_and]
      cases hc : checkMetrics r.has d.metrics with
      | error e =>
        simp only [reduceCtorEq, false_iff]
        rintro ⟨⟨hw, hn⟩, _⟩
        have : checkMetrics r.has d.metrics = .ok () :=
          (checkMetrics_ok_iff r.has d.metrics).2 (fun m hm => ⟨hw m hm, fun ref h => hn ref ⟨m, hm, h⟩⟩)
        rw [hc] at this; cases this
      | ok u =>
        cases u
        have g := (checkMetrics_ok_iff r.has d.metrics).1 hc
        have hw : d.WF := fun m hm => (g m hm).1
        have hn : ∀ ref, d.Nests ref → r.has ref = true := by
          rintro ref ⟨m, hm, h⟩; exact (g m hm).2 ref h
        simp only [Except.ok.injEq]
        constructor
        · intro h; exact ⟨⟨hw, hn⟩, h.symm⟩
        · rintro ⟨_, h⟩; exact h.symm

theorem register_err (r : Registry) (name : Bytes) (d : TDef) (e : RegErr)
    (h : register r name d = .error e) :
    (e = .invalidName ∧ reserved name = true) ∨
    (e = .duplicate ∧ reserved name = false ∧ r.has name = true) ∨
    (reserved name = false ∧ r.has name = false ∧ BadBecause r.has d.metrics e) := by
  unfold register at h
  by_cases hres : reserved name = true
  · simp [hres] at h; exact .inl ⟨h.symm, hres⟩
  · have hres' : reserved name = false := by simpa using hres
    by_cases hdup : r.has name = true
    · simp [hres', hdup] at h; exact .inr (.inl ⟨h.symm, hres', hdup⟩)
    · have hdup' : r.has name = false := by simpa using hdup
      simp only [hres', hdup', Bool.false_eq_true, ↓reduceIte] at h
      cases hc : checkMetrics r.has d.metrics with
      | error e' =>
        rw [hc] at h; cases h
        exact .inr (.inr ⟨hres', hdup', checkMetrics_err _ _ _ hc⟩)
      | ok u => cases u; rw [hc] at h; cases h

/-! closure -/

theorem closed_nil : Closed [] := by intro e he; cases he

theorem closed_register (r r' : Registry) (n : Bytes) (d : TDef) (hc : Closed r)
    (h : register r n d = .ok r') : Closed r' := by
  obtain ⟨⟨_, _, _, hn⟩, rfl⟩ := (register_ok_iff r n d r').1 h
  intro e he ref hr
  rw [has_append]
  rcases List.mem_append.1 he with he | he
  · simp [hc e he ref hr]
  · simp only [List.mem_singleton] at he; subst he
    simp [hn ref hr]

theorem closed_applyOp_register (r : Registry) (n : Bytes) (d : TDef) (hc : Closed r) :
    Closed (applyOp r (.register n d)) := by
  simp only [applyOp]
  cases h : register r n d with
  | error e => exact hc
  | ok r' => exact closed_register r r' n d hc h

/-- `Op` is not a `deregister` -/
def Op.keeps : Op → Bool
  | .deregister _ => false
  | _ => true

theorem closed_applyOps (ops : List Op) : ∀ (r : Registry), Closed r →
    (∀ o ∈ ops, o.keeps = true) → Closed (applyOps r ops) := by
  induction ops with
  | nil => intro r hc _; exact hc
  | cons o t ih =>
    intro r hc hk
    simp only [applyOps]
    refine ih _ ?_ (fun o' h => hk o' (List.mem_cons_of_mem _ h))
    cases o with
    | register n d => exact closed_applyOp_register r n d hc
    | deregister n => have := hk _ (List.mem_cons_self ..); simp [Op.keeps] at this
    | clear => exact closed_nil

theorem registrations_keep (as : List (Bytes × TDef)) : ∀ o ∈ registrations as, o.keeps = true := by
  intro o ho
  simp only [registrations, List.mem_map] at ho
  obtain ⟨a, _, rfl⟩ := ho
  rfl

/-! order of registration -/

theorem nestedBefore_nil : NestedBefore [] := by
  intro pre e post h
  have := congrArg List.length h
  simp at this

theorem nestedBefore_register (r r' : Registry) (n : Bytes) (d : TDef) (hb : NestedBefore r)
    (h : register r n d = .ok r') : NestedBefore r' := by
  obtain ⟨⟨_, _, _, hn⟩, rfl⟩ := (register_ok_iff r n d r').1 h
  intro pre e post heq ref hr
  rcases List.eq_nil_or_concat post with hp | ⟨post', x, hp⟩
  · subst hp
    have h2 : r ++ [(n, d)] = pre ++ [e] := heq
    have := List.append_inj' h2 rfl
    obtain ⟨h3, h4⟩ := this
    simp only [List.cons.injEq, and_true] at h4
    subst h3; subst h4
    exact hn ref hr
  · subst hp
    have h2 : r ++ [(n, d)] = (pre ++ e :: post') ++ [x] := by
      rw [heq]; simp [List.concat_eq_append]
    have := List.append_inj' h2 rfl
    exact hb pre e post' this.1 ref hr

theorem nestedBefore_applyRegs (as : List (Bytes × TDef)) : ∀ (r : Registry), NestedBefore r →
    NestedBefore (applyOps r (registrations as)) := by
  induction as with
  | nil => intro r h; exact h
  | cons a t ih =>
    intro r hb
    simp only [registrations, List.map_cons, applyOps]
    refine ih _ ?_
    simp only [applyOp]
    cases h : register r a.1 a.2 with
    | error e => exact hb
    | ok r' => exact nestedBefore_register r r' a.1 a.2 hb h

/-- names are never registered twice and never reserved -/
def NamesOk (r : Registry) : Prop := r.names.Nodup ∧ ∀ n ∈ r.names, reserved n = false

theorem namesOk_register (r r' : Registry) (n : Bytes) (d : TDef) (hk : NamesOk r)
    (h : register r n d = .ok r') : NamesOk r' := by
  obtain ⟨⟨hres, hdup, _, _⟩, rfl⟩ := (register_ok_iff r n d r').1 h
  have hnot : n ∉ r.names := by
    intro hm
    have := (has_iff r n).2 hm
    rw [hdup] at this; cases this
  constructor
  · simp only [Registry.names, List.map_append, List.map_cons, List.map_nil]
    rw [List.nodup_append]
    refine ⟨hk.1, by simp, ?_⟩
    intro a ha b hb
    simp only [List.mem_singleton] at hb
    subst hb
    intro hab; subst hab
    exact hnot ha
  · intro m hm
    simp only [Registry.names, List.map_append, List.map_cons, List.map_nil, List.mem_append,
      List.mem_singleton] at hm
    rcases hm with hm | hm
    · exact hk.2 m hm
    · subst hm; exact hres

theorem namesOk_deregister (r : Registry) (n : Bytes) (hk : NamesOk r) : NamesOk (deregister r n) := by
  have hsub : List.Sublist (deregister r n).names r.names := by
    simp only [Registry.names, deregister]
    exact (List.filter_sublist).map _
  exact ⟨hk.1.sublist hsub, fun m hm => hk.2 m (hsub.subset hm)⟩

theorem namesOk_applyOps (ops : List Op) : ∀ (r : Registry), NamesOk r → NamesOk (applyOps r ops) := by
  induction ops with
  | nil => intro r h; exact h
  | cons o t ih =>
    intro r hk
    simp only [applyOps]
    refine ih _ ?_
    cases o with
    | register n d =>
      simp only [applyOp]
      cases h : register r n d with
      | error e => exact hk
      | ok r' => exact namesOk_register r r' n d hk h
    | deregister n => exact namesOk_deregister r n hk
    | clear => exact ⟨List.nodup_nil, fun _ h => nomatch h⟩

/-! ### decoders -/

theorem defFromMV_templ (t : Tmpl) :
    defFromMV (.templ t) =
      if t.isDef = some true ∧ t.ref = none then
        .ok { version := t.version, metrics := t.metrics, params := t.params }
      else .err .value := by
  obtain ⟨v, ms, ps, ref, isDef⟩ := t
  cases ref <;> rcases isDef with _ | _ | _ <;> simp [defFromMV]

theorem instFromMV_templ (t : Tmpl) :
    instFromMV (.templ t) =
      match t.isDef, t.ref with
      | some false, some r =>
        .ok { ref := r, version := t.version, metrics := t.metrics, params := t.params }
      | _, _ => .err .value := by
  obtain ⟨v, ms, ps, ref, isDef⟩ := t
  cases ref <;> rcases isDef with _ | _ | _ <;> simp [instFromMV]

theorem valueFromMV_templ (t : Tmpl) :
    valueFromMV (.templ t) =
      match t.isDef, t.ref with
      | some true, none =>
        .ok (.definition { version := t.version, metrics := t.metrics, params := t.params })
      | some false, some r =>
        .ok (.inst { ref := r, version := t.version, metrics := t.metrics, params := t.params })
      | _, _ => .err .value := by
  obtain ⟨v, ms, ps, ref, isDef⟩ := t
  cases ref <;> rcases isDef with _ | _ | _ <;> simp [valueFromMV, defFromMV, instFromMV]

end Srad.Templ
