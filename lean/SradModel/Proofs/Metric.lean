import SradModel.Model.MetricSpec

namespace Srad.Metric
open Srad.Codec (Bytes DT)

/-! ### association lists as hash maps -/

theorem mapGet_mapInsert {α : Type} (m : List (Str × α)) (k k' : Str) (v : α) :
    mapGet (mapInsert m k v) k' = if k = k' then some v else mapGet m k' := by
  induction m with
  | nil => simp [mapInsert, mapGet]
  | cons h t ih =>
    obtain ⟨k0, v0⟩ := h
    by_cases h0 : k0 = k
    · subst h0
      by_cases h1 : k0 = k' <;> simp [mapInsert, mapGet, h1]
    · by_cases h1 : k = k'
      · subst h1
        simp [mapInsert, mapGet, h0, ih]
      · by_cases h2 : k0 = k'
        · subst h2
          simp [mapInsert, mapGet, h0, h1]
        · simp [mapInsert, mapGet, h0, h1, h2, ih]

theorem mapGet_eq_none_of_not_mem {α : Type} (m : List (Str × α)) (k : Str)
    (h : k ∉ m.map (·.1)) : mapGet m k = none := by
  induction m with
  | nil => rfl
  | cons x t ih =>
    obtain ⟨k0, v0⟩ := x
    simp only [List.map_cons, List.mem_cons, not_or] at h
    have : ¬ k0 = k := fun e => h.1 e.symm
    simp [mapGet, this, ih h.2]

theorem mapGet_eq_some_iff {α : Type} (m : List (Str × α)) (hn : (m.map (·.1)).Nodup) (k : Str) (v : α) :
    mapGet m k = some v ↔ (k, v) ∈ m := by
  induction m with
  | nil => simp [mapGet]
  | cons x t ih =>
    obtain ⟨k0, v0⟩ := x
    simp only [List.map_cons, List.nodup_cons] at hn
    by_cases h0 : k0 = k
    · subst h0
      simp only [mapGet, if_true, Option.some.injEq, List.mem_cons, Prod.mk.injEq, true_and]
      constructor
      · intro h; exact Or.inl h.symm
      · rintro (h | h)
        · exact h.symm
        · exact absurd (List.mem_map.mpr ⟨(k0, v), h, rfl⟩) hn.1
    · simp only [mapGet, h0, if_false, List.mem_cons, Prod.mk.injEq]
      rw [ih hn.2]
      constructor
      · intro h; exact Or.inr h
      · rintro (⟨h, _⟩ | h)
        · exact absurd h.symm h0
        · exact h

/-- a hash map read by key does not depend on its iteration order -/
theorem mapGet_perm {α : Type} (m m' : List (Str × α)) (hp : m'.Perm m)
    (hn : (m.map (·.1)).Nodup) (k : Str) : mapGet m' k = mapGet m k := by
  have hn' : (m'.map (·.1)).Nodup := (hp.map _).nodup_iff.mpr hn
  cases h : mapGet m k with
  | some v =>
    rw [mapGet_eq_some_iff m hn] at h
    rw [mapGet_eq_some_iff m' hn']
    exact hp.mem_iff.mpr h
  | none =>
    cases h' : mapGet m' k with
    | none => rfl
    | some v =>
      rw [mapGet_eq_some_iff m' hn'] at h'
      have := (mapGet_eq_some_iff m hn k v).mpr (hp.mem_iff.mp h')
      rw [h] at this; cases this

theorem mapInsert_keys_nodup {α : Type} (m : List (Str × α)) (k : Str) (v : α)
    (hn : (m.map (·.1)).Nodup) : ((mapInsert m k v).map (·.1)).Nodup := by
  induction m with
  | nil => simp [mapInsert]
  | cons x t ih =>
    obtain ⟨k0, v0⟩ := x
    simp only [List.map_cons, List.nodup_cons] at hn
    by_cases h0 : k0 = k
    · subst h0
      simpa [mapInsert] using hn
    · simp only [mapInsert, h0, if_false, List.map_cons, List.nodup_cons]
      refine ⟨?_, ih hn.2⟩
      intro hm
      obtain ⟨⟨k1, v1⟩, hmem, hk⟩ := List.mem_map.mp hm
      simp only at hk
      subst hk
      have hg : mapGet (mapInsert t k v) k1 = some v1 :=
        (mapGet_eq_some_iff _ (ih hn.2) k1 v1).mpr hmem
      rw [mapGet_mapInsert] at hg
      have hne : ¬ k = k1 := fun e => h0 e.symm
      simp only [hne, if_false] at hg
      have : k1 ∈ t.map (·.1) := by
        false_or_by_contra
        rename_i hc
        rw [mapGet_eq_none_of_not_mem t k1 hc] at hg
        cases hg
      exact hn.1 this

/-! ### encoding a property set -/

/-- `impl From<PropertyValue> for payload::PropertyValue` on one entry -/
def encEnt (e : UEnt) : PPV :=
  (e.2.1.map DT.code, e.2.2.nullFlag, encVal e.2.2)

theorem encKeys_eq_map (m : List UEnt) : encKeys m = m.map (·.1) := by
  induction m with
  | nil => rfl
  | cons h t ih => obtain ⟨k, d, v⟩ := h; simp [encKeys, ih]

theorem encEnts_eq_map (m : List UEnt) : encEnts m = m.map encEnt := by
  induction m with
  | nil => rfl
  | cons h t ih => obtain ⟨k, d, v⟩ := h; simp [encEnts, encEnt, ih]

theorem encSets_eq_map (l : List (List UEnt)) : encSets l = l.map encPS := by
  induction l with
  | nil => rfl
  | cons h t ih => simp [encSets, encPS, ih]

theorem ofCode_code (d : DT) : DT.ofCode d.code = some d := by
  cases d <;> rfl

theorem code_lt (d : DT) : d.code < 35 := by
  cases d <;> decide

theorem ofCode_isSome_iff (c : Nat) : (DT.ofCode c).isSome = true ↔ c < 35 := by
  unfold DT.ofCode
  have hl : DT.all.length = 35 := by decide
  constructor
  · intro h
    rcases Nat.lt_or_ge c 35 with h' | h'
    · exact h'
    · rw [List.getElem?_eq_none (by omega)] at h; cases h
  · intro h
    rw [List.getElem?_eq_getElem (by omega)]; rfl

theorem decPV_encEnt (e : UEnt) : decPV (encEnt e) = .ok (e.2.1, encVal e.2.2) := by
  obtain ⟨k, dt, v⟩ := e
  cases v <;> cases dt <;> simp [encEnt, decPV, pvValue, pvType, encVal, UVal.nullFlag, ofCode_code]

/-- the host's map for the edge's map `m`: one `insert` per entry, in iteration order -/
def hostView (m : UPS) : HMap :=
  m.foldl (fun a e => mapInsert a e.1 (e.2.1, encVal e.2.2)) []

theorem decLoop_enc (m : List UEnt) (acc : HMap) :
    decLoop (m.map (·.1)) (m.map encEnt) acc
      = .ok (m.foldl (fun a e => mapInsert a e.1 (e.2.1, encVal e.2.2)) acc) := by
  induction m generalizing acc with
  | nil => simp [decLoop]
  | cons h t ih =>
    simp only [List.map_cons, decLoop, decPV_encEnt, List.foldl_cons]
    exact ih _

theorem decPS_encPS (m : UPS) : decPS (encPS m) = .ok (hostView m) := by
  simp only [encPS, decPS, encKeys_eq_map, encEnts_eq_map, List.length_map, ne_eq,
    not_true_eq_false, if_false]
  exact decLoop_enc m []

theorem mapGet_foldl_insert {α β : Type} (f : α → β) (m : List (Str × α)) (acc : List (Str × β))
    (hn : (m.map (·.1)).Nodup) (k : Str) :
    mapGet (m.foldl (fun a e => mapInsert a e.1 (f e.2)) acc) k
      = match mapGet m k with
        | some v => some (f v)
        | none => mapGet acc k := by
  induction m generalizing acc with
  | nil => simp [mapGet]
  | cons x t ih =>
    obtain ⟨k0, v0⟩ := x
    simp only [List.map_cons, List.nodup_cons] at hn
    simp only [List.foldl_cons]
    rw [ih _ hn.2]
    by_cases h0 : k0 = k
    · subst h0
      rw [mapGet_eq_none_of_not_mem t k0 hn.1]
      simp [mapGet, mapGet_mapInsert]
    · simp only [mapGet, h0, if_false, mapGet_mapInsert]

theorem mapGet_hostView (m : UPS) (hn : UPS.KeysDistinct m) (k : Str) :
    mapGet (hostView m) k = (mapGet m k).map fun e => (e.1, encVal e.2) := by
  have := mapGet_foldl_insert (fun (e : Option DT × UVal) => (e.1, encVal e.2)) m [] hn k
  unfold hostView
  rw [this]
  cases mapGet m k <;> simp [mapGet]

/-- the host's map is the edge's map, whatever order the edge's hash map was iterated in -/
theorem props_roundtrip (m m' : UPS) (hp : m'.Perm m) (hn : UPS.KeysDistinct m) :
    ∃ h, decPS (encPS m') = .ok h ∧ PropsMatch m h := by
  refine ⟨hostView m', decPS_encPS m', ?_⟩
  intro k
  have hn' : UPS.KeysDistinct m' := (hp.map _).nodup_iff.mpr hn
  rw [mapGet_hostView m' hn' k, mapGet_perm m m' hp hn k]

theorem propsMatch_leaves (m : UPS) (h : HMap) (hm : PropsMatch m h) : PropsMatchLeaves m h := by
  refine ⟨?_, ?_, ?_⟩
  · intro k dt v hk; rw [hm k, hk]; simp [encVal]
  · intro k dt hk; rw [hm k, hk]; simp [encVal]
  · intro k hk; rw [hm k, hk]; rfl

/-! ### one metric: edge conversion, then the host's conversion -/

theorem metaSame_metaToPayload (m : EMeta) : MetaSame m (metaToPayload m) := by
  simp [MetaSame, metaToPayload]

/-- the host's details for the payload metric the (repaired) edge conversion produces -/
theorem detailsOf_edgeEncode (pm : PubMetric) :
    detailsOf (edgeEncode pm) = .ok
      { value := pm.value, properties := pm.properties.map hostView,
        metadata := pm.metadata.map metaToPayload, timestamp := pm.timestamp,
        isHistorical := pm.isHistorical.getD false, isTransient := pm.isTransient.getD false } := by
  obtain ⟨id, value, tr, hi, ts, md, props⟩ := pm
  cases id <;> cases value <;> cases props <;>
    simp [detailsOf, edgeEncode, PMetric.new, PMetric.setName, PMetric.setAlias, PMetric.setValue,
      PMetric.setNull, decPS_encPS]

theorem edgeEncode_alias (pm : PubMetric) :
    (edgeEncode pm).alias = match pm.id with | .alias a => some a | .name _ => none := by
  obtain ⟨id, value, tr, hi, ts, md, props⟩ := pm
  cases id <;> cases value <;>
    simp [edgeEncode, PMetric.new, PMetric.setName, PMetric.setAlias, PMetric.setValue, PMetric.setNull]

theorem edgeEncode_name (pm : PubMetric) :
    (edgeEncode pm).name = match pm.id with | .alias _ => none | .name n => some n := by
  obtain ⟨id, value, tr, hi, ts, md, props⟩ := pm
  cases id <;> cases value <;>
    simp [edgeEncode, PMetric.new, PMetric.setName, PMetric.setAlias, PMetric.setValue, PMetric.setNull]

/-- the entry the host derives from a published metric -/
def hostEntry (pm : PubMetric) : MetricId × Details :=
  (pm.id, { value := pm.value, properties := pm.properties.map hostView,
            metadata := pm.metadata.map metaToPayload, timestamp := pm.timestamp,
            isHistorical := pm.isHistorical.getD false, isTransient := pm.isTransient.getD false })

theorem idAndDetails_edge (ms : List PubMetric) :
    idAndDetails (ms.map edgeEncode) = .ok (ms.map hostEntry) := by
  induction ms with
  | nil => rfl
  | cons pm t ih =>
    simp only [List.map_cons, idAndDetails, detailsOf_edgeEncode, ih, edgeEncode_alias,
      edgeEncode_name]
    cases h : pm.id <;> simp [hostEntry, h]

theorem delivered_hostEntry (pm : PubMetric) (hwf : pm.WF) : Delivered pm (hostEntry pm) := by
  refine ⟨rfl, rfl, rfl, rfl, rfl, ?_, ?_⟩
  · cases h : pm.metadata with
    | none => simp [hostEntry, h, OptRel]
    | some m => simp [hostEntry, h, OptRel, metaSame_metaToPayload]
  · cases h : pm.properties with
    | none => simp [hostEntry, h, OptRel]
    | some m =>
      simp only [hostEntry, h, Option.map_some, OptRel]
      intro k
      exact mapGet_hostView m (hwf m h) k

theorem forall2_delivered (ms : List PubMetric) (hwf : ∀ pm ∈ ms, pm.WF) :
    InOrder Delivered ms (ms.map hostEntry) := by
  induction ms with
  | nil => exact .nil
  | cons pm t ih =>
    refine .cons (delivered_hostEntry pm (hwf pm (by simp))) (ih fun p hp => hwf p (by simp [hp]))

theorem ndata_payloadOf (seq now : Nat) (ms : List PubMetric) :
    ndataOfPayload (payloadOf seq now ms)
      = .ok { seq := seq % 256, timestamp := now, metrics := ms.map hostEntry } := by
  simp [ndataOfPayload, payloadOf, idAndDetails_edge]

theorem hostReceive_payloadOf (enc : Payload → Bytes) (dec : Bytes → Option Payload)
    (hw : WireSound enc dec) (seq now : Nat) (ms : List PubMetric) :
    hostReceiveData dec (enc (payloadOf seq now ms))
      = .data { seq := seq % 256, timestamp := now, metrics := ms.map hostEntry } := by
  simp [hostReceiveData, hw _, ndata_payloadOf]

/-! ### publish calls -/

theorem publishUnsorted_ready (now : Nat) (s : EdgeState) (hs : s.Ready) (ms : List PubMetric)
    (hne : ms ≠ []) :
    publishUnsorted true now s ms
      = .handedOver (payloadOf ((s.seq + 1) % 256) now ms) { s with seq := (s.seq + 1) % 256 } := by
  obtain ⟨ho, hb⟩ := hs
  have : ms.isEmpty = false := by cases ms <;> simp_all
  simp [publishUnsorted, this, getNextSeq, ho, hb]

/-! ### the stable sort -/

theorem insertByTs_perm (x : PubMetric) (l : List PubMetric) : (insertByTs x l).Perm (x :: l) := by
  induction l with
  | nil => exact .refl _
  | cons y t ih =>
    unfold insertByTs
    split
    · exact .refl _
    · exact (List.Perm.cons y ih).trans (List.Perm.swap x y t)

theorem sortByTs_perm (l : List PubMetric) : (sortByTs l).Perm l := by
  induction l with
  | nil => exact .refl _
  | cons x t ih => exact (insertByTs_perm x _).trans (List.Perm.cons x ih)

theorem insertByTs_sorted (x : PubMetric) (l : List PubMetric)
    (h : l.Pairwise (fun a b => a.timestamp ≤ b.timestamp)) :
    (insertByTs x l).Pairwise (fun a b => a.timestamp ≤ b.timestamp) := by
  induction l with
  | nil => simp [insertByTs]
  | cons y t ih =>
    unfold insertByTs
    rw [List.pairwise_cons] at h
    split
    · rename_i hle
      refine List.pairwise_cons.mpr ⟨?_, List.pairwise_cons.mpr h⟩
      intro b hb
      rcases List.mem_cons.mp hb with rfl | hb
      · exact hle
      · exact Nat.le_trans hle (h.1 b hb)
    · rename_i hnle
      refine List.pairwise_cons.mpr ⟨?_, ih h.2⟩
      intro b hb
      rcases List.mem_cons.mp ((insertByTs_perm x t).mem_iff.mp hb) with rfl | hb
      · omega
      · exact h.1 b hb

theorem sortByTs_sorted (l : List PubMetric) :
    (sortByTs l).Pairwise (fun a b => a.timestamp ≤ b.timestamp) := by
  induction l with
  | nil => simp [sortByTs]
  | cons x t ih => exact insertByTs_sorted x _ ih

theorem insertByTs_filter (x : PubMetric) (l : List PubMetric) (t : Nat) :
    (insertByTs x l).filter (fun m => m.timestamp == t)
      = (x :: l).filter (fun m => m.timestamp == t) := by
  induction l with
  | nil => rfl
  | cons y r ih =>
    unfold insertByTs
    split
    · rfl
    · rename_i hnle
      rw [List.filter_cons, ih]
      by_cases hx : x.timestamp = t
      · have hy : ¬ y.timestamp = t := by omega
        simp [hx, hy]
      · simp [List.filter_cons, hx]

theorem sortByTs_filter (l : List PubMetric) (t : Nat) :
    (sortByTs l).filter (fun m => m.timestamp == t) = l.filter (fun m => m.timestamp == t) := by
  induction l with
  | nil => rfl
  | cons x r ih =>
    simp only [sortByTs, insertByTs_filter]
    simp only [List.filter_cons, ih]

theorem sortByTs_stable (l : List PubMetric) : StableSortedByTs l (sortByTs l) :=
  ⟨sortByTs_perm l, sortByTs_sorted l, sortByTs_filter l⟩

/-- the three conditions of `StableSortedByTs` determine the list: there is only one stable sort -/
theorem stable_sorted_unique_aux (a b : List PubMetric) (hp : a.Perm b)
    (ha : a.Pairwise (fun x y => x.timestamp ≤ y.timestamp))
    (hb : b.Pairwise (fun x y => x.timestamp ≤ y.timestamp))
    (hf : ∀ t, a.filter (fun m => m.timestamp == t) = b.filter (fun m => m.timestamp == t)) :
    a = b := by
  induction a generalizing b with
  | nil => exact (List.Perm.nil_eq hp)
  | cons x a' ih =>
    cases b with
    | nil => exact absurd hp.symm (List.Perm.nil_eq · |> fun h => by cases h)
    | cons y b' =>
      rw [List.pairwise_cons] at ha hb
      have hxy : x.timestamp = y.timestamp := by
        have hx : x ∈ y :: b' := hp.mem_iff.mp (by simp)
        have hy : y ∈ x :: a' := hp.mem_iff.mpr (by simp)
        have h1 : y.timestamp ≤ x.timestamp := by
          rcases List.mem_cons.mp hx with h | h
          · rw [h]; exact Nat.le_refl _
          · exact hb.1 x h
        have h2 : x.timestamp ≤ y.timestamp := by
          rcases List.mem_cons.mp hy with h | h
          · rw [h]; exact Nat.le_refl _
          · exact ha.1 y h
        omega
      have hft := hf x.timestamp
      simp only [List.filter_cons, beq_self_eq_true, if_true] at hft
      have hy' : (y.timestamp == x.timestamp) = true := by rw [hxy]; exact beq_self_eq_true _
      rw [hy'] at hft
      simp only [if_true, List.cons.injEq] at hft
      obtain ⟨hxe, _⟩ := hft
      subst hxe
      have hp' : a'.Perm b' := hp.cons_inv
      have hf' : ∀ t, a'.filter (fun m => m.timestamp == t) = b'.filter (fun m => m.timestamp == t) := by
        intro t
        have := hf t
        simp only [List.filter_cons] at this
        by_cases hc : (x.timestamp == t) = true
        · simp only [hc, if_true, List.cons.injEq, true_and] at this; exact this
        · simp only [hc] at this; exact this
      rw [ih b' hp' ha.2 hb.2 hf']

theorem stable_sorted_unique (ms a : List PubMetric) (ha : StableSortedByTs ms a) :
    a = sortByTs ms := by
  obtain ⟨hp, hs, hf⟩ := ha
  obtain ⟨hp', hs', hf'⟩ := sortByTs_stable ms
  exact stable_sorted_unique_aux a (sortByTs ms) (hp.trans hp'.symm) hs hs'
    (fun t => (hf t).trans (hf' t).symm)

/-! ### nested property sets: the same along every path -/

theorem decPSList_enc (l : List UPS) : decPSList (l.map encPS) = .ok (l.map hostView) := by
  induction l with
  | nil => rfl
  | cons h t ih => simp [decPSList, decPS_encPS, ih]

theorem entsWF_of_mapGet (m : List UEnt) (hw : entsWF m) (k : Str) (e : Option DT × UVal)
    (hg : mapGet m k = some e) : UVal.WF e.2 := by
  induction m with
  | nil => simp [mapGet] at hg
  | cons x t ih =>
    obtain ⟨k0, d0, v0⟩ := x
    simp only [entsWF] at hw
    by_cases h0 : k0 = k
    · simp only [mapGet, h0, if_true, Option.some.injEq] at hg
      subst hg; exact hw.1
    · simp only [mapGet, h0, if_false] at hg
      exact ih hw.2 hg

theorem setsWF_getElem (l : List (List UEnt)) (hw : setsWF l) (i : Nat) (m : UPS)
    (hg : l[i]? = some m) : UPS.WF m := by
  induction l generalizing i with
  | nil => simp at hg
  | cons s t ih =>
    simp only [setsWF] at hw
    cases i with
    | zero => simp at hg; subst hg; exact hw.1
    | succ j => simp at hg; exact ih hw.2 j hg

theorem wf_keysDistinct (m : UPS) (hw : UPS.WF m) : UPS.KeysDistinct m := by
  unfold UPS.KeysDistinct; rw [← encKeys_eq_map]; exact hw.1

/-- descending one step on the host (with srad's conversions) lands in the host's view of the set
the same step reaches on the edge — and fails exactly where it fails on the edge -/
theorem hostDescend_encVal (v : UVal) (s : Option Nat) :
    hostDescend (encVal v) s = (v.descend s).map hostView := by
  cases v with
  | null => cases s <;> simp [hostDescend, encVal, setOfValue, setsOfValue, UVal.descend]
  | sc x => cases s <;> simp [hostDescend, encVal, setOfValue, setsOfValue, UVal.descend]
  | set es =>
    cases s with
    | none =>
      have := decPS_encPS es
      simp only [encPS] at this
      simp [hostDescend, encVal, setOfValue, UVal.descend, this]
    | some i => simp [hostDescend, encVal, setsOfValue, UVal.descend]
  | sets l =>
    cases s with
    | none => simp [hostDescend, encVal, setOfValue, UVal.descend]
    | some i =>
      simp [hostDescend, encVal, setsOfValue, UVal.descend, encSets_eq_map, decPSList_enc]

theorem descend_wf (v : UVal) (hw : UVal.WF v) (s : Option Nat) (m : UPS)
    (hd : v.descend s = some m) : UPS.WF m := by
  cases v with
  | null => cases s <;> simp [UVal.descend] at hd
  | sc x => cases s <;> simp [UVal.descend] at hd
  | set es =>
    cases s with
    | none =>
      simp [UVal.descend] at hd; subst hd
      unfold UPS.WF; simpa [UVal.WF] using hw
    | some i => simp [UVal.descend] at hd
  | sets l =>
    cases s with
    | none => simp [UVal.descend] at hd
    | some i =>
      simp only [UVal.descend] at hd
      exact setsWF_getElem l (by simpa [UVal.WF] using hw) i m hd

theorem lookup_deep (p : Path) (m : UPS) (hw : UPS.WF m) (k : Str) :
    HMap.lookup p (hostView m) k = (UPS.lookup p m k).map fun e => (e.1, encVal e.2) := by
  induction p generalizing m k with
  | nil => exact mapGet_hostView m (wf_keysDistinct m hw) k
  | cons st p ih =>
    obtain ⟨s, k'⟩ := st
    simp only [HMap.lookup, UPS.lookup]
    rw [mapGet_hostView m (wf_keysDistinct m hw) k]
    cases hg : mapGet m k with
    | none => rfl
    | some e =>
      obtain ⟨dt, v⟩ := e
      simp only [Option.map_some]
      rw [hostDescend_encVal]
      cases hd : v.descend s with
      | none => rfl
      | some m' =>
        simp only [Option.map_some]
        exact ih m' (descend_wf v (entsWF_of_mapGet m hw.2 k (dt, v) hg) s m' hd) k'

theorem leaf_encVal (v : UVal) : (encVal v).leaf = v.leaf := by
  cases v <;> simp [encVal, PVal.leaf, UVal.leaf, encSets_eq_map]

/-! ### the API keeps the keys distinct and never loses the quality -/

theorem newWithQuality_keysDistinct (q : Quality) : UPS.KeysDistinct (UPS.newWithQuality q) := by
  simp [UPS.KeysDistinct, UPS.newWithQuality]

theorem insert_keysDistinct (m m' : UPS) (k : Str) (dt : DT) (v : UVal)
    (hn : UPS.KeysDistinct m) (hi : UPS.insert m k dt v = some m') : UPS.KeysDistinct m' := by
  unfold UPS.insert at hi
  split at hi
  · cases hi
  · cases hi; exact mapInsert_keys_nodup m k _ hn

theorem insert_keeps_quality (m m' : UPS) (k : Str) (dt : DT) (v : UVal)
    (hi : UPS.insert m k dt v = some m') : mapGet m' qualityKey = mapGet m qualityKey := by
  unfold UPS.insert at hi
  split at hi
  · cases hi
  · rename_i hk
    cases hi
    rw [mapGet_mapInsert]; simp [hk]

/-! ### payload property sets: total, and accepted exactly when acceptable (C19 clause) -/

theorem pvValue_ne_panic (nu : Option Bool) (v : PVal) : pvValue nu v ≠ .panic := by
  cases v <;> simp [pvValue]
  cases nu with
  | none => simp
  | some b => cases b <;> simp

theorem pvType_ne_panic (ty : Option Nat) : pvType ty ≠ .panic := by
  cases ty with
  | none => simp [pvType]
  | some c => simp only [pvType]; cases DT.ofCode c <;> simp

theorem decPV_ne_panic (p : PPV) : decPV p ≠ .panic := by
  obtain ⟨ty, nu, v⟩ := p
  simp only [decPV]
  cases h : pvValue nu v with
  | ok val =>
    cases h' : pvType ty with
    | ok d => simp
    | err => simp
    | panic => exact absurd h' (pvType_ne_panic ty)
  | err => simp
  | panic => exact absurd h (pvValue_ne_panic nu v)

theorem decLoop_ne_panic (ks : List Str) (vs : List PPV) (acc : HMap) :
    decLoop ks vs acc ≠ .panic := by
  induction ks generalizing vs acc with
  | nil => simp [decLoop]
  | cons k ks ih =>
    cases vs with
    | nil => simp [decLoop]
    | cons v vs =>
      simp only [decLoop]
      cases h : decPV v with
      | ok e => exact ih vs _
      | err => simp
      | panic => exact absurd h (decPV_ne_panic v)

theorem decPS_ne_panic (s : PSet) : decPS s ≠ .panic := by
  obtain ⟨ks, vs⟩ := s
  show (if ks.length ≠ vs.length then Res.err else decLoop ks vs []) ≠ Res.panic
  split
  · simp
  · exact decLoop_ne_panic ks vs []

theorem decPSList_ne_panic (l : List PSet) : decPSList l ≠ .panic := by
  induction l with
  | nil => simp [decPSList]
  | cons s t ih =>
    simp only [decPSList]
    cases h : decPS s with
    | ok m =>
      cases h' : decPSList t with
      | ok r => simp
      | err => simp
      | panic => exact absurd h' ih
    | err => simp
    | panic => exact absurd h (decPS_ne_panic s)

theorem pvValue_ok_iff (nu : Option Bool) (v : PVal) :
    (∃ x, pvValue nu v = .ok x) ↔ (v = PVal.none → nu = some true) := by
  cases v with
  | none =>
    cases nu with
    | none => simp [pvValue]
    | some b => cases b <;> simp [pvValue]
  | sc x => simp [pvValue]
  | set a b => simp [pvValue]
  | sets a => simp [pvValue]

theorem pvType_ok_iff (ty : Option Nat) :
    (∃ x, pvType ty = .ok x) ↔ (∀ c, ty = some c → c < 35) := by
  cases ty with
  | none => simp [pvType]
  | some c =>
    simp only [pvType, Option.some.injEq, forall_eq']
    rw [← ofCode_isSome_iff]
    cases DT.ofCode c <;> simp

theorem decPV_ok_iff (p : PPV) : (∃ e, decPV p = .ok e) ↔ PPV.Acceptable p := by
  obtain ⟨ty, nu, v⟩ := p
  simp only [PPV.Acceptable]
  rw [← pvValue_ok_iff, ← pvType_ok_iff]
  simp only [decPV]
  cases h : pvValue nu v with
  | ok val =>
    cases h' : pvType ty with
    | ok d => simp
    | err => simp
    | panic => exact absurd h' (pvType_ne_panic ty)
  | err => simp
  | panic => exact absurd h (pvValue_ne_panic nu v)

theorem decLoop_ok_iff (ks : List Str) (vs : List PPV) (acc : HMap) (hl : ks.length = vs.length) :
    (∃ h, decLoop ks vs acc = .ok h) ↔ ∀ p ∈ vs, PPV.Acceptable p := by
  induction ks generalizing vs acc with
  | nil =>
    cases vs with
    | nil => simp [decLoop]
    | cons v vs => simp at hl
  | cons k ks ih =>
    cases vs with
    | nil => simp at hl
    | cons v vs =>
      simp only [List.length_cons, Nat.add_right_cancel_iff] at hl
      simp only [decLoop, List.mem_cons, forall_eq_or_imp]
      rw [← decPV_ok_iff v]
      cases h : decPV v with
      | ok e =>
        simp only [Res.ok.injEq, exists_eq', true_and]
        exact ih vs _ hl
      | err => simp
      | panic => exact absurd h (decPV_ne_panic v)

theorem decPS_ok_iff (s : PSet) : (∃ h, decPS s = .ok h) ↔ PSet.Acceptable s := by
  obtain ⟨ks, vs⟩ := s
  show (∃ h, (if ks.length ≠ vs.length then Res.err else decLoop ks vs []) = Res.ok h)
    ↔ (ks.length = vs.length ∧ ∀ p ∈ vs, PPV.Acceptable p)
  by_cases hl : ks.length = vs.length
  · simp only [hl, ne_eq, not_true_eq_false, if_false, true_and]
    exact decLoop_ok_iff ks vs [] hl
  · simp [hl]

end Srad.Metric
