import SradModel.Model.EonSpec

namespace Srad.Eon.P02

end Srad.Eon.P02
