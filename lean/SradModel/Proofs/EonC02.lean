import SradModel.Model.EonSpec
set_option linter.unusedSimpArgs false
namespace Srad.Eon.P02
open Srad.Eon

def Minor : Obs → Bool
  | .call .. | .will _ | .poll | .polled _ => false
  | _ => true

theorem nextSeqIn_ok {s s1 : St} {req n} (h : nextSeqIn s req = .ok (s1, n)) :
    s.online = true ∧ s.birthed = true ∧ n = (s.seq + 1) % 256 ∧ s1 = { s with seq := (s.seq + 1) % 256 } := by
  unfold nextSeqIn at h
  repeat' (split at h)
  all_goals first | contradiction | (cases h; simp_all)

def PubEff (s s' : St) (o : List Obs) : Prop :=
  (s'.seq = s.seq ∧ (∀ x ∈ o, Minor x = true)) ∨
  (s.online = true ∧ s.birthed = true ∧ s'.seq = (s.seq+1)%256 ∧
    ∃ pre post id k dv it dc, o = pre ++ .call id k dv (some s'.seq) none it dc :: post ∧ k.bearsSeq = true ∧ (∀ x ∈ pre, Minor x = true) ∧ (∀ x ∈ post, Minor x = true))

theorem devBirth_eff (s : St) (x : Dev) (bt req dec) :
    (∃ q c d, (devBirth s x bt req dec).1 = { s with seq := q, calls := c, devs := d }) ∧
    PubEff s (devBirth s x bt req dec).1 (devBirth s x bt req dec).2 := by
  unfold devBirth
  split
  · exact ⟨⟨_, _, _, rfl⟩, .inl (by simp)⟩
  split
  · exact ⟨⟨_, _, _, rfl⟩, .inl (by simp)⟩
  split
  · exact ⟨⟨_, _, _, rfl⟩, .inl (by simp)⟩
  · rename_i s1 n h
    obtain ⟨h1, h2, rfl, rfl⟩ := nextSeqIn_ok h
    simp only [handOver, callRes]
    split
    · exact ⟨⟨_, _, _, rfl⟩, .inr ⟨h1, h2, rfl, [.bDev x.name], [], _, _, _, _, _, rfl, rfl, by simp [Minor], by simp⟩⟩
    · exact ⟨⟨_, _, _, rfl⟩, .inr ⟨h1, h2, rfl, [.bDev x.name], [], _, _, _, _, _, rfl, rfl, by simp [Minor], by simp⟩⟩

theorem devDeath_eff (s : St) (x : Dev) (pub td dec) :
    (∃ q c d, (devDeath s x pub td dec).1 = { s with seq := q, calls := c, devs := d }) ∧
    PubEff s (devDeath s x pub td dec).1 (devDeath s x pub td dec).2 := by
  unfold devDeath
  generalize (if td = true then DevPc.done else DevPc.idle) = fin
  simp only []
  split
  · exact ⟨⟨_, _, _, rfl⟩, .inl (by simp)⟩
  split
  · exact ⟨⟨_, _, _, rfl⟩, .inl (by simp)⟩
  split
  · exact ⟨⟨_, _, _, rfl⟩, .inl (by simp)⟩
  · rename_i s1 n h
    obtain ⟨h1, h2, rfl, rfl⟩ := nextSeqIn_ok h
    simp only [handOver, callRes]
    split
    · exact ⟨⟨_, _, _, rfl⟩, .inr ⟨h1, h2, rfl, [], [], _, _, _, _, _, rfl, rfl, by simp [Minor], by simp⟩⟩
    · exact ⟨⟨_, _, _, rfl⟩, .inr ⟨h1, h2, rfl, [], [], _, _, _, _, _, rfl, rfl, by simp [Minor], by simp⟩⟩

def DevFrame (s s' : St) : Prop := ∃ q c d, s' = { s with seq := q, calls := c, devs := d }

theorem devBirth_eff' (s : St) (d0) (x : Dev) (bt req dec) :
    DevFrame s (devBirth { s with devs := d0 } x bt req dec).1 ∧
    PubEff s (devBirth { s with devs := d0 } x bt req dec).1 (devBirth { s with devs := d0 } x bt req dec).2 := by
  obtain ⟨⟨q, c, d, h⟩, h2⟩ := devBirth_eff { s with devs := d0 } x bt req dec
  exact ⟨⟨q, c, d, h⟩, h2⟩

theorem devDeath_eff' (s : St) (d0) (x : Dev) (pub td dec) :
    DevFrame s (devDeath { s with devs := d0 } x pub td dec).1 ∧
    PubEff s (devDeath { s with devs := d0 } x pub td dec).1 (devDeath { s with devs := d0 } x pub td dec).2 := by
  obtain ⟨⟨q, c, d, h⟩, h2⟩ := devDeath_eff { s with devs := d0 } x pub td dec
  exact ⟨⟨q, c, d, h⟩, h2⟩

theorem stepDev_eff {s : St} {u dec} {r : St × List Obs} (h : r ∈ stepDev s u dec) :
    DevFrame s r.1 ∧ PubEff s r.1 r.2 := by
  unfold stepDev at h
  repeat' (split at h)
  all_goals simp only [List.mem_singleton, List.not_mem_nil] at h
  all_goals subst h
  all_goals first
    | exact devBirth_eff' ..
    | exact devDeath_eff' ..
    | exact ⟨⟨_, _, _, rfl⟩, .inl ⟨rfl, by simp [Minor]⟩⟩

/-- what a user step can do; `u` is the call record it advances to pc `p` -/
def UserEff (s s' : St) (o : List Obs) (u : UCall) (p : UPc) : Prop :=
  ((∃ q c, s' = { s with seq := q, calls := c, ucalls := setUCall { u with pc := p } s.ucalls }) ∧
      PubEff s s' o ∧ p ≠ .cancelStop) ∨
  (s.running = true ∧ p = .cancelStop ∧
      (∃ c, s' = { s with stopping := true, calls := c, ucalls := setUCall { u with pc := p } s.ucalls }) ∧
      ∃ id dc, o = [.call id .ndeath none none (some s.bdseq) true dc]) ∨
  (u.pc = .cancelStop ∧ p = .cancelDisc ∧ o = [] ∧
      (s' = { s with ucalls := setUCall { u with pc := p } s.ucalls } ∨
       s' = { s with stop := true, ucalls := setUCall { u with pc := p } s.ucalls })) ∨
  (p = .done ∧ (∃ c, s' = { s with calls := c, ucalls := setUCall { u with pc := p } s.ucalls }) ∧
      ∃ id dc j r, o = [.call id .disconnect none none none true dc, .ures j r])

theorem map_nextSeqIn_ok {s : St} {req} {f : Bool} {s1 k fl}
    (h : Except.map (fun x : St × Nat => (x.fst, x.snd, f)) (nextSeqIn s req) = .ok (s1, k, fl)) :
    nextSeqIn s req = .ok (s1, k) := by
  cases hn : nextSeqIn s req with
  | error e => simp [hn, Except.map] at h
  | ok v => simp [hn, Except.map] at h; obtain ⟨rfl, rfl, _⟩ := h; rfl

theorem stepUser_eff {s : St} {j dec} {r : St × List Obs} (h : r ∈ stepUser s j dec) :
    ∃ u ∈ s.ucalls, ∃ p, UserEff s r.1 r.2 u p := by
  unfold stepUser at h
  split at h
  · simp at h
  rename_i u hu
  refine ⟨u, List.mem_of_find?_eq_some hu, ?_⟩
  simp only [] at h
  split at h
  · -- pub, start
    rename_i t isTry n hkind hpc
    split at h
    · simp only [List.mem_singleton] at h; subst h
      exact ⟨_, .inl ⟨⟨_, _, rfl⟩, .inl ⟨rfl, by simp [Minor]⟩, by simp⟩⟩
    split at h
    · simp only [List.mem_singleton] at h; subst h
      exact ⟨_, .inl ⟨⟨_, _, rfl⟩, .inl ⟨rfl, by simp [Minor]⟩, by simp⟩⟩
    · rename_i s1 k fl hg
      have hk : nextSeqIn s none = .ok (s1, k) ∨ ∃ e, nextSeqIn s (some e) = .ok (s1, k) := by
        repeat' (split at hg)
        · exact .inl (map_nextSeqIn_ok hg)
        · cases hg
        · exact .inr ⟨_, map_nextSeqIn_ok hg⟩
        · cases hg
      have hk' : s.online = true ∧ s.birthed = true ∧ k = (s.seq + 1) % 256 ∧ s1 = { s with seq := (s.seq + 1) % 256 } := by
        rcases hk with hk | ⟨e, hk⟩ <;> exact nextSeqIn_ok hk
      obtain ⟨h1, h2, rfl, rfl⟩ := hk'
      clear hk hg
      cases t <;> simp only [handOver, callRes] at h <;> split at h <;>
        simp only [List.mem_singleton] at h <;> subst h
      all_goals first
        | exact ⟨_, .inl ⟨⟨_, _, rfl⟩, .inr ⟨h1, h2, rfl, [], [.ures _ _], _, _, _, _, _, rfl, rfl, by simp, by simp [Minor]⟩, by simp⟩⟩
        | exact ⟨_, .inl ⟨⟨_, _, rfl⟩, .inr ⟨h1, h2, rfl, [], [], _, _, _, _, _, rfl, rfl, by simp, by simp⟩, by simp⟩⟩
  · -- pub, wait
    split at h <;> simp only [List.mem_singleton, List.not_mem_nil] at h <;> subst h <;>
      exact ⟨_, .inl ⟨⟨_, _, rfl⟩, .inl ⟨rfl, by simp [Minor]⟩, by simp⟩⟩
  · -- cancel, start
    split at h
    · simp only [List.mem_singleton] at h; subst h
      exact ⟨_, .inl ⟨⟨_, _, rfl⟩, .inl ⟨rfl, by simp [Minor]⟩, by simp⟩⟩
    · rename_i hr
      simp only [handOver, List.mem_singleton] at h; subst h
      exact ⟨_, .inr (.inl ⟨by simpa using hr, rfl, ⟨_, rfl⟩, _, _, rfl⟩)⟩
  · -- cancel, cancelStop
    rename_i hpc
    repeat' (split at h)
    all_goals simp only [List.mem_singleton, List.not_mem_nil] at h
    all_goals subst h
    · exact ⟨_, .inr (.inr (.inl ⟨hpc, rfl, rfl, .inl rfl⟩))⟩
    · exact ⟨_, .inr (.inr (.inl ⟨hpc, rfl, rfl, .inr rfl⟩))⟩
  · -- cancel, cancelDisc
    simp only [handOver, List.mem_singleton] at h; subst h
    exact ⟨_, .inr (.inr (.inr ⟨rfl, ⟨_, rfl⟩, _, _, _, _, rfl⟩))⟩
  · simp at h

def StimFrame (s s' : St) : Prop :=
  ∃ ib dv rq cl wl np dp, s' = { s with inbox := ib, devs := dv, rebirthQ := rq, calls := cl, wall := wl, nodeCbPark := np, devCbPark := dp }

theorem applyStim_eff (s : St) (x : Stim) :
    (StimFrame s (applyStim s x).1 ∨
      ∃ u : UCall, u.pc = .start ∧ (applyStim s x).1 = { s with ucalls := s.ucalls ++ [u] }) ∧
    ∀ y ∈ (applyStim s x).2, Minor y = true := by
  unfold applyStim
  repeat' split
  all_goals first
    | exact ⟨.inl ⟨_, _, _, _, _, _, _, rfl⟩, by simp [Minor]⟩
    | exact ⟨.inr ⟨_, rfl, rfl⟩, by simp [Minor]⟩

def isCall : Obs → Bool
  | .call .. => true
  | _ => false

def LoopFrame (s s' : St) : Prop :=
  ∃ rn wl lp st sd ib cs mq dv no, s' = { s with running := rn, will := wl, loop := lp, stop := st, stopDeadline := sd, inbox := ib, cs := cs, msgQ := mq, devs := dv, nextOneshot := no }

theorem stepLoop_frame {s : St} {r : St × List Obs} (h : r ∈ stepLoop s) :
    LoopFrame s r.1 ∧ ∀ y ∈ r.2, isCall y = false := by
  unfold stepLoop at h
  simp only [loopHandle, newOneshot] at h
  repeat' (split at h)
  all_goals simp only [List.mem_append, List.mem_singleton, List.mem_cons, List.not_mem_nil, or_false, false_or] at h
  all_goals first | subst h | (rcases h with h | h <;> subst h)
  all_goals exact ⟨⟨_, _, _, _, _, _, _, _, _, _, rfl⟩, by simp [isCall]⟩

theorem stepLoopTimeout_frame {s : St} {r : St × List Obs} (h : r ∈ stepLoopTimeout s) :
    LoopFrame s r.1 ∧ ∀ y ∈ r.2, isCall y = false := by
  unfold stepLoopTimeout at h
  simp only [newOneshot] at h
  repeat' (split at h)
  all_goals simp only [List.mem_append, List.mem_singleton, List.mem_cons, List.not_mem_nil, or_false, false_or] at h
  all_goals subst h
  all_goals exact ⟨⟨_, _, _, _, _, _, _, _, _, _, rfl⟩, by simp [isCall]⟩

/-! ### C02: the invariant -/

def nbPc : NodePc → Bool
  | .waitNb .. | .nbDone .. => true
  | _ => false

def Inv (s : St) (exp : Option Nat) : Prop :=
  s.seq < 256 ∧ s.bdseq < 256 ∧
    ((exp = none ∧ s.birthed = false ∧ nbPc s.node = false) ∨ exp = some ((s.seq + 1) % 256))

def Good (exp : Option Nat) (s' : St) (o : List Obs) : Prop :=
  ∃ exp', Inv s' exp' ∧ ∀ t, seqOk exp' t = true → seqOk exp (o ++ t) = true

theorem stepNode_good {s : St} {dec exp} {r : St × List Obs} (hI : Inv s exp) (h : r ∈ stepNode s dec) :
    Good exp r.1 r.2 := by
  unfold stepNode at h
  simp only [nodeBirthStart, handOver, callRes] at h
  repeat' (split at h)
  all_goals simp only [List.mem_append, List.mem_singleton, List.mem_cons, List.not_mem_nil, or_false, false_or] at h
  all_goals subst h
  all_goals obtain ⟨h1, h2, h3⟩ := hI
  all_goals first
    | exact ⟨exp, ⟨h1, h2, by simp_all [nbPc]⟩, fun t ht => by simp [seqOk, CK.bearsSeq, ht]⟩
    | exact ⟨some 1, ⟨by simp, h2, by simp⟩, fun t ht => by simp [seqOk, CK.bearsSeq, ht]⟩
    | exact ⟨exp, ⟨h1, by simp; omega, by simp_all [nbPc]; grind⟩, fun t ht => by simp [seqOk, CK.bearsSeq, ht]⟩

theorem Minor_not_call {y : Obs} (h : Minor y = true) : isCall y = false := by
  cases y <;> simp_all [Minor, isCall]

theorem seqOk_skip1 {exp y t} (h : isCall y = false) : seqOk exp (y :: t) = seqOk exp t := by
  cases y <;> simp_all [isCall, seqOk]

theorem seqOk_skip {exp t} : ∀ {o : List Obs}, (∀ y ∈ o, isCall y = false) → seqOk exp (o ++ t) = seqOk exp t
  | [], _ => rfl
  | y :: o, h => by
    rw [List.cons_append, seqOk_skip1 (h y (by simp))]
    exact seqOk_skip (fun z hz => h z (by simp [hz]))

theorem seqOk_skipM {exp t} {o : List Obs} (h : ∀ y ∈ o, Minor y = true) : seqOk exp (o ++ t) = seqOk exp t :=
  seqOk_skip (fun y hy => Minor_not_call (h y hy))

theorem pub_good {s s' : St} {o exp} (hI : Inv s exp) (hb : s'.bdseq = s.bdseq)
    (hbi : s'.birthed = s.birthed) (hn : s'.node = s.node) (hp : PubEff s s' o) : Good exp s' o := by
  obtain ⟨h1, h2, h3⟩ := hI
  rcases hp with ⟨hq, ho⟩ | ⟨_, hbt, hq, pre, post, id, k, dv, it, dc, rfl, hk, hpre, hpost⟩
  · exact ⟨exp, ⟨by simp [hq, h1], by simp [hb, h2], by simp [hq, hbi, hn, h3]⟩, fun t ht => by
      simp [seqOk_skipM ho, ht]⟩
  · have he : exp = some ((s.seq + 1) % 256) := by
      rcases h3 with ⟨_, h, _⟩ | h
      · simp [hbt] at h
      · exact h
    refine ⟨some ((s'.seq + 1) % 256), ⟨by simp [hq]; omega, by simp [hb, h2], .inr rfl⟩, fun t ht => ?_⟩
    have hk' : (k == CK.nbirth) = false := by cases k <;> simp_all [CK.bearsSeq]
    simp only [List.append_assoc, List.cons_append]
    rw [seqOk_skipM hpre]
    rw [hq] at ht
    simp [seqOk, hk, hk', he, hq, seqOk_skipM hpost]
    simpa using ht

theorem mem_of_runAct_task {s : St} {t dec k} {r : St × List Obs}
    (h : runAct s (.task t dec k) = some r) : r ∈ step s t dec := by
  simp only [runAct] at h
  exact List.mem_of_getElem? h

theorem quiet_good {s s' : St} {o exp} (hI : Inv s exp) (hq : s'.seq = s.seq) (hb : s'.bdseq = s.bdseq)
    (hbi : s'.birthed = s.birthed) (hn : s'.node = s.node) (ho : ∀ y ∈ o, isCall y = false) :
    Good exp s' o := by
  obtain ⟨h1, h2, h3⟩ := hI
  exact ⟨exp, ⟨by simp [hq, h1], by simp [hb, h2], by simp [hq, hbi, hn, h3]⟩, fun t ht => by
    simp [seqOk_skip ho, ht]⟩

theorem step_good {s : St} {a exp} {r : St × List Obs} (hI : Inv s exp) (h : runAct s a = some r) :
    Good exp r.1 r.2 := by
  cases a with
  | stim x =>
    simp only [runAct, Option.some.injEq] at h
    obtain ⟨hf, ho⟩ := applyStim_eff s x
    rw [h] at hf ho
    have ho' := fun y hy => Minor_not_call (ho y hy)
    rcases hf with ⟨_, _, _, _, _, _, _, hf⟩ | ⟨u, _, hf⟩ <;>
      exact quiet_good hI (by rw [hf]) (by rw [hf]) (by rw [hf]) (by rw [hf]) ho'
  | task t dec k =>
    have hm := mem_of_runAct_task h
    cases t with
    | loop =>
      obtain ⟨⟨_, _, _, _, _, _, _, _, _, _, hf⟩, ho⟩ := stepLoop_frame hm
      exact quiet_good hI (by rw [hf]) (by rw [hf]) (by rw [hf]) (by rw [hf]) ho
    | loopTimeout =>
      obtain ⟨⟨_, _, _, _, _, _, _, _, _, _, hf⟩, ho⟩ := stepLoopTimeout_frame hm
      exact quiet_good hI (by rw [hf]) (by rw [hf]) (by rw [hf]) (by rw [hf]) ho
    | node => exact stepNode_good hI hm
    | dev d =>
      obtain ⟨⟨_, _, _, hf⟩, hp⟩ := stepDev_eff hm
      exact pub_good hI (by rw [hf]) (by rw [hf]) (by rw [hf]) hp
    | user j =>
      obtain ⟨u, _, p, hu⟩ := stepUser_eff hm
      rcases hu with ⟨⟨_, _, hf⟩, hp, _⟩ | ⟨_, _, ⟨_, hf⟩, id, dc, ho⟩ | ⟨_, _, ho, hf | hf⟩ |
        ⟨_, ⟨_, hf⟩, id, dc, j, rr, ho⟩
      · exact pub_good hI (by rw [hf]) (by rw [hf]) (by rw [hf]) hp
      · obtain ⟨h1, h2, h3⟩ := hI
        exact ⟨exp, ⟨by simp [hf, h1], by simp [hf, h2], by simp [hf, h3]⟩, fun t ht => by
          simp [ho, seqOk, CK.bearsSeq, ht]⟩
      · exact quiet_good hI (by rw [hf]) (by rw [hf]) (by rw [hf]) (by rw [hf]) (by simp [ho])
      · exact quiet_good hI (by rw [hf]) (by rw [hf]) (by rw [hf]) (by rw [hf]) (by simp [ho])
      · obtain ⟨h1, h2, h3⟩ := hI
        exact ⟨exp, ⟨by simp [hf, h1], by simp [hf, h2], by simp [hf, h3]⟩, fun t ht => by
          simp [ho, seqOk, CK.bearsSeq, ht]⟩

theorem runActs_good : ∀ (acts : List Act) (s : St) (exp : Option Nat) (s' : St) (tr : List Obs),
    Inv s exp → runActs s acts = some (s', tr) → seqOk exp tr = true ∧ ∃ exp', Inv s' exp'
  | [], s, exp, s', tr, hI, h => by
    simp only [runActs, Option.some.injEq, Prod.mk.injEq] at h
    obtain ⟨rfl, rfl⟩ := h
    exact ⟨rfl, exp, hI⟩
  | a :: as, s, exp, s', tr, hI, h => by
    simp only [runActs] at h
    split at h
    · cases h
    rename_i s1 o1 h1
    split at h
    · cases h
    rename_i s2 o2 h2
    simp only [Option.some.injEq, Prod.mk.injEq] at h
    obtain ⟨rfl, rfl⟩ := h
    obtain ⟨exp1, hI1, hs⟩ := step_good hI h1
    obtain ⟨ht, hI2⟩ := runActs_good as s1 exp1 _ _ hI1 h2
    exact ⟨hs _ ht, hI2⟩

theorem inv_init (cd : Nat) : Inv (init cd) none := by
  simp [Inv, init, nbPc]
end Srad.Eon.P02
