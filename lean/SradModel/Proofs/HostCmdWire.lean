/-
Helper lemmas for `Props/C15HostWire.lean`: the command payloads of `Model/HostCmd.lean`, mapped
to the payload records of `Model/Metric.lean` (`Model/HostCmdWire.lean`), are in range when their
own fields are, the command path's view of the mapped record is the payload again, and hence the
concrete codec `encWC` / `decWC` round-trips (by `decW_encW`, i.e. by M13).
-/
import SradModel.Model.HostCmdWire
import SradModel.Proofs.MetricWire
import SradModel.Proofs.HostCmd

namespace Srad.HostCmd
open Srad.Codec Srad.Cmd
open Srad.Wire (Val Recs sparkplug encodeMsg encRecs lookupMsg findIn optF repF typedRecs typedRecsF
  typedRecF scalarTyped canonRecs)
open Srad.Metric (PMetric PMeta MVal optRec getOpt subTree encW decW u32 u64 esOf subOK mvalOK
  metricOK metaOK psOK psOKWith inRange lookup_template)

/-! ### the command path's view of the mapped record is the payload -/

theorem mvalToPV_pvToMVal (v : PV) (h : v ≠ .pset ∧ v ≠ .psets) : mvalToPV (pvToMVal v) = v := by
  cases v with
  | template isDef hasRef =>
    cases isDef with
    | none => cases hasRef <;> rfl
    | some b => cases b <;> cases hasRef <;> rfl
  | pset => exact absurd rfl h.1
  | psets => exact absurd rfl h.2
  | _ => rfl

theorem pvOKC_not_prop (valid : Bytes → Bool) (v : PV) (h : pvOKC valid v = true) :
    v ≠ .pset ∧ v ≠ .psets := by
  cases v <;> simp [pvOKC] at h ⊢

theorem ofPMetric_toPMetric (valid : Bytes → Bool) (m : WireMetric)
    (h : wireMetricOK valid m = true) : ofPMetric (toPMetric m) = m := by
  obtain ⟨⟨name, alias, ts, isNull, value⟩, dt, hi, tr, hm, hp⟩ := m
  simp only [wireMetricOK, Bool.and_eq_true] at h
  have hv : (value.map pvToMVal).map mvalToPV = value := by
    cases value with
    | none => rfl
    | some v =>
      simp only [Option.map_some]
      rw [mvalToPV_pvToMVal v (pvOKC_not_prop valid v (by simpa using h.2))]
  have h1 : (if hm = true then some ({} : PMeta) else none).isSome = hm := by cases hm <;> rfl
  have h2 : (if hp = true then some (([], []) : Srad.Metric.PSet) else none).isSome = hp := by
    cases hp <;> rfl
  simp only [ofPMetric, toPMetric, hv, h1, h2]

theorem ofMP_toMP (valid : Bytes → Bool) (p : WirePayload)
    (h : ∀ m ∈ p.metrics, wireMetricOK valid m = true) : ofMP (toMP p) = p := by
  obtain ⟨ts, ms, seq, uuid, body⟩ := p
  simp only [ofMP, toMP, List.map_map]
  congr
  have : ∀ m ∈ ms, (ofPMetric ∘ toPMetric) m = id m := fun m hm =>
    ofPMetric_toPMetric valid m (h m hm)
  rw [List.map_congr_left this, List.map_id]

/-! ### the mapped record is in range -/

theorem fi_template (r t : Nat) : findIn (esOf "Template") r t = findIn [optF 1 .string,
    repF 2 (.message "Metric"), repF 3 (.message "Parameter"), optF 4 .string, optF 5 .bool] r t := by
  rfl

theorem subOK_dataset (valid : Bytes → Bool) : subOK valid 98 "DataSet" dsStandIn = true := by
  have ht : typedRecs valid sparkplug 98 (esOf "DataSet") [(1, .num 0)] = true := by rfl
  have hc : canonRecs sparkplug 98 (esOf "DataSet") [(1, .num 0)] = true := by rfl
  exact Srad.Metric.subOK_of_struct valid 98 "DataSet" [(1, .num 0)] Srad.Metric.lookup_dataset
    (by decide) ht hc

theorem subOK_template (valid : Bytes → Bool) (isDef : Option Bool) (hasRef : Bool)
    (h : hasRef = true → valid refStandIn = true) :
    subOK valid 98 "Template" (templateBytes isDef hasRef) = true := by
  have he : templateBytes isDef hasRef = encRecs sparkplug (esOf "Template")
      (optRec 4 (if hasRef then some (Val.bytes refStandIn) else none) ++
        optRec 5 (isDef.map Val.bool)) := by rfl
  rw [he]
  refine Srad.Metric.subOK_of_struct valid 98 "Template" _ lookup_template (by decide) ?_ ?_
  · show typedRecsF valid sparkplug (typedRecs valid sparkplug 97) (esOf "Template") _ = true
    cases hasRef with
    | false =>
      cases isDef <;> simp [typedRecsF, typedRecF, fi_template, findIn, optF, repF, optRec, scalarTyped]
    | true =>
      have hv : valid [114, 101, 102] = true := h rfl
      cases isDef <;>
        simp [typedRecsF, typedRecF, fi_template, findIn, optF, repF, optRec, scalarTyped, hv, refStandIn]
  · cases hasRef <;> cases isDef with
    | none => rfl
    | some b => cases b <;> rfl

theorem mvalOK_pvToMVal (valid : Bytes → Bool) (v : PV) (h : pvOKC valid v = true) :
    mvalOK valid 98 (pvToMVal v) = true := by
  cases v with
  | dataset => exact subOK_dataset valid
  | template isDef hasRef =>
    refine subOK_template valid isDef hasRef fun hr => ?_
    subst hr
    simpa [pvOKC] using h
  | pset => simp [pvOKC] at h
  | psets => simp [pvOKC] at h
  | _ => first | exact h | rfl

theorem metricOK_toPMetric (valid : Bytes → Bool) (m : WireMetric)
    (h : wireMetricOK valid m = true) : metricOK valid 98 (toPMetric m) = true := by
  obtain ⟨⟨name, alias, ts, isNull, value⟩, dt, hi, tr, hm, hp⟩ := m
  simp only [wireMetricOK, Bool.and_eq_true] at h
  obtain ⟨⟨⟨⟨h1, h2⟩, h3⟩, h4⟩, h5⟩ := h
  have hmd : (if hm = true then some ({} : PMeta) else none).all (metaOK valid) = true := by
    cases hm <;> rfl
  have hps : (if hp = true then some (([], []) : Srad.Metric.PSet) else none).all (psOK valid 98)
      = true := by
    cases hp <;> rfl
  have hv : (value.map pvToMVal).all (mvalOK valid 98) = true := by
    cases value with
    | none => rfl
    | some v => exact mvalOK_pvToMVal valid v (by simpa using h5)
  simp only [metricOK, toPMetric, Bool.and_eq_true]
  exact ⟨⟨⟨⟨⟨⟨h1, h2⟩, h3⟩, h4⟩, hmd⟩, hps⟩, hv⟩

theorem inRange_toMP (valid : Bytes → Bool) (p : WirePayload) (h : inRangeC valid p = true) :
    inRange valid (toMP p) = true := by
  simp only [inRangeC, Bool.and_eq_true, List.all_eq_true, decide_eq_true_eq] at h
  obtain ⟨⟨⟨⟨h1, h2⟩, h3⟩, h4⟩, h5⟩ := h
  simp only [inRange, Bool.and_eq_true, List.all_eq_true, decide_eq_true_eq]
  refine ⟨⟨⟨⟨h1, ?_⟩, h3⟩, h4⟩, h5⟩
  intro q hq
  simp only [toMP, List.mem_map] at hq
  obtain ⟨m, hm, rfl⟩ := hq
  exact metricOK_toPMetric valid m (h2 m hm)

/-- the concrete codec round-trips on in-range command payloads -/
theorem decWC_encWC (valid : Bytes → Bool) (p : WirePayload) (h : inRangeC valid p = true) :
    decWC valid (encWC p) = some p := by
  have hin := inRange_toMP valid p h
  simp only [inRangeC, Bool.and_eq_true, List.all_eq_true] at h
  simp only [decWC, encWC, Srad.Metric.decW_encW valid (toMP p) hin, Option.map_some,
    ofMP_toMP valid p h.1.1.1.2]

/-! ### what the host builds is in range -/

theorem wireMetricOK_toMetric (valid : Bytes → Bool) (pm : PublishMetric)
    (h : pubOK valid pm = true) : wireMetricOK valid (toMetric pm) = true := by
  obtain ⟨id, v, ts⟩ := pm
  simp only [pubOK, Bool.and_eq_true] at h
  cases id <;> simp_all [toMetric, wireMetricOK]

theorem inRangeC_metricsToPayload (valid : Bytes → Bool) (clock : Nat) (ms : List PublishMetric)
    (hc : clock < 2 ^ 64) (hms : ∀ pm ∈ ms, pubOK valid pm = true)
    (hl : (encWC (metricsToPayload clock ms)).length < 2 ^ 64) :
    inRangeC valid (metricsToPayload clock ms) = true := by
  simp only [inRangeC, Bool.and_eq_true, List.all_eq_true, decide_eq_true_eq]
  refine ⟨⟨⟨⟨?_, ?_⟩, rfl⟩, rfl⟩, hl⟩
  · simpa [metricsToPayload, u64] using hc
  · intro m hm
    simp only [metricsToPayload, List.mem_map] at hm
    obtain ⟨pm, hpm, rfl⟩ := hm
    exact wireMetricOK_toMetric valid pm (hms pm hpm)

/-- the rebirth request is a few bytes long, whatever the clock reads -/
theorem encFits_rebirth (clock : Nat) :
    (encWC (metricsToPayload clock [rebirthMetric])).length < 2 ^ 64 := by
  have he : encWC (metricsToPayload clock [rebirthMetric]) =
      Wire.encodeKey 1 0 ++ (Wire.encodeVarint clock ++
        encWC { ts := none, metrics := [toMetric rebirthMetric] }) := by rfl
  have hk : (encWC { ts := none, metrics := [toMetric rebirthMetric] }).length = 26 := by decide
  have hv := Wire.encVarAux_length_le 10 clock
  have h1 : (Wire.encodeKey 1 0).length = 1 := by decide
  rw [he]
  simp only [List.length_append, hk, h1]
  unfold Wire.encodeVarint
  omega

end Srad.HostCmd
