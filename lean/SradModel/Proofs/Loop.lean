/-
Helper lemmas for `Props/C08.lean` (closed loop node ↔ broker ↔ host, `Model/Loop.lean`).

Part A  what ids a host step can emit (`step_Q`): only those of its input and of buffered inputs.
Part B  the composed system: everything in flight was sent; the host half is a `Host.run`.
Part C  host-step lemmas for the convergence proof (stale / tracking / lagging states).
Part D  the abstract node in a quiescent, birthed state: what its operations hand over.
Part E  the phases of `settle`.
Part F  `TimerOk` and clock coherence are invariants of the composed system (full configuration).
Part G  the abstract node's own invariant (flags vs. switches), hence `NodeOk` whenever it is birthed.
-/
import SradModel.Model.LoopSpec
import SradModel.Proofs.Host
import SradModel.Proofs.HostC07
import SradModel.Proofs.HostSeq

namespace Srad.Loop
open Srad Srad.Host

/-! ## Part A — ids in effects come from the input or the buffer -/

/-- effects that name a message id -/
def carries : Eff → Bool
  | .nodeBirth _ _ | .nodeData _ | .devBirth _ _ _ | .devData _ _ => true
  | _ => false

/-- `Q` holds of every id-carrying effect that applying `m` could emit -/
def MsgQ (Q : Eff → Prop) : RMsg → Prop
  | .ndata id _ => Q (.nodeData id)
  | .dbirth d id _ => ∀ b, Q (.devBirth d id b)
  | .ddeath _ _ => True
  | .ddata d id _ => Q (.devData d id)

def BufQ (Q : Eff → Prop) (s : St) : Prop := ∀ x ∈ s.reseq.buf, MsgQ Q x.2.2

def InQ (Q : Eff → Prop) : In → Prop
  | .nbirth _ _ id _ => ∀ b, Q (.nodeBirth id b)
  | .rmsg _ _ m => MsgQ Q m
  | _ => True

section PartA
variable (Q : Eff → Prop) (hQ : ∀ e, carries e = false → Q e)
include hQ

theorem apply_Q (s : St) (m : RMsg) (hm : MsgQ Q m) : ∀ e ∈ (apply s m).2.1, Q e := by
  cases m with
  | ndata id ans => simpa [apply, MsgQ] using hm
  | dbirth d id ans =>
    simp only [apply]
    intro e he
    split at he <;> split at he <;> simp at he
    all_goals first
      | (rcases he with rfl | rfl; exact hQ _ rfl; exact hm _)
      | (subst he; exact hm _)
  | ddeath d id =>
    simp only [apply]
    intro e he
    split at he
    · simp at he
    · simp at he; subst he; exact hQ _ rfl
  | ddata d id ans =>
    simp only [apply]
    intro e he
    split at he
    · simp at he
    · simp at he
    · simp at he; subst he; exact hm

theorem cancelTimer_Q (s : St) : ∀ e ∈ (cancelTimer s).2, Q e := by
  intro e he; rw [SeqP.cancelTimer_eff s e he]; exact hQ _ rfl

theorem startTimer_Q (c : Cfg) (s : St) (now : Nat) : ∀ e ∈ (startTimer c s now).2, Q e := by
  intro e he; rw [SeqP.startTimer_eff c s now e he]; exact hQ _ rfl

omit hQ in
theorem cancelTimer_reseq (s : St) : (cancelTimer s).1.reseq = s.reseq := by
  rw [SeqP.cancelTimer_fst]

omit hQ in
theorem startTimer_reseq (c : Cfg) (s : St) (now : Nat) : (startTimer c s now).1.reseq = s.reseq := by
  rw [SeqP.startTimer_fst]

omit hQ in
/-- `Reseq.drain` never adds to the buffer, and what it releases was in the buffer -/
theorem drain_mem {α : Type} (r : Reseq.St (Nat × α)) :
    (∀ x ∈ (Reseq.drain r).1.buf, x ∈ r.buf) ∧
    (∀ m, (Reseq.drain r).2 = .msg m → ∃ k, (k, m) ∈ r.buf) := by
  rcases Reseq.drain_cases r with ⟨off, m, t, _, hr, hd⟩ | ⟨res, hd, hne⟩
  · rw [hd]
    refine ⟨fun x hx => ((Reseq.mem_of_removeKey _ _ _ _ hr x).mpr (Or.inr hx)), ?_⟩
    intro m' hm'
    cases hm'
    exact ⟨_, (Reseq.mem_of_removeKey _ _ _ _ hr _).mpr (Or.inl rfl)⟩
  · rw [hd]
    exact ⟨fun x hx => hx, fun m hm => absurd hm (hne m)⟩

theorem drainBuf_Q (c : Cfg) (now : Nat) (fuel : Nat) : ∀ (released : Bool) (s : St) (acc : List Eff),
    BufQ Q s → (∀ e ∈ acc, Q e) →
    BufQ Q (drainBuf c now fuel released s acc).1 ∧ ∀ e ∈ (drainBuf c now fuel released s acc).2.1, Q e := by
  induction fuel with
  | zero => intro released s acc hb ha; exact ⟨hb, ha⟩
  | succ fuel ih =>
    intro released s acc hb ha
    rw [C07P.drainBuf_succ]
    have hdm := drain_mem s.reseq
    have hset : ∀ r', (Reseq.drain s.reseq).1 = r' → BufQ Q { s with reseq := r' } := by
      intro r' hr' x hx
      subst hr'
      exact hb x (hdm.1 x hx)
    split
    · rename_i r' m hd
      have hb1 := hset r' (by rw [hd])
      obtain ⟨k, hk⟩ := hdm.2 m (by rw [hd])
      have hm : MsgQ Q m.2 := hb (k, m) hk
      have hap := apply_Q Q hQ { s with reseq := r' } m.2 hm
      have hrs := SeqP.apply_reseq { s with reseq := r' } m.2
      split
      · rename_i s1 e1 happ
        rw [happ] at hap hrs
        refine ih true s1 (acc ++ e1) ?_ ?_
        · intro x hx; simp only at hrs; rw [hrs] at hx; exact hb1 x hx
        · intro e he
          rcases List.mem_append.mp he with he | he
          · exact ha e he
          · exact hap e he
      · rename_i s1 e1 r happ
        rw [happ] at hap hrs
        refine ⟨?_, ?_⟩
        · intro x hx; simp only at hrs; rw [hrs] at hx; exact hb1 x hx
        · intro e he
          rcases List.mem_append.mp he with he | he
          · exact ha e he
          · exact hap e he
    · rename_i r' hd
      have hb1 := hset r' (by rw [hd])
      refine ⟨?_, ?_⟩
      · intro x hx; simp only [cancelTimer_reseq] at hx; exact hb1 x hx
      · intro e he
        rcases List.mem_append.mp he with he | he
        · exact ha e he
        · exact cancelTimer_Q Q hQ _ e he
    · rename_i r' hd
      have hb1 := hset r' (by rw [hd])
      split
      · refine ⟨?_, ?_⟩
        · intro x hx; simp only [startTimer_reseq, cancelTimer_reseq] at hx; exact hb1 x hx
        · intro e he
          rcases List.mem_append.mp he with he | he
          · rcases List.mem_append.mp he with he | he
            · exact ha e he
            · exact cancelTimer_Q Q hQ _ e he
          · exact startTimer_Q Q hQ _ _ _ e he
      · exact ⟨hb1, ha⟩
    · rename_i r' hd
      exact ⟨hset r' (by rw [hd]), ha⟩

theorem handleRMsg_Q (c : Cfg) (s : St) (seq ts : Nat) (m : RMsg) (now : Nat)
    (hb : BufQ Q s) (hm : MsgQ Q m) :
    BufQ Q (handleRMsg c s seq ts m now).1 ∧ ∀ e ∈ (handleRMsg c s seq ts m now).2.1, Q e := by
  rw [C07P.handleRMsg_eq]
  split
  · exact ⟨hb, by simp⟩
  split
  · exact ⟨hb, by simp⟩
  split
  · refine ⟨?_, apply_Q Q hQ s m hm⟩
    intro x hx; rw [SeqP.apply_reseq] at hx; exact hb x hx
  have hpc := Reseq.process_cases s.reseq seq (seq, m)
  split
  · rename_i r' hp
    have hb1 : BufQ Q { s with reseq := r' } := by
      rcases hpc with ⟨_, h⟩ | ⟨s', h, _, k, hk⟩ | ⟨s', h, _, _⟩
      · rw [hp] at h; cases h
      · rw [hp] at h; cases h
        intro x hx
        simp only [hk] at hx
        rcases (Reseq.mem_insertSorted _ _ _ _).mp hx with rfl | hx
        · exact hm
        · exact hb x hx
      · rw [hp] at h; cases h
    split
    · refine ⟨?_, startTimer_Q Q hQ _ _ _⟩
      intro x hx; simp only [startTimer_reseq] at hx; exact hb1 x hx
    · exact ⟨hb1, by simp⟩
  · rename_i r' hp
    refine ⟨?_, by simp⟩
    rcases hpc with ⟨_, h⟩ | ⟨s', h, _, k, hk⟩ | ⟨s', h, _, hbuf⟩
    · rw [hp] at h; cases h
    · rw [hp] at h; cases h
    · rw [hp] at h; cases h
      intro x hx; simp only [hbuf] at hx; exact hb x hx
  · rename_i r' m' hp
    have hmr : m' = (seq, m) ∧ r'.buf = s.reseq.buf := by
      rcases hpc with ⟨_, h⟩ | ⟨s', h, _, k, hk⟩ | ⟨s', h, _, hbuf⟩
      · rw [hp] at h; cases h; exact ⟨rfl, rfl⟩
      · rw [hp] at h; cases h
      · rw [hp] at h; cases h
    obtain ⟨rfl, hbuf⟩ := hmr
    have hb1 : BufQ Q { s with reseq := r' } := by
      intro x hx; simp only [hbuf] at hx; exact hb x hx
    have hap := apply_Q Q hQ { s with reseq := r' } m hm
    have hrs := SeqP.apply_reseq { s with reseq := r' } m
    split
    · rename_i s1 e1 r happ
      rw [happ] at hap hrs
      refine ⟨?_, hap⟩
      intro x hx; simp only at hrs; rw [hrs] at hx; exact hb1 x hx
    · rename_i s1 e1 happ
      rw [happ] at hap hrs
      refine drainBuf_Q Q hQ c now _ false s1 e1 ?_ hap
      intro x hx; simp only at hrs; rw [hrs] at hx; exact hb1 x hx

theorem setStale_Q (s : St) (t : Nat) (hb : BufQ Q s) :
    BufQ Q (setStale s t).1 ∧ ∀ e ∈ (setStale s t).2, Q e := by
  rw [C07P.setStale_eq]
  split
  · exact ⟨hb, by simp⟩
  split
  · exact ⟨hb, by simp⟩
  · refine ⟨?_, ?_⟩
    · intro x hx
      simp only [cancelTimer_reseq, Reseq.init] at hx
      cases hx
    · intro e he
      simp only [List.mem_append, List.mem_map, List.mem_singleton] at he
      rcases he with (he | he) | ⟨d, _, he⟩
      · exact cancelTimer_Q Q hQ _ e he
      · subst he; exact hQ _ rfl
      · subst he; exact hQ _ rfl

theorem issueRebirth_Q (c : Cfg) (s : St) (r : Reason) (now wall : Nat) (hb : BufQ Q s) :
    BufQ Q (issueRebirth c s r now wall).1 ∧ ∀ e ∈ (issueRebirth c s r now wall).2, Q e := by
  rw [C07P.issueRebirth_eq]
  split
  · exact ⟨hb, by simp⟩
  split
  · exact ⟨hb, by simp⟩
  · obtain ⟨h1, h2⟩ := setStale_Q Q hQ { s with lastRebirth := wall } now hb
    refine ⟨h1, ?_⟩
    intro e he
    rcases List.mem_append.mp he with he | he
    · exact h2 e he
    · simp at he; subst he; exact hQ _ rfl

/-- **Part A, main lemma.** If `Q` holds of every effect that carries no id, of the ids of the
input, and of the ids of the buffered messages, then it holds of every effect of the step and
still of the buffered messages afterwards: a host step only emits ids of its input or of earlier
inputs it had buffered. -/
theorem step_Q (c : Cfg) (s : St) (i : In) (now wall : Nat) (hb : BufQ Q s) (hi : InQ Q i) :
    BufQ Q (step c s i now wall).1 ∧ ∀ e ∈ (step c s i now wall).2, Q e := by
  cases i with
  | nbirth ts bd id ans =>
    simp only [step]
    rw [C07P.handleBirth_eq]
    split
    · exact ⟨hb, by simp⟩
    split
    · obtain ⟨h1, h2⟩ := issueRebirth_Q Q hQ c s .invalidPayload now wall hb
      refine ⟨h1, ?_⟩
      intro e he
      rcases List.mem_append.mp he with he | he
      · simp at he; subst he; exact hi _
      · exact h2 e he
    · refine ⟨?_, ?_⟩
      · intro x hx
        simp [Reseq.setNext, Reseq.init] at hx
      · intro e he
        rcases List.mem_append.mp he with he | he
        · rcases List.mem_append.mp he with he | he
          · simp at he; subst he; exact hi _
          · exact cancelTimer_Q Q hQ _ e he
        · obtain ⟨x, _, rfl⟩ := List.mem_map.mp he
          exact hQ _ rfl
  | ndeath bd =>
    rw [C07P.step_ndeath_eq]
    have hb0 : BufQ Q (cancelTimer s).1 := by
      intro x hx; rw [cancelTimer_reseq] at hx; exact hb x hx
    obtain ⟨h1, h2⟩ := setStale_Q Q hQ (cancelTimer s).1 now hb0
    split
    · obtain ⟨h3, h4⟩ := issueRebirth_Q Q hQ c _ .outOfSyncBdSeq now wall h1
      refine ⟨h3, ?_⟩
      intro e he
      rcases List.mem_append.mp he with he | he
      · rcases List.mem_append.mp he with he | he
        · exact cancelTimer_Q Q hQ _ e he
        · exact h2 e he
      · exact h4 e he
    · refine ⟨h1, ?_⟩
      intro e he
      rcases List.mem_append.mp he with he | he
      · exact cancelTimer_Q Q hQ _ e he
      · exact h2 e he
  | rmsg seq ts m =>
    rw [C07P.step_rmsg_eq]
    obtain ⟨h1, h2⟩ := handleRMsg_Q Q hQ c s seq ts m now hb hi
    split
    · exact ⟨h1, h2⟩
    · obtain ⟨h3, h4⟩ := issueRebirth_Q Q hQ c _ _ now wall h1
      refine ⟨h3, ?_⟩
      intro e he
      rcases List.mem_append.mp he with he | he
      · exact h2 e he
      · exact h4 e he
  | offline => exact setStale_Q Q hQ s now hb
  | rebirthReq r => exact issueRebirth_Q Q hQ c s r now wall hb
  | timerFire =>
    simp only [step]
    split
    · exact issueRebirth_Q Q hQ c _ _ now wall (by intro x hx; exact hb x hx)
    · exact ⟨hb, by simp⟩

end PartA

/-! ## Part B — the composed system -/

theorem carries_EffOk (sent : List Msg) : ∀ e, carries e = false → EffOk sent e := by
  intro e he; cases e <;> simp_all [carries, EffOk]

theorem EffOk_mono {a b : List Msg} (h : ∀ m ∈ a, m ∈ b) (e : Eff) (he : EffOk a e) : EffOk b e := by
  cases e <;> simp only [EffOk] at he ⊢
  · obtain ⟨x, y, hx⟩ := he; exact ⟨x, y, h _ hx⟩
  · obtain ⟨x, y, hx⟩ := he; exact ⟨x, y, h _ hx⟩
  · obtain ⟨x, y, hx⟩ := he; exact ⟨x, y, h _ hx⟩
  · obtain ⟨x, y, hx⟩ := he; exact ⟨x, y, h _ hx⟩

theorem MsgQ_mono {a b : List Msg} (h : ∀ m ∈ a, m ∈ b) (m : RMsg) (hm : MsgQ (EffOk a) m) :
    MsgQ (EffOk b) m := by
  cases m <;> simp only [MsgQ] at hm ⊢
  · exact EffOk_mono h _ hm
  · exact fun b' => EffOk_mono h _ (hm b')
  · exact EffOk_mono h _ hm

/-- a message that was sent justifies the ids of its own effects -/
theorem InQ_of_mem (sent : List Msg) (m : Msg) (h : m ∈ sent) : InQ (EffOk sent) m.toIn := by
  cases m <;> simp only [Msg.toIn, InQ, MsgQ, EffOk]
  · exact fun _ => ⟨_, _, h⟩
  · exact ⟨_, _, h⟩
  · exact fun _ => ⟨_, _, h⟩
  · exact ⟨_, _, h⟩

/-! ### what node operations hand over is well formed -/

def Msg.WF (m : Msg) : Prop := m.toIn.WF

/-- the operation keeps `bdseq` and hands over well-formed messages -/
def OpOk (n : Node) (r : Node × List Msg) : Prop :=
  r.1.bdseq = n.bdseq ∧ ∀ m ∈ r.2, Msg.WF m

theorem nextSeq_some (n n1 : Node) (k : Nat) (h : n.nextSeq = some (n1, k)) :
    k = (n.seq + 1) % 256 ∧ n1 = { n with seq := k } ∧ n.online = true ∧ n.birthed = true := by
  unfold Node.nextSeq at h
  split at h
  · rename_i hg
    cases h
    simp only [Bool.and_eq_true] at hg
    exact ⟨rfl, rfl, hg.1, hg.2⟩
  · cases h

theorem devBirth_ok (rb : Bool) (ts : Nat) (n : Node) (x : Dev) :
    (Node.devBirth rb ts n x).1.bdseq = n.bdseq ∧ ∀ m ∈ (Node.devBirth rb ts n x).2.2, Msg.WF m := by
  unfold Node.devBirth
  split
  · simp
  split
  · simp
  split
  · simp
  · rename_i n1 k hk
    obtain ⟨rfl, rfl, _, _⟩ := nextSeq_some n n1 k hk
    refine ⟨rfl, ?_⟩
    intro m hm
    simp only [List.mem_singleton] at hm
    subst hm
    simp only [Msg.WF, Msg.toIn, In.WF]
    omega

theorem birthDevs_ok (rb : Bool) (ts : Nat) (l : List Dev) : ∀ (n : Node),
    (Node.birthDevs rb ts n l).1.bdseq = n.bdseq ∧ ∀ m ∈ (Node.birthDevs rb ts n l).2.2, Msg.WF m := by
  induction l with
  | nil => intro n; simp [Node.birthDevs]
  | cons x t ih =>
    intro n
    simp only [Node.birthDevs]
    obtain ⟨h1, h2⟩ := devBirth_ok rb ts n x
    obtain ⟨h3, h4⟩ := ih (Node.devBirth rb ts n x).1
    refine ⟨h3.trans h1, ?_⟩
    intro m hm
    rcases List.mem_append.mp hm with hm | hm
    · exact h2 m hm
    · exact h4 m hm

theorem nodeBirth_ok (rb : Bool) (ts : Nat) (n : Node) (hbd : n.bdseq < 256) :
    OpOk n (Node.nodeBirth rb ts n) := by
  simp only [Node.nodeBirth, OpOk]
  obtain ⟨h1, h2⟩ := birthDevs_ok rb ts n.devs { n with birthed := true, seq := 0, nextId := n.nextId + 1 }
  refine ⟨h1, ?_⟩
  intro m hm
  rcases List.mem_cons.mp hm with rfl | hm
  · simpa [Msg.WF, Msg.toIn, In.WF] using hbd
  · exact h2 m hm

theorem OpOk_refl (n : Node) : OpOk n (n, []) := ⟨rfl, by simp⟩

theorem rebirth_ok (ts : Nat) (n : Node) (hbd : n.bdseq < 256) : OpOk n (Node.rebirth ts n) := by
  unfold Node.rebirth
  split
  · exact OpOk_refl n
  · exact nodeBirth_ok true ts n hbd

theorem goOnline_ok (ts : Nat) (n : Node) (hbd : n.bdseq < 256) : OpOk n (Node.goOnline ts n) := by
  unfold Node.goOnline
  split
  · exact OpOk_refl n
  · exact nodeBirth_ok false ts { n with online := true } hbd

theorem pubNode_ok (ts : Nat) (n : Node) : OpOk n (Node.pubNode ts n) := by
  unfold Node.pubNode
  split
  · exact OpOk_refl n
  · rename_i n1 k hk
    obtain ⟨rfl, rfl, _, _⟩ := nextSeq_some n n1 k hk
    refine ⟨rfl, ?_⟩
    intro m hm
    simp only [List.mem_singleton] at hm
    subst hm
    simp only [Msg.WF, Msg.toIn, In.WF]
    omega

theorem pubDev_ok (d ts : Nat) (n : Node) : OpOk n (Node.pubDev d ts n) := by
  unfold Node.pubDev
  split
  · exact OpOk_refl n
  split
  · exact OpOk_refl n
  split
  · exact OpOk_refl n
  · rename_i n1 k hk
    obtain ⟨rfl, rfl, _, _⟩ := nextSeq_some n n1 k hk
    refine ⟨rfl, ?_⟩
    intro m hm
    simp only [List.mem_singleton] at hm
    subst hm
    simp only [Msg.WF, Msg.toIn, In.WF]
    omega

theorem enable_ok (d ts : Nat) (n : Node) : OpOk n (Node.enable d ts n) := by
  unfold Node.enable
  split
  · exact OpOk_refl n
  · rename_i x hx
    obtain ⟨h1, h2⟩ := devBirth_ok false ts n { x with enabled := true }
    exact ⟨h1, h2⟩

theorem disable_ok (d ts : Nat) (n : Node) : OpOk n (Node.disable d ts n) := by
  unfold Node.disable
  split
  · exact OpOk_refl n
  split
  · exact ⟨rfl, by simp⟩
  split
  · exact ⟨rfl, by simp⟩
  · rename_i n1 k hk
    obtain ⟨rfl, rfl, _, _⟩ := nextSeq_some n n1 k hk
    refine ⟨rfl, ?_⟩
    intro m hm
    simp only [List.mem_singleton] at hm
    subst hm
    simp only [Msg.WF, Msg.toIn, In.WF]
    omega

/-! ### the safety invariant -/

/-- Everything in flight was sent and is well formed; ids of buffered messages and of all
effects so far are justified by `sent`; the host half is a run of the host model from `init`. -/
structure SafeInv (c : Cfg) (s : Sys) : Prop where
  cfg : s.cfg = c
  bd : s.node.bdseq < 256
  will : s.will < 256
  flight : ∀ m ∈ s.toHost, m ∈ s.sent ∧ Msg.WF m
  buf : BufQ (EffOk s.sent) s.host
  effs : ∀ e ∈ s.effs, EffOk s.sent e
  isRun : ∃ evs : List Ev, (∀ e ∈ evs, e.inp.WF) ∧ Host.run c Host.init evs = (s.host, s.effs)

theorem SafeInv_init (c : Cfg) (devs : List Dev) : SafeInv c (Sys.init c devs) where
  cfg := rfl
  bd := by simp [Sys.init]
  will := by simp [Sys.init]
  flight := by simp [Sys.init]
  buf := by intro x hx; simp [Sys.init, Host.init, Reseq.init] at hx
  effs := by simp [Sys.init]
  isRun := ⟨[], by simp, rfl⟩

theorem SafeInv_send (c : Cfg) (s : Sys) (r : Node × List Msg) (h : SafeInv c s)
    (hr : OpOk s.node r) : SafeInv c (s.send r.1 r.2) where
  cfg := h.cfg
  bd := by simp only [Sys.send]; rw [hr.1]; exact h.bd
  will := h.will
  flight := by
    intro m hm
    simp only [Sys.send] at hm ⊢
    rcases List.mem_append.mp hm with hm | hm
    · exact ⟨List.mem_append_left _ (h.flight m hm).1, (h.flight m hm).2⟩
    · exact ⟨List.mem_append_right _ hm, hr.2 m hm⟩
  buf := fun x hx => MsgQ_mono (fun m hm => List.mem_append_left _ hm) _ (h.buf x hx)
  effs := fun e he => EffOk_mono (fun m hm => List.mem_append_left _ hm) _ (h.effs e he)
  isRun := h.isRun

theorem SafeInv_hostStep (c : Cfg) (s : Sys) (i : In) (h : SafeInv c s)
    (hi : InQ (EffOk s.sent) i) (hwf : i.WF) : SafeInv c (s.hostStep i) := by
  obtain ⟨hq1, hq2⟩ := step_Q (EffOk s.sent) (carries_EffOk s.sent) s.cfg s.host i s.clock s.clock h.buf hi
  refine ⟨h.cfg, h.bd, h.will, h.flight, hq1, ?_, ?_⟩
  · intro e he
    simp only [Sys.hostStep] at he
    rcases List.mem_append.mp he with he | he
    · exact h.effs e he
    · exact hq2 e he
  · obtain ⟨evs, hw, hrun⟩ := h.isRun
    refine ⟨evs ++ [⟨i, s.clock, s.clock⟩], ?_, ?_⟩
    · intro e he
      rcases List.mem_append.mp he with he | he
      · exact hw e he
      · simp only [List.mem_singleton] at he; subst he; exact hwf
    · rw [SeqP.run_append, hrun, SeqP.run_single]
      simp only [Sys.hostStep, h.cfg]

theorem eraseIdx_mem {α} (l : List α) (k : Nat) (x : α) (h : x ∈ l.eraseIdx k) : x ∈ l :=
  (List.eraseIdx_sublist l k).subset h

theorem SafeInv_erase (c : Cfg) (s : Sys) (k : Nat) (h : SafeInv c s) :
    SafeInv c { s with toHost := s.toHost.eraseIdx k } :=
  ⟨h.cfg, h.bd, h.will, fun m hm => h.flight m (eraseIdx_mem _ _ _ hm), h.buf, h.effs, h.isRun⟩

/-- **Part B, main lemma**: the safety invariant is preserved by every action. -/
theorem SafeInv_step (c : Cfg) (s : Sys) (a : Action) (h : SafeInv c s) : SafeInv c (s.step a) := by
  cases a with
  | publishNode => exact SafeInv_send c s _ h (pubNode_ok _ _)
  | publishDev d => exact SafeInv_send c s _ h (pubDev_ok _ _ _)
  | enable d => exact SafeInv_send c s _ h (enable_ok _ _ _)
  | disable d => exact SafeInv_send c s _ h (disable_ok _ _ _)
  | manualRebirth => exact SafeInv_send c s _ h (rebirth_ok _ _ h.bd)
  | deliver k =>
    simp only [Sys.step]
    split
    · exact h
    · rename_i m hm
      have hmem : m ∈ s.toHost := List.mem_of_getElem? hm
      have h1 := SafeInv_erase c s k h
      simp only [Sys.recv]
      split
      · exact SafeInv_hostStep c _ _ h1 (InQ_of_mem _ _ (h.flight m hmem).1) (h.flight m hmem).2
      · exact h1
  | duplicate k =>
    simp only [Sys.step]
    split
    · exact h
    · rename_i m hm
      have hmem : m ∈ s.toHost := List.mem_of_getElem? hm
      refine ⟨h.cfg, h.bd, h.will, ?_, h.buf, h.effs, h.isRun⟩
      intro m' hm'
      rcases List.mem_append.mp hm' with hm' | hm'
      · exact h.flight m' hm'
      · simp only [List.mem_singleton] at hm'; subst hm'; exact h.flight _ hmem
  | drop k =>
    simp only [Sys.step]
    split
    · exact h
    · split
      · exact SafeInv_erase c s k h
      · exact h
  | deliverNcmd =>
    simp only [Sys.step]
    split
    · exact h
    · have h1 : SafeInv c { s with toNode := s.toNode - 1 } :=
        ⟨h.cfg, h.bd, h.will, h.flight, h.buf, h.effs, h.isRun⟩
      split
      · exact SafeInv_send c _ _ h1 (rebirth_ok _ _ h.bd)
      · exact h1
  | dropNcmd => exact ⟨h.cfg, h.bd, h.will, h.flight, h.buf, h.effs, h.isRun⟩
  | nodeDisconnect =>
    simp only [Sys.step]
    split
    · exact h
    · refine ⟨h.cfg, ?_, ?_, ?_, ?_, ?_, h.isRun⟩
      · simp only [Node.goOffline]
        split
        · exact h.bd
        · simp only; omega
      · simp only [Node.goOffline]
        split
        · simpa using h.will
        · simp only [Option.getD_some]; omega
      · intro m hm
        simp only at hm ⊢
        rcases List.mem_append.mp hm with hm | hm
        · exact ⟨List.mem_append_left _ (h.flight m hm).1, (h.flight m hm).2⟩
        · refine ⟨List.mem_append_right _ hm, ?_⟩
          simp only [List.mem_singleton] at hm; subst hm
          simpa [Msg.WF, Msg.toIn, In.WF] using h.will
      · exact fun x hx => MsgQ_mono (fun m hm => List.mem_append_left _ hm) _ (h.buf x hx)
      · exact fun e he => EffOk_mono (fun m hm => List.mem_append_left _ hm) _ (h.effs e he)
  | nodeConnect =>
    simp only [Sys.step]
    split
    · exact h
    · have h1 := SafeInv_send c s _ h (goOnline_ok s.clock s.node h.bd)
      exact ⟨h1.cfg, h1.bd, h1.will, h1.flight, h1.buf, h1.effs, h1.isRun⟩
  | hostDisconnect =>
    simp only [Sys.step]
    split
    · exact h
    · have h1 := SafeInv_hostStep c s .offline h trivial trivial
      exact ⟨h1.cfg, h1.bd, h1.will, h1.flight, h1.buf, h1.effs, h1.isRun⟩
  | hostConnect => exact ⟨h.cfg, h.bd, h.will, h.flight, h.buf, h.effs, h.isRun⟩
  | advance ms =>
    simp only [Sys.step]
    have h1 : SafeInv c { s with clock := s.clock + ms } :=
      ⟨h.cfg, h.bd, h.will, h.flight, h.buf, h.effs, h.isRun⟩
    split
    · split
      · exact SafeInv_hostStep c _ .timerFire h1 trivial trivial
      · exact h1
    · exact h1

theorem SafeInv_run (c : Cfg) (as : List Action) : ∀ (s : Sys), SafeInv c s → SafeInv c (s.run as) := by
  induction as with
  | nil => intro s h; exact h
  | cons a as ih => intro s h; exact ih _ (SafeInv_step c s a h)


/-! ## Part C — host steps under the full configuration -/

theorem enabled_full (d : Nat) (r : Reason) : (Sys.fullCfg d).enabled r = true := by
  cases r <;> rfl
theorem full_cooldown (d : Nat) : (Sys.fullCfg d).cooldown = 0 := rfl
theorem full_reseq (d : Nat) : (Sys.fullCfg d).resequence = true := rfl
theorem full_timeout (d : Nat) : (Sys.fullCfg d).reorderTimeout = some d := rfl

/-- what a rebirth request does to a birthed record -/
def goStale (s : St) (now : Nat) : St :=
  { s with lastRebirth := now, reseq := Reseq.init, timer := .none, life := .stale, staleTs := now,
           devices := s.devices.map fun p => (p.1, .stale) }

theorem count_ncmd_zero (l : List Eff) (h : Eff.ncmd ∉ l) : l.count Eff.ncmd = 0 :=
  List.count_eq_zero_of_not_mem h

theorem issueRebirth_full (d : Nat) (s : St) (r : Reason) (now : Nat)
    (hb : s.life = .birthed) (hclk : s.birthTs ≤ now) :
    (issueRebirth (Sys.fullCfg d) s r now now).1 = goStale s now ∧
    (issueRebirth (Sys.fullCfg d) s r now now).2.count Eff.ncmd = 1 := by
  rw [C07P.issueRebirth_eq]
  simp only [enabled_full, full_cooldown, Bool.not_true, Bool.false_eq_true, if_false, Nat.not_lt_zero]
  have hn := C07P.setStale_ncmd { s with lastRebirth := now } now
  rw [setStale_go { s with lastRebirth := now } now hb hclk] at hn ⊢
  refine ⟨rfl, ?_⟩
  rw [List.count_append, count_ncmd_zero _ hn]
  simp

theorem goStale_inv (s : St) (now : Nat) (hn : (s.devices.map Prod.fst).Nodup) :
    HostInv (goStale s now) := by
  refine ⟨Reseq.init_inv, fun _ => ⟨rfl, rfl, ?_⟩, ?_⟩
  · intro p hp
    simp only [goStale, List.mem_map] at hp
    obtain ⟨q, _, rfl⟩ := hp
    rfl
  · simpa [goStale, List.map_map, Function.comp_def] using hn

/-- stale host, fresh message: nothing but an NCMD -/
theorem step_stale_rmsg (d : Nat) (h : St) (seq ts : Nat) (m : RMsg) (now : Nat)
    (hst : h.life = .stale) (hf1 : h.birthTs ≤ ts) (hf2 : h.staleTs ≤ ts) :
    step (Sys.fullCfg d) h (.rmsg seq ts m) now now = ({ h with lastRebirth := now }, [.ncmd]) := by
  have hnf : ¬ (ts < h.birthTs ∨ ts < h.staleTs) := by omega
  rw [C07P.step_rmsg_eq, C07P.handleRMsg_eq, if_neg hnf, if_pos (by simp [hst])]
  simp [C07P.issueRebirth_eq, enabled_full, full_cooldown, C07P.setStale_eq, hst]

/-- an NBIRTH newer than the applied one is accepted whatever the record held -/
theorem step_nbirth (c : Cfg) (h : St) (ts bd id now : Nat) (hnew : h.birthTs < ts) :
    (step c h (.nbirth ts bd id .ok) now now).1 =
      { h with timer := .none, birthTs := ts, life := .birthed, bdseq := bd,
               reseq := { buf := [], next := 1, mode := .good },
               devices := h.devices.map fun p => (p.1, Life.stale) } ∧
    (h.timer = .none → (step c h (.nbirth ts bd id .ok) now now).2.count Eff.ncmd = 0) := by
  simp only [step]
  rw [C07P.handleBirth_eq, if_neg (by omega), if_neg (by simp), SeqP.cancelTimer_fst]
  refine ⟨rfl, fun ht => ?_⟩
  apply count_ncmd_zero
  intro hm
  rcases List.mem_append.mp hm with hm | hm
  · rcases List.mem_append.mp hm with hm | hm
    · simp at hm
    · simp [cancelTimer, ht] at hm
  · obtain ⟨x, _, hx⟩ := List.mem_map.mp hm
    cases hx

/-- tracking: birthed, nothing buffered, no timer, expecting `e` -/
structure Track (h : St) (e : Nat) : Prop where
  life : h.life = .birthed
  reseq : h.reseq = { buf := [], next := e, mode := .good }
  timer : h.timer = .none

def tracked (h : St) (e : Nat) : St := { h with reseq := { buf := [], next := (e + 1) % 256, mode := .good } }

theorem tracked_track (h : St) (e : Nat) (ht : Track h e) : Track (tracked h e) ((e + 1) % 256) :=
  ⟨ht.life, rfl, ht.timer⟩

theorem step_track_ndata (d : Nat) (h : St) (e ts id now : Nat) (ht : Track h e)
    (hf1 : h.birthTs ≤ ts) (hf2 : h.staleTs ≤ ts) :
    step (Sys.fullCfg d) h (.rmsg e ts (.ndata id .ok)) now now = (tracked h e, [.nodeData id]) := by
  have hnf : ¬ (ts < h.birthTs ∨ ts < h.staleTs) := by omega
  obtain ⟨h1, h2, h3⟩ := ht
  obtain ⟨life, bts, sts, bd, lr, rs, dv, tm⟩ := h
  simp only at h1 h2 h3 hnf
  subst h1 h2 h3
  simp [step, handleRMsg, hnf, full_reseq, Reseq.process, apply, drainBuf, Reseq.drain, cancelTimer,
    Reseq.wadd, tracked]

/-- the device table after an accepted DBIRTH of `d` -/
def birthDev (d : Nat) (D : List (Nat × Life)) : List (Nat × Life) :=
  setDev d .birthed (match findDev d D with | some _ => D | none => D ++ [(d, .stale)])

theorem step_track_dbirth (d : Nat) (h : St) (e ts dv id now : Nat) (ht : Track h e)
    (hf1 : h.birthTs ≤ ts) (hf2 : h.staleTs ≤ ts) :
    (step (Sys.fullCfg d) h (.rmsg e ts (.dbirth dv id .ok)) now now).1
        = { tracked h e with devices := birthDev dv h.devices } ∧
    Eff.ncmd ∉ (step (Sys.fullCfg d) h (.rmsg e ts (.dbirth dv id .ok)) now now).2 := by
  have hnf : ¬ (ts < h.birthTs ∨ ts < h.staleTs) := by omega
  obtain ⟨h1, h2, h3⟩ := ht
  obtain ⟨life, bts, sts, bd, lr, rs, dvs, tm⟩ := h
  simp only at h1 h2 h3 hnf
  subst h1 h2 h3
  cases hfd : findDev dv dvs <;>
  simp [step, handleRMsg, hnf, full_reseq, Reseq.process, apply, drainBuf, Reseq.drain, cancelTimer,
    Reseq.wadd, tracked, birthDev, hfd]

theorem step_track_ddata_ok (d : Nat) (h : St) (e ts dv id now : Nat) (ht : Track h e)
    (hf1 : h.birthTs ≤ ts) (hf2 : h.staleTs ≤ ts) (hdev : findDev dv h.devices = some .birthed) :
    step (Sys.fullCfg d) h (.rmsg e ts (.ddata dv id .ok)) now now = (tracked h e, [.devData dv id]) := by
  have hnf : ¬ (ts < h.birthTs ∨ ts < h.staleTs) := by omega
  obtain ⟨h1, h2, h3⟩ := ht
  obtain ⟨life, bts, sts, bd, lr, rs, dvs, tm⟩ := h
  simp only at h1 h2 h3 hnf hdev
  subst h1 h2 h3
  simp [step, handleRMsg, hnf, full_reseq, Reseq.process, apply, drainBuf, Reseq.drain, cancelTimer,
    Reseq.wadd, tracked, hdev]

theorem step_track_ddata_bad (d : Nat) (h : St) (e ts dv id now : Nat) (ht : Track h e)
    (hf1 : h.birthTs ≤ ts) (hf2 : h.staleTs ≤ ts) (hclk : h.birthTs ≤ now)
    (hdev : findDev dv h.devices ≠ some .birthed) :
    (step (Sys.fullCfg d) h (.rmsg e ts (.ddata dv id .ok)) now now).1 = goStale (tracked h e) now ∧
    (step (Sys.fullCfg d) h (.rmsg e ts (.ddata dv id .ok)) now now).2.count Eff.ncmd = 1 := by
  have hnf : ¬ (ts < h.birthTs ∨ ts < h.staleTs) := by omega
  have hlife := ht.life
  obtain ⟨h1, h2, h3⟩ := ht
  have key : ∃ r, step (Sys.fullCfg d) h (.rmsg e ts (.ddata dv id .ok)) now now =
      issueRebirth (Sys.fullCfg d) (tracked h e) r now now := by
    obtain ⟨life, bts, sts, bd, lr, rs, dvs, tm⟩ := h
    simp only at h1 h2 h3 hnf hdev
    subst h1 h2 h3
    cases hfd : findDev dv dvs with
    | none =>
      refine ⟨.unknownDevice, ?_⟩
      simp [step, handleRMsg, hnf, full_reseq, Reseq.process, apply, Reseq.wadd, tracked, hfd]
    | some l =>
      cases l with
      | birthed => exact absurd hfd hdev
      | stale =>
        refine ⟨.recordedStateStale, ?_⟩
        simp [step, handleRMsg, hnf, full_reseq, Reseq.process, apply, Reseq.wadd, tracked, hfd]
  obtain ⟨r, hr⟩ := key
  rw [hr]
  exact issueRebirth_full d (tracked h e) r now hlife hclk

/-- tracking, but the message is not the expected one: buffered, timer armed -/
theorem step_track_gap (d : Nat) (h : St) (e seq ts : Nat) (m : RMsg) (now : Nat) (ht : Track h e)
    (hf1 : h.birthTs ≤ ts) (hf2 : h.staleTs ≤ ts) (hne : seq ≠ e) :
    step (Sys.fullCfg d) h (.rmsg seq ts m) now now =
      ({ h with reseq := { buf := [(Reseq.wsub seq e, (seq, m))], next := e, mode := .reseq e },
                timer := .armed (now + d) }, [.timerStart]) := by
  have hnf : ¬ (ts < h.birthTs ∨ ts < h.staleTs) := by omega
  have hne' : ¬ e = seq := fun h => hne h.symm
  obtain ⟨h1, h2, h3⟩ := ht
  obtain ⟨life, bts, sts, bd, lr, rs, dv, tm⟩ := h
  simp only at h1 h2 h3 hnf
  subst h1 h2 h3
  simp [step, handleRMsg, hnf, full_reseq, full_timeout, Reseq.process, hne', Reseq.hasKey, Reseq.insertSorted,
    startTimer]


/-- lagging: birthed, messages buffered, reorder timer running; every buffered message is one of
the first `i` messages of the stream that numbers its messages `(k + j) % 256` -/
structure Lag (h : St) (k i : Nat) : Prop where
  life : h.life = .birthed
  inv : HostInv h
  armed : ∃ dl, h.timer = .armed dl
  ne : h.reseq.buf ≠ []
  seqs : ∀ x ∈ h.reseq.buf, ∃ j, j < i ∧ x.2.1 = (k + j) % 256

/-- the outcome "went stale and asked for a rebirth" -/
structure WentStale (h0 : St) (now : Nat) (r : St × List Eff) : Prop where
  life : r.1.life = .stale
  inv : HostInv r.1
  birthTs : r.1.birthTs = h0.birthTs
  staleTs : r.1.staleTs = now
  ncmd : r.2.count Eff.ncmd = 1

theorem step_lag (d : Nat) (h : St) (k i ts : Nat) (m : RMsg) (now : Nat) (hl : Lag h k i)
    (hi : i < 255) (hf1 : h.birthTs ≤ ts) (hf2 : h.staleTs ≤ ts) (hclk : h.birthTs ≤ now) :
    let r := step (Sys.fullCfg d) h (.rmsg ((k + i) % 256) ts m) now now
    (Lag r.1 k (i + 1) ∧ r.1.birthTs = h.birthTs ∧ r.1.staleTs = h.staleTs ∧ r.2.count Eff.ncmd = 0) ∨
    WentStale h now r := by
  intro r
  have hseq : (k + i) % 256 < 256 := Nat.mod_lt _ (by omega)
  have hinvR : HostInv r.1 := (Host.step_spec (Sys.fullCfg d) h (.rmsg ((k + i) % 256) ts m) now now hl.inv hseq).1
  have hfresh : Fresh h ts := ⟨hf1, hf2⟩
  have hnew : ∀ x ∈ h.reseq.buf, x.2.1 ≠ (k + i) % 256 := by
    intro x hx
    obtain ⟨j, hj, hxj⟩ := hl.seqs x hx
    rw [hxj]; omega
  obtain ⟨dl, hdl⟩ := hl.armed
  have hr : r = step (Sys.fullCfg d) h (.rmsg ((k + i) % 256) ts m) now now := rfl
  rw [C07P.step_rmsg_eq, C07P.handleRMsg_pass _ h _ ts m now hfresh hl.life] at hr
  simp only [full_reseq, Bool.not_true, Bool.false_eq_true, if_false] at hr
  by_cases hnx : (k + i) % 256 = h.reseq.next
  · -- the expected message: applied; nothing buffered follows it
    rw [C07P.process_next _ _ _ hl.inv.1 hseq hnx hnew] at hr
    simp only at hr
    have hfst := SeqP.apply_fst { h with reseq := { h.reseq with next := Reseq.wadd h.reseq.next 1 } } m
    have hncmd := C07P.apply_ncmd { h with reseq := { h.reseq with next := Reseq.wadd h.reseq.next 1 } } m
    have hnodup := apply_nodup { h with reseq := { h.reseq with next := Reseq.wadd h.reseq.next 1 } } m hl.inv.2.2
    generalize hap : apply { h with reseq := { h.reseq with next := Reseq.wadd h.reseq.next 1 } } m = p at hr hfst hncmd hnodup
    obtain ⟨s1, e1, o⟩ := p
    simp only at hfst hncmd hnodup
    cases o with
    | some rsn =>
      right
      simp only at hr
      have hb1 : s1.life = .birthed := by rw [hfst]; exact hl.life
      have hc1 : s1.birthTs ≤ now := by rw [hfst]; exact hclk
      obtain ⟨q1, q2⟩ := issueRebirth_full d s1 rsn now hb1 hc1
      refine ⟨?_, hinvR, ?_, ?_, ?_⟩
      · rw [hr]; simp only; rw [q1]; rfl
      · rw [hr]; simp only; rw [q1, hfst]; rfl
      · rw [hr]; simp only; rw [q1]; rfl
      · rw [hr]; simp only; rw [List.count_append, q2, count_ncmd_zero _ hncmd]
    | none =>
      left
      -- the buffer is not empty and does not hold the next number
      have hbuf1 : s1.reseq = { h.reseq with next := Reseq.wadd h.reseq.next 1 } := by rw [hfst]
      obtain ⟨off, hmode⟩ : ∃ off, h.reseq.mode = .reseq off := by
        cases hm : h.reseq.mode with
        | good => have := hl.inv.1.2; rw [hm] at this; exact absurd this hl.ne
        | reseq off => exact ⟨off, rfl⟩
      have hRI := hl.inv.1.2
      rw [hmode] at hRI
      obtain ⟨hoff, _, _, hall⟩ := hRI
      have hrk : Reseq.removeKey (Reseq.wsub (Reseq.wadd h.reseq.next 1) off) h.reseq.buf = none := by
        rw [Reseq.removeKey_none_iff]
        intro x hx hk
        obtain ⟨hx1, hx2⟩ := hall x hx
        obtain ⟨j, hj, hxj⟩ := hl.seqs x hx
        rw [hx2] at hk
        have := C07P.wsub_inj _ _ _ hx1 (by unfold Reseq.wadd; omega) hk
        rw [hxj, ← hnx] at this
        unfold Reseq.wadd at this
        omega
      have hdrain : Reseq.drain s1.reseq = (s1.reseq, .missing) := by
        rw [hbuf1]
        have hne : h.reseq.buf.isEmpty = false := by
          cases hb : h.reseq.buf with
          | nil => exact absurd hb hl.ne
          | cons a t => rfl
        simp [Reseq.drain, hmode, hne, hrk]
      simp only at hr
      rw [C07P.drainBuf_succ, hdrain] at hr
      simp only [Bool.false_eq_true, if_false] at hr
      have hr1 : r.1 = s1 := by rw [hr]
      have hr2 : r.2 = e1 := by rw [hr]
      refine ⟨⟨?_, hinvR, ?_, ?_, ?_⟩, ?_, ?_, ?_⟩
      · rw [hr1, hfst]; exact hl.life
      · rw [hr1, hfst]; exact ⟨dl, hdl⟩
      · rw [hr1, hbuf1]; exact hl.ne
      · rw [hr1, hbuf1]
        intro x hx
        obtain ⟨j, hj, hxj⟩ := hl.seqs x hx
        exact ⟨j, by omega, hxj⟩
      · rw [hr1, hfst]
      · rw [hr1, hfst]
      · rw [hr2]; exact count_ncmd_zero _ hncmd
  · -- not the expected one and not a duplicate: buffered, the timer keeps running
    left
    have hnx' : (k + i) % 256 ≠ h.reseq.next := hnx
    obtain ⟨r', hp⟩ := C07P.process_inserted h.reseq ((k + i) % 256) ((k + i) % 256, m) hl.inv.1 hseq hnx' hnew
    have hbuf : ∃ key, r'.buf = Reseq.insertSorted key ((k + i) % 256, m) h.reseq.buf := by
      rcases Reseq.process_cases h.reseq ((k + i) % 256) ((k + i) % 256, m) with ⟨_, h1⟩ | ⟨s', h1, _, key, hk⟩ | ⟨s', h1, _, _⟩
      · rw [hp] at h1; cases h1
      · rw [hp] at h1; cases h1; exact ⟨key, hk⟩
      · rw [hp] at h1; cases h1
    obtain ⟨key, hkey⟩ := hbuf
    rw [hp] at hr
    simp only [hdl] at hr
    have hr1 : r.1 = { h with reseq := r' } := by rw [hr]; simp [hdl]
    have hr2 : r.2 = [] := by rw [hr]
    refine ⟨⟨?_, hinvR, ?_, ?_, ?_⟩, ?_, ?_, ?_⟩
    · rw [hr1]; exact hl.life
    · rw [hr1]; exact ⟨dl, hdl⟩
    · rw [hr1]; simp only [hkey]; exact Reseq.insertSorted_ne_nil _ _ _
    · rw [hr1]
      intro x hx
      simp only [hkey] at hx
      rcases (Reseq.mem_insertSorted _ _ _ _).mp hx with rfl | hx
      · exact ⟨i, by omega, rfl⟩
      · obtain ⟨j, hj, hxj⟩ := hl.seqs x hx
        exact ⟨j, by omega, hxj⟩
    · rw [hr1]
    · rw [hr1]
    · rw [hr2]; rfl


/-! ### feeding a burst of messages to the host at one clock reading -/

def ev (clk : Nat) (m : Msg) : Ev := ⟨m.toIn, clk, clk⟩

def feed (c : Cfg) (clk : Nat) (h : St) (ms : List Msg) : St × List Eff := Host.run c h (ms.map (ev clk))

theorem feed_nil (c : Cfg) (clk : Nat) (h : St) : feed c clk h [] = (h, []) := rfl

theorem feed_cons (c : Cfg) (clk : Nat) (h : St) (m : Msg) (t : List Msg) :
    feed c clk h (m :: t) =
      ((feed c clk (step c h m.toIn clk clk).1 t).1,
       (step c h m.toIn clk clk).2 ++ (feed c clk (step c h m.toIn clk clk).1 t).2) := rfl

theorem feed_count_le (c : Cfg) (clk : Nat) (ms : List Msg) : ∀ h : St,
    (feed c clk h ms).2.count Eff.ncmd ≤ ms.length := by
  induction ms with
  | nil => intro h; simp [feed_nil]
  | cons m t ih =>
    intro h
    rw [feed_cons]
    simp only [List.count_append, List.length_cons]
    have h1 := (C07P.step_spec c h m.toIn clk clk).2.1
    have h2 := ih (step c h m.toIn clk clk).1
    omega

/-- per-device messages of one burst: the device at position `j` (counted from `i`) gets
sequence number `(k + j) % 256` and id `id0 + j` -/
def devMsgs (mk : Nat → Nat → Nat → Nat → Msg) (ts k id0 : Nat) : Nat → List Nat → List Msg
  | _, [] => []
  | i, d :: t => mk d ((k + i) % 256) ts (id0 + i) :: devMsgs mk ts k id0 (i + 1) t

theorem devMsgs_length (mk : Nat → Nat → Nat → Nat → Msg) (ts k id0 : Nat) (L : List Nat) :
    ∀ i, (devMsgs mk ts k id0 i L).length = L.length := by
  induction L with
  | nil => intro i; rfl
  | cons d t ih => intro i; simp [devMsgs, ih]

/-- a resequenceable message stamped `ts` -/
def Msg.isR (ts : Nat) : Msg → Prop
  | .ndata _ t _ => t = ts
  | .dbirth _ _ t _ => t = ts
  | .ddeath _ _ t _ => t = ts
  | .ddata _ _ t _ => t = ts
  | _ => False

theorem isR_toIn (ts : Nat) (m : Msg) (h : m.isR ts) : ∃ seq rm, m.toIn = .rmsg seq ts rm := by
  cases m <;> simp only [Msg.isR] at h <;> first | exact absurd h id | (subst h; exact ⟨_, _, rfl⟩)

theorem devMsgs_ddata_isR (ts k id0 : Nat) (L : List Nat) : ∀ i, ∀ m ∈ devMsgs .ddata ts k id0 i L, m.isR ts := by
  induction L with
  | nil => intro i m hm; simp [devMsgs] at hm
  | cons d t ih =>
    intro i m hm
    simp only [devMsgs, List.mem_cons] at hm
    rcases hm with rfl | hm
    · rfl
    · exact ih _ m hm

/-- a stale host answers every fresh message with an NCMD and stays as it is -/
theorem feed_stale (d clk : Nat) (ms : List Msg) : ∀ (h : St), h.life = .stale → h.birthTs ≤ clk →
    h.staleTs ≤ clk → (∀ m ∈ ms, m.isR clk) →
    (∃ lr, (feed (Sys.fullCfg d) clk h ms).1 = { h with lastRebirth := lr }) ∧
    (feed (Sys.fullCfg d) clk h ms).2.count Eff.ncmd = ms.length := by
  induction ms with
  | nil => intro h _ _ _ _; exact ⟨⟨h.lastRebirth, rfl⟩, rfl⟩
  | cons m t ih =>
    intro h hst h1 h2 hall
    obtain ⟨seq, rm, hm⟩ := isR_toIn clk m (hall m (List.mem_cons_self ..))
    rw [feed_cons, hm, step_stale_rmsg d h seq clk rm clk hst h1 h2]
    obtain ⟨⟨lr, hlr⟩, hc⟩ := ih { h with lastRebirth := clk } hst h1 h2
      (fun m' hm' => hall m' (List.mem_cons_of_mem _ hm'))
    refine ⟨⟨lr, ?_⟩, ?_⟩
    · simp only; rw [hlr]
    · simp only [List.count_append, hc, List.length_cons]; simp; omega

/-- the burst ended with the host stale and at least one rebirth request out -/
structure StaleEnd (h0 : St) (clk : Nat) (r : St × List Eff) : Prop where
  life : r.1.life = .stale
  inv : HostInv r.1
  birthTs : r.1.birthTs = h0.birthTs
  staleTs : r.1.staleTs = clk
  ncmd : 1 ≤ r.2.count Eff.ncmd

theorem stale_then_feed (d clk : Nat) (h0 : St) (r1 : St × List Eff) (ms : List Msg)
    (hw : WentStale h0 clk r1) (hclk : h0.birthTs ≤ clk) (hall : ∀ m ∈ ms, m.isR clk) :
    StaleEnd h0 clk ((feed (Sys.fullCfg d) clk r1.1 ms).1, r1.2 ++ (feed (Sys.fullCfg d) clk r1.1 ms).2) := by
  obtain ⟨⟨lr, hlr⟩, hc⟩ := feed_stale d clk ms r1.1 hw.life (by rw [hw.birthTs]; exact hclk)
    (by rw [hw.staleTs]; exact Nat.le_refl _) hall
  refine ⟨?_, ?_, ?_, ?_, ?_⟩
  · simp only; rw [hlr]; exact hw.life
  · simp only; rw [hlr]
    exact ⟨hw.inv.1, fun hs => hw.inv.2.1 hs, hw.inv.2.2⟩
  · simp only; rw [hlr]; exact hw.birthTs
  · simp only; rw [hlr]; exact hw.staleTs
  · simp only [List.count_append]; have := hw.ncmd; omega

theorem track_inv (h : St) (e : Nat) (ht : Track h e) (he : e < 256)
    (hn : (h.devices.map Prod.fst).Nodup) : HostInv h := by
  refine ⟨?_, fun hs => ?_, hn⟩
  · rw [ht.reseq]; exact ⟨he, rfl⟩
  · rw [ht.life] at hs; cases hs

/-- all devices of the burst are held birthed: every DDATA is applied, in order -/
theorem feed_track_all (d clk k id0 : Nat) (L : List Nat) : ∀ (i : Nat) (h : St),
    Track h ((k + i) % 256) → h.birthTs ≤ clk → h.staleTs ≤ clk →
    (∀ dv ∈ L, findDev dv h.devices = some .birthed) →
    feed (Sys.fullCfg d) clk h (devMsgs .ddata clk k id0 i L) =
      ({ h with reseq := { buf := [], next := (k + i + L.length) % 256, mode := .good } },
       (devMsgs .ddata clk k id0 i L).filterMap Msg.dataEff) := by
  induction L with
  | nil =>
    intro i h ht _ _ _
    simp only [devMsgs, feed_nil, List.length_nil, Nat.add_zero, List.filterMap_nil]
    rw [← ht.reseq]
  | cons dv t ih =>
    intro i h ht h1 h2 hall
    simp only [devMsgs, feed_cons, Msg.toIn]
    rw [step_track_ddata_ok d h _ clk dv _ clk ht h1 h2 (hall dv (List.mem_cons_self ..))]
    have ht' : Track (tracked h ((k + i) % 256)) ((k + (i + 1)) % 256) := by
      have := tracked_track h _ ht
      have he : ((k + i) % 256 + 1) % 256 = (k + (i + 1)) % 256 := by omega
      rwa [he] at this
    rw [ih (i + 1) (tracked h ((k + i) % 256)) ht' h1 h2 (fun dv' hd => hall dv' (List.mem_cons_of_mem _ hd))]
    simp only [tracked, List.length_cons, List.filterMap_cons, Msg.dataEff, List.singleton_append]
    have he : (k + (i + 1) + t.length) % 256 = (k + i + (t.length + 1)) % 256 := by
      congr 1; omega
    rw [he]

/-- some device of the burst is not held birthed: the host goes stale and asks for a rebirth -/
theorem feed_track_bad (d clk k id0 : Nat) (L : List Nat) : ∀ (i : Nat) (h : St),
    Track h ((k + i) % 256) → h.birthTs ≤ clk → h.staleTs ≤ clk → (h.devices.map Prod.fst).Nodup →
    (∃ dv ∈ L, findDev dv h.devices ≠ some .birthed) →
    StaleEnd h clk (feed (Sys.fullCfg d) clk h (devMsgs .ddata clk k id0 i L)) := by
  induction L with
  | nil => intro i h _ _ _ _ hex; obtain ⟨dv, hd, _⟩ := hex; cases hd
  | cons dv t ih =>
    intro i h ht h1 h2 hn hex
    have ht' : Track (tracked h ((k + i) % 256)) ((k + (i + 1)) % 256) := by
      have := tracked_track h _ ht
      have he : ((k + i) % 256 + 1) % 256 = (k + (i + 1)) % 256 := by omega
      rwa [he] at this
    simp only [devMsgs, feed_cons, Msg.toIn]
    by_cases hdv : findDev dv h.devices = some .birthed
    · rw [step_track_ddata_ok d h _ clk dv _ clk ht h1 h2 hdv]
      have hex' : ∃ dv' ∈ t, findDev dv' (tracked h ((k + i) % 256)).devices ≠ some .birthed := by
        obtain ⟨dv', hd', hne⟩ := hex
        rcases List.mem_cons.mp hd' with rfl | hd'
        · exact absurd hdv hne
        · exact ⟨dv', hd', hne⟩
      have := ih (i + 1) (tracked h ((k + i) % 256)) ht' h1 h2 hn hex'
      refine ⟨this.life, this.inv, this.birthTs, this.staleTs, ?_⟩
      simp only [List.count_append]
      have := this.ncmd
      omega
    · obtain ⟨q1, q2⟩ := step_track_ddata_bad d h _ clk dv (id0 + i) clk ht h1 h2 h1 hdv
      have hw : WentStale h clk (step (Sys.fullCfg d) h (.rmsg ((k + i) % 256) clk (.ddata dv (id0 + i) .ok)) clk clk) := by
        refine ⟨?_, ?_, ?_, ?_, q2⟩
        · rw [q1]; rfl
        · rw [q1]; exact goStale_inv _ _ hn
        · rw [q1]; rfl
        · rw [q1]; rfl
      exact stale_then_feed d clk h _ _ hw h1 (devMsgs_ddata_isR clk k id0 t (i + 1))

/-- a lagging host stays lagging through the rest of the burst, or goes stale -/
theorem feed_lag (d clk k id0 : Nat) (L : List Nat) : ∀ (i : Nat) (h : St),
    Lag h k i → i + L.length ≤ 255 → h.birthTs ≤ clk → h.staleTs ≤ clk →
    let r := feed (Sys.fullCfg d) clk h (devMsgs .ddata clk k id0 i L)
    (Lag r.1 k (i + L.length) ∧ r.1.birthTs = h.birthTs ∧ r.1.staleTs = h.staleTs ∧
        r.2.count Eff.ncmd = 0) ∨ StaleEnd h clk r := by
  induction L with
  | nil =>
    intro i h hl _ _ _
    left
    simp only [devMsgs, feed_nil, List.length_nil, Nat.add_zero]
    exact ⟨hl, trivial, trivial, rfl⟩
  | cons dv t ih =>
    intro i h hl hlen h1 h2
    simp only [List.length_cons] at hlen
    simp only [devMsgs, feed_cons, Msg.toIn]
    rcases step_lag d h k i clk (.ddata dv (id0 + i) .ok) clk hl (by omega) h1 h2 h1 with
      ⟨hl', hb', hs', hc'⟩ | hw
    · rcases ih (i + 1) _ hl' (by omega) (by rw [hb']; exact h1) (by rw [hs']; exact h2) with
        ⟨hl'', hb'', hs'', hc''⟩ | hse
      · left
        refine ⟨?_, ?_, ?_, ?_⟩
        · have : i + (t.length + 1) = i + 1 + t.length := by omega
          simp only [List.length_cons]; rw [this]; exact hl''
        · rw [hb'', hb']
        · rw [hs'', hs']
        · simp only [List.count_append]; omega
      · right
        refine ⟨hse.life, hse.inv, ?_, hse.staleTs, ?_⟩
        · rw [hse.birthTs, hb']
        · simp only [List.count_append]; have := hse.ncmd; omega
    · right
      exact stale_then_feed d clk h _ _ hw h1 (devMsgs_ddata_isR clk k id0 t (i + 1))


/-! ### births -/

def birthAll (L : List Nat) (D : List (Nat × Life)) : List (Nat × Life) := L.foldl (fun D d => birthDev d D) D

theorem findDev_birthDev (d d' : Nat) (D : List (Nat × Life)) :
    findDev d' (birthDev d D) = if d' = d then some .birthed else findDev d' D := by
  unfold birthDev
  by_cases h : d' = d
  · subst h
    rw [if_pos rfl, findDev_setDev_self]
    cases hf : findDev d' D with
    | some l => simp [hf]
    | none => simp [findDev_append_single, hf]
  · rw [if_neg h, findDev_setDev_ne _ _ _ _ h]
    cases hf : findDev d D with
    | some l => rfl
    | none =>
      simp only [findDev_append_single]
      have : ¬ d = d' := fun h' => h h'.symm
      cases findDev d' D <;> simp [this]

theorem birthDev_nodup (d : Nat) (D : List (Nat × Life)) (h : (D.map Prod.fst).Nodup) :
    ((birthDev d D).map Prod.fst).Nodup := by
  unfold birthDev
  rw [map_fst_setDev]
  cases hf : findDev d D with
  | some l => exact h
  | none =>
    have hn := (findDev_eq_none d D).mp hf
    simp only [List.map_append, List.map_cons, List.map_nil]
    rw [List.nodup_append]
    refine ⟨h, by simp, ?_⟩
    intro a ha b hb
    simp only [List.mem_singleton] at hb
    subst hb
    intro hab; subst hab; exact hn ha

theorem findDev_birthAll (L : List Nat) : ∀ (D : List (Nat × Life)) (d' : Nat),
    findDev d' (birthAll L D) = if d' ∈ L then some .birthed else findDev d' D := by
  induction L with
  | nil => intro D d'; simp [birthAll]
  | cons d t ih =>
    intro D d'
    have : birthAll (d :: t) D = birthAll t (birthDev d D) := rfl
    rw [this, ih, findDev_birthDev]
    by_cases h1 : d' ∈ t
    · simp [h1]
    · by_cases h2 : d' = d
      · simp [h2]
      · simp [h1, h2]

theorem birthAll_nodup (L : List Nat) : ∀ (D : List (Nat × Life)), (D.map Prod.fst).Nodup →
    ((birthAll L D).map Prod.fst).Nodup := by
  induction L with
  | nil => intro D h; exact h
  | cons d t ih => intro D h; exact ih _ (birthDev_nodup d D h)

/-- the DBIRTHs of a (re)birth, delivered in order to a tracking host -/
theorem feed_births (d clk k id0 : Nat) (L : List Nat) : ∀ (i : Nat) (h : St),
    Track h ((k + i) % 256) → h.birthTs ≤ clk → h.staleTs ≤ clk →
    (feed (Sys.fullCfg d) clk h (devMsgs .dbirth clk k id0 i L)).1 =
      { h with reseq := { buf := [], next := (k + i + L.length) % 256, mode := .good },
               devices := birthAll L h.devices } ∧
    (feed (Sys.fullCfg d) clk h (devMsgs .dbirth clk k id0 i L)).2.count Eff.ncmd = 0 := by
  induction L with
  | nil =>
    intro i h ht _ _
    simp only [devMsgs, feed_nil, List.length_nil, Nat.add_zero, birthAll, List.foldl_nil]
    rw [← ht.reseq]
    exact ⟨rfl, rfl⟩
  | cons dv t ih =>
    intro i h ht h1 h2
    obtain ⟨q1, q2⟩ := step_track_dbirth d h _ clk dv (id0 + i) clk ht h1 h2
    have ht' : Track { tracked h ((k + i) % 256) with devices := birthDev dv h.devices } ((k + (i + 1)) % 256) := by
      have := tracked_track h _ ht
      have he : ((k + i) % 256 + 1) % 256 = (k + (i + 1)) % 256 := by omega
      rw [he] at this
      exact ⟨this.life, this.reseq, this.timer⟩
    obtain ⟨r1, r2⟩ := ih (i + 1) _ ht' h1 h2
    simp only [devMsgs, feed_cons, Msg.toIn]
    rw [q1]
    refine ⟨?_, ?_⟩
    · rw [r1]
      simp only [tracked, List.length_cons]
      have he : (k + (i + 1) + t.length) % 256 = (k + i + (t.length + 1)) % 256 := by
        congr 1; omega
      rw [he]
      rfl
    · rw [List.count_append, r2, count_ncmd_zero _ q2]

/-! ### the whole publishing burst, from a host that holds nothing buffered -/

/-- one publishing round of the node: NDATA numbered `k % 256` with id `id0`, then one DDATA per
enabled device -/
def burst (clk k id0 : Nat) (L : List Nat) : List Msg :=
  .ndata (k % 256) clk id0 :: devMsgs .ddata clk k id0 1 L

theorem burst_length (clk k id0 : Nat) (L : List Nat) : (burst clk k id0 L).length = L.length + 1 := by
  simp [burst, devMsgs_length]

theorem burst_isR (clk k id0 : Nat) (L : List Nat) : ∀ m ∈ burst clk k id0 L, m.isR clk := by
  intro m hm
  simp only [burst, List.mem_cons] at hm
  rcases hm with rfl | hm
  · rfl
  · exact devMsgs_ddata_isR clk k id0 L 1 m hm

/-- in step with the node and holding every enabled device birthed: exactly the burst's data
effects, in order -/
theorem feed_burst_sync (d clk k id0 : Nat) (L : List Nat) (h : St)
    (ht : Track h (k % 256)) (h1 : h.birthTs ≤ clk) (h2 : h.staleTs ≤ clk)
    (hall : ∀ dv ∈ L, findDev dv h.devices = some .birthed) :
    feed (Sys.fullCfg d) clk h (burst clk k id0 L) =
      ({ h with reseq := { buf := [], next := (k + 1 + L.length) % 256, mode := .good } },
       (burst clk k id0 L).filterMap Msg.dataEff) := by
  simp only [burst, feed_cons, Msg.toIn]
  rw [step_track_ndata d h _ clk id0 clk ht h1 h2]
  have ht' : Track (tracked h (k % 256)) ((k + 1) % 256) := by
    have := tracked_track h _ ht
    have he : (k % 256 + 1) % 256 = (k + 1) % 256 := by omega
    rwa [he] at this
  rw [feed_track_all d clk k id0 L 1 _ ht' h1 h2 hall]
  simp [tracked, Msg.dataEff]

/-- any other host that holds nothing buffered ends the burst lagging with the timer armed, or
stale with a rebirth request out -/
theorem feed_burst_idle (d clk k id0 e : Nat) (L : List Nat) (h : St)
    (ht : Track h e) (he : e < 256) (hn : (h.devices.map Prod.fst).Nodup)
    (h1 : h.birthTs ≤ clk) (h2 : h.staleTs ≤ clk) (hlen : L.length < 255)
    (hns : ¬ (e = k % 256 ∧ ∀ dv ∈ L, findDev dv h.devices = some .birthed)) :
    let r := feed (Sys.fullCfg d) clk h (burst clk k id0 L)
    (Lag r.1 k (1 + L.length) ∧ r.1.birthTs = h.birthTs ∧ r.1.staleTs = h.staleTs ∧
        r.2.count Eff.ncmd = 0) ∨ StaleEnd h clk r := by
  intro r
  have hr : r = feed (Sys.fullCfg d) clk h (burst clk k id0 L) := rfl
  simp only [burst, feed_cons, Msg.toIn] at hr
  by_cases hek : e = k % 256
  · right
    subst hek
    rw [step_track_ndata d h _ clk id0 clk ht h1 h2] at hr
    have ht' : Track (tracked h (k % 256)) ((k + 1) % 256) := by
      have := tracked_track h _ ht
      have he : (k % 256 + 1) % 256 = (k + 1) % 256 := by omega
      rwa [he] at this
    have hex : ∃ dv ∈ L, findDev dv (tracked h (k % 256)).devices ≠ some .birthed := by
      apply Classical.byContradiction
      intro hc
      apply hns
      refine ⟨rfl, fun dv hd => ?_⟩
      apply Classical.byContradiction
      intro hc2
      exact hc ⟨dv, hd, hc2⟩
    have := feed_track_bad d clk k id0 L 1 _ ht' h1 h2 hn hex
    rw [hr]
    refine ⟨this.life, this.inv, this.birthTs, this.staleTs, ?_⟩
    simp only [List.count_append]
    have := this.ncmd
    omega
  · have hne : k % 256 ≠ e := fun h' => hek h'.symm
    have hstep := step_track_gap d h e (k % 256) clk (.ndata id0 .ok) clk ht h1 h2 hne
    have hinv0 := track_inv h e ht he hn
    have hinv1 := (Host.step_spec (Sys.fullCfg d) h (.rmsg (k % 256) clk (.ndata id0 .ok)) clk clk hinv0
      (Nat.mod_lt _ (by omega))).1
    rw [hstep] at hr hinv1
    have hl : Lag { h with reseq := { buf := [(Reseq.wsub (k % 256) e, (k % 256, RMsg.ndata id0 .ok))],
                                       next := e, mode := .reseq e },
                           timer := .armed (clk + d) } k 1 := by
      refine ⟨ht.life, hinv1, ⟨_, rfl⟩, by simp, ?_⟩
      intro x hx
      simp only [List.mem_singleton] at hx
      subst hx
      exact ⟨0, by omega, rfl⟩
    rcases feed_lag d clk k id0 L 1 _ hl (by omega) h1 h2 with ⟨q1, q2, q3, q4⟩ | hse
    · left
      rw [hr]
      exact ⟨q1, q2, q3, by simp only [List.count_append, q4]; simp⟩
    · right
      rw [hr]
      refine ⟨hse.life, hse.inv, hse.birthTs, hse.staleTs, ?_⟩
      simp only [List.count_append]
      have := hse.ncmd
      omega


/-! ## Part D — the abstract node at rest -/

theorem devMsgs_congr (mk : Nat → Nat → Nat → Nat → Msg) (ts k k' id0 : Nat) (L : List Nat)
    (hk : k % 256 = k' % 256) : ∀ i, devMsgs mk ts k id0 i L = devMsgs mk ts k' id0 i L := by
  induction L with
  | nil => intro i; rfl
  | cons d t ih =>
    intro i
    simp only [devMsgs, ih]
    have : (k + i) % 256 = (k' + i) % 256 := by omega
    rw [this]

theorem devMsgs_shift (mk : Nat → Nat → Nat → Nat → Msg) (ts k id0 : Nat) (L : List Nat) :
    ∀ i, devMsgs mk ts (k + 1) (id0 + 1) i L = devMsgs mk ts k id0 (i + 1) L := by
  induction L with
  | nil => intro i; rfl
  | cons d t ih =>
    intro i
    simp only [devMsgs, ih]
    have h1 : (k + 1 + i) % 256 = (k + (i + 1)) % 256 := by congr 1; omega
    have h2 : id0 + 1 + i = id0 + (i + 1) := by omega
    rw [h1, h2]

theorem find_by_name (l : List Dev) (x : Dev) (hx : x ∈ l) (hn : (l.map (·.name)).Nodup) :
    l.find? (fun y => y.name == x.name) = some x := by
  induction l with
  | nil => cases hx
  | cons a t ih =>
    simp only [List.map_cons, List.nodup_cons] at hn
    rcases List.mem_cons.mp hx with rfl | hx
    · simp
    · have hne : a.name ≠ x.name := by
        intro h
        exact hn.1 (h ▸ List.mem_map.mpr ⟨x, hx, rfl⟩)
      rw [List.find?_cons_of_neg (by simpa using hne)]
      exact ih hx hn.2

theorem enabled_found (n : Node) (hok : NodeOk n) (d : Nat) (hd : d ∈ n.enabledNames) :
    ∃ x, n.findDev d = some x ∧ x.flag = true := by
  simp only [Node.enabledNames, List.mem_map, List.mem_filter] at hd
  obtain ⟨x, ⟨hx, hen⟩, rfl⟩ := hd
  refine ⟨x, find_by_name n.devs x hx hok.names, ?_⟩
  rw [hok.flags x hx]; exact hen

theorem nextSeq_gate (n : Node) (h1 : n.online = true) (h2 : n.birthed = true) :
    n.nextSeq = some ({ n with seq := (n.seq + 1) % 256 }, (n.seq + 1) % 256) := by
  simp [Node.nextSeq, h1, h2]

theorem pubNode_eq (ts : Nat) (n : Node) (h1 : n.online = true) (h2 : n.birthed = true) :
    n.pubNode ts = ({ n with seq := (n.seq + 1) % 256, nextId := n.nextId + 1 },
                    [.ndata ((n.seq + 1) % 256) ts n.nextId]) := by
  simp [Node.pubNode, nextSeq_gate n h1 h2]

def pubDevsRec (ts : Nat) : Node → List Nat → Node × List Msg
  | n, [] => (n, [])
  | n, d :: t => ((pubDevsRec ts (n.pubDev d ts).1 t).1, (n.pubDev d ts).2 ++ (pubDevsRec ts (n.pubDev d ts).1 t).2)

theorem pubDevsRec_eq (ts : Nat) (L : List Nat) : ∀ (n : Node), n.online = true → n.birthed = true →
    n.seq < 256 → (∀ d ∈ L, ∃ x, n.findDev d = some x ∧ x.flag = true) →
    pubDevsRec ts n L = ({ n with seq := (n.seq + L.length) % 256, nextId := n.nextId + L.length },
                         devMsgs .ddata ts (n.seq + 1) n.nextId 0 L) := by
  induction L with
  | nil =>
    intro n _ _ hs _
    simp only [pubDevsRec, devMsgs, List.length_nil, Nat.add_zero, Nat.mod_eq_of_lt hs]
  | cons d t ih =>
    intro n h1 h2 hs hall
    obtain ⟨x, hx, hf⟩ := hall d (List.mem_cons_self ..)
    have hp : n.pubDev d ts = ({ n with seq := (n.seq + 1) % 256, nextId := n.nextId + 1 },
        [.ddata d ((n.seq + 1) % 256) ts n.nextId]) := by
      simp [Node.pubDev, hx, hf, nextSeq_gate n h1 h2]
    simp only [pubDevsRec, hp]
    rw [ih { n with seq := (n.seq + 1) % 256, nextId := n.nextId + 1 } h1 h2 (Nat.mod_lt _ (by omega))
      (fun d' hd' => hall d' (List.mem_cons_of_mem _ hd'))]
    simp only [devMsgs, List.length_cons, Nat.add_zero, List.singleton_append]
    have e1 : ((n.seq + 1) % 256 + t.length) % 256 = (n.seq + (t.length + 1)) % 256 := by omega
    have e2 : n.nextId + 1 + t.length = n.nextId + (t.length + 1) := by omega
    rw [e1, e2]
    congr 2
    rw [devMsgs_congr .ddata ts ((n.seq + 1) % 256 + 1) (n.seq + 1 + 1) (n.nextId + 1) t (by omega) 0]
    exact devMsgs_shift .ddata ts (n.seq + 1) n.nextId t 0

/-- what one publishing round hands over, and the node afterwards -/
def afterPub (n : Node) : Node :=
  { n with seq := (n.seq + 1 + n.enabledNames.length) % 256, nextId := n.nextId + 1 + n.enabledNames.length }

theorem afterPub_ok (n : Node) (h : NodeOk n) : NodeOk (afterPub n) :=
  ⟨h.online, h.birthed, Nat.mod_lt _ (by omega), h.bdseq, h.flags, h.names, h.few⟩

theorem pubRound_node (ts : Nat) (n : Node) (hok : NodeOk n) :
    pubDevsRec ts (n.pubNode ts).1 n.enabledNames =
      (afterPub n, devMsgs .ddata ts (n.seq + 1) n.nextId 1 n.enabledNames) := by
  rw [pubNode_eq ts n hok.online hok.birthed]
  simp only
  rw [pubDevsRec_eq ts n.enabledNames { n with seq := (n.seq + 1) % 256, nextId := n.nextId + 1 }
    hok.online hok.birthed (Nat.mod_lt _ (by omega)) (fun d hd => enabled_found n hok d hd)]
  simp only [afterPub]
  refine Prod.ext ?_ ?_
  · simp only
    have e1 : ((n.seq + 1) % 256 + n.enabledNames.length) % 256 = (n.seq + 1 + n.enabledNames.length) % 256 := by
      omega
    have e2 : n.nextId + 1 + n.enabledNames.length = n.nextId + 1 + n.enabledNames.length := rfl
    rw [e1]
  · simp only
    rw [devMsgs_congr .ddata ts ((n.seq + 1) % 256 + 1) (n.seq + 1 + 1) (n.nextId + 1) _ (by omega) 0]
    exact devMsgs_shift .ddata ts (n.seq + 1) n.nextId _ 0

/-! ### rebirth -/

theorem birthDevs_rebirth (ts : Nat) (l : List Dev) : ∀ (n : Node), n.online = true → n.birthed = true →
    n.seq < 256 → (∀ x ∈ l, x.flag = x.enabled) →
    Node.birthDevs true ts n l =
      ({ n with seq := (n.seq + (l.filter (·.enabled)).length) % 256,
                nextId := n.nextId + (l.filter (·.enabled)).length },
       l, devMsgs .dbirth ts (n.seq + 1) n.nextId 0 ((l.filter (·.enabled)).map (·.name))) := by
  induction l with
  | nil =>
    intro n _ _ hs _
    simp only [Node.birthDevs, devMsgs, List.filter_nil, List.length_nil, Nat.add_zero, Nat.mod_eq_of_lt hs,
      List.map_nil]
  | cons x t ih =>
    intro n h1 h2 hs hall
    have hx := hall x (List.mem_cons_self ..)
    have ht := fun y hy => hall y (List.mem_cons_of_mem _ hy)
    simp only [Node.birthDevs]
    by_cases hen : x.enabled = true
    · have hdb : Node.devBirth true ts n x =
          ({ n with seq := (n.seq + 1) % 256, nextId := n.nextId + 1 }, x,
           [.dbirth x.name ((n.seq + 1) % 256) ts n.nextId]) := by
        have hfl : x.flag = true := by rw [hx]; exact hen
        have hxx : ({ name := x.name, enabled := true, flag := true } : Dev) = x := by
          cases x; simp_all
        simp [Node.devBirth, hen, nextSeq_gate n h1 h2, hxx]
      rw [hdb]
      simp only
      rw [ih { n with seq := (n.seq + 1) % 256, nextId := n.nextId + 1 } h1 h2 (Nat.mod_lt _ (by omega)) ht]
      simp only [List.filter_cons, hen, if_true, List.length_cons, List.map_cons, devMsgs, Nat.add_zero,
        List.singleton_append]
      have e1 : ((n.seq + 1) % 256 + (t.filter (·.enabled)).length) % 256
          = (n.seq + ((t.filter (·.enabled)).length + 1)) % 256 := by omega
      have e2 : n.nextId + 1 + (t.filter (·.enabled)).length = n.nextId + ((t.filter (·.enabled)).length + 1) := by
        omega
      rw [e1, e2]
      congr 3
      rw [devMsgs_congr .dbirth ts ((n.seq + 1) % 256 + 1) (n.seq + 1 + 1) (n.nextId + 1) _ (by omega) 0]
      exact devMsgs_shift .dbirth ts (n.seq + 1) n.nextId _ 0
    · have hen' : x.enabled = false := by simpa using hen
      have hdb : Node.devBirth true ts n x = (n, x, []) := by simp [Node.devBirth, hen']
      rw [hdb]
      simp only
      rw [ih n h1 h2 hs ht]
      simp [hen']

def afterRebirth (n : Node) : Node :=
  { n with seq := n.enabledNames.length % 256, nextId := n.nextId + 1 + n.enabledNames.length }

theorem afterRebirth_ok (n : Node) (h : NodeOk n) : NodeOk (afterRebirth n) :=
  ⟨h.online, h.birthed, Nat.mod_lt _ (by omega), h.bdseq, h.flags, h.names, h.few⟩

theorem rebirth_eq (ts : Nat) (n : Node) (hok : NodeOk n) :
    n.rebirth ts = (afterRebirth n,
      .nbirth ts n.bdseq n.nextId :: devMsgs .dbirth ts 0 n.nextId 1 n.enabledNames) := by
  have hb := hok.birthed
  simp only [Node.rebirth, hb, Bool.not_true, Bool.false_eq_true, if_false, Node.nodeBirth]
  rw [birthDevs_rebirth ts n.devs { n with birthed := true, seq := 0, nextId := n.nextId + 1 } hok.online rfl (by simp) hok.flags]
  simp only [afterRebirth, Node.enabledNames]
  refine Prod.ext ?_ ?_
  · simp only [Nat.zero_add]
    cases n; simp_all
  · simp only [Nat.zero_add]
    congr 1
    exact devMsgs_shift .dbirth ts 0 n.nextId _ 0


/-! ## Part E — the phases of `settle` -/

/-- both sides connected, nothing in flight towards the host, the node at rest -/
structure Quiet (d : Nat) (s : Sys) : Prop where
  cfg : s.cfg = Sys.fullCfg d
  nodeConn : s.nodeConn = true
  hostConn : s.hostConn = true
  flight : s.toHost = []
  node : NodeOk s.node

/-- the host's record is in step with the node -/
structure SyncOk (h : St) (n : Node) (clk : Nat) : Prop where
  track : Track h ((n.seq + 1) % 256)
  devs : ∀ dv, findDev dv h.devices = some .birthed ↔ dv ∈ n.enabledNames
  nodup : (h.devices.map Prod.fst).Nodup
  birthTs : h.birthTs ≤ clk
  staleTs : h.staleTs ≤ clk

/-- what a rebirth cycle needs of the host's record to bring it in step -/
structure CyclePre (h : St) (n : Node) (clk : Nat) : Prop where
  inv : HostInv h
  timer : h.timer = .none
  birthTs : h.birthTs ≤ clk
  staleTs : h.staleTs ≤ clk

theorem SyncOk.inv {h : St} {n : Node} {clk : Nat} (hs : SyncOk h n clk) : HostInv h :=
  track_inv h _ hs.track (Nat.mod_lt _ (by omega)) hs.nodup

theorem SyncOk.cyclePre {h : St} {n : Node} {clk : Nat} (hs : SyncOk h n clk) : CyclePre h n clk :=
  ⟨hs.inv, hs.track.timer, hs.birthTs, hs.staleTs⟩

theorem stale_below (h : St) (n : Node) (hinv : HostInv h) (hst : h.life = .stale) : DevsBelow h n := by
  intro dv hd
  have := (hinv.2.1 hst).2.2 _ (findDev_some_mem dv _ _ hd)
  cases this

theorem stale_cyclePre (h : St) (n : Node) (clk : Nat) (hinv : HostInv h) (hst : h.life = .stale)
    (h1 : h.birthTs ≤ clk) (h2 : h.staleTs ≤ clk) : CyclePre h n clk :=
  ⟨hinv, (hinv.2.1 hst).2.1, h1, h2⟩

/-! ### delivery -/

theorem step_deliver0 (s : Sys) (m : Msg) (t : List Msg) (hc : s.hostConn = true) (hq : s.toHost = m :: t) :
    s.step (.deliver 0) = ({ s with toHost := t } : Sys).hostStep m.toIn := by
  simp [Sys.step, hq, Sys.recv, hc]

theorem deliverAll_eq : ∀ (ms : List Msg) (s : Sys), s.hostConn = true → s.toHost = ms →
    Sys.deliverAll ms.length s =
      { s with toHost := [], host := (feed s.cfg s.clock s.host ms).1,
               effs := s.effs ++ (feed s.cfg s.clock s.host ms).2,
               toNode := s.toNode + (feed s.cfg s.clock s.host ms).2.count Eff.ncmd } := by
  intro ms
  induction ms with
  | nil =>
    intro s _ hq
    simp only [List.length_nil, Sys.deliverAll, feed_nil, List.append_nil, List.count_nil, Nat.add_zero]
    rw [← hq]
  | cons m t ih =>
    intro s hc hq
    simp only [List.length_cons, Sys.deliverAll]
    rw [step_deliver0 s m t hc hq]
    rw [ih _ (by simp [Sys.hostStep, hc]) (by simp [Sys.hostStep])]
    simp only [Sys.hostStep, hc, if_true, feed_cons, List.append_assoc, List.count_append, Nat.add_assoc]

/-! ### publishing -/

theorem foldl_publishDev (L : List Nat) : ∀ (s : Sys),
    L.foldl (fun s d => s.step (.publishDev d)) s =
      s.send (pubDevsRec s.clock s.node L).1 (pubDevsRec s.clock s.node L).2 := by
  induction L with
  | nil => intro s; simp [pubDevsRec, Sys.send]
  | cons d t ih =>
    intro s
    simp only [List.foldl_cons, ih, pubDevsRec]
    simp [Sys.step, Sys.send, List.append_assoc]

theorem advance_idle (s : Sys) (ms : Nat) (ht : s.host.timer = .none) :
    s.step (.advance ms) = { s with clock := s.clock + ms } := by
  simp [Sys.step, ht]

theorem pubAll_eq (d : Nat) (s : Sys) (hq : Quiet d s) (ht : s.host.timer = .none) :
    Sys.pubAll s =
      { s with clock := s.clock + 1, node := afterPub s.node,
               toHost := burst (s.clock + 1) (s.node.seq + 1) s.node.nextId s.node.enabledNames,
               sent := s.sent ++ burst (s.clock + 1) (s.node.seq + 1) s.node.nextId s.node.enabledNames } := by
  unfold Sys.pubAll
  rw [advance_idle s 1 ht, foldl_publishDev]
  simp only [Sys.step]
  have hpn := pubNode_eq (s.clock + 1) s.node hq.node.online hq.node.birthed
  have hen : ((s.node.pubNode (s.clock + 1)).1).enabledNames = s.node.enabledNames := by rw [hpn]; rfl
  simp only [Sys.send, hen]
  have := pubRound_node (s.clock + 1) s.node hq.node
  rw [this]
  simp only [hpn, hq.flight, List.nil_append, burst, List.append_assoc, List.singleton_append]


/-! ### one rebirth cycle: the clock advances, an NCMD reaches the node, its births reach the host -/

theorem cycle_spec (d : Nat) (s : Sys) (hq : Quiet d s) (hn : s.toNode ≠ 0)
    (hp : CyclePre s.host s.node s.clock) :
    let s1 := (s.step (.advance 1)).step .deliverNcmd
    let D := Sys.deliverAll s1.toHost.length s1
    Quiet d D ∧ D.toNode = s.toNode - 1 ∧ SyncOk D.host D.node D.clock := by
  intro s1 D
  have hs1 : s1 =
      { s with clock := s.clock + 1, toNode := s.toNode - 1, node := afterRebirth s.node,
               toHost := .nbirth (s.clock + 1) s.node.bdseq s.node.nextId ::
                 devMsgs .dbirth (s.clock + 1) 0 s.node.nextId 1 s.node.enabledNames,
               sent := s.sent ++ (.nbirth (s.clock + 1) s.node.bdseq s.node.nextId ::
                 devMsgs .dbirth (s.clock + 1) 0 s.node.nextId 1 s.node.enabledNames) } := by
    show (s.step (.advance 1)).step .deliverNcmd = _
    rw [advance_idle s 1 hp.timer]
    simp only [Sys.step, hn, if_false, hq.nodeConn, if_true, Sys.send, rebirth_eq _ _ hq.node, hq.flight,
      List.nil_append]
  have hD : D = Sys.deliverAll s1.toHost.length s1 := rfl
  rw [deliverAll_eq s1.toHost s1 (by rw [hs1]; exact hq.hostConn) rfl] at hD
  -- the host side
  have hfeed : feed s1.cfg s1.clock s1.host s1.toHost =
      feed (Sys.fullCfg d) (s.clock + 1) s.host (.nbirth (s.clock + 1) s.node.bdseq s.node.nextId ::
        devMsgs .dbirth (s.clock + 1) 0 s.node.nextId 1 s.node.enabledNames) := by
    rw [hs1]; simp only [hq.cfg]
  rw [hfeed, feed_cons] at hD
  simp only [Msg.toIn] at hD
  obtain ⟨n1, n2⟩ := step_nbirth (Sys.fullCfg d) s.host (s.clock + 1) s.node.bdseq s.node.nextId (s.clock + 1)
    (by have := hp.birthTs; omega)
  rw [n1] at hD
  have ht1 : Track
      { s.host with timer := .none, birthTs := s.clock + 1, life := .birthed, bdseq := s.node.bdseq,
                    reseq := { buf := [], next := 1, mode := .good },
                    devices := s.host.devices.map fun p => (p.1, Life.stale) } ((0 + 1) % 256) := ⟨rfl, rfl, rfl⟩
  obtain ⟨f1, f2⟩ := feed_births d (s.clock + 1) 0 s.node.nextId s.node.enabledNames 1 _ ht1
    (Nat.le_refl _) (by have := hp.staleTs; simp only; omega)
  have hfew := hq.node.few
  refine ⟨?_, ?_, ?_⟩
  · rw [hD, hs1]
    exact ⟨hq.cfg, hq.nodeConn, hq.hostConn, rfl, afterRebirth_ok _ hq.node⟩
  · rw [hD]
    simp only [List.count_append, f2, n2 hp.timer]
    rw [hs1]
    simp
  · rw [hD]
    simp only [f1]
    rw [hs1]
    simp only
    refine ⟨⟨rfl, ?_, rfl⟩, ?_, ?_, Nat.le_refl _, ?_⟩
    · simp only [afterRebirth]
      congr 1
      omega
    · intro dv
      simp only [findDev_birthAll, findDev_map_stale]
      show _ ↔ dv ∈ s.node.enabledNames
      by_cases hm : dv ∈ s.node.enabledNames
      · simp [hm]
      · simp only [hm, if_false, iff_false]
        cases findDev dv s.host.devices <;> simp
    · refine birthAll_nodup _ _ ?_
      simpa [List.map_map, Function.comp_def] using hp.inv.2.2
    · have := hp.staleTs; simp only; omega

/-- the NCMD loop of `drainNet`, stated on the state after the initial delivery -/
theorem drainNet_spec (d : Nat) : ∀ (fuel : Nat) (s : Sys),
    let D := Sys.deliverAll s.toHost.length s
    Quiet d D → D.toNode ≤ fuel → (D.toNode ≠ 0 → CyclePre D.host D.node D.clock) →
    (D.toNode = 0 → Sys.drainNet fuel s = D) ∧
    (D.toNode ≠ 0 → Quiet d (Sys.drainNet fuel s) ∧ (Sys.drainNet fuel s).toNode = 0 ∧
        SyncOk (Sys.drainNet fuel s).host (Sys.drainNet fuel s).node (Sys.drainNet fuel s).clock) := by
  intro fuel
  induction fuel with
  | zero =>
    intro s D hq hle _
    have h0 : D.toNode = 0 := by omega
    exact ⟨fun _ => rfl, fun hne => absurd h0 hne⟩
  | succ f ih =>
    intro s D hq hle hpre
    constructor
    · intro h0
      show (if D.toNode = 0 then D else _) = D
      rw [if_pos h0]
    · intro hne
      have hstep : Sys.drainNet (f + 1) s = Sys.drainNet f ((D.step (.advance 1)).step .deliverNcmd) := by
        show (if D.toNode = 0 then D else _) = _
        rw [if_neg hne]
      rw [hstep]
      obtain ⟨c1, c2, c3⟩ := cycle_spec d D hq hne (hpre hne)
      obtain ⟨i1, i2⟩ := ih ((D.step (.advance 1)).step .deliverNcmd) c1 (by omega) (fun _ => c3.cyclePre)
      by_cases hz : (Sys.deliverAll ((D.step (.advance 1)).step .deliverNcmd).toHost.length
          ((D.step (.advance 1)).step .deliverNcmd)).toNode = 0
      · rw [i1 hz]
        exact ⟨c1, hz, c3⟩
      · exact i2 hz

/-- `drain` on a quiet state -/
theorem drain_quiet (d : Nat) (s : Sys) (hq : Quiet d s) (hpre : s.toNode ≠ 0 → CyclePre s.host s.node s.clock) :
    (s.toNode = 0 → Sys.drain s = s) ∧
    (s.toNode ≠ 0 → Quiet d (Sys.drain s) ∧ (Sys.drain s).toNode = 0 ∧
        SyncOk (Sys.drain s).host (Sys.drain s).node (Sys.drain s).clock) := by
  have hD : Sys.deliverAll s.toHost.length s = s := by rw [hq.flight]; rfl
  have := drainNet_spec d (s.toNode + s.toHost.length) s
  simp only [hD] at this
  exact this hq (by omega) hpre


/-- birthed, with the reorder timer running -/
structure ArmedOk (h : St) (clk : Nat) : Prop where
  life : h.life = .birthed
  inv : HostInv h
  armed : ∃ dl, h.timer = .armed dl
  birthTs : h.birthTs ≤ clk
  staleTs : h.staleTs ≤ clk

/-- the timer phase on an armed host: the timeout fires, the host goes stale and asks for a rebirth -/
theorem timerPhase_spec (d : Nat) (s : Sys) (hq : Quiet d s) (ha : ArmedOk s.host s.clock) :
    Quiet d (Sys.timerPhase s) ∧ (Sys.timerPhase s).toNode = s.toNode + 1 ∧
    CyclePre (Sys.timerPhase s).host (Sys.timerPhase s).node (Sys.timerPhase s).clock := by
  obtain ⟨dl, hdl⟩ := ha.armed
  have hle : dl ≤ s.clock + (dl - s.clock) := by omega
  have hfire : step (Sys.fullCfg d) s.host .timerFire (s.clock + (dl - s.clock)) (s.clock + (dl - s.clock)) =
      issueRebirth (Sys.fullCfg d) { s.host with timer := .fired } .reorderTimeout
        (s.clock + (dl - s.clock)) (s.clock + (dl - s.clock)) := by
    simp [step, hdl]
  obtain ⟨q1, q2⟩ := issueRebirth_full d { s.host with timer := .fired } .reorderTimeout
    (s.clock + (dl - s.clock)) ha.life (by have := ha.birthTs; simp only; omega)
  have htp : Sys.timerPhase s =
      { s with clock := s.clock + (dl - s.clock),
               host := goStale { s.host with timer := .fired } (s.clock + (dl - s.clock)),
               effs := s.effs ++ (issueRebirth (Sys.fullCfg d) { s.host with timer := .fired } .reorderTimeout
                  (s.clock + (dl - s.clock)) (s.clock + (dl - s.clock))).2,
               toNode := s.toNode + 1 } := by
    simp only [Sys.timerPhase, hdl, Sys.step, hle, if_true, Sys.hostStep, hq.cfg, hfire, q1, q2, hq.hostConn]
  rw [htp]
  refine ⟨⟨hq.cfg, hq.nodeConn, hq.hostConn, hq.flight, hq.node⟩, rfl, ?_⟩
  have hinv : HostInv (goStale { s.host with timer := .fired } (s.clock + (dl - s.clock))) :=
    goStale_inv _ _ ha.inv.2.2
  exact ⟨hinv, rfl, by have := ha.birthTs; simp only [goStale]; omega,
    Nat.le_refl _⟩

theorem timerPhase_idle (s : Sys) (ht : s.host.timer = .none) : Sys.timerPhase s = s := by
  simp [Sys.timerPhase, ht]

theorem reconnect_quiet (d : Nat) (s : Sys) (hq : Quiet d s) : Sys.reconnect s = s := by
  simp [Sys.reconnect, hq.hostConn, hq.nodeConn]

/-! ### the publish-and-deliver phase -/

theorem dataEff_ncmd (ms : List Msg) : Eff.ncmd ∉ ms.filterMap Msg.dataEff := by
  intro h
  obtain ⟨m, _, hm⟩ := List.mem_filterMap.mp h
  cases m <;> simp [Msg.dataEff] at hm

/-- the state after the round's publishes were delivered, before any NCMD is handled -/
theorem pub_delivered (d : Nat) (s : Sys) (hq : Quiet d s) (ht : s.host.timer = .none) :
    let P := Sys.pubAll s
    let B := burst (s.clock + 1) (s.node.seq + 1) s.node.nextId s.node.enabledNames
    let R := feed (Sys.fullCfg d) (s.clock + 1) s.host B
    Sys.deliverAll P.toHost.length P =
      { s with clock := s.clock + 1, node := afterPub s.node, toHost := [], sent := s.sent ++ B,
               host := R.1, effs := s.effs ++ R.2, toNode := s.toNode + R.2.count Eff.ncmd } ∧
    P.effs = s.effs ∧ P.toNode = s.toNode ∧ P.toHost = B := by
  intro P B R
  have hP : P = _ := pubAll_eq d s hq ht
  refine ⟨?_, by rw [hP], by rw [hP], by rw [hP]⟩
  rw [deliverAll_eq P.toHost P (by rw [hP]; exact hq.hostConn) rfl]
  rw [hP]
  simp only [hq.cfg]
  rfl

/-- the phase's outcome that matters for the next phase -/
structure Settled (d : Nat) (s : Sys) : Prop where
  quiet : Quiet d s
  toNode : s.toNode = 0
  host : SyncOk s.host s.node s.clock ∨ ArmedOk s.host s.clock

theorem afterPub_names (n : Node) : (afterPub n).enabledNames = n.enabledNames := rfl

/-- in step before the publishes: in step after them, and exactly their data effects -/
theorem pubDrain_sync (d : Nat) (s : Sys) (hq : Quiet d s) (h0 : s.toNode = 0)
    (hs : SyncOk s.host s.node s.clock) :
    let B := burst (s.clock + 1) (s.node.seq + 1) s.node.nextId s.node.enabledNames
    let s' := Sys.drain (Sys.pubAll s)
    Quiet d s' ∧ s'.toNode = 0 ∧ SyncOk s'.host s'.node s'.clock ∧
    s'.sent = s.sent ++ B ∧ s'.effs = s.effs ++ B.filterMap Msg.dataEff ∧
    s'.node = afterPub s.node ∧ (Sys.pubAll s).effs = s.effs := by
  intro B s'
  obtain ⟨hD, hPe, hPn, hPh⟩ := pub_delivered d s hq hs.track.timer
  have hall : ∀ dv ∈ s.node.enabledNames, findDev dv s.host.devices = some .birthed :=
    fun dv hd => (hs.devs dv).mpr hd
  have hR := feed_burst_sync d (s.clock + 1) (s.node.seq + 1) s.node.nextId s.node.enabledNames s.host
    hs.track (by have := hs.birthTs; omega) (by have := hs.staleTs; omega) hall
  rw [hR] at hD
  simp only [count_ncmd_zero _ (dataEff_ncmd _), Nat.add_zero] at hD
  have hfew := hq.node.few
  have hq' : Quiet d (Sys.deliverAll (Sys.pubAll s).toHost.length (Sys.pubAll s)) := by
    rw [hD]; exact ⟨hq.cfg, hq.nodeConn, hq.hostConn, rfl, afterPub_ok _ hq.node⟩
  have hz : (Sys.deliverAll (Sys.pubAll s).toHost.length (Sys.pubAll s)).toNode = 0 := by rw [hD]; exact h0
  have hdr : s' = Sys.deliverAll (Sys.pubAll s).toHost.length (Sys.pubAll s) :=
    (drainNet_spec d _ (Sys.pubAll s) hq' (by omega) (fun hne => absurd hz hne)).1 hz
  rw [hdr, hD]
  refine ⟨by rw [← hD]; exact hq', h0, ?_, rfl, rfl, rfl, hPe⟩
  refine ⟨⟨hs.track.life, ?_, hs.track.timer⟩, ?_, hs.nodup, by have := hs.birthTs; simp only; omega,
    by have := hs.staleTs; simp only; omega⟩
  · simp only [afterPub]
    congr 1
    omega
  · intro dv; exact hs.devs dv

/-- any host record that holds nothing buffered and runs no timer: settled after the phase -/
theorem pubDrain_any (d : Nat) (s : Sys) (hq : Quiet d s) (h0 : s.toNode = 0)
    (hp : CyclePre s.host s.node s.clock) (hgood : s.host.life = .birthed → s.host.reseq.mode = .good)
    (hbelow : InStep s.host s.node → DevsBelow s.host s.node) :
    Settled d (Sys.drain (Sys.pubAll s)) := by
  obtain ⟨hD, hPe, hPn, hPh⟩ := pub_delivered d s hq hp.timer
  have hfew := hq.node.few
  have hb1 : s.host.birthTs ≤ s.clock + 1 := by have := hp.birthTs; omega
  have hb2 : s.host.staleTs ≤ s.clock + 1 := by have := hp.staleTs; omega
  have hfuel : (Sys.deliverAll (Sys.pubAll s).toHost.length (Sys.pubAll s)).toNode
      ≤ (Sys.pubAll s).toNode + (Sys.pubAll s).toHost.length := by
    rw [hD, hPn, hPh]
    have := feed_count_le (Sys.fullCfg d) (s.clock + 1)
      (burst (s.clock + 1) (s.node.seq + 1) s.node.nextId s.node.enabledNames) s.host
    simp only; omega
  have hq' : Quiet d (Sys.deliverAll (Sys.pubAll s).toHost.length (Sys.pubAll s)) := by
    rw [hD]; exact ⟨hq.cfg, hq.nodeConn, hq.hostConn, rfl, afterPub_ok _ hq.node⟩
  -- from here: what the burst did to the host
  have finish : ∀ (hpre : (Sys.deliverAll (Sys.pubAll s).toHost.length (Sys.pubAll s)).toNode ≠ 0 →
      CyclePre (Sys.deliverAll (Sys.pubAll s).toHost.length (Sys.pubAll s)).host
        (Sys.deliverAll (Sys.pubAll s).toHost.length (Sys.pubAll s)).node
        (Sys.deliverAll (Sys.pubAll s).toHost.length (Sys.pubAll s)).clock)
      (hzero : (Sys.deliverAll (Sys.pubAll s).toHost.length (Sys.pubAll s)).toNode = 0 →
        SyncOk (Sys.deliverAll (Sys.pubAll s).toHost.length (Sys.pubAll s)).host
          (Sys.deliverAll (Sys.pubAll s).toHost.length (Sys.pubAll s)).node
          (Sys.deliverAll (Sys.pubAll s).toHost.length (Sys.pubAll s)).clock ∨
        ArmedOk (Sys.deliverAll (Sys.pubAll s).toHost.length (Sys.pubAll s)).host
          (Sys.deliverAll (Sys.pubAll s).toHost.length (Sys.pubAll s)).clock),
      Settled d (Sys.drain (Sys.pubAll s)) := by
    intro hpre hzero
    obtain ⟨r1, r2⟩ := drainNet_spec d _ (Sys.pubAll s) hq' hfuel hpre
    by_cases hz : (Sys.deliverAll (Sys.pubAll s).toHost.length (Sys.pubAll s)).toNode = 0
    · have : Sys.drain (Sys.pubAll s) = _ := r1 hz
      rw [this]
      exact ⟨hq', hz, hzero hz⟩
    · obtain ⟨a, b, c⟩ := r2 hz
      exact ⟨a, b, Or.inl c⟩
  by_cases hst : s.host.life = .stale
  · -- stale: every message is answered by an NCMD
    obtain ⟨⟨lr, hlr⟩, hc⟩ := feed_stale d (s.clock + 1)
      (burst (s.clock + 1) (s.node.seq + 1) s.node.nextId s.node.enabledNames) s.host hst hb1 hb2
      (burst_isR _ _ _ _)
    apply finish
    · intro _
      rw [hD]
      simp only [hlr]
      have hinv : HostInv { s.host with lastRebirth := lr } := ⟨hp.inv.1, hp.inv.2.1, hp.inv.2.2⟩
      exact stale_cyclePre _ _ _ hinv hst hb1 hb2
    · intro hz
      rw [hD] at hz
      simp only [hc, burst_length, h0] at hz
      omega
  · have hbirthed : s.host.life = .birthed := by cases h : s.host.life <;> simp_all
    have hmode := hgood hbirthed
    have hbuf : s.host.reseq.buf = [] := by have := hp.inv.1.2; rw [hmode] at this; exact this
    have ht : Track s.host s.host.reseq.next := by
      refine ⟨hbirthed, ?_, hp.timer⟩
      cases hr : s.host.reseq with
      | mk buf next mode => rw [hr] at hmode hbuf; simp only at hmode hbuf; subst hmode hbuf; rfl
    by_cases hsync : s.host.reseq.next = (s.node.seq + 1) % 256 ∧
        ∀ dv ∈ s.node.enabledNames, findDev dv s.host.devices = some .birthed
    · -- in step: delegate
      have hs : SyncOk s.host s.node s.clock := by
        refine ⟨by rw [← hsync.1]; exact ht, ?_, hp.inv.2.2, hp.birthTs, hp.staleTs⟩
        intro dv
        exact ⟨fun h => hbelow ⟨hbirthed, hp.timer, hmode, hsync.1, hsync.2⟩ dv h, fun h => hsync.2 dv h⟩
      obtain ⟨a, b, c, _⟩ := pubDrain_sync d s hq h0 hs
      exact ⟨a, b, Or.inl c⟩
    · rcases feed_burst_idle d (s.clock + 1) (s.node.seq + 1) s.node.nextId s.host.reseq.next
        s.node.enabledNames s.host ht hp.inv.1.1 hp.inv.2.2 hb1 hb2 hfew hsync with ⟨l1, l2, l3, l4⟩ | hse
      · apply finish
        · intro hne
          rw [hD] at hne
          simp only [l4, h0] at hne
          exact absurd rfl hne
        · intro _
          right
          rw [hD]
          exact ⟨l1.life, l1.inv, l1.armed, by simp only; rw [l2]; exact hb1, by simp only; rw [l3]; exact hb2⟩
      · apply finish
        · intro _
          rw [hD]
          exact stale_cyclePre _ _ _ hse.inv hse.life (by simp only; rw [hse.birthTs]; exact hb1)
            (by simp only; rw [hse.staleTs]; exact Nat.le_refl _)
        · intro hz
          rw [hD] at hz
          have := hse.ncmd
          simp only at hz
          omega


/-! ### `InSync` from the facts -/

theorem mem_findDev (D : List (Nat × Life)) (dv : Nat) (l : Life) (hm : (dv, l) ∈ D)
    (hn : (D.map Prod.fst).Nodup) : findDev dv D = some l := by
  induction D with
  | nil => cases hm
  | cons a t ih =>
    obtain ⟨d', l'⟩ := a
    simp only [List.map_cons, List.nodup_cons] at hn
    rcases List.mem_cons.mp hm with h | h
    · cases h; simp [findDev]
    · have hne : d' ≠ dv := by
        intro he; subst he
        exact hn.1 (List.mem_map.mpr ⟨(d', l), h, rfl⟩)
      simp only [findDev, hne, if_false]
      exact ih h hn.2

theorem devMsgs_shape (ts k id0 : Nat) (L : List Nat) : ∀ i,
    (devMsgs .ddata ts k id0 i L).map Msg.dataShape = L.map (fun dv => some (some dv)) := by
  induction L with
  | nil => intro i; rfl
  | cons dv t ih => intro i; simp [devMsgs, Msg.dataShape, ih]

theorem burst_shape (ts k id0 : Nat) (L : List Nat) :
    (burst ts k id0 L).map Msg.dataShape = some none :: L.map (fun dv => some (some dv)) := by
  simp [burst, Msg.dataShape, devMsgs_shape]

theorem drop_append_tail {α} (X B : List α) : (X ++ B).drop ((X ++ B).length - B.length) = B := by
  have : (X ++ B).length - B.length = X.length := by simp
  rw [this, List.drop_left]

theorem inSync_of (d : Nat) (s : Sys) (last : List Eff) (X : List Msg) (ts k id0 : Nat)
    (hq : Quiet d s) (h0 : s.toNode = 0) (hs : SyncOk s.host s.node s.clock)
    (hsent : s.sent = X ++ burst ts k id0 s.node.enabledNames)
    (hlast : last = (burst ts k id0 s.node.enabledNames).filterMap Msg.dataEff) :
    Sys.InSync s last = true := by
  have hreseq : s.host.reseq = { buf := [], next := (s.node.seq + 1) % 256, mode := .good } := hs.track.reseq
  have hdev1 : (s.node.devs.all fun x =>
      !x.enabled || decide (findDev x.name s.host.devices = some Life.birthed)) = true := by
    rw [List.all_eq_true]
    intro x hx
    cases hen : x.enabled with
    | false => rfl
    | true =>
      have : x.name ∈ s.node.enabledNames := by
        simp only [Node.enabledNames, List.mem_map, List.mem_filter]
        exact ⟨x, ⟨hx, hen⟩, rfl⟩
      simp [(hs.devs x.name).mpr this]
  have hdev2 : (s.host.devices.all fun p =>
      decide (p.2 = Life.stale) || s.node.enabledNames.contains p.1) = true := by
    rw [List.all_eq_true]
    intro p hp
    obtain ⟨dv, l⟩ := p
    cases l with
    | stale => simp
    | birthed =>
      have := (hs.devs dv).mp (mem_findDev _ _ _ hp hs.nodup)
      simp [this]
  have htail : s.sent.drop (s.sent.length - (s.node.enabledNames.length + 1)) = burst ts k id0 s.node.enabledNames := by
    rw [hsent]
    have := drop_append_tail X (burst ts k id0 s.node.enabledNames)
    rw [burst_length] at this
    exact this
  simp only [Sys.InSync, hq.nodeConn, hq.hostConn, hq.node.online, hq.node.birthed, hs.track.life, hreseq,
    hs.track.timer, hdev1, hdev2, hq.flight, h0, htail, burst_shape, hlast, List.isEmpty_nil, decide_true,
    Bool.and_self]

/-! ### rounds -/

theorem drain_id (d : Nat) (s : Sys) (hq : Quiet d s) (h0 : s.toNode = 0) : Sys.drain s = s :=
  (drain_quiet d s hq (fun hne => absurd h0 hne)).1 h0

/-- a round whose publishes meet a host in step ends `InSync` -/
theorem finish_sync (d : Nat) (b : Sys) (hq : Quiet d b) (h0 : b.toNode = 0)
    (hs : SyncOk b.host b.node b.clock) :
    let e := Sys.drain (Sys.pubAll b)
    Sys.InSync e (e.effs.drop (Sys.pubAll b).effs.length) = true ∧ Settled d e := by
  intro e
  obtain ⟨q, z, sy, hsent, heffs, hnode, hpe⟩ := pubDrain_sync d b hq h0 hs
  refine ⟨?_, ⟨q, z, Or.inl sy⟩⟩
  have hnames : e.node.enabledNames = b.node.enabledNames := by
    show (Sys.drain (Sys.pubAll b)).node.enabledNames = _
    rw [hnode]; rfl
  refine inSync_of d e _ b.sent (b.clock + 1) (b.node.seq + 1) b.node.nextId q z sy ?_ ?_
  · rw [hnames]; exact hsent
  · rw [hnames, hpe]
    show (Sys.drain (Sys.pubAll b)).effs.drop b.effs.length = _
    rw [heffs, List.drop_left]

theorem round_sync (d : Nat) (s : Sys) (hq : Quiet d s) (h0 : s.toNode = 0)
    (hs : SyncOk s.host s.node s.clock) :
    Sys.InSync (Sys.round s).1 (Sys.round s).2 = true ∧ Settled d (Sys.round s).1 := by
  have h1 : Sys.drain (Sys.reconnect s) = s := by rw [reconnect_quiet d s hq, drain_id d s hq h0]
  have h2 : Sys.drain (Sys.timerPhase s) = s := by rw [timerPhase_idle s hs.track.timer, drain_id d s hq h0]
  have := finish_sync d s hq h0 hs
  simp only [Sys.round, h1, h2]
  exact this

theorem round_armed (d : Nat) (s : Sys) (hq : Quiet d s) (h0 : s.toNode = 0)
    (ha : ArmedOk s.host s.clock) :
    Sys.InSync (Sys.round s).1 (Sys.round s).2 = true ∧ Settled d (Sys.round s).1 := by
  have h1 : Sys.drain (Sys.reconnect s) = s := by rw [reconnect_quiet d s hq, drain_id d s hq h0]
  obtain ⟨t1, t2, t3⟩ := timerPhase_spec d s hq ha
  have hne : (Sys.timerPhase s).toNode ≠ 0 := by omega
  obtain ⟨b1, b2, b3⟩ := (drain_quiet d _ t1 (fun _ => t3)).2 hne
  have := finish_sync d _ b1 b2 b3
  simp only [Sys.round, h1]
  exact this

theorem round_idle (d : Nat) (s : Sys) (hq : Quiet d s) (h0 : s.toNode = 0)
    (hp : CyclePre s.host s.node s.clock) (hgood : s.host.life = .birthed → s.host.reseq.mode = .good)
    (hbelow : InStep s.host s.node → DevsBelow s.host s.node) :
    Settled d (Sys.round s).1 := by
  have h1 : Sys.drain (Sys.reconnect s) = s := by rw [reconnect_quiet d s hq, drain_id d s hq h0]
  have h2 : Sys.drain (Sys.timerPhase s) = s := by rw [timerPhase_idle s hp.timer, drain_id d s hq h0]
  have := pubDrain_any d s hq h0 hp hgood hbelow
  simp only [Sys.round, h1, h2]
  exact this

theorem round_settled (d : Nat) (s : Sys) (h : Settled d s) :
    Sys.InSync (Sys.round s).1 (Sys.round s).2 = true ∧ Settled d (Sys.round s).1 := by
  rcases h.host with hs | ha
  · exact round_sync d s h.quiet h.toNode hs
  · exact round_armed d s h.quiet h.toNode ha

/-- the first round, from any host record the theorem covers -/
theorem round_start (d : Nat) (s : Sys) (hq : Quiet d s) (h0 : s.toNode = 0)
    (hinv : HostInv s.host) (hco : Coherent s.host s.clock) (htm : TimerOk s.host)
    (hbelow : InStep s.host s.node → DevsBelow s.host s.node) : Settled d (Sys.round s).1 := by
  obtain ⟨hb1, hb2⟩ := hco
  by_cases hst : s.host.life = .stale
  · exact round_idle d s hq h0 (stale_cyclePre _ _ _ hinv hst (by omega) hb2)
      (fun hb => by rw [hst] at hb; cases hb) hbelow
  · have hbirthed : s.host.life = .birthed := by cases h : s.host.life <;> simp_all
    obtain ⟨hnf, harm⟩ := htm hbirthed
    cases htimer : s.host.timer with
    | fired => exact absurd htimer hnf
    | armed dl =>
      exact (round_armed d s hq h0 ⟨hbirthed, hinv, ⟨dl, htimer⟩, by omega, hb2⟩).2
    | none =>
      have hgood : s.host.reseq.mode = .good := by
        apply Classical.byContradiction
        intro hng
        obtain ⟨dl, hdl⟩ := harm hng
        rw [htimer] at hdl; cases hdl
      exact round_idle d s hq h0 ⟨hinv, htimer, by omega, hb2⟩ (fun _ => hgood) hbelow

theorem settle_two (d : Nat) (s : Sys) (hq : Quiet d s) (h0 : s.toNode = 0)
    (hinv : HostInv s.host) (hco : Coherent s.host s.clock) (htm : TimerOk s.host)
    (hbelow : InStep s.host s.node → DevsBelow s.host s.node) :
    Sys.InSync (Sys.settle 2 s).1 (Sys.settle 2 s).2 = true := by
  have h1 := round_start d s hq h0 hinv hco htm hbelow
  exact (round_settled d _ h1).1

/-- once settled, every further round ends `InSync` again -/
theorem settle_more (d : Nat) (s : Sys) (h : Settled d s) : ∀ k,
    Settled d (Sys.settle k s).1 ∧ (0 < k → Sys.InSync (Sys.settle k s).1 (Sys.settle k s).2 = true) := by
  intro k
  induction k with
  | zero => exact ⟨h, fun h => absurd h (Nat.lt_irrefl 0)⟩
  | succ k ih =>
    have := round_settled d _ ih.1
    exact ⟨this.2, fun _ => this.1⟩

/-- the first round can be peeled off: `k + 2` rounds are one round and then `k + 1` rounds -/
theorem settle_shift (s : Sys) : ∀ k, Sys.settle (k + 2) s = Sys.settle (k + 1) (Sys.round s).1 := by
  intro k
  induction k with
  | zero => rfl
  | succ k ih =>
    show Sys.round (Sys.settle (k + 2) s).1 = Sys.round (Sys.settle (k + 1) (Sys.round s).1).1
    rw [ih]


/-! ## Part F — `TimerOk` and clock coherence are invariants of the composed system -/

/-- the timer discipline, without the "while birthed" guard -/
def TO (s : St) : Prop := s.timer ≠ .fired ∧ (s.reseq.mode ≠ .good → ∃ dl, s.timer = .armed dl)

theorem issueRebirth_life (d : Nat) (s : St) (r : Reason) (now : Nat) (hclk : s.birthTs ≤ now) :
    (issueRebirth (Sys.fullCfg d) s r now now).1.life = .stale := by
  cases hl : s.life with
  | birthed => rw [(issueRebirth_full d s r now hl hclk).1]; rfl
  | stale =>
    rw [C07P.issueRebirth_eq]
    simp only [enabled_full, full_cooldown, Bool.not_true, Bool.false_eq_true, if_false, Nat.not_lt_zero]
    rw [C07P.setStale_of_stale _ _ (by simpa using hl)]
    exact hl

theorem timerOk_of_stale (s : St) (h : s.life = .stale) : TimerOk s := by
  intro hb; rw [h] at hb; cases hb

theorem drain_mode_mono {α : Type} (r : Reseq.St (Nat × α)) :
    (Reseq.drain r).1.mode ≠ .good → r.mode ≠ .good := by
  rcases Reseq.drain_cases r with ⟨off, m, t, hmode, _, hd⟩ | ⟨res, hd, _⟩
  · intro _; rw [hmode]; simp
  · rw [hd]; exact id

theorem drain_empty_good {α : Type} (r : Reseq.St (Nat × α)) (hinv : Reseq.Inv r)
    (h : (Reseq.drain r).2 = .empty) : r.mode = .good := by
  have hbuf : r.buf = [] := by
    unfold Reseq.drain at h
    cases hmd : r.mode with
    | good =>
      rw [hmd] at h
      simp only at h
      split at h
      · rename_i he; simpa using he
      · cases h
    | reseq off =>
      rw [hmd] at h
      simp only at h
      split at h
      · rename_i he; simpa using he
      · split at h <;> cases h
  cases hmd : r.mode with
  | good => rfl
  | reseq off =>
    have := hinv.2
    rw [hmd] at this
    exact absurd hbuf this.2.1

theorem drainBuf_TO (d now : Nat) (fuel : Nat) : ∀ (released : Bool) (s : St) (acc : List Eff),
    Reseq.Inv s.reseq → TO s →
    (drainBuf (Sys.fullCfg d) now fuel released s acc).2.2 = none →
    TO (drainBuf (Sys.fullCfg d) now fuel released s acc).1 := by
  induction fuel with
  | zero => intro released s acc _ ht _; exact ht
  | succ fuel ih =>
    intro released s acc hinv ht
    rw [C07P.drainBuf_succ]
    have hdi := Reseq.drain_inv s.reseq hinv
    have hmm := drain_mode_mono s.reseq
    have heg := drain_empty_good s.reseq hinv
    have hss : ∀ (r' : Reseq.St (Nat × RMsg)) dr, Reseq.drain s.reseq = (r', dr) → (∀ m, dr ≠ .msg m) → r' = s.reseq :=
      fun r' dr hd hr => SeqP.drain_stop_same s.reseq r' dr hd hr
    generalize hdr : Reseq.drain s.reseq = dr at hdi hmm heg hss
    obtain ⟨r', res⟩ := dr
    simp only at hdi hmm heg
    cases res with
    | msg m =>
      simp only
      have hfst := SeqP.apply_fst { s with reseq := r' } m.2
      generalize hap : apply { s with reseq := r' } m.2 = p at hfst
      obtain ⟨s1, e1, o⟩ := p
      simp only at hfst
      cases o with
      | some r => intro h; cases h
      | none =>
        simp only
        apply ih true s1 (acc ++ e1)
        · rw [hfst]; exact hdi
        · rw [hfst]
          exact ⟨ht.1, fun hm => ht.2 (hmm hm)⟩
    | empty =>
      intro _
      simp only [SeqP.cancelTimer_fst]
      have hr' := hss r' _ rfl (by simp)
      refine ⟨by simp, fun hm => ?_⟩
      exfalso
      apply hm
      show r'.mode = .good
      rw [hr']
      exact heg rfl
    | missing =>
      simp only
      split
      · intro _
        simp only [startTimer, full_timeout, SeqP.cancelTimer_fst]
        exact ⟨by simp, fun _ => ⟨_, rfl⟩⟩
      · intro _
        have hr' := hss r' _ rfl (by simp)
        rw [hr']
        exact ht
    | panic =>
      intro _
      have hr' := hss r' _ rfl (by simp)
      simp only
      rw [hr']
      exact ht

theorem handleRMsg_TO (d : Nat) (s : St) (seq ts : Nat) (m : RMsg) (now : Nat)
    (hinv : HostInv s) (hseq : seq < 256) (ht : TimerOk s)
    (hnone : (handleRMsg (Sys.fullCfg d) s seq ts m now).2.2 = none) :
    TimerOk (handleRMsg (Sys.fullCfg d) s seq ts m now).1 := by
  rw [C07P.handleRMsg_eq] at hnone ⊢
  split
  · exact ht
  split
  · rename_i h1 h2; rw [if_neg h1, if_pos h2] at hnone; cases hnone
  rename_i h1 h2
  rw [if_neg h1, if_neg h2] at hnone
  have hb : s.life = .birthed := by simpa using h2
  obtain ⟨hnf, harm⟩ := ht hb
  simp only [full_reseq, Bool.not_true, Bool.false_eq_true, if_false] at hnone ⊢
  have hpi := Reseq.process_inv s.reseq seq m hinv.1 hseq
  rcases Reseq.process_cases s.reseq seq (seq, m) with ⟨_, hp⟩ | ⟨s', hp, _, _⟩ | ⟨s', hp, _, _⟩
  · rw [hp] at hnone hpi ⊢
    simp only at hnone ⊢
    have hfst := SeqP.apply_fst { s with reseq := { s.reseq with next := Reseq.wadd s.reseq.next 1 } } m
    generalize hap : apply { s with reseq := { s.reseq with next := Reseq.wadd s.reseq.next 1 } } m = p
      at hfst hnone
    obtain ⟨s1, e1, o⟩ := p
    simp only at hfst
    cases o with
    | some r => simp only at hnone; cases hnone
    | none =>
      simp only at hnone ⊢
      intro _
      apply drainBuf_TO d now _ false s1 e1 _ _ hnone
      · rw [hfst]; exact hpi
      · rw [hfst]; exact ⟨hnf, harm⟩
  · rw [hp] at hnone ⊢
    simp only
    cases htm : s.timer with
    | none =>
      intro _
      simp only [startTimer, full_timeout]
      exact ⟨by simp, fun _ => ⟨_, rfl⟩⟩
    | armed dl =>
      intro _
      exact ⟨by simp, fun _ => ⟨dl, rfl⟩⟩
    | fired => exact absurd htm hnf
  · rw [hp] at hnone; simp only at hnone; cases hnone

/-- **the timer discipline is preserved by every host step** (full configuration, coherent clock) -/
theorem step_timerOk (d : Nat) (s : St) (i : In) (now : Nat) (hinv : HostInv s) (hwf : i.WF)
    (hclk : s.birthTs ≤ now) (ht : TimerOk s) : TimerOk (step (Sys.fullCfg d) s i now now).1 := by
  cases i with
  | nbirth ts bd id ans =>
    simp only [step]
    rw [C07P.handleBirth_eq]
    split
    · exact ht
    split
    · exact timerOk_of_stale _ (issueRebirth_life d s _ now hclk)
    · intro _
      exact ⟨by simp [SeqP.cancelTimer_fst], fun h => absurd rfl h⟩
  | ndeath bd =>
    rw [C07P.step_ndeath_eq]
    have hk := C07P.cancelTimer_kept s
    have hl := (C07P.setStale_life (cancelTimer s).1 now (by rw [hk.2.1]; exact hclk)).1
    split
    · apply timerOk_of_stale
      rw [C07P.issueRebirth_eq]
      simp only [enabled_full, full_cooldown, Bool.not_true, Bool.false_eq_true, if_false, Nat.not_lt_zero]
      rw [C07P.setStale_of_stale _ _ (by simpa using hl)]
      exact hl
    · exact timerOk_of_stale _ hl
  | rmsg seq ts m =>
    rw [C07P.step_rmsg_eq]
    split
    · rename_i hnone
      exact handleRMsg_TO d s seq ts m now hinv hwf ht hnone
    · have hk := (C07P.handleRMsg_kept (Sys.fullCfg d) s seq ts m now).1
      exact timerOk_of_stale _ (issueRebirth_life d _ _ now (by rw [hk.2.1]; exact hclk))
  | offline => exact timerOk_of_stale _ (C07P.setStale_life s now hclk).1
  | rebirthReq r => exact timerOk_of_stale _ (issueRebirth_life d s r now hclk)
  | timerFire =>
    simp only [step]
    split
    · exact timerOk_of_stale _ (issueRebirth_life d _ _ now hclk)
    · exact ht


/-! ### `staleTs` / `birthTs` never run ahead of the clock -/

theorem drainBuf_staleTs (c : Cfg) (now : Nat) (fuel : Nat) : ∀ (released : Bool) (s : St) (acc : List Eff),
    (drainBuf c now fuel released s acc).1.staleTs = s.staleTs := by
  induction fuel with
  | zero => intro released s acc; rfl
  | succ fuel ih =>
    intro released s acc
    rw [C07P.drainBuf_succ]
    split
    · rename_i r' m hd
      have hfst := SeqP.apply_fst { s with reseq := r' } m.2
      generalize apply { s with reseq := r' } m.2 = p at hfst
      obtain ⟨s1, e1, o⟩ := p
      simp only at hfst
      cases o with
      | none => simp only; rw [ih, hfst]
      | some r => simp only; rw [hfst]
    · simp only [SeqP.cancelTimer_fst]
    · split
      · simp only; rw [SeqP.startTimer_fst, SeqP.cancelTimer_fst]
      · rfl
    · rfl

theorem handleRMsg_staleTs (c : Cfg) (s : St) (seq ts : Nat) (m : RMsg) (now : Nat) :
    (handleRMsg c s seq ts m now).1.staleTs = s.staleTs := by
  rw [C07P.handleRMsg_eq]
  split
  · rfl
  split
  · rfl
  split
  · rw [SeqP.apply_fst]
  split
  · split
    · simp only; rw [SeqP.startTimer_fst]
    · rfl
  · rfl
  · rename_i r' m' hp
    have hfst := SeqP.apply_fst { s with reseq := r' } m'.2
    generalize apply { s with reseq := r' } m'.2 = p at hfst
    obtain ⟨s1, e1, o⟩ := p
    simp only at hfst
    cases o with
    | none => simp only; rw [drainBuf_staleTs, hfst]
    | some r => simp only; rw [hfst]

theorem setStale_staleTs (s : St) (t : Nat) :
    (setStale s t).1.staleTs = s.staleTs ∨ (setStale s t).1.staleTs = t := by
  rcases Host.setStale_cases s t with h | ⟨_, _, h⟩
  · rw [h]; exact Or.inl rfl
  · rw [h]; exact Or.inr rfl

theorem issueRebirth_clock (c : Cfg) (s : St) (r : Reason) (now wall : Nat) :
    (issueRebirth c s r now wall).1.birthTs = s.birthTs ∧
    ((issueRebirth c s r now wall).1.staleTs = s.staleTs ∨ (issueRebirth c s r now wall).1.staleTs = now) := by
  rw [C07P.issueRebirth_eq]
  split
  · exact ⟨rfl, Or.inl rfl⟩
  split
  · exact ⟨rfl, Or.inl rfl⟩
  · exact ⟨(C07P.setStale_fields _ _).2.1, setStale_staleTs { s with lastRebirth := wall } now⟩

/-- timestamps the input carries into the record -/
def In.tsLe (now : Nat) : In → Prop
  | .nbirth ts _ _ _ => ts ≤ now
  | _ => True

theorem step_clock (c : Cfg) (s : St) (i : In) (now wall : Nat) (hi : In.tsLe now i)
    (h1 : s.birthTs ≤ now) (h2 : s.staleTs ≤ now) :
    (step c s i now wall).1.birthTs ≤ now ∧ (step c s i now wall).1.staleTs ≤ now := by
  cases i with
  | nbirth ts bd id ans =>
    simp only [step]
    rw [C07P.handleBirth_eq]
    split
    · exact ⟨h1, h2⟩
    split
    · obtain ⟨a, b⟩ := issueRebirth_clock c s .invalidPayload now wall
      exact ⟨by rw [a]; exact h1, by rcases b with b | b <;> rw [b] <;> omega⟩
    · exact ⟨hi, by simp only [SeqP.cancelTimer_fst]; exact h2⟩
  | ndeath bd =>
    rw [C07P.step_ndeath_eq]
    have hk := C07P.cancelTimer_kept s
    have hc : (cancelTimer s).1.staleTs = s.staleTs := by rw [SeqP.cancelTimer_fst]
    have a1 := (C07P.setStale_fields (cancelTimer s).1 now).2.1
    have a2 := setStale_staleTs (cancelTimer s).1 now
    have hb : (setStale (cancelTimer s).1 now).1.birthTs ≤ now := by rw [a1, hk.2.1]; exact h1
    have hs : (setStale (cancelTimer s).1 now).1.staleTs ≤ now := by
      rcases a2 with a2 | a2 <;> rw [a2] <;> omega
    split
    · obtain ⟨a, b⟩ := issueRebirth_clock c (setStale (cancelTimer s).1 now).1 .outOfSyncBdSeq now wall
      exact ⟨by rw [a]; exact hb, by rcases b with b | b <;> rw [b] <;> omega⟩
    · exact ⟨hb, hs⟩
  | rmsg seq ts m =>
    rw [C07P.step_rmsg_eq]
    have hk := (C07P.handleRMsg_kept c s seq ts m now).1
    have hst := handleRMsg_staleTs c s seq ts m now
    split
    · exact ⟨by rw [hk.2.1]; exact h1, by rw [hst]; exact h2⟩
    · rename_i r _
      obtain ⟨a, b⟩ := issueRebirth_clock c (handleRMsg c s seq ts m now).1 r now wall
      exact ⟨by rw [a, hk.2.1]; exact h1, by rcases b with b | b <;> rw [b] <;> omega⟩
  | offline =>
    show (setStale s now).1.birthTs ≤ now ∧ (setStale s now).1.staleTs ≤ now
    exact ⟨by rw [(C07P.setStale_fields s now).2.1]; exact h1,
      by rcases setStale_staleTs s now with b | b <;> rw [b] <;> omega⟩
  | rebirthReq r =>
    obtain ⟨a, b⟩ := issueRebirth_clock c s r now wall
    show (issueRebirth c s r now wall).1.birthTs ≤ now ∧ (issueRebirth c s r now wall).1.staleTs ≤ now
    exact ⟨by rw [a]; exact h1, by rcases b with b | b <;> rw [b] <;> omega⟩
  | timerFire =>
    simp only [step]
    split
    · obtain ⟨a, b⟩ := issueRebirth_clock c { s with timer := .fired } .reorderTimeout now wall
      exact ⟨by rw [a]; exact h1, by rcases b with b | b <;> rw [b] <;> omega⟩
    · exact ⟨h1, h2⟩

/-! ### what the node hands over is stamped with the clock reading it was given -/

def Msg.tsLe (now : Nat) (m : Msg) : Prop := In.tsLe now m.toIn

def OpTs (ts : Nat) (r : Node × List Msg) : Prop := ∀ m ∈ r.2, Msg.tsLe ts m

theorem devBirth_ts (rb : Bool) (ts : Nat) (n : Node) (x : Dev) :
    ∀ m ∈ (Node.devBirth rb ts n x).2.2, Msg.tsLe ts m := by
  unfold Node.devBirth
  split
  · simp
  split
  · simp
  split
  · simp
  · intro m hm
    simp only [List.mem_singleton] at hm
    subst hm
    trivial

theorem birthDevs_ts (rb : Bool) (ts : Nat) (l : List Dev) : ∀ (n : Node),
    ∀ m ∈ (Node.birthDevs rb ts n l).2.2, Msg.tsLe ts m := by
  induction l with
  | nil => intro n; simp [Node.birthDevs]
  | cons x t ih =>
    intro n m hm
    simp only [Node.birthDevs] at hm
    rcases List.mem_append.mp hm with hm | hm
    · exact devBirth_ts rb ts n x m hm
    · exact ih _ m hm

theorem nodeBirth_ts (rb : Bool) (ts : Nat) (n : Node) : OpTs ts (Node.nodeBirth rb ts n) := by
  intro m hm
  simp only [Node.nodeBirth] at hm
  rcases List.mem_cons.mp hm with rfl | hm
  · exact Nat.le_refl _
  · exact birthDevs_ts rb ts _ _ m hm

theorem op_ts_nil (ts : Nat) (n : Node) : OpTs ts (n, []) := by intro m hm; cases hm

theorem op_ts_single (ts : Nat) (n : Node) (m : Msg) (h : Msg.tsLe ts m) : OpTs ts (n, [m]) := by
  intro m' hm'; simp only [List.mem_singleton] at hm'; subst hm'; exact h

theorem rebirth_ts (ts : Nat) (n : Node) : OpTs ts (Node.rebirth ts n) := by
  unfold Node.rebirth; split
  · exact op_ts_nil ts n
  · exact nodeBirth_ts true ts n

theorem goOnline_ts (ts : Nat) (n : Node) : OpTs ts (Node.goOnline ts n) := by
  unfold Node.goOnline; split
  · exact op_ts_nil ts n
  · exact nodeBirth_ts false ts _

theorem pubNode_ts (ts : Nat) (n : Node) : OpTs ts (Node.pubNode ts n) := by
  unfold Node.pubNode; split
  · exact op_ts_nil ts n
  · exact op_ts_single ts _ _ trivial

theorem pubDev_ts (d ts : Nat) (n : Node) : OpTs ts (Node.pubDev d ts n) := by
  unfold Node.pubDev
  split
  · exact op_ts_nil ts n
  split
  · exact op_ts_nil ts n
  split
  · exact op_ts_nil ts n
  · exact op_ts_single ts _ _ trivial

theorem enable_ts (d ts : Nat) (n : Node) : OpTs ts (Node.enable d ts n) := by
  unfold Node.enable
  split
  · exact op_ts_nil ts n
  · exact devBirth_ts false ts n _

theorem disable_ts (d ts : Nat) (n : Node) : OpTs ts (Node.disable d ts n) := by
  unfold Node.disable
  split
  · exact op_ts_nil ts n
  split
  · exact op_ts_nil ts _
  split
  · exact op_ts_nil ts _
  · exact op_ts_single ts _ _ trivial


theorem SafeInv.hostInv {c : Cfg} {s : Sys} (h : SafeInv c s) : HostInv s.host := by
  obtain ⟨evs, hwf, hrun⟩ := h.isRun
  have := (Host.run_spec c evs Host.init Host.init_inv hwf).1
  rw [hrun] at this
  exact this

/-- what every reachable state of the composed system satisfies under the full configuration -/
structure LiveInv (d : Nat) (s : Sys) : Prop where
  safe : SafeInv (Sys.fullCfg d) s
  timer : TimerOk s.host
  birthTs : s.host.birthTs ≤ s.clock
  staleTs : s.host.staleTs ≤ s.clock
  flightTs : ∀ m ∈ s.toHost, Msg.tsLe s.clock m

theorem tsLe_mono {a b : Nat} (h : a ≤ b) (m : Msg) (hm : Msg.tsLe a m) : Msg.tsLe b m := by
  cases m <;> simp only [Msg.tsLe, Msg.toIn, In.tsLe] at hm ⊢
  omega

theorem LiveInv_init (d : Nat) (devs : List Dev) : LiveInv d (Sys.init (Sys.fullCfg d) devs) :=
  ⟨SafeInv_init _ devs, timerOk_of_stale _ rfl, by simp [Sys.init, Host.init], by simp [Sys.init, Host.init],
    by simp [Sys.init]⟩

theorem LiveInv_send (d : Nat) (s : Sys) (r : Node × List Msg) (h : LiveInv d s)
    (hr : OpOk s.node r) (ht : OpTs s.clock r) : LiveInv d (s.send r.1 r.2) := by
  refine ⟨SafeInv_send _ s r h.safe hr, h.timer, h.birthTs, h.staleTs, ?_⟩
  intro m hm
  simp only [Sys.send] at hm
  rcases List.mem_append.mp hm with hm | hm
  · exact h.flightTs m hm
  · exact ht m hm

theorem LiveInv_hostStep (d : Nat) (s : Sys) (i : In) (h : LiveInv d s)
    (hi : InQ (EffOk s.sent) i) (hwf : i.WF) (hts : In.tsLe s.clock i) : LiveInv d (s.hostStep i) := by
  have hs := SafeInv_hostStep _ s i h.safe hi hwf
  obtain ⟨c1, c2⟩ := step_clock s.cfg s.host i s.clock s.clock hts h.birthTs h.staleTs
  refine ⟨hs, ?_, c1, c2, h.flightTs⟩
  have := step_timerOk d s.host i s.clock h.safe.hostInv hwf h.birthTs h.timer
  simp only [Sys.hostStep, h.safe.cfg]
  exact this

/-- **Part F, main lemma**: `LiveInv` is preserved by every action. -/
theorem LiveInv_step (d : Nat) (s : Sys) (a : Action) (h : LiveInv d s) : LiveInv d (s.step a) := by
  cases a with
  | publishNode => exact LiveInv_send d s _ h (pubNode_ok _ _) (pubNode_ts _ _)
  | publishDev dv => exact LiveInv_send d s _ h (pubDev_ok _ _ _) (pubDev_ts _ _ _)
  | enable dv => exact LiveInv_send d s _ h (enable_ok _ _ _) (enable_ts _ _ _)
  | disable dv => exact LiveInv_send d s _ h (disable_ok _ _ _) (disable_ts _ _ _)
  | manualRebirth => exact LiveInv_send d s _ h (rebirth_ok _ _ h.safe.bd) (rebirth_ts _ _)
  | deliver k =>
    have hsafe := SafeInv_step _ s (.deliver k) h.safe
    simp only [Sys.step] at hsafe ⊢
    split
    · exact h
    · rename_i m hm
      have hmem : m ∈ s.toHost := List.mem_of_getElem? hm
      have h1 : LiveInv d { s with toHost := s.toHost.eraseIdx k } :=
        ⟨SafeInv_erase _ s k h.safe, h.timer, h.birthTs, h.staleTs,
          fun m' hm' => h.flightTs m' (eraseIdx_mem _ _ _ hm')⟩
      simp only [Sys.recv]
      split
      · exact LiveInv_hostStep d _ _ h1 (InQ_of_mem _ _ (h.safe.flight m hmem).1) (h.safe.flight m hmem).2
          (h.flightTs m hmem)
      · exact h1
  | duplicate k =>
    have hsafe := SafeInv_step _ s (.duplicate k) h.safe
    simp only [Sys.step] at hsafe ⊢
    split
    · exact h
    · rename_i m hm
      have hmem : m ∈ s.toHost := List.mem_of_getElem? hm
      simp only [hm] at hsafe
      refine ⟨hsafe, h.timer, h.birthTs, h.staleTs, ?_⟩
      intro m' hm'
      rcases List.mem_append.mp hm' with hm' | hm'
      · exact h.flightTs m' hm'
      · simp only [List.mem_singleton] at hm'; subst hm'; exact h.flightTs _ hmem
  | drop k =>
    simp only [Sys.step]
    split
    · exact h
    · split
      · exact ⟨SafeInv_erase _ s k h.safe, h.timer, h.birthTs, h.staleTs,
          fun m' hm' => h.flightTs m' (eraseIdx_mem _ _ _ hm')⟩
      · exact h
  | deliverNcmd =>
    simp only [Sys.step]
    split
    · exact h
    · have h1 : LiveInv d { s with toNode := s.toNode - 1 } :=
        ⟨⟨h.safe.cfg, h.safe.bd, h.safe.will, h.safe.flight, h.safe.buf, h.safe.effs, h.safe.isRun⟩,
          h.timer, h.birthTs, h.staleTs, h.flightTs⟩
      split
      · exact LiveInv_send d _ _ h1 (rebirth_ok _ _ h.safe.bd) (rebirth_ts _ _)
      · exact h1
  | dropNcmd =>
    exact ⟨⟨h.safe.cfg, h.safe.bd, h.safe.will, h.safe.flight, h.safe.buf, h.safe.effs, h.safe.isRun⟩,
      h.timer, h.birthTs, h.staleTs, h.flightTs⟩
  | nodeDisconnect =>
    have hsafe := SafeInv_step _ s .nodeDisconnect h.safe
    simp only [Sys.step] at hsafe ⊢
    split
    · exact h
    · rename_i hc
      simp only [hc] at hsafe
      refine ⟨hsafe, h.timer, h.birthTs, h.staleTs, ?_⟩
      intro m hm
      rcases List.mem_append.mp hm with hm | hm
      · exact h.flightTs m hm
      · simp only [List.mem_singleton] at hm; subst hm; trivial
  | nodeConnect =>
    simp only [Sys.step]
    split
    · exact h
    · have h1 := LiveInv_send d s _ h (goOnline_ok s.clock s.node h.safe.bd) (goOnline_ts _ _)
      exact ⟨⟨h1.safe.cfg, h1.safe.bd, h1.safe.will, h1.safe.flight, h1.safe.buf, h1.safe.effs, h1.safe.isRun⟩,
        h1.timer, h1.birthTs, h1.staleTs, h1.flightTs⟩
  | hostDisconnect =>
    simp only [Sys.step]
    split
    · exact h
    · have h1 := LiveInv_hostStep d s .offline h trivial trivial trivial
      exact ⟨⟨h1.safe.cfg, h1.safe.bd, h1.safe.will, h1.safe.flight, h1.safe.buf, h1.safe.effs, h1.safe.isRun⟩,
        h1.timer, h1.birthTs, h1.staleTs, h1.flightTs⟩
  | hostConnect =>
    exact ⟨⟨h.safe.cfg, h.safe.bd, h.safe.will, h.safe.flight, h.safe.buf, h.safe.effs, h.safe.isRun⟩,
      h.timer, h.birthTs, h.staleTs, h.flightTs⟩
  | advance ms =>
    simp only [Sys.step]
    have h1 : LiveInv d { s with clock := s.clock + ms } :=
      ⟨⟨h.safe.cfg, h.safe.bd, h.safe.will, h.safe.flight, h.safe.buf, h.safe.effs, h.safe.isRun⟩,
        h.timer, by have := h.birthTs; simp only; omega, by have := h.staleTs; simp only; omega,
        fun m hm => tsLe_mono (Nat.le_add_right _ _) m (h.flightTs m hm)⟩
    split
    · split
      · exact LiveInv_hostStep d _ .timerFire h1 trivial trivial trivial
      · exact h1
    · exact h1

theorem LiveInv_run (d : Nat) (as : List Action) : ∀ (s : Sys), LiveInv d s → LiveInv d (s.run as) := by
  induction as with
  | nil => intro s h; exact h
  | cons a as ih => intro s h; exact ih _ (LiveInv_step d s a h)


/-! ## Part G — the abstract node's own invariant -/

/-- flags and switches of the abstract node are consistent in every reachable state -/
structure NodeInv (n : Node) : Prop where
  online : n.birthed = true → n.online = true
  seq : n.seq < 256
  flagEn : ∀ x ∈ n.devs, x.flag = true → x.enabled = true
  enFlag : n.birthed = true → ∀ x ∈ n.devs, x.enabled = true → x.flag = true
  names : (n.devs.map (·.name)).Nodup

theorem NodeInv.frame {n n' : Node} (h : NodeInv n) (h1 : n'.online = n.online) (h2 : n'.birthed = n.birthed)
    (h3 : n'.devs = n.devs) (h4 : n'.seq < 256) : NodeInv n' :=
  ⟨by rw [h1, h2]; exact h.online, h4, by rw [h3]; exact h.flagEn, by rw [h2, h3]; exact h.enFlag,
    by rw [h3]; exact h.names⟩

theorem setDev_names (x : Dev) (l : List Dev) : (Node.setDev x l).map (·.name) = l.map (·.name) := by
  induction l with
  | nil => rfl
  | cons y t ih =>
    simp only [Node.setDev]
    split
    · rename_i h
      simp only [List.map_cons]
      have : y.name = x.name := by simpa using h
      rw [this]
    · simp only [List.map_cons, ih]

theorem mem_setDev (x : Dev) (l : List Dev) (y : Dev) (h : y ∈ Node.setDev x l) : y = x ∨ y ∈ l := by
  induction l with
  | nil => cases h
  | cons z t ih =>
    simp only [Node.setDev] at h
    split at h
    · rcases List.mem_cons.mp h with h | h
      · exact Or.inl h
      · exact Or.inr (List.mem_cons_of_mem _ h)
    · rcases List.mem_cons.mp h with h | h
      · exact Or.inr (h ▸ List.mem_cons_self ..)
      · rcases ih h with h | h
        · exact Or.inl h
        · exact Or.inr (List.mem_cons_of_mem _ h)

theorem findDev_mem (n : Node) (d : Nat) (x : Dev) (h : n.findDev d = some x) : x ∈ n.devs :=
  List.mem_of_find?_eq_some h

/-- replacing a device by one that satisfies the per-device conditions keeps the invariant -/
theorem NodeInv.setDev {n n' : Node} (h : NodeInv n) (x : Dev) (h1 : n'.online = n.online)
    (h2 : n'.birthed = n.birthed) (h3 : n'.devs = Node.setDev x n.devs) (h4 : n'.seq < 256)
    (hx1 : x.flag = true → x.enabled = true) (hx2 : n.birthed = true → x.enabled = true → x.flag = true) :
    NodeInv n' := by
  refine ⟨by rw [h1, h2]; exact h.online, h4, ?_, ?_, by rw [h3, setDev_names]; exact h.names⟩
  · intro y hy
    rw [h3] at hy
    rcases mem_setDev x _ y hy with rfl | hy
    · exact hx1
    · exact h.flagEn y hy
  · intro hb y hy
    rw [h3] at hy
    rw [h2] at hb
    rcases mem_setDev x _ y hy with rfl | hy
    · exact hx2 hb
    · exact h.enFlag hb y hy

theorem pubNode_inv (ts : Nat) (n : Node) (h : NodeInv n) : NodeInv (n.pubNode ts).1 := by
  unfold Node.pubNode
  split
  · exact h
  · rename_i n1 k hk
    obtain ⟨rfl, rfl, _, _⟩ := nextSeq_some n n1 k hk
    exact h.frame rfl rfl rfl (Nat.mod_lt _ (by omega))

theorem pubDev_inv (d ts : Nat) (n : Node) (h : NodeInv n) : NodeInv (n.pubDev d ts).1 := by
  unfold Node.pubDev
  split
  · exact h
  split
  · exact h
  split
  · exact h
  · rename_i n1 k hk
    obtain ⟨rfl, rfl, _, _⟩ := nextSeq_some n n1 k hk
    exact h.frame rfl rfl rfl (Nat.mod_lt _ (by omega))

theorem enable_inv (d ts : Nat) (n : Node) (h : NodeInv n) : NodeInv (n.enable d ts).1 := by
  unfold Node.enable
  split
  · exact h
  · rename_i x hx
    have hxm := findDev_mem n d x hx
    simp only [Node.devBirth, Bool.not_true, Bool.false_eq_true, if_false, Bool.not_false, Bool.true_and]
    split
    · rename_i hf
      exact h.setDev _ rfl rfl rfl h.seq (fun _ => rfl) (fun _ _ => hf)
    · split
      · rename_i hns
        refine h.setDev _ rfl rfl rfl h.seq (fun _ => rfl) (fun hb _ => ?_)
        have ho := h.online hb
        simp [Node.nextSeq, ho, hb] at hns
      · rename_i n1 k hk
        obtain ⟨rfl, rfl, _, _⟩ := nextSeq_some n n1 k hk
        exact h.setDev _ rfl rfl rfl (Nat.mod_lt _ (by omega)) (fun _ => rfl) (fun _ _ => rfl)

theorem disable_inv (d ts : Nat) (n : Node) (h : NodeInv n) : NodeInv (n.disable d ts).1 := by
  unfold Node.disable
  split
  · exact h
  · rename_i x hx
    split
    · rename_i hf
      refine h.setDev _ rfl rfl rfl h.seq (fun hfl => ?_) (fun _ he => by cases he)
      simp only at hfl
      rw [hfl] at hf
      cases hf
    · split
      · exact h.setDev _ rfl rfl rfl h.seq (fun hfl => by cases hfl) (fun _ he => by cases he)
      · rename_i n1 k hk
        obtain ⟨rfl, rfl, _, _⟩ := nextSeq_some n n1 k hk
        exact h.setDev _ rfl rfl rfl (Nat.mod_lt _ (by omega)) (fun hfl => by cases hfl) (fun _ he => by cases he)

theorem devBirth_inv (rb : Bool) (ts : Nat) (n : Node) (x : Dev) (ho : n.online = true) (hb : n.birthed = true)
    (hs : n.seq < 256) (hx : x.flag = true → x.enabled = true) :
    ∀ r, r = Node.devBirth rb ts n x →
    r.1.online = n.online ∧ r.1.birthed = n.birthed ∧ r.1.devs = n.devs ∧ r.1.seq < 256 ∧
    r.2.1.name = x.name ∧ (r.2.1.flag = true ↔ r.2.1.enabled = true) := by
  intro r hr
  unfold Node.devBirth at hr
  split at hr
  · rename_i he
    subst hr
    refine ⟨rfl, rfl, rfl, hs, rfl, ⟨hx, fun h => ?_⟩⟩
    simp only at h; rw [h] at he; cases he
  split at hr
  · rename_i he hf
    subst hr
    simp only [Bool.and_eq_true, Bool.not_eq_true'] at hf
    exact ⟨rfl, rfl, rfl, hs, rfl, ⟨hx, fun _ => hf.2⟩⟩
  split at hr
  · rename_i hns
    simp [Node.nextSeq, ho, hb] at hns
  · rename_i n1 k hk
    subst hr
    obtain ⟨rfl, rfl, _, _⟩ := nextSeq_some n n1 k hk
    refine ⟨rfl, rfl, rfl, Nat.mod_lt _ (by omega), rfl, ⟨fun _ => ?_, fun _ => rfl⟩⟩
    cases hen : x.enabled <;> simp_all

theorem birthDevs_inv (rb : Bool) (ts : Nat) (l : List Dev) : ∀ (n : Node), n.online = true →
    n.birthed = true → n.seq < 256 → (∀ x ∈ l, x.flag = true → x.enabled = true) →
    let r := Node.birthDevs rb ts n l
    r.1.online = n.online ∧ r.1.birthed = n.birthed ∧ r.1.devs = n.devs ∧ r.1.seq < 256 ∧
    r.2.1.map (·.name) = l.map (·.name) ∧ ∀ y ∈ r.2.1, (y.flag = true ↔ y.enabled = true) := by
  induction l with
  | nil => intro n _ _ hs _; exact ⟨rfl, rfl, rfl, hs, rfl, by simp [Node.birthDevs]⟩
  | cons x t ih =>
    intro n ho hb hs hall
    obtain ⟨a1, a2, a3, a4, a5, a6⟩ := devBirth_inv rb ts n x ho hb hs (hall x (List.mem_cons_self ..)) _ rfl
    obtain ⟨b1, b2, b3, b4, b5, b6⟩ := ih (Node.devBirth rb ts n x).1 (by rw [a1]; exact ho) (by rw [a2]; exact hb) a4
      (fun y hy => hall y (List.mem_cons_of_mem _ hy))
    simp only [Node.birthDevs]
    refine ⟨b1.trans a1, b2.trans a2, b3.trans a3, b4, ?_, ?_⟩
    · simp only [List.map_cons, a5, b5]
    · intro y hy
      rcases List.mem_cons.mp hy with rfl | hy
      · exact a6
      · exact b6 y hy

theorem nodeBirth_inv (rb : Bool) (ts : Nat) (n : Node) (h : NodeInv n) (ho : n.online = true) :
    NodeInv (Node.nodeBirth rb ts n).1 := by
  obtain ⟨b1, b2, b3, b4, b5, b6⟩ := birthDevs_inv rb ts n.devs
    { n with birthed := true, seq := 0, nextId := n.nextId + 1 } ho rfl (by simp) h.flagEn
  simp only [Node.nodeBirth]
  refine ⟨fun _ => by simp only; rw [b1]; exact ho, b4, ?_, ?_, ?_⟩
  · intro y hy; exact (b6 y hy).mp
  · intro _ y hy; exact (b6 y hy).mpr
  · simp only; rw [b5]; exact h.names

theorem goOnline_inv (ts : Nat) (n : Node) (h : NodeInv n) : NodeInv (n.goOnline ts).1 := by
  unfold Node.goOnline
  split
  · exact h
  · rename_i hoff
    have hnb : n.birthed = false := by
      cases hb : n.birthed with
      | false => rfl
      | true => exact absurd (h.online hb) hoff
    refine nodeBirth_inv false ts { n with online := true } ?_ rfl
    exact ⟨fun _ => rfl, h.seq, h.flagEn, fun hb => (by simp only at hb; rw [hnb] at hb; cases hb), h.names⟩

theorem rebirth_inv (ts : Nat) (n : Node) (h : NodeInv n) : NodeInv (n.rebirth ts).1 := by
  unfold Node.rebirth
  split
  · exact h
  · rename_i hb
    exact nodeBirth_inv true ts n h (h.online (by simpa using hb))

theorem goOffline_inv (n : Node) (h : NodeInv n) : NodeInv n.goOffline.1 := by
  unfold Node.goOffline
  split
  · exact h
  · refine ⟨fun hb => (by cases hb), h.seq, ?_, fun hb => (by cases hb), ?_⟩
    · intro y hy hf
      simp only [List.mem_map] at hy
      obtain ⟨z, _, rfl⟩ := hy
      cases hf
    · simp only [List.map_map]
      exact h.names

theorem NodeInv_step (s : Sys) (a : Action) (h : NodeInv s.node) : NodeInv (s.step a).node := by
  cases a with
  | publishNode => exact pubNode_inv _ _ h
  | publishDev d => exact pubDev_inv _ _ _ h
  | enable d => exact enable_inv _ _ _ h
  | disable d => exact disable_inv _ _ _ h
  | manualRebirth => exact rebirth_inv _ _ h
  | deliver k =>
    simp only [Sys.step]; split
    · exact h
    · simp only [Sys.recv]; split <;> exact h
  | duplicate k => simp only [Sys.step]; split <;> exact h
  | drop k =>
    simp only [Sys.step]; split
    · exact h
    · split <;> exact h
  | deliverNcmd =>
    simp only [Sys.step]; split
    · exact h
    · split
      · exact rebirth_inv _ _ h
      · exact h
  | dropNcmd => exact h
  | nodeDisconnect =>
    simp only [Sys.step]; split
    · exact h
    · exact goOffline_inv _ h
  | nodeConnect =>
    simp only [Sys.step]; split
    · exact h
    · exact goOnline_inv _ _ h
  | hostDisconnect => simp only [Sys.step]; split <;> exact h
  | hostConnect => exact h
  | advance ms =>
    simp only [Sys.step]; split
    · split <;> exact h
    · exact h

theorem NodeInv_run (as : List Action) : ∀ (s : Sys), NodeInv s.node → NodeInv (s.run as).node := by
  induction as with
  | nil => intro s h; exact h
  | cons a as ih => intro s h; exact ih _ (NodeInv_step s a h)

theorem NodeInv_init (c : Cfg) (devs : List Dev) (hn : (devs.map (·.name)).Nodup)
    (hf : ∀ x ∈ devs, x.flag = false) : NodeInv (Sys.init c devs).node := by
  refine ⟨fun hb => (by cases hb), by simp [Sys.init], ?_, fun hb => (by cases hb), hn⟩
  intro x hx hfl
  have := hf x hx
  rw [this] at hfl
  cases hfl

theorem NodeInv.nodeOk {n : Node} (h : NodeInv n) (hbd : n.bdseq < 256) (hb : n.birthed = true)
    (hfew : n.enabledNames.length < 255) : NodeOk n := by
  refine ⟨h.online hb, hb, h.seq, hbd, ?_, h.names, hfew⟩
  intro x hx
  cases he : x.enabled with
  | true => exact h.enFlag hb x hx he
  | false =>
    cases hf : x.flag with
    | false => rfl
    | true => rw [h.flagEn x hx hf] at he; cases he

end Srad.Loop
