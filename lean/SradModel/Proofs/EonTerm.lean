/-
Helpers for `Props/C20Term.lean` (C20, "shutdown terminates under every scheduler"):
* `termMeasure`, a potential function on edge-node states that every task step strictly lowers
  (`Term.step_dec`) and that the passage of time and late client answers leave alone;
* schedules (`Act.isSched`, `Act.isInternal`, `taskCount`) and the bound `Term.runActs_bound`;
* the invariants a shutdown run keeps (`Stopping`, `NodeFree`, bundled in `Term.Good`), the
  progress lemma `Term.progress`, and its consequences `Term.quiescent_done`, `Term.extend_to_done`.
-/
import SradModel.Proofs.EonC20
import SradModel.Proofs.EonC04

namespace Srad.Eon
open Srad.Eon.P20

/-! ### the measure -/

/-- remaining steps of a device task in program location `pc` (queues excluded) -/
def devRank : DevPc → Nat
  | .idle => 0 | .waitBirth _ _ => 2 | .birthDone _ _ => 1 | .waitDeath _ _ => 1 | .inCb => 1 | .done => 0

/-- remaining work of one device task: every queued node-state message or handle request costs at
most 3 steps (take it, wait for the DBIRTH, finish the birth), every queued DCMD at most 2 -/
def devPot (x : Dev) : Nat := devRank x.pc + 3 * x.nsq.length + 3 * x.hq.length + 2 * x.mq.length

def devsPot : List Dev → Nat
  | [] => 0
  | x :: t => devPot x + devsPot t

/-- remaining steps of a user API call -/
def uRank : UPc → Nat
  | .start => 3 | .cancelStop => 2 | .wait _ => 1 | .cancelDisc => 1 | .done => 0

def usersPot : List UCall → Nat
  | [] => 0
  | u :: t => uRank u.pc + usersPot t

/-- weight of one unit of queued node-task work (a `client_state` message, a rebirth request, an
NCMD) with `d` devices: at most 5 node steps and one message to each device (3 steps each) -/
def nodeW (d : Nat) : Nat := 3 * d + 6

/-- weight of one event the MQTT event loop still holds: the loop steps that deliver it and the
node / device work it creates -/
def evW (d : Nat) : Nat := 3 * d + 10

def nodeRank (d : Nat) : NodePc → Nat
  | .idle => 0 | .done => 0
  | .nbDone _ _ _ => 3 * d + 1 | .waitNb _ _ _ => 3 * d + 2 | .birthStart _ _ => 3 * d + 3
  | .subDone _ => 3 * d + 4 | .inCb _ => 3 * d + 4 | .waitSub _ => 3 * d + 5

/-- remaining loop steps from program location `pc` with an empty inbox, including the
`client_state` messages it is still going to send -/
def loopRank (d : Nat) : LoopPc → Nat
  | .done => 0
  | .sendStopped => nodeW d + 1
  | .forceAwaitWill _ => nodeW d + 2
  | .forceSendCs _ => 2 * nodeW d + 3
  | .stopAwaitWill _ => 2 * nodeW d + 4
  | .stopPolling => 2 * nodeW d + 4
  | .stopCheck => 2 * nodeW d + 5
  | .stopSendCs _ => 3 * nodeW d + 5
  | .polling => 2 * nodeW d + 6
  | .sel => 2 * nodeW d + 7
  | .awaitWill _ => 2 * nodeW d + 8
  | .start => 2 * nodeW d + 8
  | .sendCs _ => 3 * nodeW d + 9

/-- **The termination measure**: an upper bound on the number of task steps that can still be
taken when no new stimulus arrives. A sum of potentials (a weighted encoding of the
lexicographic order loop phase > undelivered events > node work > device work > user calls):
each component bounds the remaining steps of one task *plus* the work those steps create for
the other tasks. It does not mention the clock. -/
def termMeasure (s : St) : Nat :=
  loopRank s.devs.length s.loop + evW s.devs.length * s.inbox.length
  + (nodeRank s.devs.length s.node + (if s.cs.isSome then nodeW s.devs.length else 0)
      + (if s.rebirthQ then nodeW s.devs.length else 0) + nodeW s.devs.length * s.msgQ.length)
  + devsPot s.devs + usersPot s.ucalls

namespace Term
set_option linter.unusedSimpArgs false

theorem nodeW_eq (d : Nat) : nodeW d = 3 * d + 6 := rfl
theorem evW_eq (d : Nat) : evW d = 3 * d + 10 := rfl

/-! ### device lists -/

@[simp] theorem setDev_length (x : Dev) (l : List Dev) : (setDev x l).length = l.length :=
  P04.setDev_length x l

@[simp] theorem pushAll_length (m : NS) (l : List Dev) : (pushAll m l).length = l.length := by
  simp [pushAll]

theorem devsPot_pushAll_le (m : NS) (l : List Dev) : devsPot (pushAll m l) ≤ devsPot l + 3 * l.length := by
  induction l with
  | nil => simp [pushAll, devsPot]
  | cons x t ih =>
    simp only [pushAll, List.map_cons, devsPot, List.length_cons] at ih ⊢
    split
    · simp only [devPot, List.length_append, List.length_cons, List.length_nil]; omega
    · omega

/-- replacing the entry `findUid` finds -/
theorem devsPot_setDev {u : Nat} {l : List Dev} {x x' : Dev} (h : findUid u l = some x) (hu : x'.uid = u) :
    devsPot (setDev x' l) + devPot x = devsPot l + devPot x' := by
  induction l with
  | nil => simp [findUid] at h
  | cons y t ih =>
    simp only [setDev]
    by_cases hy : y.uid = u
    · have : x = y := by simpa [findUid, List.find?_cons, hy] using h.symm
      subst this
      simp [hy, hu, devsPot]; omega
    · have hne : ¬ y.uid = x'.uid := by rw [hu]; exact hy
      have h' : findUid u t = some x := by simpa [findUid, List.find?_cons, hy] using h
      have := ih h'
      simp [hne, devsPot]; omega

theorem findUid_of_mem {l : List Dev} {x : Dev} (hn : (l.map (·.uid)).Nodup) (hx : x ∈ l) :
    findUid x.uid l = some x := by
  induction l with
  | nil => simp at hx
  | cons y t ih =>
    simp only [List.map_cons, List.nodup_cons, List.mem_map, not_exists, not_and] at hn
    simp only [List.mem_cons] at hx
    by_cases hy : y.uid = x.uid
    · rcases hx with rfl | hx
      · simp [findUid]
      · exact absurd hy (hn.1 x hx ∘ Eq.symm)
    · rcases hx with rfl | hx
      · exact absurd rfl hy
      · simpa [findUid, List.find?_cons, hy] using ih hn.2 hx

/-! ### user calls -/

theorem usersPot_setUCall {j : Nat} {l : List UCall} {u u' : UCall} (h : l.find? (·.j == j) = some u) (hj : u'.j = u.j) :
    usersPot (setUCall u' l) + uRank u.pc = usersPot l + uRank u'.pc := by
  induction l with
  | nil => simp at h
  | cons v t ih =>
    simp only [List.find?_cons] at h
    simp only [setUCall]
    split at h
    · rename_i hv
      simp at hv h
      subst h
      simp [hj, usersPot]; omega
    · rename_i hv
      simp at hv
      have huj : u.j = j := by simpa using List.find?_some h
      have : ¬ (v.j = u'.j) := by omega
      have := ih h
      simp [*, usersPot]; omega

/-! ### every task step lowers the measure -/

theorem loopHandle_dec (s : St) (e : Ev) (hu : P04.UidOk s.devs) (hl : s.loop = .polling) :
    termMeasure (loopHandle s e) < termMeasure s + evW s.devs.length := by
  have hK := nodeW_eq s.devs.length
  have hE := evW_eq s.devs.length
  cases e with
  | dcmd d ts =>
    simp only [loopHandle]
    split
    · rename_i x hx
      have hf := findUid_of_mem hu.nodup (P04.findReg_some hx).1
      have := devsPot_setDev (x' := { x with mq := x.mq ++ [ts] }) hf rfl
      simp only [devPot, List.length_append, List.length_cons, List.length_nil] at this
      simp only [termMeasure, hl, loopRank, setDev_length]
      omega
    · simp only [termMeasure, hl, loopRank]; omega
  | _ =>
    simp only [loopHandle, newOneshot]
    (try split) <;> simp [termMeasure, hl, loopRank, Nat.mul_add, *] <;> omega

theorem stepLoop_dec {s : St} {r : St × List Obs} (hu : P04.UidOk s.devs) (h : r ∈ stepLoop s) :
    termMeasure r.1 < termMeasure s := by
  have hK := nodeW_eq s.devs.length
  have hE := evW_eq s.devs.length
  unfold stepLoop at h
  split at h
  case h_3 hl =>
    -- polling
    simp only [List.mem_append] at h
    rcases h with h | h
    · split at h
      · simp at h; subst h
        simp [termMeasure, hl, loopRank] <;> omega
      · simp at h
    · split at h
      · rename_i e rest hin
        simp at h; subst h
        have := loopHandle_dec { s with inbox := rest } e hu hl
        simp only [termMeasure, hin, List.length_cons, Nat.mul_add, Nat.mul_one] at this ⊢
        omega
      · simp at h
  all_goals rename_i hl
  all_goals (try simp only [newOneshot] at h)
  all_goals repeat' split at h
  all_goals (try simp at h)
  all_goals (try (rcases h with h | h))
  all_goals (try subst h)
  all_goals (simp [termMeasure, hl, loopRank, Nat.mul_add, *] <;> omega)

theorem stepLoopTimeout_dec {s : St} {r : St × List Obs} (h : r ∈ stepLoopTimeout s) :
    termMeasure r.1 < termMeasure s := by
  have hK := nodeW_eq s.devs.length
  have hE := evW_eq s.devs.length
  unfold stepLoopTimeout at h
  simp only [newOneshot] at h
  repeat' split at h
  all_goals (try simp at h)
  all_goals (try subst h)
  all_goals (simp [termMeasure, loopRank, Nat.mul_add, *] <;> omega)

theorem stepNode_dec {s : St} {dec : Dec} {r : St × List Obs} (h : r ∈ stepNode s dec) :
    termMeasure r.1 < termMeasure s := by
  have hK := nodeW_eq s.devs.length
  have hp1 := devsPot_pushAll_le .death s.devs
  have hp2 := fun bt => devsPot_pushAll_le (.birth bt s.epoch) s.devs
  unfold stepNode at h
  split at h
  all_goals rename_i hn
  all_goals (try simp only [nodeBirthStart, handOver, callRes] at h)
  all_goals repeat' split at h
  all_goals (try simp at h)
  all_goals (try subst h)
  all_goals (try (simp [termMeasure, hn, nodeRank, Nat.mul_add, *] <;> omega))
  all_goals (have := hp2 ‹BT›; simp [termMeasure, hn, nodeRank, Nat.mul_add, *] <;> omega)

theorem termMeasure_setDev {s : St} {u : Nat} {x x' : Dev} (h : findUid u s.devs = some x) (hu : x'.uid = u) :
    termMeasure { s with devs := setDev x' s.devs } + devPot x = termMeasure s + devPot x' := by
  have := devsPot_setDev h hu
  simp only [termMeasure, setDev_length]
  omega

/-- the device found by `findUid` gets a new `flag` and program location; sequence number and
call log may change as well -/
theorem termMeasure_setPc (s : St) (x : Dev) (hf : findUid x.uid s.devs = some x) (hpc : x.pc = .idle)
    (fl : Bool) (P : DevPc) (sq : Nat) (cl : List Call) :
    termMeasure { s with seq := sq, calls := cl, devs := setDev { x with flag := fl, pc := P } s.devs } =
      termMeasure s + devRank P := by
  have := termMeasure_setDev (s := s) (x' := { x with flag := fl, pc := P }) hf rfl
  simp only [termMeasure, devPot, devRank, hpc] at this ⊢
  omega

theorem devBirth_dec (s : St) (x : Dev) (bt : BT) (req : Option Nat) (dec : Dec)
    (hf : findUid x.uid s.devs = some x) (hpc : x.pc = .idle) :
    termMeasure (devBirth s x bt req dec).1 ≤ termMeasure s + 2 := by
  unfold devBirth
  split
  · simp
  split
  · simp
  split
  · simp
  · rename_i s1 n hq
    obtain ⟨rfl, _, _⟩ := nextSeqIn_ok hq
    simp only [handOver]
    split
    · exact Nat.le_trans (Nat.le_of_eq (termMeasure_setPc s x hf hpc false _ _ _)) (by simp [devRank])
    · exact Nat.le_trans (Nat.le_of_eq (termMeasure_setPc s x hf hpc false _ _ _)) (by simp [devRank])

theorem devDeath_dec (s : St) (x : Dev) (a b : Bool) (dec : Dec)
    (hf : findUid x.uid s.devs = some x) (hpc : x.pc = .idle) :
    termMeasure (devDeath s x a b dec).1 ≤ termMeasure s + 1 := by
  have hfin : devRank (if b = true then DevPc.done else DevPc.idle) = 0 := by cases b <;> rfl
  have key : ∀ (fl : Bool) (P : DevPc) (sq : Nat) (cl : List Call), devRank P ≤ 1 →
      termMeasure { s with seq := sq, calls := cl, devs := setDev { x with flag := fl, pc := P } s.devs } ≤
        termMeasure s + 1 := by
    intro fl P sq cl hP
    rw [termMeasure_setPc s x hf hpc]; omega
  unfold devDeath
  simp only
  split
  · exact key x.flag _ s.seq s.calls (by omega)
  split
  · exact key false _ s.seq s.calls (by omega)
  split
  · exact key false _ s.seq s.calls (by omega)
  · rename_i s1 n hq
    obtain ⟨rfl, _, _⟩ := nextSeqIn_ok hq
    simp only [handOver]
    split
    · exact key false _ _ _ (by omega)
    · exact key false _ _ _ (by simp [devRank])

/-- the device task takes an item off one of its queues -/
theorem dev_take {s : St} {u : Nat} {x x1 : Dev} (hx : findUid u s.devs = some x) (hu1 : x1.uid = u)
    (hpot : devPot x1 + 3 ≤ devPot x) :
    findUid x1.uid { s with devs := setDev x1 s.devs }.devs = some x1 ∧
      termMeasure { s with devs := setDev x1 s.devs } + 3 ≤ termMeasure s := by
  refine ⟨by rw [hu1]; exact P04.findUid_setDev hx hu1, ?_⟩
  have := termMeasure_setDev (x' := x1) hx hu1
  omega

theorem stepDev_dec {s : St} {u : Nat} {dec : Dec} {r : St × List Obs} (h : r ∈ stepDev s u dec) :
    termMeasure r.1 < termMeasure s := by
  unfold stepDev at h
  split at h
  · simp at h
  rename_i x hx
  have hxu : x.uid = u := (P04.findUid_some hx).2
  simp only at h
  split at h
  case h_1 hpc =>
    split at h
    · rename_i m rest hn
      obtain ⟨h1, h2⟩ := dev_take (x1 := { x with nsq := rest }) hx hxu (by simp [devPot, hn]; omega)
      cases m <;> simp only [List.mem_singleton] at h <;> subst h
      · have := devBirth_dec _ _ ‹BT› (some ‹Nat›) dec h1 hpc; omega
      · have := devDeath_dec _ _ false false dec h1 hpc; omega
      · have := devDeath_dec _ _ true true dec h1 hpc; omega
    · split at h
      · rename_i q rest hh
        cases q <;> simp only [List.mem_singleton] at h <;> subst h
        · obtain ⟨h1, h2⟩ := dev_take (x1 := { x with hq := rest, enabled := true }) hx hxu (by simp [devPot, hh]; omega)
          have := devBirth_dec _ _ .birth none dec h1 hpc; omega
        · obtain ⟨h1, h2⟩ := dev_take (x1 := { x with hq := rest, enabled := false }) hx hxu (by simp [devPot, hh]; omega)
          have := devDeath_dec _ _ true false dec h1 hpc; omega
        · obtain ⟨h1, h2⟩ := dev_take (x1 := { x with hq := rest }) hx hxu (by simp [devPot, hh]; omega)
          have := devBirth_dec _ _ .rebirth none dec h1 hpc; omega
      · split at h
        · rename_i ts rest hm
          split at h
          all_goals simp only [List.mem_singleton] at h
          all_goals subst h
          · have := termMeasure_setDev (s := s) (x' := { x with mq := rest }) hx hxu
            simp [devPot, hm] at this ⊢; omega
          · have := termMeasure_setDev (s := s) (x' := { x with mq := rest, pc := .inCb }) hx hxu
            simp [devPot, hm, hpc, devRank] at this ⊢; omega
        · simp at h
  case h_2 id ep hpc =>
    split at h
    · simp only [List.mem_singleton] at h; subst h
      have := termMeasure_setDev (s := s) (x' := { x with pc := .birthDone ‹Bool› ep }) hx hxu
      simp [devPot, hpc, devRank] at this ⊢; omega
    · simp at h
  case h_3 ok ep hpc =>
    simp only [List.mem_singleton] at h; subst h
    cases ok
    · have := termMeasure_setDev (s := s) (x' := { x with pc := .idle }) hx hxu
      simp [devPot, hpc, devRank] at this ⊢; omega
    · have := termMeasure_setDev (s := s) (x' := { x with flag := true, epoch := ep, pc := .idle }) hx hxu
      simp [devPot, hpc, devRank] at this ⊢; omega
  case h_4 cid td hpc =>
    split at h
    · simp only [List.mem_singleton] at h; subst h
      have := termMeasure_setDev (s := s) (x' := { x with pc := if td then .done else .idle }) hx hxu
      cases td <;> simp [devPot, hpc, devRank] at this ⊢ <;> omega
    · simp at h
  case h_5 hpc =>
    split at h
    · simp at h
    · simp only [List.mem_singleton] at h; subst h
      have := termMeasure_setDev (s := s) (x' := { x with pc := .idle }) hx hxu
      simp [devPot, hpc, devRank] at this ⊢; omega
  case h_6 hpc => simp at h

theorem termMeasure_setUCall {s : St} {j : Nat} {u u' : UCall} (h : s.ucalls.find? (·.j == j) = some u)
    (hj : u'.j = u.j) (sq : Nat) (cl : List Call) (st sp : Bool) :
    termMeasure { s with seq := sq, calls := cl, stopping := st, stop := sp, ucalls := setUCall u' s.ucalls } + uRank u.pc =
      termMeasure s + uRank u'.pc := by
  have := usersPot_setUCall h hj
  simp only [termMeasure]
  omega

theorem stepUser_dec {s : St} {j : Nat} {dec : Dec} {r : St × List Obs} (h : r ∈ stepUser s j dec) :
    termMeasure r.1 < termMeasure s := by
  simp only [stepUser, handOver, callRes] at h
  split at h
  · simp at h
  rename_i u hu
  have key : ∀ (P : UPc) (sq : Nat) (cl : List Call) (st sp : Bool), uRank P < uRank u.pc →
      termMeasure { s with seq := sq, calls := cl, stopping := st, stop := sp,
                           ucalls := setUCall { u with pc := P } s.ucalls } < termMeasure s := by
    intro P sq cl st sp hP
    have := termMeasure_setUCall (u' := { u with pc := P }) hu rfl sq cl st sp
    simp only at this
    omega
  repeat' split at h
  all_goals (try (first | (obtain ⟨rfl, _, _⟩ := gate_ok (t := .node) ‹_›) | (obtain ⟨rfl, _, _⟩ := gate_ok (t := .dev _) ‹_›)))
  all_goals (try simp at h)
  all_goals (try subst h)
  all_goals (exact key _ _ _ _ _ (by simp [uRank, *]))

theorem step_dec {s : St} {t : Task} {dec : Dec} {r : St × List Obs} (hu : P04.UidOk s.devs)
    (h : r ∈ step s t dec) : termMeasure r.1 < termMeasure s := by
  cases t <;> simp only [step] at h
  · exact stepLoop_dec hu h
  · exact stepLoopTimeout_dec h
  · exact stepNode_dec h
  · exact stepDev_dec h
  · exact stepUser_dec h

theorem advance_measure (s : St) (ms : Nat) : termMeasure (applyStim s (.advance ms)).1 = termMeasure s := rfl

/-! ### device uids stay the list positions -/

theorem uidOk_init (cd : Nat) : P04.UidOk (init cd).devs := by simp [P04.UidOk, init]

theorem uidOk_runAct {s s' : St} {a : Act} {o : List Obs} (h : runAct s a = some (s', o))
    (hu : P04.UidOk s.devs) : P04.UidOk s'.devs := by
  rcases P04.runAct_eff h with hs | hn | ⟨u, dec, x, x', -, -, hd, -⟩ | ⟨-, hd, -⟩
  · rcases hs with hq | ⟨-, -, -, d', hd⟩ | ⟨-, hd, -⟩
    · exact hq.2.2.1.uidOk hu
    · rw [hd]; exact hu.append _ rfl
    · rw [hd]; exact hu
  · rcases hn with ⟨-, -, -, -, hd, -⟩ | ⟨-, -, -, -, -, hd, -⟩ | ⟨-, -, -, -, -, hd, -⟩ | ⟨-, -, -, -, hd, -⟩ |
      ⟨-, -, -, -, -, hq, -⟩
    · rw [hd]; exact hu
    · rw [hd]; exact hu
    · rw [hd]; exact hu.pushAll _
    · rw [hd]; exact hu
    · exact hq.uidOk hu
  · rw [hd]; exact hu.setDev _
  · rw [hd]; exact hu

theorem uidOk_runActs {acts : List Act} {s s' : St} {tr : List Obs} (hu : P04.UidOk s.devs)
    (h : runActs s acts = some (s', tr)) : P04.UidOk s'.devs :=
  (runActs_trace (fun _ => True) trivial (fun _ _ _ _ => trivial) (fun s => P04.UidOk s.devs)
    (fun _ _ _ _ hu h => ⟨trivial, uidOk_runAct h hu⟩) acts _ _ _ hu h).2

theorem uidOk_reach {cd : Nat} {acts : List Act} {s : St} {tr : List Obs}
    (h : runActs (init cd) acts = some (s, tr)) : P04.UidOk s.devs := uidOk_runActs (uidOk_init cd) h

end Term

/-! ### schedules -/

/-- what happens in a shutdown run without new work arriving: the scheduler runs a task (the
client may answer a hand-over as it likes — accept, reject, park — except that it does not park
a hand-over of the **node task**, i.e. a SUB or an NBIRTH), time passes, or the client answers a
call it had parked earlier. No event from the MQTT event loop, no new API call, no callback gate
closed. -/
def Act.isSched : Act → Bool
  | .task .node dec _ => dec != .park
  | .task _ _ _ => true
  | .stim (.advance _) => true
  | .stim (.resolve _ _) => true
  | .stim _ => false

/-- the same, client decisions unrestricted (any hand-over may be parked) -/
def Act.isInternal : Act → Bool
  | .task _ _ _ => true
  | .stim (.advance _) => true
  | .stim (.resolve _ _) => true
  | .stim _ => false

/-- number of task steps in a schedule (time advances and late client answers do not count) -/
def taskCount : List Act → Nat
  | [] => 0
  | .task _ _ _ :: t => taskCount t + 1
  | .stim _ :: t => taskCount t

namespace Term

theorem isInternal_of_isSched {a : Act} (h : a.isSched = true) : a.isInternal = true := by
  cases a with
  | task t dec k => rfl
  | stim x => cases x <;> simp_all [Act.isSched, Act.isInternal]

/-- a late answer of the client to a parked call: nothing the measure or the run loop looks at
changes, and an answered call stays answered -/
theorem resolve_frame (s : St) (id : Nat) (ok : Bool) :
    termMeasure (applyStim s (.resolve id ok)).1 = termMeasure s ∧
    (applyStim s (.resolve id ok)).1.loop = s.loop ∧ (applyStim s (.resolve id ok)).1.stop = s.stop ∧
    (applyStim s (.resolve id ok)).1.node = s.node ∧ (applyStim s (.resolve id ok)).1.nodeCbPark = s.nodeCbPark ∧
    ∀ i, (callRes s i).isSome = true → (callRes (applyStim s (.resolve id ok)).1 i).isSome = true := by
  simp only [applyStim]
  split
  · rename_i c hc
    split
    · refine ⟨rfl, rfl, rfl, rfl, rfl, fun i hi => ?_⟩
      simp only [callRes, List.getElem?_set] at hi ⊢
      split
      · split <;> simp_all
      · exact hi
    · exact ⟨rfl, rfl, rfl, rfl, rfl, fun _ h => h⟩
  · exact ⟨rfl, rfl, rfl, rfl, rfl, fun _ h => h⟩

/-- the stimuli a schedule may contain -/
theorem stim_internal {s s' : St} {x : Stim} {o : List Obs} (ha : (Act.stim x).isInternal = true)
    (h : runAct s (.stim x) = some (s', o)) :
    termMeasure s' = termMeasure s ∧ s'.loop = s.loop ∧ s'.stop = s.stop ∧ s'.node = s.node ∧
    s'.nodeCbPark = s.nodeCbPark ∧ ∀ i, (callRes s i).isSome = true → (callRes s' i).isSome = true := by
  simp only [runAct, Option.some.injEq] at h
  cases x <;> simp [Act.isInternal] at ha
  · have := resolve_frame s ‹Nat› ‹Bool›
    rw [h] at this; exact this
  · simp only [applyStim, Prod.mk.injEq] at h
    obtain ⟨rfl, -⟩ := h
    exact ⟨rfl, rfl, rfl, rfl, rfl, fun _ h => h⟩

theorem runAct_dec {s s' : St} {a : Act} {o : List Obs} (hu : P04.UidOk s.devs) (ha : a.isInternal = true)
    (h : runAct s a = some (s', o)) : taskCount [a] + termMeasure s' ≤ termMeasure s := by
  cases a with
  | task t dec k =>
    have := step_dec hu (mem_of_getElem? (r := (s', o)) h)
    simp only [taskCount] at this ⊢; omega
  | stim x =>
    have := (stim_internal ha h).1
    simp only [taskCount] at this ⊢; omega

theorem taskCount_cons (a : Act) (l : List Act) : taskCount (a :: l) = taskCount [a] + taskCount l := by
  cases a <;> simp [taskCount]; omega

/-- **the bound**: a run of internal actions takes at most `termMeasure s` task steps -/
theorem runActs_bound : ∀ (sched : List Act) (s s' : St) (tr : List Obs), P04.UidOk s.devs →
    (∀ a ∈ sched, a.isInternal = true) → runActs s sched = some (s', tr) →
    taskCount sched + termMeasure s' ≤ termMeasure s := by
  intro sched
  induction sched with
  | nil =>
    intro s s' tr _ _ h
    simp [runActs] at h
    simp [taskCount, h.1]
  | cons a as ih =>
    intro s s' tr hu hall h
    simp only [runActs] at h
    split at h
    · simp at h
    · rename_i s1 o1 h1
      split at h
      · simp at h
      · rename_i s2 o2 h2
        simp at h
        obtain ⟨rfl, rfl⟩ := h
        have ha := runAct_dec hu (hall a (by simp)) h1
        have := ih s1 s2 o2 (uidOk_runAct h1 hu) (fun b hb => hall b (by simp [hb])) h2
        rw [taskCount_cons]; omega

end Term

/-! ### shutdown runs -/

/-- the stop has been signalled: `run` has started and either the stop message is still in its
channel or the loop has left its main loop -/
def Stopping (s : St) : Prop := s.loop ≠ .start ∧ (s.stop = true ∨ stopPhase s.loop = true)

/-- the node task is not held up by its environment: it is not inside an `on_ncmd` callback that
never returns, and the client call it waits for (SUB, NBIRTH), if any, has been answered -/
def NodeFree (s : St) : Prop :=
  s.nodeCbPark = false ∧ ∀ id, nodeWait s.node = some id → (callRes s id).isSome = true

/-- nothing left to run: no task step is enabled (whatever the client would answer) and the
shutdown timer, if armed, has expired -/
def Quiescent (s : St) : Prop :=
  (∀ (t : Task) (dec : Dec) (k : Nat), dec ≠ Dec.park → (step s t dec)[k]? = none) ∧ (∀ dl, s.stopDeadline = some dl → dl ≤ s.wall)

namespace Term

/-! #### frames: what the steps leave alone -/

theorem stepLoop_frame {s : St} {r : St × List Obs} (h : r ∈ stepLoop s) :
    r.1.node = s.node ∧ r.1.calls = s.calls ∧ r.1.nodeCbPark = s.nodeCbPark := by
  unfold stepLoop at h
  simp only [loopHandle, newOneshot] at h
  repeat' split at h
  all_goals (try simp at h)
  all_goals (try (rcases h with h | h))
  all_goals (try subst h)
  all_goals (first | exact ⟨rfl, rfl, rfl⟩ | skip)

theorem stepLoopTimeout_frame {s : St} {r : St × List Obs} (h : r ∈ stepLoopTimeout s) :
    r.1.node = s.node ∧ r.1.calls = s.calls ∧ r.1.nodeCbPark = s.nodeCbPark ∧ stopPhase r.1.loop = true ∧
      r.1.loop ≠ .start := by
  unfold stepLoopTimeout at h
  simp only [newOneshot] at h
  repeat' split at h
  all_goals (try simp at h)
  all_goals (try subst h)
  all_goals (first | exact ⟨rfl, rfl, rfl, rfl, by simp⟩ | skip)

theorem stepLoop_stopping {s : St} {r : St × List Obs} (hs : Stopping s) (h : r ∈ stepLoop s) : Stopping r.1 := by
  obtain ⟨h1, h2⟩ := hs
  unfold stepLoop at h
  simp only [loopHandle, newOneshot] at h
  repeat' split at h
  all_goals (try simp at h)
  all_goals (try (rcases h with h | h))
  all_goals (try subst h)
  all_goals (simp_all [Stopping])

theorem stepNode_frame {s : St} {dec : Dec} {r : St × List Obs} (h : r ∈ stepNode s dec) :
    r.1.loop = s.loop ∧ r.1.stop = s.stop ∧ r.1.nodeCbPark = s.nodeCbPark := by
  simp only [stepNode, nodeBirthStart, handOver, callRes] at h
  repeat' split at h
  all_goals (try simp at h)
  all_goals (try subst h)
  all_goals (first | exact ⟨rfl, rfl, rfl⟩ | skip)

theorem devBirth_cb (s : St) (x : Dev) (bt : BT) (req : Option Nat) (dec : Dec) :
    (devBirth s x bt req dec).1.nodeCbPark = s.nodeCbPark ∧ ∃ cs, (devBirth s x bt req dec).1.calls = s.calls ++ cs := by
  unfold devBirth
  split
  · exact ⟨rfl, [], (List.append_nil _).symm⟩
  split
  · exact ⟨rfl, [], (List.append_nil _).symm⟩
  split
  · exact ⟨rfl, [], (List.append_nil _).symm⟩
  · rename_i s1 n hq
    obtain ⟨rfl, _, _⟩ := nextSeqIn_ok hq
    simp only [handOver]
    split <;> exact ⟨rfl, [_], rfl⟩

theorem devDeath_cb (s : St) (x : Dev) (a b : Bool) (dec : Dec) :
    (devDeath s x a b dec).1.nodeCbPark = s.nodeCbPark ∧ ∃ cs, (devDeath s x a b dec).1.calls = s.calls ++ cs := by
  unfold devDeath
  simp only
  split
  · exact ⟨rfl, [], (List.append_nil _).symm⟩
  split
  · exact ⟨rfl, [], (List.append_nil _).symm⟩
  split
  · exact ⟨rfl, [], (List.append_nil _).symm⟩
  · rename_i s1 n hq
    obtain ⟨rfl, _, _⟩ := nextSeqIn_ok hq
    simp only [handOver]
    split <;> exact ⟨rfl, [_], rfl⟩

theorem stepDev_cb {s : St} {u : Nat} {dec : Dec} {r : St × List Obs} (h : r ∈ stepDev s u dec) :
    r.1.nodeCbPark = s.nodeCbPark ∧ ∃ cs, r.1.calls = s.calls ++ cs := by
  simp only [stepDev] at h
  repeat' split at h
  all_goals (try simp at h)
  all_goals (try subst h)
  all_goals (first | exact devBirth_cb .. | exact devDeath_cb .. | exact ⟨rfl, [], (List.append_nil _).symm⟩)

theorem stepUser_cb {s : St} {j : Nat} {dec : Dec} {r : St × List Obs} (h : r ∈ stepUser s j dec) :
    r.1.nodeCbPark = s.nodeCbPark ∧ (s.stop = true → r.1.stop = true) ∧ ∃ cs, r.1.calls = s.calls ++ cs := by
  simp only [stepUser, handOver, callRes] at h
  repeat' split at h
  all_goals (try (first | (obtain ⟨rfl, _, _⟩ := gate_ok (t := .node) ‹_›) | (obtain ⟨rfl, _, _⟩ := gate_ok (t := .dev _) ‹_›)))
  all_goals (try simp at h)
  all_goals (try subst h)
  all_goals (first | exact ⟨rfl, id, [], (List.append_nil _).symm⟩ | exact ⟨rfl, id, [_], rfl⟩ | exact ⟨rfl, fun _ => rfl, [], (List.append_nil _).symm⟩ | skip)

/-! #### the invariants of a shutdown run -/

theorem Stopping_runAct {s s' : St} {a : Act} {o : List Obs} (hs : Stopping s) (ha : a.isInternal = true)
    (h : runAct s a = some (s', o)) : Stopping s' := by
  cases a with
  | stim x =>
    obtain ⟨-, h1, h2, -⟩ := stim_internal ha h
    simp only [Stopping] at hs ⊢; rw [h1, h2]; exact hs
  | task t dec k =>
    have hm := mem_of_getElem? (r := (s', o)) h
    cases t <;> simp only [step] at hm
    · exact stepLoop_stopping hs hm
    · obtain ⟨-, -, -, h4, h5⟩ := stepLoopTimeout_frame hm
      exact ⟨h5, .inr h4⟩
    · obtain ⟨h1, h2, -⟩ := stepNode_frame hm
      simp only [Stopping] at hs ⊢; rw [h1, h2]; exact hs
    · obtain ⟨h1, h2, -⟩ := stepDev_core hm
      simp only [Stopping] at hs ⊢; rw [core_loop h1, h2]; exact hs
    · obtain ⟨h1, -⟩ := stepUser_core hm
      obtain ⟨-, h2, -⟩ := stepUser_cb hm
      simp only [Stopping] at hs ⊢; rw [core_loop h1]
      exact ⟨hs.1, hs.2.imp h2 id⟩

theorem NodeFree_ext {s s' : St} (hi : Inv s) (hf : NodeFree s) (hn : s'.node = s.node) (hcb : s'.nodeCbPark = s.nodeCbPark)
    (hc : ∃ cs, s'.calls = s.calls ++ cs) : NodeFree s' := by
  obtain ⟨cs, hc⟩ := hc
  refine ⟨by rw [hcb]; exact hf.1, ?_⟩
  intro id hid
  rw [hn] at hid
  rw [P04.callRes_append hc (hi.wait_lt id hid)]
  exact hf.2 id hid

theorem stepNode_nowait {s : St} {dec : Dec} {r : St × List Obs} (hd : dec ≠ .park)
    (h : r ∈ stepNode s dec) : nodeWait r.1.node = none := by
  cases dec
  case park => exact absurd rfl hd
  all_goals
    simp only [stepNode, nodeBirthStart, handOver, callRes] at h
    repeat' split at h
    all_goals (try simp at h)
    all_goals (try subst h)
    all_goals (simp_all)

theorem stepNode_free {s : St} {dec : Dec} {r : St × List Obs} (hd : dec ≠ .park) (hf : NodeFree s)
    (h : r ∈ stepNode s dec) : NodeFree r.1 := by
  refine ⟨by rw [(stepNode_frame h).2.2]; exact hf.1, fun id hid => ?_⟩
  rw [stepNode_nowait hd h] at hid
  simp at hid

theorem NodeFree_runAct {s s' : St} {a : Act} {o : List Obs} (hi : Inv s) (hf : NodeFree s) (ha : a.isSched = true)
    (h : runAct s a = some (s', o)) : NodeFree s' := by
  cases a with
  | stim x =>
    obtain ⟨-, -, -, h1, h2, h3⟩ := stim_internal (isInternal_of_isSched ha) h
    refine ⟨by rw [h2]; exact hf.1, fun id hid => h3 id (hf.2 id (by rw [← h1]; exact hid))⟩
  | task t dec k =>
    have hm := mem_of_getElem? (r := (s', o)) h
    cases t <;> simp only [step] at hm
    · obtain ⟨h1, h2, h3⟩ := stepLoop_frame hm
      exact NodeFree_ext hi hf h1 h3 ⟨[], by simpa using h2⟩
    · obtain ⟨h1, h2, h3, -⟩ := stepLoopTimeout_frame hm
      exact NodeFree_ext hi hf h1 h3 ⟨[], by simpa using h2⟩
    · exact stepNode_free (by simpa [Act.isSched] using ha) hf hm
    · obtain ⟨h1, -⟩ := stepDev_core hm
      obtain ⟨h2, h3⟩ := stepDev_cb hm
      exact NodeFree_ext hi hf (congrArg Core.node h1) h2 h3
    · obtain ⟨h1, -⟩ := stepUser_core hm
      obtain ⟨h2, -, h3⟩ := stepUser_cb hm
      exact NodeFree_ext hi hf (congrArg Core.node h1) h2 h3

/-- everything a shutdown run keeps invariant -/
structure Good (s : St) : Prop where
  inv : Inv s
  uid : P04.UidOk s.devs
  stopping : Stopping s
  free : NodeFree s

theorem Good_runAct {s s' : St} {a : Act} {o : List Obs} (hg : Good s) (ha : a.isSched = true)
    (h : runAct s a = some (s', o)) : Good s' :=
  ⟨Inv_runAct hg.inv h, uidOk_runAct h hg.uid, Stopping_runAct hg.stopping (isInternal_of_isSched ha) h,
    NodeFree_runAct hg.inv hg.free ha h⟩

theorem Good_runActs : ∀ (sched : List Act) (s s' : St) (tr : List Obs), Good s →
    (∀ a ∈ sched, a.isSched = true) → runActs s sched = some (s', tr) → Good s' := by
  intro sched
  induction sched with
  | nil => intro s s' tr hg _ h; simp [runActs] at h; rw [← h.1]; exact hg
  | cons a as ih =>
    intro s s' tr hg hall h
    simp only [runActs] at h
    split at h
    · simp at h
    · rename_i s1 o1 h1
      split at h
      · simp at h
      · rename_i s2 o2 h2
        simp at h
        obtain ⟨rfl, rfl⟩ := h
        exact ih s1 s2 o2 (Good_runAct hg (hall a (by simp)) h1) (fun b hb => hall b (by simp [hb])) h2

theorem Good_reach {cd : Nat} {acts : List Act} {s : St} {tr : List Obs}
    (h : runActs (init cd) acts = some (s, tr)) (hs : Stopping s) (hf : NodeFree s) : Good s :=
  ⟨Inv_reach h, uidOk_reach h, hs, hf⟩

/-- the hypotheses of `C20_termination_partial` imply `NodeFree` -/
theorem NodeFree_of_resolved {s : St} (hi : Inv s) (hnopark : ∀ c ∈ s.calls, c.res.isSome = true)
    (hcb : s.nodeCbPark = false) : NodeFree s := by
  refine ⟨hcb, fun id hid => ?_⟩
  obtain ⟨ok, hok⟩ := callRes_some hnopark (hi.wait_lt id hid)
  simp [hok]

/-! #### progress -/

theorem ne_nil_enabled {α : Type} {l : List α} (h : l ≠ []) : l[0]? ≠ none := by
  cases l <;> simp_all

/-- a queued `client_state` message is taken by the node task, or the node task has another step
to take first -/
theorem node_enabled {s : St} (hi : Inv s) (hf : NodeFree s) (hcs : s.cs.isSome = true) (hnd : s.loop ≠ .done) :
    stepNode s .acc ≠ [] := by
  have hw : ∀ id, nodeWait s.node = some id → ∃ ok, callRes s id = some ok :=
    fun id hid => Option.isSome_iff_exists.1 (hf.2 id hid)
  cases hn : s.node with
  | idle =>
    cases hc : s.cs with
    | none => simp [hc] at hcs
    | some m =>
      cases m <;> simp only [stepNode, hn, hc, handOver, callRes]
      · repeat' split
        all_goals simp
      · split <;> simp
      · simp
  | waitSub id =>
    obtain ⟨ok, hok⟩ := hw id (by simp [hn])
    simp [stepNode, hn, hok]
  | subDone ok => simp only [stepNode, hn]; split <;> simp
  | birthStart bt f => simp [stepNode, hn]
  | waitNb id bt f =>
    obtain ⟨ok, hok⟩ := hw id (by simp [hn])
    simp [stepNode, hn, hok]
  | nbDone ok bt f => simp [stepNode, hn]
  | inCb rb =>
    simp only [stepNode, hn, hf.1]
    repeat' split
    all_goals simp_all
  | done => exact absurd (hi.ndone hn) hnd

/-- **Progress**: in a shutdown run whose loop has not returned, some task can step — or
`poll_until_offline` is blocked in `poll()` with nothing to return and the 1 s timer has not
expired yet, in which case the timeout task can step once the clock reaches the deadline -/
theorem progress {s : St} (hg : Good s) (hnd : s.loop ≠ .done) :
    (∃ (t : Task) (dec : Dec) (k : Nat), dec ≠ Dec.park ∧ (step s t dec)[k]? ≠ none) ∨
    (∃ dl, s.stopDeadline = some dl ∧ s.wall < dl ∧ s.loop = .stopPolling ∧ s.inbox = [] ∧
      (step (applyStim s (.advance (dl - s.wall))).1 .loopTimeout .acc)[0]? ≠ none) := by
  obtain ⟨hi, -, hs, hf⟩ := hg
  have loopE : stepLoop s ≠ [] → ∃ (t : Task) (dec : Dec) (k : Nat), dec ≠ Dec.park ∧ (step s t dec)[k]? ≠ none :=
    fun h => ⟨.loop, .acc, 0, by decide, ne_nil_enabled h⟩
  have nodeE : s.cs.isSome = true → ∃ (t : Task) (dec : Dec) (k : Nat), dec ≠ Dec.park ∧ (step s t dec)[k]? ≠ none :=
    fun h => ⟨.node, .acc, 0, by decide, ne_nil_enabled (node_enabled hi hf h hnd)⟩
  have csE : (s.cs = none → stepLoop s ≠ []) →
      ∃ (t : Task) (dec : Dec) (k : Nat), dec ≠ Dec.park ∧ (step s t dec)[k]? ≠ none := by
    intro hl
    cases hc : s.cs with
    | none => exact loopE (hl hc)
    | some m => exact nodeE (by simp [hc])
  have willE : ∀ o, willAw s.loop = some o →
      ((∃ r, reply? s o = some r) → stepLoop s ≠ []) →
      ∃ (t : Task) (dec : Dec) (k : Nat), dec ≠ Dec.park ∧ (step s t dec)[k]? ≠ none := by
    intro o ho hl
    rcases will_cases hi ho with hr | hc
    · exact loopE (hl hr)
    · exact nodeE hc
  cases hl : s.loop with
  | start => exact absurd hl hs.1
  | sel => exact .inl (loopE (by simp [stepLoop, hl]))
  | polling =>
    have : s.stop = true := by simpa [hl] using hs.2
    exact .inl (loopE (by simp [stepLoop, hl, this]))
  | sendCs m => exact .inl (csE (fun hc => by simp [stepLoop, hl, hc]))
  | awaitWill o =>
    refine .inl (willE o (by simp [hl]) ?_)
    rintro ⟨r, hr⟩
    cases r <;> simp [stepLoop, hl, hr]
  | stopCheck => exact .inl (loopE (by simp only [stepLoop, hl]; split <;> simp))
  | stopPolling =>
    cases hin : s.inbox with
    | cons e rest =>
      refine .inl (loopE ?_)
      simp only [stepLoop, hl, hin, newOneshot]
      repeat' split
      all_goals simp_all
    | nil =>
      obtain ⟨dl, hdl⟩ := Option.isSome_iff_exists.1 (hi.dl_some (by simp [hl]))
      by_cases hle : dl ≤ s.wall
      · refine .inl ⟨.loopTimeout, .acc, 0, by decide, ne_nil_enabled ?_⟩
        cases hc : s.cs <;> simp [step, stepLoopTimeout, hdl, hle, hl, newOneshot, hc]
      · refine .inr ⟨dl, hdl, by omega, rfl, rfl, ne_nil_enabled ?_⟩
        have : dl ≤ s.wall + (dl - s.wall) := by omega
        cases hc : s.cs <;> simp [step, stepLoopTimeout, applyStim, hdl, this, hl, newOneshot, hc]
  | stopSendCs o => exact .inl (csE (fun hc => by simp [stepLoop, hl, hc]))
  | stopAwaitWill o =>
    refine .inl (willE o (by simp [hl]) ?_)
    rintro ⟨r, hr⟩
    cases r <;> simp [stepLoop, hl, hr]
  | forceSendCs o => exact .inl (csE (fun hc => by simp [stepLoop, hl, hc]))
  | forceAwaitWill o =>
    refine .inl (willE o (by simp [hl]) ?_)
    rintro ⟨r, hr⟩
    cases r <;> simp [stepLoop, hl, hr]
  | sendStopped => exact .inl (csE (fun hc => by simp [stepLoop, hl, hc]))
  | done => exact absurd hl hnd

/-- a run that has nothing left to do has returned from `run` -/
theorem quiescent_done {s : St} (hg : Good s) (hq : Quiescent s) : s.loop = .done := by
  apply Classical.byContradiction
  intro hnd
  rcases progress hg hnd with ⟨t, dec, k, hd, he⟩ | ⟨dl, hdl, hlt, -⟩
  · exact he (hq.1 t dec k hd)
  · have := hq.2 dl hdl; omega

/-- one more piece of schedule that lowers the measure -/
theorem progress_step {s : St} (hg : Good s) (hnd : s.loop ≠ .done) :
    ∃ pre s1 o1, (∀ a ∈ pre, Act.isSched a = true) ∧ runActs s pre = some (s1, o1) ∧ Good s1 ∧
      termMeasure s1 < termMeasure s := by
  rcases progress hg hnd with ⟨t, dec, k, hd, he⟩ | ⟨dl, -, -, -, -, he⟩
  · obtain ⟨⟨s1, o1⟩, h1⟩ := Option.ne_none_iff_exists'.1 he
    have hs : Act.isSched (.task t dec k) = true := by cases t <;> simp [Act.isSched, hd]
    refine ⟨[.task t dec k], s1, o1, by simpa using hs, by simp [runActs, runAct, h1], Good_runAct hg hs (by simpa [runAct] using h1), ?_⟩
    exact step_dec hg.uid (mem_of_getElem? (r := (s1, o1)) h1)
  · obtain ⟨⟨s1, o1⟩, h1⟩ := Option.ne_none_iff_exists'.1 he
    have hg0 : Good (applyStim s (.advance (dl - s.wall))).1 :=
      Good_runAct (a := .stim (.advance (dl - s.wall))) hg rfl rfl
    have hs : Act.isSched (.task .loopTimeout .acc 0) = true := rfl
    refine ⟨[.stim (.advance (dl - s.wall)), .task .loopTimeout .acc 0], s1, o1, ?_, ?_,
      Good_runAct hg0 hs (by simpa [runAct] using h1), ?_⟩
    · intro a ha
      simp at ha
      rcases ha with rfl | rfl <;> rfl
    · simp only [applyStim] at h1
      simp [runActs, runAct, applyStim, h1]
    · have := step_dec hg0.uid (mem_of_getElem? (r := (s1, o1)) h1)
      rwa [advance_measure] at this

/-- every shutdown run can be completed: some schedule brings the loop to `done` -/
theorem extend_to_done (n : Nat) : ∀ s : St, termMeasure s ≤ n → Good s →
    ∃ sched s' tr', (∀ a ∈ sched, Act.isSched a = true) ∧ runActs s sched = some (s', tr') ∧ s'.loop = .done := by
  induction n with
  | zero =>
    intro s hm hg
    by_cases hd : s.loop = .done
    · exact ⟨[], s, [], by simp, rfl, hd⟩
    · obtain ⟨_, _, _, _, _, _, hlt⟩ := progress_step hg hd
      omega
  | succ n ih =>
    intro s hm hg
    by_cases hd : s.loop = .done
    · exact ⟨[], s, [], by simp, rfl, hd⟩
    · obtain ⟨pre, s1, o1, hpre, hr, hg1, hlt⟩ := progress_step hg hd
      obtain ⟨sched, s2, tr2, hall, hrun, hd2⟩ := ih s1 (by omega) hg1
      refine ⟨pre ++ sched, s2, o1 ++ tr2, ?_, runActs_append _ _ _ _ _ _ _ hr hrun, hd2⟩
      intro b hb
      rcases List.mem_append.1 hb with hb | hb
      · exact hpre b hb
      · exact hall b hb

end Term
end Srad.Eon
