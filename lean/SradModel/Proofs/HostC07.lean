/-
Helper lemmas for `Props/C07.lean`: which handlers can emit the rebirth NCMD, which state fields
they keep, and how `Reseq.process` behaves under the invariant.
-/
import SradModel.Model.HostSpec
import SradModel.Proofs.Reseq

namespace Srad.Host.C07P
/-! ### fields that only `issueRebirth` / `setStale` / `handleBirth` touch -/

/-- `s'` has the same `lastRebirth`, `birthTs`, `life`, `bdseq` as `s` -/
def Kept (s s' : St) : Prop :=
  s'.lastRebirth = s.lastRebirth ∧ s'.birthTs = s.birthTs ∧ s'.life = s.life ∧ s'.bdseq = s.bdseq

theorem Kept.refl (s : St) : Kept s s := ⟨rfl, rfl, rfl, rfl⟩

theorem Kept.trans {a b d : St} (h1 : Kept a b) (h2 : Kept b d) : Kept a d := by
  obtain ⟨h11, h12, h13, h14⟩ := h1
  obtain ⟨h21, h22, h23, h24⟩ := h2
  exact ⟨h21.trans h11, h22.trans h12, h23.trans h13, h24.trans h14⟩

/-- "exactly when `P`, at most once, and then last" -/
def NcmdSpec (e : List Eff) (P : Prop) : Prop :=
  (Eff.ncmd ∈ e ↔ P) ∧ e.count Eff.ncmd ≤ 1 ∧ (Eff.ncmd ∈ e → e.getLast? = some Eff.ncmd)

theorem NcmdSpec.of_not_mem {e : List Eff} {P : Prop} (h : Eff.ncmd ∉ e) (hP : ¬ P) :
    NcmdSpec e P := by
  refine ⟨⟨fun h' => absurd h' h, fun h' => absurd h' hP⟩, ?_, fun h' => absurd h' h⟩
  rw [List.count_eq_zero_of_not_mem h]; omega

theorem NcmdSpec.prepend {pre e : List Eff} {P : Prop} (hp : Eff.ncmd ∉ pre) (h : NcmdSpec e P) :
    NcmdSpec (pre ++ e) P := by
  obtain ⟨h1, h2, h3⟩ := h
  refine ⟨?_, ?_, ?_⟩
  · rw [List.mem_append, ← h1]
    exact ⟨fun h => h.resolve_left hp, Or.inr⟩
  · rw [List.count_append, List.count_eq_zero_of_not_mem hp]; omega
  · intro hm
    have hm' : Eff.ncmd ∈ e := (List.mem_append.mp hm).resolve_left hp
    rw [List.getLast?_append, h3 hm']; rfl

theorem NcmdSpec.congr {e : List Eff} {P Q : Prop} (h : NcmdSpec e P) (hpq : P ↔ Q) :
    NcmdSpec e Q := ⟨h.1.trans hpq, h.2⟩

/-! ### cancelTimer -/

theorem cancelTimer_kept (s : St) : Kept s (cancelTimer s).1 := by
  unfold cancelTimer Kept; split <;> simp

theorem cancelTimer_ncmd (s : St) : Eff.ncmd ∉ (cancelTimer s).2 := by
  unfold cancelTimer; split <;> simp

theorem cancelTimer_nodeStale (s : St) : Eff.nodeStale ∉ (cancelTimer s).2 := by
  unfold cancelTimer; split <;> simp

/-! ### setStale -/

theorem setStale_eq (s : St) (t : Nat) : setStale s t =
    if s.life = .stale then (s, [])
    else if t < s.birthTs then (s, [])
    else
      ({ (cancelTimer { s with reseq := Reseq.init }).1 with
          life := .stale, staleTs := t,
          devices := (cancelTimer { s with reseq := Reseq.init }).1.devices.map fun d => (d.1, .stale) },
       (cancelTimer { s with reseq := Reseq.init }).2 ++ [.nodeStale] ++
         (cancelTimer { s with reseq := Reseq.init }).1.devices.map fun d => .devStale d.1) := rfl

theorem setStale_ncmd (s : St) (t : Nat) : Eff.ncmd ∉ (setStale s t).2 := by
  rw [setStale_eq]
  split
  · simp
  · split
    · simp
    · simp [cancelTimer_ncmd]

theorem setStale_fields (s : St) (t : Nat) :
    (setStale s t).1.lastRebirth = s.lastRebirth ∧ (setStale s t).1.birthTs = s.birthTs ∧
    (setStale s t).1.bdseq = s.bdseq := by
  have hk := cancelTimer_kept { s with reseq := Reseq.init }
  rw [setStale_eq]
  split
  · simp
  · split
    · simp
    · exact ⟨hk.1, hk.2.1, hk.2.2.2⟩

theorem setStale_of_stale (s : St) (t : Nat) (h : s.life = .stale) : setStale s t = (s, []) := by
  rw [setStale_eq, if_pos h]

theorem setStale_life (s : St) (t : Nat) (ht : s.birthTs ≤ t) :
    (setStale s t).1.life = .stale ∧ (s.life = .birthed → Eff.nodeStale ∈ (setStale s t).2) := by
  rw [setStale_eq]
  split
  · rename_i h; simp [h]
  · rw [if_neg (by omega)]
    simp

/-! ### issueRebirth -/

theorem issueRebirth_eq (c : Cfg) (s : St) (r : Reason) (now wall : Nat) :
    issueRebirth c s r now wall =
    if !c.enabled r then (s, [])
    else if wall - s.lastRebirth < c.cooldown then (s, [])
    else ((setStale { s with lastRebirth := wall } now).1,
          (setStale { s with lastRebirth := wall } now).2 ++ [.ncmd]) := rfl

theorem issueRebirth_spec (c : Cfg) (s : St) (r : Reason) (now wall : Nat) :
    NcmdSpec (issueRebirth c s r now wall).2 (c.enabled r = true ∧ c.cooldown ≤ wall - s.lastRebirth) := by
  rw [issueRebirth_eq]
  split
  · rename_i h
    exact NcmdSpec.of_not_mem (by simp) (by simp at h; simp [h])
  · rename_i h
    simp only [Bool.not_eq_true', Bool.not_eq_false] at h
    split
    · rename_i h2
      exact NcmdSpec.of_not_mem (by simp) (by omega)
    · rename_i h2
      refine NcmdSpec.prepend (setStale_ncmd _ _) ?_
      refine ⟨by simp [h]; omega, by simp, by simp⟩

theorem issueRebirth_stale (c : Cfg) (s : St) (r : Reason) (now wall : Nat) (ht : s.birthTs ≤ now)
    (h : Eff.ncmd ∈ (issueRebirth c s r now wall).2) :
    (issueRebirth c s r now wall).1.life = .stale ∧
    (s.life = .birthed → Eff.nodeStale ∈ (issueRebirth c s r now wall).2) := by
  rw [issueRebirth_eq] at h ⊢
  split
  · rename_i h1; rw [if_pos h1] at h; simp at h
  · rename_i h1
    rw [if_neg h1] at h
    split
    · rename_i h2; rw [if_pos h2] at h; simp at h
    · have := setStale_life { s with lastRebirth := wall } now ht
      refine ⟨this.1, fun hb => ?_⟩
      exact List.mem_append_left _ (this.2 hb)

/-! ### apply / drainBuf / handleRMsg -/

theorem apply_kept (s : St) (m : RMsg) : Kept s (apply s m).1 := by
  unfold apply Kept
  cases m with
  | ndata id ans => simp
  | dbirth d id ans => simp only; split <;> simp
  | ddeath d id => simp only; split <;> simp
  | ddata d id ans => simp only; split <;> simp

theorem apply_ncmd (s : St) (m : RMsg) : Eff.ncmd ∉ (apply s m).2.1 := by
  unfold apply
  cases m with
  | ndata id ans => simp
  | dbirth d id ans =>
    simp only
    split <;> (split <;> simp)
  | ddeath d id => simp only; split <;> simp
  | ddata d id ans => simp only; split <;> simp

theorem startTimer_kept (c : Cfg) (s : St) (now : Nat) : Kept s (startTimer c s now).1 := by
  unfold startTimer Kept; split <;> simp

theorem startTimer_ncmd (c : Cfg) (s : St) (now : Nat) : Eff.ncmd ∉ (startTimer c s now).2 := by
  unfold startTimer; split <;> simp

theorem kept_reseq (s : St) (r : Reseq.St (Nat × RMsg)) : Kept s { s with reseq := r } :=
  ⟨rfl, rfl, rfl, rfl⟩

theorem drainBuf_succ (c : Cfg) (now fuel : Nat) (released : Bool) (s : St) (acc : List Eff) :
    drainBuf c now (fuel + 1) released s acc =
    match Reseq.drain s.reseq with
    | (r', .msg m) =>
      match apply { s with reseq := r' } m.2 with
      | (s1, e1, none) => drainBuf c now fuel true s1 (acc ++ e1)
      | (s1, e1, some r) => (s1, acc ++ e1, some r)
    | (r', .empty) =>
      ((cancelTimer { s with reseq := r' }).1, acc ++ (cancelTimer { s with reseq := r' }).2, none)
    | (r', .missing) =>
      if released then
        ((startTimer c (cancelTimer { s with reseq := r' }).1 now).1,
          acc ++ (cancelTimer { s with reseq := r' }).2 ++
            (startTimer c (cancelTimer { s with reseq := r' }).1 now).2, none)
      else ({ s with reseq := r' }, acc, none)
    | (r', .panic) => ({ s with reseq := r' }, acc, none) := rfl

theorem drainBuf_kept (c : Cfg) (now : Nat) (fuel : Nat) : ∀ (released : Bool) (s : St) (acc : List Eff),
    Kept s (drainBuf c now fuel released s acc).1 ∧
    (Eff.ncmd ∈ (drainBuf c now fuel released s acc).2.1 → Eff.ncmd ∈ acc) := by
  induction fuel with
  | zero => intro released s acc; simp [drainBuf, Kept.refl]
  | succ fuel ih =>
    intro released s acc
    rw [drainBuf_succ]
    split
    · rename_i r' m hd
      have hk := apply_kept { s with reseq := r' } m.2
      have hn := apply_ncmd { s with reseq := r' } m.2
      split
      · rename_i s1 e1 ha
        rw [ha] at hk hn
        obtain ⟨ih1, ih2⟩ := ih true s1 (acc ++ e1)
        refine ⟨((kept_reseq s r').trans hk).trans ih1, fun h => ?_⟩
        exact (List.mem_append.mp (ih2 h)).resolve_right hn
      · rename_i s1 e1 r ha
        rw [ha] at hk hn
        refine ⟨(kept_reseq s r').trans hk, fun h => ?_⟩
        exact (List.mem_append.mp h).resolve_right hn
    · rename_i r' hd
      refine ⟨(kept_reseq s r').trans (cancelTimer_kept _), fun h => ?_⟩
      exact (List.mem_append.mp h).resolve_right (cancelTimer_ncmd _)
    · rename_i r' hd
      split
      · refine ⟨((kept_reseq s r').trans (cancelTimer_kept _)).trans (startTimer_kept _ _ _), fun h => ?_⟩
        rcases List.mem_append.mp h with h | h
        · exact (List.mem_append.mp h).resolve_right (cancelTimer_ncmd _)
        · exact absurd h (startTimer_ncmd _ _ _)
      · exact ⟨kept_reseq s r', fun h => h⟩
    · rename_i r' hd
      exact ⟨kept_reseq s r', fun h => h⟩

theorem handleRMsg_eq (c : Cfg) (s : St) (seq ts : Nat) (m : RMsg) (now : Nat) :
    handleRMsg c s seq ts m now =
    if ts < s.birthTs ∨ ts < s.staleTs then (s, [], none)
    else if s.life ≠ .birthed then (s, [], some .recordedStateStale)
    else if !c.resequence then apply s m
    else
      match Reseq.process s.reseq seq (seq, m) with
      | (r', .inserted) =>
        match s.timer with
        | .none => ((startTimer c { s with reseq := r' } now).1, (startTimer c { s with reseq := r' } now).2, none)
        | _ => ({ s with reseq := r' }, [], none)
      | (r', .dup) => ({ s with reseq := r' }, [], some .reorderFail)
      | (r', .next m') =>
        match apply { s with reseq := r' } m'.2 with
        | (s1, e1, some r) => (s1, e1, some r)
        | (s1, e1, none) => drainBuf c now (s1.reseq.buf.length + 1) false s1 e1 := rfl

theorem handleRMsg_kept (c : Cfg) (s : St) (seq ts : Nat) (m : RMsg) (now : Nat) :
    Kept s (handleRMsg c s seq ts m now).1 ∧ Eff.ncmd ∉ (handleRMsg c s seq ts m now).2.1 := by
  rw [handleRMsg_eq]
  split
  · simp [Kept.refl]
  split
  · simp [Kept.refl]
  split
  · exact ⟨apply_kept s m, apply_ncmd s m⟩
  split
  · rename_i r' hp
    split
    · exact ⟨(kept_reseq s r').trans (startTimer_kept _ _ _), startTimer_ncmd _ _ _⟩
    · exact ⟨kept_reseq s r', by simp⟩
  · rename_i r' hp
    exact ⟨kept_reseq s r', by simp⟩
  · rename_i r' m' hp
    have hk := apply_kept { s with reseq := r' } m'.2
    have hn := apply_ncmd { s with reseq := r' } m'.2
    split
    · rename_i s1 e1 r ha
      rw [ha] at hk hn
      exact ⟨(kept_reseq s r').trans hk, hn⟩
    · rename_i s1 e1 ha
      rw [ha] at hk hn
      obtain ⟨h1, h2⟩ := drainBuf_kept c now (s1.reseq.buf.length + 1) false s1 e1
      exact ⟨((kept_reseq s r').trans hk).trans h1, fun h => hn (h2 h)⟩

/-! ### step, case by case -/

theorem handleBirth_eq (c : Cfg) (s : St) (ts bdseq id : Nat) (ans : Ans) (now wall : Nat) :
    handleBirth c s ts bdseq id ans now wall =
    if ts ≤ s.birthTs then (s, [])
    else
      if ans ≠ .ok then
        ((issueRebirth c s .invalidPayload now wall).1,
          [.nodeBirth id false] ++ (issueRebirth c s .invalidPayload now wall).2)
      else
        ({ (cancelTimer s).1 with birthTs := ts, life := .birthed, bdseq := bdseq, reseq := Reseq.setNext Reseq.init 1, devices := (cancelTimer s).1.devices.map fun d => (d.1, Life.stale) },
          [Eff.nodeBirth id true] ++
            (cancelTimer s).2 ++
            ((cancelTimer s).1.devices.filter fun d => d.2 == Life.birthed).map fun d => Eff.devStale d.1) := rfl

theorem step_ndeath_eq (c : Cfg) (s : St) (bd now wall : Nat) :
    step c s (.ndeath bd) now wall =
    if bd ≠ (setStale (cancelTimer s).1 now).1.bdseq then
      ((issueRebirth c (setStale (cancelTimer s).1 now).1 .outOfSyncBdSeq now wall).1,
        (cancelTimer s).2 ++ (setStale (cancelTimer s).1 now).2 ++
          (issueRebirth c (setStale (cancelTimer s).1 now).1 .outOfSyncBdSeq now wall).2)
    else ((setStale (cancelTimer s).1 now).1, (cancelTimer s).2 ++ (setStale (cancelTimer s).1 now).2) := rfl

theorem step_rmsg_eq (c : Cfg) (s : St) (seq ts : Nat) (m : RMsg) (now wall : Nat) :
    step c s (.rmsg seq ts m) now wall =
    match (handleRMsg c s seq ts m now).2.2 with
    | none => ((handleRMsg c s seq ts m now).1, (handleRMsg c s seq ts m now).2.1)
    | some r =>
      ((issueRebirth c (handleRMsg c s seq ts m now).1 r now wall).1,
        (handleRMsg c s seq ts m now).2.1 ++
          (issueRebirth c (handleRMsg c s seq ts m now).1 r now wall).2) := by
  simp only [step]
  split <;> rename_i h <;> simp [h]

theorem ndeath_bdseq (s : St) (now : Nat) : (setStale (cancelTimer s).1 now).1.bdseq = s.bdseq := by
  rw [(setStale_fields _ _).2.2, (cancelTimer_kept s).2.2.2]

theorem ndeath_lastRebirth (s : St) (now : Nat) :
    (setStale (cancelTimer s).1 now).1.lastRebirth = s.lastRebirth := by
  rw [(setStale_fields _ _).1, (cancelTimer_kept s).1]

theorem step_spec (c : Cfg) (s : St) (i : In) (now wall : Nat) :
    NcmdSpec (step c s i now wall).2
      (∃ r, raised c s i now = some r ∧ c.enabled r = true ∧ CooldownOk c s wall) := by
  cases i with
  | nbirth ts bd id ans =>
    simp only [step, raised, handleBirth_eq]
    split
    · exact NcmdSpec.of_not_mem (by simp) (by simp)
    · split
      · refine NcmdSpec.prepend (by simp) ?_
        exact (issueRebirth_spec c s .invalidPayload now wall).congr (by simp [CooldownOk])
      · refine NcmdSpec.of_not_mem ?_ (by simp)
        have := cancelTimer_ncmd s
        simp [this]
  | ndeath bd =>
    rw [step_ndeath_eq]
    simp only [raised, ndeath_bdseq]
    split
    · refine NcmdSpec.prepend ?_ ?_
      · simp [cancelTimer_ncmd, setStale_ncmd]
      · refine (issueRebirth_spec c _ .outOfSyncBdSeq now wall).congr ?_
        rw [ndeath_lastRebirth]
        simp [CooldownOk]
    · exact NcmdSpec.of_not_mem (by simp [cancelTimer_ncmd, setStale_ncmd]) (by simp)
  | rmsg seq ts m =>
    rw [step_rmsg_eq]
    simp only [raised]
    obtain ⟨hk, hn⟩ := handleRMsg_kept c s seq ts m now
    split
    · rename_i h
      exact NcmdSpec.of_not_mem hn (by simp [h])
    · rename_i r h
      refine NcmdSpec.prepend hn ?_
      refine (issueRebirth_spec c _ r now wall).congr ?_
      rw [hk.1, h]
      simp [CooldownOk]
  | offline =>
    simp only [step, raised]
    exact NcmdSpec.of_not_mem (setStale_ncmd _ _) (by simp)
  | rebirthReq r =>
    simp only [step, raised]
    exact (issueRebirth_spec c s r now wall).congr (by simp [CooldownOk])
  | timerFire =>
    simp only [step, raised]
    cases ht : s.timer with
    | armed dl =>
      exact (issueRebirth_spec c _ .reorderTimeout now wall).congr (by simp [CooldownOk])
    | none => exact NcmdSpec.of_not_mem (by simp) (by simp)
    | fired => exact NcmdSpec.of_not_mem (by simp) (by simp)

theorem step_stale (c : Cfg) (s : St) (i : In) (now wall : Nat) (hclock : s.birthTs ≤ now)
    (h : Eff.ncmd ∈ (step c s i now wall).2) :
    (step c s i now wall).1.life = .stale ∧
    (s.life = .birthed → Eff.nodeStale ∈ (step c s i now wall).2) := by
  cases i with
  | nbirth ts bd id ans =>
    simp only [step, handleBirth_eq] at h ⊢
    split
    · rename_i h1; rw [if_pos h1] at h; simp at h
    · rename_i h1
      rw [if_neg h1] at h
      split
      · rename_i h2
        rw [if_pos h2] at h
        have h' : Eff.ncmd ∈ (issueRebirth c s .invalidPayload now wall).2 := by simpa using h
        have := issueRebirth_stale c s _ now wall hclock h'
        exact ⟨this.1, fun hb => List.mem_append_right _ (this.2 hb)⟩
      · rename_i h2
        rw [if_neg h2] at h
        have := cancelTimer_ncmd s
        exfalso
        simp [this] at h
  | ndeath bd =>
    rw [step_ndeath_eq] at h ⊢
    have hbt : (cancelTimer s).1.birthTs ≤ now := by rw [(cancelTimer_kept s).2.1]; exact hclock
    have hst := setStale_life (cancelTimer s).1 now hbt
    rw [(cancelTimer_kept s).2.2.1] at hst
    split
    · rename_i h1
      rw [if_pos h1] at h
      have h' : Eff.ncmd ∈ (issueRebirth c (setStale (cancelTimer s).1 now).1 .outOfSyncBdSeq now wall).2 := by
        simpa [cancelTimer_ncmd, setStale_ncmd] using h
      have hbt2 : (setStale (cancelTimer s).1 now).1.birthTs ≤ now := by
        rw [(setStale_fields _ _).2.1]; exact hbt
      have := issueRebirth_stale c _ _ now wall hbt2 h'
      refine ⟨this.1, fun hb => ?_⟩
      exact List.mem_append_left _ (List.mem_append_right _ (hst.2 hb))
    · rename_i h1
      rw [if_neg h1] at h
      simp [cancelTimer_ncmd, setStale_ncmd] at h
  | rmsg seq ts m =>
    rw [step_rmsg_eq] at h ⊢
    obtain ⟨hk, hn⟩ := handleRMsg_kept c s seq ts m now
    split
    · rename_i h1
      rw [h1] at h
      exact absurd h hn
    · rename_i r h1
      rw [h1] at h
      have h' := (List.mem_append.mp h).resolve_left hn
      have := issueRebirth_stale c _ r now wall (by rw [hk.2.1]; exact hclock) h'
      rw [hk.2.2.1] at this
      exact ⟨this.1, fun hb => List.mem_append_right _ (this.2 hb)⟩
  | offline =>
    simp only [step] at h
    exact absurd h (setStale_ncmd _ _)
  | rebirthReq r =>
    simp only [step] at h ⊢
    exact issueRebirth_stale c s r now wall hclock h
  | timerFire =>
    simp only [step] at h ⊢
    split
    · rename_i dl h1
      rw [h1] at h
      exact issueRebirth_stale c { s with timer := .fired } _ now wall hclock h
    · rename_i h1
      split at h
      · rename_i dl h2; exact absurd h2 (h1 dl)
      · simp at h

/-! ### `Reseq.process` under the invariant -/

theorem wsub_inj (a b off : Nat) (ha : a < 256) (hb : b < 256) (h : Reseq.wsub a off = Reseq.wsub b off) :
    a = b := by
  unfold Reseq.wsub at h; omega

theorem hasKey_buf_iff {α : Type} (r : Reseq.St (Nat × α)) (off seq : Nat) (hinv : Reseq.Inv r)
    (hm : r.mode = .reseq off) (hseq : seq < 256) :
    Reseq.hasKey (Reseq.wsub seq off) r.buf = true ↔ ∃ x ∈ r.buf, x.2.1 = seq := by
  obtain ⟨_, hi⟩ := hinv
  rw [hm] at hi
  obtain ⟨_, _, _, hall⟩ := hi
  rw [Reseq.hasKey_iff]
  constructor
  · rintro ⟨x, hx, hk⟩
    refine ⟨x, hx, ?_⟩
    obtain ⟨h1, h2⟩ := hall x hx
    rw [h2] at hk
    exact wsub_inj _ _ _ h1 hseq hk
  · rintro ⟨x, hx, hk⟩
    refine ⟨x, hx, ?_⟩
    rw [(hall x hx).2, hk]

theorem process_dup {α : Type} (r : Reseq.St (Nat × α)) (seq : Nat) (m : Nat × α) (hinv : Reseq.Inv r)
    (hseq : seq < 256) (hdup : ∃ x ∈ r.buf, x.2.1 = seq) :
    Reseq.process r seq m = (r, .dup) := by
  cases hm : r.mode with
  | good =>
    have := hinv.2
    rw [hm] at this
    simp only at this
    obtain ⟨x, hx, _⟩ := hdup
    rw [this] at hx
    simp at hx
  | reseq off =>
    have hk := (hasKey_buf_iff r off seq hinv hm hseq).mpr hdup
    simp [Reseq.process, hm, hk]

theorem process_next {α : Type} (r : Reseq.St (Nat × α)) (seq : Nat) (m : Nat × α) (hinv : Reseq.Inv r)
    (hseq : seq < 256) (hn : seq = r.next) (hnew : ∀ x ∈ r.buf, x.2.1 ≠ seq) :
    Reseq.process r seq m = ({ r with next := Reseq.wadd r.next 1 }, .next m) := by
  cases hm : r.mode with
  | good => subst hn; simp [Reseq.process, hm]
  | reseq off =>
    have hk : Reseq.hasKey (Reseq.wsub seq off) r.buf = false := by
      rw [← Bool.not_eq_true, hasKey_buf_iff r off seq hinv hm hseq]
      rintro ⟨x, hx, hk⟩
      exact hnew x hx hk
    subst hn
    simp [Reseq.process, hm, hk]

theorem process_inserted {α : Type} (r : Reseq.St (Nat × α)) (seq : Nat) (m : Nat × α)
    (hinv : Reseq.Inv r) (hseq : seq < 256) (hn : seq ≠ r.next) (hnew : ∀ x ∈ r.buf, x.2.1 ≠ seq) :
    ∃ r', Reseq.process r seq m = (r', .inserted) := by
  have hne : ¬ r.next = seq := fun h => hn h.symm
  cases hm : r.mode with
  | good =>
    have := hinv.2
    rw [hm] at this
    simp only at this
    simp [Reseq.process, hm, hne, this, Reseq.hasKey]
  | reseq off =>
    have hk : Reseq.hasKey (Reseq.wsub seq off) r.buf = false := by
      rw [← Bool.not_eq_true, hasKey_buf_iff r off seq hinv hm hseq]
      rintro ⟨x, hx, hk⟩
      exact hnew x hx hk
    simp [Reseq.process, hm, hne, hk]

theorem drain_nil {α : Type} (r : Reseq.St α) (h : r.buf = []) : Reseq.drain r = (r, .empty) := by
  unfold Reseq.drain
  split <;> simp [h]

theorem drainBuf_nil (c : Cfg) (now fuel : Nat) (released : Bool) (s : St) (acc : List Eff)
    (h : s.reseq.buf = []) : (drainBuf c now (fuel + 1) released s acc).2.2 = none := by
  rw [drainBuf_succ, drain_nil _ h]

/-! ### what `handleRMsg` raises -/

theorem handleRMsg_pass (c : Cfg) (s : St) (seq ts : Nat) (m : RMsg) (now : Nat)
    (hfresh : Fresh s ts) (hb : s.life = .birthed) :
    handleRMsg c s seq ts m now =
    if !c.resequence then apply s m
    else
      match Reseq.process s.reseq seq (seq, m) with
      | (r', .inserted) =>
        match s.timer with
        | .none => ((startTimer c { s with reseq := r' } now).1, (startTimer c { s with reseq := r' } now).2, none)
        | _ => ({ s with reseq := r' }, [], none)
      | (r', .dup) => ({ s with reseq := r' }, [], some .reorderFail)
      | (r', .next m') =>
        match apply { s with reseq := r' } m'.2 with
        | (s1, e1, some r) => (s1, e1, some r)
        | (s1, e1, none) => drainBuf c now (s1.reseq.buf.length + 1) false s1 e1 := by
  obtain ⟨h1, h2⟩ := hfresh
  rw [handleRMsg_eq, if_neg (by omega), if_neg (by simp [hb])]

theorem raised_stale (c : Cfg) (s : St) (seq ts : Nat) (m : RMsg) (now : Nat)
    (hfresh : Fresh s ts) (hst : s.life = .stale) :
    raised c s (.rmsg seq ts m) now = some .recordedStateStale := by
  obtain ⟨h1, h2⟩ := hfresh
  simp only [raised]
  rw [handleRMsg_eq, if_neg (by omega), if_pos (by simp [hst])]

theorem raised_dup (c : Cfg) (s : St) (seq ts : Nat) (m : RMsg) (now : Nat)
    (hinv : HostInv s) (hseq : seq < 256) (hfresh : Fresh s ts) (hb : s.life = .birthed)
    (hres : c.resequence = true) (hdup : ∃ x ∈ s.reseq.buf, x.2.1 = seq) :
    raised c s (.rmsg seq ts m) now = some .reorderFail := by
  simp only [raised]
  rw [handleRMsg_pass c s seq ts m now hfresh hb, process_dup _ _ _ hinv.1 hseq hdup]
  simp [hres]

theorem handleRMsg_inserted (c : Cfg) (s : St) (seq ts : Nat) (m : RMsg) (now : Nat)
    (hinv : HostInv s) (hseq : seq < 256) (hfresh : Fresh s ts) (hb : s.life = .birthed)
    (hres : c.resequence = true) (hgap : seq ≠ s.reseq.next)
    (hnew : ∀ x ∈ s.reseq.buf, x.2.1 ≠ seq) :
    ∃ r', handleRMsg c s seq ts m now =
      match s.timer with
      | .none => ((startTimer c { s with reseq := r' } now).1, (startTimer c { s with reseq := r' } now).2, none)
      | _ => ({ s with reseq := r' }, [], none) := by
  obtain ⟨r', hr⟩ := process_inserted s.reseq seq (seq, m) hinv.1 hseq hgap hnew
  refine ⟨r', ?_⟩
  rw [handleRMsg_pass c s seq ts m now hfresh hb, hr]
  simp [hres]

theorem raised_inserted (c : Cfg) (s : St) (seq ts : Nat) (m : RMsg) (now : Nat)
    (hinv : HostInv s) (hseq : seq < 256) (hfresh : Fresh s ts) (hb : s.life = .birthed)
    (hres : c.resequence = true) (hgap : seq ≠ s.reseq.next)
    (hnew : ∀ x ∈ s.reseq.buf, x.2.1 ≠ seq) :
    raised c s (.rmsg seq ts m) now = none := by
  obtain ⟨r', hr⟩ := handleRMsg_inserted c s seq ts m now hinv hseq hfresh hb hres hgap hnew
  simp only [raised]
  rw [hr]
  split <;> rfl

theorem gap_arms_timer (c : Cfg) (s : St) (seq ts : Nat) (m : RMsg) (now wall d : Nat)
    (hinv : HostInv s) (hseq : seq < 256) (hfresh : Fresh s ts) (hb : s.life = .birthed)
    (hres : c.resequence = true) (hto : c.reorderTimeout = some d) (hgap : seq ≠ s.reseq.next)
    (hnew : ∀ x ∈ s.reseq.buf, x.2.1 ≠ seq) (hidle : s.timer = .none) :
    (step c s (.rmsg seq ts m) now wall).1.timer = .armed (now + d) ∧
    (step c s (.rmsg seq ts m) now wall).2 = [Eff.timerStart] := by
  obtain ⟨r', hr⟩ := handleRMsg_inserted c s seq ts m now hinv hseq hfresh hb hres hgap hnew
  rw [hidle] at hr
  simp only at hr
  rw [step_rmsg_eq, hr]
  simp [startTimer, hto]

/-- an in-sequence message is applied; if applying it raises `r` (whatever the resequencer's
state), that is what the input raises -/
theorem raised_inseq_some (c : Cfg) (s : St) (seq ts : Nat) (m : RMsg) (now : Nat)
    (hinv : HostInv s) (hseq : seq < 256) (hfresh : Fresh s ts) (hb : s.life = .birthed)
    (hin : InSeq c s seq) (r : Reason)
    (hap : ∀ rs, (apply { s with reseq := rs } m).2.2 = some r) :
    raised c s (.rmsg seq ts m) now = some r := by
  simp only [raised]
  rw [handleRMsg_pass c s seq ts m now hfresh hb]
  cases hres : c.resequence with
  | false => simpa using hap s.reseq
  | true =>
    rcases hin with hin | ⟨hn, hnew⟩
    · rw [hres] at hin; cases hin
    · rw [process_next _ _ _ hinv.1 hseq hn hnew]
      simp only [Bool.not_true, Bool.false_eq_true, if_false]
      have := hap { s.reseq with next := Reseq.wadd s.reseq.next 1 }
      generalize apply { s with reseq := { s.reseq with next := Reseq.wadd s.reseq.next 1 } } m = p at this ⊢
      obtain ⟨s1, e1, o⟩ := p
      simp only at this
      subst this
      rfl

theorem raised_ndata_ok (c : Cfg) (s : St) (seq ts id : Nat) (now : Nat)
    (hinv : HostInv s) (hseq : seq < 256) (hfresh : Fresh s ts) (hb : s.life = .birthed)
    (hin : InSeq c s seq) (hbuf : s.reseq.buf = []) :
    raised c s (.rmsg seq ts (.ndata id .ok)) now = none := by
  simp only [raised]
  rw [handleRMsg_pass c s seq ts _ now hfresh hb]
  cases hres : c.resequence with
  | false => simp [apply]
  | true =>
    rcases hin with hin | ⟨hn, hnew⟩
    · rw [hres] at hin; cases hin
    · rw [process_next _ _ _ hinv.1 hseq hn hnew]
      simp only [Bool.not_true, Bool.false_eq_true, if_false, apply]
      exact drainBuf_nil _ _ _ _ _ _ hbuf

/-! ### the dispatcher -/

theorem findNode_setNode (n : Nat) (s : St) (ns : Nodes) : findNode n (setNode n s ns) = some s := by
  induction ns with
  | nil => simp [setNode, findNode]
  | cons a t ih =>
    obtain ⟨n', s'⟩ := a
    simp only [setNode]
    split
    · rename_i h; simp [findNode, h]
    · rename_i h; simp [findNode, h, ih]

theorem unknown_node (c : Cfg) (a : App) (n seq ts : Nat) (m : RMsg) (now wall : Nat)
    (hunk : findNode n a.nodes = none) (hen : c.unknownNode = true) (hcd : c.cooldown ≤ wall) :
    (appStep c a (.node n (.rmsg seq ts m)) now wall).2
      = [AppEff.nodeCreated n, AppEff.node n Eff.ncmd] ∧
    (findNode n (appStep c a (.node n (.rmsg seq ts m)) now wall).1.nodes).map (·.life) = some .stale := by
  have hstep : step c init (.rebirthReq .unknownNode) now wall = ({ init with lastRebirth := wall }, [.ncmd]) := by
    simp only [step]
    rw [issueRebirth_eq]
    have h1 : c.enabled .unknownNode = true := hen
    have h2 : ¬ (wall - init.lastRebirth < c.cooldown) := by simp [init]; omega
    rw [if_neg (by simp [h1]), if_neg h2, setStale_of_stale _ _ (by rfl)]
    rfl
  simp only [appStep, hunk, stepNode, hstep, findNode_setNode]
  simp
  rfl

end Srad.Host.C07P