import SradModel.Model.TopicSpec
import SradModel.Proofs.StateJson

/-!
Helper lemmas for C13: splitting on `/` inverts joining with `/` exactly when no piece contains
a `/`; name validation; characterisation of each outcome of the receive path.
-/
namespace Srad.Topic
open Srad.StateJson (Bytes parseCert)

/-! ### name validation -/

theorem isForbidden_iff (c : UInt8) : isForbidden c = true ↔ c = 0x2b ∨ c = 0x2f ∨ c = 0x23 := by
  simp [isForbidden, or_assoc]

theorem validateLoop_iff (s : Bytes) :
    validateLoop s = true ↔ (0x2f : UInt8) ∉ s ∧ (0x2b : UInt8) ∉ s ∧ (0x23 : UInt8) ∉ s := by
  induction s with
  | nil => simp [validateLoop]
  | cons c t ih =>
    simp only [validateLoop, List.mem_cons, not_or]
    by_cases hf : isForbidden c = true
    · have := (isForbidden_iff c).mp hf
      simp only [hf, if_true, Bool.false_eq_true, false_iff]
      rcases this with h | h | h <;> subst h <;> simp
    · have hn := fun h => hf ((isForbidden_iff c).mpr h)
      have h1 : (0x2b : UInt8) ≠ c := fun e => hn (Or.inl e.symm)
      have h2 : (0x2f : UInt8) ≠ c := fun e => hn (Or.inr (Or.inl e.symm))
      have h3 : (0x23 : UInt8) ≠ c := fun e => hn (Or.inr (Or.inr e.symm))
      simp [hf, ih, h1, h2, h3]

theorem validateName_iff (s : Bytes) : validateName s = true ↔ NameOk s := by
  unfold validateName NameOk
  cases s with
  | nil => simp
  | cons c t => simp [validateLoop_iff]

theorem NameOk.noSlash {s : Bytes} (h : NameOk s) : NoSlash s := h.2.1

/-! ### splitting and joining -/

theorem splitSlash_ne_nil (t : Bytes) : splitSlash t ≠ [] := by
  cases t with
  | nil => simp [splitSlash]
  | cons c t =>
    rw [splitSlash]
    split
    · simp
    · split <;> simp

theorem splitSlash_noSlash (a : Bytes) (h : NoSlash a) : splitSlash a = [a] := by
  induction a with
  | nil => rfl
  | cons c a ih =>
    have hc : c ≠ SLASH := fun e => h (by simp [e])
    have ha : NoSlash a := fun m => h (List.mem_cons_of_mem _ m)
    rw [splitSlash, if_neg hc, ih ha]

theorem splitSlash_append (a r : Bytes) (h : NoSlash a) :
    splitSlash (a ++ SLASH :: r) = a :: splitSlash r := by
  induction a with
  | nil => simp [splitSlash]
  | cons c a ih =>
    have hc : c ≠ SLASH := fun e => h (by simp [e])
    have ha : NoSlash a := fun m => h (List.mem_cons_of_mem _ m)
    rw [List.cons_append, splitSlash, if_neg hc, ih ha]

/-- pieces joined by `/` -/
def joinSlash : List Bytes → Bytes
  | [] => []
  | [s] => s
  | s :: s2 :: r => s ++ SLASH :: joinSlash (s2 :: r)

theorem joinSlash_cons_cons (c : UInt8) (s : Bytes) (r : List Bytes) :
    joinSlash ((c :: s) :: r) = c :: joinSlash (s :: r) := by
  cases r <;> simp [joinSlash]

theorem joinSlash_splitSlash (t : Bytes) : joinSlash (splitSlash t) = t := by
  induction t with
  | nil => rfl
  | cons c t ih =>
    rw [splitSlash]
    split
    · rename_i hc
      cases hs : splitSlash t with
      | nil => exact absurd hs (splitSlash_ne_nil t)
      | cons s r => rw [hs] at ih; simp [joinSlash, ih, hc]
    · cases hs : splitSlash t with
      | nil => exact absurd hs (splitSlash_ne_nil t)
      | cons s r => rw [hs] at ih; simp only [joinSlash_cons_cons, ih]

theorem splitSlash_mem_noSlash (t : Bytes) : ∀ s ∈ splitSlash t, NoSlash s := by
  induction t with
  | nil => intro s hs; simp [splitSlash] at hs; subst hs; simp [NoSlash]
  | cons c t ih =>
    intro s hs
    rw [splitSlash] at hs
    split at hs
    · rcases List.mem_cons.mp hs with h | h
      · subst h; simp [NoSlash]
      · exact ih s h
    · rename_i hc
      cases hsp : splitSlash t with
      | nil => exact absurd hsp (splitSlash_ne_nil t)
      | cons s0 r =>
        rw [hsp] at hs ih
        rcases List.mem_cons.mp hs with h | h
        · subst h
          have : NoSlash s0 := ih s0 (by simp)
          intro m
          rcases List.mem_cons.mp m with e | e
          · exact hc e.symm
          · exact this e
        · exact ih s (List.mem_cons_of_mem _ h)

/-- the key lemma: a topic splits into exactly these segments iff it is their `/`-join and no
segment contains a `/` -/
theorem splitSlash_eq_iff (t : Bytes) (segs : List Bytes) (hne : segs ≠ []) :
    splitSlash t = segs ↔ t = joinSlash segs ∧ ∀ s ∈ segs, NoSlash s := by
  constructor
  · intro h
    subst h
    exact ⟨(joinSlash_splitSlash t).symm, splitSlash_mem_noSlash t⟩
  · rintro ⟨rfl, hs⟩
    induction segs with
    | nil => exact absurd rfl hne
    | cons s r ih =>
      cases r with
      | nil => exact splitSlash_noSlash s (hs s (by simp))
      | cons s2 r2 =>
        show splitSlash (s ++ SLASH :: joinSlash (s2 :: r2)) = _
        rw [splitSlash_append _ _ (hs s (by simp)), ih (by simp) (fun x hx => hs x (List.mem_cons_of_mem _ hx))]

/-! ### `process_topic_message` -/

theorem kindOfRest_cases (rest : Bytes) :
    (rest = BIRTH ∧ kindOfRest rest = .birth) ∨ (rest = DEATH ∧ kindOfRest rest = .death) ∨
    (rest = DATA ∧ kindOfRest rest = .data) ∨ (rest = CMD ∧ kindOfRest rest = .cmd) ∨
    (rest ≠ BIRTH ∧ rest ≠ DEATH ∧ rest ≠ DATA ∧ rest ≠ CMD ∧ kindOfRest rest = .other rest) := by
  unfold kindOfRest
  by_cases h1 : rest = BIRTH
  · left; subst h1; exact ⟨rfl, by decide⟩
  by_cases h2 : rest = DEATH
  · right; left; subst h2; exact ⟨rfl, by decide⟩
  by_cases h3 : rest = DATA
  · right; right; left; subst h3; exact ⟨rfl, by decide⟩
  by_cases h4 : rest = CMD
  · right; right; right; left; subst h4; exact ⟨rfl, by decide⟩
  · right; right; right; right; simp [h1, h2, h3, h4]

/-- the slice index of `process_topic_message` is guarded by the length check -/
theorem processTopicMessage_ne_panic {P : Type} (valid : Bytes → Bool) (dec : Bytes → Option P)
    (mp payload : Bytes) : ∀ x, processTopicMessage valid dec mp payload = x → x ≠ .panic := by
  intro x hx hp
  subst hp
  unfold processTopicMessage at hx
  split at hx
  · cases hx
  · rename_i hlen
    cases mp with
    | nil => simp at hlen
    | cons b rest =>
      simp only [List.getElem?_cons_zero] at hx
      split at hx
      · cases hx
      · split at hx
        · cases hx
        · split at hx
          · split at hx <;> cases hx
          · cases hx

theorem ptm_cons {P : Type} (valid : Bytes → Bool) (dec : Bytes → Option P)
    (b c : UInt8) (rest payload : Bytes) :
    processTopicMessage valid dec (b :: c :: rest) payload =
      if b = 0x4e ∨ b = 0x44 then
        match dec payload with
        | none => .err .decode
        | some p =>
          let pr := if b = 0x4e then Producer.node else Producer.device
          match kindOfRest (c :: rest) with
          | .other s => if valid s then .ok pr (.other s) p else .err .utf8
          | k => .ok pr k p
      else .err .topic := by
  have hl : ¬ (rest.length + 1 + 1 < 2) := by omega
  unfold processTopicMessage
  by_cases h1 : b = 0x4e
  · subst h1; simp [hl]; rfl
  · by_cases h2 : b = 0x44
    · subst h2; simp [hl]; rfl
    · simp [h1, h2, hl]

/-- `process_topic_message` succeeds exactly on a verb segment `N<rest>` / `D<rest>` with an
acceptable rest and a decodable payload -/
theorem processTopicMessage_ok_iff {P : Type} (valid : Bytes → Bool) (dec : Bytes → Option P)
    (mp payload : Bytes) (pr : Producer) (k : Kind) (p : P) :
    processTopicMessage valid dec mp payload = .ok pr k p ↔
      ∃ b rest, mp = b :: rest ∧ ((b = 0x4e ∧ pr = .node) ∨ (b = 0x44 ∧ pr = .device)) ∧
        VerbRestOk valid rest ∧ k = kindOfRest rest ∧ dec payload = some p := by
  cases mp with
  | nil => simp [processTopicMessage]
  | cons b rest =>
    cases rest with
    | nil => simp [processTopicMessage, VerbRestOk]
    | cons c rest' =>
      rw [ptm_cons]
      have hex : (∃ b' rest, b :: c :: rest' = b' :: rest ∧ ((b' = 0x4e ∧ pr = .node) ∨ (b' = 0x44 ∧ pr = .device)) ∧
        VerbRestOk valid rest ∧ k = kindOfRest rest ∧ dec payload = some p) ↔
        (((b = 0x4e ∧ pr = .node) ∨ (b = 0x44 ∧ pr = .device)) ∧
        VerbRestOk valid (c :: rest') ∧ k = kindOfRest (c :: rest') ∧ dec payload = some p) := by
        constructor
        · rintro ⟨b', r, he, h⟩
          injection he with h1 h2
          subst h1; subst h2; exact h
        · intro h; exact ⟨b, c :: rest', rfl, h⟩
      rw [hex]
      by_cases hb : b = 0x4e ∨ b = 0x44
      · simp only [hb, if_true]
        cases hd : dec payload with
        | none => simp
        | some p' =>
          simp only [VerbRestOk]
          rcases kindOfRest_cases (c :: rest') with ⟨h, hk⟩ | ⟨h, hk⟩ | ⟨h, hk⟩ | ⟨h, hk⟩ | ⟨h1, h2, h3, h4, hk⟩
          all_goals (rw [hk])
          all_goals (rcases hb with hb | hb <;> subst hb)
          all_goals (cases pr)
          all_goals (simp_all)
          all_goals (first | done | grind [BIRTH, DEATH, DATA, CMD])
      · simp only [hb, if_false]
        have h1 : b ≠ 0x4e := fun e => hb (Or.inl e)
        have h2 : b ≠ 0x44 := fun e => hb (Or.inr e)
        simp [h1, h2]

/-! ### the receive path, outcome by outcome -/

theorem parseSegs_ne_panic {P : Type} (valid : Bytes → Bool) (dec : Bytes → Option P)
    (topic payload : Bytes) (segs : List Bytes) : parseSegs valid dec topic payload segs ≠ .panic := by
  intro h
  unfold parseSegs at h
  repeat' split at h
  all_goals (first | cases h | skip)
  all_goals (rename_i hp; exact processTopicMessage_ne_panic valid dec _ _ _ hp rfl)

theorem parseSegs_invalid_bytes {P : Type} (valid : Bytes → Bool) (dec : Bytes → Option P)
    (topic payload : Bytes) (segs : List Bytes) (r : Reason) (t p : Bytes)
    (h : parseSegs valid dec topic payload segs = .invalid r t p) : t = topic ∧ p = payload := by
  unfold parseSegs at h
  repeat' split at h
  all_goals (first | (injection h with h1 h2 h3; exact ⟨h2.symm, h3.symm⟩) | cases h)

theorem parseSegs_node_iff {P : Type} (valid : Bytes → Bool) (dec : Bytes → Option P)
    (topic payload : Bytes) (segs : List Bytes) (g n : Bytes) (k : Kind) (p : P) :
    parseSegs valid dec topic payload segs = .node g n k p ↔
      ∃ ns mp, segs = [ns, g, mp, n] ∧ g ≠ STATE ∧ valid g = true ∧ valid n = true ∧
        processTopicMessage valid dec mp payload = .ok .node k p := by
  constructor
  · intro h
    unfold parseSegs at h
    repeat' split at h
    all_goals (first | cases h | skip)
    all_goals simp_all
    exact ⟨_, _, ⟨rfl, rfl⟩, by assumption⟩
  · rintro ⟨ns, mp, rfl, hg, hvg, hvn, hp⟩
    simp [parseSegs, hg, hvg, hvn, hp]

theorem parseSegs_device_iff {P : Type} (valid : Bytes → Bool) (dec : Bytes → Option P)
    (topic payload : Bytes) (segs : List Bytes) (g n d : Bytes) (k : Kind) (p : P) :
    parseSegs valid dec topic payload segs = .device g n d k p ↔
      ∃ ns mp, segs = [ns, g, mp, n, d] ∧ g ≠ STATE ∧ valid g = true ∧ valid n = true ∧
        valid d = true ∧ processTopicMessage valid dec mp payload = .ok .device k p := by
  constructor
  · intro h
    unfold parseSegs at h
    repeat' split at h
    all_goals (first | cases h | skip)
    all_goals simp_all
    exact ⟨_, _, ⟨rfl, rfl⟩, by assumption⟩
  · rintro ⟨ns, mp, rfl, hg, hvg, hvn, hvd, hp⟩
    simp [parseSegs, hg, hvg, hvn, hvd, hp]

theorem parseSegs_state_iff {P : Type} (valid : Bytes → Bool) (dec : Bytes → Option P)
    (topic payload : Bytes) (segs : List Bytes) (h : Bytes) (o : Bool) (ts : Nat) :
    parseSegs valid dec topic payload segs = .state h o ts ↔
      ∃ ns, segs = [ns, STATE, h] ∧ valid h = true ∧
        parseCert valid payload = some (o, ts) := by
  constructor
  · intro hh
    unfold parseSegs at hh
    repeat' split at hh
    all_goals (first | cases hh | skip)
    all_goals simp_all
  · rintro ⟨ns, rfl, hv, hp⟩
    simp [parseSegs, hv, hp]
/-! ### from segments to plain concatenation -/

theorem noSlash_cons_iff (b : UInt8) (rest : Bytes) (hb : b ≠ SLASH) :
    NoSlash (b :: rest) ↔ NoSlash rest := by
  unfold NoSlash
  constructor
  · intro h m; exact h (List.mem_cons_of_mem _ m)
  · intro h m
    rcases List.mem_cons.mp m with e | e
    · exact hb e.symm
    · exact h e

theorem noSlash_STATE : NoSlash STATE := by unfold NoSlash; decide
theorem noSlash_SPBV10 : NoSlash SPBV10 := by unfold NoSlash; decide

theorem split4_iff (t ns g mp n : Bytes) :
    splitSlash t = [ns, g, mp, n] ↔
      t = ns ++ SLASH :: (g ++ SLASH :: (mp ++ SLASH :: n)) ∧
        NoSlash ns ∧ NoSlash g ∧ NoSlash mp ∧ NoSlash n := by
  rw [splitSlash_eq_iff t _ (by simp)]
  simp [joinSlash]

theorem split5_iff (t ns g mp n d : Bytes) :
    splitSlash t = [ns, g, mp, n, d] ↔
      t = ns ++ SLASH :: (g ++ SLASH :: (mp ++ SLASH :: (n ++ SLASH :: d))) ∧
        NoSlash ns ∧ NoSlash g ∧ NoSlash mp ∧ NoSlash n ∧ NoSlash d := by
  rw [splitSlash_eq_iff t _ (by simp)]
  simp [joinSlash]

theorem split_state_iff (valid : Bytes → Bool) (t h : Bytes) :
    (∃ ns, splitSlash t = [ns, STATE, h] ∧ valid h = true) ↔ IsStateTopic valid t h := by
  unfold IsStateTopic
  constructor
  · rintro ⟨ns, hs, hv⟩
    have hj := (splitSlash_eq_iff t _ (by simp)).mp hs
    exact ⟨ns, hj.2 ns (by simp), hj.2 h (by simp), hv, by simpa [joinSlash] using hj.1⟩
  · rintro ⟨ns, hns, hh, hv, ht⟩
    refine ⟨ns, ?_, hv⟩
    rw [ht, splitSlash_append _ _ hns, splitSlash_append _ _ noSlash_STATE, splitSlash_noSlash _ hh]

/-! ### the receive path in terms of the shape vocabulary -/

theorem parse_node_iff {P : Type} (valid : Bytes → Bool) (dec : Bytes → Option P)
    (topic payload g n : Bytes) (k : Kind) (p : P) :
    parse valid dec topic payload = .node g n k p ↔
      ∃ rest, IsNodeTopic valid topic g rest n ∧ k = kindOfRest rest ∧ dec payload = some p := by
  unfold parse IsNodeTopic
  rw [parseSegs_node_iff]
  constructor
  · rintro ⟨ns, mp, hs, hg, hvg, hvn, hp⟩
    obtain ⟨b, rest, rfl, hb, hvr, hk, hd⟩ := (processTopicMessage_ok_iff _ _ _ _ _ _ _).mp hp
    have hb' : b = 0x4e := by
      rcases hb with ⟨h, _⟩ | ⟨_, h⟩
      · exact h
      · cases h
    subst hb'
    obtain ⟨ht, h1, h2, h3, h4⟩ := (split4_iff _ _ _ _ _).mp hs
    exact ⟨rest, ⟨ns, ht, h1, h2, (noSlash_cons_iff _ _ (by decide)).mp h3, h4, hg, hvg, hvn, hvr⟩, hk, hd⟩
  · rintro ⟨rest, ⟨ns, ht, h1, h2, h3, h4, hg, hvg, hvn, hvr⟩, hk, hd⟩
    refine ⟨ns, 0x4e :: rest, ?_, hg, hvg, hvn, ?_⟩
    · exact (split4_iff _ _ _ _ _).mpr ⟨ht, h1, h2, (noSlash_cons_iff _ _ (by decide)).mpr h3, h4⟩
    · exact (processTopicMessage_ok_iff _ _ _ _ _ _ _).mpr ⟨_, rest, rfl, Or.inl ⟨rfl, rfl⟩, hvr, hk, hd⟩

theorem parse_device_iff {P : Type} (valid : Bytes → Bool) (dec : Bytes → Option P)
    (topic payload g n d : Bytes) (k : Kind) (p : P) :
    parse valid dec topic payload = .device g n d k p ↔
      ∃ rest, IsDeviceTopic valid topic g rest n d ∧ k = kindOfRest rest ∧ dec payload = some p := by
  unfold parse IsDeviceTopic
  rw [parseSegs_device_iff]
  constructor
  · rintro ⟨ns, mp, hs, hg, hvg, hvn, hvd, hp⟩
    obtain ⟨b, rest, rfl, hb, hvr, hk, hd⟩ := (processTopicMessage_ok_iff _ _ _ _ _ _ _).mp hp
    have hb' : b = 0x44 := by
      rcases hb with ⟨_, h⟩ | ⟨h, _⟩
      · cases h
      · exact h
    subst hb'
    obtain ⟨ht, h1, h2, h3, h4, h5⟩ := (split5_iff _ _ _ _ _ _).mp hs
    exact ⟨rest, ⟨ns, ht, h1, h2, (noSlash_cons_iff _ _ (by decide)).mp h3, h4, h5, hg, hvg, hvn, hvd, hvr⟩, hk, hd⟩
  · rintro ⟨rest, ⟨ns, ht, h1, h2, h3, h4, h5, hg, hvg, hvn, hvd, hvr⟩, hk, hd⟩
    refine ⟨ns, 0x44 :: rest, ?_, hg, hvg, hvn, hvd, ?_⟩
    · exact (split5_iff _ _ _ _ _ _).mpr ⟨ht, h1, h2, (noSlash_cons_iff _ _ (by decide)).mpr h3, h4, h5⟩
    · exact (processTopicMessage_ok_iff _ _ _ _ _ _ _).mpr ⟨_, rest, rfl, Or.inr ⟨rfl, rfl⟩, hvr, hk, hd⟩

theorem parse_state_iff {P : Type} (valid : Bytes → Bool) (dec : Bytes → Option P)
    (topic payload h : Bytes) (o : Bool) (ts : Nat) :
    parse valid dec topic payload = .state h o ts ↔
      IsStateTopic valid topic h ∧ parseCert valid payload = some (o, ts) := by
  unfold parse
  rw [parseSegs_state_iff, ← split_state_iff]
  constructor
  · rintro ⟨ns, hs, hv, hp⟩; exact ⟨⟨ns, hs, hv⟩, hp⟩
  · rintro ⟨⟨ns, hs, hv⟩, hp⟩; exact ⟨ns, hs, hv, hp⟩

/-- a topic cannot have STATE shape and node or device shape at once -/
theorem state_excludes_node (valid : Bytes → Bool) (topic h g rest n : Bytes)
    (hs : IsStateTopic valid topic h) (hn : IsNodeTopic valid topic g rest n) : False := by
  obtain ⟨ns, hsp, _⟩ := (split_state_iff valid topic h).mpr hs
  obtain ⟨ns', ht, h1, h2, h3, h4, hg, _⟩ := hn
  have := (split4_iff topic ns' g (0x4e :: rest) n).mpr ⟨ht, h1, h2, (noSlash_cons_iff _ _ (by decide)).mpr h3, h4⟩
  rw [this] at hsp
  injection hsp with _ hsp
  injection hsp with hsp _
  exact hg hsp

theorem state_excludes_device (valid : Bytes → Bool) (topic h g rest n d : Bytes)
    (hs : IsStateTopic valid topic h) (hn : IsDeviceTopic valid topic g rest n d) : False := by
  obtain ⟨ns, hsp, _⟩ := (split_state_iff valid topic h).mpr hs
  obtain ⟨ns', ht, h1, h2, h3, h4, h5, hg, _⟩ := hn
  have := (split5_iff topic ns' g (0x44 :: rest) n d).mpr ⟨ht, h1, h2, (noSlash_cons_iff _ _ (by decide)).mpr h3, h4, h5⟩
  rw [this] at hsp
  injection hsp with _ hsp
  injection hsp with hsp _
  exact hg hsp

theorem parse_ne_panic {P : Type} (valid : Bytes → Bool) (dec : Bytes → Option P)
    (topic payload : Bytes) : parse valid dec topic payload ≠ .panic :=
  parseSegs_ne_panic valid dec topic payload _

theorem parse_invalid_bytes {P : Type} (valid : Bytes → Bool) (dec : Bytes → Option P)
    (topic payload : Bytes) (r : Reason) (t p : Bytes)
    (h : parse valid dec topic payload = .invalid r t p) : t = topic ∧ p = payload :=
  parseSegs_invalid_bytes valid dec topic payload _ r t p h

/-- a decoded (non-invalid) event exists exactly for a shaped topic with a decodable payload -/
theorem parse_invalid_iff {P : Type} (valid : Bytes → Bool) (dec : Bytes → Option P)
    (topic payload : Bytes) :
    (∃ r, parse valid dec topic payload = .invalid r topic payload) ↔
      ¬ (HasShape valid topic ∧ PayloadDecodes valid dec topic payload) := by
  constructor
  · rintro ⟨r, hr⟩ ⟨hshape, hst, hnst⟩
    rcases hshape with ⟨g, rest, n, hn⟩ | ⟨g, rest, n, d, hd⟩ | ⟨h, hs⟩
    · have hns : ¬ ∃ h, IsStateTopic valid topic h := fun ⟨h, hs⟩ => state_excludes_node valid topic h g rest n hs hn
      obtain ⟨p, hp⟩ := Option.isSome_iff_exists.mp (hnst hns)
      have := (parse_node_iff valid dec topic payload g n _ p).mpr ⟨rest, hn, rfl, hp⟩
      rw [this] at hr; cases hr
    · have hns : ¬ ∃ h, IsStateTopic valid topic h := fun ⟨h, hs⟩ => state_excludes_device valid topic h g rest n d hs hd
      obtain ⟨p, hp⟩ := Option.isSome_iff_exists.mp (hnst hns)
      have := (parse_device_iff valid dec topic payload g n d _ p).mpr ⟨rest, hd, rfl, hp⟩
      rw [this] at hr; cases hr
    · obtain ⟨⟨o, ts⟩, hp⟩ := Option.isSome_iff_exists.mp (hst ⟨h, hs⟩)
      have := (parse_state_iff valid dec topic payload h o ts).mpr ⟨hs, hp⟩
      rw [this] at hr; cases hr
  · intro hno
    cases hev : parse valid dec topic payload with
    | node g n k p =>
      exfalso; apply hno
      obtain ⟨rest, hn, _, hp⟩ := (parse_node_iff valid dec topic payload g n k p).mp hev
      refine ⟨Or.inl ⟨g, rest, n, hn⟩, ?_, ?_⟩
      · rintro ⟨h, hs⟩; exact (state_excludes_node valid topic h g rest n hs hn).elim
      · intro _; simp [hp]
    | device g n d k p =>
      exfalso; apply hno
      obtain ⟨rest, hd, _, hp⟩ := (parse_device_iff valid dec topic payload g n d k p).mp hev
      refine ⟨Or.inr (Or.inl ⟨g, rest, n, d, hd⟩), ?_, ?_⟩
      · rintro ⟨h, hs⟩; exact (state_excludes_device valid topic h g rest n d hs hd).elim
      · intro _; simp [hp]
    | state h o ts =>
      exfalso; apply hno
      obtain ⟨hs, hp⟩ := (parse_state_iff valid dec topic payload h o ts).mp hev
      refine ⟨Or.inr (Or.inr ⟨h, hs⟩), ?_, ?_⟩
      · intro _; simp [hp]
      · intro hns; exact (hns ⟨h, hs⟩).elim
    | invalid r t p =>
      obtain ⟨rfl, rfl⟩ := parse_invalid_bytes valid dec topic payload r t p hev
      exact ⟨r, rfl⟩
    | panic => exact (parse_ne_panic valid dec topic payload hev).elim

/-! ### faithfulness for the topics the builders produce -/

theorem nodeMessageStr_eq (v : Verb) :
    ∃ rest, nodeMessageStr v = 0x4e :: rest ∧ NoSlash rest ∧ rest ≠ [] ∧
      (rest = BIRTH ∨ rest = DEATH ∨ rest = DATA ∨ rest = CMD) ∧ kindOfRest rest = kindOfVerb v := by
  cases v
  · exact ⟨BIRTH, rfl, by unfold NoSlash; decide, by decide, by decide, by decide⟩
  · exact ⟨DEATH, rfl, by unfold NoSlash; decide, by decide, by decide, by decide⟩
  · exact ⟨DATA, rfl, by unfold NoSlash; decide, by decide, by decide, by decide⟩
  · exact ⟨CMD, rfl, by unfold NoSlash; decide, by decide, by decide, by decide⟩

theorem deviceMessageStr_eq (v : Verb) :
    ∃ rest, deviceMessageStr v = 0x44 :: rest ∧ NoSlash rest ∧ rest ≠ [] ∧
      (rest = BIRTH ∨ rest = DEATH ∨ rest = DATA ∨ rest = CMD) ∧ kindOfRest rest = kindOfVerb v := by
  cases v
  · exact ⟨BIRTH, rfl, by unfold NoSlash; decide, by decide, by decide, by decide⟩
  · exact ⟨DEATH, rfl, by unfold NoSlash; decide, by decide, by decide, by decide⟩
  · exact ⟨DATA, rfl, by unfold NoSlash; decide, by decide, by decide, by decide⟩
  · exact ⟨CMD, rfl, by unfold NoSlash; decide, by decide, by decide, by decide⟩

theorem known_verbRestOk (valid : Bytes → Bool) (rest : Bytes) (hne : rest ≠ [])
    (h : rest = BIRTH ∨ rest = DEATH ∨ rest = DATA ∨ rest = CMD) : VerbRestOk valid rest := by
  refine ⟨hne, ?_⟩
  rcases h with h | h | h | h
  · exact Or.inl h
  · exact Or.inr (Or.inl h)
  · exact Or.inr (Or.inr (Or.inl h))
  · exact Or.inr (Or.inr (Or.inr (Or.inl h)))

theorem parse_nodeTopic {P : Type} (valid : Bytes → Bool) (dec : Bytes → Option P)
    (g n payload : Bytes) (v : Verb) (p : P) (hg : NameOk g) (hn : NameOk n)
    (hvg : valid g = true) (hvn : valid n = true) (hne : g ≠ STATE) (hd : dec payload = some p) :
    parse valid dec (nodeTopic g v n) payload = .node g n (kindOfVerb v) p := by
  obtain ⟨rest, hstr, hns, hnil, hknown, hk⟩ := nodeMessageStr_eq v
  rw [parse_node_iff]
  refine ⟨rest, ⟨SPBV10, ?_, noSlash_SPBV10, hg.noSlash, hns, hn.noSlash, hne, hvg, hvn,
    known_verbRestOk valid rest hnil hknown⟩, hk.symm, hd⟩
  unfold nodeTopic nodeTopicRaw
  rw [hstr]

theorem parse_deviceTopic {P : Type} (valid : Bytes → Bool) (dec : Bytes → Option P)
    (g n d payload : Bytes) (v : Verb) (p : P) (hg : NameOk g) (hn : NameOk n) (hdn : NameOk d)
    (hvg : valid g = true) (hvn : valid n = true) (hvd : valid d = true) (hne : g ≠ STATE)
    (hd : dec payload = some p) :
    parse valid dec (deviceTopic g v n d) payload = .device g n d (kindOfVerb v) p := by
  obtain ⟨rest, hstr, hns, hnil, hknown, hk⟩ := deviceMessageStr_eq v
  rw [parse_device_iff]
  refine ⟨rest, ⟨SPBV10, ?_, noSlash_SPBV10, hg.noSlash, hns, hn.noSlash, hdn.noSlash, hne, hvg, hvn, hvd,
    known_verbRestOk valid rest hnil hknown⟩, hk.symm, hd⟩
  unfold deviceTopic
  rw [hstr]

theorem parse_stateHostTopic {P : Type} (valid : Bytes → Bool) (dec : Bytes → Option P)
    (h payload : Bytes) (o : Bool) (ts : Nat) (hh : NameOk h) (hvh : valid h = true)
    (hp : parseCert valid payload = some (o, ts)) :
    parse valid dec (stateHostTopic h) payload = .state h o ts := by
  rw [parse_state_iff]
  exact ⟨⟨SPBV10, noSlash_SPBV10, hh.noSlash, hvh, rfl⟩, hp⟩

/-! ### constructors -/

theorem eonBuild_ok_iff (g n : Option Bytes) :
    eonBuild g n = .ok ↔ ∃ g' n', g = some g' ∧ n = some n' ∧ NameOk g' ∧ NameOk n' := by
  cases g with
  | none => simp [eonBuild]
  | some g' =>
    cases n with
    | none => simp [eonBuild]
    | some n' =>
      simp only [eonBuild, Option.some.injEq, exists_and_left, exists_eq_left', ← validateName_iff]
      by_cases h1 : validateName g' = true <;> by_cases h2 : validateName n' = true <;> simp [h1, h2]

theorem registerDevice_ok_iff (existing : List Bytes) (name : Bytes) :
    registerDevice existing name = .ok ↔ NameOk name ∧ name ∉ existing := by
  rw [← validateName_iff]
  unfold registerDevice
  by_cases h1 : validateName name = true <;> by_cases h2 : name ∈ existing <;> simp [h1, h2]

theorem appNew_ok_iff (h : Bytes) : appNew h = .ok ↔ NameOk h := by
  rw [← validateName_iff]
  unfold appNew
  by_cases h1 : validateName h = true <;> simp [h1]

/-- validity predicate for table rows whose non-ASCII strings are single bytes: ASCII only
(on those rows it coincides with UTF-8 validity) -/
def asciiValid (s : Bytes) : Bool := s.all (fun c => decide (c.toNat < 128))

end Srad.Topic
