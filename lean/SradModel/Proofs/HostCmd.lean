/-
Helper lemmas for `Props/C15Host.lean`: the host-side construction (`Model/HostCmd.lean`), the
broker double (filter matching against the node's subscriptions), and the composition with the
receive path (`Proofs/Topic.lean`) and the node side (`Props/C15.lean`).
-/
import SradModel.Model.HostCmd
import SradModel.Proofs.Topic
import SradModel.Proofs.Codec
import SradModel.Props.C15

namespace Srad.HostCmd
open Srad.Codec Srad.Cmd
open Srad.Topic (Verb SLASH SPBV10 STATE NCMD DCMD splitSlash nodeTopic deviceTopic NameOk NoSlash
  splitSlash_append splitSlash_noSlash noSlash_SPBV10 noSlash_STATE)

/-! ### the payload the host builds -/

theorem toMetric_core (p : PublishMetric) :
    (toMetric p).core =
      { name := (match p.id with | .name n => some n | .alias _ => none),
        alias := (match p.id with | .name _ => none | .alias a => some a),
        ts := p.ts, isNull := none, value := some p.value } := by
  rcases p with ⟨id, v, ts⟩
  cases id <;> rfl

theorem toMetric_extras (p : PublishMetric) :
    (toMetric p).datatype = none ∧ (toMetric p).historical = none ∧ (toMetric p).transient = none ∧
      (toMetric p).hasMetadata = false ∧ (toMetric p).hasProps = false := by
  simp [toMetric]

/-- the node-side conversion accepts every metric the host builds, unchanged -/
theorem toMessageMetric_toMetric (p : PublishMetric) :
    toMessageMetric (toMetric p).core = some p.asDelivered := by
  rcases p with ⟨id, v, ts⟩
  cases id <;> rfl

theorem drainIter_host (ms : List PublishMetric) :
    drainIter ((ms.map toMetric).map (·.core)) = ms.map PublishMetric.asDelivered := by
  induction ms with
  | nil => rfl
  | cons p t ih =>
    simp only [List.map_cons, drainIter, toMessageMetric_toMetric]
    rw [ih]

theorem toCmd_metricsToPayload (clock : Nat) (ms : List PublishMetric) :
    (metricsToPayload clock ms).toCmd =
      { ts := some clock, metrics := (ms.map toMetric).map (·.core) } := rfl

theorem deliveredSpec_host (clock : Nat) (ms : List PublishMetric) :
    deliveredSpec (metricsToPayload clock ms).toCmd.metrics = ms.map PublishMetric.asDelivered := by
  rw [← drainIter_eq_spec, toCmd_metricsToPayload]
  exact drainIter_host ms

theorem expectedCmd_host (target : Option Nat) (clock : Nat) (ms : List PublishMetric) :
    expectedCmd target .cmd (metricsToPayload clock ms).toCmd =
      [.cmd target clock (ms.map PublishMetric.asDelivered)] := by
  have h := deliveredSpec_host clock ms
  simp only [expectedCmd, if_true]
  rw [toCmd_metricsToPayload] at h ⊢
  simp only [h]

/-! ### the client call -/

theorem send_eq (try_ : Bool) (clock : Nat) (t : PublishTopic) (ms : List PublishMetric) :
    send try_ clock t ms = clientCall try_ t (metricsToPayload clock ms) := by
  cases try_ <;> rfl

/-! ### the broker double -/

theorem matchLv_cons_cons (f : Bytes) (fs : List Bytes) (t : Bytes) (ts : List Bytes) :
    matchLv (f :: fs) (t :: ts) =
      ((decide (f = HASH) && fs.isEmpty) || ((decide (f = PLUS) || decide (f = t)) && matchLv fs ts)) := by
  rw [matchLv]
  by_cases h : (decide (f = HASH) && fs.isEmpty) = true
  · simp [h]
  · simp [h]

theorem matchLv_cons_nil (f : Bytes) (fs : List Bytes) :
    matchLv (f :: fs) [] = (decide (f = HASH) && fs.isEmpty) := by
  rw [matchLv]
  by_cases h : (decide (f = HASH) && fs.isEmpty) = true
  · simp [h]
  · simp [h]

theorem NameOk.ne_plus {s : Bytes} (h : NameOk s) : s ≠ PLUS := by
  rintro rfl
  exact h.2.2.1 (by simp [PLUS])

theorem NameOk.ne_hash {s : Bytes} (h : NameOk s) : s ≠ HASH := by
  rintro rfl
  exact h.2.2.2 (by simp [HASH])

theorem noSlash_NCMD : NoSlash NCMD := by unfold NoSlash; decide
theorem noSlash_DCMD : NoSlash DCMD := by unfold NoSlash; decide
theorem noSlash_PLUS : NoSlash PLUS := by unfold NoSlash; decide
theorem noSlash_HASH : NoSlash HASH := by unfold NoSlash; decide

theorem split_nodeTopic (g n : Bytes) (hg : NoSlash g) (hn : NoSlash n) :
    splitSlash (nodeTopic g .cmd n) = [SPBV10, g, NCMD, n] := by
  unfold nodeTopic Topic.nodeTopicRaw Topic.nodeMessageStr
  rw [splitSlash_append _ _ noSlash_SPBV10, splitSlash_append _ _ hg,
    splitSlash_append _ _ noSlash_NCMD, splitSlash_noSlash _ hn]

theorem split_deviceTopic (g n d : Bytes) (hg : NoSlash g) (hn : NoSlash n) (hd : NoSlash d) :
    splitSlash (deviceTopic g .cmd n d) = [SPBV10, g, DCMD, n, d] := by
  unfold deviceTopic Topic.deviceMessageStr
  rw [splitSlash_append _ _ noSlash_SPBV10, splitSlash_append _ _ hg,
    splitSlash_append _ _ noSlash_DCMD, splitSlash_append _ _ hn, splitSlash_noSlash _ hd]

theorem split_stateFilter : splitSlash (Topic.stateHostTopic HASH) = [SPBV10, STATE, HASH] := by
  unfold Topic.stateHostTopic
  rw [splitSlash_append _ _ noSlash_SPBV10, splitSlash_append _ _ noSlash_STATE,
    splitSlash_noSlash _ noSlash_HASH]

private theorem c1 : (SPBV10 = HASH) = False := by simp [SPBV10, HASH]
private theorem c2 : (SPBV10 = PLUS) = False := by simp [SPBV10, PLUS]
private theorem c3 : (NCMD = PLUS) = False := by simp [NCMD, PLUS]
private theorem c4 : (NCMD = HASH) = False := by simp [NCMD, HASH]
private theorem c5 : (DCMD = PLUS) = False := by simp [DCMD, PLUS]
private theorem c6 : (DCMD = HASH) = False := by simp [DCMD, HASH]
private theorem c7 : (DCMD = NCMD) = False := by simp [DCMD, NCMD]
private theorem c8 : (NCMD = DCMD) = False := by simp [DCMD, NCMD]
private theorem c9 : (STATE = PLUS) = False := by simp [STATE, PLUS]
private theorem c10 : (STATE = HASH) = False := by simp [STATE, HASH]
private theorem c11 : (PLUS = HASH) = False := by simp [PLUS, HASH]

/-- a publish on the NCMD topic of `(g, n)` passes the node's subscriptions iff `(g, n)` are
the node's own ids -/
theorem brokerDelivers_node_iff (cfg : NodeCfg) (g n : Bytes) (hG : NameOk cfg.group)
    (hN : NameOk cfg.node) (hg : NameOk g) (hn : NameOk n) (hs : g ≠ STATE) :
    brokerDelivers cfg (nodeTopic g .cmd n) = true ↔ g = cfg.group ∧ n = cfg.node := by
  have e1 : (STATE = g) = False := by simpa using fun h : STATE = g => hs h.symm
  have e2 : (cfg.group = PLUS) = False := by simpa using NameOk.ne_plus hG
  have e3 : (cfg.group = HASH) = False := by simpa using NameOk.ne_hash hG
  have e4 : (cfg.node = PLUS) = False := by simpa using NameOk.ne_plus hN
  have e5 : (cfg.node = HASH) = False := by simpa using NameOk.ne_hash hN
  unfold brokerDelivers nodeFilters mqttMatch
  simp only [List.any_cons, List.any_nil, split_nodeTopic _ _ hG.noSlash hN.noSlash,
    split_deviceTopic _ _ _ hG.noSlash hN.noSlash noSlash_PLUS, split_stateFilter,
    split_nodeTopic _ _ hg.noSlash hn.noSlash, matchLv_cons_cons, matchLv,
    c1, c2, c3, c4, c5, c6, c7, c9, c10, c11, e1, e2, e3, e4, e5]
  simp
  constructor <;> rintro ⟨a, b⟩ <;> exact ⟨a.symm, b.symm⟩

/-- the same for the DCMD topic of device `d` of `(g, n)` (whatever the device id) -/
theorem brokerDelivers_device_iff (cfg : NodeCfg) (g n d : Bytes) (hG : NameOk cfg.group)
    (hN : NameOk cfg.node) (hg : NameOk g) (hn : NameOk n) (hd : NameOk d) (hs : g ≠ STATE) :
    brokerDelivers cfg (deviceTopic g .cmd n d) = true ↔ g = cfg.group ∧ n = cfg.node := by
  have e1 : (STATE = g) = False := by simpa using fun h : STATE = g => hs h.symm
  have e2 : (cfg.group = PLUS) = False := by simpa using NameOk.ne_plus hG
  have e3 : (cfg.group = HASH) = False := by simpa using NameOk.ne_hash hG
  have e4 : (cfg.node = PLUS) = False := by simpa using NameOk.ne_plus hN
  have e5 : (cfg.node = HASH) = False := by simpa using NameOk.ne_hash hN
  unfold brokerDelivers nodeFilters mqttMatch
  simp only [List.any_cons, List.any_nil, split_nodeTopic _ _ hG.noSlash hN.noSlash,
    split_deviceTopic _ _ _ hG.noSlash hN.noSlash noSlash_PLUS, split_stateFilter,
    split_deviceTopic _ _ _ hg.noSlash hn.noSlash hd.noSlash, matchLv_cons_cons,
    matchLv, c1, c2, c3, c4, c5, c6, c8, c9, c10, c11, e1, e2, e3, e4, e5]
  simp
  constructor <;> rintro ⟨a, b⟩ <;> exact ⟨a.symm, b.symm⟩

/-! ### transport -/

theorem transport_node_own (valid : Bytes → Bool) (enc : WirePayload → Bytes)
    (dec : Bytes → Option WirePayload) (cfg : NodeCfg)
    (hG : NameOk cfg.group) (hN : NameOk cfg.node) (hvG : valid cfg.group = true)
    (hvN : valid cfg.node = true) (hS : cfg.group ≠ STATE) (try_ : Bool) (p : WirePayload)
    (hcodec : dec (enc p) = some p) :
    transport valid enc dec cfg (clientCall try_ (.node cfg.group cfg.node) p) =
      .handled (.node (.msg .cmd p.toCmd)) := by
  have hb := (brokerDelivers_node_iff cfg cfg.group cfg.node hG hN hG hN hS).mpr ⟨rfl, rfl⟩
  have hp := Topic.parse_nodeTopic valid dec cfg.group cfg.node (enc p) .cmd p hG hN hvG hvN hS hcodec
  simp only [transport, clientCall, hb, hp, nodeOp, Topic.kindOfVerb, msgKind]
  rfl

theorem transport_device_own (valid : Bytes → Bool) (enc : WirePayload → Bytes)
    (dec : Bytes → Option WirePayload) (cfg : NodeCfg)
    (d : Bytes) (k : Nat) (hk : devToken cfg.devices d = some k)
    (hG : NameOk cfg.group) (hN : NameOk cfg.node) (hD : NameOk d) (hvG : valid cfg.group = true)
    (hvN : valid cfg.node = true) (hvD : valid d = true) (hS : cfg.group ≠ STATE) (try_ : Bool)
    (p : WirePayload) (hcodec : dec (enc p) = some p) :
    transport valid enc dec cfg (clientCall try_ (.device cfg.group cfg.node d) p) =
      .handled (.dev k (.cmd .cmd p.toCmd)) := by
  have hb := (brokerDelivers_device_iff cfg cfg.group cfg.node d hG hN hG hN hD hS).mpr ⟨rfl, rfl⟩
  have hp := Topic.parse_deviceTopic valid dec cfg.group cfg.node d (enc p) .cmd p hG hN hD hvG hvN hvD hS
    hcodec
  simp only [transport, clientCall, hb, hp, nodeOp, Topic.kindOfVerb, msgKind, hk]
  rfl

theorem transport_device_unknown (valid : Bytes → Bool) (enc : WirePayload → Bytes)
    (dec : Bytes → Option WirePayload) (cfg : NodeCfg)
    (d : Bytes) (hk : devToken cfg.devices d = none)
    (hG : NameOk cfg.group) (hN : NameOk cfg.node) (hD : NameOk d) (hvG : valid cfg.group = true)
    (hvN : valid cfg.node = true) (hvD : valid d = true) (hS : cfg.group ≠ STATE) (try_ : Bool)
    (p : WirePayload) (hcodec : dec (enc p) = some p) :
    transport valid enc dec cfg (clientCall try_ (.device cfg.group cfg.node d) p) = .ignored := by
  have hb := (brokerDelivers_device_iff cfg cfg.group cfg.node d hG hN hG hN hD hS).mpr ⟨rfl, rfl⟩
  have hp := Topic.parse_deviceTopic valid dec cfg.group cfg.node d (enc p) .cmd p hG hN hD hvG hvN hvD hS
    hcodec
  simp only [transport, clientCall, hb, hp, nodeOp, hk]
  rfl

theorem transport_other (valid : Bytes → Bool) (enc : WirePayload → Bytes)
    (dec : Bytes → Option WirePayload) (cfg : NodeCfg) (c : Call)
    (h : brokerDelivers cfg c.topic = false) : transport valid enc dec cfg c = .unrouted := by
  simp [transport, h]

/-! ### the device map -/

theorem devToken_get (devs : List Bytes) (d : Bytes) (k : Nat) (h : devToken devs d = some k) :
    devs[k]? = some d := by
  induction devs generalizing k with
  | nil => simp [devToken] at h
  | cons x t ih =>
    simp only [devToken] at h
    split at h
    · cases h; subst_vars; simp
    · cases ht : devToken t d with
      | none => simp [ht] at h
      | some j =>
        simp [ht] at h
        subst h
        simpa using ih j ht

theorem devToken_of_mem (devs : List Bytes) (d : Bytes) (h : d ∈ devs) : ∃ k, devToken devs d = some k := by
  induction devs with
  | nil => simp at h
  | cons x t ih =>
    simp only [devToken]
    split
    · exact ⟨0, rfl⟩
    · rename_i hx
      rcases List.mem_cons.mp h with h | h
      · exact absurd h.symm hx
      · obtain ⟨k, hk⟩ := ih h
        exact ⟨k + 1, by simp [hk]⟩

end Srad.HostCmd
