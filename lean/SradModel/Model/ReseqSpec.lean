/-
Vocabulary for stating C09 about `Model/Reseq`: tagged messages, call sequences, event
traces, the reachable-state invariant, and the "feed a run, drain after each arrival" loop.
Definitions only; no proofs here.
-/
import SradModel.Model.Reseq

namespace Srad.Reseq

/-- A call on the resequencer. Messages are tagged: `proc seq p` feeds the message `(seq, p)`
under sequence number `seq`. -/
inductive Op (α : Type) where
  | proc (seq : Nat) (p : α)
  | drain
  | reset
  | setNext (n : Nat)

/-- arguments are `u8` in the Rust -/
def Op.WF {α} : Op α → Prop
  | .proc seq _ => seq < 256
  | .setNext n => n < 256
  | _ => True

/-- What a call did with messages. -/
inductive Ev (α : Type) where
  | released (m : Nat × α)
  | inserted (m : Nat × α)
  | dup (m : Nat × α)
  | cleared (ms : List (Nat × α))
  | nothing
  | panicked

def stepOp {α} (s : St (Nat × α)) : Op α → St (Nat × α) × Ev α
  | .proc seq p =>
    match process s seq (seq, p) with
    | (s', .next m) => (s', .released m)
    | (s', .inserted) => (s', .inserted (seq, p))
    | (s', .dup) => (s', .dup (seq, p))
  | .drain =>
    match drain s with
    | (s', .msg m) => (s', .released m)
    | (s', .panic) => (s', .panicked)
    | (s', _) => (s', .nothing)
  | .reset => (reset s, .cleared (s.buf.map Prod.snd))
  | .setNext n => (setNext s n, .nothing)

def runOps {α} (s : St (Nat × α)) : List (Op α) → St (Nat × α) × List (Ev α)
  | [] => (s, [])
  | o :: os =>
    let (s1, e) := stepOp s o
    let (s2, es) := runOps s1 os
    (s2, e :: es)

def inputsOf {α} : List (Op α) → List (Nat × α)
  | [] => []
  | .proc seq p :: os => (seq, p) :: inputsOf os
  | _ :: os => inputsOf os

def releasedOf {α} : List (Ev α) → List (Nat × α)
  | [] => []
  | .released m :: es => m :: releasedOf es
  | _ :: es => releasedOf es

def dupsOf {α} : List (Ev α) → List (Nat × α)
  | [] => []
  | .dup m :: es => m :: dupsOf es
  | _ :: es => dupsOf es

def clearedOf {α} : List (Ev α) → List (Nat × α)
  | [] => []
  | .cleared ms :: es => ms ++ clearedOf es
  | _ :: es => clearedOf es

/-- Reachable-state invariant: `next` is a `u8`; `Good` means the buffer is empty;
`ReSequencing off` means a non-empty buffer, strictly ascending keys, each entry filed under
its own number minus the offset (mod 256). -/
def Inv {α} (s : St (Nat × α)) : Prop :=
  s.next < 256 ∧
  match s.mode with
  | .good => s.buf = []
  | .reseq off =>
    off < 256 ∧ s.buf ≠ [] ∧ s.buf.Pairwise (fun a b => a.1 < b.1) ∧
    ∀ x ∈ s.buf, x.2.1 < 256 ∧ x.1 = wsub x.2.1 off

/-- message number `i` of the run that starts at sequence value `e` -/
def runMsg {α} (e : Nat) (p : Nat → α) (i : Nat) : Nat × α := ((e + i) % 256, p i)

/-- One arrival as the host (and C09) uses the resequencer: `process`, then `drain` until it
stops returning messages. Returns the new state, the messages released by this arrival in
order, and whether the drain loop ran out of its `buf.length + 1` budget. -/
def arrive {α} (s : St (Nat × α)) (m : Nat × α) : St (Nat × α) × List (Nat × α) × Bool :=
  match process s m.1 m with
  | (s1, .next m') =>
    let (s2, rel, _, ro) := drainAll s1
    (s2, m' :: rel, ro)
  | (s1, _) =>
    let (s2, rel, _, ro) := drainAll s1
    (s2, rel, ro)

def feed {α} (s : St (Nat × α)) : List (Nat × α) → St (Nat × α) × List (Nat × α) × Bool
  | [] => (s, [], false)
  | m :: ms =>
    let (s1, r1, o1) := arrive s m
    let (s2, r2, o2) := feed s1 ms
    (s2, r1 ++ r2, o1 || o2)

/-- least index that has not arrived (`fuel` ≥ number of arrivals + 1 suffices) -/
def mexFrom (A : List Nat) : Nat → Nat → Nat
  | 0, k => k
  | fuel + 1, k => if A.contains k then mexFrom A fuel (k + 1) else k

def mexOf (A : List Nat) : Nat := mexFrom A (A.length + 1) 0

/-- The stream's outstanding window stays below 256: every index, when it arrives, is less
than 256 ahead of the first index still missing at that moment (so its sequence number
identifies it). -/
def WindowOk (arr : List Nat) : Prop :=
  ∀ n (h : n < arr.length), arr[n] < mexOf (arr.take n) + 256

end Srad.Reseq
