/-
M8 — model of birth-certificate construction in srad-eon:
`BirthInitializer` (srad-eon/src/birth.rs), `Node::generate_birth_payload` (node.rs),
`Device::generate_birth_payload` and `DeviceMap::generate_device_id` (device.rs),
`TemplateRegistry` register/deregister/clear (node.rs), `SimpleMetricManager::initialise_birth`
(metric_manager/simple.rs), `MetricToken::create_publish_metric` and
`From<PublishMetric> for Metric` (metric.rs).

Conventions (DESIGN.md section 5):
* names are byte lists; the hash (`DefaultHasher` of the name, a `u64`) is an ARBITRARY function
  parameter `h : Name → Nat`; `as u32` is the explicit `% 2^32`;
* hash-map iteration orders (template registry, SimpleMetricManager metrics) are the order of
  the list arguments: every theorem quantifies over all lists, hence over all orders;
* the manager (user code) is a parameter: a list of registration requests (`Mgr.scripted`) or
  the library's own `SimpleMetricManager` (`Mgr.simple`);
* panics are the explicit outcome `Res.panic`: `debug_assert!(false)` (only with
  `Cfg.dbg` = debug-assertions), `+= 1` overflow (only with `Cfg.ovf` = overflow-checks;
  otherwise the explicit wrap `% M`), `.unwrap()` on an `Err`;
* metric values are passed through (`U` = user payload); only what the birth logic looks at is
  a constructor of `Val`.

Two places follow the REPAIRED code, because the property text fixes them:
* D6: `register_template_definition` pushes the definition metric (with a timestamp);
  the tree at 2e82a90 builds the metric and drops it.
* D10: `Cfg.inHalf = true` is the repaired alias bump (wraps inside the low 32 bits);
  `Cfg.inHalf = false` is the tree at 2e82a90 (`alias += 1` on the whole `u64`, which can carry
  into the device-id half). Both are modelled; `C11_alias_unique_across` needs `NoCarry` for
  the latter.
No imports: linked into `srad_model`.
-/
namespace Srad.Birth

abbrev Name := List UInt8

/-- `constants::BDSEQ` = "bdSeq" -/
def bdSeqName : Name := [0x62, 0x64, 0x53, 0x65, 0x71]
/-- `constants::NODE_CONTROL_REBIRTH` = "Node Control/Rebirth" -/
def rebirthName : Name :=
  [0x4e, 0x6f, 0x64, 0x65, 0x20, 0x43, 0x6f, 0x6e, 0x74, 0x72, 0x6f, 0x6c, 0x2f,
   0x52, 0x65, 0x62, 0x69, 0x72, 0x74, 0x68]

def dtInt64 : Nat := 4
def dtBoolean : Nat := 11
def dtTemplate : Nat := 19
def two32 : Nat := 4294967296
def two64 : Nat := 18446744073709551616

/-- `srad_types::MetricId` -/
inductive MetricId where
  | name (n : Name)
  | alias (a : Nat)
  deriving DecidableEq, Repr

/-- a metric value as far as the birth logic distinguishes it -/
inductive Val (U : Type) where
  | int64 (n : Nat)              -- the node's bdSeq
  | bool (b : Bool)              -- Node Control/Rebirth
  | defn (u : U)                 -- `MetricValue::from(TemplateDefinition)`
  | inst (tref : Name) (u : U)   -- `TemplateInstance { template_ref, .. }.into()`
  | user (u : U)                 -- `T::into` of a user value
  deriving DecidableEq, Repr

/-- the fields of `payload::Metric` the property speaks about -/
structure Metric (U : Type) where
  name : Option Name := none
  alias : Option Nat := none
  datatype : Option Nat := none
  timestamp : Option Nat := none
  isNull : Option Bool := none
  value : Option (Val U) := none
  deriving DecidableEq, Repr

/-- `BirthMetricError` (the variant `MetricValueDatatypeMismatch` is produced when the details
are built, before the initializer is involved) -/
inductive Err where
  | duplicate | unsupportedDatatype | valueNotProvided | unregisteredTemplate
  deriving DecidableEq, Repr

inductive Res (α : Type) where
  | ok (v : α)
  | err (e : Err)
  | panic
  deriving DecidableEq, Repr

/-- build parameters -/
structure Cfg where
  /-- `debug_assert!` is active -/
  dbg : Bool
  /-- integer overflow panics (otherwise it wraps) -/
  ovf : Bool
  /-- alias collision bump stays in the low 32 bits (repair of D10); `false` = `alias += 1` -/
  inHalf : Bool
  deriving DecidableEq, Repr

/-- `BirthInitializer` -/
structure Init (U : Type) where
  /-- `birth_metrics`, in push order -/
  metrics : List (Metric U) := []
  /-- `metric_names` -/
  names : List Name := []
  /-- `metric_aliases` -/
  aliases : List Nat := []
  /-- 0 for the node (`AliasType::Node`), the device id otherwise -/
  obj : Nat
  /-- the keys of the `TemplateRegistry` the initializer was created with -/
  registry : List Name

/-! ### the collision loop `while taken.contains(&c) { c += 1 }` -/

/-- The candidate after `j` increments is `off + (base + j) % M`: `M` is the modulus of the
integer type that is incremented, `off` the part of the result that is not. With `ovf` the
increment of `M - 1` panics instead of wrapping. The loop runs at most `fuel` times; `bump`
supplies `taken.length + 1`, which is never exhausted (`bump_total`). -/
def bumpGo (M : Nat) (ovf : Bool) (off base : Nat) (taken : List Nat) : Nat → Nat → Res Nat
  | 0, _ => .panic
  | fuel + 1, j =>
    if off + (base + j) % M ∈ taken then
      if ovf = true ∧ (base + j) % M + 1 = M then .panic
      else bumpGo M ovf off base taken fuel (j + 1)
    else .ok (off + (base + j) % M)

def bump (M : Nat) (ovf : Bool) (off base : Nat) (taken : List Nat) : Res Nat :=
  bumpGo M ovf off base taken (taken.length + 1) 0

/-- `BirthInitializer::generate_alias` (without the insertion into `metric_aliases`) -/
def genAlias {U} (cfg : Cfg) (h : Name → Nat) (st : Init U) (n : Name) : Res Nat :=
  if cfg.inHalf then
    -- repaired: `low = low.wrapping_add(1)` under a fixed high half
    bump two32 false (st.obj * two32) (h n % two32) st.aliases
  else
    -- 2e82a90: `alias = (id << 32) | hash; while .. { alias += 1 }` on a `u64`
    bump two64 cfg.ovf 0 (st.obj * two32 + h n % two32) st.aliases

/-- `BirthInitializer::create_metric_token` -/
def createToken {U} (cfg : Cfg) (h : Name → Nat) (st : Init U) (n : Name) (useAlias : Bool) :
    Res (MetricId × Init U) :=
  if n ∈ st.names then .err .duplicate
  else if useAlias then
    match genAlias cfg h st n with
    | .ok a => .ok (.alias a, { st with aliases := a :: st.aliases, names := n :: st.names })
    | .err e => .err e
    | .panic => .panic
  else .ok (.name n, { st with names := n :: st.names })

/-- `BirthMetricDetails` minus value, metadata and properties -/
structure Details where
  name : Name
  useAlias : Bool
  dt : Nat
  ts : Nat
  deriving DecidableEq, Repr

/-- `BirthMetricDetails::into_metric_value` -/
def intoMetric {U} (d : Details) (v : Option (Val U)) : Metric U :=
  { name := some d.name, datatype := some d.dt, timestamp := some d.ts,
    isNull := if v.isNone then some true else none,
    value := v }

/-- `if let MetricId::Alias(alias) = &tok.id { metric.set_alias(*alias) }` then push -/
def pushWithId {U} (st : Init U) (m : Metric U) (id : MetricId) : Init U :=
  let m' := match id with
    | .alias a => { m with alias := some a }
    | .name _ => m
  { st with metrics := st.metrics ++ [m'] }

/-- `BirthInitializer::register_metric` -/
def registerMetric {U} (cfg : Cfg) (h : Name → Nat) (st : Init U) (d : Details)
    (v : Option (Val U)) : Res (MetricId × Init U) :=
  if d.dt = dtTemplate then
    if cfg.dbg then .panic else .err .unsupportedDatatype
  else
    match createToken cfg h st d.name d.useAlias with
    | .ok (id, st') => .ok (id, pushWithId st' (intoMetric d v) id)
    | .err e => .err e
    | .panic => .panic

/-- `BirthInitializer::register_template_metric`; `inst` = the value's `template_instance()`
(its `template_ref` and the rest), `none` = details without initial value -/
def registerTemplateMetric {U} (cfg : Cfg) (h : Name → Nat) (st : Init U) (d : Details)
    (inst : Option (Name × U)) : Res (MetricId × Init U) :=
  match inst with
  | none => if cfg.dbg then .panic else .err .valueNotProvided
  | some (tref, u) =>
    if tref ∉ st.registry then .err .unregisteredTemplate
    else
      match createToken cfg h st d.name d.useAlias with
      | .ok (id, st') => .ok (id, pushWithId st' (intoMetric d (some (.inst tref u))) id)
      | .err e => .err e
      | .panic => .panic

/-- `BirthInitializer::register_template_definition`, REPAIRED (D6): the metric gets the
birth's timestamp and is pushed. -/
def registerTemplateDefinition {U} (now : Nat) (st : Init U) (n : Name) (u : U) : Res (Init U) :=
  if n ∈ st.names then .err .duplicate
  else
    let m : Metric U :=
      { name := some n, datatype := some dtTemplate, value := some (.defn u),
        timestamp := some now }
    .ok { st with metrics := st.metrics ++ [m], names := n :: st.names }

/-! ### managers -/

/-- one call a manager makes on the initializer inside `initialise_birth` -/
inductive Req (U : Type) where
  | metric (d : Details) (v : Option U)
  | template (d : Details) (inst : Option (Name × U))
  deriving DecidableEq, Repr

def Req.details {U} : Req U → Details
  | .metric d _ => d
  | .template d _ => d

def runReq {U} (cfg : Cfg) (h : Name → Nat) (st : Init U) : Req U → Res (MetricId × Init U)
  | .metric d v => registerMetric cfg h st d (v.map .user)
  | .template d i => registerTemplateMetric cfg h st d i

/-- a manager that makes the calls in order and looks at each result (a panic of one call is
caught: none of the panicking paths has modified the initializer) -/
def runReqs {U} (cfg : Cfg) (h : Name → Nat) : Init U → List (Req U) → Init U × List (Res MetricId)
  | st, [] => (st, [])
  | st, r :: rs =>
    match runReq cfg h st r with
    | .ok (id, st') =>
      let (s, l) := runReqs cfg h st' rs
      (s, .ok id :: l)
    | .err e =>
      let (s, l) := runReqs cfg h st rs
      (s, .err e :: l)
    | .panic =>
      let (s, l) := runReqs cfg h st rs
      (s, .panic :: l)

/-- an entry of `SimpleMetricManagerInner::metrics`: name, `use_alias`, `T::default_datatype()`,
current value, whether a command callback is set -/
structure SimpleMetric (U : Type) where
  name : Name
  useAlias : Bool
  dt : Nat
  value : U
  hasCb : Bool
  deriving DecidableEq, Repr

/-- `SimpleMetricManager::register_metric`: `None` when the name is already in the map -/
def simpleRegister {U} (ms : List (SimpleMetric U)) (m : SimpleMetric U) :
    Option (List (SimpleMetric U)) :=
  if m.name ∈ ms.map (·.name) then none else some (ms ++ [m])

/-- `Stored::birth_metric` for every entry in iteration order:
`bi.register_metric(new_with_initial_value(name, val).use_alias(..)).unwrap()` -/
def runSimple {U} (cfg : Cfg) (h : Name → Nat) (now : Nat) :
    Init U → List (SimpleMetric U) → Res (Init U × List MetricId)
  | st, [] => .ok (st, [])
  | st, m :: ms =>
    match registerMetric cfg h st ⟨m.name, m.useAlias, m.dt, now⟩ (some (.user m.value)) with
    | .ok (id, st') =>
      match runSimple cfg h now st' ms with
      | .ok (s, l) => .ok (s, id :: l)
      | .err e => .err e
      | .panic => .panic
    | _ => .panic   -- `.unwrap()`

/-- `manager.cmd_lookup`: the ids of the entries that have a callback -/
def cmdLookup {U} (ms : List (SimpleMetric U)) (ids : List MetricId) : List (MetricId × Name) :=
  (ms.zip ids).filterMap fun (m, id) => if m.hasCb then some (id, m.name) else none

inductive Mgr (U : Type) where
  | scripted (reqs : List (Req U))
  /-- entries in the iteration order of the `HashMap` at this birth -/
  | simple (ms : List (SimpleMetric U))

/-- `metric_manager.initialise_birth(&mut bi)` -/
def runMgr {U} (cfg : Cfg) (h : Name → Nat) (now : Nat) (st : Init U) :
    Mgr U → Res (Init U × List (Res MetricId))
  | .scripted reqs => .ok (runReqs cfg h st reqs)
  | .simple ms =>
    match runSimple cfg h now st ms with
    | .ok (s, ids) => .ok (s, ids.map .ok)
    | .err e => .err e
    | .panic => .panic

/-! ### birth payloads -/

/-- the loop over `self.template_registry.templates` with `.unwrap()` -/
def regDefs {U} (now : Nat) : Init U → List (Name × U) → Res (Init U)
  | st, [] => .ok st
  | st, (n, u) :: t =>
    match registerTemplateDefinition now st n u with
    | .ok st' => regDefs now st' t
    | _ => .panic

/-- `Node::generate_birth_payload`: the metrics and what the manager saw. `reg` is the registry
in its iteration order, `now` the clock reading. -/
def nodeBirth {U} (cfg : Cfg) (h : Name → Nat) (now bdseq : Nat) (reg : List (Name × U))
    (mgr : Mgr U) : Res (List (Metric U) × List (Res MetricId)) :=
  let st0 : Init U := { obj := 0, registry := reg.map (·.1) }
  match registerMetric cfg h st0 ⟨bdSeqName, false, dtInt64, now⟩ (some (.int64 bdseq)) with
  | .ok (_, st1) =>
    match registerMetric cfg h st1 ⟨rebirthName, false, dtBoolean, now⟩ (some (.bool false)) with
    | .ok (_, st2) =>
      match regDefs now st2 reg with
      | .ok st3 =>
        match runMgr cfg h now st3 mgr with
        | .ok (st4, res) => .ok (st4.metrics, res)
        | _ => .panic
      | _ => .panic
    | _ => .panic   -- `.unwrap()`
  | _ => .panic     -- `.unwrap()`

/-- `Device::generate_birth_payload` for the device with id `id` -/
def deviceBirth {U} (cfg : Cfg) (h : Name → Nat) (now id : Nat) (regNames : List Name)
    (mgr : Mgr U) : Res (List (Metric U) × List (Res MetricId)) :=
  match runMgr cfg h now { obj := id, registry := regNames } mgr with
  | .ok (st, res) => .ok (st.metrics, res)
  | _ => .panic

/-! ### template registry (`TemplateRegistry`, definitions without nested templates) -/

inductive RegErr where
  | invalidName | duplicate
  deriving DecidableEq, Repr

/-- `TemplateRegistry::register::<T>()` with `n = T::template_definition_metric_name()`; the
position of the new entry in the iteration order is not fixed by the code -/
def regRegister {U} (reg : List (Name × U)) (n : Name) (u : U) : Except RegErr (List (Name × U)) :=
  if n = rebirthName ∨ n = bdSeqName then .error .invalidName
  else if n ∈ reg.map (·.1) then .error .duplicate
  else .ok (reg ++ [(n, u)])

def regDeregister {U} (reg : List (Name × U)) (n : Name) : List (Name × U) :=
  reg.filter (fun e => e.1 ≠ n)

/-! ### device ids (`DeviceMap`) -/

structure DevMap where
  /-- `device_ids` -/
  ids : List Nat := []
  /-- `devices`: name ↦ id -/
  devs : List (Name × Nat) := []
  deriving Repr

/-- `DeviceMap::generate_device_id` without the insertion:
`while id == OBJECT_ID_NODE || device_ids.contains(&id) { id += 1 }` on a `u32` -/
def genDeviceId (cfg : Cfg) (h : Name → Nat) (ids : List Nat) (n : Name) : Res Nat :=
  bump two32 cfg.ovf 0 (h n % two32) (0 :: ids)

/-- `srad_types::utils::validate_name` -/
def validName (n : Name) : Bool :=
  !n.isEmpty && n.all (fun c => c ≠ 0x2b && c ≠ 0x2f && c ≠ 0x23)

inductive AddRes where
  | ok (dm : DevMap) (id : Nat)
  | invalid
  | dup
  | panic
  deriving Repr

/-- `NodeHandle::register_device` / `DeviceMap::add_device` as far as ids go -/
def addDevice (cfg : Cfg) (h : Name → Nat) (dm : DevMap) (n : Name) : AddRes :=
  if !validName n then .invalid
  else if n ∈ dm.devs.map (·.1) then .dup
  else
    match genDeviceId cfg h dm.ids n with
    | .ok id => .ok { ids := id :: dm.ids, devs := (n, id) :: dm.devs } id
    | _ => .panic

/-- `DeviceMap::remove_device` -/
def removeDevice (dm : DevMap) (n : Name) : DevMap :=
  match dm.devs.lookup n with
  | none => dm
  | some id => { ids := dm.ids.filter (· ≠ id), devs := dm.devs.filter (fun e => e.1 ≠ n) }

/-! ### tokens → published metrics (metric.rs) -/

/-- `PublishMetric` (identifier, value, timestamp) -/
structure PublishMetric (U : Type) where
  id : MetricId
  value : Option U
  ts : Nat

/-- `MetricToken::create_publish_metric` (the token is its `id`) -/
def createPublish {U} (tok : MetricId) (v : Option U) (now : Nat) : PublishMetric U :=
  ⟨tok, v, now⟩

/-- `impl From<PublishMetric> for Metric` (as in the tree: `is_null` is not set, see D11/C12) -/
def publishToMetric {U} (p : PublishMetric U) : Metric U :=
  let m : Metric U := match p.id with
    | .name n => { name := some n }
    | .alias a => { alias := some a }
  let m := match p.value with
    | some v => { m with value := some (.user v) }
    | none => m
  { m with timestamp := some p.ts }

end Srad.Birth
