/-
M15-hcmd — model of the HOST side of the command path and of its composition with the node side.

* srad-app/src/metrics.rs: `PublishMetric::new`, `PublishMetric::timestamp`,
  `impl From<PublishMetric> for Metric`, `MetricBirthDetails::get_metric_id`.
* srad-app/src/eventloop.rs: `PublishTopic::new_node_cmd` / `new_device_cmd`,
  `AppClient::metrics_to_payload`, `publish_metrics`, `try_publish_metrics`,
  `publish_node_rebirth` — which `Client` method each of them calls, with which topic and payload.
* srad-types/src/payload.rs: `Metric::new`, `set_name`, `set_alias`, `set_value`.
* the way to the node: the broker hands a publish to a node iff one of the filters the node
  subscribed with (`EoNState::sub_topics`, srad-eon/src/node.rs) matches the topic; the node's
  client turns topic + bytes into an `Event` (`topic_and_payload_to_event` = `Srad.Topic.parse`);
  `Node::handle_event` passes a node message to the node task and a device message to the task of
  the device registered under the id in the topic (`DeviceMap::handle_device_message`, unknown
  id = dropped); from there on it is `Srad.Cmd.step` (Model/Cmd.lean).

Conventions: a `MetricValue` is a wrapper around the protobuf `oneof` value, i.e. a `Codec.PV`
(`PublishMetric::new::<T>` applies `T: Into<MetricValue>`, M2's `toProto`); ids are byte strings
(UTF-8 of the Rust `String`s); the clock read by `metrics_to_payload` (`utils::timestamp()`) is a
parameter; the protobuf codec is a parameter pair `enc`/`dec` (the theorems assume
`dec (enc p) = some p`; the driver uses the record itself). The client's answer (`Ok`/`Err`) is
returned unchanged by all three entry points and is a parameter of the driver only.
A registered device is known to `Srad.Cmd` by a token (`Nat`): the token of a device is its
position in `NodeCfg.devices` (the keys of the device map; distinct by construction).

Imports only other models (linked into `srad_model`).
-/
import SradModel.Model.Cmd
import SradModel.Model.Topic

namespace Srad.HostCmd
open Srad.Codec Srad.Cmd
open Srad.Topic (Verb SLASH SPBV10 STATE splitSlash nodeTopic deviceTopic)

/-! ### metrics.rs -/

/-- `srad_app::PublishMetric` -/
structure PublishMetric where
  id : MetricId
  value : PV
  ts : Option Nat := none
  deriving DecidableEq, Repr

/-- `PublishMetric::new(id, value)` once `value.into()` has produced the `MetricValue` -/
def PublishMetric.new (id : MetricId) (value : PV) : PublishMetric :=
  { id := id, value := value, ts := none }

/-- `PublishMetric::new::<T>(id, v)` for one of the thirteen scalar Rust types: `v.into()` is
M2's `toProto` -/
def PublishMetric.newTyped (id : MetricId) (ty : STy) (v : SV) : PublishMetric :=
  PublishMetric.new id (toProto ty v)

/-- `PublishMetric::timestamp(self, t)` -/
def PublishMetric.timestamp (p : PublishMetric) (t : Nat) : PublishMetric := { p with ts := some t }

/-- `MetricBirthDetails::get_metric_id`: the alias if the birth gave one, else the name -/
def getMetricId (name : Bytes) (alias : Option Nat) : MetricId :=
  match alias with
  | some a => .alias a
  | none => .name name

/-- a `payload::Metric` as it travels: the fields the node's command path reads (`core`) and the
five it does not -/
structure WireMetric where
  core : Metric
  datatype : Option Nat := none
  historical : Option Bool := none
  transient : Option Bool := none
  hasMetadata : Bool := false
  hasProps : Bool := false
  deriving DecidableEq, Repr

/-- `impl From<PublishMetric> for Metric`: `Metric::new()` (everything `None`), `set_name` or
`set_alias`, `set_value` (value `Some`, `is_null` `None`), then the timestamp is copied.
No datatype is set. -/
def toMetric (p : PublishMetric) : WireMetric :=
  let m0 : Metric := {}
  let m1 : Metric :=
    match p.id with
    | .name n => { m0 with name := some n }
    | .alias a => { m0 with alias := some a }
  let m2 : Metric := { m1 with value := some p.value, isNull := none }
  { core := { m2 with ts := p.ts } }

/-- a `payload::Payload` as it travels -/
structure WirePayload where
  ts : Option Nat
  metrics : List WireMetric
  seq : Option Nat := none
  uuid : Option Bytes := none
  body : Option Bytes := none
  deriving DecidableEq, Repr

/-- what the node's command path reads of a payload -/
def WirePayload.toCmd (p : WirePayload) : Payload :=
  { ts := p.ts, metrics := p.metrics.map (·.core) }

/-! ### eventloop.rs -/

/-- `AppClient::metrics_to_payload`; `clock` = `utils::timestamp()` -/
def metricsToPayload (clock : Nat) (ms : List PublishMetric) : WirePayload :=
  { ts := some clock, metrics := ms.map toMetric, seq := none, uuid := none, body := none }

/-- `PublishTopic` (`new_node_cmd` / `new_device_cmd`); the ids are not validated -/
inductive PublishTopic where
  | node (group node : Bytes)
  | device (group node device : Bytes)
  deriving DecidableEq, Repr

/-- the four `srad_client::Client` methods the command path can call -/
inductive Method where
  | publishNode | tryPublishNode | publishDevice | tryPublishDevice
  deriving DecidableEq, Repr

/-- the method waits for room in the client's request queue (`publish_*`) or not (`try_publish_*`) -/
def Method.blocking : Method → Bool
  | .publishNode | .publishDevice => true
  | .tryPublishNode | .tryPublishDevice => false

/-- the method takes a `DeviceTopic` -/
def Method.forDevice : Method → Bool
  | .publishDevice | .tryPublishDevice => true
  | .publishNode | .tryPublishNode => false

/-- one call on the `Client` trait object: method, the `message_type` and the `topic` string of
the `NodeTopic` / `DeviceTopic` handed over, the payload -/
structure Call where
  method : Method
  verb : Verb
  topic : Bytes
  payload : WirePayload
  deriving Repr

/-- the `match topic.0` of `publish_metrics` (`try_ = false`) / `try_publish_metrics` (`true`) -/
def clientCall (try_ : Bool) (t : PublishTopic) (p : WirePayload) : Call :=
  match t with
  | .node g n =>
    { method := if try_ then .tryPublishNode else .publishNode, verb := .cmd,
      topic := nodeTopic g .cmd n, payload := p }
  | .device g n d =>
    { method := if try_ then .tryPublishDevice else .publishDevice, verb := .cmd,
      topic := deviceTopic g .cmd n d, payload := p }

/-- `AppClient::publish_metrics` -/
def publishMetrics (clock : Nat) (t : PublishTopic) (ms : List PublishMetric) : Call :=
  clientCall false t (metricsToPayload clock ms)

/-- `AppClient::try_publish_metrics` -/
def tryPublishMetrics (clock : Nat) (t : PublishTopic) (ms : List PublishMetric) : Call :=
  clientCall true t (metricsToPayload clock ms)

/-- either of the two -/
def send (try_ : Bool) (clock : Nat) (t : PublishTopic) (ms : List PublishMetric) : Call :=
  if try_ then tryPublishMetrics clock t ms else publishMetrics clock t ms

/-- the metric of `publish_node_rebirth`:
`PublishMetric::new(MetricId::Name(NODE_CONTROL_REBIRTH.into()), true)` -/
def rebirthMetric : PublishMetric := PublishMetric.newTyped (.name rebirthName) .bool (.b true)

/-- `AppClient::publish_node_rebirth` -/
def publishNodeRebirth (clock : Nat) (g n : Bytes) : Call :=
  publishMetrics clock (.node g n) [rebirthMetric]

/-! ### the broker: MQTT topic-filter matching against the node's subscriptions -/

def PLUS : Bytes := [0x2b]
def HASH : Bytes := [0x23]

/-- level-wise match: `+` matches exactly one level, a final `#` all remaining levels (also
none), any other level must be equal -/
def matchLv : List Bytes → List Bytes → Bool
  | [], [] => true
  | [], _ :: _ => false
  | f :: fs, ts =>
    if f = HASH && fs.isEmpty then true
    else
      match ts with
      | [] => false
      | t :: ts' => (f = PLUS || f = t) && matchLv fs ts'

def mqttMatch (filter topic : Bytes) : Bool := matchLv (splitSlash filter) (splitSlash topic)

/-- `EoNState::sub_topics`: the node's NCMD topic, its DCMD topics (`+` for the device) and
`spBv1.0/STATE/#` -/
def nodeFilters (group node : Bytes) : List Bytes :=
  [nodeTopic group .cmd node, deviceTopic group .cmd node PLUS, Topic.stateHostTopic HASH]

/-- an edge node as the command path sees it from outside: its ids and the ids of its
registered devices (device `k` of `Srad.Cmd` = position `k`) -/
structure NodeCfg where
  group : Bytes
  node : Bytes
  devices : List Bytes := []
  deriving DecidableEq, Repr

/-- the broker hands a publish on `topic` to the node -/
def brokerDelivers (cfg : NodeCfg) (topic : Bytes) : Bool :=
  (nodeFilters cfg.group cfg.node).any (fun f => mqttMatch f topic)

/-! ### the node: event → input of `Srad.Cmd.step` -/

/-- `DeviceMap::handle_device_message`: look the device id up in the map -/
def devToken : List Bytes → Bytes → Option Nat
  | [], _ => none
  | x :: t, d => if x = d then some 0 else (devToken t d).map (· + 1)

/-- `MessageKind` of the event ↦ the kind `Srad.Cmd` distinguishes -/
def msgKind : Topic.Kind → MsgKind
  | .birth => .birth | .death => .death | .data => .data | .cmd => .cmd | .other _ => .other

/-- `Node::handle_event`: a node message goes to the node task whatever ids the event carries;
a device message to the device registered under its device id; STATE and invalid publishes are
ignored -/
def nodeOp (cfg : NodeCfg) : Topic.Event WirePayload → Option Op
  | .node _ _ k p => some (.node (.msg (msgKind k) p.toCmd))
  | .device _ _ d k p =>
    match devToken cfg.devices d with
    | some t => some (.dev t (.cmd (msgKind k) p.toCmd))
    | none => none
  | _ => none

/-- what becomes of a client call on its way to the node `cfg` -/
inductive Fate where
  | unrouted            -- no subscription of the node matches the topic
  | ignored             -- handed to the node's client, which makes nothing of it for the managers
  | handled (op : Op)   -- input of the node task / of a device task

/-- topic string + encoded payload through the broker and `topic_and_payload_to_event` -/
def transport (valid : Bytes → Bool) (enc : WirePayload → Bytes) (dec : Bytes → Option WirePayload)
    (cfg : NodeCfg) (c : Call) : Fate :=
  if !brokerDelivers cfg c.topic then .unrouted
  else
    match nodeOp cfg (Topic.parse valid dec c.topic (enc c.payload)) with
    | some op => .handled op
    | none => .ignored

/-- host call → wire → node: state and effects of the node `cfg` in state `st` -/
def endToEnd (valid : Bytes → Bool) (enc : WirePayload → Bytes) (dec : Bytes → Option WirePayload)
    (cfg : NodeCfg) (decs : List Dec) (st : St) (c : Call) : St × List Eff :=
  match transport valid enc dec cfg c with
  | .handled op => step decs st op
  | _ => (st, [])

/-- what a manager is handed for a host metric: its identifier, its timestamp, its value -/
def PublishMetric.asDelivered (p : PublishMetric) : MessageMetric :=
  { id := p.id, ts := p.ts, value := some p.value }

end Srad.HostCmd
