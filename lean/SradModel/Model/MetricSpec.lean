/-
Vocabulary needed only to *state* C12 (not linked into any decision the model takes): what it
means for a published metric to have been delivered, for a property set to be the same map,
for a nested property set to read the same along every path, for a batch to be stably sorted.
Written without reference to the conversion functions of `Model/Metric.lean` wherever the
property text names a field.
-/
import SradModel.Model.Metric

namespace Srad.Metric
open Srad.Codec (Bytes DT)

/-! ### hash-map well-formedness: the keys of a `HashMap` are distinct, at every nesting level -/

mutual
def UVal.WF : UVal → Prop
  | .null => True
  | .sc _ => True
  | .set es => (encKeys es).Nodup ∧ entsWF es
  | .sets l => setsWF l
def entsWF : List UEnt → Prop
  | [] => True
  | (_, _, v) :: t => UVal.WF v ∧ entsWF t
def setsWF : List (List UEnt) → Prop
  | [] => True
  | s :: t => ((encKeys s).Nodup ∧ entsWF s) ∧ setsWF t
end

/-- keys distinct in the set and in every set nested in it -/
def UPS.WF (m : UPS) : Prop := (encKeys m).Nodup ∧ entsWF m

/-- keys distinct at the top level -/
def UPS.KeysDistinct (m : UPS) : Prop := (m.map (·.1)).Nodup

/-! ### a property set is the same map -/

/-- The host's map `h` is the edge's map `m`: under every key the same datatype and the same
value — a scalar as it is, no value as no value, a nested set (list) as the very payload
property set (list) the edge holds for it (read further by `C12_props_nested`). -/
def PropsMatch (m : UPS) (h : HMap) : Prop :=
  ∀ k, mapGet h k = (mapGet m k).map fun e => (e.1, encVal e.2)

/-- scalar and null entries, spelled out: what `PropsMatch` says for them -/
def PropsMatchLeaves (m : UPS) (h : HMap) : Prop :=
  (∀ k dt v, mapGet m k = some (dt, .sc v) → mapGet h k = some (dt, .sc v)) ∧
  (∀ k dt, mapGet m k = some (dt, .null) → mapGet h k = some (dt, .none)) ∧
  (∀ k, mapGet m k = none → mapGet h k = none)

/-! ### nested sets: reading along a path -/

/-- one step down from a value: `none` = into the nested set, `some i` = into the i-th set of a
set list; paired with the key to look up there -/
abbrev Path := List (Option Nat × Str)

/-- edge side: descend into a value the user inserted -/
def UVal.descend : UVal → Option Nat → Option UPS
  | .set es, none => some es
  | .sets l, some i => l[i]?
  | _, _ => none

/-- edge side: the entry under key `k`, then along `p` -/
def UPS.lookup : Path → UPS → Str → Option (Option DT × UVal)
  | [], m, k => mapGet m k
  | (s, k') :: p, m, k =>
    match mapGet m k with
    | none => none
    | some (_, v) =>
      match v.descend s with
      | none => none
      | some m' => UPS.lookup p m' k'

/-- host side: descend into a received value with srad's own conversions
(`PropertySet::try_from(value)`, `PropertySetList::try_from(value)`) -/
def hostDescend (v : PVal) : Option Nat → Option HMap
  | none => match setOfValue v with | .ok m => some m | _ => none
  | some i => match setsOfValue v with | .ok l => l[i]? | _ => none

/-- host side: the entry under key `k`, then along `p` -/
def HMap.lookup : Path → HMap → Str → Option HEnt
  | [], h, k => mapGet h k
  | (s, k') :: p, h, k =>
    match mapGet h k with
    | none => none
    | some (_, v) =>
      match hostDescend v s with
      | none => none
      | some h' => HMap.lookup p h' k'

/-- what is observable at the end of a path: the datatype and null / the scalar / "a set" / "a
list of n sets" -/
inductive Leaf where
  | null | scalar (v : Scalar) | aSet | aList (n : Nat)
  deriving DecidableEq, Repr

def UVal.leaf : UVal → Leaf
  | .null => .null | .sc v => .scalar v | .set _ => .aSet | .sets l => .aList l.length

def PVal.leaf : PVal → Leaf
  | .none => .null | .sc v => .scalar v | .set _ _ => .aSet | .sets l => .aList l.length

/-! ### metadata, delivery -/

/-- the six metadata fields an edge node can set arrive unchanged; the two it cannot set
(`is_multi_part`, `seq`) are absent -/
def MetaSame (e : EMeta) (p : PMeta) : Prop :=
  p.description = e.description ∧ p.contentType = e.contentType ∧ p.size = e.size ∧
  p.md5 = e.md5 ∧ p.fileName = e.fileName ∧ p.fileType = e.fileType ∧
  p.isMultiPart = none ∧ p.seq = none

def OptRel {α β : Type} (r : α → β → Prop) : Option α → Option β → Prop
  | none, none => True
  | some a, some b => r a b
  | _, _ => False

/-- the store entry `e` is the published metric `pm`: same identifier, value (or null),
timestamp, flags (absent = false), metadata, and a property set equal as a map -/
structure Delivered (pm : PubMetric) (e : MetricId × Details) : Prop where
  identifier : e.1 = pm.id
  value : e.2.value = pm.value
  timestamp : e.2.timestamp = pm.timestamp
  historical : e.2.isHistorical = pm.isHistorical.getD false
  transient : e.2.isTransient = pm.isTransient.getD false
  metadata : OptRel MetaSame pm.metadata e.2.metadata
  properties : OptRel PropsMatch pm.properties e.2.properties

/-- two lists related entry by entry, in order (same length) -/
inductive InOrder {α β : Type} (r : α → β → Prop) : List α → List β → Prop where
  | nil : InOrder r [] []
  | cons {a : α} {b : β} {as : List α} {bs : List β} :
      r a b → InOrder r as bs → InOrder r (a :: as) (b :: bs)

/-- the property sets a publish metric carries are hash maps (distinct keys) -/
def PubMetric.WF (pm : PubMetric) : Prop := ∀ m, pm.properties = some m → UPS.KeysDistinct m

/-! ### typed values: the metric value of a Rust value (codecs of C10) -/

/-- the metric value holding a protobuf value of the codec model (scalars and byte arrays) -/
def MVal.ofPV : Srad.Codec.PV → Option MVal
  | .int n => some (.int n) | .long n => some (.long n) | .float n => some (.float n)
  | .double n => some (.double n) | .bool b => some (.bool b) | .str s => some (.str s)
  | .bytes b => some (.bytes b) | _ => none

/-- and back (content of data sets / templates is not part of the codec model) -/
def MVal.toPV : MVal → Srad.Codec.PV
  | .int n => .int n | .long n => .long n | .float n => .float n | .double n => .double n
  | .bool b => .bool b | .str s => .str s | .bytes b => .bytes b | .dataset _ => .dataset
  | .template _ => .template none false | .ext => .ext

/-! ### batches -/

/-- `sorted` is `ms` stably sorted by timestamp: a permutation, ascending, and metrics with
equal timestamps keep their published order -/
def StableSortedByTs (ms sorted : List PubMetric) : Prop :=
  sorted.Perm ms ∧ sorted.Pairwise (fun a b => a.timestamp ≤ b.timestamp) ∧
  ∀ t, sorted.filter (fun m => m.timestamp == t) = ms.filter (fun m => m.timestamp == t)

/-- the edge node may publish: online, node birthed (and, for a device handle, device birthed) -/
def EdgeState.Ready (s : EdgeState) : Prop := s.online = true ∧ s.birthed = true

/-- prost, as far as the theorems need it -/
def WireSound (enc : Payload → Bytes) (dec : Bytes → Option Payload) : Prop :=
  ∀ p, dec (enc p) = some p

/-! ### payload property sets the host must refuse (C19 clause) -/

/-- a payload property value is acceptable: a value or an explicit null, and a type code (if any)
that names a datatype -/
def PPV.Acceptable (p : PPV) : Prop :=
  (p.2.2 = PVal.none → p.2.1 = some true) ∧ (∀ c, p.1 = some c → c < 35)

/-- a payload property set is acceptable: as many values as keys, every value acceptable -/
def PSet.Acceptable (s : PSet) : Prop :=
  s.1.length = s.2.length ∧ ∀ p ∈ s.2, PPV.Acceptable p

end Srad.Metric
